import A2Verif.Lemmas.Packing
/-! `desequence` forgets the previous chunk map and eof value. -/
namespace A2Verif.Packing

/-- on any image with the same chunk length and eof width, `desequence` produces the same chunks
and eof, and passes every other field through -/
theorem desequence_as_update (f g : FImg) (x : Bytes) (h1 : g.chunkLen = f.chunkLen)
    (h2 : g.eof.length = f.eof.length) :
    desequence g x = { g with chunks := (desequence f x).chunks, eof := (desequence f x).eof } := by
  unfold desequence
  by_cases hx : x = []
  · simp only [hx, if_true, h2]
  · simp only [hx, if_false, h1, h2]

/-- **`desequence` does not depend on what the image held before** -/
theorem desequence_desequence (f : FImg) (y x : Bytes) : desequence (desequence f y) x = desequence f x := by
  rw [desequence_as_update f (desequence f y) x (desequence_chunkLen f y) (desequence_eof_length f y)]
  unfold desequence
  by_cases hy : y = [] <;> by_cases hx : x = [] <;> simp only [hx, hy, if_true, if_false]

@[simp] theorem desequence_fsType (f : FImg) (x : Bytes) : (desequence f x).fsType = f.fsType := by
  unfold desequence; split <;> rfl
@[simp] theorem desequence_aux (f : FImg) (x : Bytes) : (desequence f x).aux = f.aux := by
  unfold desequence; split <;> rfl
@[simp] theorem desequence_access (f : FImg) (x : Bytes) : (desequence f x).access = f.access := by
  unfold desequence; split <;> rfl

/-- every packer's result has this shape; packing again into it is packing into the original -/
theorem repack_shape (f : FImg) (y x a b c e : Bytes) (he : e.length = f.eof.length) :
    desequence { desequence f y with fsType := a, aux := b, access := c, eof := e } x =
      { desequence f x with fsType := a, aux := b, access := c } := by
  rw [desequence_as_update f ({ desequence f y with fsType := a, aux := b, access := c, eof := e } : FImg) x
    (desequence_chunkLen f y) he]
  unfold desequence
  by_cases hy : y = [] <;> by_cases hx : x = [] <;> simp only [hx, hy, if_true, if_false]

/-- the same with the fields the first packing left alone -/
theorem repack_shape' (f : FImg) (y x : Bytes) (a b c e : Bytes) (he : e.length = f.eof.length)
    (g : FImg) (hg : g = { desequence f y with fsType := a, aux := b, access := c, eof := e }) :
    desequence g x = { desequence f x with fsType := g.fsType, aux := g.aux, access := g.access } := by
  subst hg; exact repack_shape f y x a b c e he

end A2Verif.Packing
