import A2Verif.Model.Merlin
import A2Verif.Lemmas.Detok
/-! C14 round 2: Merlin line format — the detokenizer decodes what the encoding produces -/
namespace A2Verif.Merlin
open A2Verif.Detok

theorem detokLoop_wf : ∀ (t : List Nat) (n : Nat) (line : List Nat), wfLines n t = true →
    (detokLoop t line).isOk = true := by
  intro t
  induction t with
  | nil => intro n line _; simp [detokLoop, Outcome.isOk]
  | cons b rest ih =>
    intro n line h
    simp only [wfLines] at h
    unfold detokLoop
    split at h
    · rename_i hb
      simp only [hb, if_true]
      have := ih 0 [] (by simp at h; exact h.2)
      cases hd : detokLoop rest [] <;> simp_all [Outcome.map, Outcome.isOk]
    · rename_i hb
      simp only [Bool.and_eq_true, Bool.or_eq_true, decide_eq_true_eq] at h
      have hr := h.2
      simp only [hb, if_false]
      split
      · exact ih _ _ hr
      · split
        · exact ih _ _ hr
        · split
          · rename_i h160 h32 h128
            exfalso
            rcases h.1 with h1 | h1
            · exact h32 (Or.inl h1)
            · omega
          · exact ih _ _ hr

/-- decoding a column of encoded characters appends the characters to the pending line -/
theorem detokLoop_col : ∀ (col X line : List Nat), (∀ c ∈ col, colCharOK c = true) →
    detokLoop (col.map encChar ++ X) line = detokLoop X (line ++ col) := by
  intro col
  induction col with
  | nil => intro X line _; simp
  | cons c cs ih =>
    intro X line h
    have hc : 32 ≤ c ∧ c < 128 := by
      have := h c (by simp); simpa [colCharOK] using this
    have hcs : ∀ x ∈ cs, colCharOK x = true := fun x hx => h x (by simp [hx])
    simp only [List.map_cons, List.cons_append]
    conv => lhs; unfold detokLoop
    by_cases h32 : c = 32
    · subst h32
      simp [encChar, ih X _ hcs]
    · have he : encChar c = c + 128 := by simp [encChar, hc.2, h32]
      rw [he]
      have a1 : ¬ (c + 128 = 141) := by omega
      have a2 : ¬ (c + 128 = 160) := by omega
      have a3 : ¬ (c + 128 = 32 ∨ c + 128 = 9) := by omega
      have a4 : ¬ (c + 128 < 128) := by omega
      simp only [a1, a2, a3, a4, if_false]
      rw [ih X _ hcs]
      simp

/-- the pending line after decoding columns: separator + column, repeated -/
def tailJoin (cs : List (List Nat)) : List Nat := cs.foldr (fun col acc => SEP :: col ++ acc) []

def encTail (cs : List (List Nat)) : List Nat := cs.foldr (fun col acc => 160 :: col.map encChar ++ acc) [141]

theorem detokLoop_tail : ∀ (cs : List (List Nat)) (X line : List Nat),
    (∀ col ∈ cs, ∀ c ∈ col, colCharOK c = true) →
    detokLoop (encTail cs ++ X) line =
      (detokLoop X []).map fun tl => fmtLine (line ++ tailJoin cs) ++ [10] ++ tl := by
  intro cs
  induction cs with
  | nil =>
    intro X line _
    simp only [encTail, tailJoin, List.foldr_nil, List.append_nil, List.cons_append, List.nil_append]
    conv => lhs; unfold detokLoop
    simp
  | cons col cs ih =>
    intro X line h
    have hcol : ∀ c ∈ col, colCharOK c = true := h col (by simp)
    have hcs : ∀ col ∈ cs, ∀ c ∈ col, colCharOK c = true := fun k hk => h k (by simp [hk])
    have e1 : encTail (col :: cs) ++ X = 160 :: (col.map encChar ++ (encTail cs ++ X)) := by
      simp [encTail]
    rw [e1]
    conv => lhs; unfold detokLoop
    simp only [show ¬ (160 = 141) by decide, if_false, if_true]
    rw [detokLoop_col col _ _ hcol, ih X _ hcs]
    simp [tailJoin]

theorem splitSep_join : ∀ (cs : List (List Nat)) (c : List Nat),
    (∀ x ∈ c, x ≠ SEP) → (∀ col ∈ cs, ∀ x ∈ col, x ≠ SEP) → splitSep (c ++ tailJoin cs) = c :: cs := by
  intro cs
  induction cs with
  | nil =>
    intro c hc _
    simp only [tailJoin, List.foldr_nil, List.append_nil]
    induction c with
    | nil => rfl
    | cons x xs ihx =>
      have hx : x ≠ SEP := hc x (by simp)
      have := ihx (fun y hy => hc y (by simp [hy]))
      simp [splitSep, this, hx]
  | cons col cs ih =>
    intro c hc hcs
    have hcol : ∀ x ∈ col, x ≠ SEP := hcs col (by simp)
    have hrest : ∀ k ∈ cs, ∀ x ∈ k, x ≠ SEP := fun k hk => hcs k (by simp [hk])
    have hbase : splitSep (tailJoin (col :: cs)) = [] :: col :: cs := by
      have := ih col hcol hrest
      simp only [tailJoin, List.foldr_cons, List.cons_append] at this ⊢
      simp only [splitSep, this, if_true]
    induction c with
    | nil => simpa using hbase
    | cons x xs ihx =>
      have hx : x ≠ SEP := hc x (by simp)
      have := ihx (fun y hy => hc y (by simp [hy]))
      simp only [List.cons_append, splitSep, this, hx, if_false]

/-- **Merlin line format round trip on the model**: encoding a line given as its columns (joined by
`A0`, high bit set except on blanks, `8D`) and running the detokenizer's decoding loop gives back
exactly those columns to the column formatter, for every list of columns over printable ASCII (blanks
inside columns included), whatever follows in the stream -/
theorem detok_encLine (c : List Nat) (cs : List (List Nat)) (X : List Nat)
    (h : ∀ col ∈ c :: cs, ∀ x ∈ col, colCharOK x = true) :
    detokLoop (encLine (c :: cs) ++ X) [] =
      (detokLoop X []).map fun tl => trimEnd (fmtCols 0 (c :: cs)) ++ [10] ++ tl := by
  have hc : ∀ x ∈ c, colCharOK x = true := h c (by simp)
  have hcs : ∀ col ∈ cs, ∀ x ∈ col, colCharOK x = true := fun k hk => h k (by simp [hk])
  have hne : ∀ x, colCharOK x = true → x ≠ SEP := by
    intro x hx; simp [colCharOK] at hx; simp [SEP]; omega
  have e : encLine (c :: cs) ++ X = c.map encChar ++ (encTail cs ++ X) := by
    simp [encLine, encTail]
  rw [e, detokLoop_col c _ _ hc, detokLoop_tail cs X _ hcs]
  have hs : splitSep (c ++ tailJoin cs) = c :: cs :=
    splitSep_join cs c (fun x hx => hne x (hc x hx)) (fun k hk x hx => hne x (hcs k hk x hx))
  simp [fmtLine, hs]

end A2Verif.Merlin
