import A2Verif.Lemmas.FsProdosSubW
import A2Verif.Lemmas.FsProdosModR
/-!
# One entry of a first-level sub-directory rewritten in place: the reading afterwards

`entry_patch_key`: the image with one slot of a directory replaced is a `DirPatchK`.  `sub_replace_reading`:
`replace_reading` one level down — the slot of a file entry of the sub-directory is overwritten with an entry that leads to the
same blocks, has a uniform access byte and a path that is the old one or fresh; after `get_img()` the state satisfies `SInv`
again and the reading is the old one with that record replaced by `reRec e' pfx f` at the same position.
-/
namespace A2Verif.FsProdos
open A2Verif.Fs.Prodos
open A2Verif.Read.Prodos (entryAt dirChain idxPtr indexEntries readData trimName bitmapFree)
open A2Verif.Read.ProdosT

/-- the image with slot `k + 1` of block `B` of the directory with key block `key` replaced by the 39 bytes `new` -/
theorem entry_patch_key {r : Raw} {key : Nat} {ch : List Nat} {B k : Nat} (new : Bytes)
    (hshape : ∀ b ∈ ch, b < r.units.size ∧ (unitAt r b).length = 512 ∧ ∀ x ∈ unitAt r b, x < 256)
    (hB : B ∈ ch) (hK : key ∈ ch) (hk : k < 13) (hkey : B = key → 1 ≤ k) (hnl : new.length ≤ 39) (hnb : ∀ x ∈ new, x < 256) :
    DirPatchK r (setUnit r B (patched (unitAt r B) (4 + k * 39) new)) key ch B k := by
  have hBsz := (hshape B hB).1
  have hlenB := (hshape B hB).2.1
  have hun : ∀ b, unitAt (setUnit r B (patched (unitAt r B) (4 + k * 39) new)) b =
      if b = B then patched (unitAt r B) (4 + k * 39) new else unitAt r b := by
    intro b
    by_cases hb : b = B
    · subst hb; rw [if_pos rfl]; unfold unitAt; rw [setUnit_self _ _ _ hBsz]; rfl
    · rw [if_neg hb, unitAt_setUnit_other _ _ _ _ (Ne.symm hb)]
  have hsame : ∀ b ∈ ch, ∀ j, j < 511 → (b = B → j < 4 + k * 39 ∨ 4 + k * 39 + 39 ≤ j) →
      (unitAt (setUnit r B (patched (unitAt r B) (4 + k * 39) new)) b).getD j 0 = (unitAt r b).getD j 0 := by
    intro b hb j hj hout
    rw [hun b]
    split
    · next hbB =>
      subst hbB
      rw [getD_patched_out _ _ _ j hlenB (by omega) (by have := hout rfl; omega) hj]
    · rfl
  refine ⟨setUnit_size _ _ _, ?_, ?_, ?_, ?_⟩
  · intro b hb
    unfold le16
    rw [hsame b hb 0 (by omega) (fun _ => Or.inl (by omega)), hsame b hb 1 (by omega) (fun _ => Or.inl (by omega)),
      hsame b hb 2 (by omega) (fun _ => Or.inl (by omega)), hsame b hb 3 (by omega) (fun _ => Or.inl (by omega))]
    exact ⟨rfl, rfl⟩
  · intro j hj
    apply hsame key hK j (by omega)
    intro hb2; have := hkey hb2.symm; left; omega
  · intro b hb k' hk' hkey' hne
    unfold entryAt
    apply slice_congr _ _ _ _ (by
      rw [hun b]; split
      · next hbB => rw [patched_length, hbB, hlenB]
      · rfl)
    intro j hj1 hj2
    apply hsame b hb j (by omega)
    intro hbB
    have hkk : k' ≠ k := fun e => hne (by rw [hbB, e])
    have : k' < k ∨ k < k' := by omega
    rcases this with h | h
    · have : k' * 39 + 39 ≤ k * 39 := by have := Nat.mul_le_mul_right 39 (show k' + 1 ≤ k by omega); omega
      left; omega
    · have : k * 39 + 39 ≤ k' * 39 := by have := Nat.mul_le_mul_right 39 (show k + 1 ≤ k' by omega); omega
      right; omega
  · intro b hb
    rw [hun b]
    split
    · exact ⟨patched_length _ _ _, patched_bytes _ _ _ hlenB (by omega) (hshape B hB).2.2 hnb⟩
    · exact ⟨(hshape b hb).2.1, (hshape b hb).2.2⟩

/-- **one file entry of a sub-directory rewritten in place** -/
theorem sub_replace_reading {d d1 : Disk} (hs : SInv d) (v : Vol) (fsL : List LRec) (ch : List Nat)
    (hr : Read.ProdosT.read d.raw = .ok v) (ht : readTree d.raw (hdrTotal d.raw) = .ok (fsL, ch))
    (B k : Nat) (hB : B ∈ ch) (hk13 : k < 13) (hkey : B = 2 → 1 ≤ k)
    (ex : Bytes) (hex : ex = entryAt (unitAt d.raw B) k 39) (hd : ex.getD 0 0 / 16 = 0xD)
    (sch : List Nat) (hc : dirChain d.raw (hdrTotal d.raw) 1000 (le16 ex 0x11) [] = .ok sch)
    (B' k' : Nat) (hB' : B' ∈ sch) (hk13' : k' < 13) (hkey' : B' = le16 ex 0x11 → 1 ≤ k')
    (ey : Bytes) (hey : ey = entryAt (unitAt d.raw B') k' 39)
    (hst : ey.getD 0 0 / 16 = 1 ∨ ey.getD 0 0 / 16 = 2 ∨ ey.getD 0 0 / 16 = 3)
    (e' : Bytes) (hl : e'.length = 39) (hb : ∀ x ∈ e', x < 256) (hsb : SameBlocks ey e')
    (hua : UniformAcc (e'.getD 30 0))
    (n : Next d d1 (hdrBm d.raw) (nbmOf (hdrTotal d.raw))
      (setUnit d.raw B' (patched (unitAt d.raw B') (4 + k' * 39) e'))
      (clearBit (effBuf d (hdrBm d.raw) (nbmOf (hdrTotal d.raw))) B'))
    (hpath : ∀ f, Read.ProdosT.readFile d.raw (hdrTotal d.raw) ey (baseRec ex []).path = .ok f →
      (baseRec e' (baseRec ex []).path).path = f.path ∨ (baseRec e' (baseRec ex []).path).path ∉ v.paths) :
    ∃ d4 v4 f FA FB, d1.flush = (.ok (), d4) ∧ SInv d4 ∧ Read.ProdosT.read d4.raw = .ok v4 ∧
      Read.ProdosT.readFile d.raw (hdrTotal d.raw) ey (baseRec ex []).path = .ok f ∧
      v.files = FA ++ f :: FB ∧ v4.files = FA ++ reRec e' (baseRec ex []).path f :: FB ∧ v4.wfB = true ∧ v.wfB = true ∧
      v4.label = v.label := by
  obtain ⟨v', fsL', ch', hr', ht', c, hts, heff, hbsz, hbok⟩ := hs.ctx
  have e1 : v' = v := by rw [hr] at hr'; injection hr' with h; exact h.symm
  subst e1
  have e2 : fsL' = fsL ∧ ch' = ch := by
    rw [ht] at ht'; injection ht' with h; injection h with h1 h2; exact ⟨h1.symm, h2.symm⟩
  obtain ⟨rfl, rfl⟩ := e2
  obtain ⟨hw, hn, hroot, hvv, hcr, hic, hnd, hchf, h2, h6, h3, hbt, hstv⟩ := root_chain_facts hs.inv v' fsL' ch' hr ht
  have hsz := hs.inv.size
  have hxm : (ex, B, k + 1) ∈ dirSlots d.raw 2 ch' := mem_dirSlots.mpr ⟨B, hB, k, hk13, hkey, by rw [hex]⟩
  obtain ⟨sch0, hc0, htail, sc, hschf, hK2⟩ := hs.subctx v' fsL' ch' hr ht (ex, B, k + 1) hxm hd
  simp only at hc0 htail sc hK2
  have hse : sch0 = sch := by rw [hc] at hc0; injection hc0 with e; exact e.symm
  subst hse
  obtain ⟨hnl, hgeo, hprev, hlen, hhdr, hp1, hp2, hslots⟩ := htail
  simp only at hgeo hhdr hp1 hp2 hslots
  have hym : (ey, B', k' + 1) ∈ dirSlots d.raw (le16 ex 0x11) sch0 :=
    mem_dirSlots.mpr ⟨B', hB', k', hk13', hkey', by rw [hey]⟩
  obtain ⟨f, hrf, hgy, hown, hkeyp, huay, hcly⟩ :=
    sub_file_rec hs.inv v' fsL' ch' hr ht (ex, B, k + 1) hxm hd sch0 hc (ey, B', k' + 1) hym hst
  simp only at hrf hgy hown hkeyp huay hcly
  obtain ⟨hsplit, h1, h2', hfs2, hfiles, hdisj, hxnd, hxown, hall, hcnt0⟩ :=
    slot_split_facts hs.inv v' fsL' ch' hr ht _ hxm
  simp only at hsplit h1 h2' hfs2 hfiles hdisj hxnd hxown
  obtain ⟨htsplit, g1, g2, hgx, hsdis, hyown, hschown, hynd, hsall, hscnt0⟩ :=
    sub_slot_facts hs.inv v' fsL' ch' hr ht (ex, B, k + 1) hxm hd sch0 hc hgeo (ey, B', k' + 1) hym
  simp only at htsplit g1 g2 hgx hsdis hyown hsall hscnt0
  rw [hgy] at hgx hyown hsdis
  simp only [List.map_cons, List.map_nil, List.flatMap_cons, List.flatMap_nil, List.append_nil] at hyown hsdis
  have hKm : le16 ex 0x11 ∈ sch0 := sc.mem
  have hshapech : ∀ b ∈ sch0, b < d.raw.units.size ∧ (unitAt d.raw b).length = 512 ∧ ∀ x ∈ unitAt d.raw b, x < 256 :=
    fun b hb' => ⟨(hschf b hb').2.2.2.1, (hschf b hb').2.2.2.2.1, (hschf b hb').2.2.2.2.2.1⟩
  have hBsz := (hshapech B' hB').1
  have hlenB := (hshapech B' hB').2.1
  have hpatch := entry_patch_key (r := d.raw) (key := le16 ex 0x11) e' hshapech hB' hKm hk13' hkey' (by omega) hb
  -- the new image
  have hu3B : unitAt (setUnit d.raw B' (patched (unitAt d.raw B') (4 + k' * 39) e')) B' = patched (unitAt d.raw B') (4 + k' * 39) e' := by
    unfold unitAt; rw [setUnit_self _ _ _ hBsz]; rfl
  have he'' : entryAt (unitAt (setUnit d.raw B' (patched (unitAt d.raw B') (4 + k' * 39) e')) B') k' 39 = e' := by
    rw [hu3B]; exact entryAt_patched_self _ _ k' hlenB hl hk13'
  have hnotown : B' ∉ f.owned := fun hm => (hyown B' hm).2 hB'
  have hshape3 : ShapeOk (setUnit d.raw B' (patched (unitAt d.raw B') (4 + k' * 39) e')) := by
    apply shapeOk_of_units
    intro j hj
    rw [setUnit_size] at hj
    by_cases hjB : j = B'
    · subst hjB; exact hpatch.shape j hB'
    · rw [unitAt_setUnit_other _ _ _ _ (Ne.symm hjB)]; exact hs.inv.shape.unit hj
  have hact0 : isAct (ey, B', k' + 1) = true := by
    unfold isAct; simp only [ne_eq, decide_eq_true_eq]; omega
  have hact' : isAct (e', B', k' + 1) = true := by
    unfold isAct; simp only [ne_eq, decide_eq_true_eq]; rw [hsb.st]; omega
  have hcount3 : le16 (unitAt (setUnit d.raw B' (patched (unitAt d.raw B') (4 + k' * 39) e')) (le16 ex 0x11)) 37 =
      le16 (unitAt d.raw (le16 ex 0x11)) 37 := by
    by_cases hb2 : B' = le16 ex 0x11
    · have hk1 := hkey' hb2
      rw [← hb2, hu3B, le16_patched_out _ _ _ 37 hlenB (by omega) (Or.inl (by omega)) (by omega)]
    · rw [unitAt_setUnit_other _ _ _ _ hb2]
  have hcnt3 : le16 (unitAt (setUnit d.raw B' (patched (unitAt d.raw B') (4 + k' * 39) e')) (le16 ex 0x11)) 37 =
      ((sBefore (dirSlots d.raw (le16 ex 0x11) sch0) (B', k' + 1) ++ (e', B', k' + 1) ::
        sAfter (dirSlots d.raw (le16 ex 0x11) sch0) (B', k' + 1)).filter isAct).length := by
    rw [hcount3, ← hscnt0]
    conv => lhs; rw [htsplit]
    rw [filter_length_mid, filter_length_mid, hact0, hact']
  -- the record of the new entry
  have hst' : e'.getD 0 0 / 16 = 1 ∨ e'.getD 0 0 / 16 = 2 ∨ e'.getD 0 0 / 16 = 3 := by rw [hsb.st]; exact hst
  have hrf3 : Read.ProdosT.readFile (setUnit d.raw B' (patched (unitAt d.raw B') (4 + k' * 39) e')) (hdrTotal d.raw) e'
      (baseRec ex []).path = .ok (reRec e' (baseRec ex []).path f) := by
    rw [readFile_same _ _ _ e' _ hsb,
      readFile_congr d.raw _ (hdrTotal d.raw) _ _ f hrf (fun j hj => setUnit_other _ _ _ _ (fun e => hnotown (by rw [e]; exact hj)))]
    rfl
  have hkey'' : ¬ (le16 e' 0x11 = 0 ∨ le16 e' 0x11 ≥ hdrTotal d.raw) := by rw [hsb.key]; exact hkeyp
  have hRE3 := RE_file_of 68 (setUnit d.raw B' (patched (unitAt d.raw B') (4 + k' * 39) e')) (hdrTotal d.raw) (baseRec ex []).path 1
    (e', B', k' + 1) (reRec e' (baseRec ex []).path f) hst' hkey'' hrf3
  have hsr3 : slotRecs 68 (setUnit d.raw B' (patched (unitAt d.raw B') (4 + k' * 39) e')) (hdrTotal d.raw) (baseRec ex []).path 1
      (e', B', k' + 1) = [(reRec e' (baseRec ex []).path f, B', k' + 1)] := by
    unfold slotRecs; rw [if_pos hact', hRE3]; rfl
  -- the buffer
  have hndw := (wfB_iff.1 hw).2.1
  have hBused := (hschf B' hB').2.2.2.2.2.2.2
  have hcovB := (hschf B' hB').2.2.2.2.2.2.1
  rw [heff] at n
  have hf3 : ∀ j, freeB (clearBit (bufOf d.raw (hdrBm d.raw) (nbmOf (hdrTotal d.raw))) B') j =
      freeB (bufOf d.raw (hdrBm d.raw) (nbmOf (hdrTotal d.raw))) j := freeB_clearBit_used _ B' hbok hcovB hBused
  have hbs3 : (clearBit (bufOf d.raw (hdrBm d.raw) (nbmOf (hdrTotal d.raw))) B').size = blockSize * nbmOf (hdrTotal d.raw) := by
    rw [size_clearBit, hbsz]
  have hbok3 := bytesOk_clearBit _ B' hbok
  have hnbm : ∀ u ∈ v'.allOwned, u ∉ bmRange (hdrBm d.raw) (nbmOf (hdrTotal d.raw)) := by
    intro u hu hm
    have hsysj : u ∈ v'.sys := by
      rw [hvv]; simp only
      rw [mem_bmRange] at hm
      apply List.mem_append_right
      rw [List.mem_map]; exact ⟨u - hdrBm d.raw, List.mem_range.mpr (by omega), by omega⟩
    rw [List.nodup_append] at hndw
    exact hndw.2.2 _ hu _ hsysj rfl
  -- the reading
  obtain ⟨hrd4, htree4, htot4, hbm4, hsz4, hshape4, hgeo4, hprev4, hslotok4, hnames4, hsame4⟩ :=
    sub_patched_reading hs.inv v' fsL' ch' hr ht ex B k hxm hd sch0 hc ey B' k' hym [] hpatch
      (fun b hb' => setUnit_other _ _ _ _ (fun e => (hschf B' hB').2.1 (e ▸ hb')))
      (fun j _ hjs _ => setUnit_other _ _ _ _ (fun e => hjs (e ▸ hB')))
      (fun u hu => by cases hu) hshape3 _ _ rfl rfl _ _ rfl rfl e' he''.symm hcnt3 (fun _ => ⟨_, hRE3⟩)
      (fun j hj => by
        rw [hsr3]
        simp only [List.map_cons, List.map_nil, List.flatMap_cons, List.flatMap_nil, List.append_nil]
        show j ∉ f.owned
        intro hjo
        exact hnbm j (hyown j hjo).1 hj)
      _ hbs3 hbok3 _ rfl _ rfl
  rw [hsr3] at hrd4 htree4
  have hfree4 : (List.range (hdrTotal d.raw)).filter (freeB (clearBit (bufOf d.raw (hdrBm d.raw) (nbmOf (hdrTotal d.raw))) B')) =
      v'.freeUnits := by
    rw [hvv]; simp only
    apply List.filter_congr
    intro j _; exact hf3 j
  -- well-formedness
  obtain ⟨FA, hFA⟩ : ∃ FA, FA = ((sBefore (dirSlots d.raw 2 ch') (B, k + 1)).flatMap (slotRecs 69 d.raw (hdrTotal d.raw) [] 0)).map (·.1) ++
      dirRec ex [] sch0 :: ((sBefore (dirSlots d.raw (le16 ex 0x11) sch0) (B', k' + 1)).flatMap
        (slotRecs 68 d.raw (hdrTotal d.raw) (baseRec ex []).path 1)).map (·.1) := ⟨_, rfl⟩
  obtain ⟨FB, hFB⟩ : ∃ FB, FB = ((sAfter (dirSlots d.raw (le16 ex 0x11) sch0) (B', k' + 1)).flatMap
        (slotRecs 68 d.raw (hdrTotal d.raw) (baseRec ex []).path 1)).map (·.1) ++
      ((sAfter (dirSlots d.raw 2 ch') (B, k + 1)).flatMap (slotRecs 69 d.raw (hdrTotal d.raw) [] 0)).map (·.1) := ⟨_, rfl⟩
  have hfiles' : v'.files = FA ++ f :: FB := by
    rw [hfiles, hgx, hFA, hFB]
    simp only [List.map_cons, List.map_append, List.map_nil, List.append_assoc, List.cons_append, List.nil_append]
  obtain ⟨v4, hv4⟩ : ∃ v4 : Vol, v4 = {
      lo := 0
      hi := hdrTotal d.raw
      sys := v'.sys
      files := ((sBefore (dirSlots d.raw 2 ch') (B, k + 1)).flatMap (slotRecs 69 d.raw (hdrTotal d.raw) [] 0) ++
        ((dirRec ex [] sch0, B, k + 1) :: ((sBefore (dirSlots d.raw (le16 ex 0x11) sch0) (B', k' + 1)).flatMap
            (slotRecs 68 d.raw (hdrTotal d.raw) (baseRec ex []).path 1) ++
          [(reRec e' (baseRec ex []).path f, B', k' + 1)] ++
          (sAfter (dirSlots d.raw (le16 ex 0x11) sch0) (B', k' + 1)).flatMap
            (slotRecs 68 d.raw (hdrTotal d.raw) (baseRec ex []).path 1))) ++
        (sAfter (dirSlots d.raw 2 ch') (B, k + 1)).flatMap (slotRecs 69 d.raw (hdrTotal d.raw) [] 0)).map (·.1)
      freeUnits := (List.range (hdrTotal d.raw)).filter (freeB (clearBit (bufOf d.raw (hdrBm d.raw) (nbmOf (hdrTotal d.raw))) B'))
      label := v'.label } := ⟨_, rfl⟩
  rw [← hv4] at hrd4
  have hfiles4 : v4.files = FA ++ reRec e' (baseRec ex []).path f :: FB := by
    rw [hv4, hFA, hFB]
    simp only [List.map_cons, List.map_append, List.map_nil, List.append_assoc, List.cons_append, List.nil_append]
  obtain ⟨hw4, hn4⟩ := vol_replace_wf (v := v') (v' := v4) (f := f) (g := reRec e' (baseRec ex []).path f) hw hn hfiles' hfiles4
    (by rw [hv4, hvv]) (by rw [hv4, hvv]) (by rw [hv4]) (by rw [hv4]; exact hfree4) rfl rfl (hpath f hrf)
  -- the invariant
  have hnewok : FileSlotOk (wbRaw (setUnit d.raw B' (patched (unitAt d.raw B') (4 + k' * 39) e')) (hdrBm d.raw) (nbmOf (hdrTotal d.raw))
      (clearBit (bufOf d.raw (hdrBm d.raw) (nbmOf (hdrTotal d.raw))) B')) (e', B', k' + 1) := by
    refine Or.inr ⟨hst', hua, ?_⟩
    intro h3'
    simp only at h3' ⊢
    rw [hsb.key]
    have hkeyown : le16 ey 0x11 ∈ f.owned := readFile_key_mem d.raw (hdrTotal d.raw) ey _ f hrf
    have hja := (hyown _ hkeyown).1
    have hu : unitAt (wbRaw (setUnit d.raw B' (patched (unitAt d.raw B') (4 + k' * 39) e')) (hdrBm d.raw) (nbmOf (hdrTotal d.raw))
        (clearBit (bufOf d.raw (hdrBm d.raw) (nbmOf (hdrTotal d.raw))) B')) (le16 ey 0x11) = unitAt d.raw (le16 ey 0x11) := by
      apply unitAt_congr
      rw [hsame4 _ (hnbm _ hja), setUnit_other _ _ _ _ (fun e => hnotown (by rw [e]; exact hkeyown))]
    rw [hu]
    rw [hsb.st] at h3'; exact hcly h3'
  have hinv4 : Inv (wbRaw (setUnit d.raw B' (patched (unitAt d.raw B') (4 + k' * 39) e')) (hdrBm d.raw) (nbmOf (hdrTotal d.raw))
      (clearBit (bufOf d.raw (hdrBm d.raw) (nbmOf (hdrTotal d.raw))) B')) :=
    ⟨hshape4, by rw [htot4, hsz4]; exact hsz, _, _, ch', hrd4, by rw [htot4]; exact htree4, hw4, hn4, hgeo4, hprev4, hroot.len,
      hslotok4 hnewok, hnames4⟩
  have hlen3 : ∀ i ∈ bmRange (hdrBm d.raw) (nbmOf (hdrTotal d.raw)),
      (unitAt (setUnit d.raw B' (patched (unitAt d.raw B') (4 + k' * 39) e')) i).length = blockSize := by
    intro i hi
    have hisz : i < (setUnit d.raw B' (patched (unitAt d.raw B') (4 + k' * 39) e')).units.size := by
      rw [setUnit_size]; exact c.st.exist i hi
    exact (hshape3.unit hisz).1
  obtain ⟨d4, hfl4, hraw4, hs4⟩ := close_op hs _ _ n hbs3 hlen3 hinv4 hbm4 hsz4
  exact ⟨d4, v4, f, FA, FB, hfl4, hs4, by rw [hraw4]; exact hrd4, hrf, hfiles', hfiles4, hw4, hw, by rw [hv4]⟩

end A2Verif.FsProdos
