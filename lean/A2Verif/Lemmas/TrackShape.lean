import A2Verif.Lemmas.TrackRot
/-!
Bit counts that depend only on the *shape* of a track (format, gap lengths), not on sector contents, ids,
volume or track number: all tracks of an image have the same shape, so a head position that is a cell
boundary inside a data area on one track is one on every track.
-/
namespace A2Verif.Model.Track
open A2Verif.Model.Nibble

def widths (X : List Cell) : List Nat := X.map (·.1)

theorem blen_take_widths : ∀ (X Y : List Cell) (c : Nat), widths X = widths Y → blen (X.take c) = blen (Y.take c) := by
  intro X
  induction X with
  | nil =>
    intro Y c h
    cases Y with
    | nil => rfl
    | cons y Y => simp [widths] at h
  | cons x X ih =>
    intro Y c h
    cases Y with
    | nil => simp [widths] at h
    | cons y Y =>
      simp only [widths, List.map_cons, List.cons.injEq] at h
      cases c with
      | zero => rfl
      | succ c =>
        simp only [List.take_succ_cons, blen_cons]
        rw [ih Y c h.2, h.1]

theorem blen_widths (X Y : List Cell) (h : widths X = widths Y) : blen X = blen Y := by
  have := blen_take_widths X Y X.length h
  have hl : X.length = Y.length := by
    have := congrArg List.length h
    simpa [widths] using this
  rw [List.take_length] at this
  rw [this, hl, List.take_length]

theorem widths_append (X Y : List Cell) : widths (X ++ Y) = widths X ++ widths Y := by simp [widths]

theorem widths_plain (bs : List Nat) : widths (plain bs) = List.replicate bs.length 0 := by
  induction bs with
  | nil => rfl
  | cons b bs ih =>
    have : plain (b :: bs) = (0, b) :: plain bs := rfl
    rw [this]
    simp only [widths, List.map_cons, List.length_cons, List.replicate_succ] at ih ⊢
    rw [ih]

/-- the widths of a data area are those of ten sync cells, one cell behind a sync byte, and `dataNibs + 5`
plain bytes — with or without a data field -/
theorem widths_gfield (f : Fmt) (fld : Option (List Nat)) (hg : GoodFld f fld) :
    widths (gfield f fld) = widths (syncCells f 10) ++ f.z :: List.replicate (f.dataNibs + 5) 0 := by
  cases fld with
  | none =>
    have h6 : f.six = false := hg
    simp only [gfield, blankCells, widths_append]
    congr 1
    simp only [widths, List.map_cons]
    congr 1
    have := widths_plain (List.replicate 416 0xff)
    simp only [widths, List.length_replicate] at this
    rw [this]
    simp [Fmt.dataNibs, h6]
  | some nibs =>
    simp only [gfield, fieldCells, widths_append]
    congr 1
    simp only [widths, List.map_cons]
    congr 1
    have := widths_plain ([0xaa, 0xad] ++ nibs ++ epi)
    simp only [widths] at this
    rw [this]
    congr 1
    simp [hg.2, epi] <;> omega

theorem widths_FG (f : Fmt) (s s' : GSec) (hg : GoodFld f s.fld) (hg' : GoodFld f s'.fld) (hgap : s.gap = s'.gap) :
    widths (FG f s) = widths (FG f s') := by
  simp only [FG, widths_append, widths_gfield f _ hg, widths_gfield f _ hg', hgap]

theorem widths_drop (X : List Cell) (c : Nat) : widths (X.drop c) = (widths X).drop c := by
  simp [widths, List.map_drop]

theorem slackOk_widths {k : Nat} {X Y : List Cell} (h : widths X = widths Y) (hs : SlackOk k X) : SlackOk k Y := by
  rcases hs with h0 | ⟨c, X', hx, hk⟩
  · exact Or.inl h0
  · subst hx
    cases Y with
    | nil => simp [widths] at h
    | cons y Y' =>
      simp only [widths, List.map_cons, List.cons.injEq] at h
      exact Or.inr ⟨y, Y', rfl, by rw [← h.1]; exact hk⟩

/-! ## bits of whole sectors -/

theorem blen_addrCells (f : Fmt) (vol trk id : Nat) : blen (addrCells f vol trk id) = f.z + 112 := by
  simp only [addrCells, blen_cons, blen_plain, List.length_append, List.length_cons, List.length_nil, addrBytes, encode44, epi]

/-- bits of a whole sector: address field, data area, gap -/
def secBits (f : Fmt) (gap : Nat) : Nat := (f.z + 112) + (10 * f.z + 128 + 8 * f.dataNibs) + blen (syncCells f gap)

theorem blen_gsecCells (f : Fmt) (vol trk : Nat) (s : GSec) (hg : GoodFld f s.fld) :
    blen (gsecCells f vol trk s) = secBits f s.gap := by
  simp only [gsecCells, FG, blen_append, blen_addrCells, blen_gfield f s.fld hg, secBits]
  omega

theorem blen_gsecs (f : Fmt) (vol trk : Nat) : ∀ (A : List GSec), (∀ s ∈ A, GoodFld f s.fld) →
    blen (gsecsCells f vol trk A) = ((A.map (·.gap)).map (secBits f)).sum := by
  intro A
  induction A with
  | nil => intro _; rfl
  | cons s A ih =>
    intro h
    rw [gsecsCells_cons, blen_append, blen_gsecCells f vol trk s (h s (by simp)), ih (fun x hx => h x (by simp [hx]))]
    simp

/-- a reference data field of the right length (all `FF`) -/
def refSec (f : Fmt) (gap : Nat) : GSec := ⟨0, some (List.replicate f.dataNibs 0xff), gap⟩

theorem goodFld_ref (f : Fmt) (gap : Nat) : GoodFld f (refSec f gap).fld := by
  refine ⟨?_, by simp [refSec]⟩
  intro v hv
  rw [List.eq_of_mem_replicate hv]
  exact ⟨by decide, by decide, by decide⟩

/-- bits of the first `c` cells of a data area + gap -/
def fgBits (f : Fmt) (gap c : Nat) : Nat := blen ((FG f (refSec f gap)).take c)

theorem blen_FG_take (f : Fmt) (s : GSec) (hg : GoodFld f s.fld) (c : Nat) : blen ((FG f s).take c) = fgBits f s.gap c :=
  blen_take_widths _ _ c (widths_FG f s (refSec f s.gap) hg (goodFld_ref f s.gap) rfl)

/-- bits from the start of the first sector to the cell boundary `c0` cells into the data area + gap of
sector number `a` -/
def headBits (f : Fmt) (gaps : List Nat) (a c0 : Nat) : Nat :=
  ((gaps.take a).map (secBits f)).sum + (f.z + 112) + fgBits f (gaps.getD a 0) c0

theorem headBits_eq (f : Fmt) (vol trk : Nat) (As Bs : List GSec) (cur : GSec) (c0 : Nat)
    (hg : ∀ s ∈ As ++ cur :: Bs, GoodFld f s.fld) :
    blen (gsecsCells f vol trk As ++ addrCells f vol trk cur.id ++ (FG f cur).take c0) =
      headBits f ((As ++ cur :: Bs).map (·.gap)) As.length c0 := by
  rw [blen_append, blen_append, blen_gsecs f vol trk As (fun s hs => hg s (by simp [hs])), blen_addrCells,
    blen_FG_take f cur (hg cur (by simp))]
  unfold headBits
  have h1 : ((As ++ cur :: Bs).map (·.gap)).take As.length = As.map (·.gap) := by
    rw [List.map_append, List.take_left' (by simp)]
  have h2 : ((As ++ cur :: Bs).map (·.gap)).getD As.length 0 = cur.gap := by
    rw [List.map_append, List.getD_eq_getElem?_getD, List.getElem?_append_right (by simp)]
    simp
  rw [h1, h2]

end A2Verif.Model.Track
