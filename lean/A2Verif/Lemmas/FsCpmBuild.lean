import A2Verif.Lemmas.FsCpmKeys
/-!
# What `build_files` computes: for every key the entries of the directory carrying it
-/
namespace A2Verif.FsCpm
open A2Verif.Fs.Cpm
open A2Verif.Read.Cpm (Dpb fileKey extNum)

/-- the `entries` map of the record with key `k` (empty when there is none) -/
def entOf (ans : List FileInfo) (k : Bytes) : List (Nat × Nat) :=
  match ans.find? (fun fi => fi.key == k) with
  | some fi => fi.entries
  | none => []

theorem entOf_nil (k : Bytes) : entOf [] k = [] := rfl

theorem entOf_cons (fi : FileInfo) (rest : List FileInfo) (k : Bytes) :
    entOf (fi :: rest) k = if fi.key = k then fi.entries else entOf rest k := by
  unfold entOf
  rw [List.find?_cons]
  by_cases c : fi.key = k
  · simp [c]
  · have : (fi.key == k) = false := by simpa using c
    rw [this, if_neg c]

theorem mem_insertEntry_sub {k v : Nat} {p : Nat × Nat} : ∀ {l : List (Nat × Nat)}, p ∈ insertEntry k v l → p = (k, v) ∨ p ∈ l
  | [], h => by simpa [insertEntry] using h
  | (k', v') :: rest, h => by
    unfold insertEntry at h
    by_cases c1 : k < k'
    · rw [if_pos c1] at h
      rcases List.mem_cons.1 h with h | h
      · exact Or.inl h
      · exact Or.inr h
    · rw [if_neg c1] at h
      by_cases c2 : k = k'
      · rw [if_pos c2] at h
        rcases List.mem_cons.1 h with h | h
        · exact Or.inl h
        · exact Or.inr (List.mem_cons_of_mem _ h)
      · rw [if_neg c2] at h
        rcases List.mem_cons.1 h with h | h
        · exact Or.inr (h ▸ List.mem_cons_self)
        · rcases mem_insertEntry_sub h with h | h
          · exact Or.inl h
          · exact Or.inr (List.mem_cons_of_mem _ h)

theorem mem_insertEntry_self (k v : Nat) : ∀ (l : List (Nat × Nat)), (k, v) ∈ insertEntry k v l
  | [] => by simp [insertEntry]
  | (k', v') :: rest => by
    unfold insertEntry
    by_cases c1 : k < k'
    · rw [if_pos c1]; exact List.mem_cons_self
    · rw [if_neg c1]
      by_cases c2 : k = k'
      · rw [if_pos c2]; exact List.mem_cons_self
      · rw [if_neg c2]; exact List.mem_cons_of_mem _ (mem_insertEntry_self k v rest)

theorem mem_insertEntry_other {k v : Nat} {p : Nat × Nat} (hp : p.1 ≠ k) : ∀ {l : List (Nat × Nat)}, p ∈ l → p ∈ insertEntry k v l
  | [], h => by cases h
  | (k', v') :: rest, h => by
    unfold insertEntry
    by_cases c1 : k < k'
    · rw [if_pos c1]; exact List.mem_cons_of_mem _ h
    · rw [if_neg c1]
      by_cases c2 : k = k'
      · rw [if_pos c2]
        rcases List.mem_cons.1 h with h | h
        · exfalso; apply hp; rw [h]; exact c2.symm
        · exact List.mem_cons_of_mem _ h
      · rw [if_neg c2]
        rcases List.mem_cons.1 h with h | h
        · rw [h]; exact List.mem_cons_self
        · exact List.mem_cons_of_mem _ (mem_insertEntry_other hp h)

/-- what `upsert` does to the `entries` maps, given that the step keeps the key and inserts into `entries` -/
theorem upsert_entOf {key : Bytes} {mk : Unit → FileInfo} {step : FileInfo → R FileInfo} {ins : List (Nat × Nat) → List (Nat × Nat)}
    (hmk : (mk ()).key = key ∧ (mk ()).entries = [])
    (hstep : ∀ fi fi', step fi = .ok fi' → fi'.key = fi.key ∧ fi'.entries = ins fi.entries) :
    ∀ {ans ans1 : List FileInfo}, upsert key mk step ans = .ok ans1 →
      ∀ k', entOf ans1 k' = if k' = key then ins (entOf ans key) else entOf ans k'
  | [], ans1, h, k' => by
    unfold upsert at h
    cases hs : step (mk ()) with
    | error e => rw [hs] at h; cases h
    | ok fi' =>
      rw [hs] at h
      cases h
      obtain ⟨a, b⟩ := hstep _ _ hs
      rw [entOf_cons, a, hmk.1, b, hmk.2, entOf_nil, entOf_nil]
      by_cases c : k' = key
      · rw [if_pos c, if_pos c.symm]
      · rw [if_neg c, if_neg (fun e => c e.symm)]
  | fi :: rest, ans1, h, k' => by
    unfold upsert at h
    by_cases c0 : fi.key = key
    · rw [if_pos c0] at h
      cases hs : step fi with
      | error e => rw [hs] at h; cases h
      | ok fi' =>
        rw [hs] at h
        cases h
        obtain ⟨a, b⟩ := hstep _ _ hs
        rw [entOf_cons, entOf_cons, entOf_cons, a, b, if_pos c0, c0]
        by_cases c : k' = key
        · rw [if_pos c, if_pos c.symm]
        · rw [if_neg c, if_neg (fun e => c e.symm), if_neg (fun e => c e.symm)]
    · rw [if_neg c0] at h
      cases hu : upsert key mk step rest with
      | error e => rw [hu] at h; cases h
      | ok rest1 =>
        rw [hu] at h
        cases h
        have ih := upsert_entOf hmk hstep hu
        rw [entOf_cons, entOf_cons, entOf_cons, ih k', if_neg c0]
        by_cases c : k' = key
        · rw [if_pos c, c, if_neg c0, if_pos rfl]
        · rw [if_neg c, if_neg c]

theorem upsert_nonempty {key : Bytes} {mk : Unit → FileInfo} {step : FileInfo → R FileInfo} {ins : List (Nat × Nat) → List (Nat × Nat)}
    (hstep : ∀ fi fi', step fi = .ok fi' → fi'.key = fi.key ∧ fi'.entries = ins fi.entries) (hins : ∀ l, ins l ≠ []) :
    ∀ {ans ans1 : List FileInfo}, (∀ fi ∈ ans, fi.entries ≠ []) → upsert key mk step ans = .ok ans1 → ∀ fi ∈ ans1, fi.entries ≠ []
  | [], ans1, _, h => by
    unfold upsert at h
    cases hs : step (mk ()) with
    | error e => rw [hs] at h; cases h
    | ok fi' =>
      rw [hs] at h
      cases h
      intro fi hfi
      rw [List.mem_singleton.1 hfi, (hstep _ _ hs).2]
      exact hins _
  | fi :: rest, ans1, hne, h => by
    unfold upsert at h
    by_cases c0 : fi.key = key
    · rw [if_pos c0] at h
      cases hs : step fi with
      | error e => rw [hs] at h; cases h
      | ok fi' =>
        rw [hs] at h
        cases h
        intro g hg
        rcases List.mem_cons.1 hg with rfl | hg
        · rw [(hstep _ _ hs).2]; exact hins _
        · exact hne g (List.mem_cons_of_mem _ hg)
    · rw [if_neg c0] at h
      cases hu : upsert key mk step rest with
      | error e => rw [hu] at h; cases h
      | ok rest1 =>
        rw [hu] at h
        cases h
        intro g hg
        rcases List.mem_cons.1 hg with rfl | hg
        · exact hne g List.mem_cons_self
        · exact upsert_nonempty hstep hins (fun x hx => hne x (List.mem_cons_of_mem _ hx)) hu g hg

theorem upsert_both {key : Bytes} {mk : Unit → FileInfo} {step : FileInfo → R FileInfo} {ins : List (Nat × Nat) → List (Nat × Nat)}
    (hmk : (mk ()).key = key ∧ (mk ()).entries = [])
    (hstep : ∀ fi fi', step fi = .ok fi' → fi'.key = fi.key ∧ fi'.entries = ins fi.entries) (hins : ∀ l, ins l ≠ [])
    {ans ans1 : List FileInfo} (hne : ∀ fi ∈ ans, fi.entries ≠ []) (h : upsert key mk step ans = .ok ans1) :
    (∀ k', entOf ans1 k' = if k' = key then ins (entOf ans key) else entOf ans k') ∧ (∀ fi ∈ ans1, fi.entries ≠ []) :=
  ⟨upsert_entOf hmk hstep h, upsert_nonempty hstep hins hne h⟩

/-- the loop invariant of `build_files`: after `n` directory entries the `entries` maps hold pointers to file
entries of the right key (soundness), and every file entry seen is represented (completeness; a later entry
with the same data pointer may have taken its place) -/
structure BInv (dir : Dir) (n : Nat) (ans : List FileInfo) : Prop where
  sound : ∀ k, ∀ p ∈ entOf ans k, p.2 < n ∧ ∃ e, dir[p.2]? = some e ∧ isExtent e = true ∧ modelKey e = k ∧ Ext.dataPtr e = p.1
  complete : ∀ j, j < n → ∀ e, dir[j]? = some e → isExtent e = true →
    ∃ j', j ≤ j' ∧ (Ext.dataPtr e, j') ∈ entOf ans (modelKey e)
  nonempty : ∀ fi ∈ ans, fi.entries ≠ []

theorem tsGet_fields {dir : Dir} {lab : Bytes} {i : Nat} {fi fi' : FileInfo} (h : tsGet dir lab i fi = .ok fi') :
    fi'.key = fi.key ∧ fi'.entries = fi.entries := by
  unfold tsGet at h
  split at h
  · cases h; exact ⟨rfl, rfl⟩
  · simp only [] at h
    split at h
    · cases h
    · split at h
      · cases h
      · split at h
        · cases h
        · cases h; exact ⟨rfl, rfl⟩

theorem drop_cons_getElem? {dir : Dir} {i : Nat} {e : Bytes} {rest : List Bytes} (h : e :: rest = dir.drop i) :
    dir[i]? = some e ∧ rest = dir.drop (i + 1) := by
  have h1 : (dir.drop i)[0]? = some e := by rw [← h]; rfl
  rw [List.getElem?_drop] at h1
  refine ⟨by simpa using h1, ?_⟩
  have : (dir.drop i).drop 1 = rest := by rw [← h]; rfl
  rw [← this, List.drop_drop]

theorem buildLoop_spec (d : Dpb) (v3 : Bool) (dir : Dir) (lab : Option Bytes) : ∀ (es : List Bytes) (i bad : Nat) (ans ans' : List FileInfo),
    es = dir.drop i → BInv dir i ans → buildLoop d v3 dir lab es i bad ans = .ok ans' → BInv dir dir.length ans' := by
  intro es
  induction es with
  | nil =>
    intro i bad ans ans' hes hb h
    unfold buildLoop at h
    cases h
    have hi : dir.length ≤ i := by
      have := congrArg List.length hes
      simp at this; omega
    refine ⟨fun k p hp => ?_, fun j hj e he hx => hb.complete j (by omega) e he hx, hb.nonempty⟩
    obtain ⟨a, e, he, rest⟩ := hb.sound k p hp
    refine ⟨?_, e, he, rest⟩
    have := List.getElem?_eq_some_iff.1 he
    exact this.1
  | cons e rest ih =>
    intro i bad ans ans' hes hb h
    obtain ⟨hei, hrest⟩ := drop_cons_getElem? hes
    have hnonext : isExtent e = false → BInv dir (i + 1) ans := by
      intro hx
      refine ⟨fun k p hp => ?_, fun j hj e' he' hx' => ?_, hb.nonempty⟩
      · obtain ⟨a, b⟩ := hb.sound k p hp
        exact ⟨by omega, b⟩
      · by_cases c : j = i
        · subst c; rw [hei] at he'; cases he'; rw [hx] at hx'; cases hx'
        · exact hb.complete j (by omega) e' he' hx'
    unfold buildLoop at h
    simp only [] at h
    generalize (if (!isNameValid (Ext.getString e)) = true then bad + 1 else bad) = bad' at h
    split at h
    · cases h
    · split at h
      · cases h
      · split at h
        next hext =>
          split at h
          · cases h
          · split at h
            · cases h
            · split at h
              · cases h
              next ans1 hup =>
                refine ih (i + 1) _ ans1 ans' hrest ?_ h
                obtain ⟨hent, hne1⟩ := upsert_both (ins := insertEntry (Ext.dataPtr e) i) (by exact ⟨rfl, rfl⟩) (by
                  intro fi fi' hs
                  split at hs
                  · split at hs
                    · split at hs
                      · obtain ⟨a, b⟩ := tsGet_fields hs
                        exact ⟨a, b⟩
                      · cases hs; exact ⟨rfl, rfl⟩
                    · cases hs; exact ⟨rfl, rfl⟩
                  · cases hs; exact ⟨rfl, rfl⟩) (fun l hl => by
                    have := mem_insertEntry_self (Ext.dataPtr e) i l
                    rw [hl] at this; cases this) hb.nonempty hup
                have hkey : decDigits (Ext.user e) ++ [58] ++ Ext.getString e = modelKey e := rfl
                refine ⟨fun k p hp => ?_, fun j hj e' he' hx' => ?_, hne1⟩
                · rw [hent k] at hp
                  by_cases c : k = decDigits (Ext.user e) ++ [58] ++ Ext.getString e
                  · rw [if_pos c] at hp
                    rcases mem_insertEntry_sub hp with hp | hp
                    · subst hp
                      exact ⟨by simp, e, hei, hext, by rw [c, hkey], rfl⟩
                    · obtain ⟨a, b⟩ := hb.sound _ p hp
                      rw [← c] at b
                      exact ⟨by omega, b⟩
                  · rw [if_neg c] at hp
                    obtain ⟨a, b⟩ := hb.sound k p hp
                    exact ⟨by omega, b⟩
                · rw [hent (modelKey e')]
                  by_cases cj : j = i
                  · subst cj
                    rw [hei] at he'
                    cases he'
                    rw [if_pos hkey.symm]
                    exact ⟨j, Nat.le_refl _, mem_insertEntry_self _ _ _⟩
                  · obtain ⟨j', hj', hm⟩ := hb.complete j (by omega) e' he' hx'
                    by_cases c : modelKey e' = decDigits (Ext.user e) ++ [58] ++ Ext.getString e
                    · rw [if_pos c]
                      rw [c] at hm
                      by_cases cd : Ext.dataPtr e' = Ext.dataPtr e
                      · exact ⟨i, by omega, by rw [cd]; exact mem_insertEntry_self _ _ _⟩
                      · exact ⟨j', hj', mem_insertEntry_other (by exact cd) hm⟩
                    · rw [if_neg c]
                      exact ⟨j', hj', hm⟩
        next hext =>
          exact ih (i + 1) _ ans ans' hrest (hnonext (by simpa using hext)) h

/-- `build_files`: every record's `entries` point at the file entries with the record's key, and every file entry is represented -/
theorem buildFiles_spec {d : Dpb} {v3 : Bool} {dir : Dir} {files : List FileInfo} (h : buildFiles d v3 dir = .ok files) :
    BInv dir dir.length files := by
  unfold buildFiles at h
  exact buildLoop_spec d v3 dir (findLabel dir) dir 0 0 [] files rfl
    ⟨fun k p hp => (by rw [entOf_nil] at hp; cases hp), fun j hj => (by omega), fun fi hfi => (by cases hfi)⟩ h

end A2Verif.FsCpm
