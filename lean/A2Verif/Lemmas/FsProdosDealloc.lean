import A2Verif.Lemmas.FsProdosNext
/-!
# `deallocate_file_blocks` for seedling, sapling and tree files, from either buffer state

The blocks `delete` marks free are exactly the blocks the independent reader reports as owned by the entry
(`ownedOfEntry`, `readFile_owned`); the only units rewritten are the file's own index blocks (halves swapped).
-/
namespace A2Verif.FsProdos
open A2Verif.Fs.Prodos
open A2Verif.Read.Prodos (entryAt dirChain idxPtr indexEntries readData trimName)
open A2Verif.Read.ProdosT

/-- the loop of `deallocate_index_block` as a step -/
theorem deallocPtrs_next (blk : Bytes) (bm cnt : Nat) : ∀ (ks : List Nat) (d : Disk), St d bm cnt →
    (∀ p ∈ nzPtrs blk ks, p / 8 < (effBuf d bm cnt).size) →
    ∃ d', deallocPtrs blk ks d = (.ok (), d') ∧ Next d d' bm cnt d.raw ((nzPtrs blk ks).foldl setBit (effBuf d bm cnt))
  | [], d, h, _ => ⟨d, rfl, Next.refl h⟩
  | k :: ks, d, h, hcov => by
    unfold deallocPtrs
    by_cases hp : ptrAt blk k > 0
    · have hp' : blk.getD k 0 + 256 * blk.getD (k + 256) 0 > 0 := hp
      have hnz : nzPtrs blk (k :: ks) = ptrAt blk k :: nzPtrs blk ks := by simp [nzPtrs, hp]
      rw [hnz] at hcov
      obtain ⟨d1, hd1, n1⟩ := deallocate_next h (ptrAt blk k) (hcov _ List.mem_cons_self)
      obtain ⟨d2, hd2, n2⟩ := deallocPtrs_next blk bm cnt ks d1 n1.st (fun q hq => by
        rw [n1.eff, size_setBit]; exact hcov q (List.mem_cons_of_mem _ hq))
      refine ⟨d2, ?_, ?_⟩
      · simp only [hp', ↓reduceIte, bind_def]
        rw [bind_ok _ _ d d1 _ hd1]
        exact hd2
      · have := n1.trans n2
        rw [n1.raw, n1.eff] at this
        rw [hnz, List.foldl_cons]
        exact this
    · have hp' : ¬ (blk.getD k 0 + 256 * blk.getD (k + 256) 0 > 0) := hp
      have hnz : nzPtrs blk (k :: ks) = nzPtrs blk ks := by simp [nzPtrs, hp]
      rw [hnz] at hcov ⊢
      simp only [hp', ↓reduceIte]
      exact deallocPtrs_next blk bm cnt ks d h hcov

theorem swapHalves_length (ib : Bytes) (h : ib.length = 512) : (swapHalves ib).length = 512 := by
  unfold swapHalves slice; simp [h]

theorem swapHalves_bytes (ib : Bytes) (h : ∀ x ∈ ib, x < 256) : ∀ x ∈ swapHalves ib, x < 256 := by
  intro x hx
  unfold swapHalves slice at hx
  rw [List.mem_append] at hx
  rcases hx with hx | hx
  · exact h x (List.mem_of_mem_drop (List.mem_of_mem_take hx))
  · exact h x (List.mem_of_mem_drop (List.mem_of_mem_take hx))

/-- the swapped index block as stored -/
def swappedBlock (ib : Bytes) : Bytes := quantize ((swapHalves ib).take blockSize)

theorem swappedBlock_shape (ib : Bytes) (hl : ib.length = 512) (hb : ∀ x ∈ ib, x < 256) :
    (swappedBlock ib).length = 512 ∧ ∀ x ∈ swappedBlock ib, x < 256 := by
  unfold swappedBlock
  have h1 : (swapHalves ib).take blockSize = swapHalves ib := List.take_of_length_le (by rw [swapHalves_length ib hl]; decide)
  rw [h1, quantize_full _ (swapHalves_length ib hl)]
  exact ⟨swapHalves_length ib hl, swapHalves_bytes ib hb⟩

/-- **`deallocate_index_block(p)` as a step** -/
theorem deallocIndexBlock_next {d : Disk} {bm cnt : Nat} (h : St d bm cnt) (p : Nat) (ib : Bytes)
    (hp : p ∉ bmRange bm cnt) (hp2 : p ≠ 2) (hib : d.raw.units[p]? = some ib)
    (hok : BytesOk (effBuf d bm cnt))
    (hcov : ∀ q ∈ p :: nzPtrs ib (rng 0 256), q / 8 < (effBuf d bm cnt).size) :
    ∃ d' buf', deallocIndexBlock p d = (.ok (), d') ∧ Next d d' bm cnt (setUnit d.raw p (swappedBlock ib)) buf' ∧
      buf'.size = (effBuf d bm cnt).size ∧ BytesOk buf' ∧
      ∀ j, freeB buf' j = ((p :: nzPtrs ib (rng 0 256)).contains j || freeB (effBuf d bm cnt) j) := by
  have hsz : p < d.raw.units.size := by
    rcases Nat.lt_or_ge p d.raw.units.size with hh | hh
    · exact hh
    · rw [Array.getElem?_eq_none hh] at hib; cases hib
  have hcovp := hcov p List.mem_cons_self
  have hcovq : ∀ q ∈ nzPtrs ib (rng 0 256), q / 8 < (effBuf d bm cnt).size := fun q hq => hcov q (List.mem_cons_of_mem _ hq)
  obtain ⟨d1, hd1, n1⟩ := deallocPtrs_next ib bm cnt (rng 0 256) d h hcovq
  have hs1 : p / 8 < (effBuf d1 bm cnt).size := by rw [n1.eff, foldl_setBit_size]; exact hcovp
  obtain ⟨d2, hd2, n2⟩ := writeBlock_next n1.st (swapHalves ib) p hp (by rw [n1.raw]; exact hsz) hs1 (fun e => absurd e hp2)
  have hs2 : p / 8 < (effBuf d2 bm cnt).size := by rw [n2.eff, size_clearBit]; exact hs1
  obtain ⟨d3, hd3, n3⟩ := deallocate_next n2.st p hs2
  have n := (n1.trans n2).trans n3
  rw [n2.raw, n1.raw, n2.eff, n1.eff] at n
  refine ⟨d3, _, ?_, n, ?_, ?_, ?_⟩
  · unfold deallocIndexBlock
    simp only [bind_def]
    rw [bind_ok _ _ d d _ (readBlock_st h p ib hp hib), bind_ok _ _ d d1 _ hd1, bind_ok _ _ d1 d2 _ hd2]
    exact hd3
  · rw [size_setBit, size_clearBit, foldl_setBit_size]
  · exact bytesOk_setBit _ _ (bytesOk_clearBit _ _ (foldl_setBit_bytesOk _ _ hok))
  · intro j
    have hok1 := foldl_setBit_bytesOk (nzPtrs ib (rng 0 256)) _ hok
    have hs1' : p / 8 < ((nzPtrs ib (rng 0 256)).foldl setBit (effBuf d bm cnt)).size := by rw [foldl_setBit_size]; exact hcovp
    rw [freeB_setBit _ p j (bytesOk_clearBit _ p hok1) (by rw [size_clearBit]; exact hs1'),
      freeB_clearBit _ p j hok1 hs1', freeB_foldl_setBit _ _ hok hcovq j]
    by_cases hjp : j = p
    · subst hjp; simp
    · have : (j == p) = false := by simpa using hjp
      simp [hjp, List.contains_cons, this]

/-- the loop over the master index block of `deallocate_file_blocks` as a step; `ibOf q` is the content of index block `q` -/
theorem deallocMasterLoop_next (mb : Bytes) (ibOf : Nat → Bytes) (bm cnt : Nat) : ∀ (ks : List Nat) (d : Disk), St d bm cnt →
    (nzPtrs mb ks).Nodup →
    (∀ q ∈ nzPtrs mb ks, q ∉ bmRange bm cnt ∧ q ≠ 2 ∧ d.raw.units[q]? = some (ibOf q) ∧
      ∀ x ∈ q :: nzPtrs (ibOf q) (rng 0 256), x / 8 < (effBuf d bm cnt).size) →
    BytesOk (effBuf d bm cnt) →
    ∃ d' raw' buf', deallocMasterLoop mb ks d = (.ok (), d') ∧ Next d d' bm cnt raw' buf' ∧
      raw'.units.size = d.raw.units.size ∧
      (∀ j, j ∉ nzPtrs mb ks → raw'.units[j]? = d.raw.units[j]?) ∧
      (∀ q ∈ nzPtrs mb ks, raw'.units[q]? = some (swappedBlock (ibOf q))) ∧
      buf'.size = (effBuf d bm cnt).size ∧ BytesOk buf' ∧
      (∀ j, freeB buf' j =
        (((nzPtrs mb ks).flatMap (fun q => q :: nzPtrs (ibOf q) (rng 0 256))).contains j || freeB (effBuf d bm cnt) j))
  | [], d, h, _, _, hok => by
    refine ⟨d, d.raw, effBuf d bm cnt, rfl, Next.refl h, rfl, fun _ _ => rfl, ?_, rfl, hok, ?_⟩
    · intro q hq; simp [nzPtrs] at hq
    · intro j; simp [nzPtrs]
  | k :: ks, d, h, hnd, hall, hok => by
    unfold deallocMasterLoop
    by_cases hp : ptrAt mb k > 0
    · have hp' : mb.getD k 0 + 256 * mb.getD (k + 256) 0 > 0 := hp
      have hnz : nzPtrs mb (k :: ks) = ptrAt mb k :: nzPtrs mb ks := by simp [nzPtrs, hp]
      rw [hnz] at hnd hall
      rw [List.nodup_cons] at hnd
      obtain ⟨hqb, hq2, hqib, hqcov⟩ := hall (ptrAt mb k) List.mem_cons_self
      obtain ⟨d1, buf1, hd1, n1, hs1, hok1, hf1⟩ := deallocIndexBlock_next h (ptrAt mb k) (ibOf (ptrAt mb k)) hqb hq2 hqib hok hqcov
      have hsz : ptrAt mb k < d.raw.units.size := by
        rcases Nat.lt_or_ge (ptrAt mb k) d.raw.units.size with hh | hh
        · exact hh
        · rw [Array.getElem?_eq_none hh] at hqib; cases hqib
      obtain ⟨d2, raw2, buf2, hd2, n2, hsz2, hoth2, hnew2, hs2, hok2, hf2⟩ :=
        deallocMasterLoop_next mb ibOf bm cnt ks d1 n1.st hnd.2 (fun q hq => by
          obtain ⟨a, b, c, e⟩ := hall q (List.mem_cons_of_mem _ hq)
          refine ⟨a, b, ?_, ?_⟩
          · rw [n1.raw, setUnit_other _ _ _ _ (fun e' => hnd.1 (by rw [e']; exact hq))]; exact c
          · rw [n1.eff, hs1]; exact e) (by rw [n1.eff]; exact hok1)
      rw [n1.raw] at hsz2 hoth2
      rw [n1.eff] at hs2 hf2
      refine ⟨d2, raw2, buf2, ?_, n1.trans n2, ?_, ?_, ?_, ?_, hok2, ?_⟩
      · simp only [hp', ↓reduceIte, bind_def]
        rw [bind_ok _ _ d d1 _ hd1]
        exact hd2
      · rw [hsz2, setUnit_size]
      · intro j hj
        rw [hnz] at hj
        rw [hoth2 j (fun hm => hj (List.mem_cons_of_mem _ hm)),
          setUnit_other _ _ _ _ (fun e' => hj (by rw [← e']; exact List.mem_cons_self))]
      · intro q hq
        rw [hnz] at hq
        rcases List.mem_cons.mp hq with rfl | hq'
        · rw [hoth2 _ hnd.1, setUnit_self _ _ _ hsz]
        · exact hnew2 q hq'
      · rw [hs2, hs1]
      · intro j
        rw [hf2 j, hf1 j, hnz, List.flatMap_cons]
        simp only [List.contains_eq_mem, List.mem_append, List.mem_cons, Bool.decide_or, Bool.or_assoc, Bool.or_comm,
          Bool.or_left_comm]
    · have hp' : ¬ (mb.getD k 0 + 256 * mb.getD (k + 256) 0 > 0) := hp
      have hnz : nzPtrs mb (k :: ks) = nzPtrs mb ks := by simp [nzPtrs, hp]
      rw [hnz] at hnd hall ⊢
      simp only [hp', ↓reduceIte]
      exact deallocMasterLoop_next mb ibOf bm cnt ks d h hnd hall hok

/-! ## the blocks of a file entry, as the model walks them and as the reader reports them -/

/-- the blocks a file entry leads to, in the order the reader reports them: seedling — the data block; sapling — the
index block and the blocks it names; tree — the master index block, and for every index block it names that index
block and the blocks it names -/
def ownedOfEntry (r : Raw) (e : Bytes) : List Nat :=
  let st := e.getD 0 0 / 16
  let key := le16 e 0x11
  if st = 1 then [key]
  else if st = 2 then key :: nzPtrs (unitAt r key) (rng 0 256)
  else key :: (nzPtrs (unitAt r key) (rng 0 256)).flatMap (fun q => q :: nzPtrs (unitAt r q) (rng 0 256))

theorem nzPtrs_eq_reader' (ib : Bytes) (base : Nat) : nzPtrs ib (rng 0 256) = (indexEntries ib base).map (·.2) := by
  unfold nzPtrs indexEntries rng
  rw [List.map_filterMap]
  have hr : List.range' 0 (256 - 0) = List.range 256 := by simp [List.range_eq_range']
  rw [hr]
  apply filterMap_congr'
  intro k
  show (if ptrAt ib k > 0 then some (ptrAt ib k) else none) = _
  rw [ptrAt_eq_idxPtr]
  by_cases h : idxPtr ib k = 0
  · simp [h]
  · have : idxPtr ib k > 0 := Nat.pos_of_ne_zero h
    simp [h, this]

theorem range_256_split : List.range 256 = List.range 128 ++ (List.range 128).map (128 + ·) := by decide +kernel

/-- the index blocks a clean master index block names, as the model walks them, are the ones the reader walks -/
theorem nzPtrs_master (mb : Bytes) (hclean : MasterClean mb) :
    nzPtrs mb (rng 0 256) =
      ((List.range 128).filterMap (fun k => if idxPtr mb k = 0 then none else some (k, idxPtr mb k))).map (·.2) := by
  unfold nzPtrs rng
  have hr : List.range' 0 (256 - 0) = List.range 256 := by simp [List.range_eq_range']
  rw [hr, range_256_split, List.filterMap_append, List.map_filterMap]
  have hhi : ((List.range 128).map (128 + ·)).filterMap (fun k => if ptrAt mb k > 0 then some (ptrAt mb k) else none) = [] := by
    rw [List.filterMap_eq_nil_iff]
    intro k hk
    rw [List.mem_map] at hk
    obtain ⟨i, hi, rfl⟩ := hk
    obtain ⟨h1, h2⟩ := hclean i hi
    have : ptrAt mb (128 + i) = 0 := by
      show mb.getD (128 + i) 0 + 256 * mb.getD (128 + i + 256) 0 = 0
      rw [h1, show 128 + i + 256 = 384 + i by omega, h2]
    simp [this]
  rw [hhi, List.append_nil]
  apply filterMap_congr'
  intro k
  show (if ptrAt mb k > 0 then some (ptrAt mb k) else none) = _
  rw [ptrAt_eq_idxPtr]
  by_cases h : idxPtr mb k = 0
  · simp [h]
  · have : idxPtr mb k > 0 := Nat.pos_of_ne_zero h
    simp [h, this]

theorem treeIndex_owned (r : Raw) (total : Nat) (kib : Nat × Nat) (part : List (Nat × Bytes) × List Nat)
    (h : treeIndex r total kib = .ok part) : part.2 = kib.2 :: nzPtrs (unitAt r kib.2) (rng 0 256) := by
  unfold treeIndex at h
  split at h
  · cases h
  · cases hu : r.unit kib.2 "index-block" with
    | error x => rw [hu] at h; cases h
    | ok blk =>
      rw [hu] at h
      simp only at h
      cases hd : readData r total (indexEntries blk (256 * kib.1)) with
      | error x => rw [hd] at h; cases h
      | ok ds =>
        rw [hd] at h
        have hp : part = (ds, kib.2 :: (indexEntries blk (256 * kib.1)).map (·.2)) := by injection h with h; exact h.symm
        rw [hp]
        simp only
        rw [unitAt_of_get (get_of_unit r kib.2 _ blk hu), nzPtrs_eq_reader' blk (256 * kib.1)]

theorem all2_flatten_snd (r : Raw) (total : Nat) : ∀ (idxs : List (Nat × Nat)) (parts : List (List (Nat × Bytes) × List Nat)),
    All2 (fun x y => treeIndex r total x = .ok y) idxs parts →
    (parts.map (·.2)).flatten = (idxs.map (·.2)).flatMap (fun q => q :: nzPtrs (unitAt r q) (rng 0 256))
  | [], _, h => by cases h; rfl
  | x :: xs, _, h => by
    cases h with
    | cons hy hrest =>
      rw [List.map_cons, List.flatten_cons, List.map_cons, List.flatMap_cons, treeIndex_owned r total x _ hy,
        all2_flatten_snd r total xs _ hrest]

/-- **the reader's `owned` list of a file entry is `ownedOfEntry`** -/
theorem readFile_owned (r : Raw) (total : Nat) (e pfx : Bytes) (f : FileRec) (h : Read.ProdosT.readFile r total e pfx = .ok f)
    (hst : e.getD 0 0 / 16 = 1 ∨ e.getD 0 0 / 16 = 2 ∨ e.getD 0 0 / 16 = 3)
    (hclean : e.getD 0 0 / 16 = 3 → MasterClean (unitAt r (le16 e 0x11))) : f.owned = ownedOfEntry r e := by
  unfold Read.ProdosT.readFile at h
  unfold ownedOfEntry
  simp only at h ⊢
  split at h
  · next h1 =>
    rw [if_pos h1]
    cases hu : r.unit (le16 e 0x11) "data-block" with
    | error x => rw [hu] at h; cases h
    | ok dd =>
      rw [hu] at h; simp only at h
      split at h
      · cases h
      · injection h with h; rw [← h]
  · next h1 =>
    rw [if_neg h1]
    split at h
    · next h2 =>
      rw [if_pos h2]
      cases hu : r.unit (le16 e 0x11) "index-block" with
      | error x => rw [hu] at h; cases h
      | ok ib =>
        rw [hu] at h; simp only at h
        cases hd : readData r total (indexEntries ib 0) with
        | error x => rw [hd] at h; cases h
        | ok cs =>
          rw [hd] at h; simp only at h
          split at h
          · cases h
          · injection h with h; rw [← h]
            simp only
            rw [unitAt_of_get (get_of_unit r _ _ ib hu), nzPtrs_eq_reader' ib 0]
    · next h2 =>
      rw [if_neg h2]
      have h3 : e.getD 0 0 / 16 = 3 := by omega
      cases hu : r.unit (le16 e 0x11) "master-index-block" with
      | error x => rw [hu] at h; cases h
      | ok mb =>
        rw [hu] at h; simp only at h
        cases hm : List.mapM (treeIndex r total)
            ((List.range 128).filterMap (fun k => if idxPtr mb k = 0 then none else some (k, idxPtr mb k))) with
        | error x => rw [hm] at h; cases h
        | ok parts =>
          rw [hm] at h; simp only at h
          split at h
          · cases h
          · injection h with h; rw [← h]
            simp only
            have hmb := unitAt_of_get (get_of_unit r _ _ mb hu)
            rw [hmb, nzPtrs_master mb (by rw [← hmb]; exact hclean h3), all2_flatten_snd r total _ parts ((mapM_eq_ok _ _ _).mp hm)]

theorem nodup_of_flatMap_cons {α : Type} (g : α → List α) : ∀ (l : List α), (l.flatMap (fun q => q :: g q)).Nodup → l.Nodup
  | [], _ => List.nodup_nil
  | a :: l, h => by
    rw [List.flatMap_cons, List.cons_append, List.nodup_cons, List.nodup_append] at h
    rw [List.nodup_cons]
    refine ⟨?_, nodup_of_flatMap_cons g l h.2.2.1⟩
    intro ha
    apply h.1
    rw [List.mem_append]; right
    rw [List.mem_flatMap]
    exact ⟨a, ha, List.mem_cons_self⟩

/-- every unit of `r'` is the unit of `r` at the same place or that unit with its halves swapped -/
def SwapOnly (r r' : Raw) : Prop :=
  ∀ (j : Nat) (u : Bytes), r'.units[j]? = some u → r.units[j]? = some u ∨ ∃ ib, r.units[j]? = some ib ∧ u = swappedBlock ib

/-- **`deallocate_file_blocks(entry)` as a step**, for a seedling, sapling or tree entry whose blocks (`ownedOfEntry`) are
pairwise different, exist, are not bitmap blocks nor block 2, and are covered by the buffer: exactly these blocks
become free, only they may be rewritten (index blocks, halves swapped) -/
theorem deallocFile_next {d : Disk} {bm cnt : Nat} (h : St d bm cnt) (e : Bytes)
    (hst : e.getD 0 0 / 16 = 1 ∨ e.getD 0 0 / 16 = 2 ∨ e.getD 0 0 / 16 = 3)
    (hnd : (ownedOfEntry d.raw e).Nodup)
    (hall : ∀ x ∈ ownedOfEntry d.raw e, x ∉ bmRange bm cnt ∧ x ≠ 2 ∧ x < d.raw.units.size ∧ x / 8 < (effBuf d bm cnt).size)
    (hok : BytesOk (effBuf d bm cnt)) :
    ∃ d' raw' buf', deallocFileBlocks e d = (.ok (), d') ∧ Next d d' bm cnt raw' buf' ∧
      raw'.units.size = d.raw.units.size ∧
      (∀ j, j ∉ ownedOfEntry d.raw e → raw'.units[j]? = d.raw.units[j]?) ∧ SwapOnly d.raw raw' ∧
      buf'.size = (effBuf d bm cnt).size ∧ BytesOk buf' ∧
      (∀ j, freeB buf' j = ((ownedOfEntry d.raw e).contains j || freeB (effBuf d bm cnt) j)) := by
  have hst' : Ent.storageType e = e.getD 0 0 / 16 := by
    unfold Ent.storageType Ent.storLen
    rcases hst with h1 | h1 | h1 <;> simp only [h1] <;> rfl
  have hkey : Ent.keyPtr e = le16 e 0x11 := rfl
  unfold deallocFileBlocks
  simp only [hst', hkey]
  by_cases h1 : e.getD 0 0 / 16 = 1
  · -- seedling
    have ho : ownedOfEntry d.raw e = [le16 e 0x11] := by unfold ownedOfEntry; simp only []; rw [if_pos h1]
    rw [ho] at hall ⊢
    obtain ⟨_, _, _, hcov⟩ := hall _ List.mem_cons_self
    obtain ⟨d1, hd1, n1⟩ := deallocate_next h (le16 e 0x11) hcov
    refine ⟨d1, d.raw, _, ?_, n1, rfl, fun _ _ => rfl, (fun j u hu => Or.inl hu : SwapOnly d.raw d.raw), by rw [size_setBit],
      bytesOk_setBit _ _ hok, ?_⟩
    · rw [h1, if_pos (by decide : 1 = stSeedling)]
      exact hd1
    · intro j
      rw [freeB_setBit _ _ j hok hcov]
      by_cases hj : j = le16 e 0x11
      · simp [hj]
      · simp [hj]
  · by_cases h2 : e.getD 0 0 / 16 = 2
    · -- sapling
      have ho : ownedOfEntry d.raw e = le16 e 0x11 :: nzPtrs (unitAt d.raw (le16 e 0x11)) (rng 0 256) := by
        unfold ownedOfEntry; simp only []; rw [if_neg h1, if_pos h2]
      rw [ho] at hall hnd ⊢
      obtain ⟨hpb, hp2, hpsz, _⟩ := hall _ List.mem_cons_self
      obtain ⟨d1, buf1, hd1, n1, hs1, hok1, hf1⟩ := deallocIndexBlock_next h (le16 e 0x11) (unitAt d.raw (le16 e 0x11)) hpb hp2
        (units_get_unitAt _ _ hpsz) hok (fun q hq => (hall q hq).2.2.2)
      refine ⟨d1, _, buf1, ?_, n1, setUnit_size _ _ _, ?_, ?_, hs1, hok1, hf1⟩
      · rw [h2, if_neg (by decide : ¬ (2 = stSeedling)), if_pos (by decide : 2 = stSapling)]
        exact hd1
      · intro j hj
        exact setUnit_other _ _ _ _ (fun e' => hj (by rw [← e']; exact List.mem_cons_self))
      · unfold SwapOnly
        intro j u hu
        rw [setUnit_get _ _ _ _ hpsz] at hu
        by_cases hj : le16 e 0x11 = j
        · subst hj
          simp only [↓reduceIte] at hu
          exact Or.inr ⟨_, units_get_unitAt _ _ hpsz, (Option.some.inj hu).symm⟩
        · simp only [hj, ↓reduceIte] at hu
          exact Or.inl hu
    · -- tree
      have h3 : e.getD 0 0 / 16 = 3 := by omega
      have ho : ownedOfEntry d.raw e = le16 e 0x11 :: (nzPtrs (unitAt d.raw (le16 e 0x11)) (rng 0 256)).flatMap
          (fun q => q :: nzPtrs (unitAt d.raw q) (rng 0 256)) := by
        unfold ownedOfEntry; simp only []; rw [if_neg h1, if_neg h2]
      rw [ho] at hall hnd ⊢
      rw [List.nodup_cons] at hnd
      obtain ⟨hpb, hp2, hpsz, hpcov⟩ := hall _ List.mem_cons_self
      have hidx : ∀ q ∈ nzPtrs (unitAt d.raw (le16 e 0x11)) (rng 0 256),
          ∀ x ∈ q :: nzPtrs (unitAt d.raw q) (rng 0 256), x ∈ (nzPtrs (unitAt d.raw (le16 e 0x11)) (rng 0 256)).flatMap
            (fun q => q :: nzPtrs (unitAt d.raw q) (rng 0 256)) :=
        fun q hq x hx => List.mem_flatMap.mpr ⟨q, hq, hx⟩
      obtain ⟨d1, raw1, buf1, hd1, n1, hsz1, hoth1, hnew1, hs1, hok1, hf1⟩ :=
        deallocMasterLoop_next (unitAt d.raw (le16 e 0x11)) (unitAt d.raw) bm cnt (rng 0 256) d h
          (nodup_of_flatMap_cons _ _ hnd.2)
          (fun q hq => by
            have hq' := hidx q hq q List.mem_cons_self
            obtain ⟨a, b, c, _⟩ := hall q (List.mem_cons_of_mem _ hq')
            exact ⟨a, b, units_get_unitAt _ _ c, fun x hx => (hall x (List.mem_cons_of_mem _ (hidx q hq x hx))).2.2.2⟩) hok
      have hkeynot : le16 e 0x11 ∉ nzPtrs (unitAt d.raw (le16 e 0x11)) (rng 0 256) :=
        fun hm => hnd.1 (hidx _ hm _ List.mem_cons_self)
      have hp1 : d1.raw.units[le16 e 0x11]? = some (unitAt d.raw (le16 e 0x11)) := by
        rw [n1.raw, hoth1 _ hkeynot]; exact units_get_unitAt _ _ hpsz
      obtain ⟨d2, hd2, n2⟩ := writeBlock_next n1.st (swapHalves (unitAt d.raw (le16 e 0x11))) (le16 e 0x11) hpb
        (by rw [n1.raw, hsz1]; exact hpsz) (by rw [n1.eff, hs1]; exact hpcov) (fun e' => absurd e' hp2)
      obtain ⟨d3, hd3, n3⟩ := deallocate_next n2.st (le16 e 0x11) (by rw [n2.eff, size_clearBit, n1.eff, hs1]; exact hpcov)
      have n := (n1.trans n2).trans n3
      rw [n2.raw, n1.raw, n2.eff, n1.eff] at n
      have hpsz1 : le16 e 0x11 < raw1.units.size := by rw [hsz1]; exact hpsz
      refine ⟨d3, _, _, ?_, n, ?_, ?_, ?_, ?_, ?_, ?_⟩
      · rw [h3, if_neg (by decide : ¬ (3 = stSeedling)), if_neg (by decide : ¬ (3 = stSapling)), if_pos (by decide : 3 = stTree)]
        simp only [bind_def]
        rw [bind_ok _ _ d d _ (readBlock_st h _ _ hpb (units_get_unitAt _ _ hpsz)), bind_ok _ _ d d1 _ hd1,
          bind_ok _ _ d1 d2 _ hd2]
        exact hd3
      · rw [setUnit_size, hsz1]
      · intro j hj
        rw [setUnit_other _ _ _ _ (fun e' => hj (by rw [← e']; exact List.mem_cons_self))]
        apply hoth1
        intro hm
        exact hj (List.mem_cons_of_mem _ (hidx j hm j List.mem_cons_self))
      · unfold SwapOnly
        intro j u hu
        rw [setUnit_get _ _ _ _ hpsz1] at hu
        by_cases hj : le16 e 0x11 = j
        · subst hj
          simp only [↓reduceIte] at hu
          exact Or.inr ⟨_, units_get_unitAt _ _ hpsz, (Option.some.inj hu).symm⟩
        · simp only [hj, ↓reduceIte] at hu
          by_cases hjm : j ∈ nzPtrs (unitAt d.raw (le16 e 0x11)) (rng 0 256)
          · rw [hnew1 j hjm] at hu
            have hjsz := (hall j (List.mem_cons_of_mem _ (hidx j hjm j List.mem_cons_self))).2.2.1
            exact Or.inr ⟨_, units_get_unitAt _ _ hjsz, (Option.some.inj hu).symm⟩
          · rw [hoth1 j hjm] at hu
            exact Or.inl hu
      · rw [size_setBit, size_clearBit, hs1]
      · exact bytesOk_setBit _ _ (bytesOk_clearBit _ _ hok1)
      · intro j
        have hc1 : le16 e 0x11 / 8 < buf1.size := by rw [hs1]; exact hpcov
        rw [freeB_setBit _ _ j (bytesOk_clearBit _ _ hok1) (by rw [size_clearBit]; exact hc1),
          freeB_clearBit _ _ j hok1 hc1, hf1 j]
        by_cases hjp : j = le16 e 0x11
        · subst hjp; simp
        · have : (j == le16 e 0x11) = false := by simpa using hjp
          simp [hjp, List.contains_cons, this]

end A2Verif.FsProdos
