import A2Verif.Lemmas.FsFatSubExpand
import A2Verif.Lemmas.FsFatPutStep
/-!
# What the reader lists below a first-level directory; small facts for `put("D/X")`

`rdEnt_paths`: the records the reader makes of one directory entry are its own record, under the path of the entry, and
records whose paths continue that path with a slash.  `not_listed_sub`: if `get_file` does not find the name `X` in the map
of the directory `D`, the reading lists nothing under `D/X`.  `writebackSub_set`, `chainData_congr_cl`,
`clusterData_keep`.
-/
namespace A2Verif.FsFat
open A2Verif A2Verif.Fs.Fat A2Verif.Read.Fat A2Verif.Read.FatT

theorem nameGood_noSlash {e : Bytes} (h : NameGood e) : 47 ∉ entName e := by
  obtain ⟨nm, ty, _, n2, _, _, _, n6, n7⟩ := h
  rw [n2]
  split
  · exact n6
  · intro hm
    simp only [List.mem_append, List.mem_singleton] at hm
    rcases hm with (h | h) | h
    · exact n6 h
    · omega
    · exact n7 h

theorem prefix_sep_unique {s : Nat} : ∀ {a b c : List Nat}, s ∉ a → s ∉ b → a ++ [s] <+: b ++ s :: c → a = b := by
  intro a
  induction a with
  | nil =>
    intro b c _ hb h
    cases b with
    | nil => rfl
    | cons y b' =>
      rw [List.nil_append, List.cons_append, List.cons_prefix_cons] at h
      exact absurd (by rw [h.1]; simp) hb
  | cons x a' ih =>
    intro b c ha hb h
    cases b with
    | nil =>
      rw [List.cons_append, List.nil_append, List.cons_prefix_cons] at h
      exact absurd (by rw [h.1]; simp) ha
    | cons y b' =>
      rw [List.cons_append, List.cons_append, List.cons_prefix_cons] at h
      rw [h.1, ih (fun hm => ha (List.mem_cons_of_mem _ hm)) (fun hm => hb (List.mem_cons_of_mem _ hm)) h.2]

/-- the records of one directory entry: its own record under the path of the entry; every record carries that path, or
continues it with a slash -/
theorem rdEnt_paths {r : Raw} {b : Read.Fat.Bpb} {f : Array Nat} {hi fuel : Nat} {pfx e : Bytes} {y : List FileRec}
    (h : rdEnt r b f false hi fuel pfx e = .ok y) (hn : (e.getD 11 0 / 16) % 2 = 1 → entPath pfx e ≠ []) :
    (∃ rec0 ∈ y, rec0.path = entPath pfx e) ∧ ∀ rec ∈ y, rec.path = entPath pfx e ∨ entPath pfx e ++ [47] <+: rec.path := by
  by_cases hd : (e.getD 11 0 / 16) % 2 = 1
  · unfold rdEnt at h
    simp only [hd, if_true] at h
    cases hc : chain f false hi (hi + 1) (le16 e 26) [] with
    | error er => rw [hc] at h; simp [bind, Except.bind] at h
    | ok cl =>
      rw [hc] at h
      simp only [bind, Except.bind] at h
      cases hdat : cl.mapM (clusterData r b) with
      | error er => rw [hdat] at h; simp at h
      | ok datas =>
        rw [hdat] at h
        simp only [] at h
        cases hs : readDirT r b f false hi fuel datas.flatten (entPath pfx e) with
        | error er => rw [hs] at h; simp at h
        | ok sub =>
          rw [hs] at h
          simp only [pure, Except.pure] at h
          injection h with h
          subst h
          refine ⟨⟨_, List.mem_cons_self, rfl⟩, ?_⟩
          intro rec hrec
          rcases List.mem_cons.mp hrec with h' | h'
          · left; rw [h']
          · right
            exact readDirT_paths r b f hi fuel _ _ _ hs (hn hd) rec h'
  · rw [rdEnt_file (by omega)] at h
    cases hfr : fileRec r b f false hi (entPath pfx e) e with
    | error er => rw [hfr] at h; cases h
    | ok rec' =>
      rw [hfr] at h
      injection h with h
      subst h
      obtain ⟨k1, _⟩ := fileRec_fields hfr
      refine ⟨⟨rec', by simp, k1⟩, ?_⟩
      intro rec hrec
      have : rec = rec' := by simpa using hrec
      subst this
      exact Or.inl k1

theorem entPath_sub {P : Bytes} (hP : P ≠ []) (e : Bytes) : entPath P e = P ++ 47 :: entName e := by
  unfold entPath
  have : P.isEmpty = false := by cases hh : P with | nil => exact absurd hh hP | cons _ _ => rfl
  simp [this]

/-- the path of the root entry of a well-formed first-level directory -/
theorem subDir_path {d : Disk} {D : Bytes} {f : Array Nat} {E1 E2 : List Bytes} {eD : Bytes} {cl : List Nat}
    (sd : SubDirOk d D f E1 eD E2 cl) (hgoodD : NameGood eD) : entPath [] eD = absPath D ∧ absPath D ≠ [] := by
  obtain ⟨nmD, tyD, hnD, hkD⟩ := sd.key
  have hpD : entPath [] eD = absPath D := by
    unfold entPath
    simp only [List.isEmpty_nil, if_true]
    exact entName_of_key hnD hgoodD hkD
  refine ⟨hpD, ?_⟩
  obtain ⟨_, _, _, _, _, _, hdn, _, _⟩ := hgoodD
  have := hdn sd.isdir
  rw [← hpD]
  unfold entPath
  simpa using this

/-- **not found ⇒ not listed, one level down**: if `get_file` does not find the name `X` in the map of the well-formed
first-level directory `D`, the reading lists nothing under `D/X` -/
theorem not_listed_sub {d : Disk} {f : Array Nat} {v : Vol} (s : SInv d f v) {D X : Bytes} (a : SubArg D X)
    {E1 E2 : List Bytes} {eD : Bytes} {cl : List Nat} (sd : SubDirOk d D f E1 eD E2 cl)
    {filesD : List (Bytes × FInfo)} (hb : buildFiles false (subEntries d cl) = .ok filesD) (hl : filesD.lookup (keyOf X) = none)
    {nm ty : Bytes} (hk : keyOf X = nm ++ [46] ++ ty) (h1 : 46 ∉ nm) (h2 : 46 ∉ ty) :
    absPath D ++ 47 :: absPath X ∉ v.paths := by
  have g := s.geo
  obtain ⟨hshD, hgoodD, hE1live, R1, R2, Q, sr⟩ := subReading_of s sd
  obtain ⟨hpD, hpDne⟩ := subDir_path sd hgoodD
  obtain ⟨hA, _, _⟩ := rootEntries_spec g
  obtain ⟨hAS, _⟩ := subEntries_spec g sd.chain
  have hPs : 47 ∉ absPath D := absPath_noSlash a.aD
  have hNs : 47 ∉ absPath X := absPath_noSlash a.aX
  have hfiles : v.files = R1.flatten ++ dirRecOf eD cl :: (Q.flatten ++ R2.flatten) := by rw [sr.vol]; simp [mkVol]
  have nd := wfB_paths_nodup s.wf
  have hdirs := dirEnts_split' sd.hE hE1live hshD
  -- a record of another root entry
  have hroot : ∀ (L : List Bytes) (RR : List (List FileRec)), L.mapM (rd d f) = .ok RR → (∀ e ∈ L, e ∈ dirEnts (rootBuf d)) →
      (∀ r0 ∈ RR.flatten, r0 ∈ R1.flatten ++ (Q.flatten ++ R2.flatten)) →
      ∀ rec' ∈ RR.flatten, rec'.path ≠ absPath D ++ 47 :: absPath X := by
    intro L RR hL hsub hin rec' hrec' hpath
    obtain ⟨y, hy, hry⟩ := List.mem_flatten.mp hrec'
    obtain ⟨e, he, hye⟩ := mapM_mem _ _ _ _ hL hy
    obtain ⟨_, _, hE, _, hsh⟩ := mem_dirEnts hA (hsub e he)
    have hmemE : e ∈ dirOfBytes (rootBuf d) := by rw [hE]; simp
    obtain ⟨_, hgood⟩ := shown_of_inMap s.root hmemE hsh.1.2 (inMap_of_shown hsh)
    have hne : (e.getD 11 0 / 16) % 2 = 1 → entPath [] e ≠ [] := by
      obtain ⟨_, _, _, _, _, _, hdn, _, _⟩ := hgood
      intro hd
      have := hdn hd
      unfold entPath
      simpa using this
    have hpe : entPath [] e = entName e := by unfold entPath; simp
    unfold rd at hye
    obtain ⟨⟨rec0, hrec0, hp0⟩, hall⟩ := rdEnt_paths hye hne
    rcases hall rec' hry with hp | hp
    · rw [hpath, hpe] at hp
      exact nameGood_noSlash hgood (by rw [← hp]; simp)
    · rw [hpath, hpe] at hp
      have hname : entName e = absPath D := prefix_sep_unique (nameGood_noSlash hgood) hPs hp
      have hmem0 : rec0 ∈ R1.flatten ++ (Q.flatten ++ R2.flatten) := hin rec0 (List.mem_flatten.mpr ⟨y, hy, hrec0⟩)
      have := FsFat.paths_ne_of_split nd hfiles rec0 hmem0
      apply this
      rw [hp0, hpe, hname]
      show absPath D = entPath [] eD
      exact hpD.symm
  intro hmem
  unfold Vol.paths at hmem
  obtain ⟨rec', hrec', hpath⟩ := List.mem_map.mp hmem
  rw [hfiles] at hrec'
  simp only [List.mem_append, List.mem_cons] at hrec'
  rcases hrec' with h | h | h | h
  · refine hroot _ _ sr.r1 ?_ ?_ rec' h hpath
    · intro e he; rw [hdirs]; exact List.mem_append_left _ he
    · intro r0 hr0; exact List.mem_append_left _ hr0
  · rw [h] at hpath
    have : (dirRecOf eD cl).path = absPath D := hpD
    rw [this] at hpath
    have := congrArg List.length hpath
    simp at this
  · -- a record below `D`
    obtain ⟨y, hy, hry⟩ := List.mem_flatten.mp h
    obtain ⟨e, he, hye⟩ := mapM_mem _ _ _ _ sr.q hy
    obtain ⟨S1, S2, hS, hS1, hsh⟩ := mem_dirEnts hAS he
    have hin := inMap_of_shown hsh
    have hmemS : e ∈ dirOfBytes (chainData d cl) := by rw [hS]; simp
    obtain ⟨_, hgood⟩ := sd.ents.ents e hmemS hsh.1.1 hsh.2.1 (fun hc => hin.2.2 ⟨hc, rfl⟩) hsh.2.2.2.2
    obtain ⟨nm'', ty'', m1, m2⟩ := buildLoop_complete false _ 0 0 [] filesD hb S1 e S2 hS (fun x hx => type_of_live (hS1 x hx)) hin
    have hgood' := hgood
    obtain ⟨nm', ty', n1, n2, n3, n4, _, _, _⟩ := hgood
    rw [n1] at m1
    injection m1 with m1
    injection m1 with m1a m1b
    subst m1a m1b
    rw [hpD] at hye
    unfold rdS at hye
    obtain ⟨_, hall⟩ := rdEnt_paths hye (fun _ => entPath_ne_nil hpDne e)
    rw [entPath_sub hpDne] at hall
    rcases hall rec' hry with hp | hp
    · rw [hpath] at hp
      have hp' : absPath X = entName e := by simpa using hp
      rw [n2, absPath_of_parts hk h2] at hp'
      obtain ⟨e1, e2⟩ := name_inj h1 h2 n3 n4 hp'
      subst e1 e2
      rw [hk, m2] at hl
      cases hl
    · rw [hpath] at hp
      have hp' : entName e ++ [47] <+: absPath X := by
        have : absPath D ++ 47 :: entName e ++ [47] = absPath D ++ (47 :: (entName e ++ [47])) := by simp
        rw [this] at hp
        have := (List.prefix_append_right_inj _).mp hp
        exact (List.cons_prefix_cons.mp this).2
      obtain ⟨t, ht⟩ := hp'
      exact hNs (by rw [← ht]; simp)
  · refine hroot _ _ sr.r2 ?_ ?_ rec' h hpath
    · intro e he; rw [hdirs]; exact List.mem_append_right _ (List.mem_cons_of_mem _ he)
    · intro r0 hr0; exact List.mem_append_right _ (List.mem_append_right _ hr0)

/-! ## the write-back from a buffer that already carries a provisional entry in the slot -/

theorem writebackSub_set {d : Disk} {c1 idx : Nat} {S : List Bytes} (hi : idx < S.length) (e0 e' : Bytes) :
    writebackDirectoryEntry (some c1) idx (S.set idx e0) e' d = writebackDirectoryEntry (some c1) idx S e' d := by
  unfold writebackDirectoryEntry
  have h1 : dirSet (S.set idx e0) idx e' = .ok (S.set idx e') := by simp [dirSet, hi, List.set_set]
  have h2 : dirSet S idx e' = .ok (S.set idx e') := by simp [dirSet, hi]
  simp only [M_bind_apply, M.get, M.lift, h1, h2]

theorem chainData_congr_cl {d d' : Disk} (hb : d'.bpb = d.bpb) {cl : List Nat}
    (h : ∀ x ∈ cl, ∀ i, i < d.bpb.spc → d'.raw.units[d.bpb.firstClusterSec x + i]? = d.raw.units[d.bpb.firstClusterSec x + i]?) :
    chainData d' cl = chainData d cl := by
  unfold chainData
  congr 1
  apply List.map_congr_left
  intro x hx
  unfold blockData
  rw [hb]
  congr 1
  apply List.map_congr_left
  intro i hi
  rw [Array.getD_eq_getD_getElem?, Array.getD_eq_getD_getElem?, h x hx i (List.mem_range.mp hi)]

theorem clusterData_keep {d d' : Disk} (g : Geo d) {z : Nat} (hz2 : 2 ≤ z)
    (h : ∀ i, i < d.bpb.spc → d'.raw.units[d.bpb.firstClusterSec z + i]? = d.raw.units[d.bpb.firstClusterSec z + i]?) :
    clusterData d'.raw (rbpb d.bpb) z = clusterData d.raw (rbpb d.bpb) z := by
  apply clusterData_congr_at
  intro i hi
  rw [firstData_eq g]
  have hspc : (rbpb d.bpb).spc = d.bpb.spc := rfl
  rw [hspc] at hi ⊢
  have e : d.bpb.firstDataSec + (z - 2) * d.bpb.spc + i = d.bpb.firstClusterSec z + i := by unfold Bpb.firstClusterSec; omega
  rw [e]
  exact h i hi

end A2Verif.FsFat
