import A2Verif.Model.AddrMap
/-!
# C07, part 3: Apple 3.5 inch disks (400K, 800K): PO, WOZ2 (2MG delegates to a wrapped PO)
-/
namespace A2Verif.C07
open A2Verif.Gen A2Verif.Model.AddrMap
open A2Verif.Gen.C07 (LayoutName)
open A2Verif.Model.AddrMap.Out (ok err panic)

/-! ## 3. Apple 3.5 inch (400K, 800K): PO, WOZ2 (2MG delegates to PO) -/

/-- zone bounds are consistent with `ZONED_SECS_PER_TRACK` (16 cylinders per zone) and with the
`A2_400` / `A2_800` track layouts of `names.rs` -/
theorem zone_bounds_consistent :
    Disk35.ZONE_BOUNDS_1.length = 6 ∧ Disk35.ZONE_BOUNDS_2.length = 6 ∧ Disk35.ZONED_SECS_PER_TRACK.length = 5 ∧
    idx Disk35.ZONE_BOUNDS_1 0 = ok 0 ∧ idx Disk35.ZONE_BOUNDS_2 0 = ok 0 ∧
    (∀ z : Fin 5,
      (do let a ← idx Disk35.ZONE_BOUNDS_1 z.val
          let n ← idx Disk35.ZONED_SECS_PER_TRACK z.val
          pure (a + 16 * n)) = idx Disk35.ZONE_BOUNDS_1 (z.val + 1) ∧
      (do let a ← idx Disk35.ZONE_BOUNDS_2 z.val
          let n ← idx Disk35.ZONED_SECS_PER_TRACK z.val
          pure (a + 32 * n)) = idx Disk35.ZONE_BOUNDS_2 (z.val + 1) ∧
      idx Disk35.ZONED_SECS_PER_TRACK z.val = idx LayoutName.A2_400.layout.sectors z.val ∧
      idx Disk35.ZONED_SECS_PER_TRACK z.val = idx LayoutName.A2_800.layout.sectors z.val ∧
      idx LayoutName.A2_400.layout.cylinders z.val = ok 16 ∧ idx LayoutName.A2_400.layout.sides z.val = ok 1 ∧
      idx LayoutName.A2_800.layout.cylinders z.val = ok 16 ∧ idx LayoutName.A2_800.layout.sides z.val = ok 2) := by
  decide +kernel

/-- 400K: `ts_from_prodos_block` is a bijection from blocks `< 800` onto the (track, sector) set
`{t < 80, s < ZONED_SECS_PER_TRACK[t/16]}` (inverse: `blockFromTs35 1`); so block `b` of a PO image
and of a WOZ2 image are the same physical sector. -/
theorem blocks_400_bijection :
    (∀ z : Fin 5, ∀ r : Fin 192,
      (do let zb ← idx Disk35.ZONE_BOUNDS_1 z.val
          let zb' ← idx Disk35.ZONE_BOUNDS_1 (z.val + 1)
          let b := zb + r.val
          if b < zb' then
            match tsFromProdosBlock b .a400 with
            | ok [(t, s)] => (do let b' ← blockFromTs35 1 t s; pure (decide (b' = b ∧ t < 80 ∧ t / 16 = z.val)))
            | _ => panic
          else pure true) = ok true) ∧
    (∀ t : Fin 80, ∀ s : Fin 12,
      (do let n ← idx Disk35.ZONED_SECS_PER_TRACK (t.val / 16)
          if s.val < n then
            (do let b ← blockFromTs35 1 t.val s.val
                let ts ← tsFromProdosBlock b .a400
                pure (decide (ts = [(t.val, s.val)] ∧ b < 800)))
          else pure (decide (blockFromTs35 1 t.val s.val = err))) = ok true) := by
  decide +kernel

/-- 800K: the same with 160 tracks (track = 2·cylinder + head) and 1600 blocks -/
theorem blocks_800_bijection :
    (∀ z : Fin 5, ∀ r : Fin 384,
      (do let zb ← idx Disk35.ZONE_BOUNDS_2 z.val
          let zb' ← idx Disk35.ZONE_BOUNDS_2 (z.val + 1)
          let b := zb + r.val
          if b < zb' then
            match tsFromProdosBlock b .a800 with
            | ok [(t, s)] => (do let b' ← blockFromTs35 2 t s; pure (decide (b' = b ∧ t < 160 ∧ t / 32 = z.val)))
            | _ => panic
          else pure true) = ok true) ∧
    (∀ t : Fin 160, ∀ s : Fin 12,
      (do let n ← idx Disk35.ZONED_SECS_PER_TRACK (t.val / 32)
          if s.val < n then
            (do let b ← blockFromTs35 2 t.val s.val
                let ts ← tsFromProdosBlock b .a800
                pure (decide (ts = [(t.val, s.val)] ∧ b < 1600)))
          else pure (decide (blockFromTs35 2 t.val s.val = err))) = ok true) := by
  decide +kernel

example : tsFromProdosBlock 1599 .a800 = ok [(159, 7)] ∧ blockFromTs35 2 159 7 = ok 1599 := by decide +kernel

/-- the whole block range is covered by the zones: the last bound is the block count of the PO image
that `mkdsk` pairs with the kind (800 / 1600) -/
theorem zone_bounds_total : idx Disk35.ZONE_BOUNDS_1 5 = ok 800 ∧ idx Disk35.ZONE_BOUNDS_2 5 = ok 1600 := by
  decide +kernel

/-- WOZ2 block and sector access on 3.5 inch disks: block `b` goes to one 524-byte sector whose 512
data bytes are the block, at the (track, sector) of `ts_from_prodos_block`; physical sector
(cyl, head, s) is track `cyl` (400K) or `2·cyl + head` (800K). PO keeps block `b` at `512·b`. -/
theorem woz35_pieces :
    (∀ z : Fin 5, ∀ r : Fin 384,
      (do let zb ← idx Disk35.ZONE_BOUNDS_2 z.val
          let zb' ← idx Disk35.ZONE_BOUNDS_2 (z.val + 1)
          let b := zb + r.val
          if b < zb' then
            pure (decide ((do let ts ← tsFromProdosBlock b .a800; pure (ts, 512)) = wozPieces 160 .a800 (.po b) ∧
                          poPieces 1600 (.po b) = ok [(512 * b, 512)]))
          else pure true) = ok true) ∧
    (∀ z : Fin 5, ∀ r : Fin 192,
      (do let zb ← idx Disk35.ZONE_BOUNDS_1 z.val
          let zb' ← idx Disk35.ZONE_BOUNDS_1 (z.val + 1)
          let b := zb + r.val
          if b < zb' then
            pure (decide ((do let ts ← tsFromProdosBlock b .a400; pure (ts, 512)) = wozPieces 80 .a400 (.po b) ∧
                          poPieces 800 (.po b) = ok [(512 * b, 512)]))
          else pure true) = ok true) ∧
    (∀ c : Fin 80, ∀ h : Fin 2, ∀ s : Fin 12,
      wozSector 160 .a800 c.val h.val s.val = ok (2 * c.val + h.val, s.val) ∧
      wozSector 80 .a400 c.val 0 s.val = ok (c.val, s.val) ∧ wozSector 80 .a400 c.val 1 s.val = err) := by
  decide +kernel

end A2Verif.C07
