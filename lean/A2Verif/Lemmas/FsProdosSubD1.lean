import A2Verif.Lemmas.FsProdosSubOp
/-!
# The two directory writes of `delete` in a directory with key block `K`

`delImageK raw1 B idx K`: slot `idx` of block `B` zeroed, then the file count of block `K` lowered (`delImage` is the case
`K = 2`).  Its units (`delUnitK`), and the patch it makes of the directory (`delImageK_patch`).
-/
namespace A2Verif.FsProdos
open A2Verif.Fs.Prodos
open A2Verif.Read.Prodos (entryAt dirChain idxPtr indexEntries readData trimName bitmapFree)
open A2Verif.Read.ProdosT

/-- the image after the two directory writes of `delete` in the directory with key block `K` -/
def delImageK (raw1 : Raw) (B idx K : Nat) : Raw :=
  let r2 := setUnit raw1 B (patched (unitAt raw1 B) (Dir.entryOff idx) [0])
  setUnit r2 K (patched (unitAt r2 K) 37 (u16le (le16 ((unitAt r2 K).take dirLen) 37 - 1)))

/-- unit `b` of `delImageK raw1 B idx K` -/
def delUnitK (raw1 : Raw) (B idx K b : Nat) : Bytes :=
  let u2 := if b = B then patched (unitAt raw1 b) (Dir.entryOff idx) [0] else unitAt raw1 b
  if b = K then patched u2 37 (u16le (le16 (u2.take dirLen) 37 - 1)) else u2

theorem delImageK_size (raw1 : Raw) (B idx K : Nat) : (delImageK raw1 B idx K).units.size = raw1.units.size := by
  unfold delImageK; simp only [setUnit_size]

theorem delImageK_other (raw1 : Raw) (B idx K j : Nat) (hB : j ≠ B) (h2 : j ≠ K) :
    (delImageK raw1 B idx K).units[j]? = raw1.units[j]? := by
  unfold delImageK
  simp only
  rw [setUnit_other _ _ _ _ (Ne.symm h2), setUnit_other _ _ _ _ (Ne.symm hB)]

theorem delImageK_unit (raw1 : Raw) (B idx K b : Nat) (hBsz : B < raw1.units.size) (h2sz : K < raw1.units.size) :
    unitAt (delImageK raw1 B idx K) b = delUnitK raw1 B idx K b := by
  unfold delImageK delUnitK
  simp only
  have hu2 : ∀ c, unitAt (setUnit raw1 B (patched (unitAt raw1 B) (Dir.entryOff idx) [0])) c =
      if c = B then patched (unitAt raw1 c) (Dir.entryOff idx) [0] else unitAt raw1 c := by
    intro c
    by_cases hc : c = B
    · subst hc; rw [if_pos rfl]; unfold unitAt; rw [setUnit_self _ _ _ hBsz]; rfl
    · rw [if_neg hc, unitAt_setUnit_other _ _ _ _ (Ne.symm hc)]
  by_cases hb : b = K
  · subst hb
    rw [if_pos rfl]
    unfold unitAt
    rw [setUnit_self _ _ _ (by rw [setUnit_size]; exact h2sz)]
    simp only [Option.getD_some]
    have := hu2 b
    unfold unitAt at this
    rw [this]
  · rw [if_neg hb, unitAt_setUnit_other _ _ _ _ (Ne.symm hb), hu2 b]

theorem delUnitK_getD_same (raw1 : Raw) (B k K b j : Nat) (hlen : (unitAt raw1 b).length = 512) (hk : k < 13) (hj : j < 511)
    (hjoff : b = B → j ≠ 4 + k * 39) (hj37 : b = K → j ≠ 37 ∧ j ≠ 38) :
    (delUnitK raw1 B (k + 1) K b).getD j 0 = (unitAt raw1 b).getD j 0 := by
  have hoff : Dir.entryOff (k + 1) = 4 + k * 39 := by rw [entryOff_eq' _ (by omega)]; simp
  unfold delUnitK
  simp only
  have hu2 : (if b = B then patched (unitAt raw1 b) (Dir.entryOff (k + 1)) [0] else unitAt raw1 b).getD j 0 = (unitAt raw1 b).getD j 0 := by
    split
    · next hb =>
      rw [hoff, getD_patched_out _ _ _ j hlen (by simp; omega) (by have := hjoff hb; simp; omega) hj]
    · rfl
  have hl2 : (if b = B then patched (unitAt raw1 b) (Dir.entryOff (k + 1)) [0] else unitAt raw1 b).length = 512 := by
    split
    · exact patched_length _ _ _
    · exact hlen
  split
  · next hb =>
    obtain ⟨h37, h38⟩ := hj37 hb
    rw [getD_patched_out _ _ _ j hl2 (by show 37 + 2 ≤ 511; omega) (by show j < 37 ∨ 37 + 2 ≤ j; omega) hj, hu2]
  · exact hu2

theorem delUnitK_length (raw1 : Raw) (B idx K b : Nat) (hlen : (unitAt raw1 b).length = 512) : (delUnitK raw1 B idx K b).length = 512 := by
  unfold delUnitK
  simp only
  split
  · exact patched_length _ _ _
  · split
    · exact patched_length _ _ _
    · exact hlen

theorem delUnitK_bytes (raw1 : Raw) (B k K b : Nat) (hlen : (unitAt raw1 b).length = 512) (hk : k < 13)
    (hb : ∀ x ∈ unitAt raw1 b, x < 256) : ∀ x ∈ delUnitK raw1 B (k + 1) K b, x < 256 := by
  have hoff : Dir.entryOff (k + 1) = 4 + k * 39 := by rw [entryOff_eq' _ (by omega)]; simp
  unfold delUnitK
  simp only
  have hb2 : ∀ x ∈ (if b = B then patched (unitAt raw1 b) (Dir.entryOff (k + 1)) [0] else unitAt raw1 b), x < 256 := by
    split
    · rw [hoff]
      exact patched_bytes _ _ _ hlen (by simp; omega) hb (by simp)
    · exact hb
  have hl2 : (if b = B then patched (unitAt raw1 b) (Dir.entryOff (k + 1)) [0] else unitAt raw1 b).length = 512 := by
    split
    · exact patched_length _ _ _
    · exact hlen
  split
  · exact patched_bytes _ _ _ hl2 (by show 37 + 2 ≤ 511; omega) hb2 (u16le_bytes _)
  · exact hb2

/-- the zeroed first byte of the slot -/
theorem delUnitK_slot_zero (raw1 : Raw) (B k K : Nat) (hlen : (unitAt raw1 B).length = 512) (hk : k < 13) (hkey : B = K → 1 ≤ k) :
    (delUnitK raw1 B (k + 1) K B).getD (4 + k * 39) 0 = 0 := by
  have hoff : Dir.entryOff (k + 1) = 4 + k * 39 := by rw [entryOff_eq' _ (by omega)]; simp
  unfold delUnitK
  simp only [↓reduceIte]
  have h0 : (patched (unitAt raw1 B) (Dir.entryOff (k + 1)) [0]).getD (4 + k * 39) 0 = 0 := by
    rw [hoff, getD_patched _ _ _ _ hlen (by simp; omega), if_pos (by simp)]
    simp
  split
  · next hb =>
    have := hkey hb
    rw [getD_patched_out _ _ _ _ (patched_length _ _ _) (by show 37 + 2 ≤ 511; omega) (by show _ < 37 ∨ 37 + 2 ≤ _; omega) (by omega)]
    exact h0
  · exact h0

/-- the lowered file count -/
theorem delUnitK_count (raw1 : Raw) (B k K : Nat) (hlen : (unitAt raw1 K).length = 512) (hk : k < 13) (hkey : B = K → 1 ≤ k)
    (hb : ∀ x ∈ unitAt raw1 K, x < 256) : le16 (delUnitK raw1 B (k + 1) K K) 37 = le16 (unitAt raw1 K) 37 - 1 := by
  have hoff : Dir.entryOff (k + 1) = 4 + k * 39 := by rw [entryOff_eq' _ (by omega)]; simp
  unfold delUnitK
  simp only [↓reduceIte]
  have hl2 : (if K = B then patched (unitAt raw1 K) (Dir.entryOff (k + 1)) [0] else unitAt raw1 K).length = 512 := by
    split
    · exact patched_length _ _ _
    · exact hlen
  have hc2 : le16 ((if K = B then patched (unitAt raw1 K) (Dir.entryOff (k + 1)) [0] else unitAt raw1 K).take dirLen) 37 =
      le16 (unitAt raw1 K) 37 := by
    rw [le16_take _ dirLen 37 (by unfold dirLen; omega)]
    split
    · next hb2 =>
      have := hkey hb2.symm
      rw [hoff, le16_patched_out _ _ _ 37 hlen (by simp; omega) (Or.inl (by omega)) (by omega)]
    · rfl
  rw [hc2, le16_patched_self _ 37 _ hl2 (by omega) (by have := le16_lt _ 37 hb; omega)]

/-- the two directory writes of `delete` as a `DirPatchK` -/
theorem delImageK_patch {r raw1 : Raw} {K : Nat} {ch : List Nat} {B k : Nat}
    (hsz1 : raw1.units.size = r.units.size) (hu1 : ∀ b ∈ ch, unitAt raw1 b = unitAt r b)
    (hshape : ∀ b ∈ ch, b < r.units.size ∧ (unitAt r b).length = 512 ∧ ∀ x ∈ unitAt r b, x < 256)
    (hB : B ∈ ch) (h2 : K ∈ ch) (hk : k < 13) (hkey : B = K → 1 ≤ k) :
    DirPatchK r (delImageK raw1 B (k + 1) K) K ch B k := by
  have hBsz : B < raw1.units.size := by rw [hsz1]; exact (hshape B hB).1
  have h2sz : K < raw1.units.size := by rw [hsz1]; exact (hshape K h2).1
  have hun : ∀ b ∈ ch, unitAt (delImageK raw1 B (k + 1) K) b = delUnitK raw1 B (k + 1) K b :=
    fun b _ => delImageK_unit raw1 B (k + 1) K b hBsz h2sz
  have hl1 : ∀ b ∈ ch, (unitAt raw1 b).length = 512 := fun b hb => by rw [hu1 b hb]; exact (hshape b hb).2.1
  have hsame : ∀ b ∈ ch, ∀ j, j < 511 → (b = B → j ≠ 4 + k * 39) → (b = K → j ≠ 37 ∧ j ≠ 38) →
      (unitAt (delImageK raw1 B (k + 1) K) b).getD j 0 = (unitAt r b).getD j 0 := by
    intro b hb j hj h1 h2'
    rw [hun b hb, delUnitK_getD_same raw1 B k K b j (hl1 b hb) hk hj h1 h2', hu1 b hb]
  refine ⟨by rw [delImageK_size, hsz1], ?_, ?_, ?_, ?_⟩
  · intro b hb
    unfold le16
    rw [hsame b hb 0 (by omega) (fun _ => by omega) (fun _ => by omega),
      hsame b hb 1 (by omega) (fun _ => by omega) (fun _ => by omega),
      hsame b hb 2 (by omega) (fun _ => by omega) (fun _ => by omega),
      hsame b hb 3 (by omega) (fun _ => by omega) (fun _ => by omega)]
    exact ⟨rfl, rfl⟩
  · intro j hj
    apply hsame K h2 j (by omega)
    · intro hb2; have := hkey hb2.symm; omega
    · intro _; omega
  · intro b hb k' hk' hkey' hne
    unfold entryAt
    apply slice_congr _ _ _ _ (by rw [hun b hb, delUnitK_length raw1 B (k + 1) K b (hl1 b hb), (hshape b hb).2.1])
    intro j hj1 hj2
    apply hsame b hb j (by omega)
    · intro hbB
      have hkk : k' ≠ k := fun e => hne (by rw [hbB, e])
      intro hj
      have : k' < k ∨ k < k' := by omega
      rcases this with h | h
      · have : k' * 39 + 39 ≤ k * 39 := by have := Nat.mul_le_mul_right 39 (show k' + 1 ≤ k by omega); omega
        omega
      · have : k * 39 + 39 ≤ k' * 39 := by have := Nat.mul_le_mul_right 39 (show k + 1 ≤ k' by omega); omega
        omega
    · intro hb2; have := hkey' hb2; omega
  · intro b hb
    rw [hun b hb]
    exact ⟨delUnitK_length raw1 B (k + 1) K b (hl1 b hb),
      delUnitK_bytes raw1 B k K b (hl1 b hb) hk (by rw [hu1 b hb]; exact (hshape b hb).2.2)⟩

end A2Verif.FsProdos
