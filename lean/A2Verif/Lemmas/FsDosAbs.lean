import A2Verif.Lemmas.VolSpec
/-!
# Abstract-side lemmas for the DOS refinement: replacing / removing one record of a well-formed volume

Pure `Vol` reasoning: if a reading differs from a well-formed one in exactly one file record (same blocks and
content, possibly another name, type or protection flag), it is well formed again and the step conditions of
`lock`, `unlock`, `retype`, `rename` hold; a refused operation that leaves the reading as it was is allowed.
Core Lean only.
-/
set_option linter.unusedSimpArgs false
namespace A2Verif.FsDos

theorem sameFiles_refl {l : List FileRec} (nd : (l.map (·.path)).Nodup) : sameFiles l l = true := by
  rw [sameFiles_iff]
  refine ⟨fun f hf => ⟨f, find_path_of_mem nd hf, sameRec_refl f⟩, fun g hg => ?_⟩
  rw [find_path_of_mem nd hg]; rfl

/-- a refused operation that changes nothing is allowed by the specification -/
theorem stepOk_refused_same {P : FsParams} {v : Vol} (hw : v.wfB = true) (op : FsOp) : stepOk P v op false v = true := by
  have hs : sameFiles v.files v.files = true := sameFiles_refl (wfB_paths_nodup hw)
  cases op <;> simp [stepOk, stepConds, hw, hs]

theorem allOwned_replace {F1 F2 : List FileRec} {f g : FileRec} (ho : g.owned = f.owned) :
    (F1 ++ g :: F2).flatMap (·.owned) = (F1 ++ f :: F2).flatMap (·.owned) := by
  simp [List.flatMap_append, List.flatMap_cons, ho]

theorem paths_split (F1 F2 : List FileRec) (f : FileRec) :
    (F1 ++ f :: F2).map (·.path) = F1.map (·.path) ++ f.path :: F2.map (·.path) := by simp

/-- replacing one record by one with the same blocks and chunk indices, under the same path or a fresh one -/
theorem wfB_replace {v : Vol} {F1 F2 : List FileRec} {f g : FileRec} (hv : v.files = F1 ++ f :: F2) (hw : v.wfB = true)
    (ho : g.owned = f.owned) (hc : g.chunks = f.chunks) (hp : g.path = f.path ∨ g.path ∉ v.paths) :
    ({ v with files := F1 ++ g :: F2 } : Vol).wfB = true := by
  obtain ⟨h1, h2, h3, h4, h5, h6, h7⟩ := wfB_iff.1 hw
  have hao : ({ v with files := F1 ++ g :: F2 } : Vol).allOwned = v.allOwned := by
    unfold Vol.allOwned; rw [hv]; exact allOwned_replace ho
  rw [wfB_iff]
  refine ⟨by rw [hao]; exact h1, by rw [hao]; exact h2, by rw [hao]; exact h3, h4, h5, ?_, ?_⟩
  · show ((F1 ++ g :: F2).map (·.path)).Nodup
    rw [hv, paths_split] at h6
    rw [paths_split]
    rcases hp with hp | hp
    · rw [hp]; exact h6
    · have hnd := List.nodup_append.1 h6
      have hnd2 := List.nodup_cons.1 hnd.2.1
      have hp' : g.path ∉ F1.map (·.path) ∧ g.path ∉ F2.map (·.path) := by
        unfold Vol.paths at hp; rw [hv, paths_split] at hp
        simp only [List.mem_append, List.mem_cons, not_or] at hp
        exact ⟨hp.1, hp.2.2⟩
      refine List.nodup_append.2 ⟨hnd.1, List.nodup_cons.2 ⟨hp'.2, hnd2.2⟩, ?_⟩
      intro a ha b hb
      rcases List.mem_cons.1 hb with rfl | hb
      · intro e; exact hp'.1 (e ▸ ha)
      · exact hnd.2.2 a ha b (List.mem_cons_of_mem _ hb)
  · intro x hx
    show (x.chunks.map (·.1)).Pairwise (· < ·)
    have hx' : x ∈ F1 ++ g :: F2 := hx
    rcases List.mem_append.1 hx' with hx1 | hx2
    · exact h7 x (by rw [hv]; exact List.mem_append_left _ hx1)
    · rcases List.mem_cons.1 hx2 with rfl | hx2
      · rw [hc]; exact h7 f (by rw [hv]; simp)
      · exact h7 x (by rw [hv]; simp [hx2])

theorem lookup_mid {v : Vol} {F1 F2 : List FileRec} {f : FileRec} (hv : v.files = F1 ++ f :: F2)
    (nd : (v.files.map (·.path)).Nodup) : v.lookup f.path = some f := by
  unfold Vol.lookup
  exact find_path_of_mem nd (by rw [hv]; simp)

theorem without_replace {F1 F2 : List FileRec} {f g : FileRec} {ps : List Bytes} (hf : f.path ∈ ps) (hg : g.path ∈ ps) :
    without (F1 ++ f :: F2) ps = without (F1 ++ g :: F2) ps := by
  unfold without
  simp [List.filter_append, List.filter_cons, hf, hg]

theorem without_nodup {l : List FileRec} (nd : (l.map (·.path)).Nodup) (ps : List Bytes) :
    ((without l ps).map (·.path)).Nodup :=
  (List.Sublist.map _ (without_sublist l ps)).nodup nd

/-- the post-volume of a one-record replacement -/
def replaced (v : Vol) (F1 F2 : List FileRec) (g : FileRec) : Vol := { v with files := F1 ++ g :: F2 }

section replace
variable {P : FsParams} {v : Vol} {F1 F2 : List FileRec} {f g : FileRec}

theorem lookup_replaced (hv : v.files = F1 ++ f :: F2) (hw : v.wfB = true) (ho : g.owned = f.owned) (hc : g.chunks = f.chunks)
    (hp : g.path = f.path ∨ g.path ∉ v.paths) : (replaced v F1 F2 g).lookup g.path = some g := by
  have hw' := wfB_replace hv hw ho hc hp
  exact lookup_mid (v := replaced v F1 F2 g) rfl (wfB_paths_nodup hw')

theorem bystanders_replaced (hv : v.files = F1 ++ f :: F2) (hw : v.wfB = true) {ps : List Bytes}
    (hf : f.path ∈ ps) (hg : g.path ∈ ps) :
    sameFiles (without v.files ps) (without (replaced v F1 F2 g).files ps) = true := by
  show sameFiles (without v.files ps) (without (F1 ++ g :: F2) ps) = true
  rw [hv, without_replace hf hg]
  have nd : ((F1 ++ f :: F2).map (·.path)).Nodup := by rw [← hv]; exact wfB_paths_nodup hw
  rw [← without_replace (f := f) hf hg]
  exact sameFiles_refl (without_nodup nd ps)

theorem stepOk_lock_replaced (hv : v.files = F1 ++ f :: F2) (hw : v.wfB = true) (hp : g.path = f.path)
    (hl : g.locked = true) (hc : g.chunks = f.chunks) (he : g.eof = f.eof) (ho : g.owned = f.owned) (ht : g.ftype = f.ftype)
    (ha : g.aux = f.aux) (hd : g.isDir = f.isDir) : stepOk P v (.lock f.path) true (replaced v F1 F2 g) = true := by
  have hw' := wfB_replace hv hw ho hc (Or.inl hp)
  have h1 := lookup_mid hv (wfB_paths_nodup hw)
  have h2 := lookup_replaced hv hw ho hc (Or.inl hp)
  rw [hp] at h2
  have h3 := bystanders_replaced (g := g) hv hw (ps := [f.path]) (by simp) (by simp [hp])
  simp [stepOk, stepConds, hw', h1, h2, h3, hl, hc, he, ho, ht, ha, hd]
  exact hw'

theorem stepOk_unlock_replaced (hv : v.files = F1 ++ f :: F2) (hw : v.wfB = true) (hp : g.path = f.path)
    (hl : g.locked = false) (hc : g.chunks = f.chunks) (he : g.eof = f.eof) (ho : g.owned = f.owned) (ht : g.ftype = f.ftype)
    (ha : g.aux = f.aux) (hd : g.isDir = f.isDir) : stepOk P v (.unlock f.path) true (replaced v F1 F2 g) = true := by
  have hw' := wfB_replace hv hw ho hc (Or.inl hp)
  have h1 := lookup_mid hv (wfB_paths_nodup hw)
  have h2 := lookup_replaced hv hw ho hc (Or.inl hp)
  rw [hp] at h2
  have h3 := bystanders_replaced (g := g) hv hw (ps := [f.path]) (by simp) (by simp [hp])
  simp [stepOk, stepConds, hw', h1, h2, h3, hl, hc, he, ho, ht, ha, hd]
  exact hw'

theorem stepOk_retype_replaced (hv : v.files = F1 ++ f :: F2) (hw : v.wfB = true) (hp : g.path = f.path)
    (hc : g.chunks = f.chunks) (he : g.eof = f.eof) (ho : g.owned = f.owned) (hd : g.isDir = f.isDir) :
    stepOk P v (.retype f.path) true (replaced v F1 F2 g) = true := by
  have hw' := wfB_replace hv hw ho hc (Or.inl hp)
  have h1 := lookup_mid hv (wfB_paths_nodup hw)
  have h2 := lookup_replaced hv hw ho hc (Or.inl hp)
  rw [hp] at h2
  have h3 := bystanders_replaced (g := g) hv hw (ps := [f.path]) (by simp) (by simp [hp])
  simp [stepOk, stepConds, hw', h1, h2, h3, hc, he, ho, hd]
  exact hw'

theorem stepOk_rename_replaced (hv : v.files = F1 ++ f :: F2) (hw : v.wfB = true) (hp : g.path ∉ v.paths)
    (hfl : f.locked = false) (hl : g.locked = f.locked) (hc : g.chunks = f.chunks) (he : g.eof = f.eof) (ho : g.owned = f.owned)
    (hd : g.isDir = f.isDir) : stepOk P v (.rename f.path g.path) true (replaced v F1 F2 g) = true := by
  have hw' := wfB_replace hv hw ho hc (Or.inr hp)
  have h1 := lookup_mid hv (wfB_paths_nodup hw)
  have h2 := lookup_replaced hv hw ho hc (Or.inr hp)
  have h3 := bystanders_replaced (g := g) hv hw (ps := [f.path, g.path]) (by simp) (by simp)
  have hq : v.lookup g.path = none := not_mem_paths_iff.1 hp
  have hne : f.path ≠ g.path := by
    intro e; apply hp; rw [← e]; exact mem_paths_of_lookup h1
  have hgone : (replaced v F1 F2 g).lookup f.path = none := by
    apply not_mem_paths_iff.1
    intro hm
    have nd := wfB_paths_nodup hw
    unfold Vol.paths at hm nd
    rw [hv, paths_split] at nd
    change f.path ∈ (F1 ++ g :: F2).map (·.path) at hm
    rw [paths_split] at hm
    have hnd := List.nodup_append.1 nd
    have hnd2 := List.nodup_cons.1 hnd.2.1
    rcases List.mem_append.1 hm with hm | hm
    · exact hnd.2.2 _ hm _ List.mem_cons_self rfl
    · rcases List.mem_cons.1 hm with hm | hm
      · exact hne hm
      · exact hnd2.1 hm
  simp [stepOk, stepConds, hw', h1, h2, h3, hq, hgone, hfl, hl, hc, he, ho, hd]
  exact hw'

end replace


/-- a refused operation after which the same records are read from a well-formed volume is allowed -/
theorem stepOk_refused_files {P : FsParams} {v v' : Vol} (hw : v.wfB = true) (hw' : v'.wfB = true) (hf : v'.files = v.files)
    (op : FsOp) : stepOk P v op false v' = true := by
  have hs : sameFiles v.files v'.files = true := by rw [hf]; exact sameFiles_refl (wfB_paths_nodup hw)
  cases op <;> simp [stepOk, stepConds, hw', hs]

/-! ## removing one record -/

theorem allOwned_split (F1 F2 : List FileRec) (f : FileRec) :
    (F1 ++ f :: F2).flatMap (·.owned) = F1.flatMap (·.owned) ++ (f.owned ++ F2.flatMap (·.owned)) := by
  simp [List.flatMap_append, List.flatMap_cons]

/-- the post-volume of a removal: the record is gone, the free list is `free'` -/
def removed (v : Vol) (F1 F2 : List FileRec) (free' : List Nat) : Vol := { v with files := F1 ++ F2, freeUnits := free' }

section remove
variable {P : FsParams} {v : Vol} {F1 F2 : List FileRec} {f : FileRec} {free' : List Nat}

theorem wfB_remove (hv : v.files = F1 ++ f :: F2) (hw : v.wfB = true) (hnd : free'.Nodup)
    (hfree : ∀ x, x ∈ free' ↔ x ∈ v.freeUnits ∨ x ∈ f.owned) : (removed v F1 F2 free').wfB = true := by
  obtain ⟨h1, h2, h3, h4, h5, h6, h7⟩ := wfB_iff.1 hw
  have hao : v.allOwned = F1.flatMap (·.owned) ++ (f.owned ++ F2.flatMap (·.owned)) := by
    unfold Vol.allOwned; rw [hv]; exact allOwned_split F1 F2 f
  have hao' : (removed v F1 F2 free').allOwned = F1.flatMap (·.owned) ++ F2.flatMap (·.owned) := by
    unfold Vol.allOwned removed; simp [List.flatMap_append]
  have hsub : ((removed v F1 F2 free').allOwned).Sublist v.allOwned := by
    rw [hao, hao']
    exact List.Sublist.append (List.Sublist.refl _) (List.sublist_append_right _ _)
  have hmem : ∀ u ∈ (removed v F1 F2 free').allOwned, u ∈ v.allOwned := fun u hu => hsub.subset hu
  have hndo : v.allOwned.Nodup := (List.nodup_append.1 h2).1
  have hdisj : ∀ u ∈ (removed v F1 F2 free').allOwned, u ∉ f.owned := by
    intro u hu hf
    rw [hao] at hndo
    rw [hao'] at hu
    have hn1 := List.nodup_append.1 hndo
    have hn2 := List.nodup_append.1 hn1.2.1
    rcases List.mem_append.1 hu with hu | hu
    · exact hn1.2.2 u hu u (List.mem_append_left _ hf) rfl
    · exact hn2.2.2 u hf u hu rfl
  have hfo : ∀ u ∈ f.owned, u ∈ v.allOwned := by
    intro u hu; rw [hao]; exact List.mem_append_right _ (List.mem_append_left _ hu)
  rw [wfB_iff]
  refine ⟨fun u hu => h1 u (hmem u hu), ?_, ?_, ?_, ⟨hnd, ?_⟩, ?_, ?_⟩
  · exact (List.Sublist.append hsub (List.Sublist.refl v.sys)).nodup h2
  · intro u hu hf
    rcases (hfree u).1 hf with h | h
    · exact h3 u (hmem u hu) h
    · exact hdisj u hu h
  · intro u hu hf
    rcases (hfree u).1 hf with h | h
    · exact h4 u hu h
    · exact (List.nodup_append.1 h2).2.2 u (hfo u h) u hu rfl
  · intro u hu
    rcases (hfree u).1 hu with h | h
    · exact h5.2 u h
    · exact h1 u (hfo u h)
  · show ((F1 ++ F2).map (·.path)).Nodup
    rw [hv, paths_split] at h6
    rw [List.map_append]
    exact (List.Sublist.append (List.Sublist.refl _) (List.sublist_cons_self _ _)).nodup h6
  · intro x hx
    have hx' : x ∈ F1 ++ F2 := hx
    apply h7 x
    rw [hv]
    rcases List.mem_append.1 hx' with h | h
    · exact List.mem_append_left _ h
    · exact List.mem_append_right _ (List.mem_cons_of_mem _ h)

theorem stepOk_delete_removed (hv : v.files = F1 ++ f :: F2) (hw : v.wfB = true) (hnd : free'.Nodup)
    (hfree : ∀ x, x ∈ free' ↔ x ∈ v.freeUnits ∨ x ∈ f.owned) (hl : f.locked = false) :
    stepOk P v (.delete f.path) true (removed v F1 F2 free') = true := by
  have hw' := wfB_remove hv hw hnd hfree
  have nd := wfB_paths_nodup hw
  have h1 := lookup_mid hv nd
  unfold Vol.paths at nd
  rw [hv, paths_split] at nd
  have hn1 := List.nodup_append.1 nd
  have hn2 := List.nodup_cons.1 hn1.2.1
  have hgone : (removed v F1 F2 free').lookup f.path = none := by
    apply not_mem_paths_iff.1
    intro hm
    change f.path ∈ (F1 ++ F2).map (·.path) at hm
    rw [List.map_append] at hm
    rcases List.mem_append.1 hm with hm | hm
    · exact hn1.2.2 _ hm _ List.mem_cons_self rfl
    · exact hn2.1 hm
  have hwo : without v.files [f.path] = F1 ++ F2 := by
    rw [hv]
    unfold without
    rw [List.filter_append, List.filter_cons]
    have e1 : F1.filter (fun g => !([f.path] : List Bytes).contains g.path) = F1 := by
      rw [List.filter_eq_self]
      intro g hg
      have : g.path ≠ f.path := fun e => hn1.2.2 _ (List.mem_map_of_mem hg) _ List.mem_cons_self e
      simpa using this
    have e2 : F2.filter (fun g => !([f.path] : List Bytes).contains g.path) = F2 := by
      rw [List.filter_eq_self]
      intro g hg
      have : g.path ≠ f.path := fun e => hn2.1 (e ▸ List.mem_map_of_mem hg)
      simpa using this
    rw [e1, e2]
    simp
  have h3 : sameFiles (without v.files [f.path]) (removed v F1 F2 free').files = true := by
    rw [hwo]
    exact sameFiles_refl (wfB_paths_nodup hw')
  simp [stepOk, stepConds, hw', h1, hgone, h3, hl]

end remove


/-! ## inserting one record -/

def inserted (v : Vol) (F1 F2 : List FileRec) (g : FileRec) (free' : List Nat) : Vol :=
  { v with files := F1 ++ g :: F2, freeUnits := free' }

section insert
variable {P : FsParams} {v : Vol} {F1 F2 : List FileRec} {g : FileRec} {free' : List Nat}

theorem wfB_insert (hv : v.files = F1 ++ F2) (hw : v.wfB = true) (hgn : g.owned.Nodup) (hgf : ∀ x ∈ g.owned, x ∈ v.freeUnits)
    (hnd : free'.Nodup) (hfree : ∀ x, x ∈ free' ↔ x ∈ v.freeUnits ∧ x ∉ g.owned) (hp : g.path ∉ v.paths)
    (hc : (g.chunks.map (·.1)).Pairwise (· < ·)) : (inserted v F1 F2 g free').wfB = true := by
  obtain ⟨h1, h2, h3, h4, h5, h6, h7⟩ := wfB_iff.1 hw
  have hao : v.allOwned = F1.flatMap (·.owned) ++ F2.flatMap (·.owned) := by
    unfold Vol.allOwned; rw [hv, List.flatMap_append]
  have hao' : (inserted v F1 F2 g free').allOwned = F1.flatMap (·.owned) ++ (g.owned ++ F2.flatMap (·.owned)) := by
    unfold Vol.allOwned inserted; simp [List.flatMap_append, List.flatMap_cons]
  have hn := List.nodup_append.1 h2
  rw [hao] at hn h1 h3
  have hnA := List.nodup_append.1 hn.1
  have hgA : ∀ x ∈ g.owned, x ∉ F1.flatMap (·.owned) ∧ x ∉ F2.flatMap (·.owned) ∧ x ∉ v.sys := by
    intro x hx
    refine ⟨fun h => h3 x (List.mem_append_left _ h) (hgf x hx), fun h => h3 x (List.mem_append_right _ h) (hgf x hx),
      fun h => h4 x h (hgf x hx)⟩
  rw [wfB_iff]
  refine ⟨?_, ?_, ?_, ?_, ⟨hnd, ?_⟩, ?_, ?_⟩
  · rw [hao']
    intro u hu
    rcases List.mem_append.1 hu with h | h
    · exact h1 u (List.mem_append_left _ h)
    · rcases List.mem_append.1 h with h | h
      · exact h5.2 u (hgf u h)
      · exact h1 u (List.mem_append_right _ h)
  · rw [hao']
    show ((F1.flatMap (·.owned) ++ (g.owned ++ F2.flatMap (·.owned))) ++ v.sys).Nodup
    refine List.nodup_append.2 ⟨List.nodup_append.2 ⟨hnA.1, List.nodup_append.2 ⟨hgn, hnA.2.1, ?_⟩, ?_⟩, hn.2.1, ?_⟩
    · intro a ha b hb e; exact (hgA a ha).2.1 (e ▸ hb)
    · intro a ha b hb e
      rcases List.mem_append.1 hb with h | h
      · exact (hgA b h).1 (e ▸ ha)
      · exact hnA.2.2 a ha b h e
    · intro a ha b hb e
      rcases List.mem_append.1 ha with h | h
      · exact hn.2.2 a (List.mem_append_left _ h) b hb e
      · rcases List.mem_append.1 h with h | h
        · exact (hgA a h).2.2 (e ▸ hb)
        · exact hn.2.2 a (List.mem_append_right _ h) b hb e
  · rw [hao']
    intro u hu hf
    have hf' := (hfree u).1 hf
    rcases List.mem_append.1 hu with h | h
    · exact h3 u (List.mem_append_left _ h) hf'.1
    · rcases List.mem_append.1 h with h | h
      · exact hf'.2 h
      · exact h3 u (List.mem_append_right _ h) hf'.1
  · intro u hu hf; exact h4 u hu ((hfree u).1 hf).1
  · intro u hu; exact h5.2 u ((hfree u).1 hu).1
  · show ((F1 ++ g :: F2).map (·.path)).Nodup
    rw [hv, List.map_append] at h6
    rw [paths_split]
    have hnp := List.nodup_append.1 h6
    have hp' : g.path ∉ F1.map (·.path) ∧ g.path ∉ F2.map (·.path) := by
      unfold Vol.paths at hp; rw [hv, List.map_append, List.mem_append, not_or] at hp; exact hp
    refine List.nodup_append.2 ⟨hnp.1, List.nodup_cons.2 ⟨hp'.2, hnp.2.1⟩, ?_⟩
    intro a ha b hb e
    rcases List.mem_cons.1 hb with rfl | hb
    · exact hp'.1 (e ▸ ha)
    · exact hnp.2.2 a ha b hb e
  · intro x hx
    have hx' : x ∈ F1 ++ g :: F2 := hx
    rcases List.mem_append.1 hx' with h | h
    · exact h7 x (by rw [hv]; exact List.mem_append_left _ h)
    · rcases List.mem_cons.1 h with rfl | h
      · exact hc
      · exact h7 x (by rw [hv]; exact List.mem_append_right _ h)

theorem stepOk_put_inserted (hv : v.files = F1 ++ F2) (hw : v.wfB = true) (hgn : g.owned.Nodup) (hgf : ∀ x ∈ g.owned, x ∈ v.freeUnits)
    (hnd : free'.Nodup) (hfree : ∀ x, x ∈ free' ↔ x ∈ v.freeUnits ∧ x ∉ g.owned) (hp : g.path ∉ v.paths)
    (hc : (g.chunks.map (·.1)).Pairwise (· < ·)) (hd : g.isDir = false) {cs : List (Nat × Bytes)} {eof ty aux : Nat}
    (hcm : chunksMatch cs g.chunks = true) (he : g.eof = P.eofRule eof) (ht : P.keepsType = true → g.ftype = ty)
    (ha : P.keepsAux = true → g.aux = aux) :
    stepOk P v (.put g.path cs eof ty aux) true (inserted v F1 F2 g free') = true := by
  have hw' := wfB_insert hv hw hgn hgf hnd hfree hp hc
  have h1 : v.lookup g.path = none := not_mem_paths_iff.1 hp
  have h2 : (inserted v F1 F2 g free').lookup g.path = some g := lookup_mid (v := inserted v F1 F2 g free') rfl (wfB_paths_nodup hw')
  have nd := wfB_paths_nodup hw
  have hwo : without (inserted v F1 F2 g free').files [g.path] = v.files := by
    show without (F1 ++ g :: F2) [g.path] = v.files
    rw [hv]
    unfold without
    rw [List.filter_append, List.filter_cons]
    unfold Vol.paths at hp
    rw [hv, List.map_append, List.mem_append, not_or] at hp
    have e1 : F1.filter (fun f => !([g.path] : List Bytes).contains f.path) = F1 := by
      rw [List.filter_eq_self]
      intro f hf
      have : f.path ≠ g.path := fun e => hp.1 (e ▸ List.mem_map_of_mem hf)
      simpa using this
    have e2 : F2.filter (fun f => !([g.path] : List Bytes).contains f.path) = F2 := by
      rw [List.filter_eq_self]
      intro f hf
      have : f.path ≠ g.path := fun e => hp.2 (e ▸ List.mem_map_of_mem hf)
      simpa using this
    rw [e1, e2]
    simp
  have h3 : sameFiles v.files (without (inserted v F1 F2 g free').files [g.path]) = true := by
    rw [hwo]; exact sameFiles_refl nd
  have hkt : (!P.keepsType || g.ftype == ty) = true := by
    cases hk : P.keepsType with
    | false => rfl
    | true => simp [ht hk]
  have hka : (!P.keepsAux || g.aux == aux) = true := by
    cases hk : P.keepsAux with
    | false => rfl
    | true => simp [ha hk]
  have hown : g.owned.all (fun u => v.freeUnits.contains u) = true := by
    rw [List.all_eq_true]; intro u hu; simpa using hgf u hu
  simp [stepOk, stepConds, hw', h1, h2, h3, hcm, hd, he, hkt, hka, hown]
  exact hgf

end insert

/-! ## C04: no unit is lost (`noLeak`) -/

theorem mem_vrange {lo hi u : Nat} : u ∈ Vol.range lo hi ↔ lo ≤ u ∧ u < hi := by
  unfold Vol.range
  simp only [List.mem_map, List.mem_range]
  constructor
  · rintro ⟨k, hk, rfl⟩; omega
  · rintro ⟨h1, h2⟩; exact ⟨u - lo, by omega, by omega⟩

theorem noLeak_iff {v : Vol} : v.noLeak = true ↔ ∀ u, v.lo ≤ u → u < v.hi → u ∈ v.allOwned ∨ u ∈ v.sys ∨ u ∈ v.freeUnits := by
  unfold Vol.noLeak
  rw [List.all_eq_true]
  constructor
  · intro h u h1 h2
    have := h u (mem_vrange.2 ⟨h1, h2⟩)
    simpa [Bool.or_eq_true, or_assoc] using this
  · intro h u hu
    obtain ⟨h1, h2⟩ := mem_vrange.1 hu
    have := h u h1 h2
    simpa [Bool.or_eq_true, or_assoc] using this

/-- a step together with what it does to the C04 accounting: allowed by the specification, and (under `cond`) a
reading without lost units stays so -/
structure StepL (P : FsParams) (pre : Vol) (op : FsOp) (ok : Bool) (post : Vol) (cond : Prop) : Prop where
  ok : stepOk P pre op ok post = true
  tight : cond → pre.noLeak = true → post.noLeak = true

theorem StepL.refused_same {P : FsParams} {v : Vol} (hw : v.wfB = true) (op : FsOp) (cond : Prop) : StepL P v op false v cond :=
  ⟨stepOk_refused_same hw op, fun _ h => h⟩

theorem noLeak_replaced {v : Vol} {F1 F2 : List FileRec} {f g : FileRec} (hv : v.files = F1 ++ f :: F2) (ho : g.owned = f.owned)
    (h : v.noLeak = true) : (replaced v F1 F2 g).noLeak = true := by
  rw [noLeak_iff] at h ⊢
  have hao : (replaced v F1 F2 g).allOwned = v.allOwned := by
    unfold Vol.allOwned replaced; rw [hv]; exact allOwned_replace ho
  intro u h1 h2
  rw [hao]
  exact h u h1 h2

theorem noLeak_removed {v : Vol} {F1 F2 : List FileRec} {f : FileRec} {free' : List Nat} (hv : v.files = F1 ++ f :: F2)
    (hfree : ∀ x, x ∈ free' ↔ x ∈ v.freeUnits ∨ x ∈ f.owned) (h : v.noLeak = true) : (removed v F1 F2 free').noLeak = true := by
  rw [noLeak_iff] at h ⊢
  intro u h1 h2
  have hao : v.allOwned = F1.flatMap (·.owned) ++ (f.owned ++ F2.flatMap (·.owned)) := by
    unfold Vol.allOwned; rw [hv]; exact allOwned_split F1 F2 f
  have hao' : (removed v F1 F2 free').allOwned = F1.flatMap (·.owned) ++ F2.flatMap (·.owned) := by
    unfold Vol.allOwned removed; simp [List.flatMap_append]
  rcases h u h1 h2 with a | a | a
  · rw [hao] at a
    rcases List.mem_append.1 a with a | a
    · left; rw [hao']; exact List.mem_append_left _ a
    · rcases List.mem_append.1 a with a | a
      · right; right; exact (hfree u).2 (Or.inr a)
      · left; rw [hao']; exact List.mem_append_right _ a
  · right; left; exact a
  · right; right; exact (hfree u).2 (Or.inl a)

theorem noLeak_inserted {v : Vol} {F1 F2 : List FileRec} {g : FileRec} {free' : List Nat} (hv : v.files = F1 ++ F2)
    (hfree : ∀ x, x ∈ free' ↔ x ∈ v.freeUnits ∧ x ∉ g.owned) (h : v.noLeak = true) : (inserted v F1 F2 g free').noLeak = true := by
  rw [noLeak_iff] at h ⊢
  intro u h1 h2
  have hao : v.allOwned = F1.flatMap (·.owned) ++ F2.flatMap (·.owned) := by
    unfold Vol.allOwned; rw [hv, List.flatMap_append]
  have hao' : (inserted v F1 F2 g free').allOwned = F1.flatMap (·.owned) ++ (g.owned ++ F2.flatMap (·.owned)) := by
    unfold Vol.allOwned inserted; simp [List.flatMap_append, List.flatMap_cons]
  rcases h u h1 h2 with a | a | a
  · left
    rw [hao] at a; rw [hao']
    rcases List.mem_append.1 a with a | a
    · exact List.mem_append_left _ a
    · exact List.mem_append_right _ (List.mem_append_right _ a)
  · right; left; exact a
  · by_cases hg : u ∈ g.owned
    · left; rw [hao']; exact List.mem_append_right _ (List.mem_append_left _ hg)
    · right; right; exact (hfree u).2 ⟨a, hg⟩


end A2Verif.FsDos
