import A2Verif.Lemmas.FsProdosPutI
/-!
# `put(fimg)` of a file into the volume directory, as a step
-/
namespace A2Verif.FsProdos
open A2Verif.Fs.Prodos
open A2Verif.Read.Prodos (entryAt dirChain idxPtr indexEntries readData trimName)
open A2Verif.Read.ProdosT

theorem put_trace {d : Disk} {bm cnt : Nat} {ch : List Nat} (c : RootCtx d bm cnt ch)
    (hsrc : d.src = repaired)
    (htot0 : d.total ≠ 0) (htot16 : d.total ≤ 65535) (htotsz : d.total = d.raw.units.size)
    (hbsz : (effBuf d bm cnt).size = blockSize * cnt) (hcover : d.total ≤ 8 * (effBuf d bm cnt).size)
    (hbok : BytesOk (effBuf d bm cnt)) (hshape : ShapeOk d.raw)
    (hfreeOrd : ∀ b, b < d.total → freeB (effBuf d bm cnt) b = true → b ∉ bmRange bm cnt ∧ b ∉ ch)
    (hzero : freeB (effBuf d bm cnt) 0 = false)
    (f : FImg) (time nm : Bytes) (pk : PutOk f time)
    (hnodes : normalizePath (volName (hdrOf d.raw)) f.fullPath = .ok [volName (hdrOf d.raw), nm]) (hnm : nm ≠ [])
    (hv : isNameValid nm = true)
    (hnone : (dirSlots d.raw 2 ch).find? (isHit allTypes nm) = none)
    (B k : Nat) (hB : B ∈ ch) (hk13 : k < 13) (hkey : B = 2 → 1 ≤ k)
    (hslot : (dirSlots d.raw 2 ch).find? isFreeSlot = some (entryAt (unitAt d.raw B) k 39, B, k + 1))
    (nb : Nat) (hfind : (List.range d.total).find? (freeB (effBuf d bm cnt)) = some nb)
    (hfit : blocksNeeded f ≤ (freeBlocks (effBuf d bm cnt) d.total).length)
    (hcount : le16 (unitAt d.raw 2) 37 + 1 ≤ 65535)
    (acc : Nat) (hacc : f.access[0]? = some acc) (hacc256 : acc < 256) :
    ∃ d2 e0 s dc Al d3, put f time repaired d = (.ok f.eof, d3) ∧
      LoopCtx d2 bm cnt ∧
      d2.raw = setUnit (setUnit d.raw 2 (patched (unitAt d.raw 2) 37 (u16le (le16 (unitAt d.raw 2) 37 + 1)))) B
        (patched (if B = 2 then patched (unitAt d.raw 2) 37 (u16le (le16 (unitAt d.raw 2) 37 + 1)) else unitAt d.raw B)
          (4 + k * 39) e0) ∧
      (∀ j, freeB (effBuf d2 bm cnt) j = freeB (effBuf d bm cnt) j) ∧
      NewEntry e0 nm (f.fsType.getD 0 0) nb acc (f.aux.getD 0 0 + 256 * f.aux.getD 1 0) ∧
      LoopRes f d2 bm cnt e0 nb s dc Al ∧
      AState d2 bm cnt dc Al ∧ B ∉ Al ∧
      Next d d3 bm cnt
        (setUnit dc.raw B (patched (unitAt d2.raw B) (4 + k * 39) (Ent.setAccess (Ent.setEof s.entry f.eof) acc)))
        (clearBit (effBuf dc bm cnt) B) := by
  -- facts about the image
  have hex := c.chain.exists
  have hBsz : B < d.raw.units.size := hex B hB
  have hBnb : B ∉ bmRange bm cnt := c.nb B hB
  obtain ⟨rest, hch⟩ := chain_head c.chain
  have h2ch : 2 ∈ ch := by rw [hch]; exact List.mem_cons_self
  have h2nb : (2 : Nat) ∉ bmRange bm cnt := c.two_nb
  have h2sz : 2 < d.raw.units.size := c.two_lt
  have hlen : ∀ b, b < d.raw.units.size → (unitAt d.raw b).length = 512 := fun b hb => (hshape.unit hb).1
  have hnbm := List.mem_of_find?_eq_some hfind
  have hnbl : nb < d.total := List.mem_range.mp hnbm
  have hnbf : freeB (effBuf d bm cnt) nb = true := List.find?_some hfind
  have hused : ∀ b ∈ ch, freeB (effBuf d bm cnt) b = false := by
    intro b hb
    cases hfb : freeB (effBuf d bm cnt) b with
    | false => rfl
    | true => exact absurd hb (hfreeOrd b (by rw [htotsz]; exact hex b hb) hfb).2
  have hcovb : ∀ b, b < d.raw.units.size → b / 8 < (effBuf d bm cnt).size := by
    intro b hb; rw [← htotsz] at hb; omega
  -- the buffer is opened
  let buf := effBuf d bm cnt
  have stp : St (openD d bm cnt) bm cnt := c.st.toOpen _
  have hprep : prepareToWrite f.fullPath d = (.ok (nm, 2, { block := B, idx := k + 1 }, nb), openD d bm cnt) := by
    rw [prepare_root c f.fullPath nm hnodes hnm htot0 hcover]
    simp only [hv, Bool.not_true, Bool.false_eq_true, ↓reduceIte, hnone, hslot, hfind]
    rw [Nat.mod_eq_of_lt (by omega)]
    rfl
  have hnum : numFreeBlocks (openD d bm cnt) = (.ok (freeBlocks (effBuf d bm cnt) d.total).length, openD d bm cnt) := by
    have := numFreeBlocks_st stp htot0 hcover
    rw [this]
    rfl
  -- the file count
  have hgd2 := getDirectory_st stp 2 (unitAt d.raw 2) h2nb (units_get_unitAt _ _ h2sz)
  have hk2 : kindOf 2 (unitAt d.raw 2) = DKind.volKey := by unfold kindOf; simp [volKeyBlock]
  have hcnt2 : le16 ((unitAt d.raw 2).take dirLen) (4 + 33) = le16 (unitAt d.raw 2) 37 :=
    le16_take _ dirLen 37 (by unfold dirLen; omega)
  have hinc := incFileCount_ok DKind.volKey ((unitAt d.raw 2).take dirLen) (by decide) (by rw [hcnt2]; exact hcount)
  rw [hcnt2] at hinc
  have hlen2 := hlen 2 h2sz
  have hhdr1 : (2 : Nat) = 2 → le16 (quantize ((splice ((unitAt d.raw 2).take dirLen) (4 + 33)
      (u16le (le16 (unitAt d.raw 2) 37 + 1))).take blockSize)) 39 = bm := by
    intro _
    show le16 (patched (unitAt d.raw 2) 37 (u16le _)) 39 = bm
    rw [le16_patched_out _ _ _ 39 hlen2 (by show 37 + 2 ≤ 511; omega) (Or.inr (by show 37 + 2 ≤ 39; omega)) (by omega)]
    obtain ⟨kb, hkb, hbm⟩ := c.st.hdr
    rw [unitAt_of_get hkb]; exact hbm
  obtain ⟨d1, hd1, n1⟩ := writeBlock_next stp (splice ((unitAt d.raw 2).take dirLen) (4 + 33)
      (u16le (le16 (unitAt d.raw 2) 37 + 1))) 2 h2nb h2sz (hcovb 2 h2sz) hhdr1
  have hraw1 : d1.raw = setUnit d.raw 2 (patched (unitAt d.raw 2) 37 (u16le (le16 (unitAt d.raw 2) 37 + 1))) := n1.raw
  have heff1 : effBuf d1 bm cnt = clearBit (effBuf d bm cnt) 2 := n1.eff
  have hsz1 : d1.raw.units.size = d.raw.units.size := by rw [hraw1, setUnit_size]
  have hu1 : ∀ b, unitAt d1.raw b = if b = 2 then patched (unitAt d.raw 2) 37 (u16le (le16 (unitAt d.raw 2) 37 + 1)) else unitAt d.raw b := by
    intro b
    rw [hraw1]
    by_cases hb : b = 2
    · subst hb; rw [if_pos rfl]; unfold unitAt; rw [setUnit_self _ _ _ h2sz]; rfl
    · rw [if_neg hb, unitAt_setUnit_other _ _ _ _ (Ne.symm hb)]
  have hlen1 : ∀ b, b < d.raw.units.size → (unitAt d1.raw b).length = 512 := by
    intro b hb; rw [hu1 b]; split
    · exact patched_length _ _ _
    · exact hlen b hb
  -- the entry
  obtain ⟨hft1, hft2⟩ := pk.fsType
  obtain ⟨hax1, hax2, hax3⟩ := pk.aux
  obtain ⟨hvs1, hvs2⟩ := pk.version
  obtain ⟨hmv1, hmv2⟩ := pk.minVersion
  have ne := createFileEntry_facts nm (f.fsType.getD 0 0) nb (f.version.getD 0 0) (f.minVersion.getD 0 0) acc
    (f.aux.getD 0 0) (f.aux.getD 1 0) 2 time hv pk.time.1 pk.time.2 hft2 (by omega) hvs2 hmv2 hacc256 hax2 hax3
  have hkind1 : B ≠ 2 → kindOf B (unitAt d1.raw B) = DKind.entry := by
    intro hb; rw [hu1 B, if_neg hb]; exact (c.kinds B hB).2 hb
  obtain ⟨d2, hd2, n2⟩ := writeEntry_next n1.st B k hBnb (by rw [hsz1]; exact hBsz)
    (by rw [heff1, size_clearBit]; exact hcovb B hBsz) (hlen1 B hBsz) hk13 hkey hkind1
    (createFileEntry nm (f.fsType.getD 0 0) nb (f.version.getD 0 0) (f.minVersion.getD 0 0) acc
      (f.aux.getD 0 0) (f.aux.getD 1 0) 2 time)
  rw [take_full _ ne.len, hu1 B, heff1] at n2
  have hraw2 : d2.raw = setUnit d1.raw B _ := n2.raw
  have hsz2 : d2.raw.units.size = d.raw.units.size := by rw [hraw2, setUnit_size, hsz1]
  have hu2B : unitAt d2.raw B = patched (if B = 2 then patched (unitAt d.raw 2) 37 (u16le (le16 (unitAt d.raw 2) 37 + 1))
      else unitAt d.raw B) (4 + k * 39) (createFileEntry nm (f.fsType.getD 0 0) nb (f.version.getD 0 0) (f.minVersion.getD 0 0) acc
      (f.aux.getD 0 0) (f.aux.getD 1 0) 2 time) := by
    rw [hraw2]; unfold unitAt; rw [setUnit_self _ _ _ (by rw [hsz1]; exact hBsz)]; rfl
  have hlenB1 : (if B = 2 then patched (unitAt d.raw 2) 37 (u16le (le16 (unitAt d.raw 2) 37 + 1)) else unitAt d.raw B).length = 512 := by
    rw [← hu1 B]; exact hlen1 B hBsz
  -- the buffer after the two writes marks the same blocks free
  have hf1 : ∀ j, freeB (clearBit (effBuf d bm cnt) 2) j = freeB (effBuf d bm cnt) j :=
    freeB_clearBit_used _ 2 hbok (hcovb 2 h2sz) (hused 2 h2ch)
  have hf2 : ∀ j, freeB (effBuf d2 bm cnt) j = freeB (effBuf d bm cnt) j := by
    intro j
    rw [n2.eff, freeB_clearBit_used _ B (bytesOk_clearBit _ _ hbok) (by rw [size_clearBit]; exact hcovb B hBsz)
      (by rw [hf1]; exact hused B hB) j, hf1 j]
  have hfun : freeB (effBuf d2 bm cnt) = freeB (effBuf d bm cnt) := funext hf2
  have htot2 : d2.total = d.total := by rw [n2.total, n1.total]; rfl
  have hsrc2 : d2.src = d.src := by rw [n2.src, n1.src]; rfl
  have hshape2 : ShapeOk d2.raw := by
    rw [hraw2]
    apply shape_setUnit _ B _ (patched_length _ _ _) (patched_bytes _ _ _ hlenB1 (by rw [ne.len]; omega) ?_ ne.bytes)
    · rw [hraw1]
      exact shape_setUnit hshape 2 _ (patched_length _ _ _)
        (patched_bytes _ _ _ hlen2 (by unfold u16le; simp) (hshape.unit h2sz).2 (u16le_bytes _))
    · rw [← hu1 B]
      have : ShapeOk d1.raw := by
        rw [hraw1]
        exact shape_setUnit hshape 2 _ (patched_length _ _ _)
          (patched_bytes _ _ _ hlen2 (by unfold u16le; simp) (hshape.unit h2sz).2 (u16le_bytes _))
      exact (this.unit (by rw [hsz1]; exact hBsz)).2
  have ctx : LoopCtx d2 bm cnt := by
    refine ⟨n2.st, by rw [htot2]; exact htot0, by rw [htot2]; exact htot16, by rw [htot2, hsz2]; exact htotsz, ?_, ?_, ?_,
      hshape2, ?_, by rw [hf2]; exact hzero⟩
    · rw [n2.eff, size_clearBit, size_clearBit]; exact hbsz
    · rw [n2.eff, size_clearBit, size_clearBit, htot2]; exact hcover
    · rw [n2.eff]; exact bytesOk_clearBit _ _ (bytesOk_clearBit _ _ hbok)
    · intro b hb hfb
      rw [htot2] at hb; rw [hf2] at hfb
      obtain ⟨h1, h2⟩ := hfreeOrd b hb hfb
      exact ⟨h1, fun e => h2 (e ▸ h2ch)⟩
  have he0 : entryAt (unitAt d2.raw B) k 39 = createFileEntry nm (f.fsType.getD 0 0) nb (f.version.getD 0 0) (f.minVersion.getD 0 0) acc
      (f.aux.getD 0 0) (f.aux.getD 1 0) 2 time := by
    rw [hu2B]; exact entryAt_patched_self _ _ k hlenB1 ne.len hk13
  have hkind2 : B ≠ 2 → kindOf B (unitAt d2.raw B) = DKind.entry := by
    intro hb
    have h0 := (c.kinds B hB).2 hb
    rw [hu2B, if_neg hb]
    unfold kindOf at h0 ⊢
    rw [if_neg hb] at h0 ⊢
    rw [getD_patched_out _ _ _ 0 (hlen B hBsz) (by rw [ne.len]; omega) (Or.inl (by omega)) (by omega),
      getD_patched_out _ _ _ 1 (hlen B hBsz) (by rw [ne.len]; omega) (Or.inl (by omega)) (by omega)]
    exact h0
  have hfit2 : allocCount f f.end_ ≤ (freeBlocks (effBuf d2 bm cnt) d2.total).length := by
    rw [← blocksNeeded_eq f pk.keys]
    unfold freeBlocks; rw [hfun, htot2]; exact hfit
  obtain ⟨s, dc, Al, d3, hwf, hres, ha, hBAl, n3⟩ := writeFile_trace (f := f) ctx B k hBnb (by rw [hsz2]; exact hBsz)
    (by rw [n2.eff, size_clearBit, size_clearBit]; exact hcovb B hBsz) (by rw [hu2B]; exact patched_length _ _ _)
    hk13 hkey hkind2 he0 ne (by rw [hf2]; exact hused B hB)
    (fun p hp => by rw [hfun, htot2, hfind] at hp; injection hp with hp; exact hp.symm)
    (by rw [hsrc2, hsrc]; rfl) (by have := pk.ne; intro h; exact this (List.eq_nil_of_length_eq_zero h))
    pk.end_pos pk.endle hfit2 pk.first pk.bytes acc hacc
  rw [if_pos pk.eof.1] at n3
  refine ⟨d2, _, s, dc, Al, d3, ?_, ctx, ?_, hf2, ne, hres, ha, hBAl,
    ⟨n3.st, n3.raw, n3.eff, by rw [n3.total, ha.total, htot2], by rw [n3.src, ha.src, hsrc2]⟩⟩
  · unfold put
    simp only [bind_def, pure_def]
    rw [if_neg (by rw [pk.fsOk]; simp), if_neg (by rw [pk.chunkLen]; simp), if_neg (by
      intro h; exact pk.ne (List.eq_nil_of_length_eq_zero h))]
    have hal : 1 ≤ f.access.length := by
      rcases Nat.lt_or_ge 0 f.access.length with h | h
      · exact h
      · rw [List.getElem?_eq_none (by omega)] at hacc; cases hacc
    rw [if_neg (by intro h; have := h.2; omega), if_neg (by intro h; have := h.2; have := pk.eof.2; have := pk.endle; omega)]
    rw [bind_ok _ _ d _ _ hprep]
    simp only []
    rw [bind_ok _ _ _ _ _ hnum, if_neg (by omega), bind_ok _ _ _ _ _ hgd2]
    rw [hk2, hinc, bind_ok _ _ _ _ _ (ofOption_some _ _)]
    simp only []
    rw [bind_ok _ _ _ d1 _ hd1, if_neg (by omega)]
    simp only [hacc]
    rw [bind_ok _ _ d1 d1 _ (ofOption_some _ d1), bind_ok _ _ d1 d2 _ hd2]
    exact hwf
  · rw [hraw2, hraw1]

end A2Verif.FsProdos
