import A2Verif.Lemmas.C06FatFormat
import A2Verif.Lemmas.FsFatExample
/-!
# C06, FAT: the example object (non-vacuity, negative witness), evaluated in the kernel
-/
namespace A2Verif.Reload.Fat
open A2Verif.Fs.Fat

theorem exec_coh {d : Disk} (h : Coh d) (steps : List Step) : Coh (exec d steps).2 :=
  (exec_sim steps (dsim_refl h)).2.coh'

open A2Verif.FsFat (exDisk exDisk_inv)

/-- the 24-sector FAT12 volume of `Lemmas/FsFatExample.lean` (formatted and filled by the model; it satisfies the
refinement invariant `FsFat.Inv`) is coherent -/
theorem exDisk_coh' : Coh exDisk := coh_of_inv exDisk_inv

/-- delete the two-cluster file `A.B`: the two freed clusters are free in the buffer only -/
def exD : Disk := (exec exDisk [.op (.delete [65, 46, 66])]).2

theorem exD_coh : Coh exD := by
  unfold exD
  exact exec_coh exDisk_coh' _

def freeOf (x : R Nat × Disk) : Nat := match x.1 with | .ok n => n | .error _ => 99999

/-- the variant of `get_img` that forgets the buffer, followed by `load` -/
def reloadForgetful (d : Disk) : Disk := match saveForgetful d with | .ok b => load d.raw.unitLen d.labelFiles b | .error _ => d

theorem reloadForgetful_eq {d : Disk} (h : Coh d) :
    reloadForgetful d = { raw := d.raw, bpb := d.bpb, typ := d.typ, fat := none, labelFiles := d.labelFiles } := by
  unfold reloadForgetful saveForgetful load
  simp only
  rw [h.geo.ulen, ofBytes_toBytes (shaped_of_geo h.geo)]
  obtain ⟨s0, h0, hb⟩ := h.geo.boot
  unfold Disk.ofImg
  simp only [h0, Option.getD_some, hb]
  rw [h.geo.ftyp, h.geo.typ]

set_option maxRecDepth 1000000 in
/-- the example object has all 20 clusters free, the image underneath it still shows 18 -/
theorem exD_free : freeOf (statFree exD) = 20 ∧
    freeOf (statFree { raw := exD.raw, bpb := exD.bpb, typ := exD.typ, fat := none, labelFiles := exD.labelFiles }) = 18 := by
  decide +kernel


open A2Verif.FsFat (exDisk0 exDisk0_inv exDisk0_bpb exBoot exStamp exStamp_ok)

theorem exDisk0_coh : Coh exDisk0 := coh_of_inv exDisk0_inv

set_option maxRecDepth 100000 in
/-- `format("V")` with the example boot sector fits the freshly formatted example volume -/
theorem exFmtArgs : FmtArgs exDisk0 [86] exBoot exStamp := by
  refine ⟨exDisk0_inv.lf, by decide, exDisk0_bpb.symm, ?_, ?_, Or.inl (by decide), exStamp_ok⟩
  · rw [exDisk0_bpb]; decide
  · rw [exDisk0_bpb]; decide

end A2Verif.Reload.Fat
