import A2Verif.Lemmas.FsCpmFound
/-!
# Entry-only operations of the concrete CP/M model: what a rewritten directory reads as

Infrastructure shared by `delete`, `lock`, `unlock`, `retype`, `rename`, `protect`, `unprotect`: saving a directory
leaves the data blocks alone, the reading of a file depends only on its own entries, its data blocks and the
password entries.
-/
namespace A2Verif.FsCpm
open A2Verif.Fs.Cpm
open A2Verif.Read.Cpm (Dpb fileKey extNum entryPtrs pathOf)

/-! ## list facts -/

theorem eraseDups_filter {α : Type} [BEq α] [LawfulBEq α] (q : α → Bool) : ∀ (n : Nat) (l : List α), l.length ≤ n →
    (l.filter q).eraseDups = l.eraseDups.filter q := by
  intro n
  induction n with
  | zero => intro l h; cases l with
    | nil => simp
    | cons a l => simp at h
  | succ n ih =>
    intro l h
    cases l with
    | nil => simp
    | cons a l =>
      have hlen : (l.filter (fun b => !b == a)).length ≤ n := by
        have := List.length_filter_le (fun b => !b == a) l
        simp at h; omega
      rw [List.eraseDups_cons]
      by_cases c : q a = true
      · rw [List.filter_cons_of_pos c, List.eraseDups_cons, List.filter_cons_of_pos c, List.filter_filter]
        congr 1
        rw [← ih _ hlen, List.filter_filter]
        congr 1
        apply List.filter_congr
        intro x _
        exact Bool.and_comm _ _
      · rw [List.filter_cons_of_neg c, List.filter_cons_of_neg c, ← ih _ hlen, List.filter_filter]
        congr 1
        apply List.filter_congr
        intro x _
        by_cases hx : q x = true
        · have : x ≠ a := fun e => c (e ▸ hx)
          simp [hx, this]
        · simp [hx]

theorem sameFiles_refl {l : List FileRec} (nd : (l.map (·.path)).Nodup) : sameFiles l l = true := by
  rw [sameFiles_iff]
  refine ⟨fun f hf => ⟨f, find_path_of_mem nd hf, sameRec_refl f⟩, fun g hg => ?_⟩
  rw [find_path_of_mem nd hg]; rfl

/-! ## frame -/

/-- a pointer of a file entry is not a directory block -/
theorem owned_not_dir {d : Dpb} {r : Raw} (h : Inv d r) {e : Bytes} (he : e ∈ fents d r) {p : Nat} (hp : p ∈ ownedE d e) :
    dirBlocks d ≤ p := by
  have hnd := h.noShare
  rw [List.nodup_append] at hnd
  have hne := hnd.2.2 p (List.mem_flatMap.2 ⟨e, he, hp⟩)
  by_cases c : dirBlocks d ≤ p
  · exact c
  · exfalso
    apply hne p _ rfl
    rw [h.dpb.prefix_, List.mem_range]
    have := h.dpb.cover
    omega

theorem chunksE_congr {d : Dpb} {r r' : Raw} {e : Bytes} (h : ∀ p ∈ ownedE d e, r'.units[p]? = r.units[p]?) :
    chunksE r' d e = chunksE r d e := by
  unfold chunksE
  apply List.map_congr_left
  intro pj hpj
  have : pj.1 ∈ ownedE d e := List.mem_map_of_mem hpj
  unfold blkOf
  rw [h _ this]

theorem recOf_congr {d : Dpb} {r r' : Raw} {ents ents' es : List Bytes}
    (hu : ∀ e ∈ es, ∀ p ∈ ownedE d e, r'.units[p]? = r.units[p]?) (hpw : pwOf ents' (es.headD []) = pwOf ents (es.headD [])) :
    recOf r' d ents' es = recOf r d ents es := by
  unfold recOf recWith
  have : es.flatMap (chunksE r' d) = es.flatMap (chunksE r d) := flatMap_congr_mem (fun e he => chunksE_congr (hu e he))
  simp only [this, hpw]

theorem any_congr_mem {α : Type} {p q : α → Bool} : ∀ {l : List α}, (∀ a ∈ l, p a = q a) → l.any p = l.any q
  | [], _ => rfl
  | a :: l, h => by
    rw [List.any_cons, List.any_cons, h a List.mem_cons_self, any_congr_mem (fun b hb => h b (List.mem_cons_of_mem _ hb))]

/-- entries that change are file entries and stay file entries or become unused: the password flag of every file is unaffected -/
theorem pwOf_map {dir : Dir} {f : Bytes → Bytes}
    (hf : ∀ e ∈ dir, f e = e ∨ (e.getD 0 0 < 16 ∧ ((f e).getD 0 0 < 16 ∨ (f e).getD 0 0 = 229)))
    {first : Bytes} (h0 : first.getD 0 0 < 16) : pwOf (dir.map f) first = pwOf dir first := by
  unfold pwOf
  rw [List.any_map]
  apply any_congr_mem
  intro e he
  rcases hf e he with h | ⟨h1, h2⟩
  · simp only [Function.comp, h]
  · have a : ¬ (e.getD 0 0 = first.getD 0 0 + 16) := by omega
    have b : ¬ ((f e).getD 0 0 = first.getD 0 0 + 16) := by omega
    simp only [Function.comp, a, b, false_and, decide_false]

theorem nodup_map_inj {α β : Type} {g : α → β} : ∀ {l : List α}, (l.map g).Nodup → ∀ {a b : α}, a ∈ l → b ∈ l → g a = g b → a = b
  | [], _, _, _, ha, _, _ => by cases ha
  | x :: l, h, a, b, ha, hb, hg => by
    rw [List.map_cons, List.nodup_cons] at h
    rcases List.mem_cons.1 ha with hax | hal
    · rcases List.mem_cons.1 hb with hbx | hbl
      · rw [hax, hbx]
      · exfalso; apply h.1; rw [← hax, hg]; exact List.mem_map_of_mem hbl
    · rcases List.mem_cons.1 hb with hbx | hbl
      · exfalso; apply h.1; rw [← hbx, ← hg]; exact List.mem_map_of_mem hal
      · exact nodup_map_inj h.2 hal hbl hg

/-! ## refusals -/

theorem stepOk_refused_intro {P : FsParams} {pre post : Vol} {op : FsOp} (hw : post.wfB = true)
    (hs : sameFiles pre.files post.files = true) : stepOk P pre op false post = true := by
  cases op <;> simp [stepOk, stepConds, hw, hs]

/-- an operation that leaves the image as it was and reports an error is allowed -/
theorem refused_same {P : FsParams} {d : Dpb} {r : Raw} (h : Inv d r) (op : FsOp) :
    Inv d r ∧ stepOk P (volOf d r) op false (volOf d r) = true :=
  ⟨h, stepOk_refused_intro (volOf_wf h) (sameFiles_refl (wfB_paths_nodup (volOf_wf h)))⟩

/-! ## `get_file` -/

/-- the key `get_file` looks for in a directory of upper-case keys -/
def canonKey (xname : Bytes) : Bytes :=
  let t := if xname.contains 46 then trimEnd xname else trimEnd xname ++ [46]
  if t.contains 58 then upper t else [48, 58] ++ upper t

/-- the path an extended file name stands for -/
def canon (xname : Bytes) : Bytes := pathOfKeyStr (canonKey xname)

theorem upper_mem58 {t : Bytes} : 58 ∈ upper t ↔ 58 ∈ t := by
  unfold upper
  rw [List.mem_map]
  constructor
  · rintro ⟨c, hc, h⟩
    have : c = 58 := by
      unfold upperByte at h
      split at h <;> omega
    exact this ▸ hc
  · intro h; exact ⟨58, h, by decide⟩

theorem lookupKey_key {files : List FileInfo} {k : Bytes} {fi : FileInfo} (h : lookupKey files k = some fi) : fi.key = k := by
  unfold lookupKey at h
  simpa using List.find?_some h

theorem getFile_lookup {xname : Bytes} {files : List FileInfo} {fi : FileInfo} (h : getFile xname files = some fi) :
    ∃ k, lookupKey files k = some fi := by
  unfold getFile at h
  simp only [] at h
  generalize (if xname.contains 46 = true then trimEnd xname else trimEnd xname ++ [46]) = t at h
  split at h
  · exact ⟨_, by cases h; assumption⟩
  · split at h
    · exact ⟨_, by cases h; assumption⟩
    · split at h
      · cases h
      · split at h
        · exact ⟨_, by cases h; assumption⟩
        · exact ⟨_, h⟩

theorem getFile_canon {xname : Bytes} {files : List FileInfo} {fi : FileInfo} (hk : 58 ∈ fi.key) (hu : upper fi.key = fi.key)
    (h : getFile xname files = some fi) : fi.key = canonKey xname := by
  unfold getFile at h
  unfold canonKey
  simp only [] at h ⊢
  generalize (if xname.contains 46 = true then trimEnd xname else trimEnd xname ++ [46]) = t at h ⊢
  split at h
  next hl =>
    cases h
    have e := lookupKey_key hl
    rw [if_pos (by rw [← e]; simpa using hk), ← e, hu]
  · split at h
    next hl =>
      cases h
      have e := lookupKey_key hl
      rw [if_pos (by
        have : 58 ∈ upper t := by rw [← e]; exact hk
        simpa using upper_mem58.1 this), e]
    · split at h
      · cases h
      next hc =>
        rw [if_neg hc]
        split at h
        next hl =>
          cases h
          have e := lookupKey_key hl
          rw [e] at hu
          have : upper ([48, 58] ++ t) = [48, 58] ++ upper t := by simp [upper, upperByte]
          rw [this] at hu
          rw [e, hu]
        · exact lookupKey_key h

end A2Verif.FsCpm