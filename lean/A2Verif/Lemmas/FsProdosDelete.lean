import A2Verif.Lemmas.FsProdosModify
/-!
# What `delete` frees: the blocks of a seedling / sapling file

`deallocate_index_block(p)` marks free exactly the index block `p` and the blocks its non-zero pointers name — the
list the independent reader reports as `owned` for a sapling entry (`key :: ps.map (·.2)`, `ps = indexEntries ib 0`) —
leaves every other mark as it was, and rewrites only unit `p` (halves swapped).
-/
namespace A2Verif.FsProdos
open A2Verif.Fs.Prodos

/-- pointer `k` of an index block as the model reads it -/
abbrev ptrAt (blk : Bytes) (k : Nat) : Nat := blk.getD k 0 + 256 * blk.getD (k + 256) 0

theorem ptrAt_eq_idxPtr (blk : Bytes) (k : Nat) : ptrAt blk k = Read.Prodos.idxPtr blk k := by
  unfold Read.Prodos.idxPtr; show blk.getD k 0 + 256 * blk.getD (k + 256) 0 = _; rw [Nat.add_comm k 256]

/-- the non-zero pointers among the slots `ks` -/
def nzPtrs (blk : Bytes) (ks : List Nat) : List Nat :=
  ks.filterMap (fun k => if ptrAt blk k > 0 then some (ptrAt blk k) else none)

theorem foldl_setBit_size (ps : List Nat) (buf : Array Nat) : (ps.foldl setBit buf).size = buf.size := by
  induction ps generalizing buf with
  | nil => rfl
  | cons p ps ih => rw [List.foldl_cons, ih, size_setBit]

theorem foldl_setBit_bytesOk (ps : List Nat) (buf : Array Nat) (h : BytesOk buf) : BytesOk (ps.foldl setBit buf) := by
  induction ps generalizing buf with
  | nil => exact h
  | cons p ps ih => rw [List.foldl_cons]; exact ih _ (bytesOk_setBit buf p h)

/-- after setting the bits of `ps`, a block is free iff it is one of them or was free -/
theorem freeB_foldl_setBit (ps : List Nat) (buf : Array Nat) (hok : BytesOk buf) (hcov : ∀ p ∈ ps, p / 8 < buf.size) (j : Nat) :
    freeB (ps.foldl setBit buf) j = (ps.contains j || freeB buf j) := by
  induction ps generalizing buf with
  | nil => simp
  | cons p ps ih =>
    rw [List.foldl_cons, ih (setBit buf p) (bytesOk_setBit buf p hok)
      (fun q hq => by rw [size_setBit]; exact hcov q (List.mem_cons_of_mem _ hq)),
      freeB_setBit buf p j hok (hcov p List.mem_cons_self)]
    by_cases hjp : j = p
    · subst hjp; simp
    · have : (j == p) = false := by simpa using hjp
      simp [List.contains_cons, this, hjp]

/-- the loop of `deallocate_index_block` over the slots `ks` on an open buffer -/
theorem deallocPtrs_open (blk : Bytes) : ∀ (ks : List Nat) (d : Disk) (buf : Array Nat), d.bitmap = some buf →
    (∀ p ∈ nzPtrs blk ks, p / 8 < buf.size) →
    deallocPtrs blk ks d = (.ok (), { d with bitmap := some ((nzPtrs blk ks).foldl setBit buf) })
  | [], d, buf, h, _ => by
    simp only [deallocPtrs, pure_def, M.pure, nzPtrs, List.filterMap_nil, List.foldl_nil]
    cases d; simp_all
  | k :: ks, d, buf, h, hcov => by
    unfold deallocPtrs
    by_cases hp : ptrAt blk k > 0
    · have hp' : blk.getD k 0 + 256 * blk.getD (k + 256) 0 > 0 := hp
      simp only [hp', ↓reduceIte, bind_def, M.bind]
      have hnz : nzPtrs blk (k :: ks) = ptrAt blk k :: nzPtrs blk ks := by
        simp [nzPtrs, List.filterMap_cons, hp]
      rw [hnz] at hcov
      rw [deallocate_open d buf _ h (hcov _ List.mem_cons_self)]
      simp only
      rw [deallocPtrs_open blk ks _ (setBit buf (ptrAt blk k)) rfl
        (fun q hq => by rw [size_setBit]; exact hcov q (List.mem_cons_of_mem _ hq))]
      rw [hnz, List.foldl_cons]
    · have hp' : ¬ (blk.getD k 0 + 256 * blk.getD (k + 256) 0 > 0) := hp
      simp only [hp', ↓reduceIte]
      have hnz : nzPtrs blk (k :: ks) = nzPtrs blk ks := by
        simp [nzPtrs, List.filterMap_cons, hp]
      rw [hnz] at hcov ⊢
      exact deallocPtrs_open blk ks d buf h hcov

/-- the index block with its halves swapped, as `deallocate_index_block` writes it back -/
abbrev swapHalves (ib : Bytes) : Bytes := slice ib 256 256 ++ slice ib 0 256

/-- **`deallocate_index_block(p)`** on an open buffer that covers `p` and every block the index block names -/
theorem deallocIndexBlock_open (d : Disk) (buf : Array Nat) (p : Nat) (ib : Bytes)
    (hopen : d.bitmap = some buf) (hnb : d.bitmapBlocks.contains p = false) (hib : d.raw.units[p]? = some ib)
    (hcovp : p / 8 < buf.size) (hcov : ∀ q ∈ nzPtrs ib (rng 0 256), q / 8 < buf.size) :
    deallocIndexBlock p d = (.ok (), { d with
      raw := setUnit d.raw p (quantize ((swapHalves ib).take blockSize)),
      bitmap := some (setBit (clearBit ((nzPtrs ib (rng 0 256)).foldl setBit buf) p) p) }) := by
  have hsz : p < d.raw.units.size := by
    rcases Nat.lt_or_ge p d.raw.units.size with h | h
    · exact h
    · rw [Array.getElem?_eq_none h] at hib; cases hib
  unfold deallocIndexBlock
  simp only [bind_def, M.bind, readBlock_plain d p ib hnb hib]
  rw [deallocPtrs_open ib (rng 0 256) d buf hopen hcov]
  simp only
  rw [writeBlock_plain { d with bitmap := some ((nzPtrs ib (rng 0 256)).foldl setBit buf) } ((nzPtrs ib (rng 0 256)).foldl setBit buf) _ p hnb hsz rfl (by rw [foldl_setBit_size]; exact hcovp)]
  simp only
  rw [deallocate_open { d with raw := setUnit d.raw p (quantize ((swapHalves ib).take blockSize)), bitmap := some (clearBit ((nzPtrs ib (rng 0 256)).foldl setBit buf) p) } _ p rfl (by rw [size_clearBit, foldl_setBit_size]; exact hcovp)]

/-- the blocks the independent reader reports as owned by a sapling entry with key block `p` and index block `ib` -/
def saplingOwned (p : Nat) (ib : Bytes) : List Nat := p :: (Read.Prodos.indexEntries ib 0).map (·.2)

theorem filterMap_congr' {α β : Type} (f g : α → Option β) (l : List α) (h : ∀ x, f x = g x) : l.filterMap f = l.filterMap g := by
  have : f = g := funext h
  rw [this]

theorem nzPtrs_eq_reader (ib : Bytes) : nzPtrs ib (rng 0 256) = (Read.Prodos.indexEntries ib 0).map (·.2) := by
  unfold nzPtrs Read.Prodos.indexEntries rng
  rw [List.map_filterMap]
  have hr : List.range' 0 (256 - 0) = List.range 256 := by simp [List.range_eq_range']
  rw [hr]
  apply filterMap_congr'
  intro k
  show (if ptrAt ib k > 0 then some (ptrAt ib k) else none) = _
  rw [ptrAt_eq_idxPtr]
  by_cases h : Read.Prodos.idxPtr ib k = 0
  · simp [h]
  · have : Read.Prodos.idxPtr ib k > 0 := Nat.pos_of_ne_zero h
    simp [h, this]

/-- **C04, delete of a sapling file frees exactly what the reader says it owns.**  After `deallocate_index_block(p)`
a block is marked free iff it is the index block, one of the blocks the index block names, or was free before;
only unit `p` of the image changes. -/
theorem sapling_dealloc_frees_owned (d : Disk) (buf : Array Nat) (p : Nat) (ib : Bytes)
    (hopen : d.bitmap = some buf) (hok : BytesOk buf) (hnb : d.bitmapBlocks.contains p = false) (hib : d.raw.units[p]? = some ib)
    (hcov : ∀ q ∈ saplingOwned p ib, q / 8 < buf.size) :
    ∃ d' buf', deallocIndexBlock p d = (.ok (), d') ∧ d'.bitmap = some buf' ∧
      (∀ j, freeB buf' j = ((saplingOwned p ib).contains j || freeB buf j)) ∧
      (∀ j, j ≠ p → d'.raw.units[j]? = d.raw.units[j]?) := by
  have hcovp : p / 8 < buf.size := hcov p List.mem_cons_self
  have hcovq : ∀ q ∈ nzPtrs ib (rng 0 256), q / 8 < buf.size := by
    intro q hq; rw [nzPtrs_eq_reader] at hq; exact hcov q (List.mem_cons_of_mem _ hq)
  refine ⟨_, _, deallocIndexBlock_open d buf p ib hopen hnb hib hcovp hcovq, rfl, ?_, ?_⟩
  · intro j
    have hok1 := foldl_setBit_bytesOk (nzPtrs ib (rng 0 256)) buf hok
    have hs1 : p / 8 < ((nzPtrs ib (rng 0 256)).foldl setBit buf).size := by rw [foldl_setBit_size]; exact hcovp
    rw [freeB_setBit _ p j (bytesOk_clearBit _ p hok1) (by rw [size_clearBit]; exact hs1),
      freeB_clearBit _ p j hok1 hs1, freeB_foldl_setBit _ buf hok hcovq j]
    unfold saplingOwned
    rw [← nzPtrs_eq_reader]
    by_cases hjp : j = p
    · subst hjp; simp
    · have : (j == p) = false := by simpa using hjp
      simp [hjp, List.contains_cons, this]
  · intro j hj
    exact setUnit_other _ _ _ _ (Ne.symm hj)

end A2Verif.FsProdos
