import A2Verif.Lemmas.FsFatRename
/-!
# `retype` of a root-level file in the concrete FAT model

`retype(p, sys|reg|hid|vis)` is refused without a change of the state (not found, a directory, an unknown type), or it is
the attribute operation `attrOp p set clear` on an entry without the directory attribute (`retype_eq`); `hfile_of_entry`:
the record the reading lists under `absPath p` is then a file, which is what `attr_step` asks for.
-/
namespace A2Verif.FsFat
open A2Verif A2Verif.Fs.Fat A2Verif.Read.Fat A2Verif.Read.FatT

/-- the masks of `retype`: `sys`, `reg`, `hid`, `vis` -/
def retypeMasks : NewType → Option (Option Nat × Option Nat)
  | .sys => some (some SYSTEM, none)
  | .reg => some (none, some SYSTEM)
  | .hid => some (some HIDDEN, none)
  | .vis => some (none, some HIDDEN)
  | .other => none

theorem retype_eq {d : Disk} (g : Geo d) {p : Bytes} (a : RootArg p) (t : NewType) :
    (∃ er, retype p t d = (.error er, d)) ∨
    ∃ set clear E1 e E2 nm ty, retypeMasks t = some (set, clear) ∧ retype p t d = attrOp p set clear d ∧
      dirOfBytes (rootBuf d) = E1 ++ e :: E2 ∧ (∀ x ∈ E1, entryType x ≠ .freeAndNoMore) ∧ inMap d.labelFiles e ∧
      fileNameToSplit e = some (nm, ty) ∧ keyOf p = nm ++ [46] ++ ty ∧ (e.getD 11 0 / 16) % 2 = 0 := by
  rcases gotoPath_root_cases g a with ⟨er, hgo⟩ | ⟨files, fi, hb, hl, hgo⟩
  · left
    unfold retype
    simp only [M_bind_apply, hgo]
    exact ⟨_, rfl⟩
  · have hbl := buildLoop_lookup d.labelFiles _ 0 0 [] files hb (keyOf p) fi hl
    cases hbl with
    | inl h => simp [List.lookup] at h
    | inr h =>
      obtain ⟨E1, e, E2, nm, ty, hE, hidx, hE1, hin, hn, hk, hfi⟩ := h
      by_cases hdir : fi.directory = true
      · left
        unfold retype
        simp only [M_bind_apply, hgo, hdir, if_true, M_fail_apply]
        exact ⟨_, rfl⟩
      · have hdir' : fi.directory = false := by simpa using hdir
        have hbit : (e.getD 11 0 / 16) % 2 = 0 := by
          rw [hfi] at hdir'
          have : ¬ (Entry.attr e &&& DIRECTORY > 0) := by simpa [infoOf] using hdir'
          unfold DIRECTORY Entry.attr at this
          rw [and16] at this
          omega
        cases t with
        | other =>
          left
          unfold retype
          simp only [M_bind_apply, hgo, hdir', Bool.false_eq_true, if_false, FInfo.root, getDirectory, getRootDir_eq g, M_fail_apply]
          exact ⟨_, rfl⟩
        | sys =>
          right
          refine ⟨some SYSTEM, none, E1, e, E2, nm, ty, rfl, ?_, hE, hE1, hin, hn, hk, hbit⟩
          unfold retype attrOp modifyAt
          simp only [M_bind_apply, hgo, hdir', Bool.false_eq_true, if_false]
        | reg =>
          right
          refine ⟨none, some SYSTEM, E1, e, E2, nm, ty, rfl, ?_, hE, hE1, hin, hn, hk, hbit⟩
          unfold retype attrOp modifyAt
          simp only [M_bind_apply, hgo, hdir', Bool.false_eq_true, if_false]
        | hid =>
          right
          refine ⟨some HIDDEN, none, E1, e, E2, nm, ty, rfl, ?_, hE, hE1, hin, hn, hk, hbit⟩
          unfold retype attrOp modifyAt
          simp only [M_bind_apply, hgo, hdir', Bool.false_eq_true, if_false]
        | vis =>
          right
          refine ⟨none, some HIDDEN, E1, e, E2, nm, ty, rfl, ?_, hE, hE1, hin, hn, hk, hbit⟩
          unfold retype attrOp modifyAt
          simp only [M_bind_apply, hgo, hdir', Bool.false_eq_true, if_false]

/-- if the root entry found under the key of `p` is no directory, the record listed under `absPath p` is a file -/
theorem hfile_of_entry {d : Disk} (inv : Inv d) {p : Bytes} {E1 E2 : List Bytes} {e nm ty : Bytes}
    (hE : dirOfBytes (rootBuf d) = E1 ++ e :: E2) (hE1 : ∀ x ∈ E1, entryType x ≠ .freeAndNoMore) (hin : inMap false e)
    (hn : fileNameToSplit e = some (nm, ty)) (hk : keyOf p = nm ++ [46] ++ ty) (hbit : (e.getD 11 0 / 16) % 2 = 0) :
    ∀ rec, (volOf d).lookup (absPath p) = some rec → rec.isDir = false := by
  obtain ⟨f, c⟩ := inv.coh
  have g := inv.geo
  obtain ⟨hread, hwf, _⟩ := inv_reads_well_formed inv
  obtain ⟨hA, _, _⟩ := rootEntries_spec g
  have hmem : e ∈ dirOfBytes (rootBuf d) := by rw [hE]; simp
  have hel : e.length = 32 := hA e hmem
  obtain ⟨hshown, hgood⟩ := shown_of_inMap inv.root hmem hel hin
  have hE1live : ∀ x ∈ E1, live x := fun x hx => live_of_type (hA x (by rw [hE]; simp [hx])) (hE1 x hx)
  rw [readT_eq g c] at hread
  obtain ⟨R1, y, R2, hy, hfiles, _⟩ := readFrom_split hE hE1live hshown hread
  have hpath : entPath [] e = absPath p := by
    unfold entPath
    simp only [List.isEmpty_nil, if_true]
    exact entName_of_key hn hgood hk
  rw [rdEnt_file hbit] at hy
  cases hfr : fileRec d.raw (rbpb d.bpb) f false (hiOf d.bpb) (entPath [] e) e with
  | error er => rw [hfr] at hy; cases hy
  | ok r0 =>
    rw [hfr] at hy
    injection hy with hy
    subst hy
    obtain ⟨k1, _, _, k4, _⟩ := fileRec_fields hfr
    intro rec hl
    have nd := wfB_paths_nodup hwf
    have hmemv : r0 ∈ (volOf d).files := by rw [hfiles]; simp
    have hl0 : (volOf d).lookup (absPath p) = some r0 := by
      rw [← hpath, ← k1]
      exact find_path_of_mem nd hmemv
    rw [hl0] at hl
    injection hl with hl
    rw [← hl]
    exact k4

end A2Verif.FsFat
