import A2Verif.Model.CmdSkel
/-!
Soundness of the abstract interpretation `chk` (and of `hasSave`) with respect to `run`, for every
environment.  Core Lean only.
-/
namespace A2Verif.CmdSkel

variable {α β : Type}

/-- what a summary `m` promises about a result: wherever `m` says "no save can have happened on
this way out", the file still is `file0`; error and panic exits always have the original file -/
def Good (file0 : α) (m : Sum) : Res (St α β) → Prop
  | .cont s => m.ft = false → s.file = file0
  | .exit e s => if e = .ok then (m.ok = false → s.file = file0) else s.file = file0
  | .brk s => m.bk = false → s.file = file0
  | .cnt s => m.cn = false → s.file = file0

theorem Good.mono {file0 : α} {m m' : Sum} {r : Res (St α β)}
    (hft : m'.ft = false → m.ft = false) (hok : m'.ok = false → m.ok = false)
    (hbk : m'.bk = false → m.bk = false) (hcn : m'.cn = false → m.cn = false)
    (h : Good file0 m r) : Good file0 m' r := by
  cases r with
  | cont s => exact fun h' => h (hft h')
  | exit e s =>
    unfold Good at *
    by_cases he : e = .ok
    · simp only [he, if_true] at *; exact fun h' => h (hok h')
    · simp only [he, if_false] at *; exact h
  | brk s => exact fun h' => h (hbk h')
  | cnt s => exact fun h' => h (hcn h')

theorem or_f_l {a b : Bool} : (a || b) = false → a = false := by cases a <;> simp
theorem or_f_r {a b : Bool} : (a || b) = false → b = false := by cases a <;> simp

theorem Good.exit_mono {file0 : α} {m m' : Sum} {e : Exit} {s : St α β}
    (hok : m'.ok = false → m.ok = false)
    (h : Good file0 m (.exit e s)) : Good file0 m' (.exit e s) := by
  unfold Good at *
  by_cases he : e = .ok
  · simp only [he, if_true] at *; exact fun h' => h (hok h')
  · simp only [he, if_false] at *; exact h

theorem loop_good (file0 : α) (body : Nat → St α β → Res (St α β)) (T : Bool) (m2 : Sum)
    (hinv : T = false → m2.ft = false ∧ m2.cn = false)
    (hbody : ∀ i s, (T = false → s.file = file0) → Good file0 m2 (body i s)) :
    ∀ n i s, (T = false → s.file = file0) →
      Good file0 { ft := T || m2.bk, ok := m2.ok } (loop body n i s) := by
  intro n
  induction n with
  | zero =>
    intro i s hs
    simp only [loop, Good]
    intro h
    have : T = false := by
      cases T <;> simp_all
    exact hs this
  | succ n ih =>
    intro i s hs
    have hb := hbody i s hs
    simp only [loop]
    cases hr : body i s with
    | cont s' =>
      rw [hr] at hb
      simp only
      apply ih
      intro hT
      exact hb (hinv hT).1
    | cnt s' =>
      rw [hr] at hb
      simp only
      apply ih
      intro hT
      exact hb (hinv hT).2
    | brk s' =>
      rw [hr] at hb
      simp only [Good]
      intro h
      apply hb
      cases T <;> simp_all
    | exit e s' =>
      rw [hr] at hb
      simp only [Good] at *
      exact hb

/-- Main soundness lemma: if `chk k sv = some m` and the file is still the original one unless
`sv` allows a save to have happened, then the result of running `k` is `Good` for `m`. -/
theorem run_good (env : Env α β) (file0 : α) :
    ∀ (k : Skel) (sv : Bool) (m : Sum) (stk : List Nat) (s : St α β),
      chk k sv = some m → (sv = false → s.file = file0) → Good file0 m (run env k stk s) := by
  intro k
  induction k with
  | skip => intro sv m stk s h hs; simp only [chk, Option.some.injEq] at h; subst h; simpa [run, Good] using hs
  | load => intro sv m stk s h hs; simp only [chk, Option.some.injEq] at h; subst h; simpa [run, Good] using hs
  | mutate site => intro sv m stk s h hs; simp only [chk, Option.some.injEq] at h; subst h; simpa [run, Good] using hs
  | fallible site c =>
    intro sv m stk s h hs
    cases sv with
    | true => simp [chk] at h
    | false =>
      simp only [chk] at h
      simp only [run]
      split <;> simp [Good, hs]
  | panicSite site c =>
    intro sv m stk s h hs
    cases sv with
    | true => simp [chk] at h
    | false =>
      simp only [chk] at h
      simp only [run]
      split <;> simp [Good, hs]
  | save site p =>
    intro sv m stk s h hs
    cases sv with
    | true => simp [chk] at h
    | false =>
      simp only [chk, Bool.false_eq_true, if_false, Option.some.injEq] at h
      subst h
      simp only [run]
      split
      · cases p <;> simp [Good, hs]
      · simp [Good]
  | retOk => intro sv m stk s h hs; simp only [chk, Option.some.injEq] at h; subst h; simpa [run, Good] using hs
  | retErr =>
    intro sv m stk s h hs
    cases sv with
    | true => simp [chk] at h
    | false => simp [run, Good, hs]
  | brk => intro sv m stk s h hs; simp only [chk, Option.some.injEq] at h; subst h; simpa [run, Good] using hs
  | cnt => intro sv m stk s h hs; simp only [chk, Option.some.injEq] at h; subst h; simpa [run, Good] using hs
  | seq a b iha ihb =>
    intro sv m stk s h hs
    simp only [chk] at h
    cases ha : chk a sv with
    | none => simp [ha] at h
    | some sa =>
      simp only [ha] at h
      cases hb : chk b sa.ft with
      | none => simp [hb] at h
      | some sb =>
        simp only [hb, Option.some.injEq] at h
        subst h
        have ga := iha sv sa stk s ha hs
        simp only [run]
        cases hr : run env a stk s with
        | cont s' =>
          rw [hr] at ga
          simp only
          have gb := ihb sa.ft sb stk s' hb ga
          refine Good.mono (m := sb) ?_ ?_ ?_ ?_ gb
          · exact fun h => h
          · exact fun h => or_f_r h
          · exact fun h => or_f_r h
          · exact fun h => or_f_r h
        | exit e s' =>
          rw [hr] at ga
          exact Good.exit_mono (fun h => or_f_l h) ga
        | brk s' =>
          rw [hr] at ga
          exact fun h' => ga (or_f_l h')
        | cnt s' =>
          rw [hr] at ga
          exact fun h' => ga (or_f_l h')
  | alt site a b iha ihb =>
    intro sv m stk s h hs
    simp only [chk] at h
    cases ha : chk a sv with
    | none => simp [ha] at h
    | some sa =>
      cases hb : chk b sv with
      | none => simp [ha, hb] at h
      | some sb =>
        simp only [ha, hb, Option.some.injEq] at h
        subst h
        simp only [run]
        split
        · exact Good.mono (fun h => or_f_l h) (fun h => or_f_l h) (fun h => or_f_l h) (fun h => or_f_l h)
            (iha sv sa stk s ha hs)
        · exact Good.mono (fun h => or_f_r h) (fun h => or_f_r h) (fun h => or_f_r h) (fun h => or_f_r h)
            (ihb sv sb stk s hb hs)
  | forEach site body ih =>
    intro sv m stk s h hs
    simp only [chk] at h
    cases h1 : chk body sv with
    | none => simp [h1] at h
    | some s1 =>
      simp only [h1] at h
      cases h2 : chk body (sv || s1.ft || s1.cn) with
      | none => simp [h2] at h
      | some s2 =>
        simp only [h2, Option.some.injEq] at h
        subst h
        simp only [run]
        have hinv : (sv || s1.ft || s1.cn) = false → s2.ft = false ∧ s2.cn = false := by
          intro hT
          have hsv : sv = false := by cases sv <;> simp_all
          have hft : s1.ft = false := by cases hx : s1.ft <;> simp_all
          have hcn : s1.cn = false := by cases hx : s1.cn <;> simp_all
          rw [hT, ← hsv, h1] at h2
          simp only [Option.some.injEq] at h2
          subst h2
          exact ⟨hft, hcn⟩
        have hT0 : (sv || s1.ft || s1.cn) = false → s.file = file0 := by
          intro hT
          apply hs
          cases sv <;> simp_all
        have := loop_good file0 (fun i s => run env body (i :: stk) s) (sv || s1.ft || s1.cn) s2 hinv
          (fun i s' hs' => ih (sv || s1.ft || s1.cn) s2 (i :: stk) s' h2 hs')
          (env.count site stk) 0 s hT0
        exact this
  | call f a b ihf iha ihb =>
    intro sv m stk s h hs
    simp only [chk] at h
    cases hf : chk f sv with
    | none => simp [hf] at h
    | some sf =>
      simp only [hf] at h
      cases ha : chk a (sf.ft || sf.ok || sf.bk || sf.cn) with
      | none => simp [ha] at h
      | some sa =>
        cases hb : chk b false with
        | none => simp [ha, hb] at h
        | some sb =>
          simp only [ha, hb, Option.some.injEq] at h
          subst h
          have gf := ihf sv sf stk s hf hs
          simp only [run]
          have left : ∀ s', ((sf.ft || sf.ok || sf.bk || sf.cn) = false → s'.file = file0) →
              Good file0 (sa.or sb) (run env a stk s') := by
            intro s' hs'
            exact Good.mono (fun h => or_f_l h) (fun h => or_f_l h) (fun h => or_f_l h) (fun h => or_f_l h)
              (iha _ sa stk s' ha hs')
          have right : ∀ s', s'.file = file0 → Good file0 (sa.or sb) (run env b stk s') := by
            intro s' hs'
            exact Good.mono (fun h => or_f_r h) (fun h => or_f_r h) (fun h => or_f_r h) (fun h => or_f_r h)
              (ihb false sb stk s' hb (fun _ => hs'))
          cases hr : run env f stk s with
          | cont s' =>
            rw [hr] at gf
            simp only
            apply left
            intro hT; apply gf; simp at hT; exact hT.1.1.1
          | brk s' =>
            rw [hr] at gf
            simp only
            apply left
            intro hT; apply gf; simp at hT; exact hT.1.2
          | cnt s' =>
            rw [hr] at gf
            simp only
            apply left
            intro hT; apply gf; simp at hT; exact hT.2
          | exit e s' =>
            rw [hr] at gf
            cases e with
            | ok =>
              simp only
              apply left
              intro hT
              simp only [Good, if_true] at gf
              apply gf; simp at hT; exact hT.1.1.2
            | err =>
              simp only
              apply right
              simpa [Good] using gf
            | panic =>
              simp only [Good] at *
              simpa using gf
            | fell =>
              simp only [Good] at *
              simpa using gf

/-- the file is untouched by a skeleton without `save`, whatever happens -/
def Same (file0 : α) : Res (St α β) → Prop
  | .cont s => s.file = file0
  | .exit _ s => s.file = file0
  | .brk s => s.file = file0
  | .cnt s => s.file = file0

theorem loop_same (file0 : α) (body : Nat → St α β → Res (St α β))
    (hbody : ∀ i s, s.file = file0 → Same file0 (body i s)) :
    ∀ n i s, s.file = file0 → Same file0 (loop body n i s) := by
  intro n
  induction n with
  | zero => intro i s hs; simpa [loop, Same] using hs
  | succ n ih =>
    intro i s hs
    have hb := hbody i s hs
    simp only [loop]
    cases hr : body i s with
    | cont s' => rw [hr] at hb; exact ih _ _ hb
    | cnt s' => rw [hr] at hb; exact ih _ _ hb
    | brk s' => rw [hr] at hb; simpa [Same] using hb
    | exit e s' => rw [hr] at hb; simpa [Same] using hb

theorem run_same (env : Env α β) (file0 : α) :
    ∀ (k : Skel) (stk : List Nat) (s : St α β),
      hasSave k = false → s.file = file0 → Same file0 (run env k stk s) := by
  intro k
  induction k with
  | skip => intro stk s _ hs; simpa [run, Same] using hs
  | load => intro stk s _ hs; simpa [run, Same] using hs
  | mutate site => intro stk s _ hs; simpa [run, Same] using hs
  | fallible site c => intro stk s _ hs; simp only [run]; split <;> simpa [Same] using hs
  | panicSite site c => intro stk s _ hs; simp only [run]; split <;> simpa [Same] using hs
  | save site p => intro stk s h _; simp [hasSave] at h
  | retOk => intro stk s _ hs; simpa [run, Same] using hs
  | retErr => intro stk s _ hs; simpa [run, Same] using hs
  | brk => intro stk s _ hs; simpa [run, Same] using hs
  | cnt => intro stk s _ hs; simpa [run, Same] using hs
  | seq a b iha ihb =>
    intro stk s h hs
    simp only [hasSave, Bool.or_eq_false_iff] at h
    have ga := iha stk s h.1 hs
    simp only [run]
    cases hr : run env a stk s with
    | cont s' => rw [hr] at ga; exact ihb stk s' h.2 ga
    | exit e s' => rw [hr] at ga; simpa [Same] using ga
    | brk s' => rw [hr] at ga; simpa [Same] using ga
    | cnt s' => rw [hr] at ga; simpa [Same] using ga
  | alt site a b iha ihb =>
    intro stk s h hs
    simp only [hasSave, Bool.or_eq_false_iff] at h
    simp only [run]
    split
    · exact iha stk s h.1 hs
    · exact ihb stk s h.2 hs
  | forEach site body ih =>
    intro stk s h hs
    simp only [hasSave] at h
    simp only [run]
    exact loop_same file0 _ (fun i s' hs' => ih (i :: stk) s' h hs') _ _ _ hs
  | call f a b ihf iha ihb =>
    intro stk s h hs
    simp only [hasSave, Bool.or_eq_false_iff] at h
    have gf := ihf stk s h.1.1 hs
    simp only [run]
    cases hr : run env f stk s with
    | cont s' => rw [hr] at gf; exact iha stk s' h.1.2 gf
    | brk s' => rw [hr] at gf; exact iha stk s' h.1.2 gf
    | cnt s' => rw [hr] at gf; exact iha stk s' h.1.2 gf
    | exit e s' =>
      rw [hr] at gf
      cases e with
      | ok => exact iha stk s' h.1.2 gf
      | err => exact ihb stk s' h.2 gf
      | panic => simpa [Same] using gf
      | fell => simpa [Same] using gf

end A2Verif.CmdSkel
