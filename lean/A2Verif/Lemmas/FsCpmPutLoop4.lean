import A2Verif.Lemmas.FsCpmPutLoop3
/-!
# Successful `put`: `slotLoop` as a whole, and closing an extent
-/
namespace A2Verif.FsCpm
open A2Verif.Fs.Cpm
open A2Verif.Read.Cpm (Dpb fileKey extNum entryPtrs pathOf slots)

theorem lookup_mem {α : Type} : ∀ {l : List (Nat × α)} {k : Nat} {v : α}, l.lookup k = some v → (k, v) ∈ l
  | [], _, _, h => by cases h
  | (k', v') :: l, k, v, h => by
    rw [List.lookup_cons] at h
    by_cases c : k = k'
    · have : (k == k') = true := by simpa using c
      rw [this] at h
      cases h
      rw [c]; exact List.mem_cons_self
    · have : (k == k') = false := by simpa using c
      rw [this] at h
      exact List.mem_cons_of_mem _ (lookup_mem h)

/-- the `(lx, loc_slot)` pair of slot `k` -/
def pairOf (spl k : Nat) : Nat × Nat := (k / spl, k % spl)

theorem pairs_eq (spl : Nat) (hs : 0 < spl) : ∀ L : Nat,
    (List.range L).flatMap (fun lx => (List.range spl).map (fun loc => (lx, loc))) = (List.range' 0 (L * spl)).map (pairOf spl)
  | 0 => by simp
  | L + 1 => by
    rw [List.range_succ, List.flatMap_append, pairs_eq spl hs L, Nat.succ_mul, ← List.range'_append_1, List.map_append]
    congr 1
    simp only [List.flatMap_cons, List.flatMap_nil, List.append_nil, Nat.zero_add]
    rw [List.range_eq_range']
    apply List.ext_getElem
    · simp
    · intro i h1 h2
      simp only [List.getElem_map, List.getElem_range', Function.comp, pairOf, Nat.one_mul, Nat.zero_add]
      have hi : i < spl := by simpa using h1
      have e1 : (L * spl + i) / spl = L := by
        rw [Nat.mul_comm, Nat.mul_add_div hs, Nat.div_eq_of_lt hi, Nat.add_zero]
      have e2 : (L * spl + i) % spl = i := by
        rw [Nat.mul_comm, Nat.mul_add_mod, Nat.mod_eq_of_lt hi]
      rw [e1, e2]

/-- the inner loop over the remaining slots `k0 ..< slots` of physical extent `x` -/
theorem slotLoop_sinv {d : Dpb} {r : Raw} {f : FImg} {user : Nat} {name : Bytes} {x : Nat}
    (hd : DpbPut d) (ho : DpbOk d) (hr : ResvOk d) (hu : user < 16) (ha : ∀ c ∈ f.chunks, c.2.length ≤ blockSize d) :
    ∀ (n k0 : Nat) (s s' : WState), k0 + n = slots d →
      SInv d r f user (stringToFileName name).1 (stringToFileName name).2 x k0 s →
      slotLoop d name user f x (putSpe d) (putSpl d) s ((List.range' k0 n).map (pairOf (putSpl d))) = (.ok (), s') →
      SInv d r f user (stringToFileName name).1 (stringToFileName name).2 x (slots d) s' := by
  intro n
  induction n with
  | zero =>
    intro k0 s s' hk hs h
    simp only [List.range'_zero, List.map_nil] at h
    unfold slotLoop at h
    cases h
    have : k0 = slots d := by omega
    rw [← this]; exact hs
  | succ n ih =>
    intro k0 s s' hk hs h
    have hS : k0 < slots d := by omega
    have hspl := putSpl_pos hd
    have hglob : x * putSpe d + k0 / putSpl d * putSpl d + k0 % putSpl d = x * slots d + k0 := by
      rw [hd.2.1, Nat.add_assoc, Nat.div_add_mod']
    have hk0 : k0 / putSpl d * putSpl d + k0 % putSpl d = k0 := Nat.div_add_mod' _ _
    rw [List.range'_succ, List.map_cons] at h
    unfold slotLoop at h
    simp only [pairOf] at h
    rw [hglob] at h
    split at h
    next hch => exact ih _ _ _ (by omega) (sinv_skip hs hS hch) h
    next chunk hch =>
      have hcl : chunk.length ≤ blockSize d := ha _ (lookup_mem hch)
      split at h
      · cases h
      next b hb =>
        obtain ⟨b1, _, _⟩ := getAvailableBlock_spec hb
        split at h
        next e hopen => cases h
        next ptr fx entry1 hopen =>
          have hcase : (s.fx = some fx ∧ ptr = s.ptr) ∨
              (s.fx = none ∧ Hdr user (stringToFileName name).1 (stringToFileName name).2 fx ∧ (∀ i, 12 ≤ i → fx.getD i 0 = 0) ∧
                ∃ e, s.dir[ptr]? = some e ∧ isExtentFree e = true) := by
            cases hsf : s.fx with
            | some fx0 =>
              rw [hsf] at hopen
              simp only [Except.ok.injEq, Prod.mk.injEq] at hopen
              obtain ⟨rfl, rfl, _⟩ := hopen
              exact Or.inl ⟨rfl, rfl⟩
            | none =>
              rw [hsf] at hopen
              simp only [] at hopen
              cases hoe : openExtent d name user f s.dir with
              | error e => rw [hoe] at hopen; cases hopen
              | ok p =>
                obtain ⟨idx, fx1⟩ := p
                rw [hoe] at hopen
                simp only [Except.ok.injEq, Prod.mk.injEq] at hopen
                obtain ⟨rfl, rfl, _⟩ := hopen
                obtain ⟨a, b, c⟩ := openExtent_full hoe
                exact Or.inr ⟨rfl, a, b, c⟩
          have hfxl : fx.length = 32 := by
            rcases hcase with ⟨h1, _⟩ | ⟨_, h2, _⟩
            · exact (hs.opn fx h1).2.2.1.len
            · exact h2.len
          split at h
          · cases h
          next fx' hsb =>
            obtain ⟨hl', hhead, hptr⟩ := setBlockPtr_spec hd hfxl (by unfold userBlocks at b1; exact b1) hsb
            rw [hk0] at hptr
            split at h
            · cases h
            next hpl =>
              have hpl' : ptr < s.dir.length := by simpa using hpl
              split at h
              · cases h
              next r2 hw =>
                exact ih _ _ _ (by omega)
                  (sinv_alloc ho hr hu hs hS hch hcl hb hcase hl' hhead hptr hpl' hw entry1 (k0 / putSpl d + 1) rfl) h

end A2Verif.FsCpm
