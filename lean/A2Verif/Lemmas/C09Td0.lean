import A2Verif.Model.C09Td0
/-!
Lemmas for the TD0 sector codec: `unpack (pack d) = d` for every legal sector size
(`128·2^shift`, `shift ≤ 6`, i.e. 128 … 8192 bytes) and every content.
-/
namespace A2Verif.Lemmas.C09Td0
open A2Verif.Model.C09Td0 A2Verif.Model.C09Crc A2Verif.Gen.Td0

theorem flatten_replicate_pair (d : Nat) (n : Nat) :
    (List.replicate n [d, d]).flatten = List.replicate (2 * n) d := by
  induction n with
  | zero => simp
  | succ n ih =>
    rw [List.replicate_succ, List.flatten_cons, ih]
    have : 2 * (n + 1) = (2 * n + 1) + 1 := by omega
    rw [this, List.replicate_succ, List.replicate_succ]
    simp

theorem uniform_replicate (d : Nat) (ds : List Nat) (h : isUniform (d :: ds) = true) :
    d :: ds = List.replicate (ds.length + 1) d := by
  simp only [isUniform, List.all_eq_true, beq_iff_eq] at h
  rw [List.replicate_succ]
  congr 1
  exact List.eq_replicate_iff.mpr ⟨rfl, h⟩

theorem unle16_le16 (n : Nat) (h : n < 65536) : unle16 (n % 256) ((n / 256) % 256) = n := by
  simp only [unle16]; omega

/-- the legal sizes -/
theorem secSize_cases (shift : Nat) (h : shift ≤ 6) :
    ∃ k, secSize shift = 2 * k ∧ 64 ≤ k ∧ k ≤ 4096 := by
  have : shift = 0 ∨ shift = 1 ∨ shift = 2 ∨ shift = 3 ∨ shift = 4 ∨ shift = 5 ∨ shift = 6 := by omega
  rcases this with h | h | h | h | h | h | h <;> subst h
  · exact ⟨64, by decide, by omega, by omega⟩
  · exact ⟨128, by decide, by omega, by omega⟩
  · exact ⟨256, by decide, by omega, by omega⟩
  · exact ⟨512, by decide, by omega, by omega⟩
  · exact ⟨1024, by decide, by omega, by omega⟩
  · exact ⟨2048, by decide, by omega, by omega⟩
  · exact ⟨4096, by decide, by omega, by omega⟩

/-- Raw branch -/
theorem unpack_raw (shift : Nat) (l0 l1 : Nat) (dat : List Nat) (h : dat.length = secSize shift) :
    unpack shift (l0 :: l1 :: ENC_RAW :: dat) = some dat := by
  simp only [unpack, if_true]
  have h1 : ¬ (dat.length < secSize shift) := by omega
  rw [if_neg h1]
  have h2 : dat.take (secSize shift) = dat := by rw [← h]; simp
  simp [h2, h]

theorem unpackRepeated_done (size fuel : Nat) (ans data : List Nat) (h : ¬ ans.length < size) :
    unpackRepeated size (fuel + 1) ans data = some ans := by
  simp [unpackRepeated, h]

theorem unpackRepeated_step (size fuel : Nat) (ans rest : List Nat) (b0 b1 b2 b3 : Nat) (h : ans.length < size) :
    unpackRepeated size (fuel + 1) ans (b0 :: b1 :: b2 :: b3 :: rest) =
      unpackRepeated size fuel (ans ++ (List.replicate (unle16 b0 b1) [b2, b3]).flatten) rest := by
  simp [unpackRepeated, h]

/-- Repeated branch with one (count, pattern) entry that fills the sector -/
theorem unpack_repeated (shift k d : Nat) (l0 l1 : Nat) (hk : secSize shift = 2 * k) (hk0 : 0 < k)
    (hk1 : k < 65536) :
    unpack shift (l0 :: l1 :: ENC_REPEATED :: (le16 k ++ [d, d])) = some (List.replicate (secSize shift) d) := by
  have he : ¬ (ENC_REPEATED = ENC_RAW) := by decide
  simp only [unpack, if_neg he, if_true, le16, List.cons_append, List.nil_append, List.length_cons,
    List.length_nil]
  have hpos : (([] : List Nat).length < secSize shift) := by simp; omega
  rw [unpackRepeated_step _ _ _ _ _ _ _ _ hpos]
  simp only [unle16_le16 k hk1, List.nil_append, flatten_replicate_pair]
  have hdone : ¬ ((List.replicate (2 * k) d).length < secSize shift) := by simp; omega
  rw [unpackRepeated_done _ _ _ _ hdone]
  simp [hk]

theorem unpack_pack (shift : Nat) (hs : shift ≤ 6) (dat : List Nat) (hl : dat.length = secSize shift) :
    (pack shift dat).bind (unpack shift) = some dat := by
  obtain ⟨k, hk, hk64, hk4096⟩ := secSize_cases shift hs
  have hne : ¬ (dat.length ≠ secSize shift) := by simp [hl]
  simp only [pack, if_neg hne]
  by_cases hu : isUniform dat = true
  · rw [if_pos hu]
    cases dat with
    | nil => simp at hl; omega
    | cons d ds =>
      have hrep := uniform_replicate d ds hu
      have hlen : ds.length + 1 = secSize shift := by simpa using hl
      have hmod : (secSize shift % 65536) / 2 = k := by omega
      simp only [hmod, Option.bind_some, le16, List.cons_append, List.nil_append]
      have := unpack_repeated shift k d 5 0 hk (by omega) (by omega)
      simp only [le16, List.cons_append, List.nil_append] at this
      have h5 : 5 % 256 = 5 := by decide
      have h50 : 5 / 256 % 256 = 0 := by decide
      rw [h5, h50, this, hrep, hlen]
  · rw [if_neg hu]
    simp only [Option.bind_some, le16, List.cons_append, List.nil_append]
    exact unpack_raw shift _ _ dat hl

/-! ## the container (normal layer) -/

/-! text coding -/

theorem replCRLF_id (z : Nat) (t : List Nat) (h : noCRLF t = true) : replCRLF z t = t := by
  induction t with
  | nil => rfl
  | cons a r ih =>
    cases r with
    | nil => rfl
    | cons b r' =>
      simp only [noCRLF, Bool.and_eq_true, Bool.not_eq_true', Bool.and_eq_false_iff, beq_eq_false_iff_ne] at h
      have hn : ¬ (a = 13 ∧ b = 10) := by
        intro ⟨h1, h2⟩; rcases h.1 with h' | h' <;> contradiction
      simp only [replCRLF, if_neg hn, ih h.2]

theorem map_nul_lf (t : List Nat) (h0 : ∀ b ∈ t, b ≠ 0) :
    (t.map (fun b => if b = 10 then 0 else b)).map (fun b => if b = 0 then 10 else b) = t := by
  induction t with
  | nil => rfl
  | cons a r ih =>
    have ha := h0 a (by simp)
    have hr : ∀ b ∈ r, b ≠ 0 := fun b hb => h0 b (by simp [hb])
    simp only [List.map_cons, ih hr]
    by_cases h10 : a = 10
    · simp [h10]
    · simp [h10, ha]

theorem normLoop_id (f : Nat) (t : List Nat) (hc : noCRLF t = true) : normLoop f t = t := by
  cases f <;> simp [normLoop, hc]

theorem normalizeNotes_id (t : List Nat) (hc : noCRLF t = true) : normalizeNotes t = t :=
  normLoop_id _ t hc

/-- notes in the in-memory normal form (no NUL, no CR LF pair) survive save + load unchanged -/
theorem decode_encode (t : List Nat) (h0 : ∀ b ∈ t, b ≠ 0) (hc : noCRLF t = true) :
    decodeText (encodeText t) = t := by
  simp only [decodeText, encodeText, replCRLF_id 0 t hc, map_nul_lf t h0, normalizeNotes_id t hc]

/-! sector and track records -/

/-- a sector as a2kit holds it: no-data sectors carry no record, the others a record whose length word is right -/
def SectorWf (s : Sector) : Prop :=
  s.shift ≤ 6 ∧
  ((s.flags &&& NO_DATA_MASK ≠ 0 ∧ s.data = []) ∨
   (s.flags &&& NO_DATA_MASK = 0 ∧ ∃ l0 l1 body, s.data = l0 :: l1 :: body ∧ unle16 l0 l1 = body.length))

theorem readSectors_cons (n : Nat) (s : Sector) (hs : SectorWf s) (rest : List Nat) :
    readSectors (n + 1) (sectorToBytes s ++ rest) =
      match readSectors n rest with
      | some (ss, r) => some (canonSector s :: ss, r)
      | none => none := by
  obtain ⟨c, h, i, sh, fl, crc, data⟩ := s
  obtain ⟨hsh, hs⟩ := hs
  have hsh' : ¬ sh > 6 := by simp only at hsh; omega
  rcases hs with ⟨hf, hd⟩ | ⟨hf, l0, l1, body, hd, hl⟩
  · simp only at hf hd
    subst hd
    simp only [sectorToBytes, List.cons_append, List.nil_append, readSectors, if_neg hsh', if_neg hf, List.append_nil, canonSector]
    rcases readSectors n rest with _ | ⟨ss, r⟩ <;> rfl
  · simp only at hf hd
    subst hd
    simp only [sectorToBytes, List.cons_append, List.nil_append, readSectors, if_neg hsh', if_pos hf, hl]
    have h1 : ¬ ((body ++ rest).length < body.length) := by simp
    rw [if_neg h1]
    have ht : (body ++ rest).take body.length = body := by simp
    have hdp : (body ++ rest).drop body.length = rest := by simp
    simp only [ht, hdp, canonSector]
    rcases readSectors n rest with _ | ⟨ss, r⟩ <;> rfl

theorem readSectors_all (ss : List Sector) (h : ∀ s ∈ ss, SectorWf s) (rest : List Nat) :
    readSectors ss.length ((ss.map sectorToBytes).flatten ++ rest) = some (ss.map canonSector, rest) := by
  induction ss with
  | nil => simp [readSectors]
  | cons s ss ih =>
    have hs := h s (by simp)
    have ht : ∀ t ∈ ss, SectorWf t := fun t ht => h t (by simp [ht])
    simp only [List.map_cons, List.flatten_cons, List.length_cons, List.append_assoc,
      readSectors_cons ss.length s hs, ih ht]

def TrackWf (t : Track) : Prop :=
  t.nsec = t.sectors.length ∧ t.nsec ≠ 0xFF ∧ ∀ s ∈ t.sectors, SectorWf s

theorem readTracks_cons (fuel : Nat) (t : Track) (ht : TrackWf t) (rest : List Nat) :
    readTracks (fuel + 1) (trackToBytes t ++ rest) =
      match readTracks fuel rest with
      | some ts => some (canonTrack t :: ts)
      | none => none := by
  obtain ⟨hn, hff, hs⟩ := ht
  obtain ⟨n, c, h, crc, ss⟩ := t
  simp only at hn hff hs
  subst hn
  simp only [trackToBytes, List.cons_append, List.nil_append, readTracks, if_neg hff,
    readSectors_all ss hs, canonTrack, trackCrc]
  cases readTracks fuel rest <;> rfl

theorem readTracks_all (ts : List Track) (h : ∀ t ∈ ts, TrackWf t) (tail : List Nat) (fuel : Nat)
    (hf : ts.length < fuel) :
    readTracks fuel ((ts.map trackToBytes).flatten ++ 0xFF :: tail) = some (ts.map canonTrack) := by
  induction ts generalizing fuel with
  | nil =>
    cases fuel with
    | zero => simp at hf
    | succ f => simp [readTracks]
  | cons t ts ih =>
    cases fuel with
    | zero => simp at hf
    | succ f =>
      have ht := h t (by simp)
      have hr : ∀ u ∈ ts, TrackWf u := fun u hu => h u (by simp [hu])
      have hf' : ts.length < f := by simp at hf; omega
      simp only [List.map_cons, List.flatten_cons, List.append_assoc, readTracks_cons f t ht, ih hr f hf']

/-! the whole normal-layer stream -/

structure ImageWf (x : Image) : Prop where
  hdr : x.hdr.length = 8
  /-- `from_bytes` refuses an image without tracks -/
  nonempty : x.tracks ≠ []
  tracks : ∀ t ∈ x.tracks, TrackWf t
  comment : ∀ c, x.comment = some c → c.stamp.length = 6 ∧ (encodeText c.text).length < 65536 ∧
    (∀ b ∈ c.text, b ≠ 0) ∧ noCRLF c.text = true

theorem tracks_length_le (ts : List Track) : ts.length ≤ ((ts.map trackToBytes).flatten).length := by
  induction ts with
  | nil => simp
  | cons t ts ih => simp only [List.map_cons, List.flatten_cons, List.length_append, List.length_cons, trackToBytes]; omega

theorem syncHdr_length (hdr : List Nat) (b : Bool) (h : hdr.length = 8) : (syncHdr hdr b).length = 8 := by
  match hdr, h with
  | [a0, a1, a2, a3, a4, a5, a6, a7], _ => simp [syncHdr]

theorem syncHdr_flag (hdr : List Nat) (h : hdr.length = 8) :
    ((syncHdr hdr true).getD 5 0 &&& COMMENT_MASK > 0) ∧ ¬ ((syncHdr hdr false).getD 5 0 &&& COMMENT_MASK > 0) := by
  match hdr, h with
  | [a0, a1, a2, a3, a4, a5, a6, a7], _ =>
    simp only [syncHdr, List.getD_eq_getElem?_getD, COMMENT_MASK]
    constructor
    · show (a5 ||| 128) &&& 128 > 0
      have : (a5 ||| 128) &&& 128 = 128 := by
        apply Nat.eq_of_testBit_eq; intro i
        simp only [Nat.testBit_and, Nat.testBit_or]
        cases h7 : Nat.testBit 128 i <;> simp
      omega
    · show ¬ ((a5 &&& (128 ^^^ 255)) &&& 128 > 0)
      have : (a5 &&& (128 ^^^ 255)) &&& 128 = 0 := by
        rw [Nat.and_assoc]
        have : (128 ^^^ 255) &&& 128 = 0 := by decide
        rw [this]; simp
      omega

theorem td0_fromBytes_toBytes (x : Image) (h : ImageWf x) :
    fromBytesNormal (toBytesNormal x) = some (canon x) := by
  have hh : (head10 x).length = 10 := by simp [head10, syncHdr_length x.hdr _ h.hdr]
  have hfuel : ∀ pre : List Nat, x.tracks.length < (pre ++ ((x.tracks.map trackToBytes).flatten ++ 0xFF :: TRAILER)).length := by
    intro pre
    have := tracks_length_le x.tracks
    simp only [List.length_append, List.length_cons]; omega
  cases hc : x.comment with
  | none =>
    have hb : toBytesNormal x = head10 x ++ (le16 (crc16 0 (head10 x)) ++ ((x.tracks.map trackToBytes).flatten ++ 0xFF :: TRAILER)) := by
      simp [toBytesNormal, hc]
    have hlen : ¬ ((toBytesNormal x).length < 12) := by
      rw [hb]; simp only [List.length_append, hh, le16, List.length_cons, List.length_nil]; omega
    have hf : x.tracks.length < (toBytesNormal x).length := by
      rw [hb]; have := tracks_length_le x.tracks
      simp only [List.length_append, List.length_cons]; omega
    have ht10 : (toBytesNormal x).take 10 = head10 x := by rw [hb, ← hh]; simp
    have ht2 : (toBytesNormal x).take 2 = [84, 68] := by rw [hb]; simp [head10]
    have hd10 : ((toBytesNormal x).drop 10).take 2 = le16 (crc16 0 (head10 x)) := by
      rw [hb, ← hh]; simp [le16]
    have hd12 : (toBytesNormal x).drop 12 = (x.tracks.map trackToBytes).flatten ++ 0xFF :: TRAILER := by
      rw [hb]
      have : 12 = (head10 x ++ le16 (crc16 0 (head10 x))).length := by simp [hh, le16]
      rw [this, ← List.append_assoc, List.drop_left]
    have hflag := (syncHdr_flag x.hdr h.hdr).2
    unfold fromBytesNormal
    rw [if_neg hlen, ht2]
    simp only [ne_eq, not_true_eq_false, if_false, ht10, hd10]
    have hdrop2 : (head10 x).drop 2 = syncHdr x.hdr false := by simp [head10, hc]
    rw [hdrop2, if_neg hflag, hd12]
    have := readTracks_all x.tracks h.tracks TRAILER (toBytesNormal x).length hf
    rw [this]
    cases htr : x.tracks with
    | nil => exact absurd htr h.nonempty
    | cons t0 ts0 => simp [canon, hc, htr]
  | some c =>
    obtain ⟨hst, hlen16, h0, hcr⟩ := h.comment c hc
    have hb : toBytesNormal x = head10 x ++ (le16 (crc16 0 (head10 x)) ++ (le16 (crc16 0 (commentBody c)) ++
        (commentBody c ++ ((x.tracks.map trackToBytes).flatten ++ 0xFF :: TRAILER)))) := by
      simp [toBytesNormal, hc]
    have hlen : ¬ ((toBytesNormal x).length < 12) := by
      rw [hb]; simp only [List.length_append, hh, le16, List.length_cons, List.length_nil]; omega
    have hf : x.tracks.length < (toBytesNormal x).length := by
      rw [hb]; have := tracks_length_le x.tracks
      simp only [List.length_append, List.length_cons]; omega
    have ht10 : (toBytesNormal x).take 10 = head10 x := by rw [hb, ← hh]; simp
    have ht2 : (toBytesNormal x).take 2 = [84, 68] := by rw [hb]; simp [head10]
    have hd10 : ((toBytesNormal x).drop 10).take 2 = le16 (crc16 0 (head10 x)) := by
      rw [hb, ← hh]; simp [le16]
    have hd12 : (toBytesNormal x).drop 12 = le16 (crc16 0 (commentBody c)) ++
        (commentBody c ++ ((x.tracks.map trackToBytes).flatten ++ 0xFF :: TRAILER)) := by
      rw [hb]
      have : 12 = (head10 x ++ le16 (crc16 0 (head10 x))).length := by simp [hh, le16]
      rw [this, ← List.append_assoc, List.drop_left]
    have hflag := (syncHdr_flag x.hdr h.hdr).1
    unfold fromBytesNormal
    rw [if_neg hlen, ht2]
    simp only [ne_eq, not_true_eq_false, if_false, ht10, hd10]
    have hdrop2 : (head10 x).drop 2 = syncHdr x.hdr true := by simp [head10, hc]
    rw [hdrop2, if_pos hflag, hd12]
    -- the comment block
    have hmod : (encodeText c.text).length % 65536 = (encodeText c.text).length := Nat.mod_eq_of_lt hlen16
    have hcb : commentBody c = ((encodeText c.text).length % 256) :: ((encodeText c.text).length / 256 % 256) ::
        (c.stamp ++ encodeText c.text) := by
      simp [commentBody, le16, hmod]
    have hun : unle16 ((encodeText c.text).length % 256) ((encodeText c.text).length / 256 % 256) = (encodeText c.text).length :=
      unle16_le16 _ hlen16
    simp only [le16, List.cons_append, List.nil_append]
    rw [hcb]
    simp only [List.cons_append, hun, List.append_assoc]
    have h6 : ¬ ((c.stamp ++ (encodeText c.text ++ ((x.tracks.map trackToBytes).flatten ++ 0xFF :: TRAILER))).length < 6) := by
      simp [hst]
    rw [if_neg h6]
    have hts : (c.stamp ++ (encodeText c.text ++ ((x.tracks.map trackToBytes).flatten ++ 0xFF :: TRAILER))).take 6 = c.stamp := by
      rw [← hst, List.take_left]
    have hds : (c.stamp ++ (encodeText c.text ++ ((x.tracks.map trackToBytes).flatten ++ 0xFF :: TRAILER))).drop 6 =
        encodeText c.text ++ ((x.tracks.map trackToBytes).flatten ++ 0xFF :: TRAILER) := by
      rw [← hst, List.drop_left]
    simp only [hts, hds]
    have hl2 : ¬ ((encodeText c.text ++ ((x.tracks.map trackToBytes).flatten ++ 0xFF :: TRAILER)).length < (encodeText c.text).length) := by simp
    rw [if_neg hl2]
    have hte : (encodeText c.text ++ ((x.tracks.map trackToBytes).flatten ++ 0xFF :: TRAILER)).take (encodeText c.text).length = encodeText c.text := by simp
    have hde : (encodeText c.text ++ ((x.tracks.map trackToBytes).flatten ++ 0xFF :: TRAILER)).drop (encodeText c.text).length =
        (x.tracks.map trackToBytes).flatten ++ 0xFF :: TRAILER := by simp
    simp only [hte, hde]
    have hcrc : crc16 0 ((encodeText c.text).length % 256 :: (encodeText c.text).length / 256 % 256 :: (c.stamp ++ encodeText c.text)) = crc16 0 (commentBody c) := by
      rw [hcb]
    simp only [hcrc, not_true_eq_false, if_false]
    have := readTracks_all x.tracks h.tracks TRAILER (toBytesNormal x).length hf
    rw [this]
    cases htr : x.tracks with
    | nil => exact absurd htr h.nonempty
    | cons t0 ts0 => simp [canon, hc, htr, decode_encode c.text h0 hcr, le16, hmod]

/-! fixpoint: the object after `to_bytes` / after a re-parse serialises to the same bytes -/

theorem sectorCrc_canon (s : Sector) : sectorCrc (canonSector s) = sectorCrc s := by
  simp only [sectorCrc, canonSector]
  by_cases hf : s.flags &&& NO_DATA_MASK > 0
  · simp [hf]
  · simp only [if_neg hf]
    cases unpack s.shift s.data <;> rfl

theorem sectorToBytes_canon (s : Sector) : sectorToBytes (canonSector s) = sectorToBytes s := by
  simp only [sectorToBytes, sectorCrc_canon]
  rfl

theorem trackToBytes_canon (t : Track) : trackToBytes (canonTrack t) = trackToBytes t := by
  simp only [trackToBytes, canonTrack, trackCrc, List.map_map]
  congr 2
  apply List.map_congr_left
  intro s _
  exact sectorToBytes_canon s

theorem syncHdr_idem (hdr : List Nat) (b : Bool) : syncHdr (syncHdr hdr b) b = syncHdr hdr b := by
  match hdr with
  | [a0, a1, a2, a3, a4, a5, a6, a7] =>
    cases b
    · simp [syncHdr, Nat.and_assoc]
    · simp [syncHdr, Nat.or_assoc]
  | [] | [_] | [_, _] | [_, _, _] | [_, _, _, _] | [_, _, _, _, _] | [_, _, _, _, _, _] | [_, _, _, _, _, _, _] => rfl
  | _ :: _ :: _ :: _ :: _ :: _ :: _ :: _ :: _ :: _ => rfl

theorem td0_toBytes_canon (x : Image) : toBytesNormal (canon x) = toBytesNormal x := by
  have hsome : (canon x).comment.isSome = x.comment.isSome := by
    simp [canon]
  have hh : head10 (canon x) = head10 x := by
    simp only [head10, hsome]
    simp [canon, syncHdr_idem]
  have ht : ((canon x).tracks.map trackToBytes) = x.tracks.map trackToBytes := by
    simp only [canon, List.map_map]
    apply List.map_congr_left
    intro t _
    exact trackToBytes_canon t
  simp only [toBytesNormal, hh, ht]
  cases hc : x.comment with
  | none => simp [canon, hc]
  | some c => simp [canon, hc, commentBody]

/-- what `Sector::pack` builds is a well-formed record (links the codec theorem to the container theorem) -/
theorem pack_sectorWf_flags (shift : Nat) (hs : shift ≤ 6) (dat rec : List Nat) (h : pack shift dat = some rec)
    (c hd i fl crc : Nat) (hfl : fl &&& NO_DATA_MASK = 0) :
    SectorWf { cyl := c, head := hd, id := i, shift := shift, flags := fl, crc := crc, data := rec } := by
  obtain ⟨k, hk, hk64, hk4096⟩ := secSize_cases shift hs
  refine ⟨hs, Or.inr ⟨hfl, ?_⟩⟩
  simp only [pack] at h
  by_cases hl : dat.length ≠ secSize shift
  · simp [hl] at h
  · rw [if_neg hl] at h
    by_cases hu : isUniform dat = true
    · rw [if_pos hu] at h
      cases dat with
      | nil => simp at hl; omega
      | cons d ds =>
        simp only [Option.some.injEq] at h
        subst h
        exact ⟨5, 0, _, rfl, by simp [unle16, le16]⟩
    · rw [if_neg hu] at h
      simp only [Option.some.injEq] at h
      have hl' : dat.length = secSize shift := by omega
      have hrec : rec = ((secSize shift % 65536 + 1) % 65536 % 256) :: ((secSize shift % 65536 + 1) % 65536 / 256 % 256) ::
          (ENC_RAW :: dat) := by rw [← h]; simp [le16]
      subst hrec
      refine ⟨_, _, _, rfl, ?_⟩
      simp only [List.length_cons, hl', unle16, hk]
      omega

theorem pack_sectorWf (shift : Nat) (hs : shift ≤ 6) (dat rec : List Nat) (h : pack shift dat = some rec)
    (c hd i crc : Nat) :
    SectorWf { cyl := c, head := hd, id := i, shift := shift, flags := 0, crc := crc, data := rec } :=
  pack_sectorWf_flags shift hs dat rec h c hd i 0 crc (by simp)

end A2Verif.Lemmas.C09Td0
