import A2Verif.Model.C09Td0
/-!
Lemmas for the TD0 sector codec: `unpack (pack d) = d` for every legal sector size
(`128·2^shift`, `shift ≤ 6`, i.e. 128 … 8192 bytes) and every content.
-/
namespace A2Verif.Lemmas.C09Td0
open A2Verif.Model.C09Td0 A2Verif.Model.C09Crc A2Verif.Gen.Td0

theorem flatten_replicate_pair (d : Nat) (n : Nat) :
    (List.replicate n [d, d]).flatten = List.replicate (2 * n) d := by
  induction n with
  | zero => simp
  | succ n ih =>
    rw [List.replicate_succ, List.flatten_cons, ih]
    have : 2 * (n + 1) = (2 * n + 1) + 1 := by omega
    rw [this, List.replicate_succ, List.replicate_succ]
    simp

theorem uniform_replicate (d : Nat) (ds : List Nat) (h : isUniform (d :: ds) = true) :
    d :: ds = List.replicate (ds.length + 1) d := by
  simp only [isUniform, List.all_eq_true, beq_iff_eq] at h
  rw [List.replicate_succ]
  congr 1
  exact List.eq_replicate_iff.mpr ⟨rfl, h⟩

theorem unle16_le16 (n : Nat) (h : n < 65536) : unle16 (n % 256) ((n / 256) % 256) = n := by
  simp only [unle16]; omega

/-- the legal sizes -/
theorem secSize_cases (shift : Nat) (h : shift ≤ 6) :
    ∃ k, secSize shift = 2 * k ∧ 64 ≤ k ∧ k ≤ 4096 := by
  have : shift = 0 ∨ shift = 1 ∨ shift = 2 ∨ shift = 3 ∨ shift = 4 ∨ shift = 5 ∨ shift = 6 := by omega
  rcases this with h | h | h | h | h | h | h <;> subst h
  · exact ⟨64, by decide, by omega, by omega⟩
  · exact ⟨128, by decide, by omega, by omega⟩
  · exact ⟨256, by decide, by omega, by omega⟩
  · exact ⟨512, by decide, by omega, by omega⟩
  · exact ⟨1024, by decide, by omega, by omega⟩
  · exact ⟨2048, by decide, by omega, by omega⟩
  · exact ⟨4096, by decide, by omega, by omega⟩

/-- Raw branch -/
theorem unpack_raw (shift : Nat) (l0 l1 : Nat) (dat : List Nat) (h : dat.length = secSize shift) :
    unpack shift (l0 :: l1 :: ENC_RAW :: dat) = some dat := by
  simp only [unpack, if_true]
  have h1 : ¬ (dat.length < secSize shift) := by omega
  rw [if_neg h1]
  have h2 : dat.take (secSize shift) = dat := by rw [← h]; simp
  simp [h2, h]

theorem unpackRepeated_done (size fuel : Nat) (ans data : List Nat) (h : ¬ ans.length < size) :
    unpackRepeated size (fuel + 1) ans data = some ans := by
  simp [unpackRepeated, h]

theorem unpackRepeated_step (size fuel : Nat) (ans rest : List Nat) (b0 b1 b2 b3 : Nat) (h : ans.length < size) :
    unpackRepeated size (fuel + 1) ans (b0 :: b1 :: b2 :: b3 :: rest) =
      unpackRepeated size fuel (ans ++ (List.replicate (unle16 b0 b1) [b2, b3]).flatten) rest := by
  simp [unpackRepeated, h]

/-- Repeated branch with one (count, pattern) entry that fills the sector -/
theorem unpack_repeated (shift k d : Nat) (l0 l1 : Nat) (hk : secSize shift = 2 * k) (hk0 : 0 < k)
    (hk1 : k < 65536) :
    unpack shift (l0 :: l1 :: ENC_REPEATED :: (le16 k ++ [d, d])) = some (List.replicate (secSize shift) d) := by
  have he : ¬ (ENC_REPEATED = ENC_RAW) := by decide
  simp only [unpack, if_neg he, if_true, le16, List.cons_append, List.nil_append, List.length_cons,
    List.length_nil]
  have hpos : (([] : List Nat).length < secSize shift) := by simp; omega
  rw [unpackRepeated_step _ _ _ _ _ _ _ _ hpos]
  simp only [unle16_le16 k hk1, List.nil_append, flatten_replicate_pair]
  have hdone : ¬ ((List.replicate (2 * k) d).length < secSize shift) := by simp; omega
  rw [unpackRepeated_done _ _ _ _ hdone]
  simp [hk]

theorem unpack_pack (shift : Nat) (hs : shift ≤ 6) (dat : List Nat) (hl : dat.length = secSize shift) :
    (pack shift dat).bind (unpack shift) = some dat := by
  obtain ⟨k, hk, hk64, hk4096⟩ := secSize_cases shift hs
  have hne : ¬ (dat.length ≠ secSize shift) := by simp [hl]
  simp only [pack, if_neg hne]
  by_cases hu : isUniform dat = true
  · rw [if_pos hu]
    cases dat with
    | nil => simp at hl; omega
    | cons d ds =>
      have hrep := uniform_replicate d ds hu
      have hlen : ds.length + 1 = secSize shift := by simpa using hl
      have hmod : (secSize shift % 65536) / 2 = k := by omega
      simp only [hmod, Option.bind_some, le16, List.cons_append, List.nil_append]
      have := unpack_repeated shift k d 5 0 hk (by omega) (by omega)
      simp only [le16, List.cons_append, List.nil_append] at this
      have h5 : 5 % 256 = 5 := by decide
      have h50 : 5 / 256 % 256 = 0 := by decide
      rw [h5, h50, this, hrep, hlen]
  · rw [if_neg hu]
    simp only [Option.bind_some, le16, List.cons_append, List.nil_append]
    exact unpack_raw shift _ _ dat hl

end A2Verif.Lemmas.C09Td0
