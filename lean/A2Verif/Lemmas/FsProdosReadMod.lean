import A2Verif.Lemmas.FsProdosRead
/-!
# The located reading after one entry's access byte has changed

If the image changes only in byte 30 (access) of one 39-byte directory entry, the located reading of the directory
that holds the entry is the old one with the access / locked fields of the records made from that entry replaced.
-/
namespace A2Verif.FsProdos
open A2Verif.Read.Prodos (entryAt dirChain idxPtr indexEntries readData trimName bitmapFree)
open A2Verif.Read.ProdosT

theorem slice_congr (a b : Bytes) (off len : Nat) (hlen : a.length = b.length)
    (h : ∀ k, off ≤ k → k < off + len → a.getD k 0 = b.getD k 0) : slice a off len = slice b off len := by
  unfold slice
  apply List.ext_getElem?
  intro i
  by_cases hi : i < len
  · rw [List.getElem?_take_of_lt hi, List.getElem?_take_of_lt hi, List.getElem?_drop, List.getElem?_drop]
    have hk := h (off + i) (by omega) (by omega)
    simp only [List.getD_eq_getElem?_getD] at hk
    by_cases hl : off + i < a.length
    · have hl' : off + i < b.length := hlen ▸ hl
      rw [List.getElem?_eq_getElem hl, List.getElem?_eq_getElem hl'] at hk ⊢
      simpa using hk
    · have hl' : ¬ off + i < b.length := hlen ▸ hl
      rw [List.getElem?_eq_none (by omega), List.getElem?_eq_none (by omega)]
  · rw [List.getElem?_eq_none (by simp; omega), List.getElem?_eq_none (by simp; omega)]

theorem le16_congr (a b : Bytes) (off : Nat) (h0 : a.getD off 0 = b.getD off 0) (h1 : a.getD (off + 1) 0 = b.getD (off + 1) 0) :
    le16 a off = le16 b off := by
  unfold le16; rw [h0, h1]

/-- the record with another access byte -/
def updAcc (a : Nat) (f : FileRec) : FileRec :=
  { f with access := a, locked := (a / 2) % 2 = 0 ∨ (a / 64) % 2 = 0 ∨ (a / 128) % 2 = 0 }

/-- `e'` is `e` with another access byte (offset 30) -/
structure AccOnly (e e' : Bytes) : Prop where
  len : e'.length = e.length
  same : ∀ k, k ≠ 30 → e'.getD k 0 = e.getD k 0

theorem baseRec_acc (e e' pfx : Bytes) (h : AccOnly e e') : baseRec e' pfx = updAcc (e'.getD 30 0) (baseRec e pfx) := by
  have h0 := h.same 0 (by omega)
  have hname : trimName e' = trimName e := by
    unfold trimName; rw [h0]
    exact slice_congr e' e 1 _ h.len (fun k hk1 hk2 => h.same k (by have := Nat.mod_lt (e.getD 0 0) (by decide : 16 > 0); omega))
  unfold baseRec updAcc
  simp only [hname, h.same 0x10 (by omega)]
  rw [le16_congr e' e 0x1F (h.same _ (by omega)) (h.same _ (by omega))]
  have h24 : le24 e' 0x15 = le24 e 0x15 := by
    unfold le24; rw [le16_congr e' e 0x15 (h.same _ (by omega)) (h.same _ (by omega)), h.same _ (by omega)]
  rw [h24]

theorem readFile_acc (x : Raw) (total : Nat) (e e' pfx : Bytes) (h : AccOnly e e') :
    readFile x total e' pfx = (readFile x total e pfx).map (updAcc (e'.getD 30 0)) := by
  unfold readFile
  simp only
  rw [h.same 0 (by omega), le16_congr e' e 0x11 (h.same _ (by omega)) (h.same _ (by omega)),
    le16_congr e' e 0x13 (h.same _ (by omega)) (h.same _ (by omega)), baseRec_acc e e' pfx h]
  split
  · cases x.unit (le16 e 0x11) "data-block" with
    | error y => rfl
    | ok d => simp only; split <;> rfl
  · split
    · cases x.unit (le16 e 0x11) "index-block" with
      | error y => rfl
      | ok ib =>
        simp only
        cases readData x total (indexEntries ib 0) with
        | error y => rfl
        | ok cs => simp only; split <;> rfl
    · cases x.unit (le16 e 0x11) "master-index-block" with
      | error y => rfl
      | ok mb =>
        simp only
        cases List.mapM (treeIndex x total)
            ((List.range 128).filterMap (fun k => if idxPtr mb k = 0 then none else some (k, idxPtr mb k))) with
        | error y => rfl
        | ok parts => simp only; split <;> rfl

/-! ## where the records of a located reading come from -/

theorem All2.mem_right {α β : Type} {R : α → β → Prop} {l : List α} {ys : List β} (h : All2 R l ys) {y : β} (hy : y ∈ ys) :
    ∃ x, x ∈ l ∧ R x y := by
  induction h with
  | nil => cases hy
  | cons hr _ ih =>
    rcases List.mem_cons.mp hy with rfl | hy'
    · exact ⟨_, List.mem_cons_self, hr⟩
    · obtain ⟨x, hx, hxr⟩ := ih hy'
      exact ⟨x, List.mem_cons_of_mem _ hx, hxr⟩

theorem blockEntries_loc (r : Raw) (key epb elen b : Nat) (l : List (Bytes × Nat × Nat))
    (h : blockEntries r key epb elen b = .ok l) : ∀ x ∈ l, x.2.1 = b := by
  unfold blockEntries at h
  cases hu : r.unit b "directory-block" with
  | error e => rw [hu] at h; cases h
  | ok blk =>
    rw [hu] at h
    simp only at h
    have hl : l = (if b = key then (List.range epb).drop 1 else List.range epb).map (fun k => (entryAt blk k elen, b, k + 1)) := by
      injection h with h; exact h.symm
    subst hl
    intro x hx
    rw [List.mem_map] at hx
    obtain ⟨k, _, rfl⟩ := hx
    rfl

/-- the entries of a directory sit in blocks of its chain -/
theorem ents_loc (r : Raw) (key epb elen : Nat) (chain : List Nat) (ents : List (List (Bytes × Nat × Nat)))
    (h : chain.mapM (blockEntries r key epb elen) = .ok ents) : ∀ x ∈ ents.flatten, x.2.1 ∈ chain := by
  rw [mapM_eq_ok] at h
  intro x hx
  rw [List.mem_flatten] at hx
  obtain ⟨l, hl, hxl⟩ := hx
  obtain ⟨b, hb, hbl⟩ := h.mem_right hl
  rw [blockEntries_loc r key epb elen b l hbl x hxl]; exact hb

/-- the property of a located reading: every record's entry sits in the directory's own chain or in a block owned by
one of the records (the chain of a sub-directory is the owned list of its record) -/
def LocsOk (fs : List LRec) (ch : List Nat) : Prop := ∀ fl ∈ fs, fl.2.1 ∈ ch ∨ fl.2.1 ∈ fs.flatMap (·.1.owned)

theorem readEntryWith_locs (sub : Nat → Bytes → Except String (List LRec × List Nat)) (r : Raw) (total : Nat)
    (pfx : Bytes) (ebk : Bytes × Nat × Nat) (recs : List LRec)
    (h : readEntryWith sub r total pfx ebk = .ok recs)
    (hsub : ∀ k p res, sub k p = .ok res → LocsOk res.1 res.2) :
    ∀ fl ∈ recs, fl.2 = ebk.2 ∨ fl.2.1 ∈ recs.flatMap (·.1.owned) := by
  unfold readEntryWith at h
  simp only at h
  split at h
  · cases h
  · split at h
    · cases hf : readFile r total ebk.1 pfx with
      | error x => rw [hf] at h; cases h
      | ok f =>
        rw [hf] at h
        have hr : recs = [(f, ebk.2)] := by injection h with h; exact h.symm
        subst hr
        intro fl hfl
        rw [List.mem_singleton] at hfl
        subst hfl; exact Or.inl rfl
    · split at h
      · cases hs : sub (le16 ebk.1 0x11) (baseRec ebk.1 pfx).path with
        | error x => rw [hs] at h; cases h
        | ok res =>
          rw [hs] at h
          obtain ⟨fs, chain⟩ := res
          simp only at h
          split at h
          · cases h
          · have hr : recs = ({ baseRec ebk.1 pfx with isDir := true, owned := chain, eof := 0, locked := false }, ebk.2) :: fs := by
              injection h with h; exact h.symm
            subst hr
            intro fl hfl
            rcases List.mem_cons.mp hfl with rfl | hfl'
            · exact Or.inl rfl
            · right
              simp only [List.flatMap_cons, List.mem_append]
              rcases hsub _ _ _ hs fl hfl' with hc | ho
              · exact Or.inl hc
              · exact Or.inr ho
      · cases h

theorem readDir_locs (r : Raw) (total : Nat) : ∀ (fuel key : Nat) (pfx : Bytes) (depth : Nat) (fs : List LRec) (ch : List Nat),
    readDir fuel r total key pfx depth = .ok (fs, ch) → LocsOk fs ch
  | 0, _, _, _, _, _, h => by simp [readDir] at h
  | fuel + 1, key, pfx, depth, fs, ch, h => by
    unfold readDir at h
    split at h
    · cases h
    · cases hc : dirChain r total 1000 key [] with
      | error x => rw [hc] at h; cases h
      | ok chain =>
        rw [hc] at h
        simp only at h
        cases hu : r.unit key "directory-key-block" with
        | error x => rw [hu] at h; cases h
        | ok keyBlk =>
          rw [hu] at h
          simp only at h
          split at h
          · cases h
          · cases he : List.mapM (blockEntries r key (keyBlk.getD (4 + 0x20) 0) (keyBlk.getD (4 + 0x1F) 0)) chain with
            | error x => rw [he] at h; cases h
            | ok ents =>
              rw [he] at h
              simp only at h
              split at h
              · cases h
              · cases hm : List.mapM (readEntryWith (fun k p => readDir fuel r total k p (depth + 1)) r total pfx)
                    (ents.flatten.filter (fun e => e.1.getD 0 0 / 16 ≠ 0)) with
                | error x => rw [hm] at h; cases h
                | ok recs =>
                  rw [hm] at h
                  have hres : fs = recs.flatten ∧ ch = chain := by
                    injection h with h; injection h with h1 h2; exact ⟨h1.symm, h2.symm⟩
                  obtain ⟨hfs, hch⟩ := hres
                  subst hfs; subst hch
                  intro fl hfl
                  rw [List.mem_flatten] at hfl
                  obtain ⟨recsE, hre, hflr⟩ := hfl
                  obtain ⟨ebk, hebk, hrun⟩ := ((mapM_eq_ok _ _ _).mp hm).mem_right hre
                  rcases readEntryWith_locs _ r total pfx ebk recsE hrun
                      (fun k p res hs => readDir_locs r total fuel k p (depth + 1) res.1 res.2 hs) fl hflr with hl | ho
                  · left
                    rw [hl]
                    exact ents_loc r key _ _ ch ents he ebk (List.mem_filter.mp hebk).1
                  · right
                    rw [List.mem_flatMap] at ho ⊢
                    obtain ⟨g, hg, hgo⟩ := ho
                    exact ⟨g, List.mem_flatten.mpr ⟨recsE, hre, hg⟩, hgo⟩

/-! ## the image with one access byte changed -/

/-- byte offset of slot `idx` (1-based) in a directory block -/
def entOff (idx : Nat) : Nat := 4 + 39 * (idx - 1)

/-- `r'` is `r` with byte `entOff idx + 30` (the access byte of slot `idx`) of unit `B` replaced -/
structure AccMod (r r' : Raw) (B idx : Nat) (blk nb : Bytes) : Prop where
  size : r'.units.size = r.units.size
  other : ∀ j, j ≠ B → r'.units[j]? = r.units[j]?
  old : r.units[B]? = some blk
  new : r'.units[B]? = some nb
  len : nb.length = blk.length
  blen : blk.length = 512
  same : ∀ k, k ≠ entOff idx + 30 → nb.getD k 0 = blk.getD k 0
  idx : 1 ≤ idx ∧ idx ≤ 13

theorem AccMod.agree {r r' : Raw} {B idx : Nat} {blk nb : Bytes} (h : AccMod r r' B idx blk nb) (S : List Nat) (hS : B ∉ S) :
    Agree r r' S := fun j hj => h.other j (fun hjb => hS (hjb ▸ hj))

theorem unit_of_get (r : Raw) (i : Nat) (who : String) (b : Bytes) (h : r.units[i]? = some b) : r.unit i who = .ok b := by
  unfold Raw.unit; rw [h]

theorem get_of_unit (r : Raw) (i : Nat) (who : String) (b : Bytes) (h : r.unit i who = .ok b) : r.units[i]? = some b := by
  unfold Raw.unit at h
  cases hu : r.units[i]? with
  | none => rw [hu] at h; cases h
  | some c => rw [hu] at h; injection h with h; rw [h]

/-- the entries of the changed block: slot `idx` gets the new access byte, every other slot is as before -/
theorem entryAt_mod {blk nb : Bytes} {idx : Nat} (hlen : nb.length = blk.length)
    (hsame : ∀ k, k ≠ entOff idx + 30 → nb.getD k 0 = blk.getD k 0) (hidx : 1 ≤ idx) (k : Nat) (hk : k + 1 ≠ idx) :
    entryAt nb k 39 = entryAt blk k 39 := by
  unfold entryAt
  apply slice_congr _ _ _ _ hlen
  intro j hj1 hj2
  apply hsame
  unfold entOff
  intro hj
  have : k = idx - 1 ∨ k < idx - 1 ∨ k > idx - 1 := by omega
  rcases this with h | h | h
  · omega
  · have : 39 * k + 39 ≤ 39 * (idx - 1) := by have := Nat.mul_le_mul_left 39 (show k + 1 ≤ idx - 1 by omega); omega
    omega
  · have : 39 * (idx - 1) + 39 ≤ 39 * k := by have := Nat.mul_le_mul_left 39 (show idx - 1 + 1 ≤ k by omega); omega
    omega

theorem entryAt_mod_self {blk nb : Bytes} {idx : Nat} (hlen : nb.length = blk.length) (hb : entOff idx + 39 ≤ blk.length)
    (hsame : ∀ k, k ≠ entOff idx + 30 → nb.getD k 0 = blk.getD k 0) :
    AccOnly (entryAt blk (idx - 1) 39) (entryAt nb (idx - 1) 39) ∧
      (entryAt nb (idx - 1) 39).getD 30 0 = nb.getD (entOff idx + 30) 0 := by
  have hoff : 4 + (idx - 1) * 39 = entOff idx := by unfold entOff; rw [Nat.mul_comm]
  unfold entryAt
  rw [hoff]
  have hg : ∀ (x : Bytes) (j : Nat), j < 39 → entOff idx + 39 ≤ x.length → (slice x (entOff idx) 39).getD j 0 = x.getD (entOff idx + j) 0 := by
    intro x j hj hx
    unfold slice
    simp only [List.getD_eq_getElem?_getD]
    rw [List.getElem?_take_of_lt hj, List.getElem?_drop]
  have hl : ∀ (x : Bytes), entOff idx + 39 ≤ x.length → (slice x (entOff idx) 39).length = 39 := by
    intro x hx; unfold slice; simp; omega
  refine ⟨⟨by rw [hl nb (by omega), hl blk hb], ?_⟩, hg nb 30 (by omega) (by omega)⟩
  intro k hk
  by_cases hk39 : k < 39
  · rw [hg nb k hk39 (by omega), hg blk k hk39 hb]
    exact hsame _ (by omega)
  · simp only [List.getD_eq_getElem?_getD]
    rw [List.getElem?_eq_none (by rw [hl nb (by omega)]; omega), List.getElem?_eq_none (by rw [hl blk hb]; omega)]

/-- a record at another location is left alone, the record(s) at `loc` get the access byte `a` -/
def updAt (loc : Nat × Nat) (a : Nat) (fl : LRec) : LRec := if fl.2 = loc then (updAcc a fl.1, fl.2) else fl

theorem mapM_map_ok {ε α β : Type} (f g : α → Except ε β) (φ : α → α) (ψ : β → β) (l : List α) (ys : List β)
    (h : l.mapM f = .ok ys) (hfg : ∀ x y, x ∈ l → y ∈ ys → f x = .ok y → g (φ x) = .ok (ψ y)) :
    (l.map φ).mapM g = .ok (ys.map ψ) := by
  rw [mapM_eq_ok] at h ⊢
  induction h with
  | nil => exact All2.nil
  | cons hy _ ih =>
    exact All2.cons (hfg _ _ List.mem_cons_self List.mem_cons_self hy)
      (ih (fun x y hx hyy => hfg x y (List.mem_cons_of_mem _ hx) (List.mem_cons_of_mem _ hyy)))

/-- what the change does to an entry with its location -/
def modEnt (B idx : Nat) (nb : Bytes) (x : Bytes × Nat × Nat) : Bytes × Nat × Nat :=
  if x.2 = (B, idx) then (entryAt nb (idx - 1) 39, x.2) else x

theorem updAt_id_of_ne (loc : Nat × Nat) (a : Nat) (l : List LRec) (h : ∀ fl ∈ l, fl.2 ≠ loc) : l.map (updAt loc a) = l := by
  induction l with
  | nil => rfl
  | cons fl l ih =>
    rw [List.map_cons, ih (fun g hg => h g (List.mem_cons_of_mem _ hg))]
    unfold updAt; rw [if_neg (h fl List.mem_cons_self)]

/-- **one entry after the change**: an entry at another location yields the same records; the entry at `(B, idx)` (a
file entry) yields its record with the new access byte -/
theorem readEntryWith_mod (sub sub' : Nat → Bytes → Except String (List LRec × List Nat)) (r r' : Raw) (total : Nat)
    (B idx : Nat) (blk nb : Bytes) (hmod : AccMod r r' B idx blk nb)
    (pfx : Bytes) (x : Bytes × Nat × Nat) (y : List LRec)
    (h : readEntryWith sub r total pfx x = .ok y)
    (hB : B ∉ y.flatMap (·.1.owned))
    (hsub : ∀ k p res, k ≠ 0 → sub k p = .ok res → Agree r r' (res.2 ++ res.1.flatMap (·.1.owned)) → sub' k p = .ok res)
    (hlocs : ∀ k p res, sub k p = .ok res → LocsOk res.1 res.2)
    (hx : x.2 = (B, idx) → x.1 = entryAt blk (idx - 1) 39 ∧ x.1.getD 0 0 / 16 ≠ 0xD) :
    readEntryWith sub' r' total pfx (modEnt B idx nb x) = .ok (y.map (updAt (B, idx) (nb.getD (entOff idx + 30) 0))) := by
  by_cases hloc : x.2 = (B, idx)
  · -- the changed entry
    obtain ⟨hx1, hx2⟩ := hx hloc
    have hoff : entOff idx + 39 ≤ blk.length := by rw [hmod.blen]; unfold entOff; have := hmod.idx; omega
    obtain ⟨hacc, ha⟩ := entryAt_mod_self hmod.len hoff hmod.same
    have hme : modEnt B idx nb x = (entryAt nb (idx - 1) 39, x.2) := by unfold modEnt; rw [if_pos hloc]
    rw [hme]
    unfold readEntryWith at h ⊢
    simp only at h ⊢
    rw [← hx1] at hacc
    rw [hacc.same 0 (by omega), le16_congr _ x.1 0x11 (hacc.same _ (by omega)) (hacc.same _ (by omega))]
    split at h
    · cases h
    · next hkey =>
      rw [if_neg hkey]
      split at h
      · next hst =>
        rw [if_pos hst]
        cases hf : readFile r total x.1 pfx with
        | error e => rw [hf] at h; cases h
        | ok f =>
          rw [hf] at h
          have hy : y = [(f, x.2)] := by injection h with h; exact h.symm
          subst hy
          have hBf : B ∉ f.owned := fun hb => hB (by simp [List.flatMap]; exact hb)
          rw [readFile_acc r' total x.1 _ pfx hacc, readFile_congr r r' total _ _ f hf (hmod.agree _ hBf)]
          simp only [Except.map, List.map_cons, List.map_nil]
          unfold updAt
          rw [if_pos hloc, ha]
      · cases h
  · -- an entry elsewhere
    have hme : modEnt B idx nb x = x := by unfold modEnt; rw [if_neg hloc]
    rw [hme, readEntryWith_congr sub sub' r r' total pfx x y h (hmod.agree _ hB) hsub]
    rw [updAt_id_of_ne]
    intro fl hfl hfl2
    rcases readEntryWith_locs sub r total pfx x y h hlocs fl hfl with hl | ho
    · exact hloc (hl ▸ hfl2)
    · rw [hfl2] at ho; exact hB ho

/-! ## the directory that holds the entry -/

theorem blockEntries_form (r : Raw) (key epb elen b : Nat) (l : List (Bytes × Nat × Nat))
    (h : blockEntries r key epb elen b = .ok l) :
    ∃ blk, r.units[b]? = some blk ∧
      l = (if b = key then (List.range epb).drop 1 else List.range epb).map (fun k => (entryAt blk k elen, b, k + 1)) := by
  unfold blockEntries at h
  cases hu : r.unit b "directory-block" with
  | error e => rw [hu] at h; cases h
  | ok blk =>
    rw [hu] at h
    simp only at h
    exact ⟨blk, get_of_unit r b _ blk hu, by injection h with h; exact h.symm⟩

theorem blockEntries_mod (r r' : Raw) (B idx : Nat) (blk nb : Bytes) (hmod : AccMod r r' B idx blk nb)
    (key epb b : Nat) (l : List (Bytes × Nat × Nat)) (h : blockEntries r key epb 39 b = .ok l) :
    blockEntries r' key epb 39 b = .ok (l.map (modEnt B idx nb)) ∧
      ∀ x ∈ l, x.2 = (B, idx) → x.1 = entryAt blk (idx - 1) 39 := by
  obtain ⟨bk, hbk, hl⟩ := blockEntries_form r key epb 39 b l h
  by_cases hb : b = B
  · subst hb
    have hbb : bk = blk := by rw [hmod.old] at hbk; exact (Option.some.inj hbk).symm
    subst hbb
    constructor
    · unfold blockEntries
      rw [unit_of_get r' b _ nb hmod.new]
      simp only
      rw [hl, List.map_map]
      congr 1
      apply List.map_congr_left
      intro k _
      simp only [Function.comp, modEnt]
      by_cases hk : k + 1 = idx
      · have : k = idx - 1 := by omega
        subst this
        simp [hk]
      · have hne : (b, k + 1) ≠ (b, idx) := fun hh => hk (Prod.mk.inj hh).2
        rw [if_neg hne, entryAt_mod hmod.len hmod.same hmod.idx.1 k hk]
    · intro x hx hx2
      rw [hl, List.mem_map] at hx
      obtain ⟨k, _, rfl⟩ := hx
      have hk : k + 1 = idx := (Prod.mk.inj hx2).2
      have : k = idx - 1 := by omega
      subst this; rfl
  · constructor
    · unfold blockEntries
      rw [unit_congr r r' b _ (hmod.other b hb), unit_of_get r b _ bk hbk]
      simp only
      rw [hl, List.map_map]
      congr 1
      apply List.map_congr_left
      intro k _
      simp only [Function.comp, modEnt]
      have hne : (b, k + 1) ≠ (B, idx) := fun hh => hb (Prod.mk.inj hh).1
      rw [if_neg hne]
    · intro x hx hx2
      exact absurd ((blockEntries_loc r key epb 39 b l h x hx).symm.trans (congrArg Prod.fst hx2)) hb

/-- **the directory after the change.**  `key` is the key block of a directory with the standard geometry (entry
length 39, 13 entries per block); no record of its located reading owns block `B`; the entry in slot `idx` of `B` is not
a sub-directory entry.  Then the located reading of the changed image is the old one with the access byte of the
records at `(B, idx)` replaced. -/
theorem readDir_mod (r r' : Raw) (total B idx : Nat) (blk nb : Bytes) (hmod : AccMod r r' B idx blk nb)
    (fuel key : Nat) (pfx : Bytes) (depth : Nat) (fs : List LRec) (ch : List Nat) (hk : key ≠ 0)
    (h : readDir (fuel + 1) r total key pfx depth = .ok (fs, ch))
    (hgeo : ∀ kb, r.units[key]? = some kb → kb.getD 35 0 = 39 ∧ kb.getD 36 0 = 13)
    (hkeyB : key = B → 2 ≤ idx)
    (hB : B ∉ fs.flatMap (·.1.owned))
    (hfile : (entryAt blk (idx - 1) 39).getD 0 0 / 16 ≠ 0xD) :
    readDir (fuel + 1) r' total key pfx depth = .ok (fs.map (updAt (B, idx) (nb.getD (entOff idx + 30) 0)), ch) := by
  have hoffge : 34 ≤ entOff idx + 30 := by unfold entOff; omega
  unfold readDir at h ⊢
  split at h
  · cases h
  · next hdep =>
    rw [if_neg hdep]
    cases hc : dirChain r total 1000 key [] with
    | error x => rw [hc] at h; cases h
    | ok chain =>
      rw [hc] at h
      simp only at h
      cases hu : r.unit key "directory-key-block" with
      | error x => rw [hu] at h; cases h
      | ok keyBlk =>
        rw [hu] at h
        simp only at h
        obtain ⟨hg1, hg2⟩ := hgeo keyBlk (get_of_unit r key _ keyBlk hu)
        have e1 : keyBlk.getD (4 + 0x1F) 0 = 39 := hg1
        have e2 : keyBlk.getD (4 + 0x20) 0 = 13 := hg2
        rw [e1, e2] at h
        split at h
        · cases h
        · next hgeo' =>
          cases he : List.mapM (blockEntries r key 13 39) chain with
          | error x => rw [he] at h; cases h
          | ok ents =>
            rw [he] at h
            simp only at h
            split at h
            · cases h
            · next hcount =>
              cases hm : List.mapM (readEntryWith (fun k p => readDir fuel r total k p (depth + 1)) r total pfx)
                  (ents.flatten.filter (fun e => e.1.getD 0 0 / 16 ≠ 0)) with
              | error x => rw [hm] at h; cases h
              | ok recs =>
                rw [hm] at h
                have hres : fs = recs.flatten ∧ ch = chain := by
                  injection h with h; injection h with h1 h2; exact ⟨h1.symm, h2.symm⟩
                obtain ⟨hfs, hch⟩ := hres
                subst hfs; subst hch
                -- the chain
                have hc' : dirChain r' total 1000 key [] = .ok ch :=
                  dirChain_congr r r' total 1000 key [] ch hc (fun j _ bk hb => by
                    by_cases hjB : j = B
                    · subst hjB
                      have hbk : bk = blk := by
                        have := get_of_unit r j _ bk hb; rw [hmod.old] at this; exact (Option.some.inj this).symm
                      subst hbk
                      exact ⟨nb, unit_of_get r' j _ nb hmod.new,
                        le16_congr nb bk 2 (hmod.same 2 (by omega)) (hmod.same 3 (by omega))⟩
                    · exact ⟨bk, by rw [unit_congr r r' j _ (hmod.other j hjB)]; exact hb, rfl⟩)
                rw [hc']
                simp only
                -- the key block
                have hkey' : ∃ kb', r'.unit key "directory-key-block" = .ok kb' ∧ kb'.getD (4 + 0x1F) 0 = 39 ∧
                    kb'.getD (4 + 0x20) 0 = 13 ∧ le16 kb' (4 + 0x21) = le16 keyBlk (4 + 0x21) := by
                  by_cases hkB : key = B
                  · have hidx2 := hkeyB hkB
                    have hoff2 : 73 ≤ entOff idx + 30 := by unfold entOff; omega
                    subst hkB
                    have hbk : keyBlk = blk := by
                      have := get_of_unit r key _ keyBlk hu; rw [hmod.old] at this; exact (Option.some.inj this).symm
                    subst hbk
                    exact ⟨nb, unit_of_get r' key _ nb hmod.new, by rw [hmod.same _ (by omega)]; exact e1,
                      by rw [hmod.same _ (by omega)]; exact e2,
                      le16_congr nb keyBlk _ (hmod.same _ (by omega)) (hmod.same _ (by omega))⟩
                  · exact ⟨keyBlk, by rw [unit_congr r r' key _ (hmod.other key hkB)]; exact hu, e1, e2, rfl⟩
                obtain ⟨kb', hu', e1', e2', ecount⟩ := hkey'
                rw [hu']
                simp only
                rw [e1', e2', if_neg hgeo']
                -- the entries
                have he' := mapM_map_ok (blockEntries r key 13 39) (blockEntries r' key 13 39) id
                  (List.map (modEnt B idx nb)) ch ents he
                  (fun b l _ _ hbl => (blockEntries_mod r r' B idx blk nb hmod key 13 b l hbl).1)
                rw [List.map_id] at he'
                rw [he']
                simp only
                have hflat : (ents.map (List.map (modEnt B idx nb))).flatten = ents.flatten.map (modEnt B idx nb) := by
                  rw [List.map_flatten]
                have hbyte0 : ∀ x ∈ ents.flatten, (modEnt B idx nb x).1.getD 0 0 = x.1.getD 0 0 := by
                  intro x hx
                  unfold modEnt
                  by_cases hloc : x.2 = (B, idx)
                  · rw [if_pos hloc]
                    simp only
                    rw [List.mem_flatten] at hx
                    obtain ⟨l, hl, hxl⟩ := hx
                    obtain ⟨b, _, hbl⟩ := ((mapM_eq_ok _ _ _).mp he).mem_right hl
                    have hx1 := (blockEntries_mod r r' B idx blk nb hmod key 13 b l hbl).2 x hxl hloc
                    have hoff : entOff idx + 39 ≤ blk.length := by rw [hmod.blen]; unfold entOff; have := hmod.idx; omega
                    rw [hx1]
                    exact (entryAt_mod_self hmod.len hoff hmod.same).1.same 0 (by omega)
                  · rw [if_neg hloc]
                have hfilt : (ents.flatten.map (modEnt B idx nb)).filter (fun e => e.1.getD 0 0 / 16 ≠ 0) =
                    (ents.flatten.filter (fun e => e.1.getD 0 0 / 16 ≠ 0)).map (modEnt B idx nb) := by
                  rw [List.filter_map]
                  congr 1
                  apply List.filter_congr
                  intro x hx
                  simp only [Function.comp, hbyte0 x hx]
                rw [hflat, hfilt, List.length_map, ecount, if_neg hcount]
                -- the records
                have hm' := mapM_map_ok _
                  (readEntryWith (fun k p => readDir fuel r' total k p (depth + 1)) r' total pfx)
                  (modEnt B idx nb) (List.map (updAt (B, idx) (nb.getD (entOff idx + 30) 0))) _ recs hm
                  (fun x y hx hy hxy => readEntryWith_mod _ _ r r' total B idx blk nb hmod pfx x y hxy
                    (fun hb => hB (by
                      rw [List.mem_flatMap] at hb ⊢
                      obtain ⟨g, hg, hgo⟩ := hb
                      exact ⟨g, List.mem_flatten.mpr ⟨y, hy, hg⟩, hgo⟩))
                    (fun k p res hk0 hs hagr => readDir_congr r r' total fuel k p (depth + 1) res.1 res.2 hk0 hs hagr)
                    (fun k p res hs => readDir_locs r total fuel k p (depth + 1) res.1 res.2 hs)
                    (fun hloc => by
                      have hxf := (List.mem_filter.mp hx).1
                      rw [List.mem_flatten] at hxf
                      obtain ⟨l, hl, hxl⟩ := hxf
                      obtain ⟨b, _, hbl⟩ := ((mapM_eq_ok _ _ _).mp he).mem_right hl
                      have hx1 := (blockEntries_mod r r' B idx blk nb hmod key 13 b l hbl).2 x hxl hloc
                      exact ⟨hx1, by rw [hx1]; exact hfile⟩))
                rw [hm']
                simp only
                rw [List.map_flatten]

end A2Verif.FsProdos
