import A2Verif.Lemmas.FsFatSubGrow
/-!
# The invariant between the steps of an operation

`SInv d f v`: everything of `Inv` except that the FAT copies on the image are the buffer — the FAT buffer `f` is open and of
the right shape, and the reading of the image *under the buffer* is the well-formed, leak-free volume `v`.  `sinv_of_inv`;
`inv_of_sinv_flush`: the flush (`get_img()`) turns `SInv` into `Inv` with the same volume and keeps every well-formed
first-level directory.
-/
namespace A2Verif.FsFat
open A2Verif A2Verif.Fs.Fat A2Verif.Read.Fat A2Verif.Read.FatT

structure SInv (d : Disk) (f : Array Nat) (v : Vol) : Prop where
  lf : d.labelFiles = false
  geo : Geo d
  wok : WOk d f
  size : f.size = d.bpb.fatSecs * 512
  root : RootOk d
  tail : TailZero (dirOfBytes (rootBuf d))
  read : readFrom d f (rootBuf d) = .ok v
  wf : v.wfB = true
  nl : v.noLeak = true

theorem coh_unique {d : Disk} {f f0 : Array Nat} (w : WOk d f) (c0 : Coh d f0) : f0 = f := by
  have h1 := c0.isOpen
  rw [w.fat] at h1
  injection h1 with h1
  exact h1.symm

theorem sinv_of_inv {d : Disk} (inv : Inv d) : ∃ f, Coh d f ∧ SInv d f (volOf d) := by
  obtain ⟨f, c⟩ := inv.coh
  obtain ⟨hread, hwf, hnl⟩ := inv_reads_well_formed inv
  rw [readT_eq inv.geo c] at hread
  exact ⟨f, c, { lf := inv.lf, geo := inv.geo, wok := wok_of inv.geo c, size := c.size, root := inv.root, tail := inv.tail,
                 read := hread, wf := hwf, nl := hnl }⟩

/-- the flush turns `SInv` into `Inv`, with the same volume; sub-directories are kept -/
theorem inv_of_sinv_flush {d : Disk} {f : Array Nat} {v : Vol} (s : SInv d f v) :
    ∃ d3, flush d = (.ok (), d3) ∧ Inv d3 ∧ volOf d3 = v ∧ Coh d3 f ∧ d3.bpb = d.bpb ∧
      ∀ D E1 eD E2 cl, SubDirOk d D f E1 eD E2 cl → SubDirOk d3 D f E1 eD E2 cl := by
  have g := s.geo
  obtain ⟨r3, m1, g3, c3, m4⟩ := flush_spec g s.wok.fat s.size s.wok.bytes
  have hrf : d.bpb.rootBeg ≤ d.bpb.firstDataSec := by unfold Bpb.rootBeg Bpb.firstDataSec; omega
  have hroot3 : rootBuf ({ d with raw := r3 } : Disk) = rootBuf d := rootBuf_congr rfl (fun u hu => m4 u (Or.inr hu))
  have hcd : clusterData r3 (rbpb d.bpb) = clusterData d.raw (rbpb d.bpb) := by
    apply clusterData_congr
    intro i hi
    rw [firstData_eq g] at hi
    exact m4 i (Or.inr (by omega))
  have hread3 : readT ({ d with raw := r3 } : Disk).raw = .ok v := by
    rw [readT_eq g3 c3, hroot3]
    have := s.read
    unfold readFrom at this ⊢
    show (readDirT r3 (rbpb d.bpb) f false (hiOf d.bpb) 33 (rootBuf d) []).map _ = _
    rw [readDirT_congr hcd]
    exact this
  refine ⟨{ d with raw := r3 }, m1, ?_, volOf_of_read hread3, c3, rfl, ?_⟩
  · exact { lf := s.lf, geo := g3, coh := ⟨f, c3⟩, root := by rw [RootOk, hroot3]; exact s.root,
            tail := by rw [hroot3]; exact s.tail, read := ⟨v, hread3, s.wf, s.nl⟩ }
  · intro D E1 eD E2 cl sd
    have hcl2 : ∀ z ∈ cl, 2 ≤ z := fun z hz => (sd.chain.bounds z hz).1
    have hcdat : chainData ({ d with raw := r3 } : Disk) cl = chainData d cl :=
      chainData_congr (d := d) (d' := ({ d with raw := r3 } : Disk)) rfl hcl2 (fun u hu => m4 u (Or.inr (by omega)))
    exact { wok := wok_of g3 c3, hE := by rw [hroot3]; exact sd.hE, hE1 := sd.hE1, inmap := sd.inmap, key := sd.key,
            isdir := sd.isdir, chain := sd.chain, nodup := sd.nodup, ents := by rw [hcdat]; exact sd.ents }

end A2Verif.FsFat
