import A2Verif.Lemmas.FsCpmPutLoop5
/-!
# Successful `put`: the outer loop as a whole, the time stamps, and `put_facts`
-/
namespace A2Verif.FsCpm
open A2Verif.Fs.Cpm
open A2Verif.Read.Cpm (Dpb fileKey extNum entryPtrs pathOf slots)

theorem extLoop_einv {d : Dpb} {r : Raw} {f : FImg} {user : Nat} {name : Bytes}
    (hd : DpbPut d) (ho : DpbOk d) (hr : ResvOk d) (hu : user < 16) (ha : PutArgsOk d f) :
    ∀ (n x : Nat) (s s' : WState), x + n = putMaxX d f →
      EInv d r f user (stringToFileName name).1 (stringToFileName name).2 x s →
      extLoop d name user f (putMaxX d f) (putSpe d) (putSpl d) s (List.range' x n) = (.ok (), s') →
      EInv d r f user (stringToFileName name).1 (stringToFileName name).2 (putMaxX d f) s' := by
  intro n
  induction n with
  | zero =>
    intro x s s' hx hs h
    simp only [List.range'_zero] at h
    unfold extLoop at h
    cases h
    have : x = putMaxX d f := by omega
    rw [← this]; exact hs
  | succ n ih =>
    intro x s s' hx hs h
    rw [List.range'_succ] at h
    unfold extLoop at h
    simp only [] at h
    rw [pairs_eq _ (putSpl_pos hd), dpbPut_mul hd] at h
    obtain ⟨hs0, hfx0⟩ := hs
    have hs0' : SInv d r f user (stringToFileName name).1 (stringToFileName name).2 x 0 { s with lxUsed := 0 } :=
      { w := { frame := hs0.w.frame, keeps := hs0.w.keeps, len := hs0.w.len, opn := hs0.w.opn }, same := hs0.same,
        closed := hs0.closed, xinj := hs0.xinj, opn := fun fx hfx => (by rw [hfx0] at hfx; cases hfx),
        nopn := fun _ k hk => (by omega), dist := hs0.dist, cover := hs0.cover, crt := hs0.crt }
    cases hsl : slotLoop d name user f x (putSpe d) (putSpl d) { s with lxUsed := 0 }
        ((List.range' 0 (slots d)).map (pairOf (putSpl d))) with
    | mk res1 s1 =>
      rw [hsl] at h
      cases res1 with
      | error e => simp only [] at h; cases h
      | ok u =>
        have hs1 := slotLoop_sinv hd ho hr hu ha.2.2.1 (slots d) 0 _ _ (by omega) hs0' hsl
        simp only [] at h
        cases hfx : s1.fx with
        | none =>
          rw [hfx] at h
          simp only [] at h
          exact ih _ _ _ (by omega) (einv_next hd hs1 hfx) h
        | some fx =>
          rw [hfx] at h
          simp only [] at h
          split at h
          · cases h
          next dir' hce =>
            exact ih _ _ _ (by omega) (einv_close hd hu ha (by omega) hs1 hfx hce) h

/-! ## the start: the pointers of the stored directory are distinct -/

theorem inv_dist {d : Dpb} {r : Raw} (h : Inv d r) : PtrsDistinct d (dirOf d r) := by
  intro i j ei ej k l p hi hj xi xj hk hl hp
  have hnd := h.noShare
  rw [List.nodup_append] at hnd
  have hnd1 := hnd.1
  unfold List.Nodup at hnd1
  rw [List.pairwise_flatMap] at hnd1
  obtain ⟨hin, hcross⟩ := hnd1
  have hmi : ei ∈ fents d r := mem_fents.2 ⟨List.mem_of_getElem? hi, (isExtent_iff ei).1 xi⟩
  have hmj : ej ∈ fents d r := mem_fents.2 ⟨List.mem_of_getElem? hj, (isExtent_iff ej).1 xj⟩
  obtain ⟨hk1, hk2⟩ := entryPtrs_getElem? d ei hk
  obtain ⟨hl1, hl2⟩ := entryPtrs_getElem? d ej hl
  have mem_nz : ∀ (e : Bytes) (q : Nat), (entryPtrs d e)[q]? = some p → (p, q) ∈ nzPtrs d e := by
    intro e q hq
    unfold nzPtrs
    rw [List.mem_filter]
    refine ⟨?_, by simpa using hp⟩
    rw [List.mem_zipIdx_iff_getElem?]
    simpa using hq
  have hoi : p ∈ ownedE d ei := List.mem_map.2 ⟨(p, k), mem_nz ei k hk, rfl⟩
  have hoj : p ∈ ownedE d ej := List.mem_map.2 ⟨(p, l), mem_nz ej l hl, rfl⟩
  by_cases cij : i = j
  · refine ⟨cij, ?_⟩
    rw [cij, hj] at hi
    cases hi
    have hn := hin ei hmi
    have := nodup_map_inj (g := fun (pj : Nat × Nat) => pj.1) (l := nzPtrs d ei) hn (mem_nz ei k hk) (mem_nz ei l hl) rfl
    exact (Prod.mk.inj this).2
  · exfalso
    unfold fents fentsOf at hcross
    rw [List.pairwise_filter] at hcross
    have hpw := List.pairwise_iff_getElem.1 hcross
    obtain ⟨hil, hie⟩ := List.getElem?_eq_some_iff.1 hi
    obtain ⟨hjl, hje⟩ := List.getElem?_eq_some_iff.1 hj
    have hui : decide (ei.getD 0 0 < 16) = true := decide_eq_true ((isExtent_iff ei).1 xi)
    have huj : decide (ej.getD 0 0 < 16) = true := decide_eq_true ((isExtent_iff ej).1 xj)
    rcases Nat.lt_or_gt_of_ne cij with c | c
    · have := hpw i j hil hjl c
      rw [hie, hje] at this
      exact this hui huj p hoi p hoj rfl
    · have := hpw j i hjl hil c
      rw [hie, hje] at this
      exact this huj hui p hoj p hoi rfl

theorem einv_init {d : Dpb} {r : Raw} {f : FImg} {user : Nat} {base typ : Bytes} (h : Inv d r) :
    EInv d r f user base typ 0 { r := r, dir := dirOf d r } := by
  have hl := dirOf_entry_length h.shape h.dpb
  refine ⟨⟨⟨Frame.refl h.shape, ⟨rfl, fun j e he _ => he⟩, hl, fun fx hfx => by cases hfx⟩, ?_, ?_, ?_, ?_, ?_, inv_dist h, ?_, ?_⟩, rfl⟩
  · intro j e0 e h0 hj _
    simp only [] at hj
    rw [h0] at hj; cases hj; rfl
  · intro j e0 e h0 hn hj hx
    simp only [] at hj
    rw [h0] at hj; cases hj
    rw [hn] at hx; cases hx
  · intro i j e0i e0j ei ej a1 a2 _ _ hi _ xi _ _ _ _
    simp only [] at hi
    rw [a1] at hi; cases hi
    rw [a2] at xi; cases xi
  · intro fx hfx; cases hfx
  · intro _ k hk; omega
  · intro g c _ hlt; exact absurd hlt (Nat.not_lt_zero _)
  · intro _ g c _ hlt; exact absurd hlt (Nat.not_lt_zero _)

/-! ## time stamps -/

theorem tsMaybeSet_shape {sdir dir' : Dir} {lab now : Bytes} {lx0 which : Nat} (hl : ∀ e ∈ sdir, e.length = 32)
    (h : tsMaybeSet sdir lab lx0 now which = .ok dir') :
    dir' = sdir ∨ ∃ (idx : Nat) (ts ts' : Bytes), sdir[idx]? = some ts ∧ status ts = 33 ∧ status ts' = 33 ∧ ts'.length = 32 ∧
      dir' = sdir.set idx ts' := by
  unfold tsMaybeSet at h
  split at h
  · cases h; exact Or.inl rfl
  · split at h
    · cases h; exact Or.inl rfl
    · simp only [] at h
      cases hts : sdir[4 * (1 + lx0 / 4) - 1]? with
      | none => rw [hts] at h; cases h
      | some ts =>
        rw [hts] at h
        simp only [] at h
        by_cases hit : (!isTimestamp ts) = true
        · rw [if_pos hit] at h; cases h
        · rw [if_neg hit] at h
          by_cases hsub : lx0 % 4 + 1 > 3
          · rw [if_pos hsub] at h; cases h
          · rw [if_neg hsub] at h
            cases h
            have hts32 : ts.length = 32 := hl ts (List.mem_of_getElem? hts)
            have hst : status ts = 33 := by
              have : isTimestamp ts = true := by simpa using hit
              unfold isTimestamp at this
              simpa using this
            have hoff : 0 < (if which = 4 then tsCreateOff (lx0 % 4 + 1) else tsUpdateOff (lx0 % 4 + 1)) ∧
                (if which = 4 then tsCreateOff (lx0 % 4 + 1) else tsUpdateOff (lx0 % 4 + 1)) + (now.take 4).length ≤ 32 := by
              have : (now.take 4).length ≤ 4 := by simp; omega
              obtain ⟨o1, o2⟩ := tsOff_cases hsub
              split <;> omega
            refine Or.inr ⟨_, ts, _, hts, hst, ?_, ?_, rfl⟩
            · unfold status
              rw [splice_getD0 hoff.1 (by omega)]
              exact hst
            · rw [splice_length (by rw [hts32]; exact hoff.2), hts32]

theorem dist_set_nonfile {d : Dpb} {sdir : Dir} {ptr : Nat} {e' : Bytes} (hdist : PtrsDistinct d sdir) (hx : isExtent e' = false) :
    PtrsDistinct d (sdir.set ptr e') := by
  intro i j ei ej k l p hi hj xi xj hk hl hp
  have get : ∀ (m : Nat) (e : Bytes), (sdir.set ptr e')[m]? = some e → isExtent e = true → sdir[m]? = some e := by
    intro m e hm hxe
    by_cases c : m = ptr
    · exfalso
      rw [c] at hm
      have hlt : ptr < sdir.length := by
        have := (List.getElem?_eq_some_iff.1 hm).1
        rw [List.length_set] at this; exact this
      rw [List.getElem?_set_self hlt] at hm
      cases hm
      rw [hx] at hxe; cases hxe
    · rw [List.getElem?_set_ne (fun e'' => c e''.symm)] at hm
      exact hm
  exact hdist i j ei ej k l p (get i ei hi xi) (get j ej hj xj) xi xj hk hl hp

theorem status33_nonfile {e : Bytes} (h : status e = 33) : isExtent e = false := by
  unfold isExtent; rw [h]; rfl

/-- rewriting a time-stamp entry keeps the facts -/
theorem putFacts_ts {d : Dpb} {r sr : Raw} {f : FImg} {user : Nat} {base typ : Bytes} {dirA : Dir} {idx : Nat} {ts ts' : Bytes}
    (pf : PutFacts d r f user base typ sr dirA) (hts : dirA[idx]? = some ts) (h1 : status ts = 33) (h2 : status ts' = 33)
    (h3 : ts'.length = 32) : PutFacts d r f user base typ sr (dirA.set idx ts') := by
  have hn := status33_nonfile h1
  have hn' := status33_nonfile h2
  have hlt : idx < dirA.length := (List.getElem?_eq_some_iff.1 hts).1
  have ne_idx : ∀ j e, (dirA.set idx ts')[j]? = some e → isExtent e = true → j ≠ idx ∧ dirA[j]? = some e := by
    intro j e hj hx
    by_cases c : j = idx
    · exfalso
      rw [c, List.getElem?_set_self hlt] at hj
      cases hj
      rw [hn'] at hx; cases hx
    · rw [List.getElem?_set_ne (fun e' => c e'.symm)] at hj
      exact ⟨c, hj⟩
  refine ⟨pf.frame, keeps_set_nonext pf.keeps hts hn, len_set pf.len h3, ?_, ?_, ?_, ?_, dist_set_nonfile pf.dist hn'⟩
  · intro j e0 e h0 hj hx
    by_cases c : j = idx
    · rw [c] at hj h0
      rw [List.getElem?_set_self hlt] at hj
      cases hj
      right
      rcases pf.other idx e0 ts h0 hts hn with e | ⟨a, _⟩
      · rw [← e, h1, h2]; omega
      · rw [h2]; omega
    · rw [List.getElem?_set_ne (fun e' => c e'.symm)] at hj
      exact pf.other j e0 e h0 hj hx
  · intro j e0 e h0 hn0 hj hx
    exact pf.new j e0 e h0 hn0 (ne_idx j e hj hx).2 hx
  · intro i j e0i e0j ei ej a1 a2 a3 a4 hi hj xi xj hph
    exact pf.xinj i j e0i e0j ei ej a1 a2 a3 a4 (ne_idx i ei hi xi).2 (ne_idx j ej hj xj).2 xi xj hph
  · intro g c hg
    obtain ⟨j, e0, e, q1, q2, q3, q4, q5⟩ := pf.cover g c hg
    have cj : j ≠ idx := by
      intro cj
      rw [cj, hts] at q3; cases q3
      rw [hn] at q4; cases q4
    exact ⟨j, e0, e, q1, q2, by rw [List.getElem?_set_ne (fun e' => cj e'.symm)]; exact q3, q4, q5⟩

theorem putFacts_tsSet {d : Dpb} {r sr : Raw} {f : FImg} {user : Nat} {base typ : Bytes} {dirA dirB : Dir} {lab now : Bytes}
    {lx0 which : Nat} (pf : PutFacts d r f user base typ sr dirA) (h : tsMaybeSet dirA lab lx0 now which = .ok dirB) :
    PutFacts d r f user base typ sr dirB := by
  rcases tsMaybeSet_shape pf.len h with rfl | ⟨idx, ts, ts', a, b, c, e, rfl⟩
  · exact pf
  · exact putFacts_ts pf a b c e

/-- the facts at the end of the outer loop -/
theorem putFacts_of_einv {d : Dpb} {r : Raw} {f : FImg} {user : Nat} {base typ : Bytes} {s : WState} (hd : DpbPut d)
    (ha : PutArgsOk d f) (hs : EInv d r f user base typ (putMaxX d f) s) :
    PutFacts d r f user base typ s.r s.dir ∧ s.created ≠ 0 := by
  obtain ⟨hs, hfx⟩ := hs
  obtain ⟨hen, ⟨cM, hcM⟩, hub⟩ := end_spec ha.1
  have hmaxdef : putMaxX d f = f.end_ / slots d + (if f.end_ % slots d > 0 then 1 else 0) := by
    unfold putMaxX; rw [hd.2.1]
  obtain ⟨m1, m2, m3, m4, m5⟩ := ar_max (dpb_cases hd) hen hmaxdef
  have nopen : ∀ j, ¬ (s.fx.isSome = true ∧ j = s.ptr) := by
    intro j h; rw [hfx] at h; cases h.1
  refine ⟨⟨hs.w.frame, hs.w.keeps, hs.w.len, ?_, ?_, ?_, ?_, hs.dist⟩, ?_⟩
  · intro j e0 e h0 hj hx
    exact Or.inl (hs.same j e0 e h0 hj hx)
  · intro j e0 e h0 hn hj hx
    rcases hs.closed j e0 e h0 hn hj hx with h | ⟨h1, h2, x', _, h4⟩
    · exact absurd h (nopen j)
    · exact ⟨h1, h2, x', h4⟩
  · intro i j e0i e0j ei ej a1 a2 a3 a4 hi hj xi xj hph
    exact hs.xinj i j e0i e0j ei ej a1 a2 a3 a4 hi hj xi xj (nopen i) (nopen j) hph
  · intro g c hg
    obtain ⟨j, e0, e, q1, q2, q3, q4, _, q6⟩ := hs.cover g c hg (m4 g (hub g c hg))
    exact ⟨j, e0, e, q1, q2, q3, q4, q6⟩
  · intro hc
    exact hs.crt hc _ cM hcM (m4 _ (by omega))

/-- **what a successful `put` leaves** (the characterisation of the new directory entries) -/
theorem put_facts {d : Dpb} {r r' : Raw} {f : FImg} {now : Bytes} (h : Inv d r) (hr : ResvOk d) (hd : DpbPut d)
    (ha : PutArgsOk d f) (hop : put d r f now = (.ok (), r')) :
    ∃ (user : Nat) (name : Bytes) (files : List FileInfo) (sr : Raw) (dir2 : Dir),
      splitUserFilename f.fullPath = .ok (user, name) ∧ isNameValid name = true ∧
      buildFiles d d.v3 (dirOf d r) = .ok files ∧ getFile f.fullPath files = none ∧
      PutFacts d r f user (stringToFileName name).1 (stringToFileName name).2 sr dir2 ∧
      saveDirectory d sr dir2 = (.ok (), r') := by
  unfold put at hop
  split at hop
  · cases hop
  split at hop
  · cases hop
  simp only [] at hop
  split at hop
  · cases hop
  next user name hsplit =>
  split at hop
  · cases hop
  next hvalid =>
  split at hop
  · cases hop
  rw [getDirectory_eq h.shape h.dpb] at hop
  simp only [] at hop
  rw [show (f.end_ / (extentCapacity d / blockSize d) + (if f.end_ % (extentCapacity d / blockSize d) > 0 then 1 else 0)) =
    putMaxX d f from rfl] at hop
  split at hop
  · cases hop
  next files hb =>
  split at hop
  · cases hop
  next hgf =>
  split at hop
  · cases hop
  split at hop
  · cases hop
  next nfb hnfb =>
  split at hop
  · cases hop
  split at hop
  · cases hop
  have hu := split_user_lt hsplit
  split at hop
  next e s hloop => cases hop
  next u s hloop =>
    rw [List.range_eq_range'] at hloop
    have hE := extLoop_einv hd h.dpb hr hu ha (putMaxX d f) 0 _ _ (by omega) (einv_init h) hloop
    obtain ⟨pf, hcr⟩ := putFacts_of_einv hd ha hE
    rw [if_neg hcr] at hop
    simp only [] at hop
    refine ⟨user, name, files, s.r, ?_⟩
    have hv : isNameValid name = true := by simpa using hvalid
    have hg : getFile f.fullPath files = none := by
      cases hgg : getFile f.fullPath files with
      | none => rfl
      | some fi => rw [hgg] at hgf; simp at hgf
    split at hop
    next e hts => cases hop
    next dir2 hts =>
      have pf2 : PutFacts d r f user (stringToFileName name).1 (stringToFileName name).2 s.r dir2 := by
        cases hfl : findLabel s.dir with
        | none => rw [hfl] at hts; simp only [] at hts; cases hts; exact pf
        | some lab =>
          cases he1 : s.entry1 with
          | none => rw [hfl, he1] at hts; simp only [] at hts; cases hts; exact pf
          | some lx0 =>
            rw [hfl, he1] at hts
            simp only [] at hts
            unfold tsMaybeSetCreate at hts
            cases h1 : tsMaybeSet s.dir lab lx0 now 4 with
            | error e => rw [h1] at hts; cases hts
            | ok dirA =>
              rw [h1] at hts
              simp only [] at hts
              exact putFacts_tsSet (putFacts_tsSet pf h1) hts
      have hsh : Shape d s.r := ⟨by rw [pf.frame.1, h.shape.size], pf.frame.2.1⟩
      obtain ⟨r2, e1, _, _, _⟩ := saveDirectory_spec (dir := dir2) hsh h.dpb (by rw [pf2.keeps.1, dirOf_length]) pf2.len
      rw [e1] at hop
      cases hop
      exact ⟨dir2, hsplit, hv, hb, hg, pf2, e1⟩

end A2Verif.FsCpm
