import A2Verif.Lemmas.RenumberIns
/-!
Part 20 (C16): the other direction of the refusal conditions — when the loops of `renumber` / `build_edits` succeed,
and the outcome of `plan` for the selection `renumber` passes (it never panics there).
-/
namespace A2Verif.Lemmas.Renumber
open A2Verif.Model.Renumber

/-! every line number once ⟺ every entry of the grouped map is a singleton -/

theorem ungroup_keys_of_singletons (m : List (Nat × List Label)) (h : ∀ x ∈ m, ∃ lab, x.2 = [lab]) :
    (ungroup m).map (·.1) = m.map (·.1) := by
  induction m with
  | nil => rfl
  | cons y ys ih =>
    obtain ⟨k, vs⟩ := y
    obtain ⟨lab, hl⟩ := h (k, vs) (by simp)
    dsimp only at hl
    subst hl
    have : ungroup ((k, [lab]) :: ys) = (k, lab) :: ungroup ys := by simp [ungroup]
    rw [this]
    simp only [List.map_cons]
    rw [ih (fun x hx => h x (List.mem_cons_of_mem _ hx))]

theorem short_of_ungroup_nodup (m : List (Nat × List Label)) (h : ((ungroup m).map (·.1)).Nodup) :
    ∀ x ∈ m, x.2.length ≤ 1 := by
  induction m with
  | nil => intro x hx; cases hx
  | cons y ys ih =>
    obtain ⟨k, vs⟩ := y
    have e : ungroup ((k, vs) :: ys) = vs.map (fun v => (k, v)) ++ ungroup ys := by simp [ungroup]
    rw [e, List.map_append] at h
    have h' := List.nodup_append.mp h
    intro x hx
    rcases List.mem_cons.mp hx with rfl | hx
    · match vs, h'.1 with
      | [], _ => simp
      | [_], _ => simp
      | v1 :: v2 :: rest, hnd =>
        simp only [List.map_cons, List.nodup_cons, List.mem_cons, true_or, not_true_eq_false, false_and] at hnd
    · exact ih h'.2.1 x hx

/-- the line numbers of the source are pairwise distinct iff no entry of the map `gather_defs` returns has two labels -/
theorem singletons_iff_nodup (xs : List (Nat × Label)) :
    (∀ x ∈ group xs, ∃ lab, x.2 = [lab]) ↔ (xs.map (·.1)).Nodup := by
  have hperm := (ungroup_group_perm xs).map (·.1)
  constructor
  · intro h
    rw [← hperm.nodup_iff, ungroup_keys_of_singletons _ h]
    exact keys_nodup_group xs
  · intro h
    have hs := short_of_ungroup_nodup (group xs) (hperm.nodup_iff.mpr h)
    intro x hx
    have h1 := hs x hx
    have h2 := group_vals_ne_nil xs x hx
    match hv : x.2, h1, h2 with
    | [], _, h2 => exact absurd rfl h2
    | [lab], _, _ => exact ⟨lab, rfl⟩
    | _ :: _ :: _, h1, _ => simp at h1

theorem selRows_isSome (beg end_ : Nat) (xs : List (Nat × List Label)) (a b : Nat)
    (h : ∀ x ∈ xs, ∃ lab, x.2 = [lab]) : ∃ r, selRows beg end_ xs a b = some r := by
  induction xs generalizing a b with
  | nil => exact ⟨(a, b), rfl⟩
  | cons y ys ih =>
    obtain ⟨num, label⟩ := y
    obtain ⟨lab, hl⟩ := h (num, label) (by simp)
    dsimp only at hl
    subst hl
    unfold selRows
    exact ih _ _ (fun x hx => h x (List.mem_cons_of_mem _ hx))

theorem selRows_none_of (beg end_ : Nat) (xs : List (Nat × List Label)) (a b : Nat)
    (h : ¬ ∀ x ∈ xs, ∃ lab, x.2 = [lab]) : selRows beg end_ xs a b = none := by
  cases hs : selRows beg end_ xs a b with
  | none => rfl
  | some r => exact absurd (selRows_some hs) h

/-- the loop over `all_primaries` succeeds when every number occurs once and no unselected number lies in the new
range -/
theorem checkLoop_isSome (sel : Range) (l0 ln : Nat) (xs : List (Nat × List Label)) (ins : Nat)
    (h : ∀ x ∈ xs, ∃ i0, x.2 = [i0] ∧ (onSelRows sel i0 ∨ ¬ (l0 ≤ x.1 ∧ x.1 ≤ ln))) :
    ∃ ins', checkLoop sel l0 ln xs ins = some ins' := by
  induction xs generalizing ins with
  | nil => exact ⟨ins, rfl⟩
  | cons y ys ih =>
    obtain ⟨p, info⟩ := y
    obtain ⟨i0, hi, hor⟩ := h (p, info) (by simp)
    dsimp only at hi hor
    subst hi
    have ih' := fun ins => ih ins (fun x hx => h x (List.mem_cons_of_mem _ hx))
    unfold checkLoop
    by_cases hin : (decide (sel.s.line ≤ i0.rng.s.line) && decide (i0.rng.e.line ≤ sel.e.line)) = true
    · simp only [hin, ↓reduceIte]; exact ih' _
    · simp only [hin, Bool.false_eq_true, ↓reduceIte]
      have hout : ¬ onSelRows sel i0 := by
        unfold onSelRows
        simpa using hin
      have hnc : ¬ (l0 ≤ p ∧ p ≤ ln) := by
        rcases hor with h' | h'
        · exact absurd h' hout
        · exact h'
      have : (decide (l0 ≤ p) && decide (p ≤ ln)) = false := by
        simpa using hnc
      simp only [this, Bool.false_eq_true, ↓reduceIte]
      exact ih' _

/-! the outcome of `plan` for a selection of whole rows `l0r..lnr` that exist -/

/-- for the selection `renumber` passes, `plan` does not panic: it refuses for one of four reasons or succeeds -/
theorem plan_outcome (allTxt : List Nat) (defs refs : List (Nat × Label)) (p : Params) (rows : List (List Nat))
    (l0r lnr : Nat) (l : List Nat)
    (hsplit : splitLines allTxt = rows) (hl : rows[lnr]? = some l) (hle : l0r ≤ lnr)
    (h1 : p.minNum ≤ p.l0 ∧ p.l0 ≤ p.maxNum) (h2 : 1 ≤ p.dl ∧ p.dl ≤ p.maxNum) :
    let sel : Range := ⟨⟨l0r, 0⟩, ⟨lnr, l.length⟩⟩
    (plan allTxt defs refs (some ⟨⟨l0r, 0⟩, ⟨lnr + 1, 0⟩⟩) p = .err ∧
      ((selGroup sel defs).length < 1 ∨ lastNum p sel defs > p.maxNum ∨
        checkLoop sel p.l0 (lastNum p sel defs) (group defs) 0 = none ∨
        ∃ ins0, checkLoop sel p.l0 (lastNum p sel defs) (group defs) 0 = some ins0 ∧ p.allowMove = false ∧
          pushBlank rows 0 ins0 ≠ l0r)) ∨
    (∃ pl, plan allTxt defs refs (some ⟨⟨l0r, 0⟩, ⟨lnr + 1, 0⟩⟩) p = .ok pl ∧ pl.sel = sel) := by
  intro sel
  have hlt : lnr < rows.length := by
    rcases Nat.lt_or_ge lnr rows.length with h' | h'
    · exact h'
    · rw [List.getElem?_eq_none h'] at hl; cases hl
  obtain ⟨last, hlast⟩ : ∃ last, rows.getLast? = some last := by
    cases hr : rows.getLast? with
    | none => rw [List.getLast?_eq_none_iff] at hr; rw [hr] at hlt; simp at hlt
    | some x => exact ⟨x, rfl⟩
  unfold plan
  simp only [hsplit]
  rw [if_neg (by omega), if_neg (by omega)]
  simp only [hlast]
  have hn : normSel rows ⟨rows.length - 1, last.length⟩ (some ⟨⟨l0r, 0⟩, ⟨lnr + 1, 0⟩⟩) = .ok sel := by
    unfold normSel
    simp only [Nat.add_sub_cancel, true_and, hl]
    rw [if_pos (by omega)]
  simp only [hn, Res.bind]
  rw [if_neg (by simp only [sel]; omega)]
  by_cases c1 : (selGroup sel defs).length < 1
  · left; rw [if_pos c1]; exact ⟨rfl, Or.inl c1⟩
  rw [if_neg c1]
  by_cases c2 : p.l0 + p.dl * ((selGroup sel defs).length - 1) > p.maxNum
  · left; rw [if_pos c2]; exact ⟨rfl, Or.inr (Or.inl c2)⟩
  rw [if_neg c2]
  cases hck : checkLoop sel p.l0 (p.l0 + p.dl * ((selGroup sel defs).length - 1)) (group defs) 0 with
  | none => left; exact ⟨rfl, Or.inr (Or.inr (Or.inl hck))⟩
  | some ins0 =>
    simp only []
    by_cases c3 : (!p.allowMove && decide (pushBlank rows 0 ins0 ≠ sel.s.line)) = true
    · left
      rw [if_pos c3]
      simp only [Bool.and_eq_true, Bool.not_eq_true', decide_eq_true_eq] at c3
      exact ⟨rfl, Or.inr (Or.inr (Or.inr ⟨ins0, hck, c3.1, c3.2⟩))⟩
    · right
      rw [if_neg c3]
      exact ⟨_, rfl, rfl⟩

end A2Verif.Lemmas.Renumber
