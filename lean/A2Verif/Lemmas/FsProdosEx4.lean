import A2Verif.Lemmas.FsProdosEx1
/-!
Non-vacuity of the theorems about `put` that need more than `SInv`: the acceptance theorem `prodos_fits_is_accepted` and the
C01 corollary `prodos_get_returns_last_put`, on the formatted 10-block volume with the sparse file image `exF`.
-/
namespace A2Verif.FsProdos
open A2Verif.Fs.Prodos

theorem exF_ok : PutOk exF exTime := exF_args.toOk (by decide)

/-- the hypotheses of `prodos_fits_is_accepted` are met by the formatted volume and the sparse image `exF`: the walk of the
volume directory is `[2, 3, 4, 5]` with no file, the name is not listed, a slot is free, 3 blocks (2 data, 1 index) are needed
and 3 are free -/
example : ∃ d3 d4 v4, put exF exTime repaired (formatted 10) = (.ok exF.eof, d3) ∧ d3.flush = (.ok (), d4) ∧ SInv d4 ∧
    Read.ProdosT.read d4.raw = .ok v4 ∧
    stepOk prodosParams (volOf (formatted 10).raw) (.put (upper (upper (str "a"))) exF.chunks exF.eof 6 (0 + 256 * 0x20)) true v4 = true ∧
    v4.label = (volOf (formatted 10).raw).label ∧ v4.freeUnits.length + blocksNeeded exF = (volOf (formatted 10).raw).freeUnits.length := by
  obtain ⟨v, fsL, ch, hr, ht, _⟩ := formatted10_sinv.ctx
  have hch : (match Read.ProdosT.readTree (formatted 10).raw (hdrTotal (formatted 10).raw) with
      | .ok p => p.2 == [2, 3, 4, 5]
      | .error _ => false) = true := by decide +kernel
  rw [ht] at hch
  have hch' : ch = [2, 3, 4, 5] := by simpa using hch
  subst hch'
  have hslot : ((dirSlots (formatted 10).raw 2 [2, 3, 4, 5]).find? isFreeSlot).isSome = true := by decide +kernel
  obtain ⟨x, hx⟩ := Option.isSome_iff_exists.mp hslot
  rw [volOf_eq hr]
  exact prodos_fits_is_accepted formatted10_sinv v fsL [2, 3, 4, 5] hr ht exF exTime (upper (str "a")) exF_ok
    (normalizePath_simple _ _ (by decide) (by decide) (by decide) (volName_len _)) (by decide) (by decide)
    (by decide +kernel) x hx (by rw [← volOf_eq hr]; decide +kernel)

/-- the hypotheses of `prodos_get_returns_last_put` are met: the `put` of `exF` is accepted on the formatted volume, and a
history that does not name `A` follows -/
example : ∃ g, (volOf (finalDisk (formatted 10) [.put exF exTime, .lock (str "b"), .delete (str "c")]).raw).lookup
      (nameOf (volName (hdrOf (formatted 10).raw)) exF.fullPath) = some g ∧
    chunksMatch exF.chunks g.chunks = true ∧ g.eof = exF.eof ∧ g.isDir = false ∧ g.ftype = 6 ∧ g.aux = 0 + 256 * 0x20 :=
  prodos_get_returns_last_put exF exTime [.lock (str "b"), .delete (str "c")] (formatted 10) formatted10_sinv
    (by
      intro op hop
      simp only [List.mem_cons, List.not_mem_nil, or_false] at hop
      rcases hop with rfl | rfl | rfl <;>
        exact ⟨Or.inl (rootPath_simple _ _ (by decide) (by decide) (by decide)),
          fun p t a h => (by cases h),
          fun f t h => (by cases h <;> exact exF_args),
          fun p t h => (by cases h)⟩)
    (renFiles_of_no_rename _ _ _ (by
      intro op hop p n
      simp only [List.mem_cons, List.not_mem_nil, or_false] at hop
      rcases hop with rfl | rfl | rfl <;> intro h <;> cases h))
    (by decide +kernel)
    (by
      intro op hop
      simp only [List.mem_cons, List.not_mem_nil, or_false] at hop
      rcases hop with rfl | rfl <;> decide +kernel)

end A2Verif.FsProdos
