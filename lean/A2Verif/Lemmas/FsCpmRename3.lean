import A2Verif.Lemmas.FsCpmXname
/-!
# `rename` refines the abstract `rename` (new name spelled canonically)
-/
namespace A2Verif.FsCpm
open A2Verif.Fs.Cpm
open A2Verif.Read.Cpm (Dpb fileKey extNum entryPtrs pathOf slots trimR)

/-- what a successful `split_user_filename` says about the spelling -/
theorem split_ok {x name : Bytes} {u : Nat} (h : splitUserFilename x = .ok (u, name)) :
    u < 16 ∧ x = if x.contains 58 then decDigits u ++ [58] ++ name else name := by
  unfold splitUserFilename at h
  have hspec := splitOn_spec 58 x
  split at h
  next y hy =>
    cases h
    rw [hy] at hspec
    have e : x = y := hspec.2
    have hn : 58 ∉ x := by rw [e]; exact hspec.1 y List.mem_cons_self
    refine ⟨by decide, ?_⟩
    rw [if_neg (by simpa using hn)]
  next p0 p1 rest hy =>
    split at h
    next user hp =>
      split at h
      next hc =>
        cases h
        simp only [Bool.and_eq_true, decide_eq_true_eq, List.isEmpty_iff, beq_iff_eq] at hc
        obtain ⟨⟨hu, hr⟩, hp0⟩ := hc
        rw [hy, hr] at hspec
        obtain ⟨t, e1, e2⟩ := hspec.2
        have ht := splitOn_spec 58 t
        rw [e2] at ht
        have et : t = name := ht.2
        refine ⟨hu, ?_⟩
        rw [e1, et, hp0]
        rw [if_pos (by simp)]
      · cases h
    · cases h
  next hy => exact absurd hy (splitOn_ne_nil 58 x)

theorem split_user_lt {x name : Bytes} {u : Nat} (h : splitUserFilename x = .ok (u, name)) : u < 16 := (split_ok h).1

theorem pathOfKeyStr_key {u : Nat} (hu : u < 16) (nm : Bytes) :
    pathOfKeyStr (decDigits u ++ [58] ++ nm) = if u = 0 then nm else decDigits u ++ [58] ++ nm := by
  unfold pathOfKeyStr
  rcases decDigits_cases ⟨u, hu⟩ with ⟨h0, hd⟩ | ⟨h0, hd, hl⟩
  · simp only at h0 hd
    rw [if_pos h0, hd]
    simp
  · simp only at h0 hd hl
    rw [if_neg h0, if_neg]
    intro hc
    apply hd
    rw [List.take_append_of_le_length hl] at hc
    exact hc

theorem getFile_none_canon {x : Bytes} {files : List FileInfo} (h : getFile x files = none) : lookupKey files (canonKey x) = none := by
  unfold getFile at h
  unfold canonKey
  simp only [] at h ⊢
  generalize (if x.contains 46 = true then trimEnd x else trimEnd x ++ [46]) = t at h ⊢
  split at h
  · cases h
  · split at h
    · cases h
    next h2 =>
      split at h
      next hc => rw [if_pos hc]; exact h2
      next hc =>
        rw [if_neg hc]
        split at h
        · cases h
        · exact h

theorem entOf_ne_nil {files : List FileInfo} {k : Bytes} (h : entOf files k ≠ []) : ∃ fi, lookupKey files k = some fi := by
  unfold entOf at h
  unfold lookupKey
  cases hf : files.find? (fun fi => fi.key == k) with
  | none => rw [hf] at h; exact absurd rfl h
  | some fi => exact ⟨fi, rfl⟩

/-- if `get_file` does not find a canonically spelled name, no file entry carries its key -/
theorem fresh_of_getFile_none {d : Dpb} {r : Raw} {v3 : Bool} {files : List FileInfo} {x name base ext : Bytes} {u : Nat}
    (h : Inv d r) (hb : buildFiles d v3 (dirOf d r) = .ok files) (hg : getFile x files = none) (hu : u < 16)
    (np : NameParts name base ext) (hck : canonKey x = decDigits u ++ [58] ++ (upper base ++ [46] ++ upper ext)) :
    newKey u (stringToFileName name).1 (stringToFileName name).2 ∉ keys d r := by
  intro hk
  obtain ⟨e, he, hke⟩ := mem_keys.1 hk
  have hl := dirOf_entry_length h.shape h.dpb
  have hle := hl e (mem_fents.1 he).1
  have hokB : ∀ c ∈ upper base, okChar c = true := by
    intro c hc
    unfold upper at hc
    rw [List.mem_map] at hc
    obtain ⟨c0, hc0, rfl⟩ := hc
    exact (charOk_facts (np.ok c0 (List.mem_append_left _ hc0))).1
  have hokE : ∀ c ∈ upper ext, okChar c = true := by
    intro c hc
    unfold upper at hc
    rw [List.mem_map] at hc
    obtain ⟨c0, hc0, rfl⟩ := hc
    exact (charOk_facts (np.ok c0 (List.mem_append_right _ hc0))).1
  have hm : ∀ (B : Bytes) (n : Nat), (∀ c ∈ B, okChar c = true) → (padTo n B).map (· % 128) = padTo n B := by
    intro B n hB
    apply map_mod_fix
    intro c hc
    unfold padTo at hc
    rcases List.mem_append.1 hc with hc | hc
    · have := okChar_lt c (hB c (List.mem_of_mem_take hc)); omega
    · rw [List.eq_of_mem_replicate hc]
  rw [np.s2fn] at hke
  unfold newKey at hke
  simp only [] at hke
  rw [hm _ _ hokB, hm _ _ hokE, key_split] at hke
  simp only [List.cons.injEq] at hke
  obtain ⟨hu0, hnt⟩ := hke
  obtain ⟨hn, ht⟩ := List.append_inj hnt (by rw [(fields_len hle).1, padTo_length])
  have hlb : (upper base).length ≤ 8 := by unfold upper; rw [List.length_map]; exact np.lb
  have hlx : (upper ext).length ≤ 3 := by unfold upper; rw [List.length_map]; exact np.le
  have hmk : modelKey e = canonKey x := by
    rw [modelKey_eq (h.clean e he), hu0, hck]
    unfold nmOf
    rw [hn, ht]
    have p1 : padTo 8 (upper base) = upper base ++ List.replicate (8 - (upper base).length) 32 := by
      unfold padTo; rw [List.take_of_length_le hlb]
    have p2 : padTo 3 (upper ext) = upper ext ++ List.replicate (3 - (upper ext).length) 32 := by
      unfold padTo; rw [List.take_of_length_le hlx]
    rw [p1, p2, trimR_pad hokB, trimR_pad hokE]
  obtain ⟨j, hj, ej⟩ := List.mem_iff_getElem.1 (mem_fents.1 he).1
  have hgj : (dirOf d r)[j]? = some e := by rw [List.getElem?_eq_getElem hj, ej]
  obtain ⟨j', _, hm'⟩ := (buildFiles_spec hb).complete j hj e hgj ((isExtent_iff e).2 (mem_fents.1 he).2)
  obtain ⟨fi, hfi⟩ := entOf_ne_nil (k := modelKey e) (fun hnil => by rw [hnil] at hm'; cases hm')
  rw [hmk, getFile_none_canon hg] at hfi
  cases hfi

theorem xnameOk_parts {x : Bytes} (h : xnameOk x = true) : ∃ u name, splitUserFilename x = .ok (u, name) ∧
    isNameValid name = true ∧ x = if x.contains 58 then decDigits u ++ [58] ++ name else name := by
  unfold xnameOk at h
  cases hs : splitUserFilename x with
  | error e => rw [hs] at h; cases h
  | ok un =>
    obtain ⟨u, name⟩ := un
    rw [hs] at h
    simp only [Bool.and_eq_true, beq_iff_eq] at h
    exact ⟨u, name, rfl, h.1, h.2⟩

/-- **`rename` refines the abstract `rename`** -/
theorem rename_refines {d : Dpb} {r r' : Raw} {oldX newX : Bytes} {res : R Unit} (h : Inv d r)
    (hop : rename d r oldX newX = (res, r')) :
    Inv d r' ∧ stepOk (cpmParams d) (volOf d r) (.rename (canon oldX) (canon newX)) (okB res) (volOf d r') = true := by
  unfold rename Fs.Cpm.modify at hop
  cases hsp : splitUserFilename oldX with
  | error e => rw [hsp] at hop; cases hop; exact refused_same h _
  | ok un =>
    obtain ⟨u0, oldName⟩ := un
    rw [hsp] at hop
    simp only [] at hop
    by_cases cv : (!isNameValid oldName) = true
    · rw [if_pos cv] at hop; cases hop; exact refused_same h _
    rw [if_neg cv, getDirectory_eq h.shape h.dpb] at hop
    simp only [] at hop
    cases hb : buildFiles d d.v3 (dirOf d r) with
    | error e => rw [hb] at hop; cases hop; exact refused_same h _
    | ok files =>
      rw [hb] at hop
      simp only [] at hop
      cases hg : getFile oldX files with
      | none => rw [hg] at hop; cases hop; exact refused_same h _
      | some fi =>
        rw [hg] at hop
        simp only [] at hop
        cases hsplit : splitUserFilename newX with
        | error e => rw [hsplit] at hop; cases hop; exact refused_same h _
        | ok un2 =>
        obtain ⟨u, newName⟩ := un2
        rw [hsplit] at hop
        simp only [] at hop
        by_cases hvalid' : (!isNameValid newName) = true
        · rw [if_pos hvalid'] at hop; cases hop; exact refused_same h _
        rw [if_neg hvalid'] at hop
        have hvalid : isNameValid newName = true := by simpa using hvalid'
        obtain ⟨hu, hcanon⟩ := split_ok hsplit
        obtain ⟨base, ext, np, hck⟩ := canonKey_ok hu hsplit hvalid hcanon
        cases hgn : getFile newX files with
        | some fi2 =>
          rw [hgn] at hop
          simp only [Option.isNone_some, Bool.false_eq_true, ↓reduceIte] at hop
          cases hop; exact refused_same h _
        | none =>
          rw [hgn] at hop
          simp only [Option.isNone_none, ↓reduceIte] at hop
          cases hl1 : renameLoop (dirOf d r) u newName fi.entries with
          | error e => rw [hl1] at hop; cases hop; exact refused_same h _
          | ok dir1 =>
            rw [hl1] at hop
            simp only [] at hop
            cases hl2 : accessLoop dir1 accessNone fi.entries with
            | error e => rw [hl2] at hop; cases hop; exact refused_same h _
            | ok dir2 =>
              rw [hl2] at hop
              simp only [] at hop
              have hfresh := fresh_of_getFile_none h hb hgn hu np hck
              have hokB : ∀ c ∈ upper base, okChar c = true := by
                intro c hc
                unfold upper at hc
                rw [List.mem_map] at hc
                obtain ⟨c0, hc0, rfl⟩ := hc
                exact (charOk_facts (np.ok c0 (List.mem_append_left _ hc0))).1
              have hokE : ∀ c ∈ upper ext, okChar c = true := by
                intro c hc
                unfold upper at hc
                rw [List.mem_map] at hc
                obtain ⟨c0, hc0, rfl⟩ := hc
                exact (charOk_facts (np.ok c0 (List.mem_append_right _ hc0))).1
              have hm : ∀ (B : Bytes) (n : Nat), (∀ c ∈ B, okChar c = true) → (padTo n B).map (· % 128) = padTo n B := by
                intro B n hB
                apply map_mod_fix
                intro c hc
                unfold padTo at hc
                rcases List.mem_append.1 hc with hc | hc
                · have := okChar_lt c (hB c (List.mem_of_mem_take hc)); omega
                · rw [List.eq_of_mem_replicate hc]
              have hlb : (upper base).length ≤ 8 := by unfold upper; rw [List.length_map]; exact np.lb
              have hlx : (upper ext).length ≤ 3 := by unfold upper; rw [List.length_map]; exact np.le
              have hcn : cleanField ((stringToFileName newName).1.map (· % 128)) = true := by
                rw [np.s2fn]; simp only []; rw [hm _ _ hokB]; exact clean_pad hokB hlb
              have hct : cleanField ((stringToFileName newName).2.map (· % 128)) = true := by
                rw [np.s2fn]; simp only []; rw [hm _ _ hokE]; exact clean_pad hokE hlx
              obtain ⟨hres, hinv', hstep⟩ := rename_core h hb hg hu hcn hct hfresh hl1 hl2 hop
              subst hres
              refine ⟨hinv', ?_⟩
              -- the new path is `canon newX`
              have hnp : newPath u (stringToFileName newName).1 (stringToFileName newName).2 = canon newX := by
                obtain ⟨hb8, ht3⟩ := s2fn_lengths newName
                have z : (List.replicate 32 0 : Bytes).length = 32 := by simp
                unfold newPath canon
                rw [pathOf_eq (by rw [renF_getD z 0, if_pos rfl]; exact hu), renF_getD z 0, if_pos rfl, renF_name7 z hb8,
                  renF_typ7 z ht3, hck, pathOfKeyStr_key hu, np.s2fn]
                simp only []
                rw [hm _ _ hokB, hm _ _ hokE]
                have p1 : padTo 8 (upper base) = upper base ++ List.replicate (8 - (upper base).length) 32 := by
                  unfold padTo; rw [List.take_of_length_le hlb]
                have p2 : padTo 3 (upper ext) = upper ext ++ List.replicate (3 - (upper ext).length) 32 := by
                  unfold padTo; rw [List.take_of_length_le hlx]
                rw [p1, p2, trimR_pad hokB, trimR_pad hokE]
              rw [hnp] at hstep
              exact hstep

end A2Verif.FsCpm
