import A2Verif.Model.C09Dot2mg
/-!
Lemmas for the 2MG container: header `fromBytes ∘ toBytes = id`, 32-bit little-endian round trip,
slicing a concatenation at the recomputed offsets.
-/
namespace A2Verif.Lemmas.C09Dot2mg
open A2Verif.Model.C09Dot2mg A2Verif.Model.C09Crc A2Verif.Gen.C09Const

theorem splitBy_flatten (fs : List (List Nat)) : splitBy (fs.map List.length) fs.flatten = fs := by
  induction fs with
  | nil => simp [splitBy]
  | cons f fs ih => simp [splitBy, ih]

theorem length_flatten_of (fs : List (List Nat)) (ns : List Nat) (h : fs.map List.length = ns) :
    fs.flatten.length = ns.sum := by
  subst h
  induction fs with
  | nil => simp
  | cons f fs ih => simp [ih]

theorem header_length (h : Header) (hw : h.wf) : h.toBytes.length = 64 := by
  have := length_flatten_of h.fields DOT2MG_FIELDS hw
  simpa [Header.toBytes, DOT2MG_FIELDS] using this

theorem header_roundtrip (h : Header) (hw : h.wf) : Header.fromBytes h.toBytes = some h := by
  have hl := header_length h hw
  unfold Header.fromBytes
  rw [if_neg (by simp [hl])]
  have hs : splitBy DOT2MG_FIELDS h.toBytes = h.fields := by
    have := splitBy_flatten h.fields
    rw [hw] at this
    exact this
  rw [hs]
  cases h
  rfl

theorem rd32_w32 (n : Nat) : rd32 (w32 n) = n % 4294967296 := by
  simp only [rd32, w32, le32, unle32]; omega

theorem slice_mid (a b c : List Nat) : ((a ++ b ++ c).drop a.length).take b.length = b := by
  simp

theorem slice_at (a b c : List Nat) (n m : Nat) (hn : n = a.length) (hm : m = b.length) :
    ((a ++ b ++ c).drop n).take m = b := by
  subst hn; subst hm; exact slice_mid a b c

end A2Verif.Lemmas.C09Dot2mg
