import A2Verif.Lemmas.FsProdosSubP
/-!
# The reading after one slot of a first-level sub-directory has been rewritten

`sub_file_rec`: the record of a file slot of a sub-directory.  `sub_patched_reading`: `patched_reading` one level down — the
slot `(B', k' + 1)` of the sub-directory that slot `(B, k + 1)` of the volume directory leads to is rewritten (the blocks `Own`,
which no other record owns, may change as well; the volume directory's blocks do not change), the buffer `buf3` is written
back.  The reading is the old one with the records of that one slot replaced; every slot of the volume directory is `SlotOk`
again provided the new slot is a `FileSlotOk`.
-/
namespace A2Verif.FsProdos
open A2Verif.Fs.Prodos
open A2Verif.Read.Prodos (entryAt dirChain idxPtr indexEntries readData trimName bitmapFree)
open A2Verif.Read.ProdosT

theorem le16_congr2 (a b : Bytes) (o : Nat) (h0 : a.getD o 0 = b.getD o 0) (h1 : a.getD (o + 1) 0 = b.getD (o + 1) 0) :
    le16 a o = le16 b o := by
  unfold le16; rw [h0, h1]

/-- the sub-directory behind a directory slot of an `Inv` image -/
theorem sub_tail {r : Raw} (hinv : Inv r) (v : Vol) (fsL : List LRec) (ch : List Nat)
    (hread : Read.ProdosT.read r = .ok v) (htree : readTree r (hdrTotal r) = .ok (fsL, ch))
    (x : Bytes × Nat × Nat) (hxm : x ∈ dirSlots r 2 ch) (hd : x.1.getD 0 0 / 16 = 0xD) :
    ∃ sch, dirChain r (hdrTotal r) 1000 (le16 x.1 0x11) [] = .ok sch ∧ SubTail r x sch := by
  obtain ⟨_, _, hroot, _⟩ := root_chain_facts hinv v fsL ch hread htree
  rcases hroot.slots x hxm with hf | ⟨_, hsub⟩
  · rcases hf with h0 | ⟨hst, _⟩
    · rw [h0] at hd; simp at hd
    · omega
  · exact hsub.chain

/-- a file slot of a sub-directory: its records are the one record `readFile` makes -/
theorem sub_file_rec {r : Raw} (hinv : Inv r) (v : Vol) (fsL : List LRec) (ch : List Nat)
    (hread : Read.ProdosT.read r = .ok v) (htree : readTree r (hdrTotal r) = .ok (fsL, ch))
    (x : Bytes × Nat × Nat) (hxm : x ∈ dirSlots r 2 ch) (hd : x.1.getD 0 0 / 16 = 0xD)
    (sch : List Nat) (hc : dirChain r (hdrTotal r) 1000 (le16 x.1 0x11) [] = .ok sch)
    (y : Bytes × Nat × Nat) (hym : y ∈ dirSlots r (le16 x.1 0x11) sch)
    (hst : y.1.getD 0 0 / 16 = 1 ∨ y.1.getD 0 0 / 16 = 2 ∨ y.1.getD 0 0 / 16 = 3) :
    ∃ f, readFile r (hdrTotal r) y.1 (baseRec x.1 []).path = .ok f ∧
      slotRecs 68 r (hdrTotal r) (baseRec x.1 []).path 1 y = [(f, y.2)] ∧
      f.owned = ownedOfEntry r y.1 ∧ ¬ (le16 y.1 0x11 = 0 ∨ le16 y.1 0x11 ≥ hdrTotal r) ∧
      UniformAcc (y.1.getD 30 0) ∧ (y.1.getD 0 0 / 16 = 3 → MasterClean (unitAt r (le16 y.1 0x11))) := by
  obtain ⟨sch0, hc0, hnl, hgeo, hprev, hlen, hhdr, hp1, hp2, hslots⟩ := sub_tail hinv v fsL ch hread htree x hxm hd
  have hse : sch0 = sch := by rw [hc] at hc0; injection hc0 with e; exact e.symm
  subst hse
  obtain ⟨_, _, _, _, _, _, _, _, hall, _⟩ := sub_slot_facts hinv v fsL ch hread htree x hxm hd sch0 hc hgeo y hym
  have hact : isAct y = true := by
    unfold isAct; simp only [ne_eq, decide_eq_true_eq]; omega
  obtain ⟨z, hz⟩ := hall y hym hact
  obtain ⟨f, hzf, hrf, hkey⟩ := RE_file 68 r (hdrTotal r) _ 1 y z hst hz
  subst hzf
  have hfs : (y.1.getD 0 0 / 16 = 1 ∨ y.1.getD 0 0 / 16 = 2 ∨ y.1.getD 0 0 / 16 = 3) ∧ UniformAcc (y.1.getD 30 0) ∧
      (y.1.getD 0 0 / 16 = 3 → MasterClean (unitAt r (le16 y.1 0x11))) := by
    rcases hslots y hym with h0 | h
    · rw [h0] at hst; simp at hst
    · exact h
  refine ⟨f, hrf, ?_, readFile_owned r (hdrTotal r) y.1 _ f hrf hst hfs.2.2, hkey, hfs.2.1, hfs.2.2⟩
  unfold slotRecs; rw [if_pos hact, hz]; rfl

/-- **the reading after one slot of a first-level sub-directory has been rewritten** -/
theorem sub_patched_reading {r r3 : Raw} (hinv : Inv r) (v : Vol) (fsL : List LRec) (ch : List Nat)
    (hread : Read.ProdosT.read r = .ok v) (htree : readTree r (hdrTotal r) = .ok (fsL, ch))
    (ex : Bytes) (B k : Nat) (hxm : (ex, B, k + 1) ∈ dirSlots r 2 ch) (hd : ex.getD 0 0 / 16 = 0xD)
    (sch : List Nat) (hc : dirChain r (hdrTotal r) 1000 (le16 ex 0x11) [] = .ok sch)
    (ey : Bytes) (B' k' : Nat) (hym : (ey, B', k' + 1) ∈ dirSlots r (le16 ex 0x11) sch)
    (Own : List Nat) (p : DirPatchK r r3 (le16 ex 0x11) sch B' k')
    (hroot3 : ∀ b ∈ ch, r3.units[b]? = r.units[b]?)
    (hout : ∀ j, j ∉ ch → j ∉ sch → j ∉ Own → r3.units[j]? = r.units[j]?)
    (hOwn : ∀ u ∈ Own, u ∉ v.allOwned ∨
      u ∈ ((slotRecs 68 r (hdrTotal r) (baseRec ex []).path 1 (ey, B', k' + 1)).map (·.1)).flatMap (·.owned))
    (hshape : ShapeOk r3)
    (s1 s2 : List (Bytes × Nat × Nat)) (hs1 : s1 = sBefore (dirSlots r 2 ch) (B, k + 1)) (hs2 : s2 = sAfter (dirSlots r 2 ch) (B, k + 1))
    (t1 t2 : List (Bytes × Nat × Nat)) (ht1 : t1 = sBefore (dirSlots r (le16 ex 0x11) sch) (B', k' + 1))
    (ht2 : t2 = sAfter (dirSlots r (le16 ex 0x11) sch) (B', k' + 1))
    (e' : Bytes) (he' : e' = entryAt (unitAt r3 B') k' 39)
    (hcnt : le16 (unitAt r3 (le16 ex 0x11)) 37 = ((t1 ++ (e', B', k' + 1) :: t2).filter isAct).length)
    (hnew : isAct (e', B', k' + 1) = true → ∃ z, RE 68 r3 (hdrTotal r) (baseRec ex []).path 1 (e', B', k' + 1) = .ok z)
    (hnewbm : ∀ j ∈ bmRange (hdrBm r) (nbmOf (hdrTotal r)),
      j ∉ ((slotRecs 68 r3 (hdrTotal r) (baseRec ex []).path 1 (e', B', k' + 1)).map (·.1)).flatMap (·.owned))
    (buf3 : Array Nat) (hbs : buf3.size = blockSize * nbmOf (hdrTotal r)) (hbok : BytesOk buf3)
    (fs' : List LRec)
    (hfs' : fs' = s1.flatMap (slotRecs 69 r (hdrTotal r) [] 0) ++
      ((dirRec ex [] sch, B, k + 1) :: (t1.flatMap (slotRecs 68 r (hdrTotal r) (baseRec ex []).path 1) ++
        slotRecs 68 r3 (hdrTotal r) (baseRec ex []).path 1 (e', B', k' + 1) ++
        t2.flatMap (slotRecs 68 r (hdrTotal r) (baseRec ex []).path 1))) ++
      s2.flatMap (slotRecs 69 r (hdrTotal r) [] 0))
    (r4 : Raw) (hr4 : r4 = wbRaw r3 (hdrBm r) (nbmOf (hdrTotal r)) buf3) :
    Read.ProdosT.read r4 = .ok {
      lo := 0, hi := hdrTotal r, sys := v.sys, files := fs'.map (·.1),
      freeUnits := (List.range (hdrTotal r)).filter (freeB buf3), label := v.label } ∧
    readTree r4 (hdrTotal r) = .ok (fs', ch) ∧ hdrTotal r4 = hdrTotal r ∧ hdrBm r4 = hdrBm r ∧
    r4.units.size = r.units.size ∧ ShapeOk r4 ∧ StdGeo r4 2 ∧ PrevOk r4 0 ch ∧
    (FileSlotOk r4 (e', B', k' + 1) → ∀ y ∈ dirSlots r4 2 ch, SlotOk r4 (hdrTotal r4) y) ∧
    (∀ y ∈ dirSlots r4 2 ch, isAct y = true → 47 ∉ trimName y.1) ∧
    (∀ j, j ∉ bmRange (hdrBm r) (nbmOf (hdrTotal r)) → r4.units[j]? = r3.units[j]?) := by
  obtain ⟨hw, hn, hroot, hv, hcr, hic, hnd, hchf, h2, h6, h3, hbt, hstv⟩ := root_chain_facts hinv v fsL ch hread htree
  obtain ⟨hsplit, h1, h2', hfs2, hfiles, hdisj, _, hxown, hall, hcnt0⟩ :=
    slot_split_facts hinv v fsL ch hread htree (ex, B, k + 1) hxm
  simp only at hsplit h1 h2' hfs2 hfiles hdisj hxown
  simp only [← hs1, ← hs2] at hsplit h1 h2' hfs2 hfiles hdisj
  obtain ⟨sch0, hc0, hnl, hgeo, hprev, hlen, hhdr, hp1, hp2, hslots⟩ := sub_tail hinv v fsL ch hread htree (ex, B, k + 1) hxm hd
  simp only at hc0 hnl hgeo hhdr hp1 hp2 hslots
  have hse : sch0 = sch := by rw [hc] at hc0; injection hc0 with e; exact e.symm
  subst hse
  obtain ⟨htsplit, g1, g2, hgx, hsdis, hyown, hschown, _, hsall, hscnt0⟩ :=
    sub_slot_facts hinv v fsL ch hread htree (ex, B, k + 1) hxm hd sch0 hc hgeo (ey, B', k' + 1) hym
  simp only at htsplit g1 g2 hgx hsdis hyown hsall hscnt0
  simp only [← ht1, ← ht2] at htsplit g1 g2 hgx hsdis
  have hsz := hinv.size
  -- blocks of records are not bitmap blocks
  have hnbm : ∀ u ∈ v.allOwned, u ∉ bmRange (hdrBm r) (nbmOf (hdrTotal r)) := by
    intro u hu hm
    have hsysj : u ∈ v.sys := by
      rw [hv]; simp only
      rw [mem_bmRange] at hm
      apply List.mem_append_right
      rw [List.mem_map]; exact ⟨u - hdrBm r, List.mem_range.mpr (by omega), by omega⟩
    have hndw := (wfB_iff.1 hw).2.1
    rw [List.nodup_append] at hndw
    exact hndw.2.2 _ hu _ hsysj rfl
  have hnch : ∀ u ∈ v.allOwned, u ∉ ch := fun u hu hm => (hchf u hm).2.2.1 hu
  -- the slot of the volume directory
  obtain ⟨b0, hb0, k0, hk13, hkey, hxe⟩ := mem_dirSlots.mp hxm
  obtain ⟨hexeq, hBb⟩ : ex = entryAt (unitAt r B) k 39 ∧ B ∈ ch := by
    have e1 := (Prod.mk.inj hxe).1
    have e2 := (Prod.mk.inj (Prod.mk.inj hxe).2)
    have : B = b0 := e2.1
    have : k = k0 := by have := e2.2; omega
    subst_vars
    exact ⟨rfl, hb0⟩
  have hu3 : ∀ b ∈ ch, unitAt r3 b = unitAt r b := fun b hb => unitAt_congr (hroot3 b hb)
  have he0 : ex = entryAt (unitAt r3 B) k 39 := by rw [hu3 B hBb]; exact hexeq
  have hshapech : ∀ b ∈ ch, (unitAt r b).length = 512 ∧ ∀ x ∈ unitAt r b, x < 256 := by
    intro b hb
    have hbl : b < r.units.size := by rw [← hsz]; exact (hchf b hb).1
    exact hinv.shape.unit hbl
  have p0 : DirPatch r r3 ch B k := by
    refine ⟨p.size, ?_, ?_, ?_, ?_⟩
    · intro b hb; rw [hu3 b hb]; exact ⟨rfl, rfl⟩
    · intro j _; rw [hu3 2 h2]
    · intro b hb k'' _ _ _; rw [hu3 b hb]
    · intro b hb; rw [hu3 b hb]; exact hshapech b hb
  have hactx : isAct (ex, B, k + 1) = true := by unfold isAct; simp only [ne_eq, decide_eq_true_eq]; omega
  obtain ⟨z, hz⟩ := hall _ hxm hactx
  -- the records of the other slots of the sub-directory are read as before
  have hagree : ∀ y ∈ t1 ++ t2, isAct y = true → ∀ zy, RE 68 r (hdrTotal r) (baseRec ex []).path 1 y = .ok zy →
      Agree r r3 (zy.flatMap (·.1.owned)) := by
    intro y hy hya zy hzy j hj
    have hgy : slotRecs 68 r (hdrTotal r) (baseRec ex []).path 1 y = zy := by unfold slotRecs; rw [if_pos hya, hzy]; rfl
    have hju : j ∈ ((slotRecs 68 r (hdrTotal r) (baseRec ex []).path 1 y).map (·.1)).flatMap (·.owned) := by
      rw [hgy, List.flatMap_map]; exact hj
    obtain ⟨ja, jx, js⟩ := hsdis y hy j hju
    apply hout j (hnch j ja) js
    intro hjo
    rcases hOwn j hjo with a | a
    · exact a ja
    · exact jx a
  obtain ⟨hRE3, hslots3⟩ := sub_reading (r := r) (r3 := r3) (total := hdrTotal r) (ex, B, k + 1) hd z hz hgeo ey B' k' sch0 hc hym p
    (by simp only [← ht1, ← ht2]; exact hagree) (by simp only [← ht1, ← ht2, ← he']; exact hcnt)
    (by simp only [← he']; exact hnew)
  simp only [← ht1, ← ht2, ← he'] at hRE3 hslots3
  have hsr3 : slotRecs 69 r3 (hdrTotal r) [] 0 (ex, B, k + 1) =
      (dirRec ex [] sch0, B, k + 1) :: (t1.flatMap (slotRecs 68 r (hdrTotal r) (baseRec ex []).path 1) ++
        slotRecs 68 r3 (hdrTotal r) (baseRec ex []).path 1 (e', B', k' + 1) ++
        t2.flatMap (slotRecs 68 r (hdrTotal r) (baseRec ex []).path 1)) := by
    unfold slotRecs; rw [if_pos hactx, hRE3]; rfl
  have hcnt3 : le16 (unitAt r3 2) 37 = ((s1 ++ (ex, B, k + 1) :: s2).filter isAct).length := by
    rw [hu3 2 h2, ← hcnt0, hsplit]
  have hother : ∀ (l : List (Bytes × Nat × Nat)), (∀ y ∈ l, y ∈ t1 ++ t2) → ∀ j,
      j ∈ ((l.flatMap (slotRecs 68 r (hdrTotal r) (baseRec ex []).path 1)).map (·.1)).flatMap (·.owned) → j ∈ v.allOwned := by
    intro l hl j hmm
    rw [List.flatMap_map, List.flatMap_assoc, List.mem_flatMap] at hmm
    obtain ⟨y, hy, hjy⟩ := hmm
    have : j ∈ ((slotRecs 68 r (hdrTotal r) (baseRec ex []).path 1 y).map (·.1)).flatMap (·.owned) := by
      rw [List.flatMap_map]; exact hjy
    exact (hsdis y (hl y hy) j this).1
  obtain ⟨hrd4, htree4, htot4, hbm4, hsz4, hshape4, hgeo4, hprev4, hslots4, hslotok4, hsame4⟩ :=
    patched_reading hinv v fsL ch hread htree ex B k hxm (sch0 ++ Own) p0
      (fun j hjc hjo => hout j hjc (fun hm => hjo (List.mem_append_left _ hm)) (fun hm => hjo (List.mem_append_right _ hm)))
      (fun u hu => by
        rcases List.mem_append.mp hu with a | a
        · right; rw [hgx]; simp only [List.map_cons, List.flatMap_cons]
          exact List.mem_append_left _ a
        · rcases hOwn u a with b | b
          · exact Or.inl b
          · right; rw [hgx]
            simp only [List.map_cons, List.flatMap_cons, List.map_append, List.flatMap_append]
            exact List.mem_append_right _ (List.mem_append_left _ (List.mem_append_right _ b)))
      hshape s1 s2 hs1 hs2 ex he0 hcnt3 (fun _ => ⟨_, hRE3⟩)
      (fun j hj => by
        rw [hsr3]
        simp only [List.map_cons, List.flatMap_cons, List.map_append, List.flatMap_append]
        intro hm
        rcases List.mem_append.mp hm with a | a
        · exact hnbm j (hschown j a) hj
        · rcases List.mem_append.mp a with a1 | a2
          · rcases List.mem_append.mp a1 with a11 | a12
            · exact hnbm j (hother t1 (fun y hy => List.mem_append_left _ hy) j a11) hj
            · exact hnewbm j hj a12
          · exact hnbm j (hother t2 (fun y hy => List.mem_append_right _ hy) j a2) hj)
      buf3 hbs hbok fs' (by rw [hfs', hsr3]) r4 hr4
  refine ⟨hrd4, htree4, htot4, hbm4, hsz4, hshape4, hgeo4, hprev4, ?_,
    by rw [hslots4, ← hsplit]; exact hroot.names, hsame4⟩
  intro hfok y hy
  rw [hslots4] at hy
  have hothers : ∀ y ∈ s1 ++ s2, SlotOk r4 (hdrTotal r4) y := hslotok4
  rcases List.mem_append.mp hy with a | a
  · exact hothers y (List.mem_append_left _ a)
  · rcases List.mem_cons.mp a with rfl | a'
    · -- the directory slot: its sub-directory in the new image
      refine Or.inr ⟨hd, ?_⟩
      have hschnb : ∀ b ∈ sch0, b ∉ bmRange (hdrBm r) (nbmOf (hdrTotal r)) := fun b hb => hnbm b (hschown b hb)
      have hu4 : ∀ b ∈ sch0, unitAt r4 b = unitAt r3 b := fun b hb => unitAt_congr (hsame4 b (hschnb b hb))
      have hk0 : le16 ex 0x11 ≠ 0 := by
        obtain ⟨_, _, _, _, hk0, _⟩ := dir_slot_facts (x := (ex, B, k + 1)) hd hz hgeo
        exact hk0
      have hK : le16 ex 0x11 ∈ sch0 := dirChain_start_mem r (hdrTotal r) 1000 _ sch0 hk0 hc
      have hc3 := p.chain (hdrTotal r) hc
      have hc4 : dirChain r4 (hdrTotal r4) 1000 (le16 ex 0x11) [] = .ok sch0 := by
        rw [htot4]
        apply dirChain_congr r3 r4 (hdrTotal r) 1000 _ [] sch0 hc3
        intro j hj blk hb
        refine ⟨blk, ?_, rfl⟩
        unfold Raw.unit at hb ⊢
        rw [hsame4 j (hschnb j hj)]; exact hb
      apply SubOk.of hc4
      refine ⟨hnl, ?_, ?_, hlen, ?_, ?_, ?_, ?_⟩
      · have := p.geo hgeo
        unfold StdGeo at this ⊢; simp only; rw [hu4 _ hK]; exact this
      · exact prevOk_congr r3 r4 sch0 0 (fun b hb => by rw [hu4 b hb]) (p.prev hprev)
      · simp only; rw [hu4 _ hK, p.hdr 4 (Or.inl (by omega))]; exact hhdr
      · simp only
        rw [hu4 _ hK, le16_congr2 _ _ 39 (p.hdr 39 (Or.inr (by omega))) (p.hdr 40 (Or.inr (by omega)))]; exact hp1
      · simp only; rw [hu4 _ hK, p.hdr 41 (Or.inr (by omega))]; exact hp2
      · simp only
        rw [dirSlots_congr_units r3 r4 _ sch0 hu4, hslots3]
        intro y' hy'
        have hold : ∀ y'' ∈ t1 ++ t2, FileSlotOk r4 y'' := by
          intro y'' hy''
          have hym'' : y'' ∈ dirSlots r (le16 ex 0x11) sch0 := by
            rw [htsplit]
            rcases List.mem_append.mp hy'' with a | a
            · exact List.mem_append_left _ a
            · exact List.mem_append_right _ (List.mem_cons_of_mem _ a)
          rcases hslots y'' hym'' with h0 | ⟨hstf, hua, hcl⟩
          · exact Or.inl h0
          · refine Or.inr ⟨hstf, hua, ?_⟩
            intro h3'
            obtain ⟨f, hrf, hgy, _, _, _, _⟩ :=
              sub_file_rec hinv v fsL ch hread htree (ex, B, k + 1) hxm hd sch0 hc y'' hym'' hstf
            have hkm := readFile_key_mem r (hdrTotal r) y''.1 _ f hrf
            have hmem : le16 y''.1 0x11 ∈ ((slotRecs 68 r (hdrTotal r) (baseRec ex []).path 1 y'').map (·.1)).flatMap (·.owned) := by
              rw [hgy]; simp only [List.map_cons, List.map_nil, List.flatMap_cons, List.flatMap_nil, List.append_nil]
              exact hkm
            obtain ⟨ja, jx, js⟩ := hsdis y'' hy'' _ hmem
            have : r4.units[le16 y''.1 0x11]? = r.units[le16 y''.1 0x11]? := by
              rw [hsame4 _ (hnbm _ ja)]
              apply hout _ (hnch _ ja) js
              intro hjo
              rcases hOwn _ hjo with a | a
              · exact a ja
              · exact jx a
            rw [unitAt_congr this]; exact hcl h3'
        rcases List.mem_append.mp hy' with a | a
        · exact hold y' (List.mem_append_left _ a)
        · rcases List.mem_cons.mp a with rfl | a'
          · exact hfok
          · exact hold y' (List.mem_append_right _ a')
    · exact hothers y (List.mem_append_right _ a')

end A2Verif.FsProdos
