import A2Verif.Model.PackRec
import A2Verif.Lemmas.PackText
/-! Helper lemmas for the JSON round trip of `FileImage`. -/
namespace A2Verif.Packing

theorem hexDec_hexEncUp (b : Bytes) (hb : ∀ x ∈ b, x < 256) : hexDec (hexEncUp b) = some b := by
  induction b with
  | nil => rfl
  | cons x r ih =>
    have hx : x < 256 := hb x (List.mem_cons_self ..)
    have hr := ih (fun y hy => hb y (List.mem_cons_of_mem _ hy))
    unfold hexEncUp at hr ⊢
    rw [List.flatMap_cons]
    simp only [List.cons_append, List.nil_append, hexDec]
    rw [hexDig_hexUp _ (by omega), hexDig_hexUp _ (by omega), hr]
    simp only []
    congr 2
    omega

theorem parseDecAux_decDigitsAux : ∀ (fuel m : Nat) (acc : List Nat), m < fuel →
    parseDecAux (decDigitsAux fuel m acc) 0 = parseDecAux acc m := by
  intro fuel
  induction fuel with
  | zero => intro m acc h; omega
  | succ fuel ih =>
    intro m acc h
    unfold decDigitsAux
    by_cases hm : m < 10
    · rw [if_pos hm]
      simp only [parseDecAux]
      rw [if_pos (by omega)]
      congr 1
      omega
    · rw [if_neg hm, ih (m / 10) _ (by omega)]
      simp only [parseDecAux]
      rw [if_pos (by omega)]
      congr 1
      omega

theorem decDigitsAux_head : ∀ (fuel m : Nat) (acc : List Nat), m < fuel →
    ∃ c r, decDigitsAux fuel m acc = c :: r ∧ 48 ≤ c ∧ c ≤ 57 := by
  intro fuel
  induction fuel with
  | zero => intro m acc h; omega
  | succ fuel ih =>
    intro m acc h
    unfold decDigitsAux
    by_cases hm : m < 10
    · rw [if_pos hm]; exact ⟨48 + m, acc, rfl, by omega, by omega⟩
    · rw [if_neg hm]; exact ih (m / 10) _ (by omega)

theorem parseDec_decStr (n : Nat) : parseDec (decStr n) = some n := by
  unfold decStr
  obtain ⟨c, r, he, h1, h2⟩ := decDigitsAux_head (n + 1) n [] (by omega)
  have hp := parseDecAux_decDigitsAux (n + 1) n [] (by omega)
  rw [he] at hp ⊢
  unfold parseDec
  split
  · rename_i heq; cases heq
  · rename_i r' heq; cases heq; omega
  · rw [hp]; rfl

/-- all keys of the association list are below `k` -/
def KeysBelow (cs : List (Nat × Bytes)) (k : Nat) : Prop := ∀ p ∈ cs, p.1 < k

theorem insertChunk_append (cs : List (Nat × Bytes)) (k : Nat) (v : Bytes) (h : KeysBelow cs k) :
    insertChunk cs k v = cs ++ [(k, v)] := by
  induction cs with
  | nil => rfl
  | cons p r ih =>
    obtain ⟨k', v'⟩ := p
    have hk : k' < k := h (k', v') (List.mem_cons_self ..)
    have hr : KeysBelow r k := fun q hq => h q (List.mem_cons_of_mem _ hq)
    simp only [insertChunk, List.cons_append]
    rw [if_neg (by omega), if_neg (by omega), ih hr]

theorem getChunk_none_of_below (cs : List (Nat × Bytes)) (k : Nat) (h : KeysBelow cs k) : getChunk cs k = none := by
  induction cs with
  | nil => rfl
  | cons p r ih =>
    obtain ⟨k', v'⟩ := p
    have hk : k' < k := h (k', v') (List.mem_cons_self ..)
    have hr : KeysBelow r k := fun q hq => h q (List.mem_cons_of_mem _ hq)
    simp only [getChunk]
    rw [if_neg (by omega), ih hr]

/-- keys strictly increasing -/
def SortedKeys : List (Nat × Bytes) → Prop
  | [] => True
  | [_] => True
  | p :: q :: r => p.1 < q.1 ∧ SortedKeys (q :: r)

theorem SortedKeys.tail {p : Nat × Bytes} {r : List (Nat × Bytes)} (h : SortedKeys (p :: r)) : SortedKeys r := by
  cases r with
  | nil => trivial
  | cons q r => exact h.2

theorem SortedKeys.head_lt {p : Nat × Bytes} {r : List (Nat × Bytes)} (h : SortedKeys (p :: r)) :
    ∀ q ∈ r, p.1 < q.1 := by
  induction r generalizing p with
  | nil => intro q hq; cases hq
  | cons a r ih =>
    intro q hq
    rcases List.mem_cons.mp hq with e | hm
    · subst e; exact h.1
    · exact Nat.lt_trans h.1 (ih h.2 q hm)

theorem parseChunks_roundtrip (jc : JsonChk) : ∀ (cs acc : List (Nat × Bytes)),
    SortedKeys cs → (∀ p ∈ cs, KeysBelow acc p.1) → (∀ p ∈ cs, ∀ x ∈ p.2, x < 256) →
    (jc = .bounded → ∀ p ∈ cs, p.1 ≤ maxChunkIndex) →
    parseChunks jc (cs.map (fun (p : Nat × Bytes) => (decStr p.1, J.str (hexEncUp p.2)))) acc = some (acc ++ cs) := by
  intro cs
  induction cs with
  | nil => intro acc _ _ _ _; simp [parseChunks]
  | cons p r ih =>
    intro acc hs hb hx hi
    obtain ⟨k, v⟩ := p
    have hbk : KeysBelow acc k := hb (k, v) (List.mem_cons_self ..)
    have hidx : ¬ (jc = .bounded ∧ maxChunkIndex < k) := by
      rintro ⟨h1, h2⟩
      have := hi h1 (k, v) (List.mem_cons_self ..)
      simp only at this
      omega
    simp only [List.map_cons, parseChunks, parseDec_decStr, J.asStr]
    rw [if_neg hidx, hexDec_hexEncUp v (hx (k, v) (List.mem_cons_self ..))]
    simp only [getChunk_none_of_below acc k hbk, Option.isSome_none]
    rw [insertChunk_append acc k v hbk]
    have := ih (acc ++ [(k, v)]) hs.tail
      (fun q hq => by
        intro a ha
        rcases List.mem_append.mp ha with h1 | h1
        · exact Nat.lt_trans (hbk a h1) (hs.head_lt q hq)
        · simp only [List.mem_singleton] at h1; subst h1; exact hs.head_lt q hq)
      (fun q hq => hx q (List.mem_cons_of_mem _ hq))
      (fun hb' q hq => hi hb' q (List.mem_cons_of_mem _ hq))
    simp only [Bool.false_eq_true, if_false]
    rw [this]
    simp

/-! ### `Records` ↔ JSON -/

theorem stripCr_id (l : Bytes) (h : 13 ∉ l) : stripCr l = l := by
  unfold stripCr
  cases hr : l.reverse with
  | nil => rfl
  | cons a r =>
    have ha : a ∈ l := by
      have : a ∈ l.reverse := by rw [hr]; exact List.mem_cons_self ..
      exact List.mem_reverse.mp this
    have : a ≠ 13 := fun e => h (e ▸ ha)
    split
    · rename_i r' heq
      simp only [List.cons.injEq] at heq
      exact absurd heq.1 this
    · rfl

/-- `lines()` followed by re-joining with `\n` is the identity on texts whose lines all end in `\n`
and contain no CR -/
theorem joinLines_linesAux : ∀ (s cur : Bytes), 13 ∉ cur → 13 ∉ s → (s = [] → cur = []) →
    (s ≠ [] → s.getLast? = some 10) →
    joinLines ((linesAux s cur).map J.str) = some (cur.reverse ++ s) := by
  intro s
  induction s with
  | nil =>
    intro cur _ _ h _
    rw [h rfl]
    simp [linesAux, joinLines]
  | cons c r ih =>
    intro cur hc hs _ hl
    have hc13 : c ≠ 13 := fun e => hs (e ▸ List.mem_cons_self ..)
    have hr13 : 13 ∉ r := fun m => hs (List.mem_cons_of_mem _ m)
    have hlast := hl (by simp)
    by_cases h10 : c = 10
    · subst h10
      simp only [linesAux, if_true, List.map_cons, joinLines, J.asStr]
      have hrl : r ≠ [] → r.getLast? = some 10 := by
        intro hne
        cases r with
        | nil => exact absurd rfl hne
        | cons a r' => rw [List.getLast?_cons_cons] at hlast; exact hlast
      rw [ih [] (by simp) hr13 (fun _ => rfl) hrl]
      rw [stripCr_id _ (by simpa using hc)]
      simp
    · simp only [linesAux, h10, if_false]
      have hrne : r ≠ [] := by
        intro e
        subst e
        simp at hlast
        exact h10 hlast
      have hrl : r ≠ [] → r.getLast? = some 10 := by
        intro _
        cases r with
        | nil => exact absurd rfl hrne
        | cons a r' => rw [List.getLast?_cons_cons] at hlast; exact hlast
      rw [ih (c :: cur) (by
          intro m
          rcases List.mem_cons.mp m with e | m'
          · exact hc13 e.symm
          · exact hc m') hr13 (fun e => absurd e hrne) hrl]
      simp

/-- a record text as `Records::from_json` produces them: no CR, and if non-empty it ends in `\n` -/
def RecTextOk (t : Bytes) : Prop := 13 ∉ t ∧ (t ≠ [] → t.getLast? = some 10)

theorem joinLines_strLines (t : Bytes) (h : RecTextOk t) : joinLines ((strLines t).map J.str) = some t := by
  have := joinLines_linesAux t [] (by simp) h.1 (fun _ => rfl) h.2
  simpa [strLines] using this

theorem parseRecs_roundtrip : ∀ (rs acc : List (Nat × Bytes)),
    SortedKeys rs → (∀ p ∈ rs, KeysBelow acc p.1) → (∀ p ∈ rs, RecTextOk p.2) →
    parseRecs (rs.map (fun (p : Nat × Bytes) => (decStr p.1, J.arr ((strLines p.2).map J.str)))) acc = some (acc ++ rs) := by
  intro rs
  induction rs with
  | nil => intro acc _ _ _; simp [parseRecs]
  | cons p r ih =>
    intro acc hs hb hx
    obtain ⟨k, v⟩ := p
    have hbk : KeysBelow acc k := hb (k, v) (List.mem_cons_self ..)
    simp only [List.map_cons, parseRecs, parseDec_decStr, J.members]
    rw [joinLines_strLines v (hx (k, v) (List.mem_cons_self ..))]
    simp only []
    rw [insertChunk_append acc k v hbk]
    have := ih (acc ++ [(k, v)]) hs.tail
      (fun q hq => by
        intro a ha
        rcases List.mem_append.mp ha with h1 | h1
        · exact Nat.lt_trans (hbk a h1) (hs.head_lt q hq)
        · simp only [List.mem_singleton] at h1; subst h1; exact hs.head_lt q hq)
      (fun q hq => hx q (List.mem_cons_of_mem _ hq))
    rw [this]
    simp

end A2Verif.Packing
