import A2Verif.Lemmas.SrvInv
/-!
The stateful-analyzer model `stepS` refines the text-function model `step` when `analyze` resets
its state.
-/
namespace A2Verif.Srv

theorem viewOf_eq_alone {A : Analyzer} (h : A.resets) (a : AState) : viewOf A a = A.alone := by
  funext t
  exact h a t

theorem stepS_refines {A : Analyzer} (h : A.resets) {ss ss' : SState} {e : Event}
    (hs : stepS A ss e = some ss') : step A.alone ss.srv e = some ss'.srv := by
  unfold stepS at hs
  rw [viewOf_eq_alone h ss.shared] at hs
  have hfresh : viewOf A A.fresh = A.alone := rfl
  try rw [hfresh] at hs
  split at hs
  · split at hs
    · cases hs
    · split at hs
      · simp only [Option.map_eq_some_iff] at hs
        obtain ⟨s1, h1, h2⟩ := hs
        rw [← h2]
        exact h1
      · simp only [Option.map_eq_some_iff] at hs
        obtain ⟨s1, h1, h2⟩ := hs
        rw [← h2]
        exact h1
  · simp only [Option.map_eq_some_iff] at hs
    obtain ⟨s1, h1, h2⟩ := hs
    rw [← h2]
    exact h1

theorem runS_refines {A : Analyzer} (h : A.resets) {evs : List Event} : ∀ {ss ss' : SState},
    runS A ss evs = some ss' → run A.alone ss.srv evs = some ss'.srv := by
  induction evs with
  | nil => intro ss ss' hr; simp only [runS, Option.some.injEq] at hr; subst hr; rfl
  | cons e evs ih =>
    intro ss ss' hr
    simp only [runS] at hr
    cases hs : stepS A ss e with
    | none => simp [hs] at hr
    | some ss1 =>
      simp only [hs] at hr
      simp only [run, stepS_refines h hs]
      exact ih hr

end A2Verif.Srv
