import A2Verif.Lemmas.TrackFmt
/-!
The cell lemmas of `Lemmas/Track.lean` once more, now with the *bit pointer* (`Trk.pos`) accounted for and
with a start that may stand inside the leading zero bits of the first cell (the state right after
`format`: pointer 0 is behind the zero bits that close the last sync byte of the track).

`StK n t X q k`: the cells ahead of the head are `X` (once around the track, `n` bits), the head stands `k`
bits inside the first cell, and the cell boundary in front of `X` is at absolute bit `q` (mod `n`).
`St` is `StK` with `k = 0`.
-/
namespace A2Verif.Model.Track
open Head

/-- bits of a run of cells -/
def blen (cs : List Cell) : Nat := (stream cs).length

theorem blen_nil : blen [] = 0 := rfl

theorem blen_cons (c : Cell) (cs : List Cell) : blen (c :: cs) = c.1 + 8 + blen cs := by
  simp [blen, stream_cons, cellBits, bitsOf_length]; omega

theorem blen_append (a b : List Cell) : blen (a ++ b) = blen a + blen b := by
  simp [blen, stream_append]

def StK (n : Nat) (t : Trk) (X : List Cell) (q k : Nat) : Prop :=
  t.bits = (stream X).drop k ++ (stream X).take k ∧ blen X = n ∧ 0 < n ∧ t.pos = (q + k) % n

def St (n : Nat) (t : Trk) (X : List Cell) (q : Nat) : Prop := StK n t X q 0

/-- `k` is at most the number of leading zero bits of the first cell -/
def SlackOk (k : Nat) (X : List Cell) : Prop := k = 0 ∨ ∃ c X', X = c :: X' ∧ k ≤ c.1

theorem St.bits {n t X q} (h : St n t X q) : t.bits = stream X := by
  have := h.1; simpa using this

theorem St.mk' {n : Nat} {t : Trk} {X : List Cell} {q : Nat} (hb : t.bits = stream X) (hn : blen X = n) (h0 : 0 < n)
    (hp : t.pos = q % n) : St n t X q := ⟨by simpa using hb, hn, h0, by simpa using hp⟩

theorem slackOk_zero (X : List Cell) : SlackOk 0 X := Or.inl rfl

/-! ## the pointer under the primitive operations -/

def PosAt (t : Trk) (n q : Nat) : Prop := t.bits.length = n ∧ 0 < n ∧ t.pos = q % n

theorem next_posAt (t : Trk) (n q : Nat) (h : PosAt t n q) : PosAt (next t).2 n (q + 1) := by
  obtain ⟨h1, h2, h3⟩ := h
  cases t with
  | mk bits pos =>
    cases bits with
    | nil => simp at h1; omega
    | cons b rest =>
      simp only at h1 h3
      refine ⟨by simp [next_cons]; simpa using h1, h2, ?_⟩
      simp only [next_cons]
      have : rest.length + 1 = n := by simpa using h1
      rw [this, h3, Nat.mod_add_mod]

theorem put_posAt (x : Bool) (t : Trk) (n q : Nat) (h : PosAt t n q) : PosAt (put x t) n (q + 1) := by
  obtain ⟨h1, h2, h3⟩ := h
  cases t with
  | mk bits pos =>
    cases bits with
    | nil => simp at h1; omega
    | cons b rest =>
      simp only at h1 h3
      have hl : rest.length + 1 = n := by simpa using h1
      show PosAt ⟨rest ++ [x], (pos + 1) % (rest.length + 1)⟩ n (q + 1)
      refine ⟨by simpa using hl, h2, ?_⟩
      simp only
      rw [hl, h3, Nat.mod_add_mod]

theorem writeBits_posAt (xs : List Bool) : ∀ (t : Trk) (n q : Nat), PosAt t n q → PosAt (writeBits xs t) n (q + xs.length) := by
  induction xs with
  | nil => intro t n q h; simpa [writeBits] using h
  | cons x xs ih =>
    intro t n q h
    have := ih (put x t) n (q + 1) (put_posAt x t n q h)
    simp only [writeBits, List.length_cons]
    rw [show q + (xs.length + 1) = q + 1 + xs.length by omega]
    exact this

theorem readVal_posAt : ∀ (k v : Nat) (t : Trk) (n q : Nat), PosAt t n q → PosAt (readVal k v t).2 n (q + k) := by
  intro k
  induction k with
  | zero => intro v t n q h; simpa [readVal] using h
  | succ k ih =>
    intro v t n q h
    have := ih ((v * 2 + (if (next t).1 then 1 else 0)) % 256) (next t).2 n (q + 1) (next_posAt t n q h)
    simp only [readVal]
    rw [show q + (k + 1) = q + 1 + k by omega]
    exact this

theorem skipZeros_posAt : ∀ (fuel : Nat) (t : Trk) (n q : Nat), PosAt t n q →
    PosAt (skipZeros fuel t).2 n (q + (skipZeros fuel t).1) := by
  intro fuel
  induction fuel with
  | zero => intro t n q h; simpa [skipZeros] using h
  | succ fuel ih =>
    intro t n q h
    have hn := next_posAt t n q h
    simp only [skipZeros]
    split
    · simpa using hn
    · have := ih (next t).2 n (q + 1) hn
      simp only
      rw [show q + ((skipZeros fuel (next t).2).1 + 1) = q + 1 + (skipZeros fuel (next t).2).1 by omega]
      exact this

theorem skipZeros_count : ∀ (z fuel : Nat) (t : Trk) (rest : List Bool), t.bits = List.replicate z false ++ true :: rest →
    z < fuel → (skipZeros fuel t).1 = z + 1 := by
  intro z
  induction z with
  | zero =>
    intro fuel t rest h hf
    rcases fuel with _ | fuel
    · omega
    · obtain ⟨h1, _⟩ := next_bits t true rest (by simpa using h)
      simp [skipZeros, h1]
  | succ z ih =>
    intro fuel t rest h hf
    rcases fuel with _ | fuel
    · omega
    · obtain ⟨h1, h2⟩ := next_bits t false (List.replicate z false ++ true :: rest) (by simpa [List.replicate_succ] using h)
      simp only [skipZeros, h1, Bool.false_eq_true, if_false]
      rw [ih fuel (next t).2 (rest ++ [false]) (by rw [h2]; simp) (by omega)]

/-- the latch on `z` zero bits, a byte `b ≥ 0x80`, then `rest` -/
theorem readLatch1_gen (t : Trk) (z b : Nat) (rest : List Bool) (n q : Nat) (hb1 : 128 ≤ b) (hb2 : b < 256)
    (h : t.bits = List.replicate z false ++ bitsOf b 8 ++ rest) (hp : PosAt t n q) :
    (readLatch1 t).1 = b ∧ (readLatch1 t).2.bits = rest ++ List.replicate z false ++ bitsOf b 8 ∧
    PosAt (readLatch1 t).2 n (q + (z + 8)) := by
  obtain ⟨b1, b2, b3⟩ := bits8_latch ⟨b, hb2⟩ hb1
  simp only at b1 b2 b3
  have hbits : t.bits = List.replicate z false ++ true :: ((bitsOf b 8).tail ++ rest) := by
    rw [h]; conv => lhs; rw [b1]
    simp
  have hlen : z < len t := by rw [len_eq, hbits]; simp
  have hs := skipZeros_bits z (len t) t _ hbits hlen
  have hc := skipZeros_count z (len t) t _ hbits hlen
  have hsp := skipZeros_posAt (len t) t n q hp
  rw [hc] at hsp
  have htl : (bitsOf b 8).tail.length = 7 := by rw [List.length_tail, b3]
  obtain ⟨r1, r2⟩ := readVal_bits 7 1 (skipZeros (len t) t).2 (bitsOf b 8).tail
    (rest ++ List.replicate z false ++ [true]) (by rw [hs]; simp) htl
  have hrp := readVal_posAt 7 1 (skipZeros (len t) t).2 n (q + (z + 1)) hsp
  refine ⟨by simp only [readLatch1]; rw [r1, b2], ?_, ?_⟩
  · simp only [readLatch1]; rw [r2]; conv => rhs; rw [b1]
    simp
  · simp only [readLatch1]
    rw [show q + (z + 8) = q + (z + 1) + 7 by omega]
    exact hrp

theorem StK.posAt {n t X q k} (h : StK n t X q k) : PosAt t n (q + k) := by
  obtain ⟨h1, h2, h3, h4⟩ := h
  refine ⟨?_, h3, h4⟩
  rw [h1, ← h2, blen]
  simp
  omega

/-- **first cell, possibly from inside its leading zeros** -/
theorem readLatch1_stk (n : Nat) (t : Trk) (c : Cell) (cs : List Cell) (q k : Nat) (hv : ValidCell c) (hk : k ≤ c.1)
    (h : StK n t (c :: cs) q k) :
    (readLatch1 t).1 = c.2 ∧ St n (readLatch1 t).2 (cs ++ [c]) (q + blen [c]) := by
  have hp := h.posAt
  obtain ⟨h1, h2, h3, h4⟩ := h
  have hb : t.bits = List.replicate (c.1 - k) false ++ bitsOf c.2 8 ++ (stream cs ++ List.replicate k false) := by
    rw [h1, stream_cons, cellBits]
    have e1 : (List.replicate c.1 false ++ bitsOf c.2 8 ++ stream cs).drop k =
        List.replicate (c.1 - k) false ++ bitsOf c.2 8 ++ stream cs := by
      rw [List.append_assoc, List.drop_append_of_le_length (by simpa using hk)]
      simp
    have e2 : (List.replicate c.1 false ++ bitsOf c.2 8 ++ stream cs).take k = List.replicate k false := by
      rw [List.append_assoc, List.take_append_of_le_length (by simpa using hk)]
      simp [List.take_replicate, Nat.min_eq_left hk]
    rw [e1, e2]; simp
  obtain ⟨r1, r2, r3⟩ := readLatch1_gen t (c.1 - k) c.2 _ n (q + k) hv.1 hv.2 hb hp
  refine ⟨r1, St.mk' ?_ ?_ h3 ?_⟩
  · rw [r2, stream_append, stream_cons, cellBits]
    have : List.replicate k false ++ List.replicate (c.1 - k) false = List.replicate c.1 false := by
      rw [List.replicate_append_replicate]; congr 1; omega
    simp [stream, ← this]
  · rw [← h2]; simp [blen_append, blen_cons, blen_nil]; omega
  · rw [r3.2.2]; congr 1; simp [blen_cons, blen_nil]; omega

theorem readLatch1_st (n : Nat) (t : Trk) (c : Cell) (cs : List Cell) (q : Nat) (hv : ValidCell c)
    (h : St n t (c :: cs) q) :
    (readLatch1 t).1 = c.2 ∧ St n (readLatch1 t).2 (cs ++ [c]) (q + blen [c]) :=
  readLatch1_stk n t c cs q 0 hv (Nat.zero_le _) h

theorem readLatchN_st (n : Nat) : ∀ (pre : List Cell) (t : Trk) (cs : List Cell) (q : Nat), (∀ c ∈ pre, ValidCell c) →
    St n t (pre ++ cs) q →
    (readLatchN pre.length t).1 = pre.map (·.2) ∧ St n (readLatchN pre.length t).2 (cs ++ pre) (q + blen pre) := by
  intro pre
  induction pre with
  | nil => intro t cs q _ h; simpa [readLatchN, blen_nil] using h
  | cons c pre ih =>
    intro t cs q hv h
    obtain ⟨l1, l2⟩ := readLatch1_st n t c (pre ++ cs) q (hv c (by simp)) (by simpa using h)
    obtain ⟨r1, r2⟩ := ih (readLatch1 t).2 (cs ++ [c]) (q + blen [c]) (fun x hx => hv x (by simp [hx])) (by simpa using l2)
    simp only [List.length_cons, readLatchN, List.map_cons]
    refine ⟨by rw [l1, r1], ?_⟩
    have e : q + blen (c :: pre) = q + blen [c] + blen pre := by simp [blen_cons, blen_nil]; omega
    rw [e]; simpa using r2

/-! ## the pattern search -/

theorem findPatLoop_advance_st (n : Nat) (patt mask : List Nat) (cap : Option Nat) : ∀ (pre : List Cell) (fuel tries m m' : Nat)
    (t : Trk) (cs : List Cell) (q k : Nat), (∀ c ∈ pre, ValidCell c) → StK n t (pre ++ cs) q k → SlackOk k (pre ++ cs) →
    runM patt mask m (pre.map (·.2)) = some m' → pre.length ≤ fuel → capOk cap (tries + pre.length) →
    ∃ t' : Trk, StK n t' (cs ++ pre) (q + blen pre) (if pre = [] then k else 0) ∧
      findPatLoop patt mask cap fuel tries m t = findPatLoop patt mask cap (fuel - pre.length) (tries + pre.length) m' t' := by
  intro pre
  induction pre with
  | nil =>
    intro fuel tries m m' t cs q k _ h _ hr _ _
    simp [runM] at hr; subst hr
    exact ⟨t, by simpa [blen_nil] using h, by simp⟩
  | cons c pre ih =>
    intro fuel tries m m' t cs q k hv h hs hr hf hc
    rcases fuel with _ | fuel
    · simp at hf
    · have hk : k ≤ c.1 := by
        rcases hs with h0 | ⟨c', X', hx, hk⟩
        · omega
        · cases hx; exact hk
      obtain ⟨l1, l2⟩ := readLatch1_stk n t c (pre ++ cs) q k (hv c (by simp)) hk (by simpa using h)
      simp only [List.map_cons, runM] at hr
      split at hr
      · exact absurd hr (by simp)
      · rename_i hne
        have hcap : capped cap tries = false := by
          apply capped_false
          intro c0 h0
          have := hc c0 h0
          simp only [List.length_cons] at this
          omega
        obtain ⟨t', ht', heq⟩ := ih fuel (tries + 1) (stepM patt mask m c.2) m' (readLatch1 t).2 (cs ++ [c]) (q + blen [c]) 0
          (fun x hx => hv x (by simp [hx])) (by simpa [St] using l2) (slackOk_zero _) hr (by simpa using hf)
          (by intro c0 h0; have := hc c0 h0; simp only [List.length_cons] at this; omega)
        refine ⟨t', ?_, ?_⟩
        · have e : q + blen (c :: pre) = q + blen [c] + blen pre := by simp [blen_cons, blen_nil]; omega
          have e2 : (if pre = [] then 0 else 0) = 0 := by split <;> rfl
          rw [e2] at ht'
          simpa [e] using ht'
        · simp only [findPatLoop, hcap, Bool.false_eq_true, if_false, l1]
          have hstep : (if c.2 &&& mask.getD m 0 = patt.getD m 0 &&& mask.getD m 0 then m + 1 else 0) = stepM patt mask m c.2 := rfl
          rw [hstep, if_neg hne, heq]
          simp only [List.length_cons]
          congr 1 <;> omega

theorem slackOk_head {k : Nat} {c : Cell} {X : List Cell} (h : SlackOk k (c :: X)) : k ≤ c.1 := by
  rcases h with h0 | ⟨c', X', hx, hk⟩
  · omega
  · cases hx; exact hk

theorem findPatLoop_hit_st (n : Nat) (patt mask : List Nat) (cap : Option Nat) (fuel tries m : Nat) (t : Trk) (c : Cell)
    (cs : List Cell) (q k : Nat) (hv : ValidCell c) (h : StK n t (c :: cs) q k) (hk : k ≤ c.1)
    (hs : stepM patt mask m c.2 = patt.length) (hc : capOk cap (tries + 1)) :
    (findPatLoop patt mask cap (fuel + 1) tries m t).1 = true ∧
    St n (findPatLoop patt mask cap (fuel + 1) tries m t).2 (cs ++ [c]) (q + blen [c]) := by
  obtain ⟨l1, l2⟩ := readLatch1_stk n t c cs q k hv hk h
  have hcap : capped cap tries = false := capped_false cap tries hc
  have hstep : (if c.2 &&& mask.getD m 0 = patt.getD m 0 &&& mask.getD m 0 then m + 1 else 0) = stepM patt mask m c.2 := rfl
  simp only [findPatLoop, hcap, Bool.false_eq_true, if_false, l1, hstep, hs, if_true]
  exact ⟨trivial, l2⟩

/-- **Pattern search with the pointer.** As `findPat_hit`; the head may start inside the leading zeros
of the first cell. -/
theorem findPat_hit_st (n : Nat) (f : Fmt) (patt mask : List Nat) (cap : Option Nat) (t : Trk) (pre : List Cell) (c : Cell)
    (cs : List Cell) (m q k : Nat) (hp : patt.length ≠ 0) (hv : ∀ x ∈ pre ++ [c], ValidCell x)
    (h : StK n t (pre ++ c :: cs) q k) (hsl : SlackOk k (pre ++ c :: cs))
    (hr : runM patt mask 0 (pre.map (·.2)) = some m)
    (hs : stepM patt mask m c.2 = patt.length) (hf : pre.length + 1 ≤ f.maxTries) (hc : capOk cap (pre.length + 1)) :
    (findPat f patt mask cap t).1 = true ∧ St n (findPat f patt mask cap t).2 (cs ++ pre ++ [c]) (q + blen (pre ++ [c])) := by
  obtain ⟨t', ht', heq⟩ := findPatLoop_advance_st n patt mask cap pre f.maxTries 0 0 m t (c :: cs) q k
    (fun x hx => hv x (by simp [hx])) h hsl hr (by omega) (by intro c0 h0; have := hc c0 h0; omega)
  simp only [findPat, if_neg hp, heq]
  obtain ⟨j, hj⟩ : ∃ j, f.maxTries - pre.length = j + 1 := ⟨f.maxTries - pre.length - 1, by omega⟩
  rw [hj]
  have hk' : (if pre = [] then k else 0) ≤ c.1 := by
    split
    · rename_i hnil; subst hnil; exact slackOk_head (by simpa using hsl)
    · omega
  obtain ⟨r1, r2⟩ := findPatLoop_hit_st n patt mask cap j (0 + pre.length) m t' c (cs ++ pre) (q + blen pre) _ (hv c (by simp))
    (by simpa using ht') hk' hs (by intro c0 h0; have := hc c0 h0; omega)
  refine ⟨r1, ?_⟩
  have e : q + blen (pre ++ [c]) = q + blen pre + blen [c] := by rw [blen_append]; omega
  rw [e]; simpa using r2

end A2Verif.Model.Track
