import A2Verif.Lemmas.FsProdosOpCtx
/-!
# A sub-directory after one of its slots has been rewritten

`DirPatchK r r' key ch B k`: `DirPatch` for the directory with key block `key` (the volume directory is `key = 2`).
`sub_reading`: the records the reader makes of the directory entry `x` of the volume directory after slot `(B', k' + 1)` of
its sub-directory was rewritten — the directory's record, the records of the other files as before, the records of the new slot.
-/
namespace A2Verif.FsProdos
open A2Verif.Fs.Prodos
open A2Verif.Read.Prodos (entryAt dirChain idxPtr indexEntries readData trimName bitmapFree)
open A2Verif.Read.ProdosT

structure DirPatchK (r r' : Raw) (key : Nat) (ch : List Nat) (B k : Nat) : Prop where
  size : r'.units.size = r.units.size
  links : ∀ b ∈ ch, le16 (unitAt r' b) 0 = le16 (unitAt r b) 0 ∧ le16 (unitAt r' b) 2 = le16 (unitAt r b) 2
  hdr : ∀ j, (4 ≤ j ∧ j ≤ 36) ∨ (39 ≤ j ∧ j ≤ 42) → (unitAt r' key).getD j 0 = (unitAt r key).getD j 0
  ents : ∀ b ∈ ch, ∀ k', k' < 13 → (b = key → 1 ≤ k') → (b, k' + 1) ≠ (B, k + 1) →
    entryAt (unitAt r' b) k' 39 = entryAt (unitAt r b) k' 39
  shape : ∀ b ∈ ch, (unitAt r' b).length = 512 ∧ ∀ x ∈ unitAt r' b, x < 256

theorem DirPatchK.chain {r r' : Raw} {key : Nat} {ch : List Nat} {B k : Nat} (p : DirPatchK r r' key ch B k) (total : Nat)
    (hc : dirChain r total 1000 key [] = .ok ch) : dirChain r' total 1000 key [] = .ok ch := by
  obtain ⟨hic, _, _⟩ := dirChain_ok r total 1000 key ch hc
  have hex := hic.exists
  apply dirChain_congr r r' total 1000 key [] ch hc
  intro j hj blk hb
  have hj' : j < r'.units.size := by rw [p.size]; exact hex j hj
  refine ⟨unitAt r' j, raw_unit_ok r' j _ hj', ?_⟩
  rw [(p.links j hj).2, unitAt_of_get (get_of_unit r j _ blk hb)]

theorem DirPatchK.geo {r r' : Raw} {key : Nat} {ch : List Nat} {B k : Nat} (p : DirPatchK r r' key ch B k) (h : StdGeo r key) :
    StdGeo r' key := by
  unfold StdGeo at h ⊢
  rw [p.hdr 35 (Or.inl (by omega)), p.hdr 36 (Or.inl (by omega))]
  exact h

theorem DirPatchK.prev {r r' : Raw} {key : Nat} {ch : List Nat} {B k : Nat} (p : DirPatchK r r' key ch B k) (h : PrevOk r 0 ch) :
    PrevOk r' 0 ch :=
  prevOk_congr r r' ch 0 (fun b hb => (p.links b hb).1) h

theorem DirPatchK.slots {r r' : Raw} {key : Nat} {ch : List Nat} {B k : Nat} (p : DirPatchK r r' key ch B k)
    (s1 s2 : List (Bytes × Nat × Nat)) (e : Bytes) (hsplit : dirSlots r key ch = s1 ++ (e, B, k + 1) :: s2)
    (h1 : ∀ y ∈ s1, y.2 ≠ (B, k + 1)) (h2 : ∀ y ∈ s2, y.2 ≠ (B, k + 1)) :
    dirSlots r' key ch = s1 ++ (entryAt (unitAt r' B) k 39, B, k + 1) :: s2 := by
  rw [dirSlots_change' r r' key ch B (k + 1) p.ents, hsplit, List.map_append, List.map_cons]
  have hmap1 : ∀ (l : List (Bytes × Nat × Nat)), (∀ y ∈ l, y.2 ≠ (B, k + 1)) →
      l.map (fun y => if y.2 = (B, k + 1) then (entryAt (unitAt r' B) (k + 1 - 1) 39, (B, k + 1)) else y) = l := by
    intro l hl
    induction l with
    | nil => rfl
    | cons a l ih =>
      rw [List.map_cons, ih (fun y hy => hl y (List.mem_cons_of_mem _ hy)), if_neg (hl a List.mem_cons_self)]
  rw [hmap1 s1 h1, hmap1 s2 h2]
  simp

/-- **the records of a directory slot after a slot of its sub-directory was rewritten** -/
theorem sub_reading {r r3 : Raw} {total : Nat} (x : Bytes × Nat × Nat) (hd : x.1.getD 0 0 / 16 = 0xD)
    (z : List LRec) (hz : RE 69 r total [] 0 x = .ok z) (hgeo : StdGeo r (le16 x.1 0x11))
    (ey : Bytes) (B' k' : Nat) (sch : List Nat) (hc : dirChain r total 1000 (le16 x.1 0x11) [] = .ok sch)
    (hym : (ey, B', k' + 1) ∈ dirSlots r (le16 x.1 0x11) sch)
    (p : DirPatchK r r3 (le16 x.1 0x11) sch B' k')
    (hagree : ∀ y ∈ sBefore (dirSlots r (le16 x.1 0x11) sch) (B', k' + 1) ++ sAfter (dirSlots r (le16 x.1 0x11) sch) (B', k' + 1),
      isAct y = true → ∀ zy, RE 68 r total (baseRec x.1 []).path 1 y = .ok zy → Agree r r3 (zy.flatMap (·.1.owned)))
    (hcnt : le16 (unitAt r3 (le16 x.1 0x11)) 37 =
      ((sBefore (dirSlots r (le16 x.1 0x11) sch) (B', k' + 1) ++ (entryAt (unitAt r3 B') k' 39, B', k' + 1) ::
        sAfter (dirSlots r (le16 x.1 0x11) sch) (B', k' + 1)).filter isAct).length)
    (hnew : isAct (entryAt (unitAt r3 B') k' 39, B', k' + 1) = true →
      ∃ zy, RE 68 r3 total (baseRec x.1 []).path 1 (entryAt (unitAt r3 B') k' 39, B', k' + 1) = .ok zy) :
    RE 69 r3 total [] 0 x = .ok ((dirRec x.1 [] sch, x.2) ::
      ((sBefore (dirSlots r (le16 x.1 0x11) sch) (B', k' + 1)).flatMap (slotRecs 68 r total (baseRec x.1 []).path 1) ++
        slotRecs 68 r3 total (baseRec x.1 []).path 1 (entryAt (unitAt r3 B') k' 39, B', k' + 1) ++
        (sAfter (dirSlots r (le16 x.1 0x11) sch) (B', k' + 1)).flatMap (slotRecs 68 r total (baseRec x.1 []).path 1))) ∧
    dirSlots r3 (le16 x.1 0x11) sch =
      sBefore (dirSlots r (le16 x.1 0x11) sch) (B', k' + 1) ++ (entryAt (unitAt r3 B') k' 39, B', k' + 1) ::
        sAfter (dirSlots r (le16 x.1 0x11) sch) (B', k' + 1) := by
  obtain ⟨fs, sch', hzeq, hc', hk0, hkt, hused, hrd, hfs, hall, _⟩ := dir_slot_facts hd hz hgeo
  have hse : sch' = sch := by rw [hc] at hc'; injection hc' with e; exact e.symm
  subst hse
  obtain ⟨_, _, hnd⟩ := dirChain_ok r total 1000 _ sch' hc
  obtain ⟨hsplit, h1, h2⟩ := split_canon (dirSlots r (le16 x.1 0x11) sch') (dirSlots_locs_nodup r _ sch' hnd) _ hym
  simp only at hsplit h1 h2
  have hslots3 := p.slots _ _ ey hsplit h1 h2
  have hrd' : readDir (68 + 1) r total (le16 x.1 0x11) (baseRec x.1 []).path (0 + 1) = .ok (fs, sch') := hrd
  have hrd3 := readDir_change_at r r3 total 68 (le16 x.1 0x11) (baseRec x.1 []).path 1 fs sch' hk0 hgeo (p.geo hgeo) hrd'
    (p.chain total hc) (ey, B', k' + 1) _ _ hsplit h1 h2 (entryAt (unitAt r3 B') k' 39) hslots3 (by rw [hslots3]; exact hcnt)
    hagree hnew
  refine ⟨?_, hslots3⟩
  have hkey : ¬ (le16 x.1 0x11 = 0 ∨ le16 x.1 0x11 ≥ total) := by omega
  exact RE_dir_of 69 r3 total [] 0 x _ sch' hd hkey hrd3 hused

/-- **a slot of a sub-directory of an `Inv` image**: the slot list of the sub-directory splits at it, the records of the
directory entry split accordingly, and the blocks of the records of the other slots, of this slot and of the directory's chain
are pairwise different -/
theorem sub_slot_facts {r : Raw} (hinv : Inv r) (v : Vol) (fsL : List LRec) (ch : List Nat)
    (hread : Read.ProdosT.read r = .ok v) (htree : readTree r (hdrTotal r) = .ok (fsL, ch))
    (x : Bytes × Nat × Nat) (hxm : x ∈ dirSlots r 2 ch) (hd : x.1.getD 0 0 / 16 = 0xD)
    (sch : List Nat) (hc : dirChain r (hdrTotal r) 1000 (le16 x.1 0x11) [] = .ok sch) (hgeo : StdGeo r (le16 x.1 0x11))
    (y : Bytes × Nat × Nat) (hym : y ∈ dirSlots r (le16 x.1 0x11) sch) :
    let s1 := sBefore (dirSlots r (le16 x.1 0x11) sch) y.2
    let s2 := sAfter (dirSlots r (le16 x.1 0x11) sch) y.2
    let g := slotRecs 68 r (hdrTotal r) (baseRec x.1 []).path 1
    dirSlots r (le16 x.1 0x11) sch = s1 ++ y :: s2 ∧ (∀ y' ∈ s1, y'.2 ≠ y.2) ∧ (∀ y' ∈ s2, y'.2 ≠ y.2) ∧
      slotRecs 69 r (hdrTotal r) [] 0 x = (dirRec x.1 [] sch, x.2) :: (s1.flatMap g ++ g y ++ s2.flatMap g) ∧
      (∀ y' ∈ s1 ++ s2, ∀ u ∈ ((g y').map (·.1)).flatMap (·.owned),
        u ∈ v.allOwned ∧ u ∉ ((g y).map (·.1)).flatMap (·.owned) ∧ u ∉ sch) ∧
      (∀ u ∈ ((g y).map (·.1)).flatMap (·.owned), u ∈ v.allOwned ∧ u ∉ sch) ∧ (∀ u ∈ sch, u ∈ v.allOwned) ∧
      (((g y).map (·.1)).flatMap (·.owned)).Nodup ∧
      (∀ y' ∈ dirSlots r (le16 x.1 0x11) sch, isAct y' = true → ∃ z, RE 68 r (hdrTotal r) (baseRec x.1 []).path 1 y' = .ok z) ∧
      ((dirSlots r (le16 x.1 0x11) sch).filter isAct).length = le16 (unitAt r (le16 x.1 0x11)) 37 := by
  intro s1 s2 g
  obtain ⟨_, _, _, _, _, _, hxnd, hxown, hall, _⟩ := slot_split_facts hinv v fsL ch hread htree x hxm
  have hact : isAct x = true := by unfold isAct; simp only [ne_eq, decide_eq_true_eq]; omega
  obtain ⟨z, hz⟩ := hall x hxm hact
  obtain ⟨fs, sch', hzeq, hc', hk0, hkt, hused, hrd, hfs, hallsub, hcntsub⟩ := dir_slot_facts hd hz hgeo
  have hse : sch' = sch := by rw [hc] at hc'; injection hc' with e; exact e.symm
  subst hse
  obtain ⟨_, _, hnd⟩ := dirChain_ok r (hdrTotal r) 1000 _ sch' hc
  obtain ⟨hsplit, h1, h2⟩ := split_canon (dirSlots r (le16 x.1 0x11) sch') (dirSlots_locs_nodup r _ sch' hnd) y hym
  have hgx : slotRecs 69 r (hdrTotal r) [] 0 x = z := by unfold slotRecs; rw [if_pos hact, hz]; rfl
  have hfs' : fs = s1.flatMap g ++ g y ++ s2.flatMap g := by
    rw [hfs]
    conv => lhs; rw [hsplit]
    rw [List.flatMap_append, List.flatMap_cons, List.append_assoc]
  have hown : ((slotRecs 69 r (hdrTotal r) [] 0 x).map (·.1)).flatMap (·.owned) =
      sch' ++ ((s1.flatMap (fun y' => ((g y').map (·.1)).flatMap (·.owned))) ++ ((g y).map (·.1)).flatMap (·.owned) ++
        (s2.flatMap (fun y' => ((g y').map (·.1)).flatMap (·.owned)))) := by
    rw [hgx, hzeq, hfs']
    simp only [List.map_cons, List.flatMap_cons, List.map_append, List.flatMap_append, List.map_flatMap, List.flatMap_assoc]
    rfl
  rw [hown] at hxnd hxown
  rw [List.nodup_append] at hxnd
  obtain ⟨_, hnd2, hdis⟩ := hxnd
  rw [List.nodup_append] at hnd2
  obtain ⟨hnd3, hnd4, hdis2⟩ := hnd2
  rw [List.nodup_append] at hnd3
  obtain ⟨hnd5, hnd6, hdis3⟩ := hnd3
  refine ⟨hsplit, h1, h2, by rw [hgx, hzeq, hfs'], ?_, ?_, ?_, hnd6, hallsub, hcntsub⟩
  · intro y' hy' u hu
    have hmem1 : ∀ (l : List (Bytes × Nat × Nat)), y' ∈ l → u ∈ l.flatMap (fun y' => ((g y').map (·.1)).flatMap (·.owned)) :=
      fun l hl => List.mem_flatMap.mpr ⟨y', hl, hu⟩
    rcases List.mem_append.mp hy' with a | a
    · have hu1 := hmem1 s1 a
      refine ⟨hxown u (List.mem_append_right _ (List.mem_append_left _ (List.mem_append_left _ hu1))), ?_, ?_⟩
      · intro hu2; exact hdis3 u hu1 u hu2 rfl
      · intro hs; exact hdis u hs u (List.mem_append_left _ (List.mem_append_left _ hu1)) rfl
    · have hu1 := hmem1 s2 a
      refine ⟨hxown u (List.mem_append_right _ (List.mem_append_right _ hu1)), ?_, ?_⟩
      · intro hu2; exact hdis2 u (List.mem_append_right _ hu2) u hu1 rfl
      · intro hs; exact hdis u hs u (List.mem_append_right _ hu1) rfl
  · intro u hu
    refine ⟨hxown u (List.mem_append_right _ (List.mem_append_left _ (List.mem_append_right _ hu))), ?_⟩
    intro hs; exact hdis u hs u (List.mem_append_left _ (List.mem_append_right _ hu)) rfl
  · intro u hu; exact hxown u (List.mem_append_left _ hu)

end A2Verif.FsProdos
