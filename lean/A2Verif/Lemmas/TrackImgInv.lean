import A2Verif.Lemmas.TrackShape
import A2Verif.Lemmas.TrackFormat
/-!
The invariant of a whole NIB / WOZ image (`ImgInv`) and how a track is handed to the track code:
every track buffer is canonically a formatted track (`Canon`), all tracks have the same shape, and the
carried head position is a cell boundary (given by sector number `a` and cell offset `c0`, the same on
every track) plus `k` bits of slack.
-/
namespace A2Verif.Model.TrackImg
open A2Verif.Model.Track A2Verif.Model.Nibble

/-! ## the canonical split at the head and at a target -/

theorem canon_seek (f : Fmt) (vol trk : Nat) (As Bs : List GSec) (cur tgt : GSec) (hmem : tgt ∈ As ++ cur :: Bs) :
    ∃ As' Bs' rest l1, As ++ cur :: Bs = As' ++ tgt :: Bs' ∧ Seek cur tgt (Bs ++ As) rest l1 ∧ rest = Bs' ++ As' ∧
      ∀ (pre fpart fpart' : List Cell), fpart ++ pre = FG f cur →
        ∃ w, blen (gsecsCells f vol trk As ++ addrCells f vol trk cur.id ++ fpart) +
            blen (pre ++ gsecsCells f vol trk l1 ++ addrCells f vol trk tgt.id ++ fpart') =
          blen (gsecsCells f vol trk As' ++ addrCells f vol trk tgt.id ++ fpart') +
            w * blen (gsecsCells f vol trk (As ++ cur :: Bs)) := by
  simp only [List.mem_append, List.mem_cons] at hmem
  rcases hmem with h | h | h
  · -- target in front of the head's sector: once around the origin
    obtain ⟨l1', l2', rfl⟩ := List.append_of_mem h
    refine ⟨l1', l2' ++ cur :: Bs, l2' ++ cur :: (Bs ++ l1'), Bs ++ l1', by simp, Or.inl ⟨l2', by simp, rfl⟩, by simp, ?_⟩
    intro pre fpart fpart' hsp
    refine ⟨1, ?_⟩
    simp only [blen_append, gsecsCells_append, gsecsCells_cons, gsecCells, ← hsp]
    omega
  · subst h
    refine ⟨As, Bs, Bs ++ As, Bs ++ As, rfl, Or.inr ⟨rfl, rfl, rfl⟩, rfl, ?_⟩
    intro pre fpart fpart' hsp
    refine ⟨1, ?_⟩
    simp only [blen_append, gsecsCells_append, gsecsCells_cons, gsecCells, ← hsp]
    omega
  · obtain ⟨l1, l2, rfl⟩ := List.append_of_mem h
    refine ⟨As ++ cur :: l1, l2, (l2 ++ As) ++ cur :: l1, l1, by simp, Or.inl ⟨l2 ++ As, by simp, rfl⟩, by simp, ?_⟩
    intro pre fpart fpart' hsp
    refine ⟨0, ?_⟩
    simp only [blen_append, gsecsCells_append, gsecsCells_cons, gsecCells, ← hsp]
    omega

/-! ## layout and invariant -/

/-- the `bit_count` bits of the track buffer of `cap` bytes at byte offset `off` -/
def trackBits (bytes : List Nat) (off cap n : Nat) : List Bool := (unpack ((bytes.drop off).take cap)).take n

/-- where the 35 whole tracks live: pairwise disjoint buffers of `cap` bytes inside `bytes`, each with
`n ≤ 8 * cap` track bits -/
structure Layout (img : TrackImg) (offs : Nat → Nat) (cap n : Nat) : Prop where
  tracks : numTracks img = .ok 35
  loc : ∀ t, t < 35 → locate img t = .ok (offs t, cap, n)
  inb : ∀ t, t < 35 → offs t + cap ≤ img.bytes.length
  disj : ∀ t u, t < 35 → u < 35 → t ≠ u → offs t + cap ≤ offs u ∨ offs u + cap ≤ offs t
  nle : n ≤ 8 * cap
  npos : 0 < n

theorem locate_congr (img img' : TrackImg) (hk : img'.kind = img.kind) (ht : img'.tmap = img.tmap)
    (he : img'.ents = img.ents) (ho : img'.offset = img.offset) (hc : img'.trkCap = img.trkCap)
    (hl : img'.bytes.length = img.bytes.length) (t : Nat) :
    locate img' t = locate img t := by
  unfold locate; rw [hk, ht, he, ho, hc, hl]

theorem numTracks_congr (img img' : TrackImg) (hk : img'.kind = img.kind) (he : img'.ents = img.ents) :
    numTracks img' = numTracks img := by
  unfold numTracks; rw [hk, he]

theorem layout_congr {img img' : TrackImg} {offs : Nat → Nat} {cap n : Nat} (h : Layout img offs cap n)
    (hk : img'.kind = img.kind) (ht : img'.tmap = img.tmap) (he : img'.ents = img.ents) (ho : img'.offset = img.offset)
    (hc : img'.trkCap = img.trkCap) (hl : img'.bytes.length = img.bytes.length) : Layout img' offs cap n :=
  ⟨by rw [numTracks_congr img img' hk he]; exact h.tracks,
   fun t ht' => by rw [locate_congr img img' hk ht he ho hc hl]; exact h.loc t ht',
   fun t ht' => by rw [hl]; exact h.inb t ht', h.disj, h.nle, h.npos⟩

structure ImgInv (img : TrackImg) (offs : Nat → Nat) (cap n vol o : Nat) (gaps ids : List Nat)
    (secs : Nat → List GSec) (a c0 k : Nat) : Prop where
  lay : Layout img offs cap n
  vol_lt : vol < 256
  sync : 8 ≤ (fmtOf img cap).syncBits
  canon : ∀ t, t < 35 → Canon n (trackBits img.bytes (offs t) cap n) o (gsecsCells (fmtOf img cap) vol t (secs t))
  gapsEq : ∀ t, t < 35 → (secs t).map (·.gap) = gaps
  idsEq : ∀ t, t < 35 → (secs t).map (·.id) = ids
  good : ∀ t, t < 35 → ∀ s ∈ secs t, GoodG (fmtOf img cap) s
  nodup : ids.Nodup
  len : ids.length ≤ 32
  ha : a < ids.length
  hc0 : c0 ≤ 16 + (fmtOf img cap).dataNibs + gaps.getD a 0
  ptr : startPtr img n = (o + headBits (fmtOf img cap) gaps a c0 + k) % n
  slack : SlackOk k ((FG (fmtOf img cap) (refSec (fmtOf img cap) (gaps.getD a 0))).drop c0)
  kle : k ≤ n

theorem slackOk_append {k : Nat} {X : List Cell} (Y : List Cell) (h : SlackOk k X) : SlackOk k (X ++ Y) := by
  rcases h with h0 | ⟨c, X', hx, hk⟩
  · exact Or.inl h0
  · subst hx; exact Or.inr ⟨c, X' ++ Y, rfl, hk⟩

theorem length_FG (f : Fmt) (s : GSec) (hg : GoodFld f s.fld) : (FG f s).length = 16 + f.dataNibs + s.gap := by
  simp only [FG, List.length_append, length_gfield f s.fld hg, syncCells_length]

/-- **Handing a track to the track code.**  Under `ImgInv` the track `t`, loaded at the carried head
position, is in state `GFmt`: the head is in sector number `a` of the track, `c0` cells into its data
area + gap, at the same absolute boundary on every track. -/
theorem access_gfmt {img : TrackImg} {offs : Nat → Nat} {cap n vol o : Nat} {gaps ids : List Nat}
    {secs : Nat → List GSec} {a c0 k : Nat} (inv : ImgInv img offs cap n vol o gaps ids secs a c0 k)
    (t : Nat) (ht : t < 35) :
    ∃ As cur Bs, secs t = As ++ cur :: Bs ∧ As.length = a ∧
      GFmt n (fmtOf img cap) vol t (TrackRep.load (trackBits img.bytes (offs t) cap n) (startPtr img n) : Trk)
        cur (Bs ++ As) ((FG (fmtOf img cap) cur).drop c0) ((FG (fmtOf img cap) cur).take c0)
        (o + headBits (fmtOf img cap) gaps a c0) k := by
  have hlen : (secs t).length = ids.length := by
    have := congrArg List.length (inv.idsEq t ht); simpa using this
  have ha : a < (secs t).length := by rw [hlen]; exact inv.ha
  -- split at sector number a
  have hsplit : secs t = (secs t).take a ++ (secs t)[a] :: (secs t).drop (a + 1) := by
    conv => lhs; rw [← List.take_append_drop a (secs t)]
    rw [List.drop_eq_getElem_cons ha]
  generalize hAs : (secs t).take a = As at hsplit
  generalize hcur : (secs t)[a] = cur at hsplit
  generalize hBs : (secs t).drop (a + 1) = Bs at hsplit
  have hAl : As.length = a := by rw [← hAs, List.length_take]; omega
  have hgood : ∀ s ∈ As ++ cur :: Bs, GoodG (fmtOf img cap) s := by rw [← hsplit]; exact inv.good t ht
  have hgc : GoodG (fmtOf img cap) cur := hgood cur (by simp)
  have hgaps : (As ++ cur :: Bs).map (·.gap) = gaps := by rw [← hsplit]; exact inv.gapsEq t ht
  have hcg : cur.gap = gaps.getD a 0 := by
    rw [← hgaps, List.map_append, List.getD_eq_getElem?_getD, ← hAl, List.getElem?_append_right (by simp)]
    simp
  refine ⟨As, cur, Bs, hsplit, hAl, ?_⟩
  -- the canonical buffer, rotated to the head boundary
  have hc := inv.canon t ht
  rw [hsplit] at hc
  have hX : gsecsCells (fmtOf img cap) vol t (As ++ cur :: Bs) =
      (gsecsCells (fmtOf img cap) vol t As ++ addrCells (fmtOf img cap) vol t cur.id ++ (FG (fmtOf img cap) cur).take c0) ++
      ((FG (fmtOf img cap) cur).drop c0 ++ gsecsCells (fmtOf img cap) vol t Bs) := by
    simp only [gsecsCells_append, gsecsCells_cons, gsecCells, List.append_assoc]
    congr 2
    rw [← List.append_assoc, List.take_append_drop]
  rw [hX] at hc
  have hr := canon_rotate _ _ hc
  rw [headBits_eq (fmtOf img cap) vol t As Bs cur c0 (fun s hs => (hgood s hs).2.1), hgaps, hAl] at hr
  have hst := stk_of_canon hr k inv.kle
  rw [← inv.ptr] at hst
  refine ⟨List.take_append_drop _ _, ?_, ?_, ?_, ?_, ?_⟩
  · simpa [ahead, gsecsCells_append, List.append_assoc] using hst
  · have h1 : SlackOk k ((FG (fmtOf img cap) cur).drop c0) := by
      refine slackOk_widths ?_ inv.slack
      rw [widths_drop, widths_drop, widths_FG (fmtOf img cap) _ cur (goodFld_ref _ _) hgc.2.1 (by simp [refSec, hcg])]
    simpa [ahead, List.append_assoc] using slackOk_append _ h1
  · intro s hs
    apply hgood
    simp only [List.mem_cons, List.mem_append] at hs ⊢
    rcases hs with h | h | h
    · exact Or.inr (Or.inl h)
    · exact Or.inr (Or.inr h)
    · exact Or.inl h
  · have hperm : List.Perm (cur :: (Bs ++ As)) (As ++ cur :: Bs) := by
      have : List.Perm (cur :: (Bs ++ As)) ((cur :: Bs) ++ As) := by simp
      exact this.trans List.perm_append_comm
    have hid : (As ++ cur :: Bs).map (·.id) = ids := by rw [← hsplit]; exact inv.idsEq t ht
    exact ((hperm.map _).nodup_iff).2 (by rw [hid]; exact inv.nodup)
  · have : (As ++ cur :: Bs).length = ids.length := by rw [← hsplit]; exact hlen
    have := inv.len
    simp only [List.length_append, List.length_cons] at *
    omega

end A2Verif.Model.TrackImg
