import A2Verif.Lemmas.C06Dos
/-!
# C06, DOS 3.x: every operation of the object answers the same on a reloaded twin

`Op` lists the operations of the concrete model (`init`, `put`, `delete`, `rename`, `lock`, `unlock`, `retype` and the
queries `get`, `catalog`, `stat`); `op_sim`: on twins (`DSim`) every operation gives the same answer and leads to
twins.  Histories with reloads interleaved anywhere follow by induction (`exec_sim`).

Everything is stated for EVERY source variant `rp : Repairs` of `put` / `write_file` (`Model/Fs/Dos3x.lean`): `{}` = the
source as written at the pinned commit, `Repairs.repaired` = HEAD since f61df96 / 92058e4 (slot search before the T/S-list
sector is reserved, oversize chunk refused) — the variant the harness probe (`fsd variant`) selects.  `rp` is the last,
optional argument (`o.run d`, `exec d steps` are the as-written instances).
-/
namespace A2Verif.Reload.Dos
open A2Verif.Fs.Dos3x

/-- the operations of the DOS 3.x model, queries included -/
inductive Op where
  | init (vol sectors : Nat)
  | put (f : FImg)
  | delete (name : Bytes)
  | rename (old new : Bytes)
  | lock (name : Bytes)
  | unlock (name : Bytes)
  | retype (name : Bytes) (ty : Option Nat)
  | get (name : Bytes)
  | catalog
  | statFree

/-- what an operation answers -/
inductive Out where
  | unit (x : R Unit)
  | nat (x : R Nat)
  | got (x : R Got)
  | rows (x : R (List (Bytes × Nat × Nat)))

/-- run one operation: answer and object afterwards (a query may open the buffer) -/
def Op.run (d : Disk) (o : Op) (rp : Repairs := {}) : Out × Disk :=
  match o with
  | .init vol sectors => let x := Fs.Dos3x.init d vol sectors; (.unit x.1, x.2)
  | .put f => let x := Fs.Dos3x.put d f rp; (.nat x.1, x.2)
  | .delete n => let x := Fs.Dos3x.delete d n; (.unit x.1, x.2)
  | .rename o n => let x := Fs.Dos3x.rename d o n; (.unit x.1, x.2)
  | .lock n => let x := Fs.Dos3x.lock d n; (.unit x.1, x.2)
  | .unlock n => let x := Fs.Dos3x.unlock d n; (.unit x.1, x.2)
  | .retype n t => let x := Fs.Dos3x.retype d n t; (.unit x.1, x.2)
  | .get n => let x := Fs.Dos3x.get d n; (.got x.1, x.2)
  | .catalog => let x := Fs.Dos3x.catalog d; (.rows x.1, x.2)
  | .statFree => let x := Fs.Dos3x.statFree d; (.nat x.1, x.2)

theorem put_sim {d d' : Disk} (h : DSim d d') (f : FImg) (rp : Repairs := {}) :
    (put d' f rp).1 = (put d f rp).1 ∧ DSim (put d f rp).2 (put d' f rp).2 := by
  unfold Fs.Dos3x.put
  by_cases h1 : (!f.fsOk) = true
  · simp only [if_pos h1]; exact ⟨trivial, h⟩
  · simp only [if_neg h1]
    by_cases h2 : f.chunkLen ≠ 256
    · simp only [if_pos h2]; exact ⟨trivial, h⟩
    · simp only [if_neg h2]
      -- the chunk guard of the repaired variant (92058e4) looks at the file image only
      by_cases hg : (rp.chunkGuard && f.chunks.any (fun c => decide (c.2.length > 256))) = true
      · simp only [if_pos hg]; exact ⟨trivial, h⟩
      · simp only [if_neg hg]
        by_cases h3 : (!isNameValid f.fullPath) = true
        · simp only [if_pos h3]; exact ⟨trivial, h⟩
        · simp only [if_neg h3]; exact run_sim (Resp.writeFile f rp) h

theorem modify_sim {d d' : Disk} (h : DSim d d') (name : Bytes) (lk : Option Bool) (nn : Option Bytes) (ft : Option (Option Nat)) :
    (modify d' name lk nn ft).1 = (modify d name lk nn ft).1 ∧ DSim (modify d name lk nn ft).2 (modify d' name lk nn ft).2 := by
  unfold Fs.Dos3x.modify
  by_cases h1 : (!isNameValid name) = true
  · simp only [if_pos h1]; exact ⟨trivial, h⟩
  · simp only [if_neg h1]; exact run_sim (Resp.modifyM name lk nn ft) h

theorem rename_sim {d d' : Disk} (h : DSim d d') (o n : Bytes) :
    (rename d' o n).1 = (rename d o n).1 ∧ DSim (rename d o n).2 (rename d' o n).2 := by
  unfold Fs.Dos3x.rename
  by_cases h1 : (!isNameValid n) = true
  · simp only [if_pos h1]; exact ⟨trivial, h⟩
  · simp only [if_neg h1]
    obtain ⟨e, s⟩ := run_sim (Resp.getTslistSector n) h
    rcases hr : d.run (getTslistSector n) with ⟨x, d1⟩
    rcases hr' : d'.run (getTslistSector n) with ⟨x', d1'⟩
    rw [hr, hr'] at e s
    simp only at e s
    subst e
    rcases x' with e | (_ | y)
    · exact ⟨rfl, s⟩
    · exact modify_sim s o none (some n) none
    · exact ⟨rfl, s⟩

theorem delete_sim {d d' : Disk} (h : DSim d d') (n : Bytes) :
    (delete d' n).1 = (delete d n).1 ∧ DSim (delete d n).2 (delete d' n).2 :=
  run_sim (Resp.deleteM n) h

theorem get_sim {d d' : Disk} (h : DSim d d') (n : Bytes) :
    (get d' n).1 = (get d n).1 ∧ DSim (get d n).2 (get d' n).2 := by
  unfold Fs.Dos3x.get
  by_cases h1 : (nameBytes n).length > 30
  · simp only [if_pos h1]; exact ⟨trivial, h⟩
  · simp only [if_neg h1]; exact run_sim (Resp.getM n) h

theorem catalog_sim {d d' : Disk} (h : DSim d d') :
    (catalog d').1 = (catalog d).1 ∧ DSim (catalog d).2 (catalog d').2 :=
  run_sim Resp.catalogM h

theorem statFree_sim {d d' : Disk} (h : DSim d d') :
    (statFree d').1 = (statFree d).1 ∧ DSim (statFree d).2 (statFree d').2 :=
  run_sim Resp.statFreeM h

/-- writing the VTOC sector of twins gives the same image -/
theorem imgWrite_vtoc_sim {w w' : W} (h : Sim w w') (x : Bytes) :
    ∃ r, imgWrite w.c w.raw vtocTrack 0 x = .ok r ∧ imgWrite w'.c w'.raw vtocTrack 0 x = .ok r ∧ Shaped 256 r := by
  have hi := vtoc_in h.coh
  have hi' := vtoc_in h.coh'
  refine ⟨{ w.raw with units := w.raw.units.setIfInBounds (vtocTrack * w.c) (quantize x) }, ?_, ?_, shaped_write h.coh.shaped _ _⟩
  · unfold imgWrite
    rw [if_neg (by have := h.coh.vtocIn; have := h.coh.cpos; omega), Nat.add_zero, if_pos hi]
  · unfold imgWrite
    rw [if_neg (by have := h.coh'.vtocIn; have := h.coh'.cpos; omega), Nat.add_zero, if_pos hi']
    congr 1
    apply raw_ext
    · exact h.ulen
    · simp only [Array.size_setIfInBounds]; exact h.size
    · intro i
      simp only [Array.getElem?_setIfInBounds, h.c, h.size]
      by_cases hv : vtocTrack * w.c = i
      · simp [hv]
      · simp only [if_neg hv]; exact h.off i (fun e => hv e.symm)

/-- `init` after its argument checks -/
def initTail (vol sectors : Nat) (e : Disk) : R Unit × Disk :=
  match imgWrite e.c e.raw vtocTrack 0 (initVtoc vol sectors) with
  | .error er => (.error er, { e with vtoc := none })
  | .ok r => ({ e with raw := r, vtoc := none } : Disk).run (do writeSectorM (zeros 256) vtocTrack 1; initDirs (rng 2 sectors))

theorem init_eq (d : Disk) (vol sectors : Nat) : init d vol sectors =
    if ¬ (vol > 0 ∧ vol < 255) ∨ ¬ (sectors = 13 ∨ sectors = 16 ∨ sectors = 32) then (.error .panic, d) else initTail vol sectors d := rfl

theorem initTail_self {e : Disk} (hc : Coh e) (vol sectors : Nat) : DSim (initTail vol sectors e).2 (initTail vol sectors e).2 := by
  unfold initTail
  cases hw : imgWrite e.c e.raw vtocTrack 0 (initVtoc vol sectors) with
  | error er => exact DSim.same ⟨hc.shaped, fun v hv => by cases hv⟩
  | ok r =>
    have hs : Shaped 256 r := by
      unfold imgWrite at hw
      split at hw
      · cases hw
      · split at hw
        · cases hw; exact shaped_write hc.shaped _ _
        · cases hw
    exact (run_sim (Resp.initM sectors) (DSim.same ⟨hs, fun v hv => by cases hv⟩)).2

theorem initTail_twin {d d' : Disk} {v : Bytes} (hs : Sim ⟨d.c, d.raw, v⟩ ⟨d'.c, d'.raw, v⟩) (vol sectors : Nat) :
    (initTail vol sectors d').1 = (initTail vol sectors d).1 ∧ DSim (initTail vol sectors d).2 (initTail vol sectors d').2 := by
  obtain ⟨r, e1, e2, hr⟩ := imgWrite_vtoc_sim hs (initVtoc vol sectors)
  simp only at e1 e2
  have hcc : d'.c = d.c := hs.c
  unfold initTail
  rw [e1, e2]
  simp only [hcc]
  exact ⟨trivial, (run_sim (Resp.initM sectors) (DSim.same (d := ⟨r, d.c, none⟩) ⟨hr, fun v hv => by cases hv⟩)).2⟩

theorem init_sim {d d' : Disk} (h : DSim d d') (vol sectors : Nat) :
    (init d' vol sectors).1 = (init d vol sectors).1 ∧ DSim (init d vol sectors).2 (init d' vol sectors).2 := by
  rw [init_eq, init_eq]
  by_cases h1 : ¬ (vol > 0 ∧ vol < 255) ∨ ¬ (sectors = 13 ∨ sectors = 16 ∨ sectors = 32)
  · simp only [if_pos h1]; exact ⟨trivial, h⟩
  · simp only [if_neg h1]
    cases h with
    | same hc => exact ⟨rfl, initTail_self hc vol sectors⟩
    | opened _ _ hs => exact initTail_twin hs vol sectors
    | closed _ _ hs _ => exact initTail_twin hs vol sectors

/-- C06 (DOS 3.x), continuation, one step: on twins every operation gives the same answer and leads to twins -/
theorem op_sim {d d' : Disk} (h : DSim d d') (o : Op) (rp : Repairs := {}) :
    (o.run d' rp).1 = (o.run d rp).1 ∧ DSim (o.run d rp).2 (o.run d' rp).2 := by
  cases o with
  | init vol sectors => obtain ⟨e, s⟩ := init_sim h vol sectors; exact ⟨congrArg Out.unit e, s⟩
  | put f => obtain ⟨e, s⟩ := put_sim h f rp; exact ⟨congrArg Out.nat e, s⟩
  | delete n => obtain ⟨e, s⟩ := delete_sim h n; exact ⟨congrArg Out.unit e, s⟩
  | rename o n => obtain ⟨e, s⟩ := rename_sim h o n; exact ⟨congrArg Out.unit e, s⟩
  | lock n => obtain ⟨e, s⟩ := modify_sim h n (some true) none none; exact ⟨congrArg Out.unit e, s⟩
  | unlock n => obtain ⟨e, s⟩ := modify_sim h n (some false) none none; exact ⟨congrArg Out.unit e, s⟩
  | retype n t => obtain ⟨e, s⟩ := modify_sim h n none none (some t); exact ⟨congrArg Out.unit e, s⟩
  | get n => obtain ⟨e, s⟩ := get_sim h n; exact ⟨congrArg Out.got e, s⟩
  | catalog => obtain ⟨e, s⟩ := catalog_sim h; exact ⟨congrArg Out.rows e, s⟩
  | statFree => obtain ⟨e, s⟩ := statFree_sim h; exact ⟨congrArg Out.nat e, s⟩

/-- a history in which the image may be saved and loaded again between any two operations -/
inductive Step where
  | op (o : Op)
  | reload

/-- run a history; `reload` replaces the object by `load (save ·)` -/
def exec (d : Disk) (steps : List Step) (rp : Repairs := {}) : List Out × Disk :=
  match steps with
  | [] => ([], d)
  | .op o :: rest => let x := o.run d rp; let y := exec x.2 rest rp; (x.1 :: y.1, y.2)
  | .reload :: rest => exec (reload d) rest rp

/-- the same history without the reloads -/
def opsOf : List Step → List Step
  | [] => []
  | .op o :: rest => .op o :: opsOf rest
  | .reload :: rest => opsOf rest

theorem exec_sim (steps : List Step) {d d' : Disk} (h : DSim d d') (rp : Repairs := {}) :
    (exec d' steps rp).1 = (exec d (opsOf steps) rp).1 ∧ DSim (exec d (opsOf steps) rp).2 (exec d' steps rp).2 := by
  induction steps generalizing d d' with
  | nil => unfold opsOf exec; exact ⟨rfl, h⟩
  | cons s rest ih =>
    cases s with
    | op o =>
      obtain ⟨e, s⟩ := op_sim h o rp
      obtain ⟨e2, s2⟩ := ih s
      unfold opsOf
      rw [exec, exec]
      refine ⟨?_, s2⟩
      show (o.run d' rp).1 :: (exec (o.run d' rp).2 rest rp).1 = (o.run d rp).1 :: (exec (o.run d rp).2 (opsOf rest) rp).1
      rw [e, e2]
    | reload =>
      unfold opsOf
      rw [exec]
      exact ih (dsim_reload h)

end A2Verif.Reload.Dos
