import A2Verif.Lemmas.FsProdosLock
import A2Verif.Lemmas.FsProdosOps
/-!
# From the model's `lock` / `unlock` to the reading-level theorem

`lock_spec` / `unlock_spec` describe the image the model writes; here that image is shown to differ from the old one in
exactly the access byte of the entry (`AccMod`), so that `access_change_refines` applies.
-/
namespace A2Verif.FsProdos
open A2Verif.Fs.Prodos
open A2Verif.Read.Prodos (entryAt)

theorem entryOff_eq (idx : Nat) : Dir.entryOff idx = entOff idx := rfl

theorem getD_splice_inside (e new : Bytes) (off k : Nat) (h1 : off ≤ k) (h2 : k < off + new.length) (hl : off ≤ e.length) :
    (splice e off new).getD k 0 = new.getD (k - off) 0 := by
  unfold splice
  simp only [List.getD_eq_getElem?_getD]
  rw [List.append_assoc, List.getElem?_append_right (by simp; omega)]
  simp only [List.length_take, Nat.min_eq_left hl]
  rw [List.getElem?_append_left (by omega)]

theorem getD_slice (x : Bytes) (off len j : Nat) (hj : j < len) : (slice x off len).getD j 0 = x.getD (off + j) 0 := by
  unfold slice
  simp only [List.getD_eq_getElem?_getD]
  rw [List.getElem?_take_of_lt hj, List.getElem?_drop]

/-- the block after the access byte of slot `idx` has been set to `a` and the block written back: only that byte
differs (the block is a full block whose last byte is zero, as every directory block a2kit writes) -/
theorem blockWithEntry_setAccess (blk : Bytes) (idx a : Nat) (hlen : blk.length = 512) (h511 : blk.getD 511 0 = 0)
    (hidx : 1 ≤ idx ∧ idx ≤ 13) :
    let nb := blockWithEntry blk idx (Ent.setAccess (slice (blk.take dirLen) (Dir.entryOff idx) entryLen) a)
    nb.length = blk.length ∧ (∀ k, k ≠ entOff idx + 30 → nb.getD k 0 = blk.getD k 0) ∧ nb.getD (entOff idx + 30) 0 = a := by
  intro nb
  have hoff : entOff idx + 39 ≤ 511 := by unfold entOff; omega
  have hb511 : (blk.take dirLen).length = 511 := by simp [hlen, dirLen]
  have he : (slice (blk.take dirLen) (entOff idx) 39).length = 39 := by unfold slice; simp [hb511]; omega
  have hea : (Ent.setAccess (slice (blk.take dirLen) (entOff idx) 39) a).length = 39 := by
    unfold Ent.setAccess splice; simp only [List.length_append, List.length_take, List.length_drop, List.length_cons, List.length_nil, he]; omega
  have hsp : (splice (blk.take dirLen) (entOff idx) ((Ent.setAccess (slice (blk.take dirLen) (entOff idx) 39) a).take 39)).length = 511 := by
    unfold splice; simp only [List.length_append, List.length_take, List.length_drop, hea, hb511]; omega
  -- a byte of the new block below 511
  have hbyte : ∀ k, k < 511 → nb.getD k 0 =
      (splice (blk.take dirLen) (entOff idx) ((Ent.setAccess (slice (blk.take dirLen) (entOff idx) 39) a).take 39)).getD k 0 := by
    intro k hk
    show (blockWithEntry blk idx _).getD k 0 = _
    unfold blockWithEntry
    rw [entryOff_eq]
    exact getD_quantize_take _ k (by rw [hsp]; exact hk) (by unfold blockSize; omega)
  have hin : ∀ j, j < 39 → (Ent.setAccess (slice (blk.take dirLen) (entOff idx) 39) a).getD j 0 =
      if j = 30 then a else blk.getD (entOff idx + j) 0 := by
    intro j hj
    unfold Ent.setAccess
    by_cases h30 : j = 30
    · subst h30
      rw [getD_splice_inside _ _ 30 30 (by omega) (by simp) (by rw [he]; omega)]
      simp
    · rw [getD_splice_outside _ _ 30 j (by simp; omega) (by rw [he]; omega), getD_slice _ _ _ _ hj]
      simp only [h30, ↓reduceIte, List.getD_eq_getElem?_getD]
      rw [List.getElem?_take_of_lt (by unfold dirLen; omega)]
  refine ⟨by rw [show nb.length = 512 from blockWithEntry_length _ _ _, hlen], ?_, ?_⟩
  · intro k hk
    by_cases hk511 : k < 511
    · rw [hbyte k hk511]
      by_cases hreg : entOff idx ≤ k ∧ k < entOff idx + 39
      · rw [getD_splice_inside _ _ _ k hreg.1 (by simp [hea]; omega) (by rw [hb511]; omega)]
        simp only [List.getD_eq_getElem?_getD]
        rw [List.getElem?_take_of_lt (by omega)]
        have := hin (k - entOff idx) (by omega)
        simp only [List.getD_eq_getElem?_getD] at this
        rw [this, if_neg (by omega)]
        congr 2; omega
      · rw [getD_splice_outside _ _ _ k (by simp [hea]; omega) (by rw [hb511]; omega)]
        simp only [List.getD_eq_getElem?_getD]
        rw [List.getElem?_take_of_lt (by unfold dirLen; omega)]
    · by_cases hk511' : k = 511
      · subst hk511'
        rw [h511]
        show (blockWithEntry blk idx _).getD 511 0 = 0
        unfold blockWithEntry quantize
        simp only [List.getD_eq_getElem?_getD]
        rw [List.getElem?_append_right (by simp [hsp, entryOff_eq]; omega)]
        simp [hsp, entryOff_eq, blockSize]
      · simp only [List.getD_eq_getElem?_getD]
        rw [List.getElem?_eq_none (by rw [show nb.length = 512 from blockWithEntry_length _ _ _]; omega),
          List.getElem?_eq_none (by omega)]
  · rw [hbyte _ (by omega), getD_splice_inside _ _ _ _ (by omega) (by simp [hea]) (by rw [hb511]; omega)]
    simp only [List.getD_eq_getElem?_getD]
    rw [List.getElem?_take_of_lt (by omega)]
    have := hin 30 (by omega)
    simp only [List.getD_eq_getElem?_getD] at this
    rw [show entOff idx + 30 - entOff idx = 30 by omega, this]
    simp

/-- the image after the model has set the access byte of an entry to `a` -/
theorem accMod_of_setAccess (r : Raw) (loc : Loc) (blk : Bytes) (a : Nat)
    (hblk : r.units[loc.block]? = some blk) (hlen : blk.length = 512) (h511 : blk.getD 511 0 = 0) (hidx : IdxOkFor loc blk) :
    AccMod r (setUnit r loc.block (blockWithEntry blk loc.idx (Ent.setAccess (slice (blk.take dirLen) (Dir.entryOff loc.idx) entryLen) a)))
      loc.block loc.idx blk (blockWithEntry blk loc.idx (Ent.setAccess (slice (blk.take dirLen) (Dir.entryOff loc.idx) entryLen) a)) := by
  have hsz : loc.block < r.units.size := by
    rcases Nat.lt_or_ge loc.block r.units.size with h | h
    · exact h
    · rw [Array.getElem?_eq_none h] at hblk; cases hblk
  have hrng := idxOk_range loc blk hidx
  obtain ⟨h1, h2, _⟩ := blockWithEntry_setAccess blk loc.idx a hlen h511 hrng
  exact { size := setUnit_size _ _ _, other := fun j hj => setUnit_other _ _ _ _ (Ne.symm hj), old := hblk,
          new := setUnit_self _ _ _ hsz, len := h1, blen := hlen, same := h2, idx := hrng }

/-- **`lock(path)` refines the abstract `lock`** (files of the volume directory; C02, C03, C19).
The search finds the file at `loc` and leaves the disk alone; the block of the entry is a full block with last byte
zero; the buffer is open and covers it; the image reads (total reader) as the well-formed volume `v`, whose volume
directory has the standard geometry, owns no record's block `loc.block`, is not a bitmap block; the entry is a file
entry the reader reaches.  Then `lock` succeeds, the new image reads as a well-formed `v'`, and `v → v'` is a
transition the abstract specification allows for `lock p`, `p` the path the reader gives the entry.
(Not proved: that `p` is the canonical form of `path` and that the reader reaches what the search found — the
correspondence between `search_volume` and the reader's walk; the byte-exact tie and the group's oracles check it.) -/
theorem lock_refines (d : Disk) (buf : Array Nat) (path : Bytes) (loc : Loc) (blk : Bytes) (v : Vol)
    (hfind : findFile path d = (.ok loc, d))
    (hnb : d.bitmapBlocks.contains loc.block = false) (hblk : d.raw.units[loc.block]? = some blk)
    (hlen : blk.length = 512) (h511 : blk.getD 511 0 = 0) (hidx : IdxOkFor loc blk)
    (hopen : d.bitmap = some buf) (hcov : loc.block / 8 < buf.size)
    (habyte : Ent.access (slice (blk.take dirLen) (Dir.entryOff loc.idx) entryLen) < 256)
    (hread : Read.ProdosT.read d.raw = .ok v) (hwf : v.wfB = true)
    (hgeo : ∀ kb, d.raw.units[2]? = some kb → kb.getD 35 0 = 39 ∧ kb.getD 36 0 = 13)
    (hBown : loc.block ∉ v.allOwned)
    (hfile : (entryAt blk (loc.idx - 1) 39).getD 0 0 / 16 ≠ 0xD)
    (hbm : ∀ kb, d.raw.units[2]? = some kb → loc.block < le16 kb 39 ∨ le16 kb 39 + (le16 kb 41 + 4095) / 4096 ≤ loc.block)
    (hreach : ∀ fsL ch, Read.ProdosT.readTree d.raw v.hi = .ok (fsL, ch) → ∃ fl ∈ fsL, fl.2 = (loc.block, loc.idx)) :
    ∃ d' v', lock path d = (.ok (), d') ∧ Read.ProdosT.read d'.raw = .ok v' ∧ v'.wfB = true ∧
      stepOk { eofRule := id, keepsType := true, keepsAux := true, hasLock := true } v
        (.lock (Read.ProdosT.baseRec (entryAt blk (loc.idx - 1) 39) []).path) true v' = true := by
  have hspec := lock_spec d buf path loc blk hfind hnb hblk hidx hopen hcov
  rw [modEntry_lock] at hspec
  have hmod := accMod_of_setAccess d.raw loc blk (lockAcc (Ent.access (slice (blk.take dirLen) (Dir.entryOff loc.idx) entryLen)))
    hblk hlen h511 hidx
  have hrng := idxOk_range loc blk hidx
  have hB2 : 2 = loc.block → 2 ≤ loc.idx := by
    intro h2
    have h := hidx
    unfold IdxOkFor Dir.idxOk kindOf at h
    rw [← h2] at h
    simp [volKeyBlock] at h
    exact h.1
  obtain ⟨v', hr', hwf', hlock, _⟩ := access_change_refines d.raw _ loc.block loc.idx blk _ hmod v hread hwf hgeo hB2 hBown hfile hbm hreach
  refine ⟨_, v', hspec, hr', hwf', hlock ?_⟩
  have ha := (blockWithEntry_setAccess blk loc.idx (lockAcc (Ent.access (slice (blk.take dirLen) (Dir.entryOff loc.idx) entryLen)))
    hlen h511 hrng).2.2
  rw [ha]
  exact (lockAcc_locked ⟨_, habyte⟩).1

/-- **`unlock(path)` refines the abstract `unlock`** (same hypotheses as `lock_refines`) -/
theorem unlock_refines (d : Disk) (buf : Array Nat) (path : Bytes) (loc : Loc) (blk : Bytes) (v : Vol)
    (hfind : findFile path d = (.ok loc, d))
    (hnb : d.bitmapBlocks.contains loc.block = false) (hblk : d.raw.units[loc.block]? = some blk)
    (hlen : blk.length = 512) (h511 : blk.getD 511 0 = 0) (hidx : IdxOkFor loc blk)
    (hopen : d.bitmap = some buf) (hcov : loc.block / 8 < buf.size)
    (habyte : Ent.access (slice (blk.take dirLen) (Dir.entryOff loc.idx) entryLen) < 256)
    (hread : Read.ProdosT.read d.raw = .ok v) (hwf : v.wfB = true)
    (hgeo : ∀ kb, d.raw.units[2]? = some kb → kb.getD 35 0 = 39 ∧ kb.getD 36 0 = 13)
    (hBown : loc.block ∉ v.allOwned)
    (hfile : (entryAt blk (loc.idx - 1) 39).getD 0 0 / 16 ≠ 0xD)
    (hbm : ∀ kb, d.raw.units[2]? = some kb → loc.block < le16 kb 39 ∨ le16 kb 39 + (le16 kb 41 + 4095) / 4096 ≤ loc.block)
    (hreach : ∀ fsL ch, Read.ProdosT.readTree d.raw v.hi = .ok (fsL, ch) → ∃ fl ∈ fsL, fl.2 = (loc.block, loc.idx)) :
    ∃ d' v', unlock path d = (.ok (), d') ∧ Read.ProdosT.read d'.raw = .ok v' ∧ v'.wfB = true ∧
      stepOk { eofRule := id, keepsType := true, keepsAux := true, hasLock := true } v
        (.unlock (Read.ProdosT.baseRec (entryAt blk (loc.idx - 1) 39) []).path) true v' = true := by
  have hspec := unlock_spec d buf path loc blk hfind hnb hblk hidx hopen hcov
  rw [modEntry_unlock] at hspec
  have hmod := accMod_of_setAccess d.raw loc blk (unlockAcc (Ent.access (slice (blk.take dirLen) (Dir.entryOff loc.idx) entryLen)))
    hblk hlen h511 hidx
  have hrng := idxOk_range loc blk hidx
  have hB2 : 2 = loc.block → 2 ≤ loc.idx := by
    intro h2
    have h := hidx
    unfold IdxOkFor Dir.idxOk kindOf at h
    rw [← h2] at h
    simp [volKeyBlock] at h
    exact h.1
  obtain ⟨v', hr', hwf', _, hunlock⟩ := access_change_refines d.raw _ loc.block loc.idx blk _ hmod v hread hwf hgeo hB2 hBown hfile hbm hreach
  refine ⟨_, v', hspec, hr', hwf', hunlock ?_⟩
  have ha := (blockWithEntry_setAccess blk loc.idx (unlockAcc (Ent.access (slice (blk.take dirLen) (Dir.entryOff loc.idx) entryLen)))
    hlen h511 hrng).2.2
  rw [ha]
  exact (unlockAcc_unlocked ⟨_, habyte⟩).1

end A2Verif.FsProdos
