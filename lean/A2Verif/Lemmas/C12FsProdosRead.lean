import A2Verif.Model.C12FsId
/-!
# C12 read paths of the concrete ProDOS model on arbitrary images: `catalog`, `get`, `stat`, identification

On a freshly mounted disk (`from_img`: no bitmap buffer, `bitmap_blocks` empty) `catalog_to_vec` and `get` never
touch the bitmap, so they never change the state: `SafeAt Q m d` — at the state `d`, `m` leaves `d` unchanged, does
not panic, and its value satisfies `Q`.  The one index that is not guarded locally, `dir.get_entry(&loc)` in
`read_entry`, is in range because `loc` comes from `search_entries`, which took it from `entry_locations` of the very
block `read_entry` reads again (`SearchOk`).  `stat` opens the bitmap buffer; its only index `buf[iblock/8]` is covered
by the buffer length `512·(1 + total/4096)`.  Core Lean only.
-/
namespace A2Verif.C12FsId.Prodos
open A2Verif.Fs.Prodos

/-- every unit of the image is a 512-byte block -/
def Units512 (r : Raw) : Prop := ∀ (i : Nat) (b : Bytes), r.units[i]? = some b → b.length = 512

/-- a disk on which no bitmap block is known (as `from_img` leaves it), over 512-byte blocks -/
def Fresh (d : Disk) : Prop := d.bitmapBlocks = [] ∧ Units512 d.raw

/-- at the state `d`: `m` does not change `d`, does not panic, and its value satisfies `Q` -/
def SafeAt {α : Type} (Q : α → Prop) (m : M α) (d : Disk) : Prop :=
  (m d).2 = d ∧ (m d).1 ≠ .error .panic ∧ ∀ a, (m d).1 = .ok a → Q a

theorem bind_apply {α β : Type} (m : M α) (f : α → M β) (d : Disk) :
    (m >>= f) d = match m d with
      | (.ok a, d') => f a d'
      | (.error e, d') => (.error e, d') := rfl

theorem pure_apply {α : Type} (a : α) (d : Disk) : (pure a : M α) d = (.ok a, d) := rfl

theorem SafeAt.bind {α β : Type} {P : α → Prop} {Q : β → Prop} {m : M α} {f : α → M β} {d : Disk}
    (hm : SafeAt P m d) (hf : ∀ a, P a → SafeAt Q (f a) d) : SafeAt Q (m >>= f) d := by
  unfold SafeAt
  rw [bind_apply]
  obtain ⟨h1, h2, h3⟩ := hm
  cases hmd : m d with
  | mk res d' =>
    rw [hmd] at h1 h2 h3
    simp only [] at h1 h2 h3
    subst h1
    cases res with
    | error e => exact ⟨rfl, fun hh => h2 (by cases hh; rfl), fun a h => by cases h⟩
    | ok a => exact hf a (h3 a rfl)

theorem SafeAt.pure {α : Type} {Q : α → Prop} {a : α} {d : Disk} (h : Q a) : SafeAt Q (Pure.pure a : M α) d := by
  unfold SafeAt
  rw [pure_apply]
  exact ⟨rfl, (by intro hh; cases hh), fun b hb => by cases hb; exact h⟩

theorem SafeAt.fail {α : Type} {Q : α → Prop} {e : Err} {d : Disk} (h : e ≠ .panic) : SafeAt Q (M.fail e : M α) d := by
  show ((Except.error e, d) : R α × Disk).2 = d ∧ _
  exact ⟨rfl, (by intro hh; cases hh; exact h rfl), fun b hb => by cases hb⟩

theorem SafeAt.lift {α : Type} {Q : α → Prop} {x : R α} {d : Disk} (h : x ≠ .error .panic) (hq : ∀ a, x = .ok a → Q a) :
    SafeAt Q (M.lift x) d := by
  show ((x, d) : R α × Disk).2 = d ∧ _
  exact ⟨rfl, h, hq⟩

theorem SafeAt.get {d : Disk} : SafeAt (fun x => x = d) M.get d := by
  show ((Except.ok d, d) : R Disk × Disk).2 = d ∧ _
  exact ⟨rfl, (by intro hh; cases hh), fun a h => by cases h; rfl⟩

theorem SafeAt.weaken {α : Type} {P Q : α → Prop} {m : M α} {d : Disk} (h : SafeAt P m d) (hpq : ∀ a, P a → Q a) : SafeAt Q m d :=
  ⟨h.1, h.2.1, fun a ha => hpq a (h.2.2 a ha)⟩

/-- `if let Ok(x) = …` keeps safety (a panic is not caught, but there is none) -/
theorem SafeAt.attempt {α : Type} {P : α → Prop} {m : M α} {d : Disk} (h : SafeAt P m d) :
    SafeAt (fun o => ∀ a, o = some a → P a) (M.attempt m) d := by
  unfold SafeAt M.attempt
  obtain ⟨h1, h2, h3⟩ := h
  cases hmd : m d with
  | mk res d' =>
    rw [hmd] at h1 h2 h3
    simp only [] at h1 h2 h3
    subst h1
    cases res with
    | ok a => exact ⟨rfl, (by intro hh; cases hh), fun o ho => by cases ho; intro b hb; cases hb; exact h3 a rfl⟩
    | error e =>
      cases e <;> first
        | exact absurd rfl h2
        | exact ⟨rfl, (by intro hh; cases hh), fun o ho => by cases ho; intro b hb; cases hb⟩

/-! ## blocks and directories -/

theorem imgRead_spec {r : Raw} (hu : Units512 r) (i : Nat) :
    imgRead r i ≠ .error .panic ∧ ∀ b, imgRead r i = .ok b → b.length = 512 := by
  unfold imgRead
  cases h : r.units[i]? with
  | none => simp
  | some b => simp only [ne_eq, reduceCtorEq, not_false_eq_true, Except.ok.injEq, true_and]; intro b' hb; subst hb; exact hu _ _ h

theorem readBlock_fresh {d : Disk} (hf : Fresh d) (i : Nat) : readBlock i d = (imgRead d.raw i, d) := by
  unfold readBlock
  rw [bind_apply]
  have hg : M.get d = (.ok d, d) := rfl
  rw [hg]
  simp only [hf.1, List.contains_nil, Bool.false_eq_true, if_false]
  rfl

theorem readBlock_safe {d : Disk} (hf : Fresh d) (i : Nat) : SafeAt (fun b => b.length = 512) (readBlock i) d := by
  unfold SafeAt
  rw [readBlock_fresh hf]
  obtain ⟨h1, h2⟩ := imgRead_spec hf.2 i
  exact ⟨rfl, h1, h2⟩

/-- `get_directory(i)` on a fresh disk is the pure `dirAt` of the image -/
theorem getDirectory_fresh {d : Disk} (hf : Fresh d) (i : Nat) : getDirectory i d = (dirAt d.raw i, d) := by
  unfold getDirectory
  rw [bind_apply, readBlock_fresh hf]
  unfold dirAt
  cases imgRead d.raw i with
  | error e => rfl
  | ok buf => rfl

theorem dirAt_ne_panic {r : Raw} (hu : Units512 r) (i : Nat) : dirAt r i ≠ .error .panic := by
  unfold dirAt
  have := (imgRead_spec hu i).1
  cases h : imgRead r i with
  | error e => simp only []; intro hh; cases hh; exact this h
  | ok b => simp

theorem getDirectory_safe {d : Disk} (hf : Fresh d) (i : Nat) :
    SafeAt (fun dir => dirAt d.raw i = .ok dir) (getDirectory i) d := by
  unfold SafeAt
  rw [getDirectory_fresh hf]
  exact ⟨rfl, dirAt_ne_panic hf.2 i, fun a h => h⟩

theorem getVolHeader_safe {d : Disk} (hf : Fresh d) : SafeAt (fun _ => True) getVolHeader d := by
  unfold getVolHeader
  apply SafeAt.bind (readBlock_safe hf _); intro buf _
  exact SafeAt.pure trivial

/-! ## searching -/

/-- `loc` can be read back: the block is a directory block with an entry at `loc.idx` -/
def LocOk (d : Disk) (loc : Loc) : Prop := ∃ dir e, dirAt d.raw loc.block = .ok dir ∧ dir.getEntry loc.idx = some e

theorem firstMatch_some {types : List Nat} {nm : Bytes} {dir : Dir} : ∀ {idxs : List Nat} {idx : Nat},
    firstMatch types nm dir idxs = some idx → ∃ e, dir.getEntry idx = some e := by
  intro idxs
  induction idxs with
  | nil => intro idx h; cases h
  | cons i rest ih =>
    intro idx h
    unfold firstMatch at h
    cases he : dir.getEntry i with
    | none => rw [he] at h; exact ih h
    | some e =>
      rw [he] at h
      simp only [] at h
      split at h
      · cases h; exact ⟨e, he⟩
      · exact ih h

theorem searchLoop_safe {d : Disk} (hf : Fresh d) (types : List Nat) (nm : Bytes) : ∀ (fuel curr : Nat),
    SafeAt (fun o => ∀ loc, o = some loc → LocOk d loc) (searchLoop types nm fuel curr) d := by
  intro fuel
  induction fuel with
  | zero => intro curr; unfold searchLoop; exact SafeAt.fail (by decide)
  | succ fuel ih =>
    intro curr
    unfold searchLoop
    apply SafeAt.bind (getDirectory_safe hf curr); intro dir hdir
    cases hm : firstMatch types nm dir dir.entryIdxs with
    | some idx =>
      simp only []
      obtain ⟨e, he⟩ := firstMatch_some hm
      exact SafeAt.pure (fun loc hl => by cases hl; exact ⟨dir, e, hdir, he⟩)
    | none =>
      simp only []
      split
      · exact SafeAt.pure (fun loc hl => by cases hl)
      · exact ih _

theorem searchEntries_safe {d : Disk} (hf : Fresh d) (types : List Nat) (nm : Bytes) (key : Nat) :
    SafeAt (fun o => ∀ loc, o = some loc → LocOk d loc) (searchEntries types nm key) d := by
  unfold searchEntries
  split
  · exact SafeAt.fail (by decide)
  · exact searchLoop_safe hf types nm 100 key

theorem readEntry_safe {d : Disk} (hf : Fresh d) {loc : Loc} (hl : LocOk d loc) : SafeAt (fun _ => True) (readEntry loc) d := by
  obtain ⟨dir, e, hdir, he⟩ := hl
  unfold readEntry
  apply SafeAt.bind (getDirectory_safe hf loc.block); intro dir' hdir'
  have : dir' = dir := by rw [hdir] at hdir'; cases hdir'; rfl
  subst this
  rw [he]
  show SafeAt _ (fun d => ((Except.ok e, d) : R Bytes × Disk)) d
  exact ⟨rfl, (by intro hh; cases hh), fun _ _ => trivial⟩

theorem walkLoop_safe {d : Disk} (hf : Fresh d) (types : List Nat) (nodes : List Bytes) (n : Nat) : ∀ (levels : List Nat) (curr : Nat),
    SafeAt (fun loc => LocOk d loc) (walkLoop types nodes n levels curr) d := by
  intro levels
  induction levels with
  | nil => intro curr; unfold walkLoop; exact SafeAt.fail (by decide)
  | cons level rest ih =>
    intro curr
    unfold walkLoop
    apply SafeAt.bind (searchEntries_safe hf _ _ curr); intro o ho
    cases o with
    | none => exact SafeAt.fail (by decide)
    | some loc =>
      have hl := ho loc rfl
      simp only []
      split
      · exact SafeAt.pure hl
      · apply SafeAt.bind (readEntry_safe hf hl); intro entry _
        exact ih _

theorem normalizePath_ne_panic {vol path : Bytes} (hp : path ≠ []) : normalizePath vol path ≠ .error .panic := by
  unfold normalizePath
  cases path with
  | nil => exact absurd rfl hp
  | cons c cs => simp only []; split <;> split <;> simp

theorem searchVolume_safe {d : Disk} (hf : Fresh d) (types : List Nat) {path : Bytes} (hp : path ≠ []) :
    SafeAt (fun loc => LocOk d loc) (searchVolume types path) d := by
  unfold searchVolume
  apply SafeAt.bind (getVolHeader_safe hf); intro vhdr _
  apply SafeAt.bind (SafeAt.lift (Q := fun _ => True) (normalizePath_ne_panic hp) (fun _ _ => trivial)); intro nodes _
  split
  · exact SafeAt.fail (by decide)
  · simp only []
    split
    · exact SafeAt.fail (by decide)
    · exact walkLoop_safe hf _ _ _ _ _

/-! ## `catalog_to_vec` -/

theorem findDirKeyBlock_root_safe {d : Disk} (hf : Fresh d) : SafeAt (fun _ => True) (findDirKeyBlock [47]) d := by
  unfold findDirKeyBlock
  apply SafeAt.bind (getVolHeader_safe hf); intro vhdr _
  simp only [true_or, if_true]
  exact SafeAt.pure trivial

theorem catalogLoop_safe {d : Disk} (hf : Fresh d) : ∀ (fuel curr : Nat),
    SafeAt (fun rows => rows.length ≤ 13 * fuel) (catalogLoop fuel curr) d := by
  intro fuel
  induction fuel with
  | zero =>
    intro curr
    unfold catalogLoop
    split
    · exact SafeAt.pure (Nat.zero_le _)
    · exact SafeAt.fail (by decide)
  | succ fuel ih =>
    intro curr
    unfold catalogLoop
    split
    · exact SafeAt.pure (Nat.zero_le _)
    · apply SafeAt.bind (getDirectory_safe hf curr); intro dir _
      apply SafeAt.bind (ih dir.next); intro more hmore
      refine SafeAt.pure ?_
      have hrows : ∀ idxs : List Nat, (catalogRows dir idxs).length ≤ idxs.length := by
        intro idxs
        induction idxs with
        | nil => simp [catalogRows]
        | cons i rest ihr =>
          unfold catalogRows
          cases dir.getEntry i with
          | none => simp only []; simp only [List.length_cons]; omega
          | some e => simp only []; split <;> simp only [List.length_cons] <;> omega
      have hidx : dir.entryIdxs.length ≤ 13 := by
        unfold Dir.entryIdxs rng
        cases dir.kind <;> simp
      have := hrows dir.entryIdxs
      simp only [List.length_append]
      omega

/-! ## `read_file` with the repair -/

theorem indexLoopV_safe {d : Disk} (hf : Fresh d) (entryEof : Nat) (ib : Bytes) : ∀ (idxs : List Nat) (eof : Nat),
    SafeAt (fun _ => True) (indexLoopV true entryEof ib idxs eof) d := by
  intro idxs
  induction idxs with
  | nil => intro eof; unfold indexLoopV; exact SafeAt.pure trivial
  | cons i rest ih =>
    intro eof
    unfold indexLoopV
    simp only [Bool.not_true, Bool.false_eq_true, and_false, if_false]
    split
    · apply SafeAt.bind (readBlock_safe hf _); intro _ _
      exact ih _
    · exact ih _

theorem indexBlockV_safe {d : Disk} (hf : Fresh d) (entryEof ptr eof : Nat) :
    SafeAt (fun _ => True) (indexBlockV true entryEof ptr eof) d := by
  unfold indexBlockV
  apply SafeAt.bind (readBlock_safe hf _); intro ib _
  exact indexLoopV_safe hf _ _ _ _

theorem masterLoopV_safe {d : Disk} (hf : Fresh d) (entryEof : Nat) (mb : Bytes) : ∀ (idxs : List Nat) (eof : Nat),
    SafeAt (fun _ => True) (masterLoopV true entryEof mb idxs eof) d := by
  intro idxs
  induction idxs with
  | nil => intro eof; unfold masterLoopV; exact SafeAt.pure trivial
  | cons i rest ih =>
    intro eof
    unfold masterLoopV
    simp only []
    split
    · apply SafeAt.bind (indexBlockV_safe hf _ _ _); intro _ _
      exact ih _
    · exact ih _

theorem readFileV_safe {d : Disk} (hf : Fresh d) (e : Bytes) : SafeAt (fun _ => True) (readFileV true e) d := by
  unfold readFileV
  simp only []
  split
  · apply SafeAt.bind (readBlock_safe hf _); intro _ _
    exact SafeAt.pure trivial
  · split
    · apply SafeAt.bind (indexBlockV_safe hf _ _ _); intro _ _
      exact SafeAt.pure trivial
    · split
      · apply SafeAt.bind (readBlock_safe hf _); intro mb _
        exact masterLoopV_safe hf _ _ _ _
      · exact SafeAt.fail (by decide)

theorem getV_safe {d : Disk} (hf : Fresh d) {path : Bytes} (hp : path ≠ []) : SafeAt (fun _ => True) (getV true path) d := by
  unfold getV findFile
  apply SafeAt.bind (searchVolume_safe hf fileTypes hp); intro loc hl
  apply SafeAt.bind (readEntry_safe hf hl); intro e _
  exact readFileV_safe hf e

/-! ## `stat`: the bitmap buffer -/

theorem openLoop_spec {r : Raw} (hu : Units512 r) : ∀ (is : List Nat) (acc : Array Nat) (pushed : List Nat),
    (openLoop r is acc pushed).1 ≠ .error .panic ∧
    ∀ buf, (openLoop r is acc pushed).1 = .ok buf → buf.size = acc.size + 512 * is.length := by
  intro is
  induction is with
  | nil => intro acc pushed; unfold openLoop; exact ⟨by simp, fun buf h => by cases h; simp⟩
  | cons i rest ih =>
    intro acc pushed
    unfold openLoop
    obtain ⟨h1, h2⟩ := imgRead_spec hu i
    cases hr : imgRead r i with
    | error e => simp only []; exact ⟨fun hh => h1 (by rw [hr]; cases hh; rfl), fun buf h => by cases h⟩
    | ok b =>
      simp only []
      obtain ⟨g1, g2⟩ := ih (acc ++ b.toArray) (pushed ++ [i])
      refine ⟨g1, fun buf h => ?_⟩
      have := g2 buf h
      have hb := h2 b hr
      simp only [Array.size_append, List.size_toArray, List.length_cons] at this ⊢
      omega

theorem countFreeFrom_ne_panic (buf : Array Nat) : ∀ (n i acc : Nat), i + n ≤ 8 * buf.size →
    countFreeFrom buf n i acc ≠ .error .panic := by
  intro n
  induction n with
  | zero => intro i acc _; simp [countFreeFrom]
  | succ n ih =>
    intro i acc h
    unfold countFreeFrom isFreeIn
    have hi : i / 8 < buf.size := by omega
    rw [Array.getElem?_eq_getElem hi]
    simp only []
    exact ih _ _ (by omega)

theorem openBitmap_fresh {d : Disk} (hf : Fresh d) (hb : d.bitmap = none) :
    (openBitmap d).1 ≠ .error .panic ∧
    ((openBitmap d).1 = .ok () → ∃ buf, (openBitmap d).2.bitmap = some buf ∧ buf.size = 512 * d.bmCount ∧ (openBitmap d).2.total = d.total) := by
  unfold openBitmap
  rw [hb]
  simp only []
  obtain ⟨h1, h2⟩ := imgRead_spec hf.2 volKeyBlock
  cases hr : imgRead d.raw volKeyBlock with
  | error e => simp only []; exact ⟨fun hh => h1 (by rw [hr]; cases hh; rfl), fun hh => by cases hh⟩
  | ok kb =>
    simp only []
    obtain ⟨g1, g2⟩ := openLoop_spec hf.2 (List.range' (le16 kb (4 + 35)) d.bmCount) #[] []
    cases ho : openLoop d.raw (List.range' (le16 kb (4 + 35)) d.bmCount) #[] [] with
    | mk res pushed =>
      rw [ho] at g1 g2
      cases res with
      | error e => simp only []; exact ⟨fun hh => g1 (by cases hh; rfl), fun hh => by cases hh⟩
      | ok buf =>
        simp only []
        have hsz := g2 buf rfl
        refine ⟨by simp, fun _ => ⟨buf, ?_, ?_, ?_⟩⟩
        · first | rfl | trivial
        · simpa using hsz
        · first | rfl | trivial

theorem numFreeBlocks_fresh_ne_panic {d : Disk} (hf : Fresh d) (hb : d.bitmap = none) : (numFreeBlocks d).1 ≠ .error .panic := by
  unfold numFreeBlocks
  rw [bind_apply]
  have hg : M.get d = (.ok d, d) := rfl
  rw [hg]
  simp only []
  split
  · simp [pure_apply]
  · unfold getBitmap
    show ((M.bind (M.bind openBitmap (fun _ => M.bind M.get (fun d => M.ofOption d.bitmap))) (fun buf => M.lift (countFreeFrom buf d.total 0 0))) d).1 ≠ _
    unfold M.bind
    obtain ⟨o1, o2⟩ := openBitmap_fresh hf hb
    cases ho : openBitmap d with
    | mk res d' =>
      rw [ho] at o1 o2
      cases res with
      | error e => simp only []; exact fun hh => o1 (by cases hh; rfl)
      | ok u =>
        obtain ⟨buf, hbuf, hsz, htot⟩ := o2 rfl
        simp only [] at hbuf hsz htot ⊢
        have hg' : M.get d' = (.ok d', d') := rfl
        rw [hg']
        simp only [hbuf, M.ofOption, M.lift]
        apply countFreeFrom_ne_panic
        rw [hsz]
        have hcnt : d.total ≤ 4096 * d.bmCount := by
          unfold Disk.bmCount bitmapBlockCount
          have h1 := Nat.lt_mul_div_succ d.total (show 0 < 4096 by decide)
          have h2 := Nat.lt_mul_div_succ (d.total + 4095) (show 0 < 4096 by decide)
          split <;> omega
        omega

end A2Verif.C12FsId.Prodos
