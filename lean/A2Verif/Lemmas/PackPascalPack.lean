import A2Verif.Lemmas.PackPascalStep
/-! Pascal text: the eof rule of `pack_txt` (trailing NULs cut at 512-byte granularity) and `unpack_txt`. -/
namespace A2Verif.Packing

theorem all_zero_eq_replicate : ∀ (l : Bytes), (∀ x ∈ l, x = 0) → l = List.replicate l.length 0 := by
  intro l
  induction l with
  | nil => intro _; rfl
  | cons a r ih =>
    intro h
    have ha : a = 0 := h a (List.mem_cons_self ..)
    subst ha
    rw [List.length_cons, List.replicate_succ, ← ih (fun x hx => h x (List.mem_cons_of_mem _ hx))]

theorem takeWhile_zero_mem : ∀ (l : Bytes), ∀ x ∈ l.takeWhile (· = 0), x = 0 := by
  intro l
  induction l with
  | nil => intro x hx; simp at hx
  | cons a r ih =>
    intro x hx
    by_cases ha : a = 0
    · subst ha
      simp only [List.takeWhile_cons, decide_true, if_true, List.mem_cons] at hx
      rcases hx with h | h
      · exact h
      · exact ih x h
    · simp [List.takeWhile_cons, ha] at hx

/-- a byte string is its non-zero-terminated prefix followed by its trailing zeros -/
theorem trailingZeros_split (d : Bytes) : ∃ X, d = X ++ List.replicate (trailingZeros d) 0 := by
  unfold trailingZeros
  refine ⟨(d.reverse.dropWhile (· = 0)).reverse, ?_⟩
  have h1 : d.reverse = d.reverse.takeWhile (· = 0) ++ d.reverse.dropWhile (· = 0) :=
    (List.takeWhile_append_dropWhile).symm
  have h2 : d.reverse.takeWhile (· = 0) = List.replicate (d.reverse.takeWhile (· = 0)).length 0 :=
    all_zero_eq_replicate _ (takeWhile_zero_mem _)
  have h3 : d = (d.reverse.dropWhile (· = 0)).reverse ++ (d.reverse.takeWhile (· = 0)).reverse := by
    conv => lhs; rw [← List.reverse_reverse d, h1, List.reverse_append]
  conv => lhs; rw [h3]
  congr 1
  conv => lhs; rw [h2]
  rw [List.reverse_replicate]

set_option maxRecDepth 100000 in
theorem pasHeader_length : pasHeader.length = 1024 := by
  simp only [pasHeader, List.length_append, List.length_replicate, List.length_cons, List.length_nil]

theorem take_append_zeros (X : Bytes) (k r : Nat) (hr : r ≤ k) :
    (X ++ List.replicate k 0).take (X.length + r) = X ++ List.replicate r 0 := by
  rw [List.take_append]
  simp only [List.take_of_length_le (Nat.le_add_right _ _), Nat.add_sub_cancel_left, List.take_replicate]
  congr 2
  omega

/-- the truncation at eof only removes trailing NULs, so the text page(s) still decode to the text -/
theorem pascal_unpack_core (text t : Bytes) (hne : t ≠ []) (hd : pasToLoop false text = some t) :
    ¬ (((pasHeader ++ text).take ((pasHeader ++ text).length - 512 * (trailingZeros (pasHeader ++ text) / 512))).length < 1025) ∧
    pasToUtf8 (((pasHeader ++ text).take ((pasHeader ++ text).length - 512 * (trailingZeros (pasHeader ++ text) / 512))).drop 1024) = some t := by
  obtain ⟨X, hX⟩ := trailingZeros_split (pasHeader ++ text)
  generalize hk : trailingZeros (pasHeader ++ text) = k at hX ⊢
  have hlen : (pasHeader ++ text).length = X.length + k := by rw [hX]; simp
  have hr : 512 * (k / 512) ≤ k := Nat.mul_div_le k 512
  have hE : (pasHeader ++ text).length - 512 * (k / 512) = X.length + (k - 512 * (k / 512)) := by omega
  have htake : (pasHeader ++ text).take ((pasHeader ++ text).length - 512 * (k / 512))
      = X ++ List.replicate (k - 512 * (k / 512)) 0 := by
    rw [hE]; conv => lhs; rw [hX]
    exact take_append_zeros X k _ (by omega)
  rw [htake]
  -- the text is what follows the 1024-byte header
  have htext : text = (X ++ List.replicate k 0).drop 1024 := by
    rw [← hX, List.drop_left' pasHeader_length]
  by_cases hXl : X.length ≤ 1024
  · -- then the text would be all zeros and decode to the empty string
    exfalso
    have : text = List.replicate (k - (1024 - X.length)) 0 := by
      rw [htext, List.drop_append, List.drop_eq_nil_of_le hXl, List.nil_append, List.drop_replicate]
    rw [this] at hd
    have hz := pasToLoop_zeros (k - (1024 - X.length)) []
    simp only [List.append_nil] at hz
    rw [hz] at hd
    simp only [pasToLoop, Option.some.injEq] at hd
    exact hne hd.symm
  · have hXl' : 1024 < X.length := by omega
    have hdrop : ∀ z, (X ++ List.replicate z 0).drop 1024 = X.drop 1024 ++ List.replicate z 0 := by
      intro z
      rw [List.drop_append_of_le_length (by omega)]
    refine ⟨by simp only [List.length_append, List.length_replicate]; omega, ?_⟩
    rw [hdrop]
    rw [htext, hdrop] at hd
    exact dec_zeros_le (X.drop 1024) false k _ t (by omega) hd

end A2Verif.Packing
