import A2Verif.Model.MinifyState
/-!
Lemmas relating the `Minifier` state machine (`Model/MinifyState.lean`) to the fresh-object model
(`Model/Minify.lean`).
-/
namespace A2Verif.Model.Minify

theorem buildMapP_spec (del : List Nat) : ∀ (ds s : List Nat),
    match buildMap del ds s with
    | some m => buildMapP del ds s = (m, true)
    | none => (buildMapP del ds s).2 = false := by
  intro ds
  induction ds with
  | nil => intro s; simp [buildMap, buildMapP]
  | cons d ds ih =>
    intro s
    unfold buildMap buildMapP
    cases hadv : advance del d s with
    | none => simp
    | some cr =>
      obtain ⟨c, rest⟩ := cr
      have := ih (c :: rest)
      simp only
      cases hb : buildMap del ds (c :: rest) with
      | none => simp only [hb] at this; simp [this]
      | some m => simp only [hb] at this; simp [this]

/-- after its first iteration the loop of stage 3 is `combine` -/
theorem stage3Loop_some (refset fnext : List Nat) : ∀ (ls : List Line) (cur : Group) (comb le : Bool),
    stage3Loop refset fnext (some cur) comb le ls = combine refset fnext cur comb le ls := by
  intro ls
  induction ls with
  | nil => intro cur comb le; simp [stage3Loop, combine]
  | cons l ls ih =>
    intro cur comb le
    unfold stage3Loop combine
    simp only
    split <;> simp [ih]

/-- **the stale read is dead**: whatever `ends_with_str` an earlier call left behind (`e`), stage 3 produces what it
produces on a fresh object — in the first iteration `combining` is false, the copy is not used -/
theorem stage3Loop_first_read_dead (refset fnext : List Nat) (e : Bool) (ls : List Line) :
    stage3Loop refset fnext none false e ls = stage3 refset fnext ls := by
  cases ls with
  | nil => simp [stage3Loop, stage3]
  | cons l ls =>
    unfold stage3Loop stage3
    simp only
    exact stage3Loop_some refset fnext ls _ _ _

theorem setLineRefMap_fresh (cfg : Cfg) (level : Nat) (p : List Line) :
    match buildMap (deleted cfg level p) (deleted cfg level p) (p.map (·.num)) with
    | some m => setLineRefMap (deleted cfg level p) (p.map (·.num)) = (m, true)
    | none => (setLineRefMap (deleted cfg level p) (p.map (·.num))).2 = false := by
  unfold setLineRefMap
  cases p with
  | nil => simp [deleted, pick, buildMap]
  | cons l ls =>
    simp only [List.map_cons, List.isEmpty_cons, Bool.false_eq_true, if_false]
    exact buildMapP_spec _ _ _

theorem pick_self_flags (cfg : Cfg) (level : Nat) (p : List Line) :
    (pick true p (delFlags cfg level p)).map (·.num) = deleted cfg level p := rfl

/-- **with all six resets, a call answers what a fresh object answers, whatever state the object is in** -/
theorem minifyS_all_resets (cfg : Cfg) (s : MinSt) (level : Nat) (p : List Line) :
    (minifyS cfg Resets.all s ⟨level, p, none⟩).2 = minify cfg level p := by
  have hmap := setLineRefMap_fresh cfg level p
  unfold minifyS minify Resets.all upTo
  simp only [Option.isSome_none, Bool.false_eq_true, if_false, if_true, List.nil_append, List.append_nil,
    Bool.false_or, pick_self_flags]
  cases hb : buildMap (deleted cfg level p) (deleted cfg level p) (p.map (·.num)) with
  | none =>
    simp only [hb] at hmap
    simp [hmap]
  | some m =>
    simp only [hb] at hmap
    simp only [hmap, Bool.not_true, Bool.false_eq_true, if_false]
    by_cases hc : (combineLines level && !p.any (·.fany)) = true
    · simp only [hc, if_true]
      rw [stage3Loop_first_read_dead]
      rfl
    · simp [hc]

/-- a call whose first pass fails answers `err`, whatever state the object is in -/
theorem minifyS_failed_call (cfg : Cfg) (rs : Resets) (s : MinSt) (level : Nat) (p : List Line) (k : Nat) :
    (minifyS cfg rs s ⟨level, p, some k⟩).2 = .err := by
  unfold minifyS
  simp

end A2Verif.Model.Minify
