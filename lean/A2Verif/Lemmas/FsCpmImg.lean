import A2Verif.Lemmas.FsCpmRead
/-!
# Image-level lemmas for the concrete CP/M model

What the directory of an image *is* (`dirBuf`, `dirOf`), that the model's `getDirectory` and the independent
reader both see exactly that, what `saveDirectory` does to the image (which units change, what the directory
reads back as), and the frame fact: units outside the directory blocks do not influence it.  Core Lean only.
-/
namespace A2Verif.FsCpm
open A2Verif.Fs.Cpm
open A2Verif.Read.Cpm (Dpb)

/-- every unit is a block of the DPB's size, and there are `dsm+1` of them -/
structure Shape (d : Dpb) (r : Raw) : Prop where
  size : r.units.size = d.dsm + 1
  len : ∀ (i : Nat) (b : Bytes), r.units[i]? = some b → b.length = blockSize d

/-- the part of `DiskParameterBlock::verify` the proofs need: the blocks flagged in `al0`/`al1` are a
contiguous run from block 0, they cover the directory, and they lie in the data area -/
structure DpbOk (d : Dpb) : Prop where
  prefix_ : Read.Cpm.dirBlocks d = List.range (Read.Cpm.dirBlocks d).length
  cover : dirBlocks d ≤ (Read.Cpm.dirBlocks d).length
  inRange : (Read.Cpm.dirBlocks d).length ≤ d.dsm + 1

instance (d : Dpb) : Decidable (DpbOk d) :=
  if h : Read.Cpm.dirBlocks d = List.range (Read.Cpm.dirBlocks d).length ∧ dirBlocks d ≤ (Read.Cpm.dirBlocks d).length ∧
      (Read.Cpm.dirBlocks d).length ≤ d.dsm + 1 then isTrue ⟨h.1, h.2.1, h.2.2⟩
  else isFalse (fun k => h ⟨k.prefix_, k.cover, k.inRange⟩)

def blk (r : Raw) (i : Nat) : Bytes := (r.units[i]?).getD []
/-- the directory blocks `0 ..< dir_blocks` as one buffer -/
def dirBuf (d : Dpb) (r : Raw) : Bytes := ((List.range (dirBlocks d)).map (blk r)).flatten
/-- the stored directory: `drm+1` entries of 32 bytes -/
def dirOf (d : Dpb) (r : Raw) : Dir := (List.range (dirEntries d)).map (fun k => slice (dirBuf d r) (32 * k) 32)

theorem blockSize_pos (d : Dpb) : 0 < blockSize d := by
  unfold blockSize
  exact Nat.mul_pos (by decide) (Nat.two_pow_pos _)

theorem dir_fits (d : Dpb) : dirEntries d * 32 ≤ dirBlocks d * blockSize d := by
  have hp := blockSize_pos d
  have hdm := Nat.div_add_mod (dirEntries d * 32) (blockSize d)
  have hlt := Nat.mod_lt (dirEntries d * 32) hp
  have key : dirBlocks d = if dirEntries d * 32 % blockSize d = 0 then dirEntries d * 32 / blockSize d
      else 1 + dirEntries d * 32 / blockSize d := rfl
  rw [key]
  generalize dirEntries d * 32 / blockSize d = q at *
  generalize dirEntries d * 32 % blockSize d = m at *
  by_cases h : m = 0
  · rw [if_pos h]
    have : q * blockSize d = blockSize d * q := Nat.mul_comm _ _
    omega
  · rw [if_neg h, Nat.add_mul, Nat.one_mul]
    have : q * blockSize d = blockSize d * q := Nat.mul_comm _ _
    omega

theorem flatten_length_uniform {n : Nat} {bs : List Bytes} (h : ∀ b ∈ bs, b.length = n) : bs.flatten.length = n * bs.length := by
  induction bs with
  | nil => rfl
  | cons b bs ih =>
    simp only [List.flatten_cons, List.length_append, List.length_cons, h b List.mem_cons_self,
      ih (fun x hx => h x (List.mem_cons_of_mem _ hx))]
    rw [Nat.mul_succ]; omega

theorem blk_length {d : Dpb} {r : Raw} (hs : Shape d r) {i : Nat} (hi : i < d.dsm + 1) : (blk r i).length = blockSize d := by
  have hlt : i < r.units.size := by rw [hs.size]; exact hi
  have : r.units[i]? = some r.units[i] := Array.getElem?_eq_getElem hlt
  unfold blk
  rw [this]
  exact hs.len _ _ this

theorem dirBuf_length {d : Dpb} {r : Raw} (hs : Shape d r) (ho : DpbOk d) : (dirBuf d r).length = blockSize d * dirBlocks d := by
  unfold dirBuf
  rw [flatten_length_uniform (n := blockSize d)]
  · simp
  · intro b hb
    simp only [List.mem_map, List.mem_range] at hb
    obtain ⟨i, hi, rfl⟩ := hb
    exact blk_length hs (by have := ho.cover; have := ho.inRange; omega)

theorem slice_length {b : Bytes} {off n : Nat} (h : off + n ≤ b.length) : (slice b off n).length = n := by
  unfold slice
  rw [List.length_take, List.length_drop]
  omega

theorem dirOf_length (d : Dpb) (r : Raw) : (dirOf d r).length = dirEntries d := by
  unfold dirOf; simp

theorem dirOf_entry_length {d : Dpb} {r : Raw} (hs : Shape d r) (ho : DpbOk d) : ∀ e ∈ dirOf d r, e.length = 32 := by
  intro e he
  unfold dirOf at he
  simp only [List.mem_map, List.mem_range] at he
  obtain ⟨k, hk, rfl⟩ := he
  apply slice_length
  rw [dirBuf_length hs ho]
  have := dir_fits d
  rw [Nat.mul_comm (blockSize d)]
  omega

/-! ## reading -/

theorem readBlocks_ok {r : Raw} {is : List Nat} (h : ∀ i ∈ is, i < r.units.size) :
    readBlocks r is = .ok (is.map (blk r)) := by
  induction is with
  | nil => rfl
  | cons i is ih =>
    have hi : i < r.units.size := h i List.mem_cons_self
    have : r.units[i]? = some r.units[i] := Array.getElem?_eq_getElem hi
    simp only [readBlocks, readBlock, this, ih (fun j hj => h j (List.mem_cons_of_mem _ hj)), List.map_cons,
      blk, Option.getD_some]

/-- `get_directory` returns the stored directory -/
theorem getDirectory_eq {d : Dpb} {r : Raw} (hs : Shape d r) (ho : DpbOk d) : getDirectory d r = .ok (dirOf d r) := by
  unfold getDirectory
  rw [readBlocks_ok (by
    intro i hi
    simp only [List.mem_range] at hi
    rw [hs.size]
    have := ho.cover; have := ho.inRange; omega)]
  simp only []
  have hl : ((List.range (dirBlocks d)).map (blk r)).flatten.length = blockSize d * dirBlocks d := dirBuf_length hs ho
  rw [if_neg (by
    rw [hl]
    have := dir_fits d
    show ¬ blockSize d * dirBlocks d < dirEntries d * 32
    rw [Nat.mul_comm (blockSize d)]; omega)]
  rfl

theorem slice_append_left {a b : Bytes} {off n : Nat} (h : off + n ≤ a.length) : slice (a ++ b) off n = slice a off n := by
  unfold slice
  rw [List.drop_append_of_le_length (by omega), List.take_append_of_le_length (by rw [List.length_drop]; omega)]

theorem unit_ok {r : Raw} {i : Nat} {who : String} (h : i < r.units.size) : r.unit i who = .ok (blk r i) := by
  have : r.units[i]? = some r.units[i] := Array.getElem?_eq_getElem h
  unfold Raw.unit blk
  rw [this]; rfl

theorem mapM_unit_ok {r : Raw} {who : String} : ∀ {is : List Nat}, (∀ i ∈ is, i < r.units.size) →
    is.mapM (fun b => r.unit b who) = .ok (is.map (blk r))
  | [], _ => rfl
  | i :: is, h => by
    rw [List.mapM_cons, unit_ok (h i List.mem_cons_self), mapM_unit_ok (fun j hj => h j (List.mem_cons_of_mem _ hj))]
    rfl

/-- the independent reader sees the same directory entries as `get_directory` -/
theorem reader_ents_eq {d : Dpb} {r : Raw} (hs : Shape d r) (ho : DpbOk d) :
    entsOfBuf d (((Read.Cpm.dirBlocks d).map (blk r)).flatten) = dirOf d r := by
  obtain ⟨m, hm⟩ : ∃ m, (Read.Cpm.dirBlocks d).length = dirBlocks d + m := ⟨(Read.Cpm.dirBlocks d).length - dirBlocks d, by have := ho.cover; omega⟩
  rw [ho.prefix_, hm, List.range_add, List.map_append, List.flatten_append]
  unfold entsOfBuf dirOf
  apply List.map_congr_left
  intro k hk
  simp only [List.mem_range] at hk
  apply slice_append_left
  have hl : ((List.range (dirBlocks d)).map (blk r)).flatten.length = blockSize d * dirBlocks d := dirBuf_length hs ho
  rw [hl]
  have := dir_fits d
  rw [Nat.mul_comm (blockSize d)]
  unfold dirEntries at this
  omega

/-- under `Shape` and `DpbOk` the reader is: the per-file readings of the stored directory, assembled -/
theorem read_of_shape {d : Dpb} {r : Raw} (hs : Shape d r) (ho : DpbOk d) : Read.Cpm.read r d =
    match (keysOf (fentsOf (dirOf d r))).mapM (fileOf r d (dirOf d r) (fentsOf (dirOf d r))) with
    | .error e => .error e
    | .ok files => .ok (mkVol d files) := by
  rw [read_eq, if_neg (by show ¬ d.dsm + 1 > r.units.size; rw [hs.size]; omega)]
  rw [mapM_unit_ok (by
    intro i hi
    rw [ho.prefix_] at hi
    simp only [List.mem_range] at hi
    rw [hs.size]; have := ho.inRange; omega)]
  simp only []
  rw [reader_ents_eq hs ho]
  have hl : (((Read.Cpm.dirBlocks d).map (blk r)).flatten).length = blockSize d * (Read.Cpm.dirBlocks d).length := by
    rw [flatten_length_uniform (n := blockSize d)]
    · simp
    · intro b hb
      simp only [List.mem_map] at hb
      obtain ⟨i, hi, rfl⟩ := hb
      rw [ho.prefix_] at hi
      simp only [List.mem_range] at hi
      exact blk_length hs (by have := ho.inRange; omega)
  have hc : ¬ (((Read.Cpm.dirBlocks d).map (blk r)).flatten).length < 32 * (d.drm + 1) := by
    rw [hl]
    have h1 := dir_fits d
    have h2 : blockSize d * dirBlocks d ≤ blockSize d * (Read.Cpm.dirBlocks d).length := Nat.mul_le_mul_left _ ho.cover
    unfold dirEntries at h1
    rw [Nat.mul_comm (dirBlocks d)] at h1
    omega
  rw [if_neg hc]
  cases (keysOf (fentsOf (dirOf d r))).mapM (fileOf r d (dirOf d r) (fentsOf (dirOf d r))) <;> rfl

/-! ## writing a buffer block by block and reading it back -/

/-- what `save_directory` writes into block `k` -/
def chunkOf (bs : Nat) (buf : Bytes) (k : Nat) : Bytes := quantize bs ((buf.drop (k * bs)).take bs)

theorem quantize_length (bs : Nat) (dat : Bytes) : (quantize bs dat).length = bs := by
  unfold quantize
  simp only [List.length_append, List.length_take, List.length_replicate]
  omega

theorem chunkOf_succ (bs : Nat) (buf : Bytes) (k : Nat) : chunkOf bs buf (k + 1) = chunkOf bs (buf.drop bs) k := by
  unfold chunkOf
  rw [List.drop_drop, Nat.succ_mul, Nat.add_comm]

theorem chunkOf_zero (bs : Nat) (buf : Bytes) : chunkOf bs buf 0 = buf.take bs ++ List.replicate (bs - buf.length) 0 := by
  unfold chunkOf quantize
  rw [Nat.zero_mul, List.drop_zero, List.take_take, Nat.min_self, List.length_take]
  congr 2
  omega

theorem chunks_flatten (bs : Nat) (buf : Bytes) (k : Nat) :
    ((List.range k).map (chunkOf bs buf)).flatten = buf.take (k * bs) ++ List.replicate (k * bs - buf.length) 0 := by
  induction k generalizing buf with
  | zero => simp
  | succ k ih =>
    rw [List.range_succ_eq_map, List.map_cons, List.map_map, List.flatten_cons]
    have : (chunkOf bs buf ∘ Nat.succ) = chunkOf bs (buf.drop bs) := by
      funext j; exact chunkOf_succ bs buf j
    rw [this, ih, chunkOf_zero, List.length_drop]
    by_cases hl : bs ≤ buf.length
    · have e0 : bs - buf.length = 0 := by omega
      have e1 : (k + 1) * bs = bs + k * bs := by rw [Nat.succ_mul]; omega
      have e2 : k * bs - (buf.length - bs) = bs + k * bs - buf.length := by omega
      rw [e0, List.replicate_zero, List.append_nil, ← List.append_assoc, ← List.take_add, e1, e2]
    · have hd : buf.drop bs = [] := List.drop_of_length_le (by omega)
      have e1 : (k + 1) * bs = bs + k * bs := by rw [Nat.succ_mul]; omega
      rw [hd, List.take_nil, List.nil_append, List.take_of_length_le (by omega), List.take_of_length_le (by omega),
        List.append_assoc, List.replicate_append_replicate]
      have e3 : bs - buf.length + (k * bs - (buf.length - bs)) = (k + 1) * bs - buf.length := by omega
      rw [e3]

theorem slice_flatten_uniform {n : Nat} : ∀ (l : List Bytes), (∀ e ∈ l, e.length = n) → ∀ (k : Nat) (hk : k < l.length),
    slice l.flatten (n * k) n = l[k]
  | [], _, k, hk => by cases hk
  | e :: l, h, 0, _ => by
    have he : e.length = n := h e List.mem_cons_self
    unfold slice
    rw [Nat.mul_zero, List.drop_zero, List.flatten_cons, List.take_append_of_le_length (by omega),
      List.take_of_length_le (by omega)]
    rfl
  | e :: l, h, k + 1, hk => by
    have he : e.length = n := h e List.mem_cons_self
    have ih := slice_flatten_uniform l (fun x hx => h x (List.mem_cons_of_mem _ hx)) k (by simpa using hk)
    have hdrop : List.drop n (e ++ l.flatten) = l.flatten := by
      rw [List.drop_append_of_le_length (by omega), List.drop_of_length_le (by omega), List.nil_append]
    unfold slice at ih ⊢
    rw [List.flatten_cons, Nat.mul_succ, Nat.add_comm, ← List.drop_drop, hdrop, List.getElem_cons_succ]
    exact ih

theorem imgWrite_ok {d : Dpb} {r : Raw} {i : Nat} {dat : Bytes} (h : i < r.units.size) :
    imgWrite d r i dat = .ok { r with units := r.units.setIfInBounds i (quantize (blockSize d) dat) } := by
  unfold imgWrite; rw [if_pos h]

/-- what a loop of block writes `k ↦ chunkOf buf k` (for `k` in a list) leaves behind -/
theorem saveLoop_spec (d : Dpb) (buf : Bytes) : ∀ (ks : List Nat) (r : Raw),
    (∀ k ∈ ks, k * blockSize d ≤ buf.length ∧ k < r.units.size) →
    ∃ r', saveLoop d buf r ks = (.ok (), r') ∧ r'.units.size = r.units.size ∧
      ∀ i, r'.units[i]? = if i ∈ ks then some (chunkOf (blockSize d) buf i) else r.units[i]? := by
  intro ks
  induction ks with
  | nil => intro r _; exact ⟨r, rfl, rfl, fun i => by simp⟩
  | cons k ks ih =>
    intro r h
    obtain ⟨hk1, hk2⟩ := h k List.mem_cons_self
    have hw : writeBlock d r buf k (k * blockSize d) =
        .ok { r with units := r.units.setIfInBounds k (chunkOf (blockSize d) buf k) } := by
      unfold writeBlock
      rw [if_neg (by omega), imgWrite_ok hk2]
      rfl
    obtain ⟨r', h1, h2, h3⟩ := ih { r with units := r.units.setIfInBounds k (chunkOf (blockSize d) buf k) }
      (fun j hj => by
        obtain ⟨a, b⟩ := h j (List.mem_cons_of_mem _ hj)
        exact ⟨a, by simpa using b⟩)
    refine ⟨r', by simp only [saveLoop, hw]; exact h1, by simpa using h2, fun i => ?_⟩
    rw [h3 i]
    simp only [List.mem_cons]
    by_cases hi : i ∈ ks
    · rw [if_pos hi, if_pos (Or.inr hi)]
    · rw [if_neg hi]
      by_cases hik : i = k
      · subst hik
        rw [if_pos (Or.inl rfl)]
        simp [hk2]
      · rw [if_neg (by rintro (a | a); exact hik a; exact hi a)]
        simp only [Array.getElem?_setIfInBounds]
        rw [if_neg (by omega)]

/-- `save_directory` of a full set of 32-byte entries: it succeeds, touches only the directory blocks, keeps
the shape, and the stored directory reads back as what was saved -/
theorem saveDirectory_spec {d : Dpb} {r : Raw} {dir : Dir} (hs : Shape d r) (ho : DpbOk d)
    (hn : dir.length = dirEntries d) (he : ∀ e ∈ dir, e.length = 32) :
    ∃ r', saveDirectory d r dir = (.ok (), r') ∧ Shape d r' ∧
      (∀ i, dirBlocks d ≤ i → r'.units[i]? = r.units[i]?) ∧ dirOf d r' = dir := by
  have hfl : dir.flatten.length = 32 * dirEntries d := by rw [flatten_length_uniform he, hn]
  have hfit := dir_fits d
  have hkM : dirBlocks d ≤ d.dsm + 1 := by have := ho.cover; have := ho.inRange; omega
  obtain ⟨r', h1, h2, h3⟩ := saveLoop_spec d dir.flatten (List.range (dirBlocks d)) r (by
    intro k hk
    simp only [List.mem_range] at hk
    refine ⟨?_, by rw [hs.size]; omega⟩
    rw [hfl]
    -- k * bs ≤ (kM - 1) * bs < entries * 32: the last directory block is not empty
    have hp := blockSize_pos d
    have key : dirBlocks d = if dirEntries d * 32 % blockSize d = 0 then dirEntries d * 32 / blockSize d
        else 1 + dirEntries d * 32 / blockSize d := rfl
    have hdm := Nat.div_add_mod (dirEntries d * 32) (blockSize d)
    have hle : k * blockSize d ≤ (dirEntries d * 32 / blockSize d) * blockSize d := by
      apply Nat.mul_le_mul_right
      rw [key] at hk
      split at hk <;> omega
    have : (dirEntries d * 32 / blockSize d) * blockSize d = blockSize d * (dirEntries d * 32 / blockSize d) := Nat.mul_comm _ _
    omega)
  have hunit : ∀ i, i < dirBlocks d → r'.units[i]? = some (chunkOf (blockSize d) dir.flatten i) := by
    intro i hi
    rw [h3 i, if_pos (by simpa using hi)]
  have hother : ∀ i, dirBlocks d ≤ i → r'.units[i]? = r.units[i]? := by
    intro i hi
    rw [h3 i, if_neg (by simp only [List.mem_range]; omega)]
  have hs' : Shape d r' := by
    refine ⟨by rw [h2, hs.size], ?_⟩
    intro i b hib
    by_cases hi : i < dirBlocks d
    · rw [hunit i hi] at hib
      cases hib
      exact quantize_length _ _
    · rw [hother i (by omega)] at hib
      exact hs.len i b hib
  have hbuf : dirBuf d r' = dir.flatten ++ List.replicate (dirBlocks d * blockSize d - dir.flatten.length) 0 := by
    unfold dirBuf
    have : (List.range (dirBlocks d)).map (blk r') = (List.range (dirBlocks d)).map (chunkOf (blockSize d) dir.flatten) := by
      apply List.map_congr_left
      intro i hi
      simp only [List.mem_range] at hi
      unfold blk
      rw [hunit i hi]; rfl
    rw [this, chunks_flatten, List.take_of_length_le (by rw [hfl]; omega)]
  refine ⟨r', h1, hs', hother, ?_⟩
  apply List.ext_getElem
  · rw [dirOf_length, hn]
  · intro k hk1 hk2
    have hk3 : k < dirEntries d := by rw [dirOf_length] at hk1; exact hk1
    simp only [dirOf, List.getElem_map, List.getElem_range]
    rw [hbuf, slice_append_left (by rw [hfl]; omega)]
    exact slice_flatten_uniform dir he k hk2

end A2Verif.FsCpm
