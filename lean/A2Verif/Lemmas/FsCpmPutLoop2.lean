import A2Verif.Lemmas.FsCpmPutLoop1
/-!
# Successful `put`: the invariant of the inner write loop (`slotLoop`)
-/
namespace A2Verif.FsCpm
open A2Verif.Fs.Cpm
open A2Verif.Read.Cpm (Dpb fileKey extNum entryPtrs pathOf slots)

/-- pointer slot `k` of `e` (physical extent `x`) is what the chunk with index `x·slots + k` demands -/
def SlotOk (d : Dpb) (dir0 : Dir) (sr : Raw) (f : FImg) (x : Nat) (e : Bytes) (k : Nat) : Prop :=
  (f.chunks.lookup (x * slots d + k) = none ∧ (entryPtrs d e).getD k 0 = 0) ∨
    (∃ c, f.chunks.lookup (x * slots d + k) = some c ∧ (entryPtrs d e).getD k 0 ≠ 0 ∧ NewPtr d dir0 ((entryPtrs d e).getD k 0) ∧
      sr.units[(entryPtrs d e).getD k 0]? = some (quantize (blockSize d) c))

theorem mem_usedPtrs {d : Dpb} {sdir : Dir} {j k : Nat} {e : Bytes} (hj : sdir[j]? = some e) (hx : isExtent e = true)
    (hl : e.length = 32) (hk : k < slots d) : (entryPtrs d e).getD k 0 ∈ usedPtrs d sdir := by
  unfold usedPtrs
  rw [List.mem_flatMap]
  refine ⟨e, List.mem_of_getElem? hj, ?_⟩
  rw [if_pos hx, blockList_eq hl]
  have := entryPtrs_getElem?_of d e hk
  exact List.mem_of_getElem? this

theorem hdr_congr {user : Nat} {base typ e e' : Bytes} (hl : e'.length = 32) (h : ∀ i, i < 12 → e'.getD i 0 = e.getD i 0)
    (hh : Hdr user base typ e) : Hdr user base typ e' := by
  refine ⟨hl, by rw [h 0 (by omega)]; exact hh.user, ?_, ?_, by rw [h 9 (by omega)]; exact hh.b9⟩
  · rw [← hh.name]
    unfold name7
    exact slice_map_congr hh.len hl (by decide) (fun i _ _ => by rw [h i (by omega)])
  · rw [← hh.typ]
    unfold typ7
    exact slice_map_congr hh.len hl (by decide) (fun i _ _ => by rw [h i (by omega)])

theorem hdr_isExtent {user : Nat} {base typ e : Bytes} (hu : user < 16) (hh : Hdr user base typ e) : isExtent e = true := by
  rw [isExtent_iff, hh.user]; exact hu

/-- block 0 is reserved -/
theorem resv_zero {d : Dpb} (ho : DpbOk d) (hr : ResvOk d) : isReserved d 0 = true := by
  apply (hr 0 (by omega)).2
  rw [ho.prefix_, List.mem_range]
  have h1 := ho.cover
  have : 0 < dirBlocks d := by
    unfold dirBlocks dirEntries dirEntrySize
    simp only []
    have hp := blockSize_pos d
    split
    next hz =>
      rcases Nat.eq_zero_or_pos ((d.drm + 1) * 32 / blockSize d) with h0 | h0
      · have := Nat.div_add_mod ((d.drm + 1) * 32) (blockSize d)
        rw [h0, hz] at this
        omega
      · exact h0
    · exact Nat.lt_of_lt_of_le Nat.zero_lt_one (Nat.le_add_right 1 _)
  omega

/-- a successful `write_block` of a chunk no longer than a block -/
theorem writeBlock_spec {d : Dpb} {s s' : Raw} {chunk : Bytes} {b : Nat} (hc : chunk.length ≤ blockSize d)
    (hw : writeBlock d s chunk b 0 = .ok s') :
    s'.units[b]? = some (quantize (blockSize d) chunk) ∧ ∀ p, p ≠ b → s'.units[p]? = s.units[p]? := by
  unfold writeBlock at hw
  rw [if_neg (by omega)] at hw
  unfold imgWrite at hw
  split at hw
  next hlt =>
    cases hw
    have e : (List.drop 0 chunk).take (blockSize d) = chunk := by rw [List.drop_zero, List.take_of_length_le hc]
    rw [e]
    refine ⟨?_, ?_⟩
    · simp [Array.getElem?_setIfInBounds, hlt]
    · intro p hp
      simp only [Array.getElem?_setIfInBounds]
      rw [if_neg (fun e => hp e.symm)]
  · cases hw

theorem slotOk_stable {d : Dpb} {dir0 : Dir} {sr sr' : Raw} {f : FImg} {x k : Nat} {e : Bytes} {b : Nat}
    (hne : (entryPtrs d e).getD k 0 = 0 ∨ (entryPtrs d e).getD k 0 ≠ b) (hs : ∀ p, p ≠ b → sr'.units[p]? = sr.units[p]?)
    (h : SlotOk d dir0 sr f x e k) : SlotOk d dir0 sr' f x e k := by
  rcases h with h | ⟨c, h1, h2, h3, h4⟩
  · exact Or.inl h
  · refine Or.inr ⟨c, h1, h2, h3, ?_⟩
    rcases hne with h0 | h0
    · exact absurd h0 h2
    · rw [hs _ h0]; exact h4

theorem xent_stable {d : Dpb} {dir0 : Dir} {sr sr' : Raw} {f : FImg} {x : Nat} {e : Bytes} {b : Nat}
    (hne : ∀ k, k < slots d → (entryPtrs d e).getD k 0 = 0 ∨ (entryPtrs d e).getD k 0 ≠ b)
    (hs : ∀ p, p ≠ b → sr'.units[p]? = sr.units[p]?) (h : XEnt d dir0 sr f x e) : XEnt d dir0 sr' f x e :=
  ⟨h.ex, h.s2, h.phys, h.lt, fun k hk => slotOk_stable (hne k hk) hs (h.ptr k hk), h.last, h.full⟩

/-- setting one pointer of one entry to a block nobody references keeps the pointers distinct -/
theorem dist_set {d : Dpb} {sdir : Dir} {ptr k0 b : Nat} {fx' : Bytes} (hdist : PtrsDistinct d sdir)
    (hlen : ∀ e ∈ sdir, e.length = 32)
    (ha : ∀ k, k < slots d → k ≠ k0 → (entryPtrs d fx').getD k 0 = 0 ∨
      ∃ eo, sdir[ptr]? = some eo ∧ isExtent eo = true ∧ (entryPtrs d eo).getD k 0 = (entryPtrs d fx').getD k 0)
    (hb : (entryPtrs d fx').getD k0 0 = b) (hnb : b ∉ usedPtrs d sdir) : PtrsDistinct d (sdir.set ptr fx') := by
  intro i j ei ej k l p hi hj xi xj hk hl hp
  obtain ⟨hk1, hk2⟩ := entryPtrs_getElem? d ei hk
  obtain ⟨hl1, hl2⟩ := entryPtrs_getElem? d ej hl
  -- a pointer of `fx'` other than slot `k0` is a pointer of the old file entry at `ptr`
  have old : ∀ k, k < slots d → k ≠ k0 → (entryPtrs d fx').getD k 0 = p →
      ∃ eo, sdir[ptr]? = some eo ∧ isExtent eo = true ∧ (entryPtrs d eo)[k]? = some p := by
    intro k hk hne hpk
    rcases ha k hk hne with h0 | ⟨eo, h1, h2, h3⟩
    · rw [h0] at hpk; exact absurd hpk.symm hp
    · refine ⟨eo, h1, h2, ?_⟩
      rw [entryPtrs_getElem?_of d eo hk, h3, hpk]
  have inused : ∀ (m : Nat) (e : Bytes) (q : Nat), sdir[m]? = some e → isExtent e = true → q < slots d → (entryPtrs d e).getD q 0 = p →
      p ∈ usedPtrs d sdir := by
    intro m e q hm hx hq hpq
    rw [← hpq]
    exact mem_usedPtrs hm hx (hlen e (List.mem_of_getElem? hm)) hq
  by_cases ci : i = ptr
  · by_cases cj : j = ptr
    · rw [ci] at hi
      rw [cj] at hj
      have hlt : ptr < sdir.length := by
        have := (List.getElem?_eq_some_iff.1 hi).1
        rw [List.length_set] at this; exact this
      rw [List.getElem?_set_self hlt] at hi hj
      cases hi; cases hj
      refine ⟨by rw [ci, cj], ?_⟩
      by_cases ck : k = k0
      · by_cases cl : l = k0
        · rw [ck, cl]
        · exfalso
          obtain ⟨eo, h1, h2, h3⟩ := old l hl1 cl hl2
          apply hnb
          have : b = p := by rw [← hb, ← ck, hk2]
          rw [this]
          exact inused ptr eo l h1 h2 hl1 (entryPtrs_getElem? d eo h3).2
      · by_cases cl : l = k0
        · exfalso
          obtain ⟨eo, h1, h2, h3⟩ := old k hk1 ck hk2
          apply hnb
          have : b = p := by rw [← hb, ← cl, hl2]
          rw [this]
          exact inused ptr eo k h1 h2 hk1 (entryPtrs_getElem? d eo h3).2
        · obtain ⟨eo, h1, h2, h3⟩ := old k hk1 ck hk2
          obtain ⟨eo', h1', h2', h3'⟩ := old l hl1 cl hl2
          rw [h1] at h1'; cases h1'
          exact (hdist ptr ptr eo eo k l p h1 h1 h2 h2 h3 h3' hp).2
    · exfalso
      rw [ci] at hi
      have hlt : ptr < sdir.length := by
        have := (List.getElem?_eq_some_iff.1 hi).1
        rw [List.length_set] at this; exact this
      rw [List.getElem?_set_self hlt] at hi
      cases hi
      rw [List.getElem?_set_ne (fun e => cj e.symm)] at hj
      have hpu : p ∈ usedPtrs d sdir := inused j ej l hj xj hl1 hl2
      by_cases ck : k = k0
      · apply hnb
        have : b = p := by rw [← hb, ← ck, hk2]
        rw [this]; exact hpu
      · obtain ⟨eo, h1, h2, h3⟩ := old k hk1 ck hk2
        exact cj (hdist ptr j eo ej k l p h1 hj h2 xj h3 hl hp).1.symm
  · by_cases cj : j = ptr
    · exfalso
      rw [cj] at hj
      have hlt : ptr < sdir.length := by
        have := (List.getElem?_eq_some_iff.1 hj).1
        rw [List.length_set] at this; exact this
      rw [List.getElem?_set_self hlt] at hj
      cases hj
      rw [List.getElem?_set_ne (fun e => ci e.symm)] at hi
      have hpu : p ∈ usedPtrs d sdir := inused i ei k hi xi hk1 hk2
      by_cases cl : l = k0
      · apply hnb
        have : b = p := by rw [← hb, ← cl, hl2]
        rw [this]; exact hpu
      · obtain ⟨eo, h1, h2, h3⟩ := old l hl1 cl hl2
        exact ci (hdist i ptr ei eo k l p hi h1 xi h2 hk h3 hp).1
    · rw [List.getElem?_set_ne (fun e => ci e.symm)] at hi
      rw [List.getElem?_set_ne (fun e => cj e.symm)] at hj
      exact hdist i j ei ej k l p hi hj xi xj hk hl hp

/-- replacing an entry by one with the same pointers (or a non-file entry by one without pointers) keeps the pointers distinct -/
theorem dist_set_same {d : Dpb} {sdir : Dir} {ptr : Nat} {e' : Bytes} (hdist : PtrsDistinct d sdir)
    (ha : ∀ k, k < slots d → (entryPtrs d e').getD k 0 = 0 ∨
      ∃ eo, sdir[ptr]? = some eo ∧ isExtent eo = true ∧ (entryPtrs d eo).getD k 0 = (entryPtrs d e').getD k 0) :
    PtrsDistinct d (sdir.set ptr e') := by
  intro i j ei ej k l p hi hj xi xj hk hl hp
  obtain ⟨hk1, hk2⟩ := entryPtrs_getElem? d ei hk
  obtain ⟨hl1, hl2⟩ := entryPtrs_getElem? d ej hl
  have old : ∀ k, k < slots d → (entryPtrs d e').getD k 0 = p →
      ∃ eo, sdir[ptr]? = some eo ∧ isExtent eo = true ∧ (entryPtrs d eo)[k]? = some p := by
    intro k hk hpk
    rcases ha k hk with h0 | ⟨eo, h1, h2, h3⟩
    · rw [h0] at hpk; exact absurd hpk.symm hp
    · refine ⟨eo, h1, h2, ?_⟩
      rw [entryPtrs_getElem?_of d eo hk, h3, hpk]
  have get : ∀ (m : Nat) (e : Bytes) (q : Nat), (sdir.set ptr e')[m]? = some e → isExtent e = true → (entryPtrs d e)[q]? = some p →
      ∃ eo, sdir[m]? = some eo ∧ isExtent eo = true ∧ (entryPtrs d eo)[q]? = some p := by
    intro m e q hm hx hq
    by_cases c : m = ptr
    · rw [c] at hm ⊢
      have hlt : ptr < sdir.length := by
        have := (List.getElem?_eq_some_iff.1 hm).1
        rw [List.length_set] at this; exact this
      rw [List.getElem?_set_self hlt] at hm
      cases hm
      obtain ⟨q1, q2⟩ := entryPtrs_getElem? d _ hq
      exact old q q1 q2
    · rw [List.getElem?_set_ne (fun e' => c e'.symm)] at hm
      exact ⟨e, hm, hx, hq⟩
  obtain ⟨eo, a1, a2, a3⟩ := get i ei k hi xi hk
  obtain ⟨eo', b1, b2, b3⟩ := get j ej l hj xj hl
  exact hdist i j eo eo' k l p a1 b1 a2 b2 a3 b3 hp

end A2Verif.FsCpm
