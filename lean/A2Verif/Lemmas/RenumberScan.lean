import A2Verif.Lemmas.RenumberDoc
/-!
Part 14 (C16): `replace_range` for the edits of the move path — ranges that span two rows (the deletion
`(l,0)-(l+1,0)`), the insertion of a multi-line text at column 0 of a row or behind the last row, and the
insertion of a line separator at the end of a row.
-/
namespace A2Verif.Lemmas.Renumber
open A2Verif.Model.Renumber

/-- flat offset of row `k` in the text of the rows `ls` -/
def off (ls : List (List Nat)) (k : Nat) : Nat := (joinT (ls.take k)).length

theorem off_zero (ls : List (List Nat)) : off ls 0 = 0 := by simp [off, joinT]

theorem off_cons_succ (l : List Nat) (ls : List (List Nat)) (k : Nat) :
    off (l :: ls) (k + 1) = l.length + 1 + off ls k := by
  simp [off, joinT]
  omega

/-- the loop of `replace_range` once the start row has been passed -/
theorem scan_end (rng : Range) (ls : List (List Nat)) (curr sc ec k : Nat)
    (hs : rng.s.line < curr) (he : rng.e.line = curr + k) (hk : k < ls.length) :
    scan rng ls curr sc ec true = (sc, ec + off ls k + rng.e.ch, true, true) := by
  induction ls generalizing curr ec k with
  | nil => cases hk
  | cons l ls ih =>
    have h1 : ¬ rng.s.line = curr := by omega
    cases k with
    | zero => simp [scan, h1, he, off_zero]
    | succ k =>
      have h2 : ¬ rng.e.line = curr := by omega
      have := ih (curr + 1) (ec + (l.length + 1)) k (by omega) (by omega) (by simpa using hk)
      simp only [scan, h1, h2, ↓reduceIte, Bool.not_true, Bool.false_eq_true, this, off_cons_succ]
      simp only [Prod.mk.injEq, and_true, true_and]
      omega

/-- closed form of the loop of `replace_range` for a range from row `curr+k1` to row `curr+k2` -/
theorem scan_two (rng : Range) (ls : List (List Nat)) (curr sc ec k1 k2 : Nat)
    (hs : rng.s.line = curr + k1) (he : rng.e.line = curr + k2) (h12 : k1 ≤ k2) (hk : k2 < ls.length) :
    scan rng ls curr sc ec false = (sc + off ls k1 + rng.s.ch, ec + off ls k2 + rng.e.ch, true, true) := by
  induction ls generalizing curr sc ec k1 k2 with
  | nil => cases hk
  | cons l ls ih =>
    cases k1 with
    | zero =>
      cases k2 with
      | zero => simp [scan, hs, he, off_zero]
      | succ k2 =>
        have h2 : ¬ rng.e.line = curr := by omega
        have hs' : rng.s.line = curr := by omega
        have := scan_end rng ls (curr + 1) (sc + rng.s.ch) (ec + (l.length + 1)) k2 (by omega) (by omega)
          (by simpa using hk)
        simp only [scan, hs', h2, ↓reduceIte, Bool.not_true, Bool.false_eq_true, this, off_cons_succ, off_zero]
        simp only [Prod.mk.injEq, and_true]
        omega
    | succ k1 =>
      cases k2 with
      | zero => omega
      | succ k2 =>
        have h1 : ¬ rng.s.line = curr := by omega
        have h2 : ¬ rng.e.line = curr := by omega
        have := ih (curr + 1) (sc + (l.length + 1)) (ec + (l.length + 1)) k1 k2 (by omega) (by omega) (by omega)
          (by simpa using hk)
        simp only [scan, h1, h2, ↓reduceIte, Bool.not_false, this, off_cons_succ]
        simp only [Prod.mk.injEq, and_true]
        omega

/-- the end row does not exist: `found_end` stays false -/
theorem scan_end_none (rng : Range) (ls : List (List Nat)) (curr sc ec : Nat) (fs : Bool)
    (he : curr + ls.length ≤ rng.e.line) :
    (scan rng ls curr sc ec fs).2.2.2 = false := by
  induction ls generalizing curr sc ec fs with
  | nil => simp [scan]
  | cons l ls ih =>
    have h2 : ¬ rng.e.line = curr := by simp at he; omega
    simp only [scan, h2, ↓reduceIte]
    split <;> exact ih _ _ _ _ (by simp at he ⊢; omega)

/-- neither row exists: `found_start` stays false -/
theorem scan_start_none (rng : Range) (ls : List (List Nat)) (curr sc ec : Nat)
    (hs : curr + ls.length ≤ rng.s.line) (he : curr + ls.length ≤ rng.e.line) :
    (scan rng ls curr sc ec false).2.2.1 = false := by
  induction ls generalizing curr sc ec with
  | nil => simp [scan]
  | cons l ls ih =>
    have h1 : ¬ rng.s.line = curr := by simp at hs; omega
    have h2 : ¬ rng.e.line = curr := by simp at he; omega
    simp only [scan, h1, h2, ↓reduceIte, Bool.not_false]
    exact ih _ _ _ (by simp at hs ⊢; omega) (by simp at he ⊢; omega)

/-- `replace_range` for a range from row `r1` to row `r2`, both existing -/
theorem replaceRange_two (d : List Nat) (r1 s r2 e : Nat) (new : List Nat)
    (h12 : r1 ≤ r2) (hr : r2 < (splitLines d).length) :
    replaceRange d ⟨⟨r1, s⟩, ⟨r2, e⟩⟩ new =
      if off (splitLines d) r1 + s ≤ off (splitLines d) r2 + e ∧ off (splitLines d) r2 + e ≤ d.length then
        .ok (d.take (off (splitLines d) r1 + s) ++ crlfToLf new ++ d.drop (off (splitLines d) r2 + e))
      else .panic := by
  unfold replaceRange
  simp only []
  rw [scan_two ⟨⟨r1, s⟩, ⟨r2, e⟩⟩ (splitLines d) 0 0 0 r1 r2 (by simp) (by simp) h12 hr]
  simp only [Nat.zero_add, Bool.and_self, ↓reduceIte]

/-- the special case of `replace_range`: insertion behind the last row -/
theorem replaceRange_push (d : List Nat) (new : List Nat) :
    replaceRange d ⟨⟨(splitLines d).length, 0⟩, ⟨(splitLines d).length, 0⟩⟩ new = .ok (d ++ crlfToLf new) := by
  unfold replaceRange
  simp only []
  have h1 := scan_start_none ⟨⟨(splitLines d).length, 0⟩, ⟨(splitLines d).length, 0⟩⟩ (splitLines d) 0 0 0
    (by simp) (by simp)
  generalize scan _ (splitLines d) 0 0 0 false = r at h1
  obtain ⟨a, b, fs, fe⟩ := r
  simp only at h1
  subst h1
  simp

/-- a range whose end row does not exist and that is not the insertion behind the last row is an `Err` -/
theorem replaceRange_noend (d : List Nat) (r1 s r2 e : Nat) (new : List Nat)
    (hr : (splitLines d).length ≤ r2) (hne : r1 ≠ (splitLines d).length) :
    replaceRange d ⟨⟨r1, s⟩, ⟨r2, e⟩⟩ new = .err := by
  unfold replaceRange
  simp only []
  have h1 := scan_end_none ⟨⟨r1, s⟩, ⟨r2, e⟩⟩ (splitLines d) 0 0 0 false (by simpa using hr)
  generalize scan _ (splitLines d) 0 0 0 false = r at h1
  obtain ⟨a, b, fs, fe⟩ := r
  simp only at h1
  subst h1
  simp [hne]

/-! the text of rows, cut at a row boundary -/

theorem joinT_take_drop (ls : List (List Nat)) (k : Nat) : joinT ls = joinT (ls.take k) ++ joinT (ls.drop k) := by
  rw [← joinT_append, List.take_append_drop]

theorem take_off (ls : List (List Nat)) (k : Nat) : (joinT ls).take (off ls k) = joinT (ls.take k) := by
  conv => lhs; rw [joinT_take_drop ls k]
  unfold off
  rw [List.take_append_of_le_length (Nat.le_refl _), List.take_of_length_le (Nat.le_refl _)]

theorem drop_off (ls : List (List Nat)) (k : Nat) : (joinT ls).drop (off ls k) = joinT (ls.drop k) := by
  conv => lhs; rw [joinT_take_drop ls k]
  unfold off
  rw [List.drop_append_of_le_length (Nat.le_refl _), List.drop_of_length_le (Nat.le_refl _)]
  simp

theorem off_le (ls : List (List Nat)) (k : Nat) : off ls k ≤ (joinT ls).length := by
  conv => rhs; rw [joinT_take_drop ls k]
  unfold off; simp

theorem off_mono (ls : List (List Nat)) (j k : Nat) (h : j ≤ k) : off ls j ≤ off ls k := by
  unfold off
  have : ls.take j = (ls.take k).take j := by rw [List.take_take]; congr 1; omega
  rw [this]
  exact off_le (ls.take k) j

/-- **deletion of a row**: `(l,0)-(l+1,0)` on a text of `\n`-terminated rows, row `l+1` existing -/
theorem replaceRange_del (ls : List (List Nat)) (h : ∀ l ∈ ls, NoNl l) (l : Nat) (hl : l + 1 < ls.length) :
    replaceRange (joinT ls) ⟨⟨l, 0⟩, ⟨l + 1, 0⟩⟩ [] = .ok (joinT (ls.eraseIdx l)) := by
  have hs := splitLines_joinT ls h
  rw [replaceRange_two (joinT ls) l 0 (l + 1) 0 [] (by omega) (by rw [hs]; exact hl), hs]
  have := off_mono ls l (l + 1) (by omega)
  have := off_le ls (l + 1)
  rw [if_pos (by omega)]
  simp only [Nat.add_zero, take_off, drop_off, crlfToLf, List.append_nil]
  rw [List.eraseIdx_eq_take_drop_succ, joinT_append]

/-- deletion of the last row: the end position `(l+1,0)` does not exist, `Err` -/
theorem replaceRange_del_last (ls : List (List Nat)) (h : ∀ l ∈ ls, NoNl l) (l : Nat) (hl : l + 1 = ls.length) :
    replaceRange (joinT ls) ⟨⟨l, 0⟩, ⟨l + 1, 0⟩⟩ [] = .err := by
  have hs := splitLines_joinT ls h
  exact replaceRange_noend _ _ _ _ _ _ (by rw [hs]; omega) (by rw [hs]; omega)

/-- **insertion at column 0 of an existing row** -/
theorem replaceRange_ins (ls : List (List Nat)) (h : ∀ l ∈ ls, NoNl l) (r : Nat) (hr : r < ls.length)
    (new : List Nat) (B : List (List Nat)) (hB : crlfToLf new = joinT B) :
    replaceRange (joinT ls) ⟨⟨r, 0⟩, ⟨r, 0⟩⟩ new = .ok (joinT (ls.take r ++ B ++ ls.drop r)) := by
  have hs := splitLines_joinT ls h
  rw [replaceRange_two (joinT ls) r 0 r 0 new (by omega) (by rw [hs]; exact hr), hs]
  have := off_le ls r
  rw [if_pos (by omega)]
  simp only [Nat.add_zero, take_off, drop_off, hB, joinT_append]

/-- insertion behind the last row -/
theorem replaceRange_ins_end (ls : List (List Nat)) (h : ∀ l ∈ ls, NoNl l)
    (new : List Nat) (B : List (List Nat)) (hB : crlfToLf new = joinT B) :
    replaceRange (joinT ls) ⟨⟨ls.length, 0⟩, ⟨ls.length, 0⟩⟩ new = .ok (joinT (ls ++ B)) := by
  have hs := splitLines_joinT ls h
  have := replaceRange_push (joinT ls) new
  rw [hs] at this
  rw [this, hB, joinT_append]

/-- **a line separator inserted at the end of row `r`** opens an empty row behind it -/
theorem replaceRange_nl (ls : List (List Nat)) (h : ∀ l ∈ ls, NoNl l) (r : Nat) (l : List Nat)
    (hr : ls[r]? = some l) (sep : List Nat) (hsep : crlfToLf sep = [10]) :
    replaceRange (joinT ls) ⟨⟨r, l.length⟩, ⟨r, l.length⟩⟩ sep =
      .ok (joinT (ls.take (r + 1) ++ [[]] ++ ls.drop (r + 1))) := by
  have hs := splitLines_joinT ls h
  have hrl : r < ls.length := by
    rcases Nat.lt_or_ge r ls.length with h' | h'
    · exact h'
    · rw [List.getElem?_eq_none h'] at hr; cases hr
  rw [replaceRange_two (joinT ls) r l.length r l.length sep (by omega) (by rw [hs]; exact hrl), hs]
  have hsplit : ls = ls.take r ++ l :: ls.drop (r + 1) := by
    obtain ⟨_, hl⟩ := List.getElem?_eq_some_iff.mp hr
    rw [← hl]; simp
  have hdoc : joinT ls = joinT (ls.take r) ++ (l ++ 10 :: joinT (ls.drop (r + 1))) := by
    conv => lhs; rw [hsplit]
    simp [joinT]
  have hlen := joinT_length_split ls r l hr
  rw [if_pos (by unfold off; omega)]
  congr 1
  have htk : ls.take (r + 1) = ls.take r ++ [l] := by
    rw [List.take_add_one, hr]; rfl
  have hrhs : joinT (ls.take (r + 1) ++ [[]] ++ ls.drop (r + 1)) =
      joinT (ls.take r) ++ (l ++ 10 :: 10 :: joinT (ls.drop (r + 1))) := by
    rw [htk]; simp [joinT]
  rw [hrhs, hsep]
  unfold off
  rw [hdoc]
  generalize joinT (List.take r ls) = P
  generalize joinT (List.drop (r + 1) ls) = Q
  have e0 : List.take (P.length + l.length) P = P := List.take_of_length_le (by omega)
  have e1 : List.take (P.length + l.length) (P ++ (l ++ 10 :: Q)) = P ++ l := by
    rw [List.take_append, e0]; simp
  have e2 : List.drop (P.length + l.length) (P ++ (l ++ 10 :: Q)) = 10 :: Q := by
    rw [List.drop_append]; simp
  rw [e1, e2]
  simp

end A2Verif.Lemmas.Renumber
