import A2Verif.Lemmas.FsProdosOpCtx
/-!
# `modify` (behind `lock`, `unlock`, `retype`, `rename`): the model step and the patched image

`modify_trace`: from either buffer state, `modify` rewrites the slot with `modEntry … e0` (one `write_block`).
`entry_patch`: the image with one slot replaced is a `DirPatch`.  `readFile_same`: an entry with the same storage type, key
pointer and block count yields the same chunks and blocks; the other fields of the record come from the new entry (`reRec`).
-/
namespace A2Verif.FsProdos
open A2Verif.Fs.Prodos
open A2Verif.Read.Prodos (entryAt dirChain idxPtr indexEntries readData trimName bitmapFree)
open A2Verif.Read.ProdosT

/-- the record of the entry `e'`, with the chunks and blocks of the record `f` -/
def reRec (e' pfx : Bytes) (f : FileRec) : FileRec := { baseRec e' pfx with chunks := f.chunks, owned := f.owned }

/-- `e'` leads to the same blocks as `e`: same storage type, key pointer, block count -/
structure SameBlocks (e e' : Bytes) : Prop where
  st : e'.getD 0 0 / 16 = e.getD 0 0 / 16
  key : le16 e' 0x11 = le16 e 0x11
  used : le16 e' 0x13 = le16 e 0x13

theorem readFile_same (x : Raw) (total : Nat) (e e' pfx : Bytes) (h : SameBlocks e e') :
    Read.ProdosT.readFile x total e' pfx = (Read.ProdosT.readFile x total e pfx).map (reRec e' pfx) := by
  unfold Read.ProdosT.readFile
  simp only
  rw [h.st, h.key, h.used]
  split
  · cases x.unit (le16 e 0x11) "data-block" with
    | error y => rfl
    | ok d => simp only; split <;> rfl
  · split
    · cases x.unit (le16 e 0x11) "index-block" with
      | error y => rfl
      | ok ib =>
        simp only
        cases readData x total (indexEntries ib 0) with
        | error y => rfl
        | ok cs => simp only; split <;> rfl
    · cases x.unit (le16 e 0x11) "master-index-block" with
      | error y => rfl
      | ok mb =>
        simp only
        cases List.mapM (treeIndex x total)
            ((List.range 128).filterMap (fun k => if idxPtr mb k = 0 then none else some (k, idxPtr mb k))) with
        | error y => rfl
        | ok parts => simp only; split <;> rfl

/-- **`modify` as a step**, for slot `k + 1` of block `B` of the volume directory -/
theorem modify_trace {d : Disk} {bm cnt : Nat} {ch : List Nat} (c : RootCtx d bm cnt ch)
    (B k : Nat) (hB : B ∈ ch) (hk13 : k < 13) (hkey : B = 2 → 1 ≤ k)
    (lock : Option Bool) (newName : Option Bytes) (newType : Option (Option Nat)) (newAux : Option Nat)
    (hty : newType ≠ some none)
    (hren : ¬ (Ent.access (entryAt (unitAt d.raw B) k 39) &&& 0x40 = 0 ∧ newName.isSome = true))
    (hcov : B / 8 < (effBuf d bm cnt).size) (hlen : (unitAt d.raw B).length = 512) :
    ∃ d1, Fs.Prodos.modify { block := B, idx := k + 1 } lock newName newType newAux d = (.ok (), d1) ∧
      Next d d1 bm cnt
        (setUnit d.raw B (patched (unitAt d.raw B) (4 + k * 39)
          ((modEntry lock newName newType newAux (entryAt (unitAt d.raw B) k 39)).take entryLen)))
        (clearBit (effBuf d bm cnt) B) := by
  have hBsz : B < d.raw.units.size := c.chain.exists B hB
  have hBnb : B ∉ bmRange bm cnt := c.nb B hB
  have hoff : Dir.entryOff (k + 1) = 4 + k * 39 := by rw [entryOff_eq' _ (by omega)]; simp
  have hgd := getDirectory_st c.st B (unitAt d.raw B) hBnb (units_get_unitAt _ _ hBsz)
  have hge := getEntry_slot c.kinds B k hB hk13 hkey
  have hidx := idxOk_slot c.kinds B k hB hk13 hkey
  have hhdr : ∀ (e : Bytes), B = 2 →
      le16 (quantize ((splice ((unitAt d.raw B).take dirLen) (Dir.entryOff (k + 1)) (e.take entryLen)).take blockSize)) 39 = bm := by
    intro e hb2
    have hk1 := hkey hb2
    show le16 (patched (unitAt d.raw B) (Dir.entryOff (k + 1)) (e.take entryLen)) 39 = bm
    have hl : (e.take entryLen).length ≤ 39 := by rw [List.length_take]; unfold entryLen; omega
    rw [hoff, le16_patched_out _ _ _ 39 hlen (by omega) (Or.inl (by omega)) (by omega)]
    obtain ⟨kb, hkb, hbm⟩ := c.st.hdr
    rw [hb2, unitAt_of_get hkb]; exact hbm
  have hwe : ∀ (e : Bytes), ∃ d1, writeEntry { block := B, idx := k + 1 } e d = (.ok (), d1) ∧
      Next d d1 bm cnt (setUnit d.raw B (patched (unitAt d.raw B) (4 + k * 39) (e.take entryLen))) (clearBit (effBuf d bm cnt) B) := by
    intro e
    obtain ⟨d1, hd1, n1⟩ := writeBlock_next c.st (splice ((unitAt d.raw B).take dirLen) (Dir.entryOff (k + 1)) (e.take entryLen)) B hBnb
      hBsz hcov (hhdr e)
    refine ⟨d1, ?_, ?_⟩
    · unfold writeEntry
      simp only [bind_def]
      rw [bind_ok _ _ d d _ hgd]
      simp only [Dir.setEntry, hidx, ↓reduceIte]
      rw [bind_ok _ _ d d _ (ofOption_some _ d)]
      exact hd1
    · have : quantize ((splice ((unitAt d.raw B).take dirLen) (Dir.entryOff (k + 1)) (e.take entryLen)).take blockSize) =
          patched (unitAt d.raw B) (4 + k * 39) (e.take entryLen) := by rw [← hoff]; rfl
      rw [this] at n1
      exact n1
  rcases newType with _ | (_ | t)
  · obtain ⟨d1, hd1, n1⟩ := hwe (modEntry lock newName none newAux (entryAt (unitAt d.raw B) k 39))
    refine ⟨d1, ?_, n1⟩
    unfold Fs.Prodos.modify
    simp only [bind_def]
    rw [bind_ok _ _ d d _ hgd]
    simp only [hge]
    rw [bind_ok _ _ d d _ (ofOption_some _ d)]
    rw [if_neg hren]
    exact hd1
  · exact absurd rfl hty
  · obtain ⟨d1, hd1, n1⟩ := hwe (modEntry lock newName (some (some t)) newAux (entryAt (unitAt d.raw B) k 39))
    refine ⟨d1, ?_, n1⟩
    unfold Fs.Prodos.modify
    simp only [bind_def]
    rw [bind_ok _ _ d d _ hgd]
    simp only [hge]
    rw [bind_ok _ _ d d _ (ofOption_some _ d)]
    rw [if_neg hren]
    exact hd1

/-- the image with slot `k + 1` of block `B` replaced by the 39 bytes `new` is a `DirPatch` -/
theorem entry_patch {r : Raw} {ch : List Nat} {B k : Nat} (new : Bytes)
    (hshape : ∀ b ∈ ch, b < r.units.size ∧ (unitAt r b).length = 512 ∧ ∀ x ∈ unitAt r b, x < 256)
    (hB : B ∈ ch) (h2 : 2 ∈ ch) (hk : k < 13) (hkey : B = 2 → 1 ≤ k) (hnl : new.length ≤ 39) (hnb : ∀ x ∈ new, x < 256) :
    DirPatch r (setUnit r B (patched (unitAt r B) (4 + k * 39) new)) ch B k := by
  have hBsz := (hshape B hB).1
  have hlenB := (hshape B hB).2.1
  have hun : ∀ b, unitAt (setUnit r B (patched (unitAt r B) (4 + k * 39) new)) b =
      if b = B then patched (unitAt r B) (4 + k * 39) new else unitAt r b := by
    intro b
    by_cases hb : b = B
    · subst hb; rw [if_pos rfl]; unfold unitAt; rw [setUnit_self _ _ _ hBsz]; rfl
    · rw [if_neg hb, unitAt_setUnit_other _ _ _ _ (Ne.symm hb)]
  have hsame : ∀ b ∈ ch, ∀ j, j < 511 → (b = B → j < 4 + k * 39 ∨ 4 + k * 39 + 39 ≤ j) →
      (unitAt (setUnit r B (patched (unitAt r B) (4 + k * 39) new)) b).getD j 0 = (unitAt r b).getD j 0 := by
    intro b hb j hj hout
    rw [hun b]
    split
    · next hbB =>
      subst hbB
      rw [getD_patched_out _ _ _ j hlenB (by omega) (by have := hout rfl; omega) hj]
    · rfl
  refine ⟨setUnit_size _ _ _, ?_, ?_, ?_, ?_⟩
  · intro b hb
    unfold le16
    rw [hsame b hb 0 (by omega) (fun _ => Or.inl (by omega)), hsame b hb 1 (by omega) (fun _ => Or.inl (by omega)),
      hsame b hb 2 (by omega) (fun _ => Or.inl (by omega)), hsame b hb 3 (by omega) (fun _ => Or.inl (by omega))]
    exact ⟨rfl, rfl⟩
  · intro j hj
    apply hsame 2 h2 j (by omega)
    intro hb2; have := hkey hb2.symm; left; omega
  · intro b hb k' hk' hkey' hne
    unfold entryAt
    apply slice_congr _ _ _ _ (by
      rw [hun b]; split
      · next hbB => rw [patched_length, hbB, hlenB]
      · rfl)
    intro j hj1 hj2
    apply hsame b hb j (by omega)
    intro hbB
    have hkk : k' ≠ k := fun e => hne (by rw [hbB, e])
    have : k' < k ∨ k < k' := by omega
    rcases this with h | h
    · have : k' * 39 + 39 ≤ k * 39 := by have := Nat.mul_le_mul_right 39 (show k' + 1 ≤ k by omega); omega
      left; omega
    · have : k * 39 + 39 ≤ k' * 39 := by have := Nat.mul_le_mul_right 39 (show k + 1 ≤ k' by omega); omega
      right; omega
  · intro b hb
    rw [hun b]
    split
    · exact ⟨patched_length _ _ _, patched_bytes _ _ _ hlenB (by omega) (hshape B hB).2.2 hnb⟩
    · exact ⟨(hshape b hb).2.1, (hshape b hb).2.2⟩

end A2Verif.FsProdos
