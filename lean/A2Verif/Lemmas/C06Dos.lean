import A2Verif.Lemmas.C06Bytes
import A2Verif.Lemmas.FsDosBytes
/-!
# C06, DOS 3.x: a working state and its saved-and-reloaded twin cannot be told apart

The DOS 3.x object keeps the VTOC in memory (`maybe_vtoc`); allocation, de-allocation and `last_track` change only
the buffer, `get_img()` writes it back.  After `save`/`load` the buffer is closed and is re-opened from track 17
sector 0 at the next operation.  The simulation relation `Sim w w'` says: same geometry, **same buffer**, and the two
images agree everywhere except possibly at the VTOC sector itself (stale in the object that was never saved).  Every
primitive of the model respects it — the VTOC sector is served from the buffer by `read_sector` and `write_sector`
refuses to touch it — hence every operation does (`Resp`), by induction over the loops of the model.
The relation also carries the coherence facts (`Coh`) that make the re-opened buffer equal the written one: the
buffer has the 196 bytes of `struct VTOC`, `max_pairs` passes the test of `open_vtoc_buffer`, the sectors are 256
bytes, the VTOC sector is inside the image.
-/
namespace A2Verif.Reload.Dos
open A2Verif.Fs.Dos3x

@[simp] theorem bind_apply {α β : Type} (m : M α) (f : α → M β) (w : W) :
    (m >>= f) w = match m w with
      | (.ok a, w') => f a w'
      | (.error e, w') => (.error e, w') := rfl
@[simp] theorem pure_apply {α : Type} (a : α) (w : W) : (pure a : M α) w = (.ok a, w) := rfl

/-- the VTOC unit is addressed by `(17, 0)` only -/
theorem unit_idx {c t s : Nat} (hs : s < c) : (t * c + s = vtocTrack * c) ↔ (t = vtocTrack ∧ s = 0) := by
  constructor
  · intro h
    have h1 : (t * c + s) / c = t := by
      rw [Nat.mul_comm, Nat.mul_add_div (by omega), Nat.div_eq_of_lt hs, Nat.add_zero]
    have h2 : (vtocTrack * c) / c = vtocTrack := Nat.mul_div_cancel _ (by omega)
    have ht : t = vtocTrack := by rw [← h1, h, h2]
    subst ht
    exact ⟨rfl, by omega⟩
  · rintro ⟨rfl, rfl⟩; rfl

theorem quantize_length (d : Bytes) : (quantize d).length = 256 := by
  unfold quantize
  simp only [List.length_append, List.length_take, List.length_replicate, sectorSize]
  omega

/-- coherence of a working state: what makes "write the buffer back, read it again" the identity -/
structure WCoh (w : W) : Prop where
  vlen : w.v.length = 196
  pairsLo : 1 ≤ Vtoc.maxPairs w.v
  pairsHi : Vtoc.maxPairs w.v ≤ 122
  shaped : Shaped 256 w.raw
  vtocIn : vtocTrack < imgTracks w.c w.raw
  cpos : 0 < w.c

/-- same buffer, same geometry, images equal off the VTOC sector; the left state is coherent -/
structure Sim (w w' : W) : Prop where
  c : w'.c = w.c
  v : w'.v = w.v
  ulen : w'.raw.unitLen = w.raw.unitLen
  size : w'.raw.units.size = w.raw.units.size
  off : ∀ u, u ≠ vtocTrack * w.c → w'.raw.units[u]? = w.raw.units[u]?
  coh : WCoh w
  shaped' : Shaped 256 w'.raw

theorem Sim.refl {w : W} (h : WCoh w) : Sim w w := ⟨rfl, rfl, rfl, rfl, fun _ _ => rfl, h, h.shaped⟩

theorem Sim.coh' {w w' : W} (h : Sim w w') : WCoh w' :=
  ⟨by rw [h.v]; exact h.coh.vlen, by rw [h.v]; exact h.coh.pairsLo, by rw [h.v]; exact h.coh.pairsHi, h.shaped',
   by have := h.coh.vtocIn; unfold imgTracks at *; rw [h.size, h.c]; exact this, by rw [h.c]; exact h.coh.cpos⟩

/-- an operation of the model that cannot tell related states apart and keeps them related -/
structure Resp {α : Type} (m : M α) : Prop where
  out : ∀ w w', Sim w w' → (m w').1 = (m w).1 ∧ Sim (m w).2 (m w').2

/-! ## closure -/

theorem Resp.pure {α : Type} (a : α) : Resp (pure a : M α) := ⟨fun _ _ h => ⟨rfl, h⟩⟩
theorem Resp.pure' {α : Type} (a : α) : Resp (M.pure a : M α) := ⟨fun _ _ h => ⟨rfl, h⟩⟩
theorem Resp.fail {α : Type} (e : Err) : Resp (M.fail e : M α) := ⟨fun _ _ h => ⟨rfl, h⟩⟩
theorem Resp.lift {α : Type} (x : R α) : Resp (M.lift x) := ⟨fun _ _ h => ⟨rfl, h⟩⟩
theorem Resp.getV : Resp M.getV := ⟨fun _ _ h => ⟨by show Except.ok _ = Except.ok _; rw [h.v], h⟩⟩

theorem Resp.bind {α β : Type} {m : M α} {f : α → M β} (hm : Resp m) (hf : ∀ a, Resp (f a)) : Resp (m >>= f) := by
  constructor
  intro w w' h
  obtain ⟨e1, s1⟩ := hm.out w w' h
  simp only [bind_apply]
  rcases hw : m w with ⟨x, w1⟩
  rcases hw' : m w' with ⟨x', w1'⟩
  rw [hw, hw'] at e1 s1
  simp only at e1 s1
  subst e1
  cases x' with
  | error e => exact ⟨rfl, s1⟩
  | ok a => exact (hf a).out w1 w1' s1

theorem Resp.ite {α : Type} {c : Prop} [Decidable c] {a b : M α} (ha : Resp a) (hb : Resp b) : Resp (if c then a else b) := by
  split <;> assumption

/-! ## the primitives -/

theorem imgRead_sim {w w' : W} (h : Sim w w') {t s : Nat} (hne : ¬ (t = vtocTrack ∧ s = 0)) :
    imgRead w'.c w'.raw t s = imgRead w.c w.raw t s := by
  unfold imgRead imgTracks
  rw [h.c, h.size]
  split
  · rfl
  · next hg =>
    have hs : s < w.c := by omega
    rw [h.off _ (fun hu => hne ((unit_idx hs).1 hu))]

theorem readSector_sim {w w' : W} (h : Sim w w') (data : Bytes) (t s : Nat) : readSector w' data t s = readSector w data t s := by
  unfold readSector
  rw [h.v]
  by_cases hv : t = vtocTrack ∧ s = 0
  · simp only [if_pos hv]
  · simp only [if_neg hv, imgRead_sim h hv]

theorem Resp.readSectorM (data : Bytes) (t s : Nat) : Resp (readSectorM data t s) := ⟨fun _ _ h =>
  ⟨readSector_sim h data t s, h⟩⟩

theorem Resp.nextFreeM (pj : Bool) : Resp (nextFreeM pj) := by
  constructor
  intro w w' h
  refine ⟨?_, h⟩
  show nextFree w'.v pj = nextFree w.v pj
  rw [h.v]

theorem shaped_write {r : Raw} (h : Shaped 256 r) (i : Nat) (d : Bytes) :
    Shaped 256 { r with units := r.units.setIfInBounds i (quantize d) } := h.setIfInBounds i (quantize_length d)

theorem Resp.zapM (data : Bytes) (t s bps : Nat) : Resp (zapM data t s bps) := by
  constructor
  intro w w' h
  unfold Fs.Dos3x.zapM imgWrite imgTracks
  rw [h.c, h.size]
  by_cases hg : t ≥ w.raw.units.size / w.c ∨ s ≥ w.c
  · simp only [if_pos hg]; exact ⟨trivial, h⟩
  · simp only [if_neg hg]
    by_cases hi : t * w.c + s < w.raw.units.size
    · simp only [if_pos hi]
      refine ⟨trivial, ⟨rfl, h.v, h.ulen, by simp [h.size], ?_, ?_, shaped_write h.shaped' _ _⟩⟩
      · intro u hu
        simp only [Array.getElem?_setIfInBounds, h.size]
        split
        · rfl
        · exact h.off u hu
      · exact ⟨h.coh.vlen, h.coh.pairsLo, h.coh.pairsHi, shaped_write h.coh.shaped _ _,
          by have := h.coh.vtocIn; unfold imgTracks at *; simpa using this, h.coh.cpos⟩
    · simp only [if_neg hi]; exact ⟨trivial, h⟩

/-- an update of the buffer that keeps its length and the `max_pairs` byte -/
def VKeep (f : Bytes → R Bytes) : Prop :=
  ∀ v v', v.length = 196 → f v = .ok v' → v'.length = 196 ∧ Vtoc.maxPairs v' = Vtoc.maxPairs v

theorem Resp.modV {f : Bytes → R Bytes} (hf : VKeep f) : Resp (M.modV f) := by
  constructor
  intro w w' h
  unfold M.modV
  rw [h.v]
  cases hv : f w.v with
  | error e => exact ⟨rfl, h⟩
  | ok v' =>
    obtain ⟨hl, hp⟩ := hf _ _ h.coh.vlen hv
    exact ⟨rfl, ⟨h.c, rfl, h.ulen, h.size, h.off,
      ⟨hl, by show 1 ≤ Vtoc.maxPairs v'; rw [hp]; exact h.coh.pairsLo, by show Vtoc.maxPairs v' ≤ 122; rw [hp]; exact h.coh.pairsHi,
        h.coh.shaped, h.coh.vtocIn, h.coh.cpos⟩, h.shaped'⟩⟩

theorem saveTrackMap_keep {v : Bytes} {t m : Nat} (hl : v.length = 196) (ht : t < 35) :
    (saveTrackMap v t m).length = 196 ∧ Vtoc.maxPairs (saveTrackMap v t m) = Vtoc.maxPairs v := by
  have hb : Vtoc.bitmapOff + 4 * t + (be32 m).length ≤ v.length := by
    rw [hl, be32_length]; unfold Vtoc.bitmapOff; omega
  unfold saveTrackMap
  refine ⟨by rw [splice_length hb, hl], ?_⟩
  unfold Vtoc.maxPairs
  exact getD_splice_other hb (Or.inl (by unfold Vtoc.bitmapOff; omega))

theorem allocate_keep (t s : Nat) : VKeep (fun v => allocate v t s) := by
  intro v v' hl hv
  unfold allocate trackMap at hv
  by_cases ht : t ≥ 35
  · simp [if_pos ht] at hv
  · simp only [if_neg ht] at hv
    cases he : effSec v s with
    | error e => simp [he] at hv
    | ok e =>
      simp only [he] at hv
      cases hv
      exact saveTrackMap_keep hl (by omega)

theorem deallocate_keep (t s : Nat) : VKeep (fun v => deallocate v t s) := by
  intro v v' hl hv
  unfold deallocate trackMap at hv
  by_cases ht : t ≥ 35
  · simp [if_pos ht] at hv
  · simp only [if_neg ht] at hv
    cases he : effSec v s with
    | error e => simp [he] at hv
    | ok e =>
      simp only [he] at hv
      cases hv
      exact saveTrackMap_keep hl (by omega)

theorem updateLastTrack_keep (t : Nat) : VKeep (fun v => .ok (updateLastTrack v t)) := by
  intro v v' hl hv
  cases hv
  unfold updateLastTrack
  have hb : ∀ x : Nat, 0x30 + [t, x].length ≤ v.length := by intro x; rw [hl]; simp
  split
  · exact ⟨by rw [splice_length (hb 255), hl], by unfold Vtoc.maxPairs; exact getD_splice_other (hb 255) (Or.inl (by omega))⟩
  · split
    · exact ⟨by rw [splice_length (hb 1), hl], by unfold Vtoc.maxPairs; exact getD_splice_other (hb 1) (Or.inl (by omega))⟩
    · exact ⟨hl, rfl⟩

theorem Resp.allocM (t s : Nat) : Resp (allocM t s) := Resp.modV (allocate_keep t s)
theorem Resp.deallocM (t s : Nat) : Resp (deallocM t s) := Resp.modV (deallocate_keep t s)
theorem Resp.updateLastTrackM (t : Nat) : Resp (updateLastTrackM t) := Resp.modV (updateLastTrack_keep t)


/-! ## the composite operations: one structural step at a time -/

syntax "resp_step" : tactic
macro_rules | `(tactic| resp_step) => `(tactic| first
  | exact Resp.pure _ | exact Resp.pure' _ | exact Resp.fail _ | exact Resp.lift _ | exact Resp.getV
  | exact Resp.readSectorM _ _ _ | exact Resp.nextFreeM _ | exact Resp.zapM _ _ _ _
  | exact Resp.allocM _ _ | exact Resp.deallocM _ _ | exact Resp.updateLastTrackM _
  | apply Resp.bind
  | apply Resp.ite
  | intro _
  | split)
/-- walk through a `do` block of the model -/
macro "resp" : tactic => `(tactic| repeat' resp_step)
macro "resp_using " t:term : tactic => `(tactic| repeat' (first | exact $t | resp_step))

theorem Resp.writeSectorM (data : Bytes) (t s : Nat) : Resp (writeSectorM data t s) := by
  unfold Fs.Dos3x.writeSectorM
  resp
macro_rules | `(tactic| resp_step) => `(tactic| exact Resp.writeSectorM _ _ _)

theorem Resp.slotLoop : ∀ (fuel t s : Nat) (buf : Bytes), Resp (slotLoop fuel t s buf) := by
  intro fuel
  induction fuel with
  | zero => intro t s buf; unfold Fs.Dos3x.slotLoop; resp
  | succ n ih => intro t s buf; unfold Fs.Dos3x.slotLoop; resp_using (ih _ _ _)
macro_rules | `(tactic| resp_step) => `(tactic| exact Resp.slotLoop _ _ _ _)

theorem Resp.nextDirectorySlot : Resp nextDirectorySlot := by
  unfold Fs.Dos3x.nextDirectorySlot
  resp
macro_rules | `(tactic| resp_step) => `(tactic| exact Resp.nextDirectorySlot)

theorem Resp.findLoop (fname : Bytes) : ∀ (fuel t s : Nat) (buf : Bytes), Resp (findLoop fname fuel t s buf) := by
  intro fuel
  induction fuel with
  | zero => intro t s buf; unfold Fs.Dos3x.findLoop; resp
  | succ n ih => intro t s buf; unfold Fs.Dos3x.findLoop; resp_using (ih _ _ _)
macro_rules | `(tactic| resp_step) => `(tactic| exact Resp.findLoop _ _ _ _ _)

theorem Resp.findEntry (fname : Bytes) : Resp (findEntry fname) := by
  unfold Fs.Dos3x.findEntry
  resp
macro_rules | `(tactic| resp_step) => `(tactic| exact Resp.findEntry _)

theorem Resp.getTslistSector (name : Bytes) : Resp (getTslistSector name) := by
  unfold Fs.Dos3x.getTslistSector
  resp
macro_rules | `(tactic| resp_step) => `(tactic| exact Resp.getTslistSector _)


theorem Resp.putLoop (chunks : List (Nat × Bytes)) (maxPairs endIdx : Nat) :
    ∀ (l : List Nat) (st : LoopSt), Resp (putLoop chunks maxPairs endIdx l st) := by
  intro l
  induction l with
  | nil => intro st; unfold Fs.Dos3x.putLoop; resp
  | cons s rest ih => intro st; unfold Fs.Dos3x.putLoop; resp_using (ih _)
macro_rules | `(tactic| resp_step) => `(tactic| exact Resp.putLoop _ _ _ _ _)

/-- for EVERY repair variant `rp` (the source as written, and the source with `slotFirst` — HEAD since f61df96) -/
theorem Resp.writeFile (f : FImg) (rp : Repairs := {}) : Resp (writeFile f rp) := by
  unfold Fs.Dos3x.writeFile
  resp

theorem Resp.modifyM (name : Bytes) (lock : Option Bool) (newName : Option Bytes) (ftype : Option (Option Nat)) :
    Resp (modifyM name lock newName ftype) := by
  unfold Fs.Dos3x.modifyM
  resp

theorem Resp.freePairs (tsl : Bytes) : ∀ (l : List Nat), Resp (freePairs tsl l) := by
  intro l
  induction l with
  | nil => unfold Fs.Dos3x.freePairs; resp
  | cons p ps ih => unfold Fs.Dos3x.freePairs; resp_using ih
macro_rules | `(tactic| resp_step) => `(tactic| exact Resp.freePairs _ _)

theorem Resp.freeLoop (maxPairs : Nat) : ∀ (fuel t s : Nat) (buf : Bytes), Resp (freeLoop maxPairs fuel t s buf) := by
  intro fuel
  induction fuel with
  | zero => intro t s buf; unfold Fs.Dos3x.freeLoop; resp
  | succ n ih => intro t s buf; unfold Fs.Dos3x.freeLoop; resp_using (ih _ _ _)
macro_rules | `(tactic| resp_step) => `(tactic| exact Resp.freeLoop _ _ _ _ _)

theorem Resp.deleteM (name : Bytes) : Resp (deleteM name) := by
  unfold Fs.Dos3x.deleteM
  resp

theorem Resp.readPairs (tsl : Bytes) (count : Nat) : ∀ (l : List Nat), Resp (readPairs tsl count l) := by
  intro l
  induction l with
  | nil => unfold Fs.Dos3x.readPairs; resp
  | cons p ps ih => unfold Fs.Dos3x.readPairs; resp_using ih
macro_rules | `(tactic| resp_step) => `(tactic| exact Resp.readPairs _ _ _)

theorem Resp.readLoop (maxPairs : Nat) : ∀ (fuel t s count : Nat) (buf : Bytes), Resp (readLoop maxPairs fuel t s count buf) := by
  intro fuel
  induction fuel with
  | zero => intro t s count buf; unfold Fs.Dos3x.readLoop; resp
  | succ n ih => intro t s count buf; unfold Fs.Dos3x.readLoop; resp_using (ih _ _ _ _)
macro_rules | `(tactic| resp_step) => `(tactic| exact Resp.readLoop _ _ _ _ _ _)

theorem Resp.getM (name : Bytes) : Resp (getM name) := by
  unfold Fs.Dos3x.getM
  resp

theorem Resp.catalogLoop : ∀ (fuel t s : Nat) (buf : Bytes), Resp (catalogLoop fuel t s buf) := by
  intro fuel
  induction fuel with
  | zero => intro t s buf; unfold Fs.Dos3x.catalogLoop; resp
  | succ n ih => intro t s buf; unfold Fs.Dos3x.catalogLoop; resp_using (ih _ _ _)
macro_rules | `(tactic| resp_step) => `(tactic| exact Resp.catalogLoop _ _ _ _)

theorem Resp.catalogM : Resp (do let v ← M.getV; Fs.Dos3x.catalogLoop maxDirectoryReps (Vtoc.track1 v) (Vtoc.sector1 v) (zeros 256)) := by
  resp

theorem Resp.statFreeM : Resp (do let v ← M.getV; M.lift (numFree v)) := by
  resp

theorem Resp.initDirs : ∀ (l : List Nat), Resp (initDirs l) := by
  intro l
  induction l with
  | nil => unfold Fs.Dos3x.initDirs; resp
  | cons p ps ih => unfold Fs.Dos3x.initDirs; resp_using ih
macro_rules | `(tactic| resp_step) => `(tactic| exact Resp.initDirs _)

theorem Resp.initM (sectors : Nat) : Resp (do Fs.Dos3x.writeSectorM (zeros 256) vtocTrack 1; Fs.Dos3x.initDirs (rng 2 sectors)) := by
  resp


/-! ## the file-system object -/

/-- coherence of the object: 256-byte sectors; an open buffer has the 196 bytes of `struct VTOC`, a `max_pairs` that
`open_vtoc_buffer` accepts, and the VTOC sector is inside the image.  Nothing is asked of a closed buffer or of the
catalog and the files: `Coh` is much weaker than the refinement invariant `DInv`. -/
structure Coh (d : Disk) : Prop where
  shaped : Shaped 256 d.raw
  buf : ∀ v, d.vtoc = some v → v.length = 196 ∧ 1 ≤ Vtoc.maxPairs v ∧ Vtoc.maxPairs v ≤ 122 ∧
    vtocTrack < imgTracks d.c d.raw ∧ 0 < d.c

theorem take_quantize {v : Bytes} (h : v.length = 196) : (quantize v).take vtocLen = v := by
  unfold quantize vtocLen sectorSize
  rw [List.take_of_length_le (by omega : v.length ≤ 256), List.take_append_of_le_length (by omega), List.take_of_length_le (by omega)]

theorem openVtoc_wcoh {d : Disk} {v : Bytes} (h : Coh d) (ho : openVtoc d = .ok v) : WCoh ⟨d.c, d.raw, v⟩ := by
  unfold openVtoc at ho
  cases hv : d.vtoc with
  | some v0 =>
    simp only [hv] at ho
    cases ho
    obtain ⟨a, b, c, e, f⟩ := h.buf v hv
    exact ⟨a, b, c, h.shaped, e, f⟩
  | none =>
    simp only [hv] at ho
    cases hr : imgRead d.c d.raw vtocTrack 0 with
    | error e => rw [hr] at ho; cases ho
    | ok buf =>
      rw [hr] at ho
      simp only at ho
      by_cases hl : buf.length < vtocLen
      · rw [if_pos hl] at ho; cases ho
      · rw [if_neg hl] at ho
        by_cases hp : Vtoc.maxPairs (buf.take vtocLen) < 1 ∨ Vtoc.maxPairs (buf.take vtocLen) > 122
        · rw [if_pos hp] at ho; cases ho
        · rw [if_neg hp] at ho
          cases ho
          have hg : ¬ (vtocTrack ≥ imgTracks d.c d.raw ∨ 0 ≥ d.c) := by
            intro hg; unfold imgRead at hr; rw [if_pos hg] at hr; cases hr
          exact ⟨by show (buf.take vtocLen).length = 196; rw [List.length_take]; unfold vtocLen at *; omega,
            by show 1 ≤ Vtoc.maxPairs (buf.take vtocLen); omega, by show Vtoc.maxPairs (buf.take vtocLen) ≤ 122; omega,
            h.shaped, by show vtocTrack < imgTracks d.c d.raw; omega, by show 0 < d.c; omega⟩

/-- how the object `d` and a twin `d'` that went through save and load at some point are related -/
inductive DSim : Disk → Disk → Prop
  | same {d : Disk} : Coh d → DSim d d
  | opened {d d' : Disk} {v : Bytes} : d.vtoc = some v → d'.vtoc = some v → Sim ⟨d.c, d.raw, v⟩ ⟨d'.c, d'.raw, v⟩ → DSim d d'
  | closed {d d' : Disk} {v : Bytes} : d.vtoc = some v → d'.vtoc = none → Sim ⟨d.c, d.raw, v⟩ ⟨d'.c, d'.raw, v⟩ →
      d'.raw.units[vtocTrack * d.c]? = some (quantize v) → DSim d d'

theorem WCoh.toCoh {c : Nat} {raw : Raw} {v : Bytes} (h : WCoh ⟨c, raw, v⟩) : Coh ⟨raw, c, some v⟩ :=
  ⟨h.shaped, fun v' hv => by cases hv; exact ⟨h.vlen, h.pairsLo, h.pairsHi, h.vtocIn, h.cpos⟩⟩

theorem DSim.coh {d d' : Disk} (h : DSim d d') : Coh d := by
  cases h with
  | same hc => exact hc
  | opened hv _ hs => cases d; simp only at hv; subst hv; exact hs.coh.toCoh
  | closed hv _ hs _ => cases d; simp only at hv; subst hv; exact hs.coh.toCoh

theorem DSim.coh' {d d' : Disk} (h : DSim d d') : Coh d' := by
  cases h with
  | same hc => exact hc
  | opened _ hv hs => cases d'; simp only at hv; subst hv; exact hs.coh'.toCoh
  | closed _ hv hs _ => exact ⟨hs.shaped', fun v' hv' => by rw [hv] at hv'; cases hv'⟩

theorem DSim.c {d d' : Disk} (h : DSim d d') : d'.c = d.c := by
  cases h with
  | same _ => rfl
  | opened _ _ hs => exact hs.c
  | closed _ _ hs _ => exact hs.c

/-- the index of the VTOC sector is inside a coherent image -/
theorem vtoc_in {w : W} (h : WCoh w) : vtocTrack * w.c < w.raw.units.size := by
  have h1 := h.vtocIn
  have h2 := h.cpos
  unfold imgTracks at h1
  have h3 : (vtocTrack + 1) * w.c ≤ w.raw.units.size := (Nat.le_div_iff_mul_le h2).1 h1
  rw [Nat.add_mul] at h3
  omega

theorem openVtoc_closed {d' : Disk} {c : Nat} {raw : Raw} {v : Bytes} (hv : d'.vtoc = none) (hs : Sim ⟨c, raw, v⟩ ⟨d'.c, d'.raw, v⟩)
    (hu : d'.raw.units[vtocTrack * c]? = some (quantize v)) : openVtoc d' = .ok v := by
  have hc := hs.coh'
  have hcc : d'.c = c := hs.c
  unfold openVtoc imgRead
  simp only [hv]
  rw [if_neg (by have := hc.vtocIn; have := hc.cpos; simp only at *; omega)]
  rw [Nat.add_zero, hcc, hu]
  simp only
  rw [if_neg (by rw [quantize_length]; unfold vtocLen; omega), take_quantize hs.coh.vlen]
  rw [if_neg (by have := hs.coh.pairsLo; have := hs.coh.pairsHi; simp only at *; omega)]

/-- running a `Resp` computation on related objects: same answer, related objects (now both open) -/
theorem run_sim {α : Type} {m : M α} (hm : Resp m) {d d' : Disk} (h : DSim d d') :
    (d'.run m).1 = (d.run m).1 ∧ DSim (d.run m).2 (d'.run m).2 := by
  have key : ∀ v, openVtoc d = .ok v → openVtoc d' = .ok v → Sim ⟨d.c, d.raw, v⟩ ⟨d'.c, d'.raw, v⟩ →
      (d'.run m).1 = (d.run m).1 ∧ DSim (d.run m).2 (d'.run m).2 := by
    intro v h1 h2 hs
    unfold Disk.run
    simp only [h1, h2]
    obtain ⟨e, s⟩ := hm.out _ _ hs
    rcases hw : m ⟨d.c, d.raw, v⟩ with ⟨x, w1⟩
    rcases hw' : m ⟨d'.c, d'.raw, v⟩ with ⟨x', w1'⟩
    rw [hw, hw'] at e s
    simp only at e s
    cases w1; cases w1'
    have hvv := s.v
    simp only at hvv
    subst hvv
    exact ⟨e, DSim.opened rfl rfl s⟩
  cases h with
  | same hc =>
    cases ho : openVtoc d with
    | error e => unfold Disk.run; simp only [ho]; exact ⟨trivial, DSim.same hc⟩
    | ok v => exact key v ho ho (Sim.refl (openVtoc_wcoh hc ho))
  | opened hv hv' hs => exact key _ (by unfold openVtoc; simp only [hv]) (by unfold openVtoc; simp only [hv']) hs
  | closed hv hv' hs hu => exact key _ (by unfold openVtoc; simp only [hv]) (openVtoc_closed hv' hs hu) hs

/-! ## saving -/

theorem flush_open {d : Disk} {v : Bytes} (hv : d.vtoc = some v) (h : WCoh ⟨d.c, d.raw, v⟩) :
    d.flush = .ok { d.raw with units := d.raw.units.setIfInBounds (vtocTrack * d.c) (quantize v) } := by
  have hi := vtoc_in h
  unfold Disk.flush imgWrite
  simp only [hv]
  rw [if_neg (by have := h.vtocIn; have := h.cpos; simp only at *; omega), Nat.add_zero, if_pos hi]

theorem raw_ext {r r' : Raw} (hu : r'.unitLen = r.unitLen) (hs : r'.units.size = r.units.size)
    (he : ∀ i : Nat, r'.units[i]? = r.units[i]?) : r' = r := by
  cases r; cases r'
  simp only at hu hs he
  subst hu
  congr
  exact Array.ext_getElem? he

/-- related objects are saved to the same bytes -/
theorem flush_sim {d d' : Disk} (h : DSim d d') : d'.flush = d.flush := by
  cases h with
  | same _ => rfl
  | opened hv hv' hs =>
    rw [flush_open hv hs.coh, flush_open hv' hs.coh']
    have hcc : d'.c = d.c := hs.c
    have hss : d'.raw.units.size = d.raw.units.size := hs.size
    congr 1
    apply raw_ext
    · exact hs.ulen
    · simp only [Array.size_setIfInBounds]; exact hs.size
    · intro i
      simp only [Array.getElem?_setIfInBounds, hcc, hss]
      by_cases hi : vtocTrack * d.c = i
      · simp [hi]
      · simp only [if_neg hi]; exact hs.off i (fun e => hi e.symm)
  | closed hv hv' hs hu =>
    rw [flush_open hv hs.coh]
    unfold Disk.flush
    simp only [hv']
    congr 1
    apply raw_ext
    · exact hs.ulen
    · simp only [Array.size_setIfInBounds]; exact hs.size
    · intro i
      simp only [Array.getElem?_setIfInBounds]
      by_cases hi : vtocTrack * d.c = i
      · subst hi
        have := vtoc_in hs.coh
        simp only at this
        simp [hu, this]
      · simp only [if_neg hi]; exact hs.off i (fun e => hi e.symm)

theorem save_sim {d d' : Disk} (h : DSim d d') : save d' = save d := by
  unfold save; rw [flush_sim h]

/-- `get_img()` never fails on a coherent object -/
theorem flush_ok {d : Disk} (h : Coh d) : ∃ r, d.flush = .ok r ∧ Shaped 256 r := by
  cases hv : d.vtoc with
  | none => exact ⟨d.raw, by unfold Disk.flush; simp only [hv], h.shaped⟩
  | some v =>
    have hw : WCoh ⟨d.c, d.raw, v⟩ := openVtoc_wcoh h (by unfold openVtoc; simp only [hv])
    exact ⟨_, flush_open hv hw, shaped_write h.shaped _ _⟩

/-- save and load, as one step on objects (`get_img` cannot fail on a coherent object: `flush_ok`) -/
def reload (d : Disk) : Disk :=
  match save d with
  | .ok b => load d.c b
  | .error _ => d

theorem reload_eq {d : Disk} {r : Raw} (hf : d.flush = .ok r) (hs : Shaped 256 r) : reload d = ⟨r, d.c, none⟩ := by
  unfold reload save load
  simp only [hf]
  rw [ofBytes_toBytes hs]

/-- the reloaded object is a twin of the object: the central fact — what the buffer held is on the image -/
theorem reload_dsim {d : Disk} (h : Coh d) : DSim d (reload d) := by
  cases hv : d.vtoc with
  | none =>
    have hf : d.flush = .ok d.raw := by unfold Disk.flush; simp only [hv]
    rw [reload_eq hf h.shaped]
    have : (⟨d.raw, d.c, none⟩ : Disk) = d := by cases d; simp only at hv; subst hv; rfl
    rw [this]
    exact DSim.same h
  | some v =>
    have hw : WCoh ⟨d.c, d.raw, v⟩ := openVtoc_wcoh h (by unfold openVtoc; simp only [hv])
    have hi := vtoc_in hw
    simp only at hi
    rw [reload_eq (flush_open hv hw) (shaped_write h.shaped _ _)]
    refine DSim.closed hv rfl ⟨rfl, rfl, rfl, by simp, ?_, hw, shaped_write h.shaped _ _⟩ (by simp [hi])
    intro u hu
    have hu' : ¬ vtocTrack * d.c = u := fun e => hu e.symm
    simp only [Array.getElem?_setIfInBounds, if_neg hu']

/-- a twin stays a twin when it is saved and loaded once more -/
theorem dsim_reload {d d' : Disk} (h : DSim d d') : DSim d (reload d') := by
  cases h with
  | same hc => exact reload_dsim hc
  | opened hv hv' hs =>
    have hw := hs.coh'
    have hi := vtoc_in hw
    simp only at hi
    rw [reload_eq (flush_open hv' hw) (shaped_write hs.shaped' _ _)]
    have hcc : d'.c = d.c := hs.c
    rw [hcc] at hi ⊢
    refine DSim.closed hv rfl ⟨rfl, rfl, hs.ulen, by simp [hs.size], ?_, hs.coh, shaped_write hs.shaped' _ _⟩
      (by simp [hi])
    intro u hu
    have hu' : ¬ vtocTrack * d.c = u := fun e => hu e.symm
    simp only [Array.getElem?_setIfInBounds, if_neg hu']
    exact hs.off u hu
  | closed hv hv' hs hu =>
    have hf : d'.flush = .ok d'.raw := by unfold Disk.flush; simp only [hv']
    rw [reload_eq hf hs.shaped']
    have : (⟨d'.raw, d'.c, none⟩ : Disk) = d' := by cases d'; simp only at hv'; subst hv'; rfl
    rw [this]
    exact DSim.closed hv hv' hs hu

end A2Verif.Reload.Dos
