import A2Verif.Lemmas.FsCpmGet2
import A2Verif.Lemmas.FsCpmProtect3
/-!
# `get` of the concrete CP/M model returns the file of the reading

`get x` finds the record of `build_files` whose key is `canon x`; its `entries` are the file entries of one reader key in
ascending order of the extent number; the entry loop yields the reader's chunks of these entries in that order, which — the
indices being ascending — is the sorted list the reader builds; the length is taken from the entry with the highest extent number,
as the reader does.
-/
namespace A2Verif.FsCpm
open A2Verif.Fs.Cpm
open A2Verif.Read.Cpm (Dpb fileKey extNum entryPtrs pathOf slots trimR)

/-! ## sorted association lists -/

theorem entSorted_nodup {l : List (Nat × Nat)} (h : EntSorted l) : (l.map (·.1)).Nodup := by
  unfold EntSorted at h
  unfold List.Nodup
  rw [List.pairwise_map]
  exact h.imp (fun hab => Nat.ne_of_lt hab)

theorem entSorted_inj {l : List (Nat × Nat)} (h : EntSorted l) {a b : Nat × Nat} (ha : a ∈ l) (hb : b ∈ l) (he : a.1 = b.1) : a = b :=
  nodup_map_inj (g := fun (x : Nat × Nat) => x.1) (entSorted_nodup h) ha hb he

theorem entSorted_last : ∀ {l : List (Nat × Nat)}, EntSorted l → ∀ a ∈ l.getLast?, ∀ b ∈ l, b.1 ≤ a.1
  | [], _, a, ha, _, _ => by cases ha
  | [x], _, a, ha, b, hb => by
    simp only [List.getLast?_singleton, Option.mem_def, Option.some.injEq] at ha
    rw [List.mem_singleton] at hb
    rw [hb, ha]; exact Nat.le_refl _
  | x :: y :: rest, h, a, ha, b, hb => by
    unfold EntSorted at h
    rw [List.pairwise_cons] at h
    have ha' : a ∈ (y :: rest).getLast? := by simpa [List.getLast?_cons_cons] using ha
    have ih := entSorted_last (l := y :: rest) h.2 a ha'
    rcases List.mem_cons.1 hb with rfl | hb
    · have hm : a ∈ y :: rest := List.mem_of_getLast? ha'
      exact Nat.le_of_lt (h.1 a hm)
    · exact ih b hb

theorem goodSeq_of {absIdx : Bool} {L : Nat} (hL : 0 < L) : ∀ {l : List (Nat × Nat)}, EntSorted l →
    (∀ a ∈ l, ∀ b ∈ l, a.1 / L = b.1 / L → a = b) →
    (absIdx = false → ∀ a ∈ l, ∀ b ∈ l, a.1 < b.1 → a.1 + 1 = (a.1 / L + 1) * L) → GoodSeq absIdx L l
  | [], _, _, _ => trivial
  | [_], _, _, _ => trivial
  | a :: b :: rest, hs, hinj, hfull => by
    unfold EntSorted at hs
    rw [List.pairwise_cons] at hs
    have hab : a.1 < b.1 := hs.1 b List.mem_cons_self
    refine ⟨?_, fun hf => hfull hf a List.mem_cons_self b (List.mem_cons_of_mem _ List.mem_cons_self) hab, ?_⟩
    · have hle : a.1 / L ≤ b.1 / L := Nat.div_le_div_right (Nat.le_of_lt hab)
      rcases Nat.lt_or_ge (a.1 / L) (b.1 / L) with h | h
      · exact h
      · exfalso
        have := hinj a List.mem_cons_self b (List.mem_cons_of_mem _ List.mem_cons_self) (by omega)
        rw [this] at hab
        exact Nat.lt_irrefl _ hab
    · exact goodSeq_of hL (l := b :: rest) hs.2 (fun x hx y hy => hinj x (List.mem_cons_of_mem _ hx) y (List.mem_cons_of_mem _ hy))
        (fun hf x hx y hy => hfull hf x (List.mem_cons_of_mem _ hx) y (List.mem_cons_of_mem _ hy))

/-! ## chunk indices of entries with ascending physical extents are ascending -/

theorem chunk_sorted {r : Raw} {d : Dpb} : ∀ {es : List Bytes}, (physOf d es).Pairwise (· < ·) →
    ((es.flatMap (chunksE r d)).map (·.1)).Pairwise (· < ·)
  | [], _ => by simp
  | e :: es, h => by
    unfold physOf at h
    rw [List.map_cons, List.pairwise_cons] at h
    rw [List.flatMap_cons, List.map_append, List.pairwise_append]
    have hidx : ∀ (e' : Bytes), (chunksE r d e').map (·.1) = (nzPtrs d e').map (fun pj => extNum e' / (d.exm + 1) * slots d + pj.2) := by
      intro e'; unfold chunksE; rw [List.map_map]; rfl
    have hsnd : ∀ (e' : Bytes) (pj : Nat × Nat), pj ∈ nzPtrs d e' → pj.2 < slots d := by
      intro e' pj hm
      unfold nzPtrs at hm
      obtain ⟨_, h2, _⟩ := List.mem_zipIdx (List.mem_filter.1 hm).1
      rw [entryPtrs_length] at h2; omega
    refine ⟨?_, chunk_sorted h.2, ?_⟩
    · rw [hidx]
      have hs : ((nzPtrs d e).map (·.2)).Pairwise (· < ·) := by
        have hsub : ((nzPtrs d e).map (·.2)).Sublist (((entryPtrs d e).zipIdx).map (·.2)) := List.filter_sublist.map _
        apply List.Pairwise.sublist hsub
        rw [List.zipIdx_map_snd]
        exact List.pairwise_lt_range'
      rw [List.pairwise_map] at hs ⊢
      exact hs.imp (fun hlt => by omega)
    · intro a ha b hb
      rw [hidx] at ha
      simp only [List.mem_map] at ha
      obtain ⟨pj, hpj, rfl⟩ := ha
      rw [List.map_flatMap, List.mem_flatMap] at hb
      obtain ⟨e', he', hb⟩ := hb
      rw [hidx] at hb
      simp only [List.mem_map] at hb
      obtain ⟨pj', hpj', rfl⟩ := hb
      have hx : extNum e / (d.exm + 1) < extNum e' / (d.exm + 1) := h.1 _ (List.mem_map_of_mem he')
      have j1 := hsnd e pj hpj
      have hmul : (extNum e / (d.exm + 1) + 1) * slots d ≤ extNum e' / (d.exm + 1) * slots d := Nat.mul_le_mul_right _ hx
      rw [Nat.add_mul, Nat.one_mul] at hmul
      omega

/-! ## a name of the listing is found by `get_file` -/

theorem found_of_present {d : Dpb} {r : Raw} {v3 : Bool} {files : List FileInfo} {x name : Bytes} {u : Nat} (h : Inv d r)
    (hb : buildFiles d v3 (dirOf d r) = .ok files) (hsplit : splitUserFilename x = .ok (u, name)) (hvalid : isNameValid name = true)
    {K0 : List Nat} (hK : K0 ∈ keys d r) (hp : (recOf r d (dirOf d r) (esOf d r K0)).path = canon x) :
    ∃ fi, getFile x files = some fi := by
  cases hg : getFile x files with
  | some fi => exact ⟨fi, rfl⟩
  | none =>
    exfalso
    obtain ⟨hu, hcanon⟩ := split_ok hsplit
    obtain ⟨base, ext, np, hck⟩ := canonKey_ok hu hsplit hvalid hcanon
    have hfresh := fresh_of_getFile_none h hb hg hu np hck
    obtain ⟨hb8, ht3⟩ := s2fn_lengths name
    -- a synthetic entry carrying the header of `(u, name)`
    have z : (List.replicate 32 0 : Bytes).length = 32 := by simp
    generalize hb' : (stringToFileName name).1 = b at *
    generalize ht' : (stringToFileName name).2 = t at *
    have hlen := renF_length (u := u) (base := b) (typ := t) z
    have hH : Hdr u b t (renF u b t (List.replicate 32 0)) :=
      ⟨hlen, by rw [renF_getD z 0, if_pos rfl], renF_name7 z hb8, renF_typ7 z ht3, renF_bytes z 9 (by omega) (by omega)⟩
    have hpath : pathOf (renF u b t (List.replicate 32 0)) = canon x := by
      subst hb'; subst ht'
      exact hdr_path hu np hck hH
    -- clean
    have hokB : ∀ c ∈ upper base, okChar c = true := by
      intro c hc
      unfold upper at hc
      rw [List.mem_map] at hc
      obtain ⟨c0, hc0, rfl⟩ := hc
      exact (charOk_facts (np.ok c0 (List.mem_append_left _ hc0))).1
    have hokE : ∀ c ∈ upper ext, okChar c = true := by
      intro c hc
      unfold upper at hc
      rw [List.mem_map] at hc
      obtain ⟨c0, hc0, rfl⟩ := hc
      exact (charOk_facts (np.ok c0 (List.mem_append_right _ hc0))).1
    have hm : ∀ (B : Bytes) (n : Nat), (∀ c ∈ B, okChar c = true) → (padTo n B).map (· % 128) = padTo n B := by
      intro B n hB
      apply map_mod_fix
      intro c hc
      unfold padTo at hc
      rcases List.mem_append.1 hc with hc | hc
      · have := okChar_lt c (hB c (List.mem_of_mem_take hc)); omega
      · rw [List.eq_of_mem_replicate hc]
    have hlb : (upper base).length ≤ 8 := by unfold upper; rw [List.length_map]; exact np.lb
    have hlx : (upper ext).length ≤ 3 := by unfold upper; rw [List.length_map]; exact np.le
    have hs2 := np.s2fn
    have hbe : b = padTo 8 (upper base) := by rw [← hb', hs2]
    have hte : t = padTo 3 (upper ext) := by rw [← ht', hs2]
    have hcn : cleanField (b.map (· % 128)) = true := by rw [hbe, hm _ _ hokB]; exact clean_pad hokB hlb
    have hct : cleanField (t.map (· % 128)) = true := by rw [hte, hm _ _ hokE]; exact clean_pad hokE hlx
    have htail := renF_tail (u := u) (base := b) (typ := t) z
    have hclean : CleanEntry (renF u b t (List.replicate 32 0)) := by
      refine ⟨by rw [hH.name]; exact hcn, by rw [hH.typ]; exact hct, ?_, ?_, hH.b9⟩
      · rw [htail.tail 12 (by omega)]; simp
      · rw [htail.tail 14 (by omega)]; simp
    obtain ⟨e0, rest, hes, hm0, hkey0⟩ := esOf_head hK
    have hp' : pathOf e0 = canon x := by
      have : (recOf r d (dirOf d r) (esOf d r K0)).path = pathOf ((esOf d r K0).headD []) := rfl
      rw [this, hes] at hp
      exact hp
    have hl := dirOf_entry_length h.shape h.dpb
    have := pathOf_inj (mem_fents.1 hm0).2 (by rw [hH.user]; exact hu) (hl _ (mem_fents.1 hm0).1) hlen (h.clean _ hm0) hclean
      (by rw [hp', hpath])
    apply hfresh
    rw [← hdr_key hH, ← this, hkey0]
    exact hK

/-! ## the entries `get_file` hands to the loop -/

/-- every entry of a file but the one with the highest extent number is numbered by the last logical extent of its physical extent
(needed for the code as written only; `put` writes files that way, `XEnt.full`) -/
def MidFull (d : Dpb) (es : List Bytes) : Prop :=
  ∀ e ∈ es, ∀ e' ∈ es, extNum e < extNum e' → extNum e + 1 = (extNum e / (d.exm + 1) + 1) * (d.exm + 1)

/-- **`get` returns the file of the reading** -/
theorem get_spec {d : Dpb} {r : Raw} {files : List FileInfo} {x : Bytes} {fi : FileInfo} {absIdx : Bool} (h : Inv d r) (hd : DpbPut d)
    (hb : buildFiles d d.v3 (dirOf d r) = .ok files) (hg : getFile x files = some fi) (hx : isXnameValid x = true) :
    ∃ K0, K0 ∈ keys d r ∧ (recOf r d (dirOf d r) (esOf d r K0)).path = canon x ∧
      ((absIdx = true ∨ MidFull d (esOf d r K0)) →
        ∃ g, Fs.Cpm.get d r x absIdx = .ok g ∧ g.chunks = (recOf r d (dirOf d r) (esOf d r K0)).chunks ∧
          g.eof = (recOf r d (dirOf d r) (esOf d r K0)).eof % 4294967296) := by
  obtain ⟨K0, hK0, hidx, hpath⟩ := found_key h hb hg
  refine ⟨K0, hK0, hpath, fun hmid => ?_⟩
  have hl := dirOf_entry_length h.shape h.dpb
  have hL : 0 < d.exm + 1 := Nat.succ_pos _
  obtain ⟨k, hlk⟩ := getFile_lookup hg
  have hB := buildFiles_spec hb
  have hsorted : EntSorted fi.entries := buildFiles_sorted hb fi (by
    unfold lookupKey at hlk; exact List.mem_of_find?_eq_some hlk)
  have hent : entOf files k = fi.entries := by unfold entOf lookupKey at *; rw [hlk]
  have hne : fi.entries ≠ [] := hB.nonempty fi (by unfold lookupKey at hlk; exact List.mem_of_find?_eq_some hlk)
  -- every pointer of the map leads to an entry of the file
  have hentry : ∀ p ∈ fi.entries, ∃ fx, (dirOf d r)[p.2]? = some fx ∧ isExtent fx = true ∧ Ext.dataPtr fx = p.1 ∧ extNum fx = p.1 ∧
      fx.length = 32 ∧ ptrsOkB d fx = true ∧ fx ∈ esOf d r K0 := by
    intro p hp
    obtain ⟨_, e, he, hxe, _, hdp⟩ := hB.sound k p (by rw [hent]; exact hp)
    obtain ⟨hu, hk⟩ := (hidx p.2 e he).2 ⟨p, hp, rfl⟩
    have hme : e ∈ fents d r := mem_fents.2 ⟨List.mem_of_getElem? he, hu⟩
    have hmes : e ∈ esOf d r K0 := mem_esOf.2 ⟨hme, hk⟩
    have hpo := (h.good K0 hK0).2
    rw [List.all_eq_true] at hpo
    exact ⟨e, he, hxe, hdp, by rw [← dataPtr_eq (h.clean e hme)]; exact hdp, hl e (List.mem_of_getElem? he), hpo e hmes, hmes⟩
  have hentAt : ∀ p ∈ fi.entries, entAt (dirOf d r) p.2 ∈ esOf d r K0 ∧ extNum (entAt (dirOf d r) p.2) = p.1 := by
    intro p hp
    obtain ⟨fx, a1, _, _, a4, _, _, a7⟩ := hentry p hp
    have : entAt (dirOf d r) p.2 = fx := by unfold entAt; rw [a1]; rfl
    rw [this]; exact ⟨a7, a4⟩
  have hphys := dupFree_nodup (h.good K0 hK0).1
  -- different pointers: different physical extents
  have hinj : ∀ a ∈ fi.entries, ∀ b ∈ fi.entries, a.1 / (d.exm + 1) = b.1 / (d.exm + 1) → a = b := by
    intro a ha b hb' hab
    obtain ⟨m1, n1⟩ := hentAt a ha
    obtain ⟨m2, n2⟩ := hentAt b hb'
    have := nodup_map_inj (g := fun e => extNum e / (d.exm + 1)) hphys m1 m2 (by show extNum _ / (d.exm + 1) = extNum _ / (d.exm + 1); rw [n1, n2]; exact hab)
    exact entSorted_inj hsorted ha hb' (by rw [← n1, ← n2, this])
  have hseq : GoodSeq absIdx (d.exm + 1) fi.entries := by
    apply goodSeq_of hL hsorted hinj
    intro hf a ha b hb' hab
    rcases hmid with hc | hc
    · rw [hc] at hf; cases hf
    · obtain ⟨m1, n1⟩ := hentAt a ha
      obtain ⟨m2, n2⟩ := hentAt b hb'
      have := hc _ m1 _ m2 (by rw [n1, n2]; exact hab)
      rw [n1] at this
      exact this
  -- the loop's start value is whatever `std_access_and_typ` gives: generalise over it
  have hrl' : ∀ g0 : Got, g0.chunks = [] → ∃ g', readLoop absIdx d r (dirOf d r) fi fi.entries 0 0 g0 = .ok g' ∧
      g'.chunks = fi.entries.flatMap (fun p => chunksE r d (entAt (dirOf d r) p.2)) ∧
      (∀ a ∈ fi.entries.getLast?, g'.eof = Ext.getEof (entAt (dirOf d r) a.2) % 4294967296) := by
    intro g0 hg0
    obtain ⟨g', q1, q2, q3⟩ := readLoop_spec (dir := dirOf d r) (fi := fi) (absIdx := absIdx) h.shape hd fi.entries 0 0 g0
      (fun p hp => by obtain ⟨fx, a1, a2, a3, a4, a5, a6, _⟩ := hentry p hp; exact ⟨fx, a1, a2, a3, a4, a5, a6⟩) hseq (by
        intro a _
        refine ⟨Nat.zero_le _, by omega, fun _ => ?_⟩
        rw [Nat.zero_add, Nat.sub_zero]
        exact lx_blocks hd _)
    exact ⟨g', q1, by rw [q2, hg0, List.nil_append], q3⟩
  -- run `get`
  have hget : ∃ g', Fs.Cpm.get d r x absIdx = .ok g' ∧
      g'.chunks = fi.entries.flatMap (fun p => chunksE r d (entAt (dirOf d r) p.2)) ∧
      (∀ a ∈ fi.entries.getLast?, g'.eof = Ext.getEof (entAt (dirOf d r) a.2) % 4294967296) := by
    unfold Fs.Cpm.get
    rw [getDirectory_eq h.shape h.dpb]
    simp only [hb, hg, hx, Bool.not_true, Bool.false_eq_true, ↓reduceIte]
    obtain ⟨u, name, hsp, _, _⟩ := xname_parts hx
    unfold stdAccessAndTyp
    rw [hsp]
    simp only []
    exact hrl' _ rfl
  obtain ⟨g', hget1, hget2, hget3⟩ := hget
  refine ⟨g', hget1, ?_, ?_⟩
  · -- chunks
    obtain ⟨Lents, hLents⟩ : ∃ L, L = fi.entries.map (fun p => entAt (dirOf d r) p.2) := ⟨_, rfl⟩
    have hflat : fi.entries.flatMap (fun p => chunksE r d (entAt (dirOf d r) p.2)) = Lents.flatMap (chunksE r d) := by
      rw [hLents, List.flatMap_map]
    have hextmap : Lents.map extNum = fi.entries.map (·.1) := by
      rw [hLents, List.map_map]
      apply List.map_congr_left
      intro p hp
      exact (hentAt p hp).2
    have hnd1 : Lents.Nodup := nodup_of_nodup_map extNum (by rw [hextmap]; exact entSorted_nodup hsorted)
    have hnd2 : (esOf d r K0).Nodup := nodup_of_nodup_map (fun e => extNum e / (d.exm + 1)) hphys
    have hperm : Lents.Perm (esOf d r K0) := by
      rw [List.perm_ext_iff_of_nodup hnd1 hnd2]
      intro e
      constructor
      · intro he
        rw [hLents, List.mem_map] at he
        obtain ⟨p, hp, rfl⟩ := he
        exact (hentAt p hp).1
      · intro he
        obtain ⟨hm, hk⟩ := mem_esOf.1 he
        obtain ⟨j, hj, ej⟩ := List.mem_iff_getElem.1 (mem_fents.1 hm).1
        have hgj : (dirOf d r)[j]? = some e := by rw [List.getElem?_eq_getElem hj, ej]
        obtain ⟨p, hp, hpj⟩ := (hidx j e hgj).1 ⟨(mem_fents.1 hm).2, hk⟩
        rw [hLents, List.mem_map]
        refine ⟨p, hp, ?_⟩
        unfold entAt
        rw [hpj, hgj]; rfl
    have hphysL : (physOf d Lents).Pairwise (· < ·) := by
      unfold physOf
      have : Lents.map (fun e => extNum e / (d.exm + 1)) = fi.entries.map (fun p => p.1 / (d.exm + 1)) := by
        rw [hLents, List.map_map]
        apply List.map_congr_left
        intro p hp
        simp only [Function.comp, (hentAt p hp).2]
      rw [this, List.pairwise_map]
      unfold EntSorted at hsorted
      apply List.Pairwise.imp_of_mem _ hsorted
      intro a b ha hb' hab
      have hle : a.1 / (d.exm + 1) ≤ b.1 / (d.exm + 1) := Nat.div_le_div_right (Nat.le_of_lt hab)
      rcases Nat.lt_or_ge (a.1 / (d.exm + 1)) (b.1 / (d.exm + 1)) with hlt | hge
      · exact hlt
      · exfalso
        have := hinj a ha b hb' (by omega)
        rw [this] at hab
        exact Nat.lt_irrefl _ hab
    have hs1 := chunk_sorted (r := r) hphysL
    rw [hget2, hflat]
    show Lents.flatMap (chunksE r d) = ((esOf d r K0).flatMap (chunksE r d)).mergeSort (fun a b => decide (a.1 ≤ b.1))
    apply List.Perm.eq_of_pairwise (le := fun (a b : Nat × Bytes) => a.1 < b.1) (fun a b _ _ hab hba => by omega)
    · rw [List.pairwise_map] at hs1; exact hs1
    · have := sorted_lt_of_nodup ((esOf d r K0).flatMap (chunksE r d)) (chunk_idx_nodup hphys)
      rw [List.pairwise_map] at this
      exact this
    · exact ((List.Perm.flatMap_right _ hperm).trans (List.mergeSort_perm _ _).symm)
  · -- length
    cases hlast : fi.entries.getLast? with
    | none =>
      exfalso
      rw [List.getLast?_eq_none_iff] at hlast
      exact hne hlast
    | some a =>
      have ha : a ∈ fi.entries := List.mem_of_getLast? hlast
      rw [hget3 a (by rw [hlast]; rfl)]
      obtain ⟨m1, n1⟩ := hentAt a ha
      have hes_ne : esOf d r K0 ≠ [] := List.ne_nil_of_mem m1
      have hlm := lastOf_mem _ hes_ne
      -- the entry with the highest extent number
      have hge : extNum (lastOf (esOf d r K0)) ≤ a.1 := by
        obtain ⟨hm, hk⟩ := mem_esOf.1 hlm
        obtain ⟨j, hj, ej⟩ := List.mem_iff_getElem.1 (mem_fents.1 hm).1
        have hgj : (dirOf d r)[j]? = some (lastOf (esOf d r K0)) := by rw [List.getElem?_eq_getElem hj, ej]
        obtain ⟨p, hp, hpj⟩ := (hidx j _ hgj).1 ⟨(mem_fents.1 hm).2, hk⟩
        have hpe : entAt (dirOf d r) p.2 = lastOf (esOf d r K0) := by unfold entAt; rw [hpj, hgj]; rfl
        have := (hentAt p hp).2
        rw [hpe] at this
        rw [this]
        exact entSorted_last hsorted a (by rw [hlast]; rfl) p hp
      have hle : a.1 ≤ extNum (lastOf (esOf d r K0)) := by
        rw [← n1]; exact lastOf_max _ _ m1
      have heq : entAt (dirOf d r) a.2 = lastOf (esOf d r K0) :=
        nodup_map_inj (g := fun e => extNum e / (d.exm + 1)) hphys m1 hlm (by show extNum _ / (d.exm + 1) = extNum _ / (d.exm + 1); rw [n1]; congr 1; omega)
      rw [heq]
      have hcl := h.clean _ (mem_esOf.1 hlm).1
      rw [getEof_eq (dataPtr_eq hcl)]
      rfl

end A2Verif.FsCpm
