import A2Verif.Lemmas.FsPascalBytes
/-!
# Image-level lemmas for the concrete Pascal model

What the directory of an image *is* (`hdr`, `dirBuf`, `allEntries`), that `getDirectory` returns exactly
that, what `saveDirectory` and the data-block loop do to the image (which units change, what the
directory reads back as), and the frame fact: units outside the directory blocks do not influence it.
Core Lean only.
-/
namespace A2Verif.Fs.Pascal

/-! ## the directory as it is stored in an image -/

/-- first 26 bytes of block 2 -/
def hdr (r : Raw) : Bytes := ((r.units[2]?).getD []).take 26
def dirEnd (r : Raw) : Nat := le16 (hdr r) 2
def total (r : Raw) : Nat := le16 (hdr r) 14
def numFiles (r : Raw) : Nat := le16 (hdr r) 16
def dirBlocks (r : Raw) : List Bytes := (List.range (dirEnd r - 2)).map (fun i => (r.units[2 + i]?).getD [])
/-- blocks `2 ..< dirEnd` as one buffer -/
def dirBuf (r : Raw) : Bytes := (dirBlocks r).flatten
/-- every directory slot, used or not -/
def allEntries (r : Raw) : List Bytes := entriesFrom (dirBuf r) ((dirBuf r).length / 26 - 1) 26

/-- every unit of the image is a 512-byte block -/
def Blocks512 (r : Raw) : Prop := ∀ (i : Nat) (b : Bytes), r.units[i]? = some b → b.length = 512

theorem flatten_length_512 {bs : List Bytes} (h : ∀ b ∈ bs, b.length = 512) : bs.flatten.length = 512 * bs.length := by
  induction bs with
  | nil => rfl
  | cons b bs ih =>
    simp only [List.flatten_cons, List.length_append, List.length_cons, h b List.mem_cons_self,
      ih (fun x hx => h x (List.mem_cons_of_mem _ hx))]
    omega

theorem dirBuf_length {r : Raw} (hb : Blocks512 r) (hs : dirEnd r ≤ r.units.size) :
    (dirBuf r).length = 512 * (dirEnd r - 2) := by
  unfold dirBuf
  rw [flatten_length_512]
  · simp [dirBlocks]
  · intro b hm
    simp only [dirBlocks, List.mem_map, List.mem_range] at hm
    obtain ⟨i, hi, rfl⟩ := hm
    have hlt : 2 + i < r.units.size := by omega
    have : r.units[2 + i]? = some r.units[2 + i] := Array.getElem?_eq_getElem hlt
    rw [this]
    exact hb _ _ this

theorem hdr_length {r : Raw} (hb : Blocks512 r) (hs : 2 < r.units.size) : (hdr r).length = 26 := by
  unfold hdr
  have : r.units[2]? = some r.units[2] := Array.getElem?_eq_getElem hs
  rw [this, Option.getD_some, List.length_take, hb _ _ this]
  rfl

/-- the header is the beginning of the directory buffer -/
theorem hdr_eq_take {r : Raw} (hb : Blocks512 r) (hs : 2 < r.units.size) (hd : 2 < dirEnd r) :
    hdr r = (dirBuf r).take 26 := by
  unfold dirBuf dirBlocks
  obtain ⟨n, hn⟩ : ∃ n, dirEnd r - 2 = n + 1 := ⟨dirEnd r - 3, by omega⟩
  rw [hn, List.range_succ_eq_map, List.map_cons, List.flatten_cons]
  have : r.units[2]? = some r.units[2] := Array.getElem?_eq_getElem hs
  have hl : (r.units[2]).length = 512 := hb _ _ this
  rw [List.take_append_of_le_length (by simp [this, hl])]
  rfl

theorem allEntries_length {r : Raw} : (allEntries r).length = (dirBuf r).length / 26 - 1 :=
  entriesFrom_length _ _ _

theorem allEntries_entry_length {r : Raw} (h26 : 26 ≤ (dirBuf r).length) : ∀ e ∈ allEntries r, e.length = 26 := by
  apply entriesFrom_entry_length
  have : 26 * ((dirBuf r).length / 26) ≤ (dirBuf r).length := Nat.mul_div_le _ _
  have hq : 1 ≤ (dirBuf r).length / 26 := (Nat.le_div_iff_mul_le (by decide)).2 (by omega)
  simp only [entrySize_eq]
  omega

/-- the directory buffer is header, entries, padding -/
theorem dirBuf_decompose {r : Raw} (hb : Blocks512 r) (hs : 2 < r.units.size) (hd : 2 < dirEnd r)
    (hsz : dirEnd r ≤ r.units.size) :
    dirBuf r = hdr r ++ (allEntries r).flatten ++ (dirBuf r).drop (26 * ((dirBuf r).length / 26)) := by
  have hl := dirBuf_length hb hsz
  have := buf_decompose (dirBuf r) (by simp only [entrySize_eq]; omega)
  rw [hdr_eq_take hb hs hd]
  exact this

/-! ## reading -/

theorem readBlocks_ok {r : Raw} {is : List Nat} (h : ∀ i ∈ is, i < r.units.size) :
    readBlocks r is = .ok (is.map (fun i => (r.units[i]?).getD [])) := by
  induction is with
  | nil => rfl
  | cons i is ih =>
    have hi : i < r.units.size := h i List.mem_cons_self
    have : r.units[i]? = some r.units[i] := Array.getElem?_eq_getElem hi
    simp only [readBlocks, readBlock, this, ih (fun j hj => h j (List.mem_cons_of_mem _ hj)), List.map_cons,
      Option.getD_some]

/-- `get_directory` returns the stored directory whenever the header is sane -/
theorem getDirectory_eq {r : Raw} (hb : Blocks512 r) (hbeg : le16 (hdr r) 0 = 0) (hd : 2 < dirEnd r)
    (hdt : dirEnd r ≤ total r) (hsz : dirEnd r ≤ r.units.size) (hnf : numFiles r ≤ (allEntries r).length) :
    getDirectory r = .ok { header := hdr r, entries := allEntries r } := by
  have hs : 2 < r.units.size := by omega
  have h2 : r.units[2]? = some r.units[2] := Array.getElem?_eq_getElem hs
  have hl : (r.units[2]).length = 512 := hb _ _ h2
  unfold getDirectory
  simp only [readBlock, h2]
  rw [if_neg (by show ¬ (r.units[2]).length < 26; omega)]
  have hh : (r.units[2]).take 26 = hdr r := by unfold hdr; rw [h2]; rfl
  rw [hh]
  have c1 : ¬ (Hdr.beginBlock (hdr r) ≠ 0 ∨ Hdr.endBlock (hdr r) ≤ 2 ∨ Hdr.endBlock (hdr r) > Hdr.totalBlocks (hdr r)) := by
    unfold Hdr.beginBlock Hdr.endBlock Hdr.totalBlocks
    unfold dirEnd at hd hdt
    unfold total at hdt
    omega
  rw [if_neg c1]
  have hr : readBlocks r ((List.range (Hdr.endBlock (hdr r) - 2)).map (· + 2)) = .ok (dirBlocks r) := by
    rw [readBlocks_ok]
    · unfold dirBlocks dirEnd Hdr.endBlock
      rw [List.map_map]
      congr 1
      apply List.map_congr_left
      intro i _
      simp only [Function.comp]
      rw [Nat.add_comm]
    · intro i hi
      simp only [List.mem_map, List.mem_range] at hi
      obtain ⟨j, hj, rfl⟩ := hi
      unfold dirEnd at hsz
      unfold Hdr.endBlock at hj
      omega
  rw [hr]
  simp only []
  have ha : entriesFrom (dirBlocks r).flatten ((dirBlocks r).flatten.length / 26 - 1) 26 = allEntries r := rfl
  rw [ha, if_neg (by unfold Hdr.numFiles; unfold numFiles at hnf; omega)]

/-! ## frame: the directory only depends on blocks `2 ..< dirEnd` -/

theorem dir_frame {r r' : Raw} (hd : 2 < dirEnd r) (h : ∀ i, 2 ≤ i → i < dirEnd r → r'.units[i]? = r.units[i]?) :
    hdr r' = hdr r ∧ dirEnd r' = dirEnd r ∧ total r' = total r ∧ numFiles r' = numFiles r ∧
    dirBuf r' = dirBuf r ∧ allEntries r' = allEntries r := by
  have h1 : hdr r' = hdr r := by unfold hdr; rw [h 2 (Nat.le_refl _) hd]
  have h2 : dirEnd r' = dirEnd r := by unfold dirEnd; rw [h1]
  have h3 : dirBuf r' = dirBuf r := by
    unfold dirBuf dirBlocks
    rw [h2]
    congr 1
    apply List.map_congr_left
    intro i hi
    rw [h (2 + i) (by omega) (by simp only [List.mem_range] at hi; omega)]
  refine ⟨h1, h2, by unfold total; rw [h1], by unfold numFiles; rw [h1], h3, by unfold allEntries; rw [h3]⟩

/-! ## writing -/

theorem imgWrite_ok {r : Raw} {i : Nat} {d : Bytes} (h : i < r.units.size) :
    imgWrite r i d = .ok { r with units := r.units.setIfInBounds i (quantize d) } := by
  unfold imgWrite; rw [if_pos h]

/-- what a loop of block writes `i ↦ val i` (for `i` in a list) leaves behind -/
theorem saveLoop_spec (buf : Bytes) : ∀ (ks : List Nat) (r : Raw),
    (∀ k ∈ ks, k * 512 ≤ buf.length ∧ 2 + k < r.units.size) →
    ∃ r', saveLoop buf r ks = (.ok (), r') ∧ r'.units.size = r.units.size ∧
      ∀ i, r'.units[i]? = if 2 ≤ i ∧ i - 2 ∈ ks then some (chunkOf buf (i - 2)) else r.units[i]? := by
  intro ks
  induction ks with
  | nil => intro r _; exact ⟨r, rfl, rfl, fun i => by simp⟩
  | cons k ks ih =>
    intro r h
    obtain ⟨hk1, hk2⟩ := h k List.mem_cons_self
    have hw : writeBlock r buf (volHeaderBlock + k) (k * blockSize) =
        .ok { r with units := r.units.setIfInBounds (2 + k) (chunkOf buf k) } := by
      unfold writeBlock
      rw [if_neg (by rw [blockSize_eq]; omega), volHeaderBlock_eq, imgWrite_ok hk2]
      rfl
    obtain ⟨r', h1, h2, h3⟩ := ih { r with units := r.units.setIfInBounds (2 + k) (chunkOf buf k) }
      (fun j hj => by
        obtain ⟨a, b⟩ := h j (List.mem_cons_of_mem _ hj)
        exact ⟨a, by simpa using b⟩)
    refine ⟨r', by simp only [saveLoop, hw]; exact h1, by simpa using h2, fun i => ?_⟩
    rw [h3 i]
    simp only [List.mem_cons]
    by_cases hi : 2 ≤ i ∧ i - 2 ∈ ks
    · rw [if_pos hi, if_pos ⟨hi.1, Or.inr hi.2⟩]
    · rw [if_neg hi]
      by_cases hik : i = 2 + k
      · subst hik
        have e1 : 2 + k - 2 = k := by omega
        rw [if_pos ⟨by omega, Or.inl e1⟩, e1]
        simp [hk2]
      · rw [if_neg (by
          rintro ⟨a, b | b⟩
          · exact hik (by omega)
          · exact hi ⟨a, b⟩)]
        simp only [Array.getElem?_setIfInBounds]
        rw [if_neg (by omega)]

/-- `save_directory` of a directory with the same `end_block` and a full set of 26-byte entries: it
succeeds, touches only blocks `2 ..< dirEnd`, and the stored directory reads back as what was saved -/
theorem saveDirectory_spec {r : Raw} {d : Dir} (hb : Blocks512 r) (hd : 2 < dirEnd r) (hsz : dirEnd r ≤ r.units.size)
    (hh : d.header.length = 26) (hend : le16 d.header 2 = dirEnd r)
    (hn : d.entries.length = (allEntries r).length) (he : ∀ e ∈ d.entries, e.length = 26) :
    ∃ r', saveDirectory r d = (.ok (), r') ∧ r'.units.size = r.units.size ∧ Blocks512 r' ∧
      (∀ i, (i < 2 ∨ dirEnd r ≤ i) → r'.units[i]? = r.units[i]?) ∧
      hdr r' = d.header ∧ dirEnd r' = dirEnd r ∧ allEntries r' = d.entries := by
  have hbl := dirBuf_length hb hsz
  have hal : (allEntries r).length = 512 * (dirEnd r - 2) / 26 - 1 := by rw [allEntries_length, hbl]
  have hfl : d.entries.flatten.length = 26 * d.entries.length := flatten_length_of_entries he
  have htl : d.toBytes.length = 26 * (512 * (dirEnd r - 2) / 26) := by
    unfold Dir.toBytes
    rw [List.length_append, hh, hfl, hn, hal]
    have : 1 ≤ 512 * (dirEnd r - 2) / 26 := (Nat.le_div_iff_mul_le (by decide)).2 (by omega)
    omega
  have hle : d.toBytes.length ≤ 512 * (dirEnd r - 2) := by rw [htl]; exact Nat.mul_div_le _ _
  have hgt : 512 * (dirEnd r - 2) < d.toBytes.length + 26 := by
    rw [htl]
    have := Nat.lt_div_mul_add (a := 512 * (dirEnd r - 2)) (b := 26) (by decide)
    omega
  obtain ⟨r', h1, h2, h3⟩ := saveLoop_spec d.toBytes (List.range (dirEnd r - 2)) r (by
    intro k hk
    simp only [List.mem_range] at hk
    omega)
  have hunit : ∀ i, 2 ≤ i → i < dirEnd r → r'.units[i]? = some (chunkOf d.toBytes (i - 2)) := by
    intro i a b
    rw [h3 i, if_pos ⟨a, by simp only [List.mem_range]; omega⟩]
  have hother : ∀ i, (i < 2 ∨ dirEnd r ≤ i) → r'.units[i]? = r.units[i]? := by
    intro i hi
    rw [h3 i, if_neg (by simp only [List.mem_range]; omega)]
  have hb' : Blocks512 r' := by
    intro i b hib
    by_cases hi : 2 ≤ i ∧ i < dirEnd r
    · rw [hunit i hi.1 hi.2] at hib
      cases hib
      exact quantize_length _
    · rw [hother i (by omega)] at hib
      exact hb i b hib
  -- the header
  have hc0 : chunkOf d.toBytes 0 = d.toBytes.take 512 ++ List.replicate (512 - d.toBytes.length) 0 := chunkOf_zero _
  have hhdr : hdr r' = d.header := by
    unfold hdr
    rw [hunit 2 (Nat.le_refl _) hd, Option.getD_some, hc0]
    have : 26 ≤ (d.toBytes.take 512).length := by
      rw [List.length_take]
      have : 26 ≤ d.toBytes.length := by unfold Dir.toBytes; rw [List.length_append, hh]; omega
      omega
    rw [List.take_append_of_le_length this, List.take_take]
    unfold Dir.toBytes
    rw [List.take_append_of_le_length (by rw [hh]; decide)]
    exact List.take_of_length_le (by rw [hh]; decide)
  have hde : dirEnd r' = dirEnd r := by
    show le16 (hdr r') 2 = dirEnd r
    rw [hhdr]; exact hend
  -- the buffer
  have hbuf : dirBuf r' = d.toBytes ++ List.replicate (512 * (dirEnd r - 2) - d.toBytes.length) 0 := by
    unfold dirBuf dirBlocks
    rw [hde]
    have : (List.range (dirEnd r - 2)).map (fun i => (r'.units[2 + i]?).getD []) =
        (List.range (dirEnd r - 2)).map (chunkOf d.toBytes) := by
      apply List.map_congr_left
      intro i hi
      simp only [List.mem_range] at hi
      rw [hunit (2 + i) (by omega) (by omega)]
      have : 2 + i - 2 = i := by omega
      rw [this]; rfl
    rw [this, chunks_flatten, Nat.mul_comm (dirEnd r - 2) 512, List.take_of_length_le hle]
  have hent : allEntries r' = d.entries := by
    unfold allEntries
    rw [hbuf]
    have hlen : (d.toBytes ++ List.replicate (512 * (dirEnd r - 2) - d.toBytes.length) 0).length = 512 * (dirEnd r - 2) := by
      rw [List.length_append, List.length_replicate]; omega
    rw [hlen]
    have hcount : 512 * (dirEnd r - 2) / 26 - 1 = d.entries.length := by rw [hn, hal]
    rw [hcount]
    have := @entriesFrom_flatten d.header (List.replicate (512 * (dirEnd r - 2) - d.toBytes.length) 0) d.entries he
    rw [hh] at this
    exact this
  have hsd : saveDirectory r d = (.ok (), r') := by
    unfold saveDirectory
    have : Hdr.endBlock d.header - volHeaderBlock = dirEnd r - 2 := by unfold Hdr.endBlock; rw [hend]
    rw [this]; exact h1
  exact ⟨r', hsd, h2, hb', hother, hhdr, hde, hent⟩

/-- the data loop of `write_file`: blocks `beg + b` receive the quantized chunks, nothing else changes -/
theorem dataLoop_spec (chunks : List (Nat × Bytes)) (beg : Nat) : ∀ (bs : List Nat) (r : Raw),
    (∀ b ∈ bs, (chunks.lookup b).isSome ∧ beg + b < r.units.size) →
    ∃ r', dataLoop chunks beg r bs = (.ok (), r') ∧ r'.units.size = r.units.size ∧
      ∀ i, r'.units[i]? = if beg ≤ i ∧ i - beg ∈ bs then some (quantize (((chunks.lookup (i - beg)).getD []).take 512)) else r.units[i]? := by
  intro bs
  induction bs with
  | nil => intro r _; exact ⟨r, rfl, rfl, fun i => by simp⟩
  | cons b bs ih =>
    intro r h
    obtain ⟨hk1, hk2⟩ := h b List.mem_cons_self
    obtain ⟨d, hd⟩ := Option.isSome_iff_exists.1 hk1
    have hw : writeBlock r d (beg + b) 0 =
        .ok { r with units := r.units.setIfInBounds (beg + b) (quantize (d.take 512)) } := by
      unfold writeBlock
      rw [if_neg (by omega), imgWrite_ok hk2]
      rfl
    obtain ⟨r', h1, h2, h3⟩ := ih { r with units := r.units.setIfInBounds (beg + b) (quantize (d.take 512)) }
      (fun j hj => by
        obtain ⟨a, c⟩ := h j (List.mem_cons_of_mem _ hj)
        exact ⟨a, by simpa using c⟩)
    refine ⟨r', by simp only [dataLoop, hd, hw]; exact h1, by simpa using h2, fun i => ?_⟩
    rw [h3 i]
    simp only [List.mem_cons]
    by_cases hi : beg ≤ i ∧ i - beg ∈ bs
    · rw [if_pos hi, if_pos ⟨hi.1, Or.inr hi.2⟩]
    · rw [if_neg hi]
      by_cases hik : i = beg + b
      · subst hik
        have e1 : beg + b - beg = b := by omega
        rw [if_pos ⟨by omega, Or.inl e1⟩, e1, hd]
        simp [hk2]
      · rw [if_neg (by
          rintro ⟨a, c | c⟩
          · exact hik (by omega)
          · exact hi ⟨a, c⟩)]
        simp only [Array.getElem?_setIfInBounds]
        rw [if_neg (by omega)]

end A2Verif.Fs.Pascal
