import A2Verif.Lemmas.FsProdosRenOp
import A2Verif.Lemmas.FsProdosDelDir
import A2Verif.Lemmas.FsProdosMkC
import A2Verif.Lemmas.FsProdosSubD3
/-!
# Histories of operations on the volume directory and its sub-directories refine the abstract specification

`VOp`: `put`, `mkdir`, `delete`, `rename`, `lock`, `unlock`, `retype` with the arguments of the API; `VOp.exec` runs one on a disk object and
takes the image (`get_img()`); `VOp.Ok vol` says the path addresses the volume directory of the volume named `vol`
(normal form `[vol, name]`) or — `delete`, `lock`, `unlock`, `retype` — a first-level sub-directory (normal form
`[vol, dir, name]`).  `step_refines`: from an `SInv` state the result is an `SInv` state, the step is allowed by the
abstract specification, the volume keeps its name.  `history_refines`: every history is a valid trace.
-/
namespace A2Verif.FsProdos
open A2Verif.Fs.Prodos
open A2Verif.Read.Prodos (entryAt dirChain idxPtr indexEntries readData trimName bitmapFree)
open A2Verif.Read.ProdosT

/-- operations on files of the volume directory, with the arguments the a2kit API takes -/
inductive VOp where
  | delete (path : Bytes)
  | rename (path newName : Bytes)
  | lock (path : Bytes)
  | unlock (path : Bytes)
  /-- `newType = none`: a type string `FileType::from_str` refuses; `aux = none`: a sub-type `u16::from_str` refuses -/
  | retype (path : Bytes) (newType aux : Option Nat)
  /-- `put(fimg)`; `time` is the packed time of the call -/
  | put (f : FImg) (time : Bytes)
  /-- `create(path)`: make a directory -/
  | mkdir (path : Bytes) (time : Bytes)

def isOkR {α : Type} (r : R α) : Bool := match r with | .ok _ => true | .error _ => false

/-- path components joined by `/` -/
def joinSlash : List Bytes → Bytes
  | [] => []
  | [a] => a
  | a :: rest => a ++ [47] ++ joinSlash rest

/-- the nodes of the normal form of a path after the volume, upper-cased and joined by `/`: the path (as the reader lists it)
that the operation addresses -/
def nameOf (vol path : Bytes) : Bytes :=
  match normalizePath vol path with
  | .ok nodes => joinSlash ((nodes.drop 1).map upper)
  | .error _ => []

/-- the path's normal form is `[vol, name]` with a non-empty name, and the path is not the volume itself -/
def RootPath (vol path : Bytes) : Prop := ∃ nm, normalizePath vol path = .ok [vol, nm] ∧ nm ≠ [] ∧ NotVol vol path

/-- the path's normal form is `[vol, dir, name]` with a non-empty name, and the path is not the volume itself -/
def SubPath (vol path : Bytes) : Prop := ∃ dn nm, normalizePath vol path = .ok [vol, dn, nm] ∧ nm ≠ [] ∧ NotVol vol path

/-- the operations proved for paths into a first-level sub-directory -/
def VOp.inSub : VOp → Bool
  | .delete _ | .lock _ | .unlock _ | .retype _ _ _ => true
  | _ => false

def VOp.path : VOp → Bytes
  | .delete p | .rename p _ | .lock p | .unlock p | .retype p _ _ | .mkdir p _ => p
  | .put f _ => f.fullPath

/-- the operation addresses the volume directory of the volume named `vol` or (`delete`, `lock`, `unlock`, `retype`) one of
its sub-directories (a type code is a byte; the arguments of `put` satisfy `PutArgs`, the packed time is four bytes) -/
def VOp.Ok (vol : Bytes) (op : VOp) : Prop :=
  (RootPath vol op.path ∨ (op.inSub = true ∧ SubPath vol op.path)) ∧ (∀ p t a, op = .retype p (some t) a → t < 256) ∧
  (∀ f t, op = .put f t → PutArgs f t) ∧ (∀ p t, op = .mkdir p t → t.length = 4 ∧ ∀ x ∈ t, x < 256)

/-- one operation followed by `get_img()` (source as repaired): did it report success, the disk object afterwards -/
def VOp.exec (op : VOp) (d : Disk) : Bool × Disk :=
  match op with
  | .delete p => (isOkR (Fs.Prodos.delete p repaired d).1, (Fs.Prodos.delete p repaired d).2.flush.2)
  | .rename p n => (isOkR (Fs.Prodos.rename p n d).1, (Fs.Prodos.rename p n d).2.flush.2)
  | .lock p => (isOkR (Fs.Prodos.lock p d).1, (Fs.Prodos.lock p d).2.flush.2)
  | .unlock p => (isOkR (Fs.Prodos.unlock p d).1, (Fs.Prodos.unlock p d).2.flush.2)
  | .retype p t a => (isOkR (Fs.Prodos.retype p t a d).1, (Fs.Prodos.retype p t a d).2.flush.2)
  | .put f t => (isOkR (Fs.Prodos.put f t repaired d).1, (Fs.Prodos.put f t repaired d).2.flush.2)
  | .mkdir p t => (isOkR (Fs.Prodos.mkdir p t d).1, (Fs.Prodos.mkdir p t d).2.flush.2)

/-- the operation of the abstract specification -/
def VOp.abs (vol : Bytes) : VOp → FsOp
  | .delete p => .delete (nameOf vol p)
  | .rename p n => .rename (nameOf vol p) (upper n)
  | .lock p => .lock (nameOf vol p)
  | .unlock p => .unlock (nameOf vol p)
  | .retype p _ _ => .retype (nameOf vol p)
  | .put f _ => .put (nameOf vol f.fullPath) f.chunks f.eof (f.fsType.getD 0 0) (f.aux.getD 0 0 + 256 * f.aux.getD 1 0)
  | .mkdir p _ => .mkdir (nameOf vol p)

theorem nameOf_root {vol path nm : Bytes} (h : normalizePath vol path = .ok [vol, nm]) : nameOf vol path = upper nm := by
  unfold nameOf; rw [h]; rfl

theorem nameOf_sub {vol path dn nm : Bytes} (h : normalizePath vol path = .ok [vol, dn, nm]) :
    nameOf vol path = upper dn ++ [47] ++ upper nm := by
  unfold nameOf; rw [h]; rfl

theorem slice_slice (b : Bytes) (o l o' l' : Nat) (h : o' + l' ≤ l) : slice (slice b o l) o' l' = slice b (o + o') l' := by
  unfold slice
  rw [List.drop_take, List.take_take, List.drop_drop, Nat.min_eq_left (by omega)]

/-- the name of the volume is the label the reader reports -/
theorem volName_label {r : Raw} {v : Vol} (hinv : Inv r) (h : Read.ProdosT.read r = .ok v) : volName (hdrOf r) = v.label := by
  obtain ⟨v', fsL, ch, hr', _, _, _, _, _, _, _, _, _, hv⟩ := hinv.facts
  have : v' = v := by rw [h] at hr'; injection hr' with e; exact e.symm
  subst this
  rw [hv]
  simp only
  unfold volName Ent.nameStr Ent.name Ent.storLen hdrOf
  have h0 : (slice (unitAt r 2) 4 entryLen).getD 0 0 = (unitAt r 2).getD 4 0 := getD_slice _ _ _ 0 (by decide)
  rw [h0, slice_slice _ 4 entryLen 1 15 (by decide)]
  unfold slice
  rw [List.take_take, Nat.min_eq_left (by have := Nat.mod_lt ((unitAt r 2).getD 4 0) (by decide : 16 > 0); omega)]

/-- from `Refines` to the form used for histories -/
theorem exec_of_refines {d : Disk} {α : Type} {run : R α × Disk} {op : FsOp} (hs : SInv d) (h : Refines d run op) :
    SInv run.2.flush.2 ∧ stepOk pdParams (volOf d.raw) op (isOkR run.1) (volOf run.2.flush.2.raw) = true ∧
    volName (hdrOf run.2.flush.2.raw) = volName (hdrOf d.raw) := by
  obtain ⟨d4, v, v4, hfl, hs4, hr, hr4, hstep, hlab⟩ := h
  rw [hfl]
  refine ⟨hs4, ?_, ?_⟩
  · rw [volOf_eq hr, volOf_eq hr4]; exact hstep
  · rw [volName_label hs4.inv hr4, volName_label hs.inv hr, hlab]

theorem isChain_unique {r : Raw} : ∀ {b : Nat} {c1 c2 : List Nat}, IsChain r b c1 → IsChain r b c2 → c1 = c2
  | _, _, _, IsChain.nil, h2 => (isChain_zero h2).symm
  | _, _, c2, @IsChain.cons _ b blk rest hb0 hblk hrest, h2 => by
    cases h2 with
    | nil => exact absurd rfl hb0
    | @cons _ blk2 rest2 _ hblk2 hrest2 =>
      have : blk2 = blk := by rw [hblk] at hblk2; injection hblk2 with e; exact e.symm
      subst this
      rw [isChain_unique hrest hrest2]

theorem find_path_nodup {l : List FileRec} (nd : (l.map (·.path)).Nodup) {f : FileRec} (hf : f ∈ l) :
    l.find? (·.path == f.path) = some f := by
  induction l with
  | nil => cases hf
  | cons a l ih =>
    rw [List.map_cons, List.nodup_cons] at nd
    rw [List.find?_cons]
    rcases List.mem_cons.mp hf with rfl | hf'
    · simp
    · have : (a.path == f.path) = false := by
        have : a.path ≠ f.path := fun e => nd.1 (by rw [e]; exact List.mem_map_of_mem hf')
        simpa using this
      rw [this]
      exact ih nd.2 hf'

/-- a name the search finds as a sub-directory entry is the path of a directory record of the reading -/
theorem dir_hit_lookup {d : Disk} (hs : SInv d) (nm : Bytes) (hv : isNameValid nm = true) (ch : List Nat) (hic : IsChain d.raw 2 ch)
    (x : Bytes × Nat × Nat) (hx : (dirSlots d.raw 2 ch).find? (isHit [stSubDirEntry] nm) = some x) :
    ∃ f, (volOf d.raw).lookup (upper nm) = some f ∧ f.isDir = true := by
  obtain ⟨v, fsL, ch', hr, ht, c, hts, heff, hbsz, hbok⟩ := hs.ctx
  obtain ⟨hw, hn, hroot, hvv, hc, hic', hnd, hchf, h2, h6, h3, hbt, hstv⟩ := root_chain_facts hs.inv v fsL ch' hr ht
  have hce : ch = ch' := isChain_unique hic hic'
  subst hce
  obtain ⟨hxm, hxhit⟩ := mem_find hx
  have hmatch : isFileMatch [stSubDirEntry] nm x.1 = true := by
    unfold isHit at hxhit; simp only [Bool.and_eq_true] at hxhit; exact hxhit.2
  obtain ⟨hst, hname⟩ := isFileMatch_dir nm _ hv hmatch
  have hact : isAct x = true := by unfold isAct; simp only [ne_eq, decide_eq_true_eq]; omega
  obtain ⟨hsplit, hs1, hs2, hfs2, hfiles, hdisj, hxnd, hxown, hall, hcnt0⟩ := slot_split_facts hs.inv v fsL ch hr ht x hxm
  obtain ⟨z, hz⟩ := hall x hxm hact
  obtain ⟨fs, sch, _, hzeq, _, _⟩ := RE_dir 69 d.raw (hdrTotal d.raw) [] 0 x z hst hz
  have hgx : slotRecs 69 d.raw (hdrTotal d.raw) [] 0 x = z := by unfold slotRecs; rw [if_pos hact, hz]; rfl
  have hmem : dirRec x.1 [] sch ∈ v.files := by
    simp only at hfiles
    rw [hfiles, hgx, hzeq]
    apply List.mem_append_left
    apply List.mem_append_right
    simp
  have hpath : (dirRec x.1 [] sch).path = upper nm := by
    show (baseRec x.1 []).path = _
    rw [baseRec_path_root, hname]
  refine ⟨dirRec x.1 [] sch, ?_, rfl⟩
  rw [volOf_eq hr]
  unfold Vol.lookup
  rw [← hpath]
  exact find_path_nodup (wfB_paths_nodup hw) hmem

/-- **Refinement, one step**: from a state between two calls (`SInv`), an operation that addresses the volume directory (or,
`delete`, `lock`, `unlock`, `retype`, a first-level sub-directory) ends — after `get_img()` — in such a state again; the readings before and after are related by the step the abstract specification
allows for the operation with the reported result; the volume keeps its name -/
theorem step_refines {d : Disk} (hs : SInv d) (op : VOp) (hroot : op.Ok (volName (hdrOf d.raw)))
    (hren : ∀ p n, op = .rename p n → ∀ f, (volOf d.raw).lookup (nameOf (volName (hdrOf d.raw)) p) = some f → f.isDir = false) :
    SInv (op.exec d).2 ∧
    stepOk pdParams (volOf d.raw) (op.abs (volName (hdrOf d.raw))) (op.exec d).1 (volOf (op.exec d).2.raw) = true ∧
    volName (hdrOf (op.exec d).2.raw) = volName (hdrOf d.raw) := by
  obtain ⟨hpath, htb, hput, hmk⟩ := hroot
  rcases hpath with ⟨nm, hnodes, hnm, hnv⟩ | ⟨hin, dn, nm, hnodes, hnm, hnv⟩
  case inr =>
    cases op with
    | delete p =>
      simp only [VOp.path] at hnodes hnv
      have := exec_of_refines hs (delete_sub_refines' hs p dn nm hnodes hnm hnv)
      simp only [VOp.exec, VOp.abs, nameOf_sub hnodes]
      exact this
    | lock p =>
      simp only [VOp.path] at hnodes hnv
      have := exec_of_refines hs (lock_sub_refines' hs p dn nm hnodes hnm)
      simp only [VOp.exec, VOp.abs, nameOf_sub hnodes]
      exact this
    | unlock p =>
      simp only [VOp.path] at hnodes hnv
      have := exec_of_refines hs (unlock_sub_refines' hs p dn nm hnodes hnm)
      simp only [VOp.exec, VOp.abs, nameOf_sub hnodes]
      exact this
    | retype p t a =>
      simp only [VOp.path] at hnodes hnv
      have := exec_of_refines hs (retype_sub_refines' hs p dn nm t a hnodes hnm (fun t' ht' => htb p t' a (by rw [ht'])))
      simp only [VOp.exec, VOp.abs, nameOf_sub hnodes]
      exact this
    | rename p n => cases hin
    | put f t => cases hin
    | mkdir p t => cases hin
  cases op with
  | delete p =>
    simp only [VOp.path] at hnodes hnv
    obtain ⟨res, d1, d4, v, v4, hrun, hfl, hs4, hr, hr4, hstep, hlab⟩ := delete_refines hs p nm hnodes hnm hnv
    have hR : Refines d (Fs.Prodos.delete p repaired d) (.delete (upper nm)) := by
      rw [hrun]
      refine ⟨d4, v, v4, hfl, hs4, hr, hr4, ?_, hlab⟩
      cases res <;> exact hstep
    have := exec_of_refines hs hR
    simp only [VOp.exec, VOp.abs, nameOf_root hnodes]
    exact this
  | rename p n =>
    simp only [VOp.path] at hnodes hnv
    have hnodir : ∀ ch, IsChain d.raw 2 ch → isNameValid nm = true →
        (dirSlots d.raw 2 ch).find? (isHit [stSubDirEntry] nm) = none := by
      intro ch hic hv
      cases hx : (dirSlots d.raw 2 ch).find? (isHit [stSubDirEntry] nm) with
      | none => rfl
      | some x =>
        obtain ⟨f, hf, hd⟩ := dir_hit_lookup hs nm hv ch hic x hx
        have := hren p n rfl f (by rw [nameOf_root hnodes]; exact hf)
        rw [hd] at this; cases this
    have := exec_of_refines hs (rename_refines' hs p nm n hnodes hnm hnv hnodir)
    simp only [VOp.exec, VOp.abs, nameOf_root hnodes]
    exact this
  | lock p =>
    simp only [VOp.path] at hnodes hnv
    have := exec_of_refines hs (lock_refines' hs p nm hnodes hnm)
    simp only [VOp.exec, VOp.abs, nameOf_root hnodes]
    exact this
  | unlock p =>
    simp only [VOp.path] at hnodes hnv
    have := exec_of_refines hs (unlock_refines' hs p nm hnodes hnm)
    simp only [VOp.exec, VOp.abs, nameOf_root hnodes]
    exact this
  | retype p t a =>
    simp only [VOp.path] at hnodes hnv
    have := exec_of_refines hs (retype_refines' hs p nm t a hnodes hnm (fun t' ht' => htb p t' a (by rw [ht'])))
    simp only [VOp.exec, VOp.abs, nameOf_root hnodes]
    exact this
  | put f t =>
    simp only [VOp.path] at hnodes hnv
    have pa := hput f t rfl
    have := exec_of_refines hs (put_refines' hs f t nm pa hnodes hnm)
    simp only [VOp.exec, VOp.abs, nameOf_root hnodes]
    exact this
  | mkdir p t =>
    simp only [VOp.path] at hnodes hnv
    have := exec_of_refines hs (mkdir_refines' hs p t nm (hmk p t rfl) hnodes hnm)
    simp only [VOp.exec, VOp.abs, nameOf_root hnodes]
    exact this

/-! ## histories -/

/-- the checked steps a history of operations produces: abstract operation, reported result, reading of the image after the step -/
def trace (vol : Bytes) : Disk → List VOp → List Step
  | _, [] => []
  | d, op :: ops => ⟨op.abs vol, (op.exec d).1, volOf (op.exec d).2.raw⟩ :: trace vol (op.exec d).2 ops

/-- the disk object after the history -/
def finalDisk : Disk → List VOp → Disk
  | d, [] => d
  | d, op :: ops => finalDisk (op.exec d).2 ops

/-- every `rename` of the history is applied to a file: at the time it is executed, its source is not listed as a directory
(renaming a directory renames the paths of the files in it, which the abstract `rename` does not describe) -/
def RenFiles (vol : Bytes) : Disk → List VOp → Prop
  | _, [] => True
  | d, op :: ops =>
    (∀ p n, op = .rename p n → ∀ f, (volOf d.raw).lookup (nameOf vol p) = some f → f.isDir = false) ∧
    RenFiles vol (op.exec d).2 ops

/-- **Refinement, histories**: every history of operations on the volume directory and (`delete`, `lock`, `unlock`, `retype`)
on files of its sub-directories, started from a state between two calls
(`SInv`), in which `rename` is applied to files only, is a valid trace of the abstract specification; the state at the end is
such a state again, the final reading is the reading of the final image -/
theorem history_refines : ∀ (ops : List VOp) (d : Disk), SInv d → (∀ op ∈ ops, op.Ok (volName (hdrOf d.raw))) →
    RenFiles (volName (hdrOf d.raw)) d ops →
    validFrom pdParams (volOf d.raw) (trace (volName (hdrOf d.raw)) d ops) ∧ SInv (finalDisk d ops) ∧
    finalVol (volOf d.raw) (trace (volName (hdrOf d.raw)) d ops) = volOf (finalDisk d ops).raw
  | [], d, hs, _, _ => ⟨trivial, hs, rfl⟩
  | op :: ops, d, hs, hroot, hren => by
    obtain ⟨h1, h2, h3⟩ := step_refines hs op (hroot op List.mem_cons_self) hren.1
    have ih := history_refines ops (op.exec d).2 h1 (fun o ho => by rw [h3]; exact hroot o (List.mem_cons_of_mem _ ho))
      (by rw [h3]; exact hren.2)
    rw [h3] at ih
    obtain ⟨a, b, c⟩ := ih
    refine ⟨⟨h2, a⟩, b, ?_⟩
    show finalVol (volOf d.raw) (⟨_, _, _⟩ :: trace _ _ ops) = _
    rw [finalVol_cons]
    exact c

/-- a history without `rename` meets `RenFiles` -/
theorem renFiles_of_no_rename (vol : Bytes) : ∀ (ops : List VOp) (d : Disk), (∀ op ∈ ops, ∀ p n, op ≠ .rename p n) → RenFiles vol d ops
  | [], _, _ => trivial
  | op :: ops, d, h => ⟨fun p n e => absurd e (h op List.mem_cons_self p n),
      renFiles_of_no_rename vol ops _ (fun o ho => h o (List.mem_cons_of_mem _ ho))⟩

theorem mem_trace {vol : Bytes} : ∀ {ops : List VOp} {d : Disk} {s : Step}, s ∈ trace vol d ops → ∃ op ∈ ops, s.op = op.abs vol
  | [], _, s, hs => by cases hs
  | op :: ops, d, s, hs => by
    rcases List.mem_cons.1 hs with rfl | hs
    · exact ⟨op, List.mem_cons_self, rfl⟩
    · obtain ⟨o, ho, e⟩ := mem_trace hs
      exact ⟨o, List.mem_cons_of_mem _ ho, e⟩

/-- a simple relative name (no `/`, 1 to 15 characters) addresses the volume directory, whatever the volume is called -/
theorem rootPath_simple (r : Raw) (name : Bytes) (hne : name ≠ []) (hns : 47 ∉ name) (hl : name.length ≤ 15) :
    RootPath (volName (hdrOf r)) name := by
  refine ⟨upper name, normalizePath_simple _ name hne hns hl (by
    unfold volName Ent.nameStr
    rw [List.length_take]
    have := Nat.mod_lt (Ent.storLen (hdrOf r)) (by decide : 16 > 0)
    omega), ?_, notVol_simple _ name hne hns⟩
  intro h; apply hne; unfold upper at h; exact List.map_eq_nil_iff.mp h

theorem splitSlash_two : ∀ (a b : Bytes), 47 ∉ a → 47 ∉ b → splitSlash (a ++ 47 :: b) = [a, b]
  | [], b, _, hb => by
    show splitSlash (47 :: b) = [[], b]
    unfold splitSlash
    rw [splitSlash_noslash b hb]
    simp
  | c :: cs, b, ha, hb => by
    have hc : c ≠ 47 := fun e => ha (e ▸ List.mem_cons_self)
    have ih := splitSlash_two cs b (fun hm => ha (List.mem_cons_of_mem _ hm)) hb
    show splitSlash (c :: (cs ++ 47 :: b)) = _
    unfold splitSlash
    rw [ih]
    simp [hc]

/-- **a relative path `dir/name`** (no further `/`, every part at most 15 characters) has the normal form `[volume, DIR, NAME]` -/
theorem normalizePath_sub (vol dn nm : Bytes) (hne : dn ≠ []) (hnd : 47 ∉ dn) (hnn : 47 ∉ nm) (hld : dn.length ≤ 15)
    (hln : nm.length ≤ 15) (hv : vol.length ≤ 15) : normalizePath vol (dn ++ 47 :: nm) = .ok [vol, upper dn, upper nm] := by
  cases dn with
  | nil => exact absurd rfl hne
  | cons c cs =>
    have hc : c ≠ 47 := fun e => hnd (e ▸ List.mem_cons_self)
    show normalizePath vol (c :: (cs ++ 47 :: nm)) = _
    unfold normalizePath
    have hsp : splitSlash (c :: (cs ++ 47 :: nm)) = [c :: cs, nm] := splitSlash_two (c :: cs) nm hnd hnn
    simp only [hsp, List.map_cons, List.map_nil, ne_eq, hc, not_false_eq_true, ↓reduceIte]
    have hul : (upper (c :: cs)).length = (c :: cs).length := by unfold upper; simp
    have hun : (upper nm).length = nm.length := by unfold upper; simp
    unfold pathLens pathLens pathLens pathLens
    simp only [Nat.lt_irrefl, ↓reduceIte, gt_iff_lt, Nat.zero_add]
    have h1 : ¬ (64 < 1 + vol.length) := by omega
    simp only [h1, ↓reduceIte]
    have h2 : ¬ (64 < 1 + vol.length + 1 + (upper (c :: cs)).length) := by rw [hul]; simp at hld ⊢; omega
    simp only [h2, ↓reduceIte, Nat.lt_irrefl]
    have h3 : ¬ (64 < 1 + vol.length + 1 + (upper (c :: cs)).length + 1 + (upper nm).length) := by
      rw [hul, hun]; simp at hld ⊢; omega
    simp only [h3, ↓reduceIte, Nat.lt_irrefl]
    rw [if_neg (by omega)]

theorem notVol_rel (vol path : Bytes) (c : Nat) (cs : Bytes) (hp : path = c :: cs) (hc : c ≠ 47) : NotVol vol path := by
  subst hp
  have hlc : lowerByte c ≠ 47 := by
    unfold lowerByte; split <;> omega
  unfold NotVol
  intro h
  rcases h with h | h | h | h
  · exact hc (List.cons.inj h).1
  · cases h
  · unfold lower at h; rw [List.map_cons] at h; exact hlc (List.cons.inj h).1
  · unfold lower at h; rw [List.map_cons] at h
    exact hlc (List.cons.inj h).1

/-- a relative path `dir/name` addresses a first-level sub-directory, whatever the volume is called -/
theorem subPath_simple (r : Raw) (dn nm : Bytes) (hne : dn ≠ []) (hnn : nm ≠ []) (hnd : 47 ∉ dn) (hns : 47 ∉ nm)
    (hld : dn.length ≤ 15) (hln : nm.length ≤ 15) : SubPath (volName (hdrOf r)) (dn ++ 47 :: nm) := by
  refine ⟨upper dn, upper nm, normalizePath_sub _ dn nm hne hnd hns hld hln (by
    unfold volName Ent.nameStr
    rw [List.length_take]
    have := Nat.mod_lt (Ent.storLen (hdrOf r)) (by decide : 16 > 0)
    omega), ?_, ?_⟩
  · intro h; apply hnn; unfold upper at h; exact List.map_eq_nil_iff.mp h
  · cases dn with
    | nil => exact absurd rfl hne
    | cons c cs => exact notVol_rel _ _ c (cs ++ 47 :: nm) rfl (fun e => hnd (e ▸ List.mem_cons_self))

end A2Verif.FsProdos
