import A2Verif.Lemmas.C06IdentDos
/-!
# C06, identification: which file system `create_fs_from_bytestream` finds in the saved bytes

`dos_identified_16` / `dos_identified_13`: the saved bytes of a DOS 3.3 (DO) / DOS 3.2 (D13) object whose VTOC carries
the header are identified as DOS — with the matching extension hint, with `dsk`, and without a hint (DOS is the first
file system `try_img` asks and D13 / DO are the first flat containers that accept these sizes).
-/
namespace A2Verif.Reload.Ident
open A2Verif.Fs.Dos3x A2Verif.Reload.Dos

theorem vtocTest_of_hdr {c : Nat} {sec : Bytes} (hl : 196 ≤ sec.length) (h : Hdr c (sec.take 196)) :
    (c = 13 → vtocTest sec 13 true = true) ∧ (c = 16 → vtocTest sec 16 false = true) := by
  have g : ∀ i, i < 196 → sec.getD i 0 = (sec.take 196).getD i 0 := fun i hi => (getD_take hi).symm
  have h1 := h.track1; have h2 := h.sector1; have h3 := h.version; have h6 := h.vol
  have h34 := h.tracks; have h35 := h.sectors; have h36 := h.bytes
  rw [← g 1 (by omega)] at h1
  rw [← g 2 (by omega)] at h2
  rw [← g 3 (by omega)] at h3
  rw [← g 6 (by omega)] at h6
  rw [← g 0x34 (by omega)] at h34
  rw [← g 0x35 (by omega)] at h35
  rw [← g 0x36 (by omega), ← g 0x37 (by omega)] at h36
  constructor
  · intro hc
    subst hc
    unfold vtocTest
    simp only [Bool.and_eq_true, decide_eq_true_eq, if_true]
    exact ⟨⟨⟨⟨⟨⟨⟨⟨⟨hl, h3.1 rfl⟩, h6.1⟩, h6.2⟩, h1⟩, h2⟩, h36.1⟩, h36.2⟩, h35⟩, h34⟩
  · intro hc
    subst hc
    unfold vtocTest
    simp only [Bool.and_eq_true, decide_eq_true_eq, Bool.false_eq_true, if_false]
    exact ⟨⟨⟨⟨⟨⟨⟨⟨⟨hl, h3.2 rfl⟩, h6.1⟩, h6.2⟩, h1⟩, h2⟩, h36.1⟩, h36.2⟩, h35⟩, h34⟩

/-- the image `get_img()` hands out has the VTOC with the header at track 17 sector 0 -/
theorem flush_vtoc {d : Disk} (hc : Coh d) (hh : HdrD d) :
    ∃ r sec, d.flush = .ok r ∧ Shaped 256 r ∧ r.units.size = 35 * d.c ∧ r.units[vtocTrack * d.c]? = some sec ∧
      196 ≤ sec.length ∧ Hdr d.c (sec.take 196) := by
  have hcur := hh.cur
  cases hv : d.vtoc with
  | none =>
    rw [hv] at hcur
    obtain ⟨buf, hb, hl, hd⟩ := hcur
    exact ⟨d.raw, buf, by unfold Disk.flush; simp only [hv], hc.shaped, hh.size, hb, hl, hd⟩
  | some v =>
    rw [hv] at hcur
    have hw : WCoh ⟨d.c, d.raw, v⟩ := openVtoc_wcoh hc (by unfold openVtoc; simp only [hv])
    have hi := vtoc_in hw
    simp only at hi
    refine ⟨_, quantize v, flush_open hv hw, shaped_write hc.shaped _ _, by simp [hh.size], by simp [hi], by rw [Dos.quantize_length]; omega, ?_⟩
    have e : (quantize v).take 196 = v := take_quantize hcur.2
    rw [e]
    exact hcur.1

/-- C06, identification (DOS 3.3 on DO): with the hint `do` or `dsk` and without a hint the saved bytes are found to hold DOS 3.3 -/
theorem dos_identified_16 {d : Disk} (hc : Coh d) (hh : HdrD d) (h16 : d.c = 16) {b : Bytes} (hs : save d = .ok b) :
    identify .do_ b = some .dos33 ∧ identify .dsk b = some .dos33 ∧ identify .none b = some .dos33 := by
  obtain ⟨r, sec, hf, hsh, hsz, hu, hl, hd⟩ := flush_vtoc hc hh
  unfold save at hs
  rw [hf] at hs
  cases hs
  rw [h16] at hsz hu hd
  have hlen : (toBytes r).length = 143360 := by rw [toBytes_length hsh, hsz]
  have hi : vtocTrack * 16 < r.units.size := by rw [hsz]; decide
  have hslice : bytesAt (toBytes r) ((17 * 16 + 0) * 256) 256 = some sec := by
    unfold bytesAt
    rw [if_pos (by rw [hlen]; decide), slice_toBytes hsh (i := 17 * 16 + 0) (by rw [hsz]; decide)]
    rw [Array.getElem?_eq_getElem hi] at hu
    exact hu
  have hdo : probeOf (toBytes r) .do_ = some (probeDO (toBytes r)) := by
    unfold probeOf doAccepts; rw [hlen]; rfl
  have hd13 : probeOf (toBytes r) .d13 = none := by
    unfold probeOf d13Accepts; rw [hlen]; rfl
  have htry : tryImg (probeDO (toBytes r)) = .dos33 := by
    unfold tryImg dosTest probeDO
    simp only [hlen]
    have e : (if (17 : Nat) < 143360 / 512 / 8 ∧ (0 : Nat) < 16 then bytesAt (toBytes r) ((17 * 16 + 0) * 256) 256 else none) = some sec := by
      rw [if_pos (by decide), hslice]
    rw [e]
    simp only [(vtocTest_of_hdr hl hd).2 rfl]
    rfl
  refine ⟨?_, ?_, ?_⟩
  · unfold identify candidates identifyIn; simp only [hdo, htry]
  · unfold identify candidates identifyIn; simp only [hdo, htry]
  · unfold identify candidates identifyIn; simp only [hd13]; unfold identifyIn; simp only [hdo, htry]

/-- C06, identification (DOS 3.2 on D13): with the hint `d13` and without a hint the saved bytes are found to hold DOS 3.2 -/
theorem dos_identified_13 {d : Disk} (hc : Coh d) (hh : HdrD d) (h13 : d.c = 13) {b : Bytes} (hs : save d = .ok b) :
    identify .d13 b = some .dos32 ∧ identify .none b = some .dos32 := by
  obtain ⟨r, sec, hf, hsh, hsz, hu, hl, hd⟩ := flush_vtoc hc hh
  unfold save at hs
  rw [hf] at hs
  cases hs
  rw [h13] at hsz hu hd
  have hlen : (toBytes r).length = 116480 := by rw [toBytes_length hsh, hsz]
  have hi : vtocTrack * 13 < r.units.size := by rw [hsz]; decide
  have hslice : bytesAt (toBytes r) (17 * 3328 + 0 * 256) 256 = some sec := by
    unfold bytesAt
    rw [if_pos (by rw [hlen]; decide)]
    have : 17 * 3328 + 0 * 256 = (17 * 13) * 256 := by decide
    rw [this, slice_toBytes hsh (i := 17 * 13) (by rw [hsz]; decide)]
    rw [Array.getElem?_eq_getElem hi] at hu
    exact hu
  have hd13 : probeOf (toBytes r) .d13 = some (probeD13 (toBytes r)) := by
    unfold probeOf d13Accepts; rw [hlen]; rfl
  have htry : tryImg (probeD13 (toBytes r)) = .dos32 := by
    unfold tryImg dosTest probeD13
    simp only [hlen]
    have e : (if (17 : Nat) < 116480 / 3328 ∧ (0 : Nat) < 13 then bytesAt (toBytes r) (17 * 3328 + 0 * 256) 256 else none) = some sec := by
      rw [if_pos (by decide), hslice]
    rw [e]
    simp only [(vtocTest_of_hdr hl hd).1 rfl]
    rfl
  refine ⟨?_, ?_⟩
  · unfold identify candidates identifyIn; simp only [hd13, htry]
  · unfold identify candidates identifyIn; simp only [hd13, htry]


/-! ## along histories -/

theorem reload_hdr {d : Disk} (hc : Coh d) (hh : HdrD d) : HdrD (reload d) ∧ (reload d).c = d.c := by
  obtain ⟨r, sec, hf, hsh, hsz, hu, hl, hd⟩ := flush_vtoc hc hh
  rw [reload_eq hf hsh]
  exact ⟨⟨hh.c, hsz, ⟨sec, hu, hl, hd⟩⟩, rfl⟩

/-- a history without `init` keeps the header (and coherence) -/
theorem exec_hdr (steps : List Step) {d : Disk} (hc : Coh d) (hh : HdrD d) (hn : ∀ vol sectors, Step.op (.init vol sectors) ∉ steps)
    (rp : Repairs := {}) : HdrD (exec d steps rp).2 ∧ (exec d steps rp).2.c = d.c := by
  induction steps generalizing d with
  | nil => unfold exec; exact ⟨hh, rfl⟩
  | cons s rest ih =>
    have hn' : ∀ vol sectors, Step.op (.init vol sectors) ∉ rest := fun v s hm => hn v s (List.mem_cons_of_mem _ hm)
    cases s with
    | op o =>
      have ho : ∀ vol sectors, o ≠ .init vol sectors := fun v s e => hn v s (by rw [e]; exact List.mem_cons_self)
      obtain ⟨h1, c1⟩ := op_hdr hh o ho rp
      obtain ⟨h2, c2⟩ := ih (op_sim (DSim.same hc) o rp).2.coh h1 hn'
      rw [exec]
      exact ⟨h2, by rw [← c1]; exact c2⟩
    | reload =>
      obtain ⟨h1, c1⟩ := reload_hdr hc hh
      obtain ⟨h2, c2⟩ := ih (reload_dsim hc).coh' h1 hn'
      rw [exec]
      exact ⟨h2, by rw [← c1]; exact c2⟩

/-! ## the ambiguity: a VTOC look-alike wins -/

/-- **Any** 143360-byte image whose bytes 69632 … 69887 (track 17 sector 0 in DOS order = the first half of ProDOS
block 136 in ProDOS order) pass `test_img_16` is identified as DOS 3.3 with the hints `do`, `dsk` and without a hint —
whatever else it contains.  For a ProDOS, Pascal or CP/M volume these bytes are file data. -/
theorem vtoc_lookalike_wins {b sec : Bytes} (hlen : b.length = 143360) (hs : bytesAt b 69632 256 = some sec)
    (ht : vtocTest sec 16 false = true) :
    identify .do_ b = some .dos33 ∧ identify .dsk b = some .dos33 ∧ identify .none b = some .dos33 := by
  have hdo : probeOf b .do_ = some (probeDO b) := by
    unfold probeOf doAccepts; rw [hlen]; rfl
  have hd13 : probeOf b .d13 = none := by
    unfold probeOf d13Accepts; rw [hlen]; rfl
  have htry : tryImg (probeDO b) = .dos33 := by
    unfold tryImg dosTest probeDO
    simp only [hlen]
    have e : (if (17 : Nat) < 143360 / 512 / 8 ∧ (0 : Nat) < 16 then bytesAt b ((17 * 16 + 0) * 256) 256 else none) = some sec := by
      rw [if_pos (by decide)]; exact hs
    rw [e]
    simp only [ht]
    rfl
  refine ⟨?_, ?_, ?_⟩
  · unfold identify candidates identifyIn; simp only [hdo, htry]
  · unfold identify candidates identifyIn; simp only [hdo, htry]
  · unfold identify candidates identifyIn; simp only [hd13]; unfold identifyIn; simp only [hdo, htry]

/-- with the hint `po` the DOS test cannot fire: a PO image refuses DOS sector addresses -/
theorem po_hint_skips_dos (b : Bytes) : dosTest (probePO b) = none := by
  unfold dosTest probePO
  simp only
  split <;> rfl

/-- with the hint `po`, a block 2 that passes `prodos::Disk::test_img` decides -/
theorem prodos_header_identified {b : Bytes} (ha : poAccepts b = true) (ht : prodosTest (probePO b) = true) :
    identify .po b = some .prodos := by
  unfold identify candidates identifyIn probeOf
  simp only [ha, if_true]
  unfold tryImg
  rw [po_hint_skips_dos]
  simp only [ht, if_true]

/-- a 280-block image that is a ProDOS volume for its header (volume `A`, 280 blocks) and carries a VTOC look-alike
in the first half of block 136 -/
def ambiguousBytes : Bytes :=
  let key : Bytes := [0, 0, 3, 0, 0xF1, 65] ++ List.replicate 29 0 ++ [0x27, 0x0D, 0, 0, 6, 0, 24, 1] ++ List.replicate (512 - 43) 0
  let vtoc : Bytes := [0, 17, 15, 3, 0, 0, 254] ++ List.replicate 32 0 ++ [122] ++ List.replicate 8 0 ++ [17, 1, 0, 0, 35, 16, 0, 1] ++ List.replicate 200 0
  List.replicate 1024 0 ++ key ++ List.replicate (69632 - 1536) 0 ++ vtoc ++ List.replicate (143360 - 69632 - 256) 0

set_option maxRecDepth 1000000 in
/-- **the witness**: the same bytes are ProDOS with the hint `po` and DOS 3.3 with the hint `dsk` or without a hint.
Confirmed on the real code (design/C06.md): a ProDOS or Pascal volume on a PO image, or a ProDOS or CP/M volume on a DO
image **even with its own extension hint**, holding such a sector in a file, is re-opened as "a2 dos". -/
theorem ambiguous_image : identify .po ambiguousBytes = some .prodos ∧ identify .dsk ambiguousBytes = some .dos33 ∧
    identify .none ambiguousBytes = some .dos33 := by decide +kernel

end A2Verif.Reload.Ident
