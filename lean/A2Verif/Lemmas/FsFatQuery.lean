import A2Verif.Lemmas.FsFatOps
/-!
# Queries of the concrete FAT model against the reading: the free count

`wok_of`: the invariant's `Geo` and `Coh` give the allocation lemmas their hypotheses (`WOk`).
`statFree_is_reading`: `stat().free_blocks` of the model is the number of free units of the reading.
-/
namespace A2Verif.FsFat
open A2Verif A2Verif.Fs.Fat A2Verif.Read.FatT

theorem usable_le {b : Bpb} : b.clusterCountUsable ≤ b.dataRgnSecs / b.spc ∧
    b.clusterCountUsable ≤ b.fatSecs * b.secSize * 8 / b.fatType - 2 := by
  unfold Bpb.clusterCountUsable
  exact ⟨Nat.min_le_left _ _, Nat.min_le_right _ _⟩

theorem wok_of {d : Disk} {f : Array Nat} (g : Geo d) (c : Coh d f) : WOk d f := by
  have hu := usable_le (b := d.bpb)
  have habs := abstract_lt g
  refine { fat := c.isOpen, typ := g.typ, bytes := c.bytes, inbuf := ?_, geom := ?_, small := ?_ }
  · intro cl hcl
    unfold InBuf
    have h2 := hu.2
    rw [g.ftyp] at h2
    unfold Bpb.secSize at h2
    rw [g.bps] at h2
    rw [c.size]
    have hx : 512 ≤ d.bpb.fatSecs * 512 := by
      have := g.fat16
      rw [fatSecs_eq g]; omega
    generalize d.bpb.fatSecs * 512 = x at h2 hx ⊢
    unfold firstDataCluster at hcl
    omega
  · intro cl hcl s hs
    have ⟨h2, h3⟩ := clusInRng_bounds hcl
    have h1 := hu.1
    have hfit := g.fits
    rw [List.mem_range'_1] at hs
    unfold Bpb.firstClusterSec at hs
    unfold Bpb.dataRgnSecs at h1
    have hspc : 0 < d.bpb.spc := Nat.pos_of_ne_zero g.spc
    have hmul : (cl - 2 + 1) * d.bpb.spc ≤ (d.bpb.totSec - d.bpb.firstDataSec) := by
      have : cl - 2 + 1 ≤ (d.bpb.totSec - d.bpb.firstDataSec) / d.bpb.spc := by unfold firstDataCluster at h3; omega
      calc (cl - 2 + 1) * d.bpb.spc ≤ ((d.bpb.totSec - d.bpb.firstDataSec) / d.bpb.spc) * d.bpb.spc := Nat.mul_le_mul_right _ this
        _ ≤ d.bpb.totSec - d.bpb.firstDataSec := Nat.div_mul_le_self _ _
    rw [Nat.add_mul] at hmul
    omega
  · have := hu.1
    unfold Bpb.clusterCountAbstract at habs
    unfold firstDataCluster
    omega

theorem freeUnits_length {d : Disk} (f : Array Nat) : (freeUnitsOf d.bpb f).length = freeCount d.bpb f := by
  unfold freeUnitsOf freeCount clusters
  rw [← List.countP_eq_length_filter]
  have : (List.range d.bpb.clusterCountUsable).map (· + 2) = List.range' firstDataCluster d.bpb.clusterCountUsable := by
    rw [range'_eq_map]
    apply List.map_congr_left
    intro k _
    unfold firstDataCluster; omega
  rw [this]
  apply List.countP_congr
  intro cl _
  unfold isFree12
  rw [rd12_eq_reader]
  simp

/-- **`stat().free_blocks` of the model is the free count of the reading** (C04: reported free space) -/
theorem statFree_is_reading {d : Disk} (inv : Inv d) : statFree d = (.ok (volOf d).free, d) := by
  obtain ⟨f, c⟩ := inv.coh
  have g := inv.geo
  have w := wok_of g c
  obtain ⟨hread, _, _⟩ := inv_reads_well_formed inv
  rw [readT_eq g c] at hread
  have hfree : (volOf d).freeUnits = freeUnitsOf d.bpb f := by
    unfold readFrom at hread
    cases hr : readDirT d.raw (rbpb d.bpb) f false (hiOf d.bpb) 33 (rootBuf d) [] with
    | error e => rw [hr] at hread; cases hread
    | ok files =>
      rw [hr] at hread
      simp only [Except.map] at hread
      injection hread with hread
      rw [← hread]
  unfold statFree
  rw [M_bind_apply, getRootDir_eq g]
  simp only []
  rw [numFreeBlocks_open w]
  unfold Vol.free
  rw [hfree, freeUnits_length]

end A2Verif.FsFat
