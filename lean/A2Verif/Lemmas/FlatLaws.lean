import A2Verif.Lemmas.Flat
/-!
`StoreLaws` for the flat formats, one addressing mode at a time.
-/
namespace A2Verif.Model.Flat
open A2Verif.Gen

/-- The storage laws of one addressing mode of one image format (DESIGN §6.2).
`unit s a` is the size of the unit at address `a`. -/
structure StoreLaws {σ α : Type} (wf : σ → Prop) (valid : σ → α → Prop) (unit : σ → α → Nat)
    (read : σ → α → RRes) (write : σ → α → List Nat → WRes σ) : Prop where
  /-- a write to a valid address succeeds, keeps the image well formed and the set of valid
  addresses, reads back as the zero-padded/truncated data, and changes no other valid address -/
  write_read : ∀ s a d, wf s → valid s a →
    ∃ s', write s a d = .ok s' ∧ wf s' ∧ (∀ b, valid s' b ↔ valid s b) ∧
      read s' a = .ok (quantize d (unit s a)) ∧
      ∀ b, valid s b → b ≠ a → read s' b = read s b
  /-- a read of a valid address succeeds and returns a whole unit -/
  read_total : ∀ s a, wf s → valid s a → ∃ x, read s a = .ok x ∧ x.length = unit s a

/-- invalid addresses are refused: an error (not a panic, not data), and the image is unchanged -/
structure Refuses {σ α : Type} (wf : σ → Prop) (valid : σ → α → Prop)
    (read : σ → α → RRes) (write : σ → α → List Nat → WRes σ) : Prop where
  refused : ∀ s a d, wf s → ¬ valid s a → read s a = .err ∧ write s a d = .err s

/-- single extent of `len` bytes at unit index `u` of a buffer of `n` units -/
theorem single_ext_laws (data : List Nat) (u n len : Nat) (hlen : data.length = n * len) (hu : u < n)
    (src : List Nat) (hs : src.length = len) :
    ∃ data', writeExts data [u * len] len src = some data' ∧ data'.length = data.length ∧
      readExts data' [u * len] len = .ok src ∧
      ∀ u', u' ≠ u → readExts data' [u' * len] len = readExts data [u' * len] len := by
  have hb : ∀ o ∈ [u * len], o + len ≤ data.length := by
    intro o ho; simp at ho; subst ho; rw [hlen]; exact ext_in u n len hu
  obtain ⟨data', hw, hl, hr, hf⟩ := ext_laws data [u * len] len src hb (by simp [hs]) (by simp)
  refine ⟨data', hw, hl, hr, ?_⟩
  intro u' hu'
  apply hf
  intro o ho o' ho'
  simp at ho ho'; subst ho; subst ho'
  exact ext_disj u u' len (Ne.symm hu')

theorem single_ext_read (data : List Nat) (u n len : Nat) (hlen : data.length = n * len) (hu : u < n) :
    ∃ x, readExts data [u * len] len = .ok x ∧ x.length = len := by
  obtain ⟨x, hx, hl⟩ := readExts_ok data [u * len] len (by
    intro o ho; simp at ho; subst ho; rw [hlen]; exact ext_in u n len hu)
  exact ⟨x, hx, by simpa using hl⟩

/-! ## DO, `Block::DO([t,s])` -/

namespace DOImg

def wf (i : DOImg) : Prop := i.data.length = i.tracks * i.sectors * 256
abbrev validTS (i : DOImg) (a : Nat × Nat) : Prop := a.1 < i.tracks ∧ a.2 < i.sectors

theorem off_eq (i : DOImg) (t s : Nat) : i.off t s = (t * i.sectors + s) * 256 := by
  simp [off, Nat.add_mul]

theorem dos_laws (g : Bool) : StoreLaws wf validTS (fun _ _ => 256)
    (fun i a => i.readBlock g (.dos a.1 a.2)) (fun i a d => i.writeBlock g (.dos a.1 a.2) d) where
  write_read := by
    intro i ⟨t, s⟩ d hwf ⟨ht, hs⟩
    simp only at ht hs
    obtain ⟨data', hw, hl, hr, hf⟩ := single_ext_laws i.data (t * i.sectors + s) (i.tracks * i.sectors) 256
      hwf (idx_lt t s _ _ ht hs) (quantize d 256) (length_quantize _ _)
    refine ⟨{ i with data := data' }, ?_, ?_, ?_, ?_, ?_⟩
    · simp [writeBlock, blockTs, tsOk, ht, hs, blockLen, off_eq, hw]
    · simp only [wf]; rw [hl]; exact hwf
    · intro b; rfl
    · simp [readBlock, blockTs, tsOk, ht, hs, off_eq, hr]
    · intro ⟨t', s'⟩ ⟨ht', hs'⟩ hne
      simp only at ht' hs'
      have : t' * i.sectors + s' ≠ t * i.sectors + s := by
        intro h
        obtain ⟨h1, h2⟩ := idx_inj t' s' t s i.sectors hs' hs h
        exact hne (by rw [h1, h2])
      simp [readBlock, blockTs, tsOk, ht', hs', off_eq, hf _ this]
  read_total := by
    intro i ⟨t, s⟩ hwf ⟨ht, hs⟩
    simp only at ht hs
    obtain ⟨x, hx, hl⟩ := single_ext_read i.data (t * i.sectors + s) (i.tracks * i.sectors) 256 hwf (idx_lt t s _ _ ht hs)
    exact ⟨x, by simp [readBlock, blockTs, tsOk, ht, hs, off_eq, hx], hl⟩

/-- with the bounds check present, every other `[t,s]` is refused -/
theorem dos_refuses : Refuses wf validTS
    (fun i a => i.readBlock true (.dos a.1 a.2)) (fun i a d => i.writeBlock true (.dos a.1 a.2) d) where
  refused := by
    intro i ⟨t, s⟩ d _ hv
    have : (decide (t < i.tracks) && decide (s < i.sectors)) = false := by
      simp only [validTS] at hv
      by_cases h1 : t < i.tracks <;> by_cases h2 : s < i.sectors <;> simp [h1, h2] at hv ⊢
    simp [readBlock, writeBlock, blockTs, tsOk, this]

end DOImg


/-! ## skew tables of the current source -/

def p2l (s : Nat) : Nat := Skew.DOS_PSEC_TO_DOS_LSEC.getD s 0

theorem p2l_facts : ∀ s : Fin 16, Skew.DOS_PSEC_TO_DOS_LSEC[s.val]? = some (p2l s.val) ∧ p2l s.val < 16 := by
  decide +kernel
theorem p2l_inj : ∀ s s' : Fin 16, p2l s.val = p2l s'.val → s = s' := by decide +kernel
theorem p2l_len : Skew.DOS_PSEC_TO_DOS_LSEC.length = 16 := by decide +kernel

def s1 (k : Nat) : Nat := Skew.sector1.getD k 0
def s2 (k : Nat) : Nat := Skew.sector2.getD k 0

/-- `sector1`/`sector2` of `ts_from_prodos_block` together enumerate the 16 sectors of a track once -/
theorem prodos_tables : ∀ k k' : Fin 8, s1 k.val < 16 ∧ s2 k.val < 16 ∧ s1 k.val ≠ s2 k'.val ∧
    (s1 k.val = s1 k'.val → k = k') ∧ (s2 k.val = s2 k'.val → k = k') := by decide +kernel

/-! ## DO, physical sectors and ProDOS blocks (16 sector images) -/

namespace DOImg

def wf16 (i : DOImg) : Prop := i.sectors = 16 ∧ i.data.length = i.tracks * 16 * 256
abbrev validCHS (i : DOImg) (a : Nat × Nat × Nat) : Prop := a.1 < i.tracks ∧ a.2.1 = 0 ∧ a.2.2 < 16

theorem readSector_eq (i : DOImg) (c h s : Nat) (h16 : i.sectors = 16) (hc : c < i.tracks) (hh : h = 0)
    (hs : s < 16) : i.readSector c h s = readExts i.data [(c * 16 + p2l s) * 256] 256 := by
  have hnr : i.secRefused c h s = false := by simp [secRefused, h16, hh]; omega
  simp [readSector, hnr, (p2l_facts ⟨s, hs⟩).1, secOff, h16]

theorem writeSector_eq (i : DOImg) (c h s : Nat) (d x : List Nat) (h16 : i.sectors = 16) (hc : c < i.tracks)
    (hh : h = 0) (hs : s < 16) (hw : writeExts i.data [(c * 16 + p2l s) * 256] 256 (quantize d 256) = some x) :
    i.writeSector c h s d = .ok { i with data := x } := by
  have hnr : i.secRefused c h s = false := by simp [secRefused, h16, hh]; omega
  have h := (p2l_facts ⟨s, hs⟩).1
  simp only at h
  have hw' : writeExts i.data [i.secOff c (p2l s)] 256 (quantize d 256) = some x := by
    simpa [secOff, h16] using hw
  simp only [writeSector, hnr, Bool.false_eq_true, if_false, h, hw']

theorem sector_laws : StoreLaws wf16 validCHS (fun _ _ => 256)
    (fun i a => i.readSector a.1 a.2.1 a.2.2) (fun i a d => i.writeSector a.1 a.2.1 a.2.2 d) where
  write_read := by
    intro i ⟨c, h, s⟩ d ⟨h16, hwf⟩ ⟨hc, hh, hs⟩
    simp only at hc hh hs
    have hlt := (p2l_facts ⟨s, hs⟩).2
    simp only at hlt
    obtain ⟨data', hw, hl, hr, hf⟩ := single_ext_laws i.data (c * 16 + p2l s) (i.tracks * 16) 256
      hwf (idx_lt c _ _ _ hc hlt) (quantize d 256) (length_quantize _ _)
    refine ⟨{ i with data := data' }, ?_, ?_, ?_, ?_, ?_⟩
    · exact writeSector_eq i c h s d data' h16 hc hh hs hw
    · exact ⟨h16, by rw [hl]; exact hwf⟩
    · intro b; rfl
    · have := readSector_eq { i with data := data' } c h s h16 hc hh hs
      exact this.trans hr
    · intro ⟨c', h', s'⟩ ⟨hc', hh', hs'⟩ hne
      simp only at hc' hh' hs'
      have hlt' := (p2l_facts ⟨s', hs'⟩).2
      simp only at hlt'
      have : c' * 16 + p2l s' ≠ c * 16 + p2l s := by
        intro he
        obtain ⟨e1, e2⟩ := idx_inj c' (p2l s') c (p2l s) 16 hlt' hlt he
        have := p2l_inj ⟨s', hs'⟩ ⟨s, hs⟩ e2
        simp at this
        exact hne (by rw [e1, hh', hh, this])
      have e1 := readSector_eq { i with data := data' } c' h' s' h16 hc' hh' hs'
      have e2 := readSector_eq i c' h' s' h16 hc' hh' hs'
      exact e1.trans ((hf _ this).trans e2.symm)
  read_total := by
    intro i ⟨c, h, s⟩ ⟨h16, hwf⟩ ⟨hc, hh, hs⟩
    simp only at hc hh hs
    have hlt := (p2l_facts ⟨s, hs⟩).2
    simp only at hlt
    obtain ⟨x, hx, hl⟩ := single_ext_read i.data (c * 16 + p2l s) (i.tracks * 16) 256 hwf (idx_lt c _ _ _ hc hlt)
    exact ⟨x, by show i.readSector c h s = _; rw [readSector_eq i c h s h16 hc hh hs]; exact hx, hl⟩

/-- the sector interface checks exactly validity -/
theorem sector_refuses : Refuses wf16 validCHS
    (fun i a => i.readSector a.1 a.2.1 a.2.2) (fun i a d => i.writeSector a.1 a.2.1 a.2.2 d) where
  refused := by
    intro i ⟨c, h, s⟩ d ⟨h16, _⟩ hv
    have : i.secRefused c h s = true := by
      simp only [validCHS] at hv
      simp only [secRefused, h16, Bool.or_eq_true, decide_eq_true_eq]
      omega
    simp [readSector, writeSector, this]

/-- ProDOS blocks on a DOS ordered image of a 16 sector disk -/
def wfPO (i : DOImg) : Prop := i.dos33 = true ∧ i.sectors = 16 ∧ i.data.length = i.tracks * 16 * 256
abbrev validPO (i : DOImg) (b : Nat) : Prop := b < i.tracks * 8

theorem po_offs (i : DOImg) (h16 : i.sectors = 16) (b : Nat) :
    (tsFromProdos b).map (fun p => i.off p.1 p.2) = [(b / 8 * 16 + s1 (b % 8)) * 256, (b / 8 * 16 + s2 (b % 8)) * 256] := by
  simp [tsFromProdos, off_eq, h16, s1, s2]

theorem po_u_ne (b b' : Nat) (hne : b ≠ b') (f f' : Nat → Nat)
    (hf : f = s1 ∨ f = s2) (hf' : f' = s1 ∨ f' = s2) :
    b / 8 * 16 + f (b % 8) ≠ b' / 8 * 16 + f' (b' % 8) := by
  have hk : b % 8 < 8 := Nat.mod_lt _ (by decide)
  have hk' : b' % 8 < 8 := Nat.mod_lt _ (by decide)
  have T := prodos_tables ⟨b % 8, hk⟩ ⟨b' % 8, hk'⟩
  have T' := prodos_tables ⟨b' % 8, hk'⟩ ⟨b % 8, hk⟩
  simp only at T T'
  intro he
  have hlt : f (b % 8) < 16 := by rcases hf with h | h <;> subst h <;> first | exact T.1 | exact T.2.1
  have hlt' : f' (b' % 8) < 16 := by rcases hf' with h | h <;> subst h <;> first | exact T'.1 | exact T'.2.1
  obtain ⟨e1, e2⟩ := idx_inj _ _ _ _ 16 hlt hlt' he
  have hmod : b % 8 ≠ b' % 8 := by omega
  rcases hf with h | h <;> rcases hf' with h' | h' <;> subst h <;> subst h'
  · have := T.2.2.2.1 e2; simp at this; exact hmod this
  · exact T.2.2.1 e2
  · exact T'.2.2.1 e2.symm
  · have := T.2.2.2.2 e2; simp at this; exact hmod this

theorem po_tsOk (i : DOImg) (b : Nat) (h16 : i.sectors = 16) (hb : b < i.tracks * 8) :
    i.tsOk (tsFromProdos b) = true := by
  have hk8 : b % 8 < 8 := Nat.mod_lt _ (by decide)
  have T := prodos_tables ⟨b % 8, hk8⟩ ⟨b % 8, hk8⟩
  simp only [s1, s2] at T
  simp only [tsOk, tsFromProdos, List.all_cons, List.all_nil, Bool.and_true, Bool.and_eq_true, decide_eq_true_eq, h16]
  exact ⟨⟨by omega, T.1⟩, ⟨by omega, T.2.1⟩⟩

theorem readBlock_po_eq (g : Bool) (i : DOImg) (b : Nat) (hk : i.dos33 = true) (h16 : i.sectors = 16)
    (hb : b < i.tracks * 8) : i.readBlock g (.po b) =
      readExts i.data [(b / 8 * 16 + s1 (b % 8)) * 256, (b / 8 * 16 + s2 (b % 8)) * 256] 256 := by
  have hbt : i.blockTs (.po b) = some (tsFromProdos b) := by simp [blockTs, hk]
  simp only [readBlock, hbt, po_tsOk i b h16 hb, Bool.not_true, Bool.and_false, Bool.false_eq_true,
    if_false, po_offs i h16]

theorem writeBlock_po_eq (g : Bool) (i : DOImg) (b : Nat) (d x : List Nat) (hk : i.dos33 = true) (h16 : i.sectors = 16)
    (hb : b < i.tracks * 8)
    (hw : writeExts i.data [(b / 8 * 16 + s1 (b % 8)) * 256, (b / 8 * 16 + s2 (b % 8)) * 256] 256 (quantize d 512) = some x) :
    i.writeBlock g (.po b) d = .ok { i with data := x } := by
  have hbt : i.blockTs (.po b) = some (tsFromProdos b) := by simp [blockTs, hk]
  simp only [writeBlock, hbt, po_tsOk i b h16 hb, Bool.not_true, Bool.and_false, Bool.false_eq_true,
    if_false, po_offs i h16, blockLen, hw]

theorem po_in (i : DOImg) (b : Nat) (hwf : i.data.length = i.tracks * 16 * 256) (hb : b < i.tracks * 8) :
    ∀ o ∈ [(b / 8 * 16 + s1 (b % 8)) * 256, (b / 8 * 16 + s2 (b % 8)) * 256], o + 256 ≤ i.data.length := by
  have hk8 : b % 8 < 8 := Nat.mod_lt _ (by decide)
  have T := prodos_tables ⟨b % 8, hk8⟩ ⟨b % 8, hk8⟩
  simp only at T
  intro o ho
  simp at ho
  rw [hwf]
  rcases ho with h | h <;> subst h
  · exact ext_in _ _ 256 (idx_lt _ _ _ _ (by omega) T.1)
  · exact ext_in _ _ 256 (idx_lt _ _ _ _ (by omega) T.2.1)

theorem po_laws (g : Bool) : StoreLaws wfPO validPO (fun _ _ => 512)
    (fun i b => i.readBlock g (.po b)) (fun i b d => i.writeBlock g (.po b) d) where
  write_read := by
    intro i b d ⟨hk, h16, hwf⟩ hb
    simp only [validPO] at hb
    have hk8 : b % 8 < 8 := Nat.mod_lt _ (by decide)
    have T := prodos_tables ⟨b % 8, hk8⟩ ⟨b % 8, hk8⟩
    simp only at T
    have hpw : [(b / 8 * 16 + s1 (b % 8)) * 256, (b / 8 * 16 + s2 (b % 8)) * 256].Pairwise
        (fun a c => a + 256 ≤ c ∨ c + 256 ≤ a) := by
      simp only [List.pairwise_cons, List.mem_cons, List.not_mem_nil, or_false, forall_eq,
        false_imp_iff, implies_true, List.Pairwise.nil, and_true]
      apply ext_disj
      intro he
      have := (idx_inj _ _ _ _ 16 T.1 T.2.1 he).2
      exact T.2.2.1 this
    obtain ⟨data', hw, hl, hr, hf⟩ := ext_laws i.data _ 256 (quantize d 512) (po_in i b hwf hb)
      (by simp [length_quantize]) hpw
    refine ⟨{ i with data := data' }, ?_, ?_, ?_, ?_, ?_⟩
    · exact writeBlock_po_eq g i b d data' hk h16 hb hw
    · exact ⟨hk, h16, by rw [hl]; exact hwf⟩
    · intro b'; rfl
    · exact (readBlock_po_eq g { i with data := data' } b hk h16 hb).trans hr
    · intro b' hb' hne
      simp only [validPO] at hb'
      refine (readBlock_po_eq g { i with data := data' } b' hk h16 hb').trans
        (Eq.trans ?_ (readBlock_po_eq g i b' hk h16 hb').symm)
      apply hf
      intro o ho o' ho'
      simp at ho ho'
      rcases ho with h | h <;> rcases ho' with h' | h' <;> subst h <;> subst h' <;> apply ext_disj
      · exact po_u_ne b b' (Ne.symm hne) s1 s1 (Or.inl rfl) (Or.inl rfl)
      · exact po_u_ne b b' (Ne.symm hne) s1 s2 (Or.inl rfl) (Or.inr rfl)
      · exact po_u_ne b b' (Ne.symm hne) s2 s1 (Or.inr rfl) (Or.inl rfl)
      · exact po_u_ne b b' (Ne.symm hne) s2 s2 (Or.inr rfl) (Or.inr rfl)
  read_total := by
    intro i b ⟨hk, h16, hwf⟩ hb
    simp only [validPO] at hb
    obtain ⟨x, hx, hl⟩ := readExts_ok i.data _ 256 (po_in i b hwf hb)
    refine ⟨x, ?_, by simpa using hl⟩
    show i.readBlock g (.po b) = _
    rw [readBlock_po_eq g i b hk h16 hb]; exact hx

theorem po_refuses : Refuses wfPO validPO
    (fun i b => i.readBlock true (.po b)) (fun i b d => i.writeBlock true (.po b) d) where
  refused := by
    intro i b d ⟨hk, h16, _⟩ hv
    simp only [validPO] at hv
    have : i.tsOk (tsFromProdos b) = false := by
      simp only [tsOk, tsFromProdos, List.all_cons, List.all_nil, Bool.and_true, h16]
      have : decide (b / 8 < i.tracks) = false := by simp; omega
      simp [this]
    simp [readBlock, writeBlock, blockTs, hk, this]

end DOImg

/-! ## PO -/

namespace POImg

def wf (i : POImg) : Prop := i.data.length = i.blocks * 512
abbrev valid (i : POImg) (b : Nat) : Prop := b < i.blocks

theorem po_laws (g : Bool) : StoreLaws wf valid (fun _ _ => 512)
    (fun i b => i.readBlock g (.po b)) (fun i b d => i.writeBlock g (.po b) d) where
  write_read := by
    intro i b d hwf hb
    simp only [valid] at hb
    obtain ⟨data', hw, hl, hr, hf⟩ := single_ext_laws i.data b i.blocks 512 hwf hb (quantize d 512) (length_quantize _ _)
    have hg : (g && decide (b ≥ i.blocks)) = false := by simp; intro _; omega
    refine ⟨{ i with data := data' }, ?_, ?_, ?_, ?_, ?_⟩
    · simp only [writeBlock, hg, Bool.false_eq_true, if_false, hw]
    · simp only [wf]; rw [hl]; exact hwf
    · intro b'; rfl
    · have hg' : (g && decide (b ≥ POImg.blocks { i with data := data' })) = false := hg
      simp only [readBlock, hg', Bool.false_eq_true, if_false, hr]
    · intro b' hb' hne
      simp only [valid] at hb'
      have hg1 : (g && decide (b' ≥ i.blocks)) = false := by simp; intro _; omega
      have hg2 : (g && decide (b' ≥ POImg.blocks { i with data := data' })) = false := hg1
      simp only [readBlock, hg1, hg2, Bool.false_eq_true, if_false, hf b' hne]
  read_total := by
    intro i b hwf hb
    simp only [valid] at hb
    have hg : (g && decide (b ≥ i.blocks)) = false := by simp; intro _; omega
    obtain ⟨x, hx, hl⟩ := single_ext_read i.data b i.blocks 512 hwf hb
    exact ⟨x, by simp only [readBlock, hg, Bool.false_eq_true, if_false, hx], hl⟩

theorem po_refuses : Refuses wf valid
    (fun i b => i.readBlock true (.po b)) (fun i b d => i.writeBlock true (.po b) d) where
  refused := by
    intro i b d _ hv
    simp only [valid] at hv
    have : decide (b ≥ i.blocks) = true := by simp; omega
    simp [readBlock, writeBlock, this]

end POImg

/-! ## D13 -/

namespace D13Img

def wf (i : D13Img) : Prop := i.data.length = i.tracks * 13 * 256
abbrev validTS (i : D13Img) (a : Nat × Nat) : Prop := a.1 < i.tracks ∧ a.2 < 13
abbrev validCHS (i : D13Img) (a : Nat × Nat × Nat) : Prop := a.1 < i.tracks ∧ a.2.1 = 0 ∧ a.2.2 < 13

theorem off_eq (t s : Nat) : off t s = (t * 13 + s) * 256 := by
  simp [off, Nat.add_mul, Nat.mul_assoc]

theorem block_laws (g : Bool) : StoreLaws wf validTS (fun _ _ => 256)
    (fun i a => i.readBlock g (.d13 a.1 a.2)) (fun i a d => i.writeBlock g (.d13 a.1 a.2) d) where
  write_read := by
    intro i ⟨t, s⟩ d hwf ⟨ht, hs⟩
    simp only at ht hs
    obtain ⟨data', hw, hl, hr, hf⟩ := single_ext_laws i.data (t * 13 + s) (i.tracks * 13) 256
      hwf (idx_lt t s _ _ ht hs) (quantize d 256) (length_quantize _ _)
    refine ⟨{ i with data := data' }, ?_, ?_, ?_, ?_, ?_⟩
    · simp [writeBlock, ht, hs, off_eq, hw]
    · simp only [wf]; rw [hl]; exact hwf
    · intro b; rfl
    · simp [readBlock, ht, hs, off_eq, hr]
    · intro ⟨t', s'⟩ ⟨ht', hs'⟩ hne
      simp only at ht' hs'
      have : t' * 13 + s' ≠ t * 13 + s := by
        intro h
        obtain ⟨h1, h2⟩ := idx_inj t' s' t s 13 hs' hs h
        exact hne (by rw [h1, h2])
      simp [readBlock, ht', hs', off_eq, hf _ this]
  read_total := by
    intro i ⟨t, s⟩ hwf ⟨ht, hs⟩
    simp only at ht hs
    obtain ⟨x, hx, hl⟩ := single_ext_read i.data (t * 13 + s) (i.tracks * 13) 256 hwf (idx_lt t s _ _ ht hs)
    exact ⟨x, by simp [readBlock, ht, hs, off_eq, hx], hl⟩

theorem block_refuses : Refuses wf validTS
    (fun i a => i.readBlock true (.d13 a.1 a.2)) (fun i a d => i.writeBlock true (.d13 a.1 a.2) d) where
  refused := by
    intro i ⟨t, s⟩ d _ hv
    have : (decide (t < i.tracks) && decide (s < 13)) = false := by
      simp only [validTS] at hv
      by_cases h1 : t < i.tracks <;> by_cases h2 : s < 13 <;> simp [h1, h2] at hv ⊢
    simp [readBlock, writeBlock, this]

theorem sector_laws : StoreLaws wf validCHS (fun _ _ => 256)
    (fun i a => i.readSector a.1 a.2.1 a.2.2) (fun i a d => i.writeSector a.1 a.2.1 a.2.2 d) where
  write_read := by
    intro i ⟨c, h, s⟩ d hwf ⟨hc, hh, hs⟩
    simp only at hc hh hs
    obtain ⟨data', hw, hl, hr, hf⟩ := single_ext_laws i.data (c * 13 + s) (i.tracks * 13) 256
      hwf (idx_lt c s _ _ hc hs) (quantize d 256) (length_quantize _ _)
    have hnr : i.secRefused c h s = false := by simp [secRefused, hh]; omega
    refine ⟨{ i with data := data' }, ?_, ?_, ?_, ?_, ?_⟩
    · simp [writeSector, hnr, off_eq, hw]
    · simp only [wf]; rw [hl]; exact hwf
    · intro b; rfl
    · have hnr' : secRefused { i with data := data' } c h s = false := hnr
      simp [readSector, hnr', off_eq, hr]
    · intro ⟨c', h', s'⟩ ⟨hc', hh', hs'⟩ hne
      simp only at hc' hh' hs'
      have hnr1 : i.secRefused c' h' s' = false := by simp [secRefused, hh']; omega
      have hnr2 : secRefused { i with data := data' } c' h' s' = false := hnr1
      have : c' * 13 + s' ≠ c * 13 + s := by
        intro he
        obtain ⟨e1, e2⟩ := idx_inj c' s' c s 13 hs' hs he
        exact hne (by rw [e1, hh', hh, e2])
      simp [readSector, hnr1, hnr2, off_eq, hf _ this]
  read_total := by
    intro i ⟨c, h, s⟩ hwf ⟨hc, hh, hs⟩
    simp only at hc hh hs
    have hnr : i.secRefused c h s = false := by simp [secRefused, hh]; omega
    obtain ⟨x, hx, hl⟩ := single_ext_read i.data (c * 13 + s) (i.tracks * 13) 256 hwf (idx_lt c s _ _ hc hs)
    exact ⟨x, by simp [readSector, hnr, off_eq, hx], hl⟩

theorem sector_refuses : Refuses wf validCHS
    (fun i a => i.readSector a.1 a.2.1 a.2.2) (fun i a d => i.writeSector a.1 a.2.1 a.2.2 d) where
  refused := by
    intro i ⟨c, h, s⟩ d _ hv
    have : i.secRefused c h s = true := by
      simp only [validCHS] at hv
      simp only [secRefused, Bool.or_eq_true, decide_eq_true_eq]
      omega
    simp [readSector, writeSector, this]

end D13Img


/-! ## IMG, physical sectors -/

namespace IbmImg

def wf (i : IbmImg) : Prop := i.data.length = i.cylinders * i.heads * i.sectors * i.secSize
abbrev validCHS (i : IbmImg) (a : Nat × Nat × Nat) : Prop :=
  a.1 < i.cylinders ∧ a.2.1 < i.heads ∧ 1 ≤ a.2.2 ∧ a.2.2 ≤ i.sectors

/-- unit index of a valid sector -/
def uidx (i : IbmImg) (c h s : Nat) : Nat := (c * i.heads + h) * i.sectors + (s - 1)

theorem uidx_lt (i : IbmImg) (c h s : Nat) (hv : i.validCHS (c, h, s)) :
    i.uidx c h s < i.cylinders * i.heads * i.sectors := by
  obtain ⟨hc, hh, h1, h2⟩ := hv
  simp only at hc hh h1 h2
  exact idx_lt _ _ _ _ (idx_lt c h _ _ hc hh) (by omega)

theorem uidx_inj (i : IbmImg) (c h s c' h' s' : Nat) (hv : i.validCHS (c, h, s)) (hv' : i.validCHS (c', h', s'))
    (he : i.uidx c h s = i.uidx c' h' s') : (c, h, s) = (c', h', s') := by
  obtain ⟨_, hh, h1, h2⟩ := hv
  obtain ⟨_, hh', h1', h2'⟩ := hv'
  simp only at hh h1 h2 hh' h1' h2'
  obtain ⟨e1, e2⟩ := idx_inj _ _ _ _ i.sectors (by omega) (by omega) he
  obtain ⟨e3, e4⟩ := idx_inj _ _ _ _ i.heads hh hh' e1
  have : s = s' := by omega
  rw [e3, e4, this]

theorem not_refused (g : Bool) (i : IbmImg) (c h s : Nat) (hv : i.validCHS (c, h, s)) :
    i.secRefused g c h s = false := by
  obtain ⟨hc, hh, h1, h2⟩ := hv
  simp only at hc hh h1 h2
  have := idx_lt c h _ _ hc hh
  simp only [secRefused, Bool.or_eq_false_iff, Bool.and_eq_false_iff, decide_eq_false_iff_not]
  refine ⟨⟨⟨?_, ?_⟩, ?_⟩, ?_⟩ <;> omega

theorem secOff_eq (i : IbmImg) (c h s : Nat) (h1 : 1 ≤ s) : i.secOff c h s = i.uidx c h s * i.secSize := by
  simp only [secOff, uidx]; rw [Nat.add_sub_assoc h1]

theorem readSector_eq (g : Bool) (i : IbmImg) (c h s : Nat) (hv : i.validCHS (c, h, s)) :
    i.readSector g c h s = readExts i.data [i.uidx c h s * i.secSize] i.secSize := by
  simp only [readSector, not_refused g i c h s hv, Bool.false_eq_true, if_false, secOff_eq i c h s hv.2.2.1]

theorem writeSector_eq (g : Bool) (i : IbmImg) (c h s : Nat) (d x : List Nat) (hv : i.validCHS (c, h, s))
    (hw : writeExts i.data [i.uidx c h s * i.secSize] i.secSize (quantize d i.secSize) = some x) :
    i.writeSector g c h s d = .ok { i with data := x } := by
  simp only [writeSector, not_refused g i c h s hv, Bool.false_eq_true, if_false, secOff_eq i c h s hv.2.2.1, hw]

theorem sector_laws (g : Bool) : StoreLaws wf validCHS (fun i _ => i.secSize)
    (fun i a => i.readSector g a.1 a.2.1 a.2.2) (fun i a d => i.writeSector g a.1 a.2.1 a.2.2 d) where
  write_read := by
    intro i ⟨c, h, s⟩ d hwf hv
    obtain ⟨data', hw, hl, hr, hf⟩ := single_ext_laws i.data (i.uidx c h s) (i.cylinders * i.heads * i.sectors) i.secSize
      hwf (uidx_lt i c h s hv) (quantize d i.secSize) (length_quantize _ _)
    refine ⟨{ i with data := data' }, writeSector_eq g i c h s d data' hv hw, ?_, ?_, ?_, ?_⟩
    · simp only [wf]; rw [hl]; exact hwf
    · intro b; rfl
    · exact (readSector_eq g { i with data := data' } c h s hv).trans hr
    · intro ⟨c', h', s'⟩ hv' hne
      have : i.uidx c' h' s' ≠ i.uidx c h s := fun he => hne (uidx_inj i c' h' s' c h s hv' hv he)
      exact (readSector_eq g { i with data := data' } c' h' s' hv').trans
        ((hf _ this).trans (readSector_eq g i c' h' s' hv').symm)
  read_total := by
    intro i ⟨c, h, s⟩ hwf hv
    obtain ⟨x, hx, hl⟩ := single_ext_read i.data (i.uidx c h s) (i.cylinders * i.heads * i.sectors) i.secSize hwf
      (uidx_lt i c h s hv)
    exact ⟨x, (readSector_eq g i c h s hv).trans hx, hl⟩

/-- with the head check present, everything else is refused -/
theorem sector_refuses : Refuses wf validCHS
    (fun i a => i.readSector true a.1 a.2.1 a.2.2) (fun i a d => i.writeSector true a.1 a.2.1 a.2.2 d) where
  refused := by
    intro i ⟨c, h, s⟩ d _ hv
    have : i.secRefused true c h s = true := by
      simp only [validCHS] at hv
      simp only [secRefused, Bool.true_and, Bool.or_eq_true, decide_eq_true_eq]
      by_cases hh : h ≥ i.heads
      · exact Or.inl (Or.inl (Or.inl hh))
      · by_cases hc : c < i.cylinders
        · omega
        · have : i.cylinders * i.heads ≤ c * i.heads := Nat.mul_le_mul_right _ (by omega)
          exact Or.inl (Or.inl (Or.inr (by omega)))
    simp [readSector, writeSector, this]

end IbmImg

/-! ## 2MG: the laws of the wrapped image carry over when the write-protect flag is clear -/

namespace MgImg

def wfDos (P : DOImg → Prop) (m : MgImg) : Prop := m.writeProtected = false ∧ ∃ i, m.raw = .dos i ∧ P i
def validDos {α : Type} (V : DOImg → α → Prop) (m : MgImg) (a : α) : Prop := ∃ i, m.raw = .dos i ∧ V i a
def unitDos {α : Type} (u : DOImg → α → Nat) (m : MgImg) (a : α) : Nat :=
  match m.raw with
  | .dos i => u i a
  | .po _ => 0

theorem lift_dos {α : Type} (P : DOImg → Prop) (V : DOImg → α → Prop) (u : DOImg → α → Nat)
    (rd : DOImg → α → RRes) (wr : DOImg → α → List Nat → WRes DOImg)
    (mrd : MgImg → α → RRes) (mwr : MgImg → α → List Nat → WRes MgImg)
    (hr : ∀ wp i a, mrd ⟨wp, .dos i⟩ a = rd i a)
    (hw : ∀ i a d, mwr ⟨false, .dos i⟩ a d = liftW ⟨false, .dos i⟩ MgRaw.dos (wr i a d))
    (L : StoreLaws P V u rd wr) : StoreLaws (wfDos P) (validDos V) (unitDos u) mrd mwr where
  write_read := by
    intro ⟨wp, raw⟩ a d ⟨hwp, i, hi, hP⟩ ⟨i2, hi2, hV⟩
    simp only at hwp hi hi2
    subst hwp; subst hi
    cases hi2
    obtain ⟨i', h1, h2, h3, h4, h5⟩ := L.write_read i a d hP hV
    refine ⟨⟨false, .dos i'⟩, ?_, ⟨rfl, i', rfl, h2⟩, ?_, ?_, ?_⟩
    · rw [hw, h1]; rfl
    · intro b
      constructor
      · rintro ⟨j, hj, hv⟩; cases hj; exact ⟨i, rfl, (h3 b).1 hv⟩
      · rintro ⟨j, hj, hv⟩; cases hj; exact ⟨i', rfl, (h3 b).2 hv⟩
    · rw [hr]; exact h4
    · rintro b ⟨j, hj, hv⟩ hne
      cases hj
      rw [hr, hr]; exact h5 b hv hne
  read_total := by
    intro ⟨wp, raw⟩ a ⟨_, i, hi, hP⟩ ⟨i2, hi2, hV⟩
    simp only at hi hi2
    subst hi
    cases hi2
    obtain ⟨x, hx, hl⟩ := L.read_total i a hP hV
    exact ⟨x, by rw [hr]; exact hx, hl⟩

def wfPo (P : POImg → Prop) (m : MgImg) : Prop := m.writeProtected = false ∧ ∃ i, m.raw = .po i ∧ P i
def validPo {α : Type} (V : POImg → α → Prop) (m : MgImg) (a : α) : Prop := ∃ i, m.raw = .po i ∧ V i a
def unitPo {α : Type} (u : POImg → α → Nat) (m : MgImg) (a : α) : Nat :=
  match m.raw with
  | .po i => u i a
  | .dos _ => 0

theorem lift_po {α : Type} (P : POImg → Prop) (V : POImg → α → Prop) (u : POImg → α → Nat)
    (rd : POImg → α → RRes) (wr : POImg → α → List Nat → WRes POImg)
    (mrd : MgImg → α → RRes) (mwr : MgImg → α → List Nat → WRes MgImg)
    (hr : ∀ wp i a, mrd ⟨wp, .po i⟩ a = rd i a)
    (hw : ∀ i a d, mwr ⟨false, .po i⟩ a d = liftW ⟨false, .po i⟩ MgRaw.po (wr i a d))
    (L : StoreLaws P V u rd wr) : StoreLaws (wfPo P) (validPo V) (unitPo u) mrd mwr where
  write_read := by
    intro ⟨wp, raw⟩ a d ⟨hwp, i, hi, hP⟩ ⟨i2, hi2, hV⟩
    simp only at hwp hi hi2
    subst hwp; subst hi
    cases hi2
    obtain ⟨i', h1, h2, h3, h4, h5⟩ := L.write_read i a d hP hV
    refine ⟨⟨false, .po i'⟩, ?_, ⟨rfl, i', rfl, h2⟩, ?_, ?_, ?_⟩
    · rw [hw, h1]; rfl
    · intro b
      constructor
      · rintro ⟨j, hj, hv⟩; cases hj; exact ⟨i, rfl, (h3 b).1 hv⟩
      · rintro ⟨j, hj, hv⟩; cases hj; exact ⟨i', rfl, (h3 b).2 hv⟩
    · rw [hr]; exact h4
    · rintro b ⟨j, hj, hv⟩ hne
      cases hj
      rw [hr, hr]; exact h5 b hv hne
  read_total := by
    intro ⟨wp, raw⟩ a ⟨_, i, hi, hP⟩ ⟨i2, hi2, hV⟩
    simp only at hi hi2
    subst hi
    cases hi2
    obtain ⟨x, hx, hl⟩ := L.read_total i a hP hV
    exact ⟨x, by rw [hr]; exact hx, hl⟩

/-- a write-protected 2MG refuses every write and is unchanged -/
theorem write_protected (m : MgImg) (h : m.writeProtected = true) (g : Bool) (a : Block) (c hd s : Nat) (d : List Nat) :
    m.writeBlock g a d = .err m ∧ m.writeSector c hd s d = .err m := by
  simp [writeBlock, writeSector, h]

end MgImg

/-! ## concrete witnesses: without the bounds checks, invalid addresses are not refused -/

def witDO : DOImg := { tracks := 2, sectors := 16, dos33 := true, data := List.replicate 8192 0 }
def witPO : POImg := { blocks := 2, data := List.replicate 1024 0 }
def witD13 : D13Img := { tracks := 2, data := List.replicate 6656 0 }
def witIMG : IbmImg := { secSize := 128, cylinders := 2, heads := 2, sectors := 2, data := List.replicate 1024 0 }

theorem witDO_wf : witDO.wf ∧ witDO.wf16 ∧ witDO.wfPO := by
  refine ⟨?_, ⟨rfl, ?_⟩, ⟨rfl, rfl, ?_⟩⟩ <;> exact List.length_replicate
theorem witPO_wf : witPO.wf := List.length_replicate
theorem witD13_wf : witD13.wf := List.length_replicate
theorem witIMG_wf : witIMG.wf := List.length_replicate

/-- DO, unchecked: `[0,16]` is accepted and is the storage of `[1,0]`; `[2,0]` panics -/
theorem witDO_facts :
    witDO.readBlock false (.dos 0 16) = .ok (List.replicate 256 0) ∧
    witDO.readBlock false (.dos 2 0) = .panic ∧
    (match witDO.writeBlock false (.dos 0 16) [0xAA] with
      | .ok i' => decide (i'.readBlock false (.dos 1 0) = .ok (quantize [0xAA] 256))
      | _ => false) = true ∧
    witDO.readBlock false (.po 16) = .panic := by decide +kernel

theorem witPO_facts : witPO.readBlock false (.po 2) = .panic := by decide +kernel

theorem witD13_facts :
    witD13.readBlock false (.d13 0 13) = .ok (List.replicate 256 0) ∧
    witD13.readBlock false (.d13 2 0) = .panic ∧
    (match witD13.writeBlock false (.d13 0 13) [0xAA] with
      | .ok i' => decide (i'.readBlock false (.d13 1 0) = .ok (quantize [0xAA] 256))
      | _ => false) = true := by decide +kernel

/-- IMG, no head check: `(cyl 0, head 2, sec 1)` is accepted and is the storage of `(1,0,1)` -/
theorem witIMG_facts :
    witIMG.readSector false 0 2 1 = .ok (List.replicate 128 0) ∧
    (match witIMG.writeSector false 0 2 1 [0xAA] with
      | .ok i' => decide (i'.readSector false 1 0 1 = .ok (quantize [0xAA] 128))
      | _ => false) = true := by decide +kernel

end A2Verif.Model.Flat
