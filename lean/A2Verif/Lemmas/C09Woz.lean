import A2Verif.Model.C09Woz
/-!
Lemmas for the WOZ chunk walk: on a byte string that consists of a 12-byte header followed by
well-formed chunks (`id`, 32-bit little-endian payload length, payload) the loop of
`Woz1::from_bytes` / `Woz2::from_bytes` finds every chunk, in order, at the offset it was written to.
-/
namespace A2Verif.Lemmas.C09Woz
open A2Verif.Model.C09Woz A2Verif.Model.C09Crc

/-- what the walk must report for chunks written from offset `p` on -/
def founds : Nat → List Chunk → List Found
  | _, [] => []
  | p, c :: cs =>
    { id := c.id, ptr := p, size := c.payload.length, known := knownId c.id } ::
      founds (p + 8 + c.payload.length) cs

def flat (cs : List Chunk) : List Nat := (cs.map chunkBytes).flatten

theorem unle32_le32 (n : Nat) (h : n < 4294967296) :
    unle32 (n % 256) (n / 256 % 256) (n / 65536 % 256) (n / 16777216 % 256) = n := by
  simp only [unle32]; omega

theorem rd32At_append (pre : List Nat) (a b c d : Nat) (rest : List Nat) :
    rd32At (pre ++ a :: b :: c :: d :: rest) pre.length = unle32 a b c d := by
  simp [rd32At, List.getD_eq_getElem?_getD]

theorem rd32At_append4 (pre : List Nat) (x0 x1 x2 x3 a b c d : Nat) (rest : List Nat) :
    rd32At (pre ++ x0 :: x1 :: x2 :: x3 :: a :: b :: c :: d :: rest) (pre.length + 4) = unle32 a b c d := by
  have := rd32At_append (pre ++ [x0, x1, x2, x3]) a b c d rest
  simpa using this

theorem chunkBytes_length (c : Chunk) : (chunkBytes c).length = 8 + c.payload.length := by
  simp [chunkBytes, le32]; omega

theorem flat_cons (c : Chunk) (cs : List Chunk) : flat (c :: cs) = chunkBytes c ++ flat cs := by
  simp [flat]

theorem flat_length_ge (cs : List Chunk) (h : cs ≠ []) : 8 ≤ (flat cs).length := by
  cases cs with
  | nil => exact absurd rfl h
  | cons c cs => rw [flat_cons, List.length_append, chunkBytes_length]; omega

/-- one step of the walk at a chunk boundary -/
theorem nextChunk_at (pre : List Nat) (c : Chunk) (tail : List Nat)
    (hid : c.id < 4294967296) (hsz : c.payload.length < 4294967296) :
    nextChunk pre.length (pre ++ chunkBytes c ++ tail) =
      (if pre.length + 8 + c.payload.length + 8 > (pre ++ chunkBytes c ++ tail).length then 0
        else pre.length + 8 + c.payload.length,
       some { id := c.id, ptr := pre.length, size := c.payload.length, known := knownId c.id }) := by
  have hlen : (pre ++ chunkBytes c ++ tail).length = pre.length + (8 + c.payload.length) + tail.length := by
    simp [chunkBytes_length]; omega
  have hshape : pre ++ chunkBytes c ++ tail =
      pre ++ (c.id % 256) :: (c.id / 256 % 256) :: (c.id / 65536 % 256) :: (c.id / 16777216 % 256) ::
        (c.payload.length % 256) :: (c.payload.length / 256 % 256) :: (c.payload.length / 65536 % 256) ::
        (c.payload.length / 16777216 % 256) :: (c.payload ++ tail) := by
    simp [chunkBytes, le32]
  have hidv : rd32At (pre ++ chunkBytes c ++ tail) pre.length = c.id := by
    rw [hshape, rd32At_append, unle32_le32 _ hid]
  have hszv : rd32At (pre ++ chunkBytes c ++ tail) (pre.length + 4) = c.payload.length := by
    rw [hshape, rd32At_append4, unle32_le32 _ hsz]
  unfold nextChunk
  have h1 : ¬ (pre.length + 8 > (pre ++ chunkBytes c ++ tail).length) := by omega
  rw [if_neg h1]
  simp only [hidv, hszv]
  have h2 : ¬ (pre.length + 8 + c.payload.length > (pre ++ chunkBytes c ++ tail).length) := by omega
  rw [if_neg h2]

theorem walkFrom_zero (fuel : Nat) (buf : List Nat) : walkFrom fuel 0 buf = [] := by
  cases fuel <;> simp [walkFrom]

/-- the walk over `pre ++ chunks` started at the end of `pre` -/
theorem walkFrom_chunks (cs : List Chunk) :
    ∀ (pre : List Nat) (fuel : Nat), 0 < pre.length → cs.length < fuel →
      (∀ c ∈ cs, c.id < 4294967296 ∧ c.payload.length < 4294967296) →
      walkFrom fuel pre.length (pre ++ flat cs) = founds pre.length cs := by
  induction cs with
  | nil =>
    intro pre fuel hp hf _
    cases fuel with
    | zero => omega
    | succ f =>
      have hne : ¬ pre.length = 0 := by omega
      simp only [walkFrom, if_neg hne, flat, List.map_nil, List.flatten_nil, List.append_nil, founds]
      have : nextChunk pre.length pre = (0, none) := by
        unfold nextChunk
        rw [if_pos (by omega)]
      rw [this]
      exact walkFrom_zero f pre
  | cons c cs ih =>
    intro pre fuel hp hf hall
    cases fuel with
    | zero => simp at hf
    | succ f =>
      have hc := hall c (by simp)
      have hrest : ∀ d ∈ cs, d.id < 4294967296 ∧ d.payload.length < 4294967296 :=
        fun d hd => hall d (by simp [hd])
      have hne : ¬ pre.length = 0 := by omega
      have hbuf : pre ++ flat (c :: cs) = pre ++ chunkBytes c ++ flat cs := by
        rw [flat_cons, List.append_assoc]
      simp only [walkFrom, if_neg hne, hbuf, nextChunk_at pre c (flat cs) hc.1 hc.2, founds]
      congr 1
      have hpl : (pre ++ chunkBytes c).length = pre.length + 8 + c.payload.length := by
        rw [List.length_append, chunkBytes_length]; omega
      by_cases hlast : pre.length + 8 + c.payload.length + 8 > (pre ++ chunkBytes c ++ flat cs).length
      · -- nothing (not even a chunk header) follows: the list of remaining chunks is empty
        rw [if_pos hlast, walkFrom_zero]
        have : cs = [] := by
          apply Classical.byContradiction
          intro hcs
          have := flat_length_ge cs hcs
          rw [List.length_append, hpl] at hlast
          omega
        subst this
        rfl
      · rw [if_neg hlast, ← hpl]
        have hf' : cs.length < f := by simp at hf; omega
        have := ih (pre ++ chunkBytes c) f (by rw [hpl]; omega) hf' hrest
        exact this

end A2Verif.Lemmas.C09Woz
