import A2Verif.Model.C09Woz
/-!
Lemmas for the WOZ chunk walk: on a byte string that consists of a 12-byte header followed by
well-formed chunks (`id`, 32-bit little-endian payload length, payload) the loop of
`Woz1::from_bytes` / `Woz2::from_bytes` finds every chunk, in order, at the offset it was written to.
-/
namespace A2Verif.Lemmas.C09Woz
open A2Verif.Model.C09Woz A2Verif.Model.C09Crc A2Verif.Gen.C09Const

/-- what the walk must report for chunks written from offset `p` on -/
def founds : Nat → List Chunk → List Found
  | _, [] => []
  | p, c :: cs =>
    { id := c.id, ptr := p, size := c.payload.length, known := knownId c.id } ::
      founds (p + 8 + c.payload.length) cs

def flat (cs : List Chunk) : List Nat := (cs.map chunkBytes).flatten

theorem unle32_le32 (n : Nat) (h : n < 4294967296) :
    unle32 (n % 256) (n / 256 % 256) (n / 65536 % 256) (n / 16777216 % 256) = n := by
  simp only [unle32]; omega

theorem rd32At_append (pre : List Nat) (a b c d : Nat) (rest : List Nat) :
    rd32At (pre ++ a :: b :: c :: d :: rest) pre.length = unle32 a b c d := by
  simp [rd32At, List.getD_eq_getElem?_getD]

theorem rd32At_append4 (pre : List Nat) (x0 x1 x2 x3 a b c d : Nat) (rest : List Nat) :
    rd32At (pre ++ x0 :: x1 :: x2 :: x3 :: a :: b :: c :: d :: rest) (pre.length + 4) = unle32 a b c d := by
  have := rd32At_append (pre ++ [x0, x1, x2, x3]) a b c d rest
  simpa using this

theorem chunkBytes_length (c : Chunk) : (chunkBytes c).length = 8 + c.payload.length := by
  simp [chunkBytes, le32]; omega

theorem flat_cons (c : Chunk) (cs : List Chunk) : flat (c :: cs) = chunkBytes c ++ flat cs := by
  simp [flat]

theorem flat_length_ge (cs : List Chunk) (h : cs ≠ []) : 8 ≤ (flat cs).length := by
  cases cs with
  | nil => exact absurd rfl h
  | cons c cs => rw [flat_cons, List.length_append, chunkBytes_length]; omega

/-- one step of the walk at a chunk boundary -/
theorem nextChunk_at (pre : List Nat) (c : Chunk) (tail : List Nat)
    (hid : c.id < 4294967296) (hsz : c.payload.length < 4294967296) :
    nextChunk pre.length (pre ++ chunkBytes c ++ tail) =
      (if pre.length + 8 + c.payload.length + 8 > (pre ++ chunkBytes c ++ tail).length then 0
        else pre.length + 8 + c.payload.length,
       some { id := c.id, ptr := pre.length, size := c.payload.length, known := knownId c.id }) := by
  have hlen : (pre ++ chunkBytes c ++ tail).length = pre.length + (8 + c.payload.length) + tail.length := by
    simp [chunkBytes_length]; omega
  have hshape : pre ++ chunkBytes c ++ tail =
      pre ++ (c.id % 256) :: (c.id / 256 % 256) :: (c.id / 65536 % 256) :: (c.id / 16777216 % 256) ::
        (c.payload.length % 256) :: (c.payload.length / 256 % 256) :: (c.payload.length / 65536 % 256) ::
        (c.payload.length / 16777216 % 256) :: (c.payload ++ tail) := by
    simp [chunkBytes, le32]
  have hidv : rd32At (pre ++ chunkBytes c ++ tail) pre.length = c.id := by
    rw [hshape, rd32At_append, unle32_le32 _ hid]
  have hszv : rd32At (pre ++ chunkBytes c ++ tail) (pre.length + 4) = c.payload.length := by
    rw [hshape, rd32At_append4, unle32_le32 _ hsz]
  unfold nextChunk
  have h1 : ¬ (pre.length + 8 > (pre ++ chunkBytes c ++ tail).length) := by omega
  rw [if_neg h1]
  simp only [hidv, hszv]
  have h2 : ¬ (pre.length + 8 + c.payload.length > (pre ++ chunkBytes c ++ tail).length) := by omega
  rw [if_neg h2]

theorem walkFrom_zero (fuel : Nat) (buf : List Nat) : walkFrom fuel 0 buf = [] := by
  cases fuel <;> simp [walkFrom]

/-- the walk over `pre ++ chunks` started at the end of `pre` -/
theorem walkFrom_chunks (cs : List Chunk) :
    ∀ (pre : List Nat) (fuel : Nat), 0 < pre.length → cs.length < fuel →
      (∀ c ∈ cs, c.id < 4294967296 ∧ c.payload.length < 4294967296) →
      walkFrom fuel pre.length (pre ++ flat cs) = founds pre.length cs := by
  induction cs with
  | nil =>
    intro pre fuel hp hf _
    cases fuel with
    | zero => omega
    | succ f =>
      have hne : ¬ pre.length = 0 := by omega
      simp only [walkFrom, if_neg hne, flat, List.map_nil, List.flatten_nil, List.append_nil, founds]
      have : nextChunk pre.length pre = (0, none) := by
        unfold nextChunk
        rw [if_pos (by omega)]
      rw [this]
      exact walkFrom_zero f pre
  | cons c cs ih =>
    intro pre fuel hp hf hall
    cases fuel with
    | zero => simp at hf
    | succ f =>
      have hc := hall c (by simp)
      have hrest : ∀ d ∈ cs, d.id < 4294967296 ∧ d.payload.length < 4294967296 :=
        fun d hd => hall d (by simp [hd])
      have hne : ¬ pre.length = 0 := by omega
      have hbuf : pre ++ flat (c :: cs) = pre ++ chunkBytes c ++ flat cs := by
        rw [flat_cons, List.append_assoc]
      simp only [walkFrom, if_neg hne, hbuf, nextChunk_at pre c (flat cs) hc.1 hc.2, founds]
      congr 1
      have hpl : (pre ++ chunkBytes c).length = pre.length + 8 + c.payload.length := by
        rw [List.length_append, chunkBytes_length]; omega
      by_cases hlast : pre.length + 8 + c.payload.length + 8 > (pre ++ chunkBytes c ++ flat cs).length
      · -- nothing (not even a chunk header) follows: the list of remaining chunks is empty
        rw [if_pos hlast, walkFrom_zero]
        have : cs = [] := by
          apply Classical.byContradiction
          intro hcs
          have := flat_length_ge cs hcs
          rw [List.length_append, hpl] at hlast
          omega
        subst this
        rfl
      · rw [if_neg hlast, ← hpl]
        have hf' : cs.length < f := by simp at hf; omega
        have := ih (pre ++ chunkBytes c) f (by rw [hpl]; omega) hf' hrest
        exact this

/-! ## payload slicing, field copies, re-basing (WOZ2 object level) -/

/-- the known chunks with the offsets they are written to -/
def withPtrs : Nat → List Chunk → List (Nat × Chunk)
  | _, [] => []
  | p, c :: cs => (if knownId c.id then [(p, c)] else []) ++ withPtrs (p + 8 + c.payload.length) cs

def slice (buf : List Nat) (f : Found) : Option (Nat × Chunk) :=
  if f.known then some (f.ptr, { id := f.id, payload := (buf.drop (f.ptr + 8)).take f.size }) else none

theorem readChunks_eq (buf : List Nat) : readChunks buf = (walk buf).filterMap (slice buf) := rfl

theorem founds_slice (cs : List Chunk) : ∀ (pre B : List Nat), B = pre ++ flat cs →
    (founds pre.length cs).filterMap (slice B) = withPtrs pre.length cs := by
  induction cs with
  | nil => intro pre B _; rfl
  | cons c cs ih =>
    intro pre B hB
    have hB' : B = (pre ++ chunkBytes c) ++ flat cs := by rw [hB, flat_cons, List.append_assoc]
    have hpl : (pre ++ chunkBytes c).length = pre.length + 8 + c.payload.length := by
      rw [List.length_append, chunkBytes_length]; omega
    have ih' := ih (pre ++ chunkBytes c) B hB'
    rw [hpl] at ih'
    have hpay : (B.drop (pre.length + 8)).take c.payload.length = c.payload := by
      have : B = (pre ++ (le32 c.id ++ le32 c.payload.length)) ++ (c.payload ++ flat cs) := by
        rw [hB, flat_cons]; simp [chunkBytes]
      rw [this]
      have hl : (pre ++ (le32 c.id ++ le32 c.payload.length)).length = pre.length + 8 := by simp [le32]
      rw [← hl, List.drop_left]; simp
    simp only [founds, List.filterMap_cons, slice, hpay, withPtrs, ih']
    cases knownId c.id <;> simp

theorem readChunks_chunks (hdr : List Nat) (hh : hdr.length = 12) (cs : List Chunk)
    (hall : ∀ c ∈ cs, c.id < 4294967296 ∧ c.payload.length < 4294967296) :
    readChunks (hdr ++ flat cs) = withPtrs 12 cs := by
  have hw : walk (hdr ++ flat cs) = founds 12 cs := by
    have h := walkFrom_chunks cs hdr ((hdr ++ flat cs).length + 1) (by omega)
      (by
        have : cs.length ≤ (flat cs).length := by
          clear hall
          induction cs with
          | nil => simp
          | cons c cs ih => rw [flat_cons, List.length_append, chunkBytes_length, List.length_cons]; omega
        rw [List.length_append]; omega) hall
    rw [hh] at h
    exact h
  rw [readChunks_eq, hw]
  have := founds_slice cs hdr (hdr ++ flat cs) rfl
  rw [hh] at this
  exact this

/-! TRK entries -/

def TrkWf (t : Trk) : Prop := t.start < 65536 ∧ t.count < 65536 ∧ t.bitCount.length = 4

instance (t : Trk) : Decidable (TrkWf t) := by unfold TrkWf; exact inferInstance

theorem trkBytes_length (t : Trk) (h : TrkWf t) : (trkBytes t).length = 8 := by
  simp [trkBytes, le16, h.2.2]

theorem trks_flat_length (ts : List Trk) (h : ∀ t ∈ ts, TrkWf t) : ((ts.map trkBytes).flatten).length = 8 * ts.length := by
  induction ts with
  | nil => rfl
  | cons t ts ih =>
    have := trkBytes_length t (h t (by simp))
    have := ih (fun u hu => h u (by simp [hu]))
    simp only [List.map_cons, List.flatten_cons, List.length_append, List.length_cons]; omega

theorem unle16_le16' (n : Nat) (h : n < 65536) : unle16 (n % 256) (n / 256 % 256) = n := by
  simp only [unle16]; omega

theorem parseTrks_flat (ts : List Trk) (h : ∀ t ∈ ts, TrkWf t) (rest : List Nat) :
    parseTrks ts.length ((ts.map trkBytes).flatten ++ rest) = ts := by
  induction ts with
  | nil => rfl
  | cons t ts ih =>
    obtain ⟨hs, hc, hb⟩ := h t (by simp)
    have ht := ih (fun u hu => h u (by simp [hu]))
    obtain ⟨st, ct, bc⟩ := t
    simp only at hs hc hb
    match bc, hb with
    | [b0, b1, b2, b3], _ =>
      simp only [List.map_cons, List.flatten_cons, List.length_cons, parseTrks, trkBytes, le16,
        List.cons_append, List.nil_append, List.getD_eq_getElem?_getD]
      simp [unle16_le16' st hs, unle16_le16' ct hc, ht]

/-! the dispatch over the creator's chunk list -/

def tailOf (mt wt : Option (List Nat)) : List Chunk :=
  (match mt with | some p => [⟨META_ID, p⟩] | none => []) ++ (match wt with | some wp => [⟨WRIT_ID, wp⟩] | none => [])

def creatorChunks (ip tp : List Nat) (ts : List Trk) (bits : List Nat) (mt wt : Option (List Nat)) : List Chunk :=
  [⟨INFO_ID, ip⟩, ⟨TMAP_ID, tp⟩, ⟨TRKS_ID, (ts.map trkBytes).flatten ++ bits⟩] ++ tailOf mt wt

theorem fold_creator (init : Woz2) (ip tp : List Nat) (ts : List Trk) (bits : List Nat) (mt wt : Option (List Nat))
    (hi : ip.length = 60) (ht : tp.length = 160) (hts : ts.length = 160) (htw : ∀ t ∈ ts, TrkWf t)
    (hb : bits.length % 512 = 0) (hsz : 1280 + bits.length < 4294967296)
    (hm0 : init.metaTxt = none) (hw0 : init.writ = none) :
    foldSteps init (withPtrs 12 (creatorChunks ip tp ts bits mt wt)) =
      some { init with info := chunkBytes ⟨INFO_ID, ip⟩, tmap := chunkBytes ⟨TMAP_ID, tp⟩,
                       trksSize := le32 (1280 + bits.length), trks := ts, bits := bits,
                       metaTxt := mt, writ := wt.map (fun wp => chunkBytes ⟨WRIT_ID, wp⟩), off := 1536 } := by
  have hfl := trks_flat_length ts htw
  have hplen : ((ts.map trkBytes).flatten ++ bits).length = 1280 + bits.length := by
    rw [List.length_append, hfl, hts]
  have hK : chunkBytes ⟨TRKS_ID, (ts.map trkBytes).flatten ++ bits⟩ =
      le32 TRKS_ID ++ le32 (1280 + bits.length) ++ ((ts.map trkBytes).flatten ++ bits) := by
    simp only [chunkBytes, hplen]
  have hKlen : (chunkBytes ⟨TRKS_ID, (ts.map trkBytes).flatten ++ bits⟩).length = 1288 + bits.length := by
    rw [chunkBytes_length, hplen]; omega
  have hsize : ((chunkBytes ⟨TRKS_ID, (ts.map trkBytes).flatten ++ bits⟩).drop 4).take 4 = le32 (1280 + bits.length) := by
    rw [hK]; simp [le32]
  have hd8 : (chunkBytes ⟨TRKS_ID, (ts.map trkBytes).flatten ++ bits⟩).drop 8 = (ts.map trkBytes).flatten ++ bits := by
    rw [hK]; simp [le32]
  have hparse : parseTrks 160 ((chunkBytes ⟨TRKS_ID, (ts.map trkBytes).flatten ++ bits⟩).drop 8) = ts := by
    rw [hd8, ← hts]; exact parseTrks_flat ts htw bits
  have hbits : (chunkBytes ⟨TRKS_ID, (ts.map trkBytes).flatten ++ bits⟩).drop 1288 = bits := by
    have : 1288 = (le32 TRKS_ID ++ le32 (1280 + bits.length) ++ (ts.map trkBytes).flatten).length := by
      simp [le32, hfl, hts]
    rw [hK, this, ← List.append_assoc, List.drop_left]
  have hI : (chunkBytes ⟨INFO_ID, ip⟩).length = 68 := by rw [chunkBytes_length]; simp [hi]
  have hT : (chunkBytes ⟨TMAP_ID, tp⟩).length = 168 := by rw [chunkBytes_length]; simp [ht]
  have hmod : (1280 + bits.length) % 4294967296 = 1280 + bits.length := Nat.mod_eq_of_lt hsz
  have k1 : knownId INFO_ID = true := by decide
  have k2 : knownId TMAP_ID = true := by decide
  have k3 : knownId TRKS_ID = true := by decide
  have k4 : knownId META_ID = true := by decide
  have k5 : knownId WRIT_ID = true := by decide
  have e21 : ¬ (TMAP_ID = INFO_ID) := by decide
  have e31 : ¬ (TRKS_ID = INFO_ID) := by decide
  have e32 : ¬ (TRKS_ID = TMAP_ID) := by decide
  have e41 : ¬ (META_ID = INFO_ID) := by decide
  have e42 : ¬ (META_ID = TMAP_ID) := by decide
  have e43 : ¬ (META_ID = TRKS_ID) := by decide
  have e51 : ¬ (WRIT_ID = INFO_ID) := by decide
  have e52 : ¬ (WRIT_ID = TMAP_ID) := by decide
  have e53 : ¬ (WRIT_ID = TRKS_ID) := by decide
  have e54 : ¬ (WRIT_ID = META_ID) := by decide
  have s1 : ∀ st : Woz2, step2 st (12, ⟨INFO_ID, ip⟩) = some { st with info := chunkBytes ⟨INFO_ID, ip⟩ } := by
    intro st
    simp only [step2, if_true, hI]
    have : (chunkBytes ⟨INFO_ID, ip⟩).take 68 = chunkBytes ⟨INFO_ID, ip⟩ := by rw [← hI, List.take_length]
    simp [this]
  have s2 : ∀ (st : Woz2) (p : Nat), step2 st (p, ⟨TMAP_ID, tp⟩) = some { st with tmap := chunkBytes ⟨TMAP_ID, tp⟩ } := by
    intro st p
    simp only [step2, if_neg e21, if_true, hT]
    have : (chunkBytes ⟨TMAP_ID, tp⟩).take 168 = chunkBytes ⟨TMAP_ID, tp⟩ := by rw [← hT, List.take_length]
    simp [this]
  have s3 : ∀ (st : Woz2) (p : Nat), step2 st (p, ⟨TRKS_ID, (ts.map trkBytes).flatten ++ bits⟩) =
      some { st with off := p + 1288, trksSize := le32 (1280 + bits.length), trks := ts, bits := bits } := by
    intro st p
    simp only [step2, if_neg e31, if_neg e32, if_true, hKlen, hplen, hmod, hsize, hparse, hbits]
    have a1 : ¬ (1288 + bits.length < 1288) := by omega
    have a2 : ¬ (1280 + bits.length < 1280) := by omega
    have a3 : ¬ ((1280 + bits.length - 1280) % 512 > 0) := by
      have : 1280 + bits.length - 1280 = bits.length := by omega
      rw [this, hb]; omega
    simp only [if_neg a1, if_neg a2, if_neg a3]
  have s4 : ∀ (st : Woz2) (p : Nat) (q : List Nat), step2 st (p, ⟨META_ID, q⟩) = some { st with metaTxt := some q } := by
    intro st p q
    simp only [step2, if_neg e41, if_neg e42, if_neg e43, if_true]
  have s5 : ∀ (st : Woz2) (p : Nat) (q : List Nat), step2 st (p, ⟨WRIT_ID, q⟩) = some { st with writ := some (chunkBytes ⟨WRIT_ID, q⟩) } := by
    intro st p q
    simp only [step2, if_neg e51, if_neg e52, if_neg e53, if_neg e54, if_true]
  cases mt <;> cases wt <;>
    simp [creatorChunks, tailOf, withPtrs, k1, k2, k3, k4, k5, foldSteps, s1, s2, s3, s4, s5, hi, ht, hplen, hm0, hw0]

/-- what `Woz2::create` establishes and sector writes / metadata edits keep -/
structure Woz2Wf (x : Woz2) : Prop where
  magic : x.magic.length = 8 ∧ x.magic.take 4 = [0x57, 0x4F, 0x5A, 0x32]
  info : ∃ ip, x.info = chunkBytes ⟨INFO_ID, ip⟩ ∧ ip.length = 60
  tmap : ∃ tp, x.tmap = chunkBytes ⟨TMAP_ID, tp⟩ ∧ tp.length = 160
  trksN : x.trks.length = 160
  trksW : ∀ t ∈ x.trks, TrkWf t
  bitsB : x.bits.length % 512 = 0
  bitsS : 1280 + x.bits.length < 4294967296
  size : x.trksSize = le32 (1280 + x.bits.length)
  metaS : ∀ p, x.metaTxt = some p → p.length < 4294967296
  writ : ∀ w, x.writ = some w → ∃ wp, w = chunkBytes ⟨WRIT_ID, wp⟩ ∧ wp.length < 4294967296
  flux : ¬ (x.info.getD 8 0 ≥ 3 ∧ (x.info.drop 54).take 2 ≠ [0, 0] ∧ (x.info.drop 56).take 2 ≠ [0, 0])
  kind : (x.info.getD 9 0 = 1 ∧ x.info.getD 45 0 = 1) ∨ (x.info.getD 9 0 = 2 ∧ x.info.getD 45 0 = 1) ∨
    (x.info.getD 9 0 = 2 ∧ x.info.getD 45 0 = 2)

theorem body2_flat (x : Woz2) (h : Woz2Wf x) :
    ∃ ip tp wt, ip.length = 60 ∧ tp.length = 160 ∧ x.info = chunkBytes ⟨INFO_ID, ip⟩ ∧ x.tmap = chunkBytes ⟨TMAP_ID, tp⟩ ∧
      x.writ = wt.map (fun wp => chunkBytes ⟨WRIT_ID, wp⟩) ∧
      body2 x = flat (creatorChunks ip tp x.trks x.bits x.metaTxt wt) ∧
      (∀ c ∈ creatorChunks ip tp x.trks x.bits x.metaTxt wt, c.id < 4294967296 ∧ c.payload.length < 4294967296) := by
  obtain ⟨ip, hi, hil⟩ := h.info
  obtain ⟨tp, ht, htl⟩ := h.tmap
  have hfl := trks_flat_length x.trks h.trksW
  have hplen : ((x.trks.map trkBytes).flatten ++ x.bits).length = 1280 + x.bits.length := by
    rw [List.length_append, hfl, h.trksN]
  have hK : trksChunk x = chunkBytes ⟨TRKS_ID, (x.trks.map trkBytes).flatten ++ x.bits⟩ := by
    simp only [trksChunk, chunkBytes, hplen, h.size, List.append_assoc]
  have i1 : INFO_ID < 4294967296 := by decide
  have i2 : TMAP_ID < 4294967296 := by decide
  have i3 : TRKS_ID < 4294967296 := by decide
  have i4 : META_ID < 4294967296 := by decide
  have i5 : WRIT_ID < 4294967296 := by decide
  have hs := h.bitsS
  cases hm : x.metaTxt with
  | none =>
    cases hw : x.writ with
    | none =>
      refine ⟨ip, tp, none, hil, htl, hi, ht, rfl, ?_, ?_⟩
      · simp [body2, metaChunk, hm, hw, creatorChunks, tailOf, flat, hi, ht, hK]
      · intro c hc
        simp only [creatorChunks, tailOf, List.append_nil, List.mem_cons, List.not_mem_nil, or_false] at hc
        rcases hc with rfl | rfl | rfl <;> simp_all <;> omega
    | some w =>
      obtain ⟨wp, hwp, hwl⟩ := h.writ w hw
      refine ⟨ip, tp, some wp, hil, htl, hi, ht, by simp [hwp], ?_, ?_⟩
      · simp [body2, metaChunk, hm, hw, creatorChunks, tailOf, flat, hi, ht, hK, hwp]
      · intro c hc
        simp only [creatorChunks, tailOf, List.nil_append, List.cons_append, List.mem_cons, List.not_mem_nil, or_false] at hc
        rcases hc with rfl | rfl | rfl | rfl <;> simp_all <;> omega
  | some p =>
    have hpl := h.metaS p hm
    have hpm : p.length % 4294967296 = p.length := Nat.mod_eq_of_lt hpl
    cases hw : x.writ with
    | none =>
      refine ⟨ip, tp, none, hil, htl, hi, ht, rfl, ?_, ?_⟩
      · simp [body2, metaChunk, hm, hw, creatorChunks, tailOf, flat, hi, ht, hK, chunkBytes, hpm]
      · intro c hc
        simp only [creatorChunks, tailOf, List.append_nil, List.cons_append, List.nil_append, List.mem_cons, List.not_mem_nil, or_false] at hc
        rcases hc with rfl | rfl | rfl | rfl <;> simp_all <;> omega
    | some w =>
      obtain ⟨wp, hwp, hwl⟩ := h.writ w hw
      refine ⟨ip, tp, some wp, hil, htl, hi, ht, by simp [hwp], ?_, ?_⟩
      · simp [body2, metaChunk, hm, hw, creatorChunks, tailOf, flat, hi, ht, hK, hwp, chunkBytes, hpm]
      · intro c hc
        simp only [creatorChunks, tailOf, List.cons_append, List.nil_append, List.mem_cons, List.not_mem_nil, or_false] at hc
        rcases hc with rfl | rfl | rfl | rfl | rfl <;> simp_all <;> omega

/-- **creator layout**: what `to_bytes` writes for an object with the standard offset is parsed back to the same object -/
theorem woz2_fromBytes_body (x : Woz2) (h : Woz2Wf x) (ho : x.off = 1536) (c : Nat) :
    fromBytes2 (x.magic ++ le32 c ++ body2 x) = some x := by
  obtain ⟨ip, tp, wt, hil, htl, hi, ht, hw, hbody, hall⟩ := body2_flat x h
  have hh : (x.magic ++ le32 c).length = 12 := by simp [h.magic.1, le32]
  have hlen : ¬ ((x.magic ++ le32 c ++ body2 x).length < 12) := by
    rw [List.length_append, hh]; omega
  have ht4 : (x.magic ++ le32 c ++ body2 x).take 4 = [0x57, 0x4F, 0x5A, 0x32] := by
    have : (x.magic ++ le32 c ++ body2 x).take 4 = x.magic.take 4 := by
      rw [List.append_assoc, List.take_append_of_le_length (by rw [h.magic.1]; omega)]
    rw [this, h.magic.2]
  have ht8 : (x.magic ++ le32 c ++ body2 x).take 8 = x.magic := by
    rw [List.append_assoc, ← h.magic.1, List.take_left]
  unfold fromBytes2
  rw [if_neg hlen, ht4]
  simp only [ne_eq, not_true_eq_false, if_false, ht8]
  rw [hbody, readChunks_chunks _ hh _ hall]
  rw [fold_creator _ ip tp x.trks x.bits x.metaTxt wt hil htl h.trksN h.trksW h.bitsB h.bitsS rfl rfl]
  simp only [← hi, ← ht]
  rw [if_neg h.flux, if_neg (fun hn => hn h.kind)]
  have hne : ¬ (x.info = [] ∨ x.tmap = [] ∨ x.trks = []) := by
    intro hor
    rcases hor with h1 | h1 | h1
    · rw [hi] at h1; simp [chunkBytes, le32] at h1
    · rw [ht] at h1; simp [chunkBytes, le32] at h1
    · have := h.trksN; rw [h1] at this; simp at this
  rw [if_neg hne]
  have hsz := h.size
  cases x
  simp_all

/-! the re-basing of `to_bytes` for an object loaded from a file with another chunk layout -/

theorem rebase_std (x : Woz2) (ho : x.off = 1536) : rebase x = some x := by simp [rebase, ho]

theorem rebase_some (x : Woz2) (hoff : x.off % 512 = 0) : ∃ y, rebase x = some y ∧ y.off = 1536 := by
  by_cases ho : x.off = 1536
  · exact ⟨x, rebase_std x ho, ho⟩
  · simp only [rebase, if_neg ho]
    have : ¬ (x.off % 512 ≠ 0) := by omega
    rw [if_neg this]
    exact ⟨_, rfl, rfl⟩

theorem rebase_wf (x y : Woz2) (h : Woz2Wf x) (hr : rebase x = some y) : Woz2Wf y := by
  by_cases ho : x.off = 1536
  · rw [rebase_std x ho] at hr; cases hr; exact h
  · simp only [rebase, if_neg ho] at hr
    by_cases hm : x.off % 512 ≠ 0
    · rw [if_pos hm] at hr; cases hr
    · rw [if_neg hm] at hr
      cases hr
      refine ⟨h.magic, h.info, h.tmap, by simp [h.trksN], ?_, h.bitsB, h.bitsS, h.size, h.metaS, h.writ, h.flux, h.kind⟩
      intro t ht
      simp only [List.mem_map] at ht
      obtain ⟨u, hu, rfl⟩ := ht
      have hw := h.trksW u hu
      by_cases hge : u.start ≥ x.off / 512
      · simp only [if_pos hge]
        exact ⟨Nat.mod_lt _ (by decide), hw.2.1, hw.2.2⟩
      · simp only [if_neg hge]; exact hw

theorem rebase_arith (s k : Nat) (hge : s ≥ k) :
    ((s + 3 - k) * 512 < 1536 ↔ s * 512 < 512 * k) ∧ (s + 3 - k) * 512 - 1536 = s * 512 - 512 * k := by
  omega

/-- the same bytes of `trks.bits` belong to a track before and after the re-basing -/
theorem bitsRange_rebase (x y : Woz2) (hr : rebase x = some y) (t : Trk)
    (hge : t.start ≥ x.off / 512) (hfit : t.start + 3 - x.off / 512 < 65536) :
    bitsRange y (if t.start ≥ x.off / 512 then { t with start := (t.start + 3 - x.off / 512) % 65536 } else t) =
      bitsRange x t := by
  by_cases ho : x.off = 1536
  · rw [rebase_std x ho] at hr; cases hr
    have : x.off / 512 = 3 := by rw [ho]
    rw [if_pos hge, this]
    have hst : t.start < 65536 := by rw [this] at hfit; omega
    have h2 : (t.start + 3 - 3) % 65536 = t.start := by omega
    rw [h2]
  · simp only [rebase, if_neg ho] at hr
    by_cases hm : x.off % 512 ≠ 0
    · rw [if_pos hm] at hr; cases hr
    · rw [if_neg hm] at hr
      cases hr
      rw [if_pos hge, Nat.mod_eq_of_lt hfit]
      have hk : x.off = 512 * (x.off / 512) := by omega
      simp only [bitsRange]
      obtain ⟨e1, e2⟩ := rebase_arith t.start (x.off / 512) hge
      rw [← hk] at e1 e2
      simp only [e2]
      by_cases hlt : t.start * 512 < x.off
      · rw [if_pos hlt, if_pos (e1.mpr hlt)]
      · rw [if_neg hlt, if_neg (fun h => hlt (e1.mp h))]

theorem toBytes2_of_rebase (x y : Woz2) (hr : rebase x = some y) (hy : y.off = 1536) :
    toBytes2 x = toBytes2 y := by
  simp only [toBytes2, hr, rebase_std y hy]

end A2Verif.Lemmas.C09Woz
