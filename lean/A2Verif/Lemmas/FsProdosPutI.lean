import A2Verif.Lemmas.FsProdosPutH
/-!
# `put`: what is asked of the file image, and what follows for `end()` and `blocks_needed`
-/
namespace A2Verif.FsProdos
open A2Verif.Fs.Prodos

theorem foldl_end_ge (l : List (Nat × Bytes)) : ∀ (a : Nat), a ≤ l.foldl (fun m c => max m (c.1 + 1)) a ∧
    ∀ c ∈ l, c.1 + 1 ≤ l.foldl (fun m c => max m (c.1 + 1)) a := by
  induction l with
  | nil => intro a; exact ⟨Nat.le_refl _, fun c hc => by cases hc⟩
  | cons x l ih =>
    intro a
    rw [List.foldl_cons]
    obtain ⟨h1, h2⟩ := ih (max a (x.1 + 1))
    refine ⟨by omega, ?_⟩
    intro c hc
    rcases List.mem_cons.mp hc with rfl | hc'
    · omega
    · exact h2 c hc'

/-- every chunk index is below `end()` -/
theorem end_gt (f : FImg) : ∀ c ∈ f.chunks, c.1 < f.end_ := fun c hc => (foldl_end_ge f.chunks 0).2 c hc

theorem filterMap_length_filter {α β : Type} (g : α → Option β) : ∀ (l : List α),
    (l.filterMap g).length = (l.filter (fun x => (g x).isSome)).length
  | [] => rfl
  | a :: l => by
    rw [List.filterMap_cons, List.filter_cons]
    cases h : g a with
    | none => simp only [Option.isSome_none, Bool.false_eq_true, ↓reduceIte]; exact filterMap_length_filter g l
    | some b => simp only [Option.isSome_some, ↓reduceIte, List.length_cons]; rw [filterMap_length_filter g l]

/-- the chunks of the image, in ascending order of their indices, enumerated by `lookup` -/
theorem chunks_enum (f : FImg) (hk : (f.chunks.map (·.1)).Pairwise (· < ·)) :
    (List.range f.end_).filterMap (fun k => (f.chunks.lookup k).map (fun v => (k, v))) = f.chunks := by
  rw [List.range_eq_range']
  exact lookup_enum f.end_ 0 f.chunks hk (fun x hx => ⟨Nat.zero_le _, by have := end_gt f x hx; omega⟩)

theorem chunks_length (f : FImg) (hk : (f.chunks.map (·.1)).Pairwise (· < ·)) : f.chunks.length = dataCount f f.end_ := by
  conv => lhs; rw [← chunks_enum f hk]
  rw [filterMap_length_filter]
  unfold dataCount hasChunk
  congr 1
  apply List.filter_congr
  intro k _
  cases f.chunks.lookup k <;> rfl

/-- `blocks_needed` of an image with at most 256 chunk positions: its chunks, and one index block if there is more than one position -/
theorem blocksNeeded_small (f : FImg) (hk : (f.chunks.map (·.1)).Pairwise (· < ·)) (h : f.end_ ≤ 256) :
    blocksNeeded f = dataCount f f.end_ + (if f.end_ > 1 then 1 else 0) := by
  unfold blocksNeeded
  simp only []
  rw [if_neg (by omega), chunks_length f hk]
  split <;> rfl

/-- the group numbers `blocks_needed` counts are the group numbers of the chunks from index 256 on -/
theorem grp_eq (f : FImg) (hk : (f.chunks.map (·.1)).Pairwise (· < ·)) :
    (f.chunks.filter (fun c => c.1 ≥ 256)).map (fun c => c.1 / 256) = grp f f.end_ := by
  have hψ : ∀ l : List Nat, (l.filter (fun k => decide (256 ≤ k) && hasChunk f k)).map (· / 256) =
      l.filterMap (fun k => if 256 ≤ k ∧ hasChunk f k = true then some (k / 256) else none) := by
    intro l
    induction l with
    | nil => rfl
    | cons a l ih =>
      rw [List.filter_cons, List.filterMap_cons]
      by_cases h : 256 ≤ a ∧ hasChunk f a = true
      · rw [if_pos h]
        have : (decide (256 ≤ a) && hasChunk f a) = true := by simp [h.1, h.2]
        rw [this]; simp only [↓reduceIte, List.map_cons]; rw [ih]
      · rw [if_neg h]
        have : (decide (256 ≤ a) && hasChunk f a) = false := by
          rcases Classical.not_and_iff_not_or_not.mp h with h1 | h1
          · simp [h1]
          · simp [h1]
        rw [this]; simp only [Bool.false_eq_true, ↓reduceIte]; exact ih
  unfold grp
  rw [hψ]
  conv => lhs; rw [← chunks_enum f hk]
  rw [List.filter_filterMap, List.map_filterMap]
  apply filterMap_congr_mem
  intro k _
  unfold hasChunk
  cases f.chunks.lookup k with
  | none => simp
  | some d =>
    by_cases h : 256 ≤ k
    · simp [h]; exact ⟨k, ⟨rfl, h⟩, rfl⟩
    · simp [h]; omega

/-- **`blocks_needed` is the number of blocks `write_file` takes** -/
theorem blocksNeeded_eq (f : FImg) (hk : (f.chunks.map (·.1)).Pairwise (· < ·)) : blocksNeeded f = allocCount f f.end_ := by
  unfold blocksNeeded allocCount
  simp only []
  rw [chunks_length f hk, grp_eq f hk]
  by_cases h1 : f.end_ > 1 <;> by_cases h2 : f.end_ > 256 <;> simp only [h1, h2, ↓reduceIte] <;> omega

theorem lookup_of_mem {β : Type} : ∀ (l : List (Nat × β)), (l.map (·.1)).Pairwise (· < ·) → ∀ c ∈ l, l.lookup c.1 = some c.2
  | [], _, c, hc => by cases hc
  | (k, v) :: l, hp, c, hc => by
    rw [List.map_cons, List.pairwise_cons] at hp
    rw [List.lookup_cons]
    rcases List.mem_cons.mp hc with rfl | hc'
    · simp
    · have : k < c.1 := hp.1 c.1 (List.mem_map_of_mem hc')
      have hne : (c.1 == k) = false := by simpa using (show c.1 ≠ k by omega)
      rw [hne]
      exact lookup_of_mem l hp.2 c hc'

theorem mem_of_lookup {β : Type} : ∀ (l : List (Nat × β)) (k : Nat) (v : β), l.lookup k = some v → (k, v) ∈ l
  | [], _, _, h => by cases h
  | (k0, v0) :: l, k, v, h => by
    rw [List.lookup_cons] at h
    by_cases hk : k = k0
    · subst hk; simp at h; subst h; exact List.mem_cons_self
    · have hne : (k == k0) = false := by simpa using hk
      rw [hne] at h
      exact List.mem_cons_of_mem _ (mem_of_lookup l k v h)

/-- what `put` is given: a file image and the packed time -/
structure PutOk (f : FImg) (time : Bytes) : Prop where
  fsOk : f.fsOk = true
  chunkLen : f.chunkLen = blockSize
  /-- the map of chunks, written with ascending indices -/
  keys : (f.chunks.map (·.1)).Pairwise (· < ·)
  ne : f.chunks ≠ []
  clen : ∀ c ∈ f.chunks, c.2.length ≤ 512
  cbytes : ∀ c ∈ f.chunks, ∀ x ∈ c.2, x < 256
  eof : 0 < f.eof ∧ f.eof ≤ 0xffffff
  endle : f.end_ ≤ 128 * 256
  fsType : 1 ≤ f.fsType.length ∧ f.fsType.getD 0 0 < 256
  aux : 2 ≤ f.aux.length ∧ f.aux.getD 0 0 < 256 ∧ f.aux.getD 1 0 < 256
  version : 1 ≤ f.version.length ∧ f.version.getD 0 0 < 256
  minVersion : 1 ≤ f.minVersion.length ∧ f.minVersion.getD 0 0 < 256
  access : ∃ a, f.access[0]? = some a ∧ a < 256 ∧ UniformAcc a
  time : time.length = 4 ∧ ∀ x ∈ time, x < 256

theorem PutOk.end_pos {f : FImg} {time : Bytes} (pk : PutOk f time) : 1 ≤ f.end_ := by
  cases hc : f.chunks with
  | nil => exact absurd hc pk.ne
  | cons c l => have := end_gt f c (by rw [hc]; exact List.mem_cons_self); omega

theorem PutOk.bytes {f : FImg} {time : Bytes} (pk : PutOk f time) :
    ∀ k data, f.chunks.lookup k = some data → ∀ x ∈ data, x < 256 :=
  fun k data h => pk.cbytes (k, data) (mem_of_lookup _ _ _ h)

theorem PutOk.first {f : FImg} {time : Bytes} (pk : PutOk f time) (h : f.end_ = 1) : hasChunk f 0 = true := by
  cases hc : f.chunks with
  | nil => exact absurd hc pk.ne
  | cons c l =>
    have hm : c ∈ f.chunks := by rw [hc]; exact List.mem_cons_self
    have := end_gt f c hm
    have hl := lookup_of_mem f.chunks pk.keys c hm
    have h0 : c.1 = 0 := by omega
    unfold hasChunk
    rw [← h0, hl]; rfl

end A2Verif.FsProdos
