import A2Verif.Lemmas.FsProdosFind
import A2Verif.Lemmas.FsProdosSt
/-!
# A directory with the standard geometry, as the total reader sees it

`IsChain`: the list of blocks the `next` links lead through.  `dirSlots`: the entries of a directory (entry length 39,
13 per block) with their locations, in the order the reader lists them.  `readDir_iff`: the located reading of such a
directory is a well-formed chain, the header's file count = number of active slots, and the concatenation of the
records of the active slots (`RE` = `readEntryWith` one level deeper).  `readDir_change`: the reading after **one slot**
has been replaced (made active, inactive, or rewritten) — the tool behind `delete`, `rename`, `put`, `mkdir`.
-/
namespace A2Verif.FsProdos
open A2Verif.Read.Prodos (entryAt dirChain idxPtr indexEntries readData trimName bitmapFree)
open A2Verif.Read.ProdosT

/-! ## chains -/

/-- `ch` is the list of blocks reached from `b` along the `next` links (bytes 2, 3), the last one has link 0 -/
inductive IsChain (r : Raw) : Nat → List Nat → Prop
  | nil : IsChain r 0 []
  | cons {b : Nat} {blk : Bytes} {rest : List Nat} : b ≠ 0 → r.units[b]? = some blk → IsChain r (le16 blk 2) rest →
      IsChain r b (b :: rest)

theorem dirChain_isChain (r : Raw) (total : Nat) : ∀ (fuel b : Nat) (seen ch : List Nat),
    dirChain r total fuel b seen = .ok ch →
    ∃ tail, ch = seen.reverse ++ tail ∧ IsChain r b tail ∧ (∀ x ∈ tail, x < total ∧ x ∉ seen) ∧ tail.Nodup
  | 0, _, _, _, h => by simp [dirChain] at h
  | fuel + 1, b, seen, ch, h => by
    by_cases hb : b = 0
    · subst hb
      unfold dirChain at h
      simp only [↓reduceIte] at h
      have : ch = seen.reverse := by injection h with h; exact h.symm
      exact ⟨[], by simp [this], IsChain.nil, by simp, List.nodup_nil⟩
    · have hstep := dirChain_step r total fuel b seen ch hb h
      obtain ⟨hbt, blk, hblk, hrest⟩ := hstep
      have hns : b ∉ seen := by
        unfold dirChain at h
        simp only [hb, ↓reduceIte] at h
        split at h
        · cases h
        · split at h
          · cases h
          · next hc => simpa using hc
      obtain ⟨tail, hch, hic, hall, hnd⟩ := dirChain_isChain r total fuel (le16 blk 2) (b :: seen) ch hrest
      refine ⟨b :: tail, by rw [hch]; simp, IsChain.cons hb hblk hic, ?_, ?_⟩
      · intro x hx
        rcases List.mem_cons.mp hx with rfl | hx'
        · exact ⟨hbt, hns⟩
        · exact ⟨(hall x hx').1, fun hs => (hall x hx').2 (List.mem_cons_of_mem _ hs)⟩
      · rw [List.nodup_cons]
        exact ⟨fun hm => (hall b hm).2 List.mem_cons_self, hnd⟩

/-- what a successful `dirChain` from an empty `seen` list says -/
theorem dirChain_ok (r : Raw) (total fuel b : Nat) (ch : List Nat) (h : dirChain r total fuel b [] = .ok ch) :
    IsChain r b ch ∧ (∀ x ∈ ch, x < total) ∧ ch.Nodup := by
  obtain ⟨tail, hch, hic, hall, hnd⟩ := dirChain_isChain r total fuel b [] ch h
  simp only [List.reverse_nil, List.nil_append] at hch
  subst hch
  exact ⟨hic, fun x hx => (hall x hx).1, hnd⟩

theorem IsChain.exists {r : Raw} : ∀ {b : Nat} {ch : List Nat}, IsChain r b ch → ∀ x ∈ ch, x < r.units.size
  | _, _, IsChain.nil, x, hx => by cases hx
  | _, _, IsChain.cons _ hblk hrest, x, hx => by
    rcases List.mem_cons.mp hx with rfl | hx'
    · rcases Nat.lt_or_ge x r.units.size with hh | hh
      · exact hh
      · rw [Array.getElem?_eq_none hh] at hblk; cases hblk
    · exact hrest.exists x hx'

theorem IsChain.ne_zero {r : Raw} : ∀ {b : Nat} {ch : List Nat}, IsChain r b ch → ∀ x ∈ ch, x ≠ 0
  | _, _, IsChain.nil, x, hx => by cases hx
  | _, _, IsChain.cons hb _ hrest, x, hx => by
    rcases List.mem_cons.mp hx with rfl | hx'
    · exact hb
    · exact hrest.ne_zero x hx'

/-- conversely: a chain without repetition inside the volume is what `dirChain` computes (given enough fuel) -/
theorem dirChain_of_isChain (r : Raw) (total : Nat) : ∀ (ch : List Nat) (fuel b : Nat) (seen : List Nat),
    IsChain r b ch → (∀ x ∈ ch, x < total ∧ x ∉ seen) → ch.Nodup → ch.length < fuel →
    dirChain r total fuel b seen = .ok (seen.reverse ++ ch)
  | [], fuel, b, seen, h, _, _, hf => by
    cases h
    obtain ⟨f, rfl⟩ : ∃ f, fuel = f + 1 := ⟨fuel - 1, by simp at hf; omega⟩
    simp [dirChain, pure, Except.pure]
  | c :: rest, fuel, b, seen, h, hall, hnd, hf => by
    obtain ⟨f, rfl⟩ : ∃ f, fuel = f + 1 := ⟨fuel - 1, by simp at hf; omega⟩
    cases h with
    | cons hb hblk hrest =>
      rw [List.nodup_cons] at hnd
      obtain ⟨hbt, hbs⟩ := hall c List.mem_cons_self
      unfold dirChain
      simp only [hb, ↓reduceIte, show ¬ c ≥ total by omega]
      have hc : seen.contains c = false := by simpa using hbs
      simp only [hc, Bool.false_eq_true, ↓reduceIte]
      rw [show r.unit c "directory-block" = .ok _ from unit_of_get r c _ _ hblk]
      show dirChain r total f (le16 _ 2) (c :: seen) = _
      rw [dirChain_of_isChain r total rest f _ (c :: seen) hrest (fun x hx => by
        refine ⟨(hall x (List.mem_cons_of_mem _ hx)).1, ?_⟩
        intro hm
        rcases List.mem_cons.mp hm with rfl | hm'
        · exact hnd.1 hx
        · exact (hall x (List.mem_cons_of_mem _ hx)).2 hm') hnd.2 (by simp at hf ⊢; omega)]
      simp

/-! ## slots -/

/-- the 0-based slot numbers the reader looks at in block `b` of the directory with key block `key` -/
def slotIdxs (key b : Nat) : List Nat := if b = key then (List.range 13).drop 1 else List.range 13

/-- the entries of one block with their locations (block, 1-based slot) -/
def blockSlots (r : Raw) (key b : Nat) : List (Bytes × Nat × Nat) :=
  (slotIdxs key b).map (fun k => (entryAt (unitAt r b) k 39, b, k + 1))

/-- the entries of a directory with their locations, in the reader's order -/
def dirSlots (r : Raw) (key : Nat) (ch : List Nat) : List (Bytes × Nat × Nat) := ch.flatMap (blockSlots r key)

/-- the slot holds an entry (storage type ≠ 0) -/
def isAct (x : Bytes × Nat × Nat) : Bool := decide (x.1.getD 0 0 / 16 ≠ 0)

theorem mem_slotIdxs {key b k : Nat} : k ∈ slotIdxs key b ↔ k < 13 ∧ (b = key → 1 ≤ k) := by
  unfold slotIdxs
  split
  · next h =>
    rw [List.mem_drop_iff_getElem]
    constructor
    · rintro ⟨i, hi, rfl⟩
      simp at hi ⊢
      omega
    · rintro ⟨h1, h2⟩
      have := h2 h
      exact ⟨k - 1, by simp; omega, by simp; omega⟩
  · next h =>
    rw [List.mem_range]
    exact ⟨fun hk => ⟨hk, fun hb => absurd hb h⟩, fun hk => hk.1⟩

theorem mem_blockSlots {r : Raw} {key b : Nat} {x : Bytes × Nat × Nat} :
    x ∈ blockSlots r key b ↔ ∃ k, k < 13 ∧ (b = key → 1 ≤ k) ∧ x = (entryAt (unitAt r b) k 39, b, k + 1) := by
  unfold blockSlots
  rw [List.mem_map]
  constructor
  · rintro ⟨k, hk, rfl⟩; exact ⟨k, (mem_slotIdxs.mp hk).1, (mem_slotIdxs.mp hk).2, rfl⟩
  · rintro ⟨k, h1, h2, rfl⟩; exact ⟨k, mem_slotIdxs.mpr ⟨h1, h2⟩, rfl⟩

theorem mem_dirSlots {r : Raw} {key : Nat} {ch : List Nat} {x : Bytes × Nat × Nat} :
    x ∈ dirSlots r key ch ↔ ∃ b ∈ ch, ∃ k, k < 13 ∧ (b = key → 1 ≤ k) ∧ x = (entryAt (unitAt r b) k 39, b, k + 1) := by
  unfold dirSlots
  rw [List.mem_flatMap]
  constructor
  · rintro ⟨b, hb, hx⟩; exact ⟨b, hb, mem_blockSlots.mp hx⟩
  · rintro ⟨b, hb, hx⟩; exact ⟨b, hb, mem_blockSlots.mpr hx⟩

theorem slotIdxs_nodup (key b : Nat) : (slotIdxs key b).Nodup := by
  unfold slotIdxs
  split
  · exact (List.nodup_range).sublist (List.drop_sublist _ _)
  · exact List.nodup_range

/-- the locations of the slots of a directory are pairwise different (the chain has no repetition) -/
theorem dirSlots_locs_nodup (r : Raw) (key : Nat) (ch : List Nat) (hnd : ch.Nodup) : ((dirSlots r key ch).map (·.2)).Nodup := by
  induction ch with
  | nil => simp [dirSlots]
  | cons b rest ih =>
    rw [List.nodup_cons] at hnd
    unfold dirSlots
    rw [List.flatMap_cons, List.map_append, List.nodup_append]
    refine ⟨?_, ih hnd.2, ?_⟩
    · unfold blockSlots
      rw [List.map_map]
      have : ((fun x : Bytes × Nat × Nat => x.2) ∘ fun k => (entryAt (unitAt r b) k 39, b, k + 1)) = fun k => (b, k + 1) := rfl
      rw [this]
      have hnd2 := slotIdxs_nodup key b
      generalize slotIdxs key b = l at hnd2
      induction l with
      | nil => exact List.nodup_nil
      | cons k l ih2 =>
        rw [List.nodup_cons] at hnd2
        rw [List.map_cons, List.nodup_cons]
        refine ⟨?_, ih2 hnd2.2⟩
        intro hm
        rw [List.mem_map] at hm
        obtain ⟨k', hk', he⟩ := hm
        have : k' = k := by have := (Prod.mk.inj he).2; omega
        subst this
        exact hnd2.1 hk'
    · intro a ha c hc hac
      rw [List.mem_map] at ha hc
      obtain ⟨x, hx, rfl⟩ := ha
      obtain ⟨y, hy, rfl⟩ := hc
      obtain ⟨k, _, _, rfl⟩ := mem_blockSlots.mp hx
      obtain ⟨b', hb', k', _, _, rfl⟩ := mem_dirSlots.mp hy
      have : b = b' := (Prod.mk.inj hac).1
      subst this
      exact hnd.1 hb'

/-! ## `mapM` as a map -/

/-- the value of a successful computation, `[]` for a failed one -/
def okD {α : Type} : Except String (List α) → List α
  | .ok y => y
  | .error _ => []

theorem mapM_ok_iff {α β : Type} (f : α → Except String (List β)) : ∀ (l : List α) (ys : List (List β)),
    l.mapM f = .ok ys ↔ (∀ x ∈ l, ∃ y, f x = .ok y) ∧ ys = l.map (fun x => okD (f x)) := by
  intro l ys
  rw [mapM_eq_ok]
  constructor
  · intro h
    induction h with
    | nil => exact ⟨by simp, rfl⟩
    | cons hr _ ih =>
      refine ⟨?_, ?_⟩
      · intro x hx
        rcases List.mem_cons.mp hx with rfl | hx'
        · exact ⟨_, hr⟩
        · exact ih.1 x hx'
      · rw [List.map_cons, ← ih.2, hr]; rfl
  · rintro ⟨hall, rfl⟩
    induction l with
    | nil => exact All2.nil
    | cons a l ih =>
      obtain ⟨y, hy⟩ := hall a List.mem_cons_self
      rw [List.map_cons]
      refine All2.cons (by rw [hy]; rfl) (ih (fun x hx => hall x (List.mem_cons_of_mem _ hx)))

theorem mapM_error_of {α β : Type} (f : α → Except String β) (l : List α) (ys : List β) (x : α) (hx : x ∈ l)
    (e : String) (he : f x = .error e) : l.mapM f ≠ .ok ys := by
  intro h
  rw [mapM_eq_ok] at h
  obtain ⟨y, _, hy⟩ := h.mem_left hx
  rw [he] at hy; cases hy

/-! ## the reading of a directory with the standard geometry -/

/-- the reader of a sub-directory, one level deeper -/
def subRd (fuel : Nat) (r : Raw) (total depth : Nat) : Nat → Bytes → Except String (List LRec × List Nat) :=
  fun k p => readDir fuel r total k p (depth + 1)

/-- the records of one slot -/
def RE (fuel : Nat) (r : Raw) (total : Nat) (pfx : Bytes) (depth : Nat) (x : Bytes × Nat × Nat) : Except String (List LRec) :=
  readEntryWith (subRd fuel r total depth) r total pfx x

/-- the key block declares entry length 39 and 13 entries per block -/
def StdGeo (r : Raw) (key : Nat) : Prop := (unitAt r key).getD 35 0 = 39 ∧ (unitAt r key).getD 36 0 = 13

theorem blockEntries_std (r : Raw) (key b : Nat) (hb : b < r.units.size) :
    blockEntries r key 13 39 b = .ok (blockSlots r key b) := by
  unfold blockEntries
  rw [raw_unit_ok r b _ hb]
  rfl

theorem mapM_blockEntries_std (r : Raw) (key : Nat) : ∀ (ch : List Nat), (∀ b ∈ ch, b < r.units.size) →
    ch.mapM (blockEntries r key 13 39) = .ok (ch.map (blockSlots r key))
  | [], _ => rfl
  | b :: rest, h => by
    rw [List.mapM_cons, blockEntries_std r key b (h b List.mem_cons_self),
      mapM_blockEntries_std r key rest (fun x hx => h x (List.mem_cons_of_mem _ hx))]
    rfl

/-- **the reader on a directory with the standard geometry**, given its chain -/
theorem readDir_eq (r : Raw) (total fuel key : Nat) (pfx : Bytes) (depth : Nat) (ch : List Nat) (hk : key ≠ 0)
    (hgeo : StdGeo r key) (hc : dirChain r total 1000 key [] = .ok ch) :
    readDir (fuel + 1) r total key pfx depth =
      if depth > 64 then .error "directory-nesting-too-deep"
      else if ((dirSlots r key ch).filter isAct).length ≠ le16 (unitAt r key) 37 then .error "file-count-differs-from-active-entries"
      else match ((dirSlots r key ch).filter isAct).mapM (RE fuel r total pfx depth) with
        | .error x => .error x
        | .ok recs => .ok (recs.flatten, ch) := by
  obtain ⟨hic, _, _⟩ := dirChain_ok r total 1000 key ch hc
  have hex := hic.exists
  have hkey : key ∈ ch := dirChain_start_mem r total 1000 key ch hk hc
  unfold readDir
  by_cases hd : depth > 64
  · rw [if_pos hd, if_pos hd]
  · rw [if_neg hd, if_neg hd, hc]
    simp only
    rw [raw_unit_ok r key _ (hex key hkey)]
    simp only
    have e1 : (unitAt r key).getD (4 + 0x1F) 0 = 39 := hgeo.1
    have e2 : (unitAt r key).getD (4 + 0x20) 0 = 13 := hgeo.2
    rw [e1, e2]
    rw [if_neg (by decide), mapM_blockEntries_std r key ch hex]
    simp only
    have hflat : (ch.map (blockSlots r key)).flatten = dirSlots r key ch := by
      unfold dirSlots; rw [List.flatMap_def]
    rw [hflat]
    have hfil : (dirSlots r key ch).filter (fun e => decide (e.1.getD 0 0 / 16 ≠ 0)) = (dirSlots r key ch).filter isAct := rfl
    rw [hfil]
    rfl

/-- **characterisation of the located reading** of a directory with the standard geometry -/
theorem readDir_iff (r : Raw) (total fuel key : Nat) (pfx : Bytes) (depth : Nat) (fs : List LRec) (ch : List Nat) (hk : key ≠ 0)
    (hgeo : StdGeo r key) :
    readDir (fuel + 1) r total key pfx depth = .ok (fs, ch) ↔
      depth ≤ 64 ∧ dirChain r total 1000 key [] = .ok ch ∧
      ((dirSlots r key ch).filter isAct).length = le16 (unitAt r key) 37 ∧
      (∀ x ∈ (dirSlots r key ch).filter isAct, ∃ y, RE fuel r total pfx depth x = .ok y) ∧
      fs = ((dirSlots r key ch).filter isAct).flatMap (fun x => okD (RE fuel r total pfx depth x)) := by
  constructor
  · intro h
    have hc := readDir_chain r total fuel key pfx depth fs ch h
    rw [readDir_eq r total fuel key pfx depth ch hk hgeo hc] at h
    split at h
    · cases h
    · next hd =>
      split at h
      · cases h
      · next hcnt =>
        cases hm : ((dirSlots r key ch).filter isAct).mapM (RE fuel r total pfx depth) with
        | error x => rw [hm] at h; cases h
        | ok recs =>
          rw [hm] at h
          simp only at h
          obtain ⟨hall, hrecs⟩ := (mapM_ok_iff _ _ _).mp hm
          have hfs : fs = recs.flatten := by injection h with h; injection h with h1 _; exact h1.symm
          refine ⟨by omega, hc, by simpa using hcnt, hall, ?_⟩
          rw [hfs, hrecs, List.flatMap_def]
  · rintro ⟨hd, hc, hcnt, hall, hfs⟩
    rw [readDir_eq r total fuel key pfx depth ch hk hgeo hc, if_neg (by omega), if_neg (by rw [hcnt]; simp)]
    rw [(mapM_ok_iff _ _ _).mpr ⟨hall, rfl⟩]
    simp only
    rw [hfs, List.flatMap_def]

/-! ## one slot replaced -/

theorem filter_flatMap_eq {α β : Type} (p : α → Bool) (g : α → List β) : ∀ (l : List α),
    (l.filter p).flatMap g = l.flatMap (fun x => if p x then g x else [])
  | [] => rfl
  | a :: l => by
    rw [List.filter_cons, List.flatMap_cons]
    by_cases h : p a = true
    · rw [if_pos h, if_pos h, List.flatMap_cons, filter_flatMap_eq p g l]
    · rw [if_neg h, if_neg h, List.nil_append, filter_flatMap_eq p g l]

theorem flatMap_congr_mem {α β : Type} (f g : α → List β) : ∀ (l : List α), (∀ x ∈ l, f x = g x) → l.flatMap f = l.flatMap g
  | [], _ => rfl
  | a :: l, h => by
    rw [List.flatMap_cons, List.flatMap_cons, h a List.mem_cons_self,
      flatMap_congr_mem f g l (fun x hx => h x (List.mem_cons_of_mem _ hx))]

/-- in a list whose keys are pairwise different, a member splits the list into the part before and the part after it,
neither of which holds its key -/
theorem split_at_key {α κ : Type} (key : α → κ) (l : List α) (hnd : (l.map key).Nodup) (x : α) (hx : x ∈ l) :
    ∃ s t, l = s ++ x :: t ∧ (∀ y ∈ s, key y ≠ key x) ∧ (∀ y ∈ t, key y ≠ key x) := by
  obtain ⟨s, t, rfl⟩ := List.append_of_mem hx
  rw [List.map_append, List.map_cons, List.nodup_append, List.nodup_cons] at hnd
  refine ⟨s, t, rfl, ?_, ?_⟩
  · intro y hy
    exact hnd.2.2 _ (List.mem_map_of_mem hy) _ List.mem_cons_self
  · intro y hy he
    exact hnd.2.1.1 (he ▸ List.mem_map_of_mem hy)

/-- the records of a slot depend only on the blocks they report as owned -/
theorem RE_congr (r r' : Raw) (fuel total : Nat) (pfx : Bytes) (depth : Nat) (x : Bytes × Nat × Nat) (y : List LRec)
    (h : RE fuel r total pfx depth x = .ok y) (hag : Agree r r' (y.flatMap (·.1.owned))) :
    RE fuel r' total pfx depth x = .ok y :=
  readEntryWith_congr _ _ r r' total pfx x y h hag
    (fun k p res hk0 hs hagr => readDir_congr r r' total fuel k p (depth + 1) res.1 res.2 hk0 hs hagr)

/-- the slots of a directory after unit `B` has been replaced by a block whose entries other than slot `idx` are the old ones -/
theorem dirSlots_change (r r' : Raw) (key : Nat) (ch : List Nat) (B idx : Nat) (nb : Bytes)
    (hother : ∀ j, j ≠ B → r'.units[j]? = r.units[j]?) (hnew : r'.units[B]? = some nb)
    (hent : ∀ k, k < 13 → k + 1 ≠ idx → entryAt nb k 39 = entryAt (unitAt r B) k 39) :
    dirSlots r' key ch =
      (dirSlots r key ch).map (fun x => if x.2 = (B, idx) then (entryAt nb (idx - 1) 39, (B, idx)) else x) := by
  unfold dirSlots
  rw [List.map_flatMap]
  apply flatMap_congr_mem
  intro b _
  unfold blockSlots
  rw [List.map_map]
  apply List.map_congr_left
  intro k hk
  have hk13 := (mem_slotIdxs.mp hk).1
  simp only [Function.comp]
  by_cases hb : b = B
  · subst hb
    have hu : unitAt r' b = nb := by unfold unitAt; rw [hnew]; rfl
    rw [hu]
    by_cases hki : k + 1 = idx
    · subst hki
      simp
    · have hne : (b, k + 1) ≠ (b, idx) := fun hh => hki (Prod.mk.inj hh).2
      rw [if_neg hne, hent k hk13 hki]
  · have hu : unitAt r' b = unitAt r b := by unfold unitAt; rw [hother b hb]
    have hne : (b, k + 1) ≠ (B, idx) := fun hh => hb (Prod.mk.inj hh).1
    rw [if_neg hne, hu]

/-- **the located reading after one slot has been replaced.**  `r'` has the same chain; its slots are those of `r` except
that slot `loc` holds `e'`; its header count is the number of its active slots; the records of every other active slot
own only blocks on which the two images agree; if the new slot is active it can be read.  Then the reading of `r'` is
the reading of `r`, slot by slot, with the records of slot `loc` replaced. -/
theorem readDir_change (r r' : Raw) (total fuel key : Nat) (pfx : Bytes) (depth : Nat) (fs : List LRec) (ch : List Nat)
    (hk : key ≠ 0) (hgeo : StdGeo r key) (hgeo' : StdGeo r' key)
    (h : readDir (fuel + 1) r total key pfx depth = .ok (fs, ch))
    (hch : dirChain r' total 1000 key [] = .ok ch)
    (loc : Nat × Nat) (e' : Bytes)
    (hslots : dirSlots r' key ch = (dirSlots r key ch).map (fun x => if x.2 = loc then (e', loc) else x))
    (hcnt : le16 (unitAt r' key) 37 = ((dirSlots r' key ch).filter isAct).length)
    (hagree : ∀ x ∈ dirSlots r key ch, x.2 ≠ loc → isAct x = true → ∀ y, RE fuel r total pfx depth x = .ok y →
      Agree r r' (y.flatMap (·.1.owned)))
    (hnew : isAct (e', loc) = true → ∃ y, RE fuel r' total pfx depth (e', loc) = .ok y) :
    fs = (dirSlots r key ch).flatMap (fun x => if isAct x then okD (RE fuel r total pfx depth x) else []) ∧
    readDir (fuel + 1) r' total key pfx depth =
      .ok ((dirSlots r key ch).flatMap (fun x =>
        if x.2 = loc then (if isAct (e', loc) then okD (RE fuel r' total pfx depth (e', loc)) else [])
        else if isAct x then okD (RE fuel r total pfx depth x) else []), ch) := by
  obtain ⟨hd, _, _, hall, hfs⟩ := (readDir_iff r total fuel key pfx depth fs ch hk hgeo).mp h
  have hfs0 : fs = (dirSlots r key ch).flatMap (fun x => if isAct x then okD (RE fuel r total pfx depth x) else []) := by
    rw [hfs, filter_flatMap_eq]
  refine ⟨hfs0, ?_⟩
  -- a slot of `r` elsewhere that is active reads the same in `r'`
  have hsame : ∀ x ∈ dirSlots r key ch, x.2 ≠ loc → isAct x = true →
      ∃ y, RE fuel r total pfx depth x = .ok y ∧ RE fuel r' total pfx depth x = .ok y := by
    intro x hx hxl hxa
    obtain ⟨y, hy⟩ := hall x (List.mem_filter.mpr ⟨hx, hxa⟩)
    exact ⟨y, hy, RE_congr r r' fuel total pfx depth x y hy (hagree x hx hxl hxa y hy)⟩
  rw [readDir_iff r' total fuel key pfx depth _ ch hk hgeo']
  refine ⟨hd, hch, hcnt.symm, ?_, ?_⟩
  · intro x hx
    obtain ⟨hxm, hxa⟩ := List.mem_filter.mp hx
    rw [hslots, List.mem_map] at hxm
    obtain ⟨x0, hx0, rfl⟩ := hxm
    by_cases hl : x0.2 = loc
    · rw [if_pos hl] at hxa ⊢
      exact hnew hxa
    · rw [if_neg hl] at hxa ⊢
      obtain ⟨y, _, hy'⟩ := hsame x0 hx0 hl hxa
      exact ⟨y, hy'⟩
  · rw [hslots, filter_flatMap_eq, List.flatMap_map]
    apply flatMap_congr_mem
    intro x hx
    by_cases hl : x.2 = loc
    · simp only [hl, ↓reduceIte]
    · simp only [hl, ↓reduceIte]
      by_cases hxa : isAct x = true
      · obtain ⟨y, hy, hy'⟩ := hsame x hx hl hxa
        simp only [hxa, ↓reduceIte, hy, hy']
      · simp only [hxa, Bool.false_eq_true, ↓reduceIte]

/-- the records of the slots of a reading, slot by slot -/
def slotRecs (fuel : Nat) (r : Raw) (total : Nat) (pfx : Bytes) (depth : Nat) (y : Bytes × Nat × Nat) : List LRec :=
  if isAct y then okD (RE fuel r total pfx depth y) else []

/-- the located reading in terms of the slots -/
theorem readDir_slots (r : Raw) (total fuel key : Nat) (pfx : Bytes) (depth : Nat) (fs : List LRec) (ch : List Nat)
    (hk : key ≠ 0) (hgeo : StdGeo r key) (h : readDir (fuel + 1) r total key pfx depth = .ok (fs, ch)) :
    fs = (dirSlots r key ch).flatMap (slotRecs fuel r total pfx depth) ∧
    (∀ x ∈ dirSlots r key ch, isAct x = true → ∃ y, RE fuel r total pfx depth x = .ok y) ∧
    ((dirSlots r key ch).filter isAct).length = le16 (unitAt r key) 37 := by
  obtain ⟨_, _, hcnt, hall, hfs⟩ := (readDir_iff r total fuel key pfx depth fs ch hk hgeo).mp h
  refine ⟨?_, fun x hx ha => hall x (List.mem_filter.mpr ⟨hx, ha⟩), hcnt⟩
  rw [hfs, filter_flatMap_eq]
  rfl

/-- `readDir_change` with the slot list split at the changed slot: the records before and after it are the same in both
readings -/
theorem readDir_change_at (r r' : Raw) (total fuel key : Nat) (pfx : Bytes) (depth : Nat) (fs : List LRec) (ch : List Nat)
    (hk : key ≠ 0) (hgeo : StdGeo r key) (hgeo' : StdGeo r' key)
    (h : readDir (fuel + 1) r total key pfx depth = .ok (fs, ch))
    (hch : dirChain r' total 1000 key [] = .ok ch)
    (x : Bytes × Nat × Nat) (s1 s2 : List (Bytes × Nat × Nat)) (hsplit : dirSlots r key ch = s1 ++ x :: s2)
    (h1 : ∀ y ∈ s1, y.2 ≠ x.2) (h2 : ∀ y ∈ s2, y.2 ≠ x.2) (e' : Bytes)
    (hslots : dirSlots r' key ch = s1 ++ (e', x.2) :: s2)
    (hcnt : le16 (unitAt r' key) 37 = ((dirSlots r' key ch).filter isAct).length)
    (hagree : ∀ y ∈ s1 ++ s2, isAct y = true → ∀ z, RE fuel r total pfx depth y = .ok z →
      Agree r r' (z.flatMap (·.1.owned)))
    (hnew : isAct (e', x.2) = true → ∃ z, RE fuel r' total pfx depth (e', x.2) = .ok z) :
    readDir (fuel + 1) r' total key pfx depth =
      .ok (s1.flatMap (slotRecs fuel r total pfx depth) ++ slotRecs fuel r' total pfx depth (e', x.2) ++
        s2.flatMap (slotRecs fuel r total pfx depth), ch) := by
  have hmap1 : ∀ (l : List (Bytes × Nat × Nat)), (∀ y ∈ l, y.2 ≠ x.2) →
      l.map (fun y => if y.2 = x.2 then (e', x.2) else y) = l := by
    intro l hl
    induction l with
    | nil => rfl
    | cons a l ih =>
      rw [List.map_cons, ih (fun y hy => hl y (List.mem_cons_of_mem _ hy)), if_neg (hl a List.mem_cons_self)]
  have hslots' : dirSlots r' key ch = (dirSlots r key ch).map (fun y => if y.2 = x.2 then (e', x.2) else y) := by
    rw [hslots, hsplit, List.map_append, List.map_cons, hmap1 s1 h1, hmap1 s2 h2, if_pos rfl]
  obtain ⟨_, hrd⟩ := readDir_change r r' total fuel key pfx depth fs ch hk hgeo hgeo' h hch x.2 e' hslots' hcnt
    (fun y hy hyl hya z hz => by
      rw [hsplit] at hy
      have : y ∈ s1 ++ s2 := by
        rcases List.mem_append.mp hy with a | a
        · exact List.mem_append_left _ a
        · rcases List.mem_cons.mp a with rfl | a'
          · exact absurd rfl hyl
          · exact List.mem_append_right _ a'
      exact hagree y this hya z hz) hnew
  have hfm1 : ∀ (l : List (Bytes × Nat × Nat)), (∀ y ∈ l, y.2 ≠ x.2) →
      l.flatMap (fun y => if y.2 = x.2 then (if isAct (e', x.2) then okD (RE fuel r' total pfx depth (e', x.2)) else [])
        else if isAct y then okD (RE fuel r total pfx depth y) else []) = l.flatMap (slotRecs fuel r total pfx depth) := by
    intro l hl
    apply flatMap_congr_mem
    intro y hy
    rw [if_neg (hl y hy)]
    rfl
  rw [hrd, hsplit, List.flatMap_append, List.flatMap_cons, hfm1 s1 h1, hfm1 s2 h2, if_pos rfl, List.append_assoc]
  rfl

/-- the slots of a directory after the units of its chain have been rewritten such that every slot other than `(B, idx)`
holds the entry it held -/
theorem dirSlots_change' (r r' : Raw) (key : Nat) (ch : List Nat) (B idx : Nat)
    (hent : ∀ b ∈ ch, ∀ k, k < 13 → (b = key → 1 ≤ k) → (b, k + 1) ≠ (B, idx) →
      entryAt (unitAt r' b) k 39 = entryAt (unitAt r b) k 39) :
    dirSlots r' key ch =
      (dirSlots r key ch).map (fun x => if x.2 = (B, idx) then (entryAt (unitAt r' B) (idx - 1) 39, (B, idx)) else x) := by
  unfold dirSlots
  rw [List.map_flatMap]
  apply flatMap_congr_mem
  intro b hb
  unfold blockSlots
  rw [List.map_map]
  apply List.map_congr_left
  intro k hk
  obtain ⟨hk13, hkey⟩ := mem_slotIdxs.mp hk
  simp only [Function.comp]
  by_cases hloc : (b, k + 1) = (B, idx)
  · rw [if_pos hloc]
    obtain ⟨hbB, hki⟩ := Prod.mk.inj hloc
    subst hbB; subst hki
    simp
  · rw [if_neg hloc, hent b hb k hk13 hkey hloc]

/-- a file slot yields exactly one record, the one `readFile` makes of the entry -/
theorem RE_file (fuel : Nat) (r : Raw) (total : Nat) (pfx : Bytes) (depth : Nat) (x : Bytes × Nat × Nat) (z : List LRec)
    (hst : x.1.getD 0 0 / 16 = 1 ∨ x.1.getD 0 0 / 16 = 2 ∨ x.1.getD 0 0 / 16 = 3)
    (h : RE fuel r total pfx depth x = .ok z) :
    ∃ f, z = [(f, x.2)] ∧ readFile r total x.1 pfx = .ok f ∧ ¬ (le16 x.1 0x11 = 0 ∨ le16 x.1 0x11 ≥ total) := by
  unfold RE readEntryWith at h
  simp only at h
  split at h
  · cases h
  · next hkey =>
    try rw [if_pos hst] at h
    cases hf : readFile r total x.1 pfx with
    | error e => rw [hf] at h; cases h
    | ok f =>
      rw [hf] at h
      exact ⟨f, by injection h with h; exact h.symm, rfl, hkey⟩

theorem RE_file_of (fuel : Nat) (r : Raw) (total : Nat) (pfx : Bytes) (depth : Nat) (x : Bytes × Nat × Nat) (f : FileRec)
    (hst : x.1.getD 0 0 / 16 = 1 ∨ x.1.getD 0 0 / 16 = 2 ∨ x.1.getD 0 0 / 16 = 3)
    (hkey : ¬ (le16 x.1 0x11 = 0 ∨ le16 x.1 0x11 ≥ total)) (h : readFile r total x.1 pfx = .ok f) :
    RE fuel r total pfx depth x = .ok [(f, x.2)] := by
  unfold RE readEntryWith
  simp only
  rw [if_neg hkey, if_pos hst, h]

end A2Verif.FsProdos
