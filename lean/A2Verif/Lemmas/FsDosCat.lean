import A2Verif.Lemmas.FsDosGet
/-!
# The name `catalog_to_vec` prints is a function of the path the reader lists

`file_name_to_string` renders the 30-byte negative-ASCII name: printable bytes as ASCII, everything else as `\xHH`,
trailing blanks trimmed.  For names whose bytes all carry bit 7 (invariant `WInv.names`) this is `renderPath` of the
reader's path (= name trimmed, bit 7 cleared).  Core Lean only.
-/
set_option linter.unusedSimpArgs false
namespace A2Verif.Fs.Dos3x
open A2Verif.FsDos A2Verif.Read.Dos3x

/-- one byte of a stored name as `escaped_ascii_from_bytes(.., true, true)` prints it -/
def showByte (b : Nat) : Bytes :=
  if 0xA0 ≤ b ∧ b ≤ 0xFE ∧ b ≠ 0xDC then [b - 0x80] else [92, 120, hexDigit (b / 16 % 16), hexDigit (b % 16)]

/-- the catalog name of a file the reader lists under `p` (7-bit characters): printable characters as they are,
control characters, backslash and DEL as `\xHH` with bit 7 set -/
def renderPath (p : Bytes) : Bytes := p.flatMap (fun x => showByte (x + 128))

theorem fileNameToString_eq (fname : Bytes) :
    fileNameToString fname = ((fname.flatMap showByte).reverse.dropWhile (· == 32)).reverse := rfl

theorem hexDigit_ne (n : Nat) (h : n < 16) : hexDigit n ≠ 32 := by unfold hexDigit; split <;> omega

theorem showByte_last (b : Nat) (hb : b ≠ 0xA0) : ∃ x rest, (showByte b).reverse = x :: rest ∧ x ≠ 32 := by
  unfold showByte
  split
  · rename_i h
    exact ⟨b - 0x80, [], rfl, by omega⟩
  · exact ⟨hexDigit (b % 16), _, rfl, hexDigit_ne _ (Nat.mod_lt _ (by decide))⟩

theorem dropWhile_replicate_append (k : Nat) (l : Bytes) :
    (List.replicate k 32 ++ l).dropWhile (· == 32) = l.dropWhile (· == 32) := by
  induction k with
  | zero => rfl
  | succ k ih => rw [List.replicate_succ, List.cons_append, List.dropWhile_cons_of_pos (by rfl), ih]

theorem flatMap_showByte_pad (k : Nat) : (List.replicate k 0xA0).flatMap showByte = List.replicate k 32 := by
  induction k with
  | zero => rfl
  | succ k ih => rw [List.replicate_succ, List.flatMap_cons, ih]; rfl

/-- **the printed name is the rendered path** -/
theorem fileNameToString_path (nm : Bytes) (hb : ∀ x ∈ nm, 128 ≤ x ∧ x < 256) :
    fileNameToString nm = renderPath (pathOfName nm) := by
  obtain ⟨k, hk⟩ := trimName_pad nm
  have hT : ∀ x ∈ trimName nm, 128 ≤ x ∧ x < 256 := fun x hx => hb x (by rw [hk]; exact List.mem_append_left _ hx)
  -- the right-hand side
  have hr : renderPath (pathOfName nm) = (trimName nm).flatMap showByte := by
    unfold renderPath pathOfName
    rw [List.flatMap_map]
    apply flatMap_congr'
    intro b hb'
    have := hT b hb'
    have e : b % 128 + 128 = b := by omega
    rw [e]
  -- the left-hand side
  rw [hr, fileNameToString_eq]
  conv => lhs; rw [hk]
  rw [List.flatMap_append, flatMap_showByte_pad, List.reverse_append, List.reverse_replicate, dropWhile_replicate_append]
  -- the rendering of the trimmed name does not end in a blank
  have hrev : ((trimName nm).flatMap showByte).reverse = (nm.reverse.dropWhile (· == 0xA0)).flatMap (List.reverse ∘ showByte) := by
    rw [List.reverse_flatMap]
    unfold trimName
    rw [List.reverse_reverse]
  rw [hrev]
  have hnot := List.head?_dropWhile_not (· == 0xA0) nm.reverse
  cases hd : nm.reverse.dropWhile (· == 0xA0) with
  | nil =>
    have : trimName nm = [] := by unfold trimName; rw [hd]; rfl
    rw [this]; rfl
  | cons b rest =>
    rw [hd] at hnot
    have hb0 : b ≠ 0xA0 := by simpa using hnot
    obtain ⟨x, xs, hx, hx32⟩ := showByte_last b hb0
    have hd' : trimName nm = (b :: rest).reverse := by unfold trimName; rw [hd]
    rw [List.flatMap_cons, Function.comp, hx, List.cons_append, List.dropWhile_cons_of_neg (by simpa using hx32)]
    rw [← List.cons_append, ← hx, hd']
    have : (showByte b).reverse ++ List.flatMap (List.reverse ∘ showByte) rest = ((b :: rest).reverse.flatMap showByte).reverse := by
      rw [List.reverse_flatMap, List.reverse_reverse, List.flatMap_cons]; rfl
    rw [this, List.reverse_reverse]

end A2Verif.Fs.Dos3x
