import A2Verif.Lemmas.FsCpmCat1
import A2Verif.Lemmas.FsCpmQuery
/-!
# `catalog_to_vec` of the concrete CP/M model lists the files of the reading
-/
namespace A2Verif.FsCpm
open A2Verif.Fs.Cpm
open A2Verif.Read.Cpm (Dpb fileKey extNum entryPtrs pathOf slots trimR)

/-! ## `sortByKey` is a permutation -/

theorem insertByKey_perm (fi : FileInfo) : ∀ l : List FileInfo, (insertByKey fi l).Perm (fi :: l)
  | [] => List.Perm.refl _
  | g :: rest => by
    unfold insertByKey
    split
    · exact List.Perm.refl _
    · exact ((insertByKey_perm fi rest).cons g).trans (List.Perm.swap fi g rest)

theorem foldl_insert_perm : ∀ (l acc : List FileInfo), (l.foldl (fun acc fi => insertByKey fi acc) acc).Perm (l ++ acc)
  | [], acc => List.Perm.refl _
  | fi :: l, acc => by
    rw [List.foldl_cons]
    refine (foldl_insert_perm l (insertByKey fi acc)).trans ?_
    refine ((insertByKey_perm fi acc).append_left l).trans ?_
    exact List.perm_middle

theorem sortByKey_perm (files : List FileInfo) : (sortByKey files).Perm files := by
  unfold sortByKey
  have := foldl_insert_perm files []
  rwa [List.append_nil] at this

/-! ## the path of an entry depends on its key only -/

theorem pathOf_key {e1 e2 : Bytes} (l1 : e1.length = 32) (l2 : e2.length = 32) (h : fileKey e1 = fileKey e2) : pathOf e1 = pathOf e2 := by
  rw [key_split, key_split] at h
  simp only [List.cons.injEq] at h
  obtain ⟨hu, hnt⟩ := h
  obtain ⟨hn, ht⟩ := List.append_inj hnt (by rw [(fields_len l1).1, (fields_len l2).1])
  unfold Read.Cpm.pathOf
  unfold name7 at hn
  unfold typ7 at ht
  simp only []
  rw [hu, hn, ht]

/-- the name a catalog row shows, as a path: `u:NAME.TYP` rows (some file is not in user area 0) drop a `0:` prefix, the others
are `NAME` with the type in the first column -/
def rowPath (row : Bytes × Nat × Bytes) : Bytes :=
  if row.2.2.contains 58 then pathOfKeyStr row.2.2 else row.2.2 ++ [46] ++ row.1

/-- the reader key of the file whose entries carry the model key `k` -/
def keyOfStr (dir : Dir) (k : Bytes) : List Nat :=
  match dir.find? (fun e => isExtent e && modelKey e == k) with
  | some e => fileKey e
  | none => []

theorem keyOfStr_spec {dir : Dir} {k : Bytes} {e : Bytes} (he : e ∈ dir) (hx : isExtent e = true) (hk : modelKey e = k) :
    ∃ e', e' ∈ dir ∧ isExtent e' = true ∧ modelKey e' = k ∧ keyOfStr dir k = fileKey e' := by
  unfold keyOfStr
  cases hf : dir.find? (fun e => isExtent e && modelKey e == k) with
  | none =>
    rw [List.find?_eq_none] at hf
    have := hf e he
    simp [hx, hk] at this
  | some e' =>
    have hp := List.find?_some hf
    simp only [Bool.and_eq_true, beq_iff_eq] at hp
    exact ⟨e', List.mem_of_find?_eq_some hf, hp.1, hp.2, rfl⟩

/-- **`catalog_to_vec` is the listing of the reading**: the rows are, up to order, the files the independent reader lists — same
paths — and the block count of every row is the number of units the reader finds owned by that file -/
theorem catalog_spec {d : Dpb} {r : Raw} {rows : List (Bytes × Nat × Bytes)} (h : Inv d r) (hcat : catalog d r = .ok rows) :
    (rows.map rowPath).Perm (volOf d r).paths ∧
    ∀ row ∈ rows, ∃ f ∈ (volOf d r).files, f.path = rowPath row ∧ row.2.1 = f.owned.length := by
  have hl := dirOf_entry_length h.shape h.dpb
  unfold catalog at hcat
  rw [getDirectory_eq h.shape h.dpb] at hcat
  simp only [] at hcat
  cases hb : buildFiles d true (dirOf d r) with
  | error e => rw [hb] at hcat; cases hcat
  | ok files =>
    rw [hb] at hcat
    simp only [Except.ok.injEq] at hcat
    have hC := buildFiles_cinv hb
    -- per record
    have key : ∀ fi ∈ files, keyOfStr (dirOf d r) fi.key ∈ keys d r ∧
        (recOf r d (dirOf d r) (esOf d r (keyOfStr (dirOf d r) fi.key))).path =
          rowPath (fi.typ, fi.blocksAllocated, if files.any (fun fi => fi.user ≠ 0) then fi.key else fi.name) ∧
        fi.blocksAllocated = (recOf r d (dirOf d r) (esOf d r (keyOfStr (dirOf d r) fi.key))).owned.length := by
      intro fi hfi
      obtain ⟨⟨j, e, hj, hej, hx, hmk, huser, hname, htyp⟩, hblocks⟩ := hC.recs fi hfi
      have hem : e ∈ dirOf d r := List.mem_of_getElem? hej
      obtain ⟨e', he'm, hx', hmk', hkey'⟩ := keyOfStr_spec hem hx hmk
      have hf' : e' ∈ fents d r := mem_fents.2 ⟨he'm, (isExtent_iff e').1 hx'⟩
      have hf : e ∈ fents d r := mem_fents.2 ⟨hem, (isExtent_iff e).1 hx⟩
      have hK : keyOfStr (dirOf d r) fi.key ∈ keys d r := by rw [hkey']; exact mem_keys.2 ⟨e', hf', rfl⟩
      have hfk : fileKey e = fileKey e' :=
        (modelKey_iff (mem_fents.1 hf).2 (mem_fents.1 hf').2 (hl e hem) (hl e' he'm) (h.clean e hf) (h.clean e' hf')).1 (by rw [hmk, hmk'])
      obtain ⟨e0, rest, hes, hm0, hkey0⟩ := esOf_head hK
      have hpath0 : (recOf r d (dirOf d r) (esOf d r (keyOfStr (dirOf d r) fi.key))).path = pathOf e := by
        show pathOf ((esOf d r (keyOfStr (dirOf d r) fi.key)).headD []) = pathOf e
        rw [hes]
        simp only [List.headD_cons]
        exact pathOf_key (hl e0 (mem_fents.1 hm0).1) (hl e hem) (by rw [hkey0, hkey', hfk])
      refine ⟨hK, ?_, ?_⟩
      · rw [hpath0]
        have hcl := h.clean e hf
        have hu := (mem_fents.1 hf).2
        by_cases cm : files.any (fun fi => fi.user ≠ 0) = true
        · rw [if_pos cm]
          unfold rowPath
          simp only []
          have h58 : (fi.key.contains 58) = true := by
            rw [← hmk, modelKey_eq hcl]
            simp
          rw [if_pos h58, ← hmk]
          exact pathOf_modelKey hu hcl
        · rw [if_neg cm]
          have hu0 : e.getD 0 0 = 0 := by
            have : fi.user = 0 := by
              have hall : ∀ g ∈ files, g.user = 0 := by
                intro g hg
                by_cases c : g.user = 0
                · exact c
                · exfalso; apply cm; rw [List.any_eq_true]; exact ⟨g, hg, by simpa using c⟩
              exact hall fi hfi
            rw [huser] at this
            exact this
          have hn : fi.name = trimR (name7 e) := by
            rw [hname]
            unfold fileNameToSplitString
            simp only []
            rw [ext_name7, trimEnd_clean hcl.name]
          have ht : fi.typ = trimR (typ7 e) := by
            rw [htyp]
            unfold fileNameToSplitString
            simp only []
            rw [ext_typ7, trimEnd_clean hcl.typ]
          unfold rowPath
          simp only []
          have hno : (fi.name.contains 58) = false := by
            rw [hn]
            have := (clean_trim_not_mem hcl.name).2
            simpa using this
          rw [hno]
          simp only [Bool.false_eq_true, ↓reduceIte]
          rw [pathOf_eq hu, if_pos hu0, hn, ht]
      · rw [hblocks]
        -- the entries with the model key are the entries with the reader key
        have hfilter : (dirOf d r).filter (fun e'' => isExtent e'' && modelKey e'' == fi.key) = esOf d r (keyOfStr (dirOf d r) fi.key) := by
          unfold esOf fents fentsOf
          rw [List.filter_filter]
          apply List.filter_congr
          intro e'' he''
          rw [Bool.eq_iff_iff]
          simp only [Bool.and_eq_true, beq_iff_eq, decide_eq_true_eq]
          rw [isExtent_iff, hkey']
          constructor
          · rintro ⟨hu'', ck⟩
            have hf'' : e'' ∈ fents d r := mem_fents.2 ⟨he'', hu''⟩
            exact ⟨(modelKey_iff hu'' (mem_fents.1 hf').2 (hl e'' he'') (hl e' he'm) (h.clean e'' hf'') (h.clean e' hf')).1 (by rw [ck, hmk']), hu''⟩
          · rintro ⟨ck, hu''⟩
            have hf'' : e'' ∈ fents d r := mem_fents.2 ⟨he'', hu''⟩
            refine ⟨hu'', ?_⟩
            rw [(modelKey_iff hu'' (mem_fents.1 hf').2 (hl e'' he'') (hl e' he'm) (h.clean e'' hf'') (h.clean e' hf')).2 ck, hmk']
        unfold blocksUpTo
        rw [List.take_of_length_le (Nat.le_refl _), hfilter]
        show _ = ((esOf d r (keyOfStr (dirOf d r) fi.key)).flatMap (ownedE d)).length
        rw [List.length_flatMap]
        congr 1
        apply List.map_congr_left
        intro e'' he''
        unfold cntOf
        rw [blockList_eq (hl e'' (mem_fents.1 (mem_esOf.1 he'').1).1), ownedE_length]
    -- the records correspond to the reader's keys one to one
    have hnd : (files.map (fun fi => keyOfStr (dirOf d r) fi.key)).Nodup := by
      have hinj : ∀ a ∈ files, ∀ b ∈ files, keyOfStr (dirOf d r) a.key = keyOfStr (dirOf d r) b.key → a.key = b.key := by
        intro a ha b hb' hab
        obtain ⟨⟨_, ea, _, heja, hxa, hmka, _⟩, _⟩ := hC.recs a ha
        obtain ⟨⟨_, eb, _, hejb, hxb, hmkb, _⟩, _⟩ := hC.recs b hb'
        obtain ⟨ea', hma, hxa', hmka', hka⟩ := keyOfStr_spec (List.mem_of_getElem? heja) hxa hmka
        obtain ⟨eb', hmb, hxb', hmkb', hkb⟩ := keyOfStr_spec (List.mem_of_getElem? hejb) hxb hmkb
        rw [hka, hkb] at hab
        have hfa : ea' ∈ fents d r := mem_fents.2 ⟨hma, (isExtent_iff ea').1 hxa'⟩
        have hfb : eb' ∈ fents d r := mem_fents.2 ⟨hmb, (isExtent_iff eb').1 hxb'⟩
        have := (modelKey_iff (mem_fents.1 hfa).2 (mem_fents.1 hfb).2 (hl _ hma) (hl _ hmb) (h.clean _ hfa) (h.clean _ hfb)).2 hab
        rw [← hmka', ← hmkb', this]
      have hndk := hC.nodup
      rw [List.nodup_iff_pairwise_ne, List.pairwise_map] at hndk ⊢
      exact List.Pairwise.imp_of_mem (fun {a b} ha hb' hne hab => hne (hinj a ha b hb' hab)) hndk
    have hperm : (files.map (fun fi => keyOfStr (dirOf d r) fi.key)).Perm (keys d r) := by
      rw [List.perm_ext_iff_of_nodup hnd (keys_nodup d r)]
      intro K
      constructor
      · intro hK
        rw [List.mem_map] at hK
        obtain ⟨fi, hfi, rfl⟩ := hK
        exact (key fi hfi).1
      · intro hK
        obtain ⟨e, he, rfl⟩ := mem_keys.1 hK
        obtain ⟨j, hj, ej⟩ := List.mem_iff_getElem.1 (mem_fents.1 he).1
        have hgj : (dirOf d r)[j]? = some e := by rw [List.getElem?_eq_getElem hj, ej]
        have hx : isExtent e = true := (isExtent_iff e).2 (mem_fents.1 he).2
        obtain ⟨fi, hfi, hfk⟩ := hC.complete j e hj hgj hx
        rw [List.mem_map]
        refine ⟨fi, hfi, ?_⟩
        obtain ⟨e', he'm, hx', hmk', hkey'⟩ := keyOfStr_spec (List.mem_of_getElem? hgj) hx hfk.symm
        have hf' : e' ∈ fents d r := mem_fents.2 ⟨he'm, (isExtent_iff e').1 hx'⟩
        rw [hkey']
        exact (modelKey_iff (mem_fents.1 hf').2 (mem_fents.1 he).2 (hl _ he'm) (hl _ (mem_fents.1 he).1) (h.clean _ hf') (h.clean _ he)).1
          (by rw [hmk', hfk])
    subst hcat
    refine ⟨?_, ?_⟩
    · -- the paths
      have h1 : ((sortByKey files).map (fun fi => (fi.typ, fi.blocksAllocated, if files.any (fun fi => fi.user ≠ 0) then fi.key else fi.name))).map rowPath =
          (sortByKey files).map (fun fi => (recOf r d (dirOf d r) (esOf d r (keyOfStr (dirOf d r) fi.key))).path) := by
        rw [List.map_map]
        apply List.map_congr_left
        intro fi hfi
        exact ((key fi ((sortByKey_perm files).subset hfi)).2.1).symm
      rw [h1]
      refine ((sortByKey_perm files).map _).trans ?_
      have h2 : files.map (fun fi => (recOf r d (dirOf d r) (esOf d r (keyOfStr (dirOf d r) fi.key))).path) =
          (files.map (fun fi => keyOfStr (dirOf d r) fi.key)).map (fun k => (recOf r d (dirOf d r) (esOf d r k)).path) := by
        rw [List.map_map]; rfl
      rw [h2]
      have h3 : (volOf d r).paths = (keys d r).map (fun k => (recOf r d (dirOf d r) (esOf d r k)).path) := by
        show (filesOf d r).map (·.path) = _
        unfold filesOf
        rw [List.map_map]; rfl
      rw [h3]
      exact hperm.map _
    · intro row hrow
      rw [List.mem_map] at hrow
      obtain ⟨fi, hfi, rfl⟩ := hrow
      obtain ⟨k1, k2, k3⟩ := key fi ((sortByKey_perm files).subset hfi)
      exact ⟨_, List.mem_map_of_mem (f := fun k => recOf r d (dirOf d r) (esOf d r k)) k1, k2, k3⟩

end A2Verif.FsCpm
