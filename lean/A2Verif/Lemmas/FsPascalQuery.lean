import A2Verif.Lemmas.FsPascalAlloc
import A2Verif.Lemmas.FsPascalOps
/-!
# The queries of the concrete model agree with the reading: `get`, `stat`, `catalog`

Under the invariant, `get` returns exactly the record the independent reader finds under the upper-cased
name (type, length, every block), `stat`'s free count is the number of the reader's free units, and the
catalog lists exactly the reader's files, in directory order.  Core Lean only.
-/
namespace A2Verif.Fs.Pascal

theorem zip_map_self {α β : Type} (l : List α) (f : α → β) : l.zip (l.map f) = l.map (fun x => (x, f x)) := by
  induction l with
  | nil => rfl
  | cons x xs ih => simp [ih]

/-- a record the reader finds is the record of some live slot -/
theorem lookup_slot {r : Raw} {p : Bytes} {g : FileRec} (hg : (volOf r).lookup p = some g) :
    ∃ idx, ∃ (hi : idx < (liveEntries r).length), entryPath (liveEntries r)[idx] = p ∧ g = fileOf r (liveEntries r)[idx] := by
  obtain ⟨hm, hp⟩ := lookup_some hg
  rw [volOf_files] at hm
  obtain ⟨e, he, rfl⟩ := List.mem_map.1 hm
  obtain ⟨i, hi, rfl⟩ := List.mem_iff_getElem.1 he
  exact ⟨i, hi, hp, rfl⟩

/-- **`get` returns what the reader finds**: type, logical length and every block of the file -/
theorem get_spec {r : Raw} (h : Inv r) {name : Bytes} (hv : isNameValid name false = true) {g : FileRec}
    (hg : (volOf r).lookup (upper name) = some g) :
    ∃ m, get r name = .ok { fsType := g.ftype, eof := g.eof, chunks := g.chunks, modified := m } := by
  obtain ⟨idx, hi, hp, rfl⟩ := lookup_slot hg
  obtain ⟨hi2, hg1, hg2⟩ := live_getElem h hi
  have ok := h.d.live _ (List.getElem_mem hi)
  have hsz := h.d.total_size
  unfold get
  rw [if_neg (by simp [hv]), getFileEntry_some h hi hp]
  dsimp only
  rw [hg2]
  generalize (liveEntries r)[idx] = e at ok ⊢
  have hrb : readBlocks r ((List.range (Entry.endBlock e - Entry.beginBlock e)).map (· + Entry.beginBlock e)) =
      .ok (((List.range (le16 e 2 - le16 e 0)).map (· + le16 e 0)).map (fun i => (r.units[i]?).getD [])) := by
    apply readBlocks_ok
    intro i hi
    simp only [List.mem_map, List.mem_range] at hi
    obtain ⟨j, hj, rfl⟩ := hi
    have := ok.end_le
    unfold Entry.endBlock Entry.beginBlock at hj
    unfold Entry.beginBlock
    omega
  rw [hrb]
  dsimp only
  have hlen : (((List.range (le16 e 2 - le16 e 0)).map (· + le16 e 0)).map (fun i => (r.units[i]?).getD [])).length =
      le16 e 2 - le16 e 0 := by simp
  rw [hlen, if_neg (by unfold Entry.bytesRemaining; have := ok.rem_le; show ¬ (le16 e 22 > 512 * (le16 e 2 - le16 e 0)); omega)]
  refine ⟨Entry.modDate e, ?_⟩
  congr 2
  unfold fileOf
  simp only [List.map_map]
  rw [show ((fun i => (r.units[i]?).getD []) ∘ fun x => x + le16 e 0) = fun i => (r.units[i + le16 e 0]?).getD [] from rfl,
    zip_map_self]
  apply List.map_congr_left
  intro i _
  rw [Nat.add_comm]

/-- a name the reader does not list cannot be fetched -/
theorem get_missing {r : Raw} (h : Inv r) {name : Bytes} (hn : (volOf r).lookup (upper name) = none) :
    ∃ e, get r name = .error e := by
  unfold get
  by_cases hv : isNameValid name false = true
  · rw [if_neg (by simp [hv]), getFileEntry_none h (not_mem_paths_iff.2 hn)]
    exact ⟨_, rfl⟩
  · rw [if_pos (by simp [hv])]
    exact ⟨_, rfl⟩

/-! ## `stat` -/

theorem freeLoop_count (d : Dir) : ∀ (l : List Nat) (free count largest : Nat),
    (freeLoop d l (free, count, largest)).1 = free + (l.filter (fun b => isBlockFree b d)).length := by
  intro l
  induction l with
  | nil => intro f c g; rfl
  | cons b bs ih =>
    intro f c g
    unfold freeLoop
    by_cases hb : isBlockFree b d = true
    · rw [if_pos hb, ih, List.filter_cons, if_pos hb, List.length_cons]; omega
    · rw [if_neg hb, ih, List.filter_cons, if_neg hb]

/-- **`stat().free_blocks` is the number of units the reader finds free** -/
theorem statFree_spec {r : Raw} (h : Inv r) : statFree r = .ok (volOf r).free := by
  unfold statFree numFreeBlocks
  rw [getDirectory_inv h]
  dsimp only
  have := freeLoop_count { header := hdr r, entries := allEntries r } (List.range (total r)) 0 0 0
  rcases hfl : freeLoop { header := hdr r, entries := allEntries r } (List.range (Dir.totalBlocks { header := hdr r, entries := allEntries r })) (0, 0, 0) with ⟨fr, c, l⟩
  have e1 : Dir.totalBlocks { header := hdr r, entries := allEntries r } = total r := rfl
  rw [e1] at hfl
  rw [hfl] at this
  dsimp only at this ⊢
  rw [this, Nat.zero_add]
  congr 1
  show _ = ((Vol.range 0 (total r)).filter (fun u => !((volOf r).allOwned ++ (volOf r).sys).contains u)).length
  have hr : Vol.range 0 (total r) = List.range (total r) := by unfold Vol.range; simp
  rw [hr]
  congr 1
  apply List.filter_congr
  intro b hb
  have hb' : b < total r := List.mem_range.1 hb
  have key := isBlockFree_iff (r := r) b
  have hsys : ∀ u, u ∈ (volOf r).sys ↔ u < dirEnd r := by
    intro u
    show u ∈ Vol.range 0 (dirEnd r) ↔ _
    rw [mem_vrange]; omega
  by_cases hf : isBlockFree b { header := hdr r, entries := allEntries r } = true
  · rw [hf]
    obtain ⟨a, c⟩ := key.1 hf
    symm
    simp only [Bool.not_eq_true', List.contains_eq_mem, decide_eq_false_iff_not, List.mem_append, not_or, hsys,
      allOwned_volOf, mem_ownedOf]
    exact ⟨fun ⟨e, he, x⟩ => c e he x, by omega⟩
  · have hf' : isBlockFree b { header := hdr r, entries := allEntries r } = false := by simpa using hf
    rw [hf']
    symm
    simp only [Bool.not_eq_false', List.contains_eq_mem, decide_eq_true_eq, List.mem_append, hsys, allOwned_volOf, mem_ownedOf]
    by_cases hd : b < dirEnd r
    · exact Or.inr hd
    · left
      have : ¬ (dirEnd r ≤ b ∧ ∀ e ∈ liveEntries r, ¬ (le16 e 0 ≤ b ∧ b < le16 e 2)) := fun x => hf (key.2 x)
      rw [not_and] at this
      have hno := this (by omega)
      apply Classical.byContradiction
      intro hne
      apply hno
      intro e he x
      exact hne ⟨e, he, x⟩

/-! ## `catalog_to_vec` -/

theorem catalogLoop_dead {tot : Nat} : ∀ {l : List Bytes}, (∀ e ∈ l, le16 e 0 = 0) → catalogLoop tot l = .ok [] := by
  intro l
  induction l with
  | nil => intro _; rfl
  | cons e l ih =>
    intro h
    unfold catalogLoop
    have : Entry.beginBlock e = 0 := h e List.mem_cons_self
    rw [if_neg (by simp [this])]
    exact ih (fun x hx => h x (List.mem_cons_of_mem _ hx))

theorem catalogLoop_live {dEnd tot : Nat} (hd : 2 < dEnd) : ∀ {l rest : List Bytes}, (∀ e ∈ l, EntryOk dEnd tot e) →
    (∀ e ∈ rest, le16 e 0 = 0) →
    catalogLoop tot (l ++ rest) = .ok (l.map (fun e => (entryPath e, le16 e 2 - le16 e 0, e.getD 4 0))) := by
  intro l
  induction l with
  | nil => intro rest _ hr; exact catalogLoop_dead hr
  | cons e l ih =>
    intro rest hl hr
    have ok := hl e List.mem_cons_self
    rw [List.cons_append]
    unfold catalogLoop
    have hcond : (decide (Entry.beginBlock e ≠ 0) && decide (Entry.endBlock e > Entry.beginBlock e) &&
        decide (Entry.endBlock e ≤ tot)) = true := by
      unfold Entry.beginBlock Entry.endBlock
      have := ok.beg_ge; have := ok.beg_lt; have := ok.end_le
      simp only [Bool.and_eq_true, decide_eq_true_eq]
      omega
    rw [if_pos hcond, fileNameToString_ok ok]
    dsimp only
    rw [ih (fun x hx => hl x (List.mem_cons_of_mem _ hx)) hr]
    rfl

/-- **the catalog lists exactly the reader's files**, in directory order: name, blocks, type byte -/
theorem catalog_spec {r : Raw} (h : Inv r) :
    catalog r = .ok ((liveEntries r).map (fun e => (entryPath e, le16 e 2 - le16 e 0, e.getD 4 0))) := by
  unfold catalog
  rw [getDirectory_inv h]
  dsimp only
  have hsplit : allEntries r = liveEntries r ++ (allEntries r).drop (numFiles r) := (List.take_append_drop _ _).symm
  rw [hsplit]
  exact catalogLoop_live h.d.dirEnd_gt h.d.live h.d.dead

theorem catalog_names {r : Raw} (h : Inv r) : ∃ rows, catalog r = .ok rows ∧ rows.map (·.1) = (volOf r).paths := by
  refine ⟨_, catalog_spec h, ?_⟩
  unfold Vol.paths
  rw [paths_volOf, List.map_map]
  rfl

end A2Verif.Fs.Pascal
