import A2Verif.Lemmas.FsCpmRead
/-!
# The per-file part of the independent CP/M reader in closed form

`fileOf` (the body of the reader's `mapM`) runs two nested `for` loops with an early `throw`.  Here the loops are
turned into `foldlM`s of explicit step functions and evaluated: the reading of one file is either one of two
errors or the explicit record `recOf`.
-/
namespace A2Verif.FsCpm
open A2Verif.Read.Cpm

theorem forIn_eq_foldlM {α σ ε : Type} (f : α → σ → Except ε (ForInStep σ)) (g : σ → α → Except ε σ)
    (h : ∀ a s, f a s = (g s a).map ForInStep.yield) : ∀ (l : List α) (s : σ), forIn l s f = l.foldlM g s := by
  intro l
  induction l with
  | nil => intro s; rfl
  | cons a l ih =>
    intro s
    rw [List.forIn_cons, h, List.foldlM_cons]
    cases g s a with
    | error e => rfl
    | ok s' => exact ih s'

abbrev LoopSt := List (Nat × Bytes) × List Nat

/-- one step of the inner loop: pointer `p` in slot `j` of an entry describing physical extent `x` -/
def inStep (r : Raw) (d : Dpb) (x : Nat) (s : LoopSt) (pj : Nat × Nat) : Except String LoopSt :=
  if pj.1 ≠ 0 then
    if pj.1 ≥ d.dsm + 1 then .error "block-pointer-out-of-range"
    else match r.unit pj.1 "data-block" with
      | .error e => .error e
      | .ok data => .ok (s.1 ++ [(x * slots d + pj.2, data)], s.2 ++ [pj.1])
  else .ok s

/-- one step of the outer loop: one directory entry -/
def outStep (r : Raw) (d : Dpb) (s : LoopSt) (e : Bytes) : Except String LoopSt :=
  (entryPtrs d e).zipIdx.foldlM (inStep r d (extNum e / (d.exm + 1))) s

def lastOf (es : List Bytes) : Bytes :=
  es.foldl (fun (best : Bytes) e => if extNum e ≥ extNum best then e else best) (es.headD [])

def eofOf (last : Bytes) : Nat :=
  extNum last * 16384 + (if last.getD 15 0 = 0 then 0 else (min (last.getD 15 0) 128 - 1) * 128 + (if last.getD 13 0 = 0 then 128 else last.getD 13 0))

def pwOf (ents : List Bytes) (first : Bytes) : Bool :=
  ents.any (fun e => e.getD 0 0 = first.getD 0 0 + 16 ∧ (slice e 1 11).map (· % 128) == (slice first 1 11).map (· % 128))

/-- the record built from the entries `es` of one file once the loops have produced `(cs, own)` -/
def recWith (ents es : List Bytes) (s : LoopSt) : FileRec :=
  let first := es.headD []
  let ro := first.getD 9 0 ≥ 128
  { path := pathOf first, ftype := 0, access := (if ro then 1 else 0) + (if pwOf ents first then 2 else 0), locked := ro,
    eof := eofOf (lastOf es), chunks := s.1.mergeSort (fun a b => a.1 ≤ b.1), owned := s.2, aux := es.length }

def physOf (d : Dpb) (es : List Bytes) : List Nat := es.map (fun e => extNum e / (d.exm + 1))

theorem fileOf_eq (r : Raw) (d : Dpb) (ents fents : List Bytes) (k : List Nat) :
    fileOf r d ents fents k =
      let es := fents.filter (fun e => fileKey e == k)
      if (physOf d es).eraseDups.length ≠ (physOf d es).length then .error "duplicate-extent-number"
      else match es.foldlM (outStep r d) ([], []) with
        | .error e => .error e
        | .ok s => .ok (recWith ents es s) := by
  unfold fileOf
  simp only []
  have hin : ∀ (e : Bytes) (s : LoopSt),
      (forIn (entryPtrs d e).zipIdx s fun x __s =>
          if x.fst ≠ 0 then
            if x.fst ≥ d.dsm + 1 then (do
              let __r ← (throw "block-pointer-out-of-range" : Except String PUnit)
              let data ← r.unit x.fst "data-block"
              pure (ForInStep.yield (__s.fst ++ [(extNum e / (d.exm + 1) * slots d + x.snd, data)], __s.snd ++ [x.fst])))
            else (do
              let data ← r.unit x.fst "data-block"
              pure (ForInStep.yield (__s.fst ++ [(extNum e / (d.exm + 1) * slots d + x.snd, data)], __s.snd ++ [x.fst])))
          else pure (ForInStep.yield (__s.fst, __s.snd))) = outStep r d s e := by
    intro e s
    unfold outStep
    apply forIn_eq_foldlM
    rintro ⟨p, j⟩ ⟨cs, own⟩
    unfold inStep
    by_cases c1 : p ≠ 0
    · by_cases c2 : p ≥ d.dsm + 1
      · simp only [c1, c2, ↓reduceIte, ne_eq, not_false_eq_true]; rfl
      · simp only [c1, c2, ↓reduceIte, ne_eq, not_false_eq_true]
        cases r.unit p "data-block" <;> rfl
    · simp only [c1, ↓reduceIte]; rfl
  have hout : ∀ (es : List Bytes) (s : LoopSt),
      (forIn es s fun e __s => do
          let __s ←
            forIn (entryPtrs d e).zipIdx (__s.fst, __s.snd) fun x __s =>
                if x.fst ≠ 0 then
                  if x.fst ≥ d.dsm + 1 then (do
                    let __r ← (throw "block-pointer-out-of-range" : Except String PUnit)
                    let data ← r.unit x.fst "data-block"
                    pure (ForInStep.yield (__s.fst ++ [(extNum e / (d.exm + 1) * slots d + x.snd, data)], __s.snd ++ [x.fst])))
                  else (do
                    let data ← r.unit x.fst "data-block"
                    pure (ForInStep.yield (__s.fst ++ [(extNum e / (d.exm + 1) * slots d + x.snd, data)], __s.snd ++ [x.fst])))
                else pure (ForInStep.yield (__s.fst, __s.snd))
          pure (ForInStep.yield (__s.fst, __s.snd))) = es.foldlM (outStep r d) s := by
    intro es s
    apply forIn_eq_foldlM
    intro e s
    rw [hin e (s.fst, s.snd)]
    cases outStep r d (s.fst, s.snd) e <;> rfl
  rw [hout]
  by_cases c : (List.map (fun e => extNum e / (d.exm + 1)) (List.filter (fun e => fileKey e == k) fents)).eraseDups.length ≠
          (List.map (fun e => extNum e / (d.exm + 1)) (List.filter (fun e => fileKey e == k) fents)).length
  · have c' : (physOf d (List.filter (fun e => fileKey e == k) fents)).eraseDups.length ≠
        (physOf d (List.filter (fun e => fileKey e == k) fents)).length := c
    rw [if_pos c, if_pos c']; rfl
  · have c' : ¬ (physOf d (List.filter (fun e => fileKey e == k) fents)).eraseDups.length ≠
        (physOf d (List.filter (fun e => fileKey e == k) fents)).length := c
    rw [if_neg c, if_neg c']
    cases List.foldlM (outStep r d) ([], []) (List.filter (fun e => fileKey e == k) fents) <;> rfl

/-! ## the loops, evaluated -/

def blkOf (r : Raw) (i : Nat) : Bytes := (r.units[i]?).getD []

/-- (pointer, slot) pairs of an entry that point somewhere -/
def nzPtrs (d : Dpb) (e : Bytes) : List (Nat × Nat) := (entryPtrs d e).zipIdx.filter (fun pj => pj.1 ≠ 0)
def ownedE (d : Dpb) (e : Bytes) : List Nat := (nzPtrs d e).map (·.1)
def chunksE (r : Raw) (d : Dpb) (e : Bytes) : List (Nat × Bytes) :=
  (nzPtrs d e).map (fun pj => (extNum e / (d.exm + 1) * slots d + pj.2, blkOf r pj.1))
def ptrsOkB (d : Dpb) (e : Bytes) : Bool := (entryPtrs d e).all (fun p => decide (p < d.dsm + 1))

theorem unit_blkOf {r : Raw} {i : Nat} {who : String} (h : i < r.units.size) : r.unit i who = .ok (blkOf r i) := by
  have : r.units[i]? = some r.units[i] := Array.getElem?_eq_getElem h
  unfold Raw.unit blkOf
  rw [this]; rfl

theorem inFold {r : Raw} {d : Dpb} (hsz : r.units.size = d.dsm + 1) (x : Nat) : ∀ (l : List (Nat × Nat)) (s : LoopSt),
    l.foldlM (inStep r d x) s =
      bif l.all (fun pj => decide (pj.1 < d.dsm + 1)) then
        .ok (s.1 ++ (l.filter (fun pj => pj.1 ≠ 0)).map (fun pj => (x * slots d + pj.2, blkOf r pj.1)),
             s.2 ++ (l.filter (fun pj => pj.1 ≠ 0)).map (·.1))
      else .error "block-pointer-out-of-range" := by
  intro l
  induction l with
  | nil => intro s; simp [List.foldlM_nil, pure, Except.pure]
  | cons pj l ih =>
    intro s
    obtain ⟨p, j⟩ := pj
    rw [List.foldlM_cons, List.all_cons]
    by_cases c1 : p ≠ 0
    · by_cases c2 : p ≥ d.dsm + 1
      · have hq : decide ((p, j).1 < d.dsm + 1) = false := decide_eq_false (by show ¬ p < d.dsm + 1; omega)
        have hstep : inStep r d x s (p, j) = .error "block-pointer-out-of-range" := by
          unfold inStep; rw [if_pos c1, if_pos c2]
        rw [hstep, hq, Bool.false_and]
        rfl
      · have hq : decide ((p, j).1 < d.dsm + 1) = true := decide_eq_true (by show p < d.dsm + 1; omega)
        have hstep : inStep r d x s (p, j) = .ok (s.1 ++ [(x * slots d + j, blkOf r p)], s.2 ++ [p]) := by
          unfold inStep; rw [if_pos c1, if_neg c2, unit_blkOf (by rw [hsz]; omega)]
        rw [hstep, hq, Bool.true_and]
        show l.foldlM (inStep r d x) _ = _
        rw [ih, List.filter_cons_of_pos (by simpa using c1)]
        simp only [List.map_cons, List.append_assoc, List.singleton_append]
    · have c0 : p = 0 := by simpa using c1
      have hq : decide ((p, j).1 < d.dsm + 1) = true := decide_eq_true (by show p < d.dsm + 1; omega)
      have hstep : inStep r d x s (p, j) = .ok s := by
        unfold inStep; rw [if_neg c1]
      rw [hstep, hq, Bool.true_and]
      show l.foldlM (inStep r d x) _ = _
      rw [ih, List.filter_cons_of_neg (by simpa using c0)]

theorem zipIdx_all_fst {α : Type} (q : α → Bool) : ∀ (l : List α) (n : Nat), (l.zipIdx n).all (fun pj => q pj.1) = l.all q
  | [], _ => rfl
  | a :: l, n => by rw [List.zipIdx_cons, List.all_cons, List.all_cons, zipIdx_all_fst q l (n + 1)]

theorem outStep_eq {r : Raw} {d : Dpb} (hsz : r.units.size = d.dsm + 1) (s : LoopSt) (e : Bytes) :
    outStep r d s e = bif ptrsOkB d e then .ok (s.1 ++ chunksE r d e, s.2 ++ ownedE d e) else .error "block-pointer-out-of-range" := by
  unfold outStep
  rw [inFold hsz, zipIdx_all_fst (fun p => decide (p < d.dsm + 1))]
  rfl

theorem outFold {r : Raw} {d : Dpb} (hsz : r.units.size = d.dsm + 1) : ∀ (es : List Bytes) (s : LoopSt),
    es.foldlM (outStep r d) s =
      bif es.all (ptrsOkB d) then .ok (s.1 ++ es.flatMap (chunksE r d), s.2 ++ es.flatMap (ownedE d))
      else .error "block-pointer-out-of-range" := by
  intro es
  induction es with
  | nil => intro s; simp [List.foldlM_nil, pure, Except.pure]
  | cons e es ih =>
    intro s
    rw [List.foldlM_cons, outStep_eq hsz, List.all_cons]
    cases c : ptrsOkB d e with
    | true =>
      rw [cond_true, Bool.true_and]
      show es.foldlM (outStep r d) _ = _
      rw [ih]
      simp only [List.flatMap_cons, List.append_assoc]
    | false =>
      rw [cond_false, Bool.false_and]
      rfl

/-- the record the reader builds from the entries `es` of one file -/
def recOf (r : Raw) (d : Dpb) (ents es : List Bytes) : FileRec :=
  recWith ents es (es.flatMap (chunksE r d), es.flatMap (ownedE d))

def dupFree (d : Dpb) (es : List Bytes) : Prop := (physOf d es).eraseDups.length = (physOf d es).length

instance (d : Dpb) (es : List Bytes) : Decidable (dupFree d es) := by unfold dupFree; infer_instance

/-- the reading of one file, in closed form -/
theorem fileOf_closed {r : Raw} {d : Dpb} (hsz : r.units.size = d.dsm + 1) (ents fents : List Bytes) (k : List Nat) :
    fileOf r d ents fents k =
      if ¬ dupFree d (fents.filter (fun e => fileKey e == k)) then .error "duplicate-extent-number"
      else if (fents.filter (fun e => fileKey e == k)).all (ptrsOkB d) then .ok (recOf r d ents (fents.filter (fun e => fileKey e == k)))
      else .error "block-pointer-out-of-range" := by
  rw [fileOf_eq]
  simp only []
  by_cases c : dupFree d (fents.filter (fun e => fileKey e == k))
  · have c' : ¬ (physOf d (fents.filter (fun e => fileKey e == k))).eraseDups.length ≠ (physOf d (fents.filter (fun e => fileKey e == k))).length := by
      intro h; exact h c
    rw [if_neg c', if_neg (by simpa using c), outFold hsz]
    cases c2 : (fents.filter (fun e => fileKey e == k)).all (ptrsOkB d) with
    | true =>
      rw [cond_true]
      simp only [List.nil_append]
      rfl
    | false => rw [cond_false]; rfl
  · have c' : (physOf d (fents.filter (fun e => fileKey e == k))).eraseDups.length ≠ (physOf d (fents.filter (fun e => fileKey e == k))).length := c
    rw [if_pos c', if_pos c]

/-! ## `mapM` in `Except` -/

theorem mapM_ok_of {α β : Type} {g : α → Except String β} {f : α → β} : ∀ {l : List α}, (∀ k ∈ l, g k = .ok (f k)) →
    l.mapM g = .ok (l.map f)
  | [], _ => rfl
  | a :: l, h => by
    rw [List.mapM_cons, h a List.mem_cons_self, mapM_ok_of (fun k hk => h k (List.mem_cons_of_mem _ hk))]
    rfl

theorem mapM_ok_all {α β : Type} {g : α → Except String β} : ∀ {l : List α} {v : List β}, l.mapM g = .ok v →
    ∀ k ∈ l, ∃ y, g k = .ok y
  | [], _, _ => fun k hk => by cases hk
  | a :: l, v, h => by
    rw [List.mapM_cons] at h
    cases hg : g a with
    | error e => rw [hg] at h; cases h
    | ok y =>
      rw [hg] at h
      cases hl : l.mapM g with
      | error e => rw [hl] at h; cases h
      | ok ys =>
        intro k hk
        rcases List.mem_cons.1 hk with rfl | hk
        · exact ⟨y, hg⟩
        · exact mapM_ok_all hl k hk

end A2Verif.FsCpm
