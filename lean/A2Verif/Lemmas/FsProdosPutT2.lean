import A2Verif.Lemmas.FsProdosPutT1
/-!
# `write_file`: the loop invariant for tree files

`GroupOk f r Al j ip ptrs`: group `j` of the file (chunks `256 j … 256 j + |ptrs| - 1`) has index block `ip` (0: none, the group
has only holes so far) holding the pointers `ptrs`; the data blocks hold the chunks.  `TreeInv`: the finished groups `G`, the
current group, the master index block.  `ownedOf`: the blocks of a list of groups in the order the reader lists them.
-/
namespace A2Verif.FsProdos
open A2Verif.Fs.Prodos
open A2Verif.Read.Prodos (entryAt dirChain idxPtr indexEntries readData trimName)

def grpOwned (q : Nat × List Nat) : List Nat := if q.1 = 0 then [] else q.1 :: q.2.filter (· ≠ 0)

def ownedOf (G : List (Nat × List Nat)) : List Nat := G.flatMap grpOwned

theorem ownedOf_append (G H : List (Nat × List Nat)) : ownedOf (G ++ H) = ownedOf G ++ ownedOf H := by
  unfold ownedOf; rw [List.flatMap_append]

theorem ownedOf_single (q : Nat × List Nat) : ownedOf [q] = grpOwned q := by
  unfold ownedOf; simp

structure GroupOk (f : FImg) (r : Raw) (Al : List Nat) (j ip : Nat) (ptrs : List Nat) : Prop where
  zero : ip = 0 → ∀ x ∈ ptrs, x = 0
  ipal : ip ≠ 0 → ip ∈ Al
  blk : ip ≠ 0 → IdxIs (unitAt r ip) ptrs
  pal : ∀ x ∈ ptrs, x ≠ 0 → x ∈ Al
  dat : ∀ k, k < ptrs.length → ∀ data, f.chunks.lookup (256 * j + k) = some data →
    ptrs.getD k 0 ≠ 0 ∧ unitAt r (ptrs.getD k 0) = quantize (data.take blockSize)
  hole : ∀ k, k < ptrs.length → f.chunks.lookup (256 * j + k) = none → ptrs.getD k 0 = 0

theorem getD_mem_of_lt (P : List Nat) (k : Nat) (h : k < P.length) : P.getD k 0 ∈ P := by
  simp only [List.getD_eq_getElem?_getD]
  rw [List.getElem?_eq_getElem h]
  exact List.getElem_mem _

/-- a group whose blocks are untouched stays as it is -/
theorem GroupOk.mono {f : FImg} {r r' : Raw} {Al Al' : List Nat} {j ip : Nat} {ptrs : List Nat} (h : GroupOk f r Al j ip ptrs)
    (hAl : ∀ x ∈ Al, x ∈ Al') (hu : ∀ x ∈ grpOwned (ip, ptrs), unitAt r' x = unitAt r x) : GroupOk f r' Al' j ip ptrs := by
  refine ⟨h.zero, fun h0 => hAl _ (h.ipal h0), ?_, fun x hx h0 => hAl _ (h.pal x hx h0), ?_, h.hole⟩
  · intro h0
    rw [hu ip (by unfold grpOwned; rw [if_neg h0]; exact List.mem_cons_self)]
    exact h.blk h0
  · intro k hk data hl
    obtain ⟨h1, h2⟩ := h.dat k hk data hl
    refine ⟨h1, ?_⟩
    have hip : ip ≠ 0 := fun e => h1 (h.zero e _ (getD_mem_of_lt _ _ hk))
    rw [hu _ (by
      unfold grpOwned; rw [if_neg hip]
      exact List.mem_cons_of_mem _ (List.mem_filter.mpr ⟨getD_mem_of_lt _ _ hk, by simpa using h1⟩))]
    exact h2

/-- trailing zeros do not matter -/
theorem idxIs_append_zero {buf : Bytes} {ptrs : List Nat} (h : IdxIs buf ptrs) : IdxIs buf (ptrs ++ [0]) := by
  refine ⟨h.len, h.bytes, ?_⟩
  intro k hk
  rw [h.ptr k hk]
  simp only [List.getD_eq_getElem?_getD]
  by_cases hkl : k < ptrs.length
  · rw [List.getElem?_append_left hkl]
  · rw [List.getElem?_eq_none (by omega)]
    by_cases hke : k = ptrs.length
    · subst hke; rw [List.getElem?_append_right (Nat.le_refl _)]; simp
    · rw [List.getElem?_eq_none (by simp; omega)]

theorem idxIs_of_getD {buf : Bytes} {p q : List Nat} (h : IdxIs buf p) (he : ∀ k, k < 256 → q.getD k 0 = p.getD k 0) : IdxIs buf q :=
  ⟨h.len, h.bytes, fun k hk => by rw [h.ptr k hk, he k hk]⟩

/-- `pack_index_ptr(buf, ptr, n)` on the last slot written: the pointer there is replaced -/
theorem pack_last (buf : Bytes) (A : List Nat) (x p : Nat) (h : IdxIs buf (A ++ [x])) (hn : A.length < 256) (hp : p < 65536) :
    ∃ buf', packIndexPtr buf p A.length = some buf' ∧ IdxIs buf' (A ++ [p]) := by
  have hlt : A.length + 256 < buf.length := by rw [h.len]; omega
  refine ⟨splice (splice buf A.length [p % 256]) (A.length + 256) [p / 256 % 256], by unfold packIndexPtr; rw [if_pos hlt], ?_⟩
  have hl1 : (splice buf A.length [p % 256]).length = 512 := by rw [splice_length _ _ _ (by simp; omega), h.len]
  have hg : ∀ j, (splice (splice buf A.length [p % 256]) (A.length + 256) [p / 256 % 256]).getD j 0 =
      if j = A.length + 256 then p / 256 % 256 else if j = A.length then p % 256 else buf.getD j 0 := by
    intro j
    rw [getD_splice _ _ _ j (by simp; omega)]
    by_cases h1 : j = A.length + 256
    · subst h1; simp
    · rw [if_neg (by simp; omega), if_neg h1, getD_splice _ _ _ j (by simp; omega)]
      by_cases h2 : j = A.length
      · subst h2; simp
      · rw [if_neg (by simp; omega), if_neg h2]
  refine ⟨by rw [splice_length _ _ _ (by simp; omega), hl1], ?_, ?_⟩
  · apply splice_bytes _ _ _ (splice_bytes _ _ _ h.bytes (by intro x hx; simp at hx; omega)) (by intro x hx; simp at hx; omega)
  · intro k hk
    unfold idxPtr
    rw [hg k, hg (256 + k)]
    by_cases hkn : k = A.length
    · subst hkn
      rw [if_neg (by omega), if_pos rfl, if_pos (by omega)]
      simp only [List.getD_eq_getElem?_getD, List.getElem?_append_right (Nat.le_refl _), Nat.sub_self]
      simp
      omega
    · rw [if_neg (by omega), if_neg hkn, if_neg (by omega), if_neg (by omega)]
      have := h.ptr k hk
      unfold idxPtr at this
      rw [this]
      simp only [List.getD_eq_getElem?_getD]
      by_cases hkl : k < A.length
      · rw [List.getElem?_append_left hkl, List.getElem?_append_left hkl]
      · rw [List.getElem?_eq_none (by simp; omega), List.getElem?_eq_none (by simp; omega)]

/-- the bookkeeping of owned blocks when blocks are taken and appended to the reader's list -/
theorem own_step {M : Nat} {O O' Al Al' news : List Nat} (hnd : (M :: O).Nodup) (hiff : ∀ x, x ∈ M :: O ↔ x ∈ Al)
    (hlen : Al.length = O.length + 1) (hAl' : Al' = Al ++ news) (hnd' : Al'.Nodup) (hO' : O' = O ++ news) :
    (M :: O').Nodup ∧ (∀ x, x ∈ M :: O' ↔ x ∈ Al') ∧ Al'.length = O'.length + 1 := by
  subst hAl'; subst hO'
  rw [List.nodup_append] at hnd'
  obtain ⟨_, hn2, hn3⟩ := hnd'
  refine ⟨?_, ?_, by rw [List.length_append, List.length_append, hlen]; omega⟩
  · rw [← List.cons_append, List.nodup_append]
    refine ⟨hnd, hn2, ?_⟩
    intro x hx y hy e
    exact hn3 x ((hiff x).mp hx) y hy e
  · intro x
    rw [← List.cons_append, List.mem_append, List.mem_append, hiff x]

/-- the loop invariant while the file is a tree, before round `c`: finished groups `G`, current group with pointers `P` -/
structure TreeInv (f : FImg) (d2 : Disk) (bm cnt : Nat) (e0 : Bytes) (c : Nat) (s : WS) (dc : Disk) (Al : List Nat)
    (G : List (Nat × List Nat)) (P : List Nat) : Prop where
  a : AState d2 bm cnt dc Al
  st : s.storage = stTree
  gl : G.length = s.masterCount
  cc : c = 256 * s.masterCount + s.indexCount
  mc1 : 1 ≤ s.masterCount
  icr : s.indexCount ≤ 256
  plen : P.length = s.indexCount
  gfin : ∀ j (h : j < G.length), G[j].2.length = 256 ∧ GroupOk f dc.raw Al j G[j].1 G[j].2
  gcur : GroupOk f dc.raw Al s.masterCount s.indexPtr P
  /-- the current group has an index block only if it has a chunk -/
  csome : s.indexPtr ≠ 0 → ∃ k, k < P.length ∧ hasChunk f (256 * s.masterCount + k) = true
  ibuf : IdxIs s.indexBuf P
  iblk : s.indexPtr ≠ 0 → unitAt dc.raw s.indexPtr = s.indexBuf
  mbuf : IdxIs s.masterBuf (G.map (·.1) ++ [s.indexPtr])
  mblk : unitAt dc.raw s.masterPtr = s.masterBuf
  ent : EFacts e0 s.entry 3 s.masterPtr Al.length
  own : (s.masterPtr :: ownedOf (G ++ [(s.indexPtr, P)])).Nodup
  ownAl : ∀ x, x ∈ s.masterPtr :: ownedOf (G ++ [(s.indexPtr, P)]) ↔ x ∈ Al
  olen : Al.length = (ownedOf (G ++ [(s.indexPtr, P)])).length + 1
  acount : Al.length = allocCount f c
  c256 : 256 < c

/-- a full group is closed and an empty one begun (the first lines of a tree round when `index_count > 255`) -/
theorem tree_norm {f : FImg} {d2 : Disk} {bm cnt : Nat} {e0 : Bytes} {c : Nat} {s : WS} {dc : Disk} {Al : List Nat}
    {G : List (Nat × List Nat)} {P : List Nat} (inv : TreeInv f d2 bm cnt e0 c s dc Al G P) (h : s.indexCount = 256) :
    TreeInv f d2 bm cnt e0 c
      { s with masterCount := s.masterCount + 1, indexPtr := 0, indexCount := 0, indexBuf := zeros blockSize } dc Al
      (G ++ [(s.indexPtr, P)]) [] := by
  have hown : ownedOf ((G ++ [(s.indexPtr, P)]) ++ [((0 : Nat), ([] : List Nat))]) = ownedOf (G ++ [(s.indexPtr, P)]) := by
    rw [ownedOf_append, ownedOf_single]; unfold grpOwned; simp
  refine ⟨inv.a, inv.st, by rw [List.length_append, inv.gl]; rfl, by rw [inv.cc, h]; show _ = 256 * (s.masterCount + 1) + 0; omega,
    by show 1 ≤ s.masterCount + 1; omega, by show 0 ≤ 256; omega, rfl, ?_, ?_, fun h0 => absurd rfl h0, idxIs_zeros, fun h0 => absurd rfl h0, ?_, inv.mblk, inv.ent,
    by rw [hown]; exact inv.own, by rw [hown]; exact inv.ownAl, by rw [hown]; exact inv.olen, inv.acount, inv.c256⟩
  · intro j hj
    rw [List.length_append, List.length_singleton] at hj
    by_cases hjl : j < G.length
    · rw [List.getElem_append_left hjl]; exact inv.gfin j hjl
    · have hje : j = G.length := by omega
      subst hje
      rw [List.getElem_append_right (Nat.le_refl _)]
      simp only [Nat.sub_self, List.getElem_cons_zero]
      refine ⟨by rw [inv.plen, h], ?_⟩
      rw [inv.gl]; exact inv.gcur
  · exact ⟨fun _ x hx => (by cases hx), fun h0 => absurd rfl h0, fun h0 => absurd rfl h0, fun x hx => (by cases hx),
      fun k hk => (by simp at hk), fun k hk => (by simp at hk)⟩
  · show IdxIs s.masterBuf ((G ++ [(s.indexPtr, P)]).map (·.1) ++ [0])
    rw [List.map_append]
    exact idxIs_append_zero inv.mbuf

theorem TreeInv.opened {f : FImg} {d2 : Disk} {bm cnt : Nat} {e0 : Bytes} {c : Nat} {s : WS} {dc dn : Disk} {Al : List Nat}
    {G : List (Nat × List Nat)} {P : List Nat} (h : TreeInv f d2 bm cnt e0 c s dc Al G P) (an : AState d2 bm cnt dn Al)
    (hraw : dn.raw = dc.raw) : TreeInv f d2 bm cnt e0 c s dn Al G P :=
  ⟨an, h.st, h.gl, h.cc, h.mc1, h.icr, h.plen, fun j hj => by rw [hraw]; exact h.gfin j hj, by rw [hraw]; exact h.gcur, h.csome, h.ibuf,
    fun h0 => by rw [hraw]; exact h.iblk h0, h.mbuf, by rw [hraw]; exact h.mblk, h.ent, h.own, h.ownAl, h.olen, h.acount, h.c256⟩

/-- the blocks the rounds up to `c` take, one round on (tree rounds) -/
theorem allocCount_succ_tree (f : FImg) (c : Nat) (hc : 256 < c) :
    allocCount f (c + 1) = allocCount f c + (if hasChunk f c = true then 1 else 0) +
      (if hasChunk f c = true ∧ c / 256 ∉ grp f c then 1 else 0) := by
  unfold allocCount
  rw [if_pos (by omega), if_pos (by omega), if_pos (by omega), if_pos (by omega), dataCount_succ, grp_succ]
  by_cases hh : hasChunk f c = true
  · rw [if_pos (show 256 ≤ c ∧ hasChunk f c = true from ⟨by omega, hh⟩), distinctCount_append_single]
    by_cases hm : c / 256 ∈ grp f c
    · simp only [hh, hm, ↓reduceIte, not_true_eq_false, and_false]; omega
    · simp only [hh, hm, ↓reduceIte, not_false_eq_true, and_self]; omega
  · rw [if_neg (show ¬ (256 ≤ c ∧ hasChunk f c = true) from fun h => hh h.2), List.append_nil]
    simp only [hh, Bool.false_eq_true, ↓reduceIte, false_and]
    omega

end A2Verif.FsProdos
