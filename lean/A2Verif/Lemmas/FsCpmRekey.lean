import A2Verif.Lemmas.FsCpmModify
/-!
# Rewriting the entries of one file so that its key changes (`rename`)
-/
namespace A2Verif.FsCpm
open A2Verif.Fs.Cpm
open A2Verif.Read.Cpm (Dpb fileKey extNum entryPtrs pathOf slots)

theorem eraseDups_map_inj {α β : Type} [BEq α] [LawfulBEq α] [BEq β] [LawfulBEq β] (ρ : α → β) : ∀ (n : Nat) (l : List α), l.length ≤ n →
    (∀ a ∈ l, ∀ b ∈ l, ρ a = ρ b → a = b) → (l.map ρ).eraseDups = l.eraseDups.map ρ := by
  intro n
  induction n with
  | zero => intro l h _; cases l with
    | nil => simp
    | cons a l => simp at h
  | succ n ih =>
    intro l h hinj
    cases l with
    | nil => simp
    | cons a l =>
      rw [List.map_cons, List.eraseDups_cons, List.eraseDups_cons, List.map_cons]
      congr 1
      have hf : (l.map ρ).filter (fun b => !b == ρ a) = (l.filter (fun b => !b == a)).map ρ := by
        rw [List.filter_map]
        congr 1
        apply List.filter_congr
        intro x hx
        show (!(ρ x == ρ a)) = (!(x == a))
        by_cases c : x = a
        · simp [c]
        · have : ρ x ≠ ρ a := fun e => c (hinj x (List.mem_cons_of_mem _ hx) a List.mem_cons_self e)
          have h1 : (ρ x == ρ a) = false := by simpa using this
          have h2 : (x == a) = false := by simpa using c
          rw [h1, h2]
      rw [hf]
      apply ih
      · have := List.length_filter_le (fun b => !b == a) l
        simp at h; omega
      · intro x hx y hy
        exact hinj x (List.mem_cons_of_mem _ (List.mem_filter.1 hx).1) y (List.mem_cons_of_mem _ (List.mem_filter.1 hy).1)

/-- an entry transformer that keeps everything from offset 12 on, keeps file entries file entries and clean, and maps keys by `ρ` -/
structure Rekeys (d : Dpb) (r : Raw) (φ : Bytes → Bytes) (ρ : List Nat → List Nat) : Prop where
  tail : ∀ e ∈ dirOf d r, SameTail e (φ e)
  file : ∀ e ∈ dirOf d r, e.getD 0 0 < 16 → (φ e).getD 0 0 < 16
  nonfile : ∀ e, ¬ e.getD 0 0 < 16 → φ e = e
  key : ∀ e ∈ fents d r, fileKey (φ e) = ρ (fileKey e)
  inj : ∀ a ∈ keys d r, ∀ b ∈ keys d r, ρ a = ρ b → a = b
  clean : ∀ e ∈ fents d r, CleanEntry (φ e)

/-- the reading after every directory entry has been passed through a key-changing transformer -/
theorem rekey_spec {d : Dpb} {r r' : Raw} (h : Inv d r) (φ : Bytes → Bytes) (ρ : List Nat → List Nat) (rk : Rekeys d r φ ρ)
    (hs' : Shape d r') (hfr : ∀ i, dirBlocks d ≤ i → r'.units[i]? = r.units[i]?) (hd' : dirOf d r' = (dirOf d r).map φ) :
    Inv d r' ∧ filesOf d r' = (keys d r).map (fun k => recOf r d (dirOf d r) ((esOf d r k).map φ)) := by
  have hl := dirOf_entry_length h.shape h.dpb
  have hmf : ∀ e ∈ fents d r, e ∈ dirOf d r := fun e he => (mem_fents.1 he).1
  have hf : fents d r' = (fents d r).map φ := by
    unfold fents fentsOf
    rw [hd', List.filter_map]
    congr 1
    apply List.filter_congr
    intro e he
    show decide ((φ e).getD 0 0 < 16) = decide (e.getD 0 0 < 16)
    by_cases c : e.getD 0 0 < 16
    · rw [decide_eq_true c, decide_eq_true (rk.file e he c)]
    · rw [rk.nonfile e c]
  have hk : keys d r' = (keys d r).map ρ := by
    unfold keys keysOf
    rw [hf, List.map_map]
    have : (fents d r).map (fileKey ∘ φ) = ((fents d r).map fileKey).map ρ := by
      rw [List.map_map]
      apply List.map_congr_left
      intro e he
      simp only [Function.comp, rk.key e he]
    rw [this]
    apply eraseDups_map_inj ρ _ _ (Nat.le_refl _)
    intro a ha b hb
    exact rk.inj a (by unfold keys keysOf; rw [List.mem_eraseDups]; exact ha) b (by unfold keys keysOf; rw [List.mem_eraseDups]; exact hb)
  have hes : ∀ k ∈ keys d r, esOf d r' (ρ k) = (esOf d r k).map φ := by
    intro k hk'
    unfold esOf
    rw [hf, List.filter_map]
    congr 1
    apply List.filter_congr
    intro e he
    show (fileKey (φ e) == ρ k) = (fileKey e == k)
    rw [rk.key e he]
    by_cases c : fileKey e = k
    · simp [c]
    · have : ρ (fileKey e) ≠ ρ k := fun x => c (rk.inj _ (mem_keys.2 ⟨e, he, rfl⟩) _ hk' x)
      have h1 : (ρ (fileKey e) == ρ k) = false := by simpa using this
      have h2 : (fileKey e == k) = false := by simpa using c
      rw [h1, h2]
  have hlen_es : ∀ k, ∀ e ∈ esOf d r k, e ∈ dirOf d r := fun k e he => hmf e (mem_esOf.1 he).1
  have hinv : Inv d r' := by
    refine ⟨h.dpb, hs', ?_, ?_, ?_⟩
    · intro k' hk'
      rw [hk, List.mem_map] at hk'
      obtain ⟨k, hkm, rfl⟩ := hk'
      obtain ⟨a, b⟩ := h.good k hkm
      rw [hes k hkm]
      refine ⟨?_, ?_⟩
      · unfold dupFree
        rw [physOf_map (fun e he => (rk.tail e (hlen_es k e he)).extNum)]
        exact a
      · rw [List.all_map]
        rw [List.all_eq_true] at b ⊢
        intro e he
        simp only [Function.comp, (rk.tail e (hlen_es k e he)).ptrsOkB]
        exact b e he
    · intro e' he'
      rw [hf, List.mem_map] at he'
      obtain ⟨e, he, rfl⟩ := he'
      exact rk.clean e he
    · rw [hf, List.flatMap_map]
      have : (fents d r).flatMap (fun a => ownedE d (φ a)) = (fents d r).flatMap (ownedE d) :=
        flatMap_congr_mem (fun e he => (rk.tail e (hmf e he)).ownedE d)
      rw [this]
      exact h.noShare
  refine ⟨hinv, ?_⟩
  unfold filesOf
  rw [hk, List.map_map]
  apply List.map_congr_left
  intro k hkm
  show recOf r' d (dirOf d r') (esOf d r' (ρ k)) = _
  rw [hes k hkm]
  apply recOf_congr
  · intro e' he' p hp
    rw [List.mem_map] at he'
    obtain ⟨e, he, rfl⟩ := he'
    rw [(rk.tail e (hlen_es k e he)).ownedE] at hp
    exact hfr p (owned_not_dir h (mem_esOf.1 he).1 hp)
  · rw [hd']
    apply pwOf_map
    · intro e he
      by_cases c : e.getD 0 0 < 16
      · exact Or.inr ⟨c, Or.inl (rk.file e he c)⟩
      · exact Or.inl (rk.nonfile e c)
    · cases hh : esOf d r k with
      | nil => simp
      | cons e0 rest =>
        have hm : e0 ∈ esOf d r k := by rw [hh]; exact List.mem_cons_self
        rw [List.map_cons, List.headD_cons]
        exact rk.file e0 (hlen_es k e0 hm) (mem_fents.1 (mem_esOf.1 hm).1).2

end A2Verif.FsCpm
