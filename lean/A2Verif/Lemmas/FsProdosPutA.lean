import A2Verif.Lemmas.FsProdosOpCtx
/-!
# `write_file`: allocation bookkeeping

`LoopCtx d2 bm cnt`: the disk object when `write_file` starts — the blocks the buffer marks free are ordinary blocks of the
image.  `AState d2 bm cnt dc Al`: the disk object `dc` reached from `d2` after the blocks `Al` (pairwise different, all free in
`d2`) have been taken: the buffer marks free what it did minus `Al`, the image differs only on `Al`, every unit is still a block
of bytes.  The three moves of `write_file`: reserve the first free block (`astate_reserve`), write data into the first free
block (`astate_write_new`), rewrite a block already taken (`astate_rewrite`); `astate_free_count`: `num_free_blocks` has gone
down by exactly `|Al|`.
-/
namespace A2Verif.FsProdos
open A2Verif.Fs.Prodos

/-- the disk object at the start of `write_file` -/
structure LoopCtx (d2 : Disk) (bm cnt : Nat) : Prop where
  st : St d2 bm cnt
  tot0 : d2.total ≠ 0
  tot16 : d2.total ≤ 65535
  totsz : d2.total = d2.raw.units.size
  bsz : (effBuf d2 bm cnt).size = blockSize * cnt
  cover : d2.total ≤ 8 * (effBuf d2 bm cnt).size
  bok : BytesOk (effBuf d2 bm cnt)
  shape : ShapeOk d2.raw
  /-- a block the buffer marks free is not a bitmap block and not block 2 -/
  freeOrd : ∀ b, b < d2.total → freeB (effBuf d2 bm cnt) b = true → b ∉ bmRange bm cnt ∧ b ≠ 2
  /-- block 0 is not free -/
  zero : freeB (effBuf d2 bm cnt) 0 = false

/-- the disk object after the blocks `Al` have been taken -/
structure AState (d2 : Disk) (bm cnt : Nat) (dc : Disk) (Al : List Nat) : Prop where
  st : St dc bm cnt
  total : dc.total = d2.total
  src : dc.src = d2.src
  alnd : Al.Nodup
  alfree : ∀ b ∈ Al, freeB (effBuf d2 bm cnt) b = true ∧ b < d2.total
  bufeq : ∀ j, freeB (effBuf dc bm cnt) j = (freeB (effBuf d2 bm cnt) j && !Al.contains j)
  bufsz : (effBuf dc bm cnt).size = (effBuf d2 bm cnt).size
  bufok : BytesOk (effBuf dc bm cnt)
  rawsz : dc.raw.units.size = d2.raw.units.size
  rawoth : ∀ j, j ∉ Al → dc.raw.units[j]? = d2.raw.units[j]?
  shape : ShapeOk dc.raw

theorem AState.init {d2 : Disk} {bm cnt : Nat} (c : LoopCtx d2 bm cnt) : AState d2 bm cnt d2 [] := by
  refine ⟨c.st, rfl, rfl, List.nodup_nil, ?_, ?_, rfl, c.bok, rfl, fun _ _ => rfl, c.shape⟩
  · intro b hb; cases hb
  · intro j; simp

/-- the same allocation state on the disk object with its buffer opened -/
theorem AState.opened {d2 dc : Disk} {bm cnt : Nat} {Al : List Nat} (a : AState d2 bm cnt dc Al) :
    AState d2 bm cnt (openD dc bm cnt) Al :=
  ⟨a.st.toOpen _, a.total, a.src, a.alnd, a.alfree, a.bufeq, a.bufsz, a.bufok, a.rawsz, a.rawoth, a.shape⟩

theorem filter_sub_length (p : Nat → Bool) (n : Nat) : ∀ (Al : List Nat), Al.Nodup → (∀ b ∈ Al, p b = true ∧ b < n) →
    ((List.range n).filter (fun j => p j && !Al.contains j)).length + Al.length = ((List.range n).filter p).length
  | [], _, _ => by simp
  | a :: Al, hnd, h => by
    rw [List.nodup_cons] at hnd
    have ih := filter_sub_length p n Al hnd.2 (fun b hb => h b (List.mem_cons_of_mem _ hb))
    obtain ⟨hpa, han⟩ := h a List.mem_cons_self
    -- removing `a` from the list of `j` with `p j ∧ j ∉ Al` lowers its length by one
    have hcw := count_without' (fun j => p j && !Al.contains j) a n
    have ha : (fun j => p j && !Al.contains j) a = true := by
      simp only [hpa, Bool.true_and, Bool.not_eq_true', List.contains_eq_mem, decide_eq_false_iff_not]
      exact hnd.1
    rw [if_pos ⟨han, ha⟩] at hcw
    have hfun : (fun j => (p j && !Al.contains j) && !(j == a)) = (fun j => p j && !(a :: Al).contains j) := by
      funext j
      simp only [List.contains_cons, Bool.not_or, Bool.and_assoc]
      cases p j <;> simp [Bool.and_comm]
    rw [hfun] at hcw
    simp only [List.length_cons]
    omega
where
  count_without' (q : Nat → Bool) (i : Nat) : ∀ n : Nat,
      ((List.range n).filter (fun j => q j && !(j == i))).length + (if i < n ∧ q i = true then 1 else 0)
        = ((List.range n).filter q).length
    | 0 => by simp
    | n + 1 => by
      have ih := count_without' q i n
      rw [List.range_succ, List.filter_append, List.filter_append, List.length_append, List.length_append]
      by_cases hni : n = i
      · subst hni
        have h1 : ¬ (n < n ∧ q n = true) := by omega
        rw [if_neg h1] at ih
        cases hp : q n <;> simp [hp] <;> omega
      · have h2 : (i < n + 1 ∧ q i = true) ↔ (i < n ∧ q i = true) := by
          constructor
          · intro h; exact ⟨by omega, h.2⟩
          · intro h; exact ⟨by omega, h.2⟩
        simp only [h2]
        cases hp : q n <;> simp [hp, hni] <;> omega

/-- `num_free_blocks` after the blocks `Al` have been taken -/
theorem astate_free_count {d2 dc : Disk} {bm cnt : Nat} {Al : List Nat} (a : AState d2 bm cnt dc Al) :
    (freeBlocks (effBuf dc bm cnt) d2.total).length + Al.length = (freeBlocks (effBuf d2 bm cnt) d2.total).length := by
  unfold freeBlocks
  have hfun : (List.range d2.total).filter (freeB (effBuf dc bm cnt)) =
      (List.range d2.total).filter (fun j => freeB (effBuf d2 bm cnt) j && !Al.contains j) := by
    apply List.filter_congr
    intro j _; exact a.bufeq j
  rw [hfun]
  exact filter_sub_length _ _ Al a.alnd a.alfree

theorem numFree_astate {d2 dc : Disk} {bm cnt : Nat} {Al : List Nat} (c : LoopCtx d2 bm cnt) (a : AState d2 bm cnt dc Al) :
    ∃ d', numFreeBlocks dc = (.ok ((freeBlocks (effBuf d2 bm cnt) d2.total).length - Al.length), d') ∧ AState d2 bm cnt d' Al ∧
      d'.raw = dc.raw ∧ effBuf d' bm cnt = effBuf dc bm cnt := by
  have hcnt := astate_free_count a
  refine ⟨openD dc bm cnt, ?_, ?_, rfl, rfl⟩
  · rw [numFreeBlocks_st a.st (by rw [a.total]; exact c.tot0) (by rw [a.total, a.bufsz]; exact c.cover), a.total]
    congr 2; omega
  · exact a.opened

/-- the first free block, when one exists -/
theorem avail_astate {d2 dc : Disk} {bm cnt : Nat} {Al : List Nat} (c : LoopCtx d2 bm cnt) (a : AState d2 bm cnt dc Al)
    (hpos : Al.length < (freeBlocks (effBuf d2 bm cnt) d2.total).length) :
    ∃ p d', getAvailableBlock dc = (.ok (some p), d') ∧ AState d2 bm cnt d' Al ∧ d'.raw = dc.raw ∧
      effBuf d' bm cnt = effBuf dc bm cnt ∧ p < d2.total ∧ freeB (effBuf d2 bm cnt) p = true ∧ p ∉ Al ∧
      (List.range d2.total).find? (freeB (effBuf dc bm cnt)) = some p := by
  have hcnt := astate_free_count a
  have hne : freeBlocks (effBuf dc bm cnt) d2.total ≠ [] := by
    intro he; rw [he] at hcnt; simp at hcnt; omega
  obtain ⟨x, hx⟩ := List.exists_mem_of_ne_nil _ hne
  have hx' := List.mem_filter.mp hx
  cases hf : (List.range d2.total).find? (freeB (effBuf dc bm cnt)) with
  | none =>
    exfalso
    have := List.find?_eq_none.mp hf x hx'.1
    exact this hx'.2
  | some p =>
    have hpm := List.mem_of_find?_eq_some hf
    have hpl : p < d2.total := List.mem_range.mp hpm
    have hpf : freeB (effBuf dc bm cnt) p = true := List.find?_some hf
    rw [a.bufeq p] at hpf
    simp only [Bool.and_eq_true, Bool.not_eq_true', List.contains_eq_mem, decide_eq_false_iff_not] at hpf
    refine ⟨p, openD dc bm cnt, ?_, ?_, rfl, rfl, hpl, hpf.1, hpf.2, rfl⟩
    · rw [getAvailableBlock_st a.st (by rw [a.total]; exact c.tot0) (by rw [a.total, a.bufsz]; exact c.cover), a.total, hf]
      have : p % 65536 = p := Nat.mod_eq_of_lt (by have := c.tot16; omega)
      simp [this]
    · exact a.opened

theorem quantize_shape (data : Bytes) (hb : ∀ x ∈ data, x < 256) :
    (quantize (data.take blockSize)).length = 512 ∧ ∀ x ∈ quantize (data.take blockSize), x < 256 := by
  unfold quantize blockSize
  refine ⟨by simp only [List.length_append, List.length_take, List.length_replicate]; omega, ?_⟩
  intro x hx
  rcases List.mem_append.mp hx with h | h
  · exact hb x (List.mem_of_mem_take (List.mem_of_mem_take h))
  · rw [List.mem_replicate] at h; omega

/-- **reserve the first free block** (`get_available_block` + `allocate_block`) -/
theorem astate_reserve {d2 dc : Disk} {bm cnt : Nat} {Al : List Nat} (c : LoopCtx d2 bm cnt) (a : AState d2 bm cnt dc Al)
    (hpos : Al.length < (freeBlocks (effBuf d2 bm cnt) d2.total).length) :
    ∃ p d1 d', availOrPanic dc = (.ok p, d1) ∧ allocate p d1 = (.ok (), d') ∧ AState d2 bm cnt d' (Al ++ [p]) ∧
      d'.raw = dc.raw ∧ p < d2.total ∧ freeB (effBuf d2 bm cnt) p = true ∧ p ∉ Al := by
  obtain ⟨p, d1, hav, a1, hraw1, heff1, hpl, hpf, hpn, _⟩ := avail_astate c a hpos
  have hcov : p / 8 < (effBuf d1 bm cnt).size := by
    rw [a1.bufsz]; have := c.cover; omega
  refine ⟨p, d1, _, ?_, allocate_st a1.st p hcov, ?_, by show d1.raw = _; exact hraw1, hpl, hpf, hpn⟩
  · unfold availOrPanic; simp only [bind_def]; rw [bind_ok _ _ dc d1 _ hav]; rfl
  · refine ⟨a1.st.toOpen _, a1.total, a1.src, ?_, ?_, ?_, ?_, ?_, a1.rawsz, ?_, a1.shape⟩
    · rw [List.nodup_append]
      exact ⟨a.alnd, (by simp : [p].Nodup), fun x hx y hy e => by
        rw [List.mem_singleton] at hy; subst hy; exact hpn (e ▸ hx)⟩
    · intro b hb
      rcases List.mem_append.mp hb with h | h
      · exact a.alfree b h
      · rw [List.mem_singleton] at h; subst h; exact ⟨hpf, hpl⟩
    · intro j
      show freeB (clearBit (effBuf d1 bm cnt) p) j = _
      rw [freeB_clearBit _ p j a1.bufok hcov, a1.bufeq j]
      by_cases hjp : j = p
      · subst hjp; simp
      · have : (j == p) = false := by simpa using hjp
        simp [hjp, List.contains_append, this]
    · show (clearBit (effBuf d1 bm cnt) p).size = _; rw [size_clearBit]; exact a1.bufsz
    · exact bytesOk_clearBit _ _ a1.bufok
    · intro j hj
      show d1.raw.units[j]? = _
      exact a1.rawoth j (fun h => hj (List.mem_append_left _ h))

/-- **write data into the first free block** (`get_available_block` + `write_block`) -/
theorem astate_write_new {d2 dc : Disk} {bm cnt : Nat} {Al : List Nat} (c : LoopCtx d2 bm cnt) (a : AState d2 bm cnt dc Al)
    (hpos : Al.length < (freeBlocks (effBuf d2 bm cnt) d2.total).length) (data : Bytes) (hb : ∀ x ∈ data, x < 256) :
    ∃ p d1 d', getAvailableBlock dc = (.ok (some p), d1) ∧ writeBlock data p 0 d1 = (.ok (), d') ∧
      AState d2 bm cnt d' (Al ++ [p]) ∧ p < d2.total ∧ freeB (effBuf d2 bm cnt) p = true ∧ p ∉ Al ∧
      unitAt d'.raw p = quantize (data.take blockSize) ∧ (∀ j, j ≠ p → d'.raw.units[j]? = dc.raw.units[j]?) ∧
      (List.range d2.total).find? (freeB (effBuf dc bm cnt)) = some p := by
  obtain ⟨p, d1, hav, a1, hraw1, heff1, hpl, hpf, hpn, hfirst⟩ := avail_astate c a hpos
  have hcov : p / 8 < (effBuf d1 bm cnt).size := by
    rw [a1.bufsz]; have := c.cover; omega
  obtain ⟨hpb, hp2⟩ := c.freeOrd p hpl hpf
  have hpsz : p < d1.raw.units.size := by rw [a1.rawsz, ← c.totsz]; exact hpl
  refine ⟨p, d1, _, hav, writeBlock_st a1.st data p hpb hpsz hcov (fun e => absurd e hp2), ?_, hpl, hpf, hpn, ?_, ?_, hfirst⟩
  · have hq := quantize_shape data hb
    refine ⟨St.ofMk (a1.st.setUnit p _ (fun e => absurd e hp2)).hdr a1.st.hcnt a1.st.bm3
        (a1.st.setUnit p _ (fun e => absurd e hp2)).exist, a1.total, a1.src, ?_, ?_, ?_, ?_, ?_, ?_, ?_, ?_⟩
    · rw [List.nodup_append]
      exact ⟨a.alnd, (by simp : [p].Nodup), fun x hx y hy e => by
        rw [List.mem_singleton] at hy; subst hy; exact hpn (e ▸ hx)⟩
    · intro b hb'
      rcases List.mem_append.mp hb' with h | h
      · exact a.alfree b h
      · rw [List.mem_singleton] at h; subst h; exact ⟨hpf, hpl⟩
    · intro j
      show freeB (clearBit (effBuf d1 bm cnt) p) j = _
      rw [freeB_clearBit _ p j a1.bufok hcov, a1.bufeq j]
      by_cases hjp : j = p
      · subst hjp; simp
      · have : (j == p) = false := by simpa using hjp
        simp [hjp, List.contains_append, this]
    · show (clearBit (effBuf d1 bm cnt) p).size = _; rw [size_clearBit]; exact a1.bufsz
    · exact bytesOk_clearBit _ _ a1.bufok
    · show (setUnit d1.raw p _).units.size = _; rw [setUnit_size]; exact a1.rawsz
    · intro j hj
      show (setUnit d1.raw p _).units[j]? = _
      rw [setUnit_other _ _ _ _ (fun e => hj (by rw [← e]; exact List.mem_append_right _ (List.mem_singleton.mpr rfl)))]
      exact a1.rawoth j (fun h => hj (List.mem_append_left _ h))
    · exact shape_setUnit a1.shape p _ hq.1 hq.2
  · show unitAt (setUnit d1.raw p _) p = _
    unfold unitAt; rw [setUnit_self _ _ _ hpsz]; rfl
  · intro j hj
    show (setUnit d1.raw p _).units[j]? = _
    rw [setUnit_other _ _ _ _ (Ne.symm hj), hraw1]

/-- **rewrite a block already taken** (`write_block` of an index block) -/
theorem astate_rewrite {d2 dc : Disk} {bm cnt : Nat} {Al : List Nat} (c : LoopCtx d2 bm cnt) (a : AState d2 bm cnt dc Al)
    (p : Nat) (hp : p ∈ Al) (data : Bytes) (hb : ∀ x ∈ data, x < 256) :
    ∃ d', writeBlock data p 0 dc = (.ok (), d') ∧ AState d2 bm cnt d' Al ∧
      unitAt d'.raw p = quantize (data.take blockSize) ∧ (∀ j, j ≠ p → d'.raw.units[j]? = dc.raw.units[j]?) := by
  obtain ⟨hpf, hpl⟩ := a.alfree p hp
  obtain ⟨hpb, hp2⟩ := c.freeOrd p hpl hpf
  have hcov : p / 8 < (effBuf dc bm cnt).size := by rw [a.bufsz]; have := c.cover; omega
  have hpsz : p < dc.raw.units.size := by rw [a.rawsz, ← c.totsz]; exact hpl
  have hq := quantize_shape data hb
  have hused : freeB (effBuf dc bm cnt) p = false := by
    rw [a.bufeq p]; simp [hp]
  refine ⟨_, writeBlock_st a.st data p hpb hpsz hcov (fun e => absurd e hp2), ?_, ?_, ?_⟩
  · refine ⟨St.ofMk (a.st.setUnit p _ (fun e => absurd e hp2)).hdr a.st.hcnt a.st.bm3
        (a.st.setUnit p _ (fun e => absurd e hp2)).exist, a.total, a.src, a.alnd, a.alfree, ?_, ?_, ?_, ?_, ?_, ?_⟩
    · intro j
      show freeB (clearBit (effBuf dc bm cnt) p) j = _
      rw [freeB_clearBit_used _ p a.bufok hcov hused j, a.bufeq j]
    · show (clearBit (effBuf dc bm cnt) p).size = _; rw [size_clearBit]; exact a.bufsz
    · exact bytesOk_clearBit _ _ a.bufok
    · show (setUnit dc.raw p _).units.size = _; rw [setUnit_size]; exact a.rawsz
    · intro j hj
      show (setUnit dc.raw p _).units[j]? = _
      rw [setUnit_other _ _ _ _ (fun e => hj (by rw [← e]; exact hp))]
      exact a.rawoth j hj
    · exact shape_setUnit a.shape p _ hq.1 hq.2
  · show unitAt (setUnit dc.raw p _) p = _
    unfold unitAt; rw [setUnit_self _ _ _ hpsz]; rfl
  · intro j hj
    show (setUnit dc.raw p _).units[j]? = _
    exact setUnit_other _ _ _ _ (Ne.symm hj)

end A2Verif.FsProdos
