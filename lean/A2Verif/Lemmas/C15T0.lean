import A2Verif.Lemmas.C15Table
/-! `decide +kernel` over the whole opcode table for processor `.p6502` (repaired code) -/
namespace A2Verif.C15
open A2Verif.Dasm A2Verif.Asm

set_option maxRecDepth 100000 in
theorem table_0 : ∀ (op : Fin 256) (isM8 m8 x8 brk b1nz small : Bool),
    (true) = true → rowCheck Quirks.fixed .p6502 isM8 m8 x8 brk op.val b1nz small true = true := by
  decide +kernel

end A2Verif.C15
