import A2Verif.Lemmas.FlatLaws
import A2Verif.Lemmas.C07LawsNib
/-!
# C07 store laws of the flat containers DO, D13, IMG, 2MG(DO) at the physical sector interface

Instantiated from the `StoreLaws` / `Refuses` theorems of property C08 (`Lemmas/FlatLaws.lean`: `DOImg.sector_laws`,
`D13Img.sector_laws`, `IbmImg.sector_laws`, `MgImg.lift_dos` and the matching refusal laws).  The state is the model
image of `Model/Flat.lean` (geometry + byte buffer), `rd` / `wr` are its `readSector` / `writeSector`.
-/
namespace A2Verif.C07All
open A2Verif.Model.Flat

def rOpt : RRes → Option (List Nat)
  | .ok d => some d
  | _ => none

def wRes {σ : Type} (s : σ) : WRes σ → Bool × σ
  | .ok s' => (true, s')
  | .err s' => (false, s')
  | .panic => (false, s)

theorem flat_quantize_eq_pad (d : List Nat) (n : Nat) : quantize d n = pad d n := by
  apply List.ext_getElem?
  intro i
  simp only [quantize, pad, List.getElem?_map, List.getElem?_range, List.getElem?_append, List.length_take,
    List.getElem?_take, List.getElem?_replicate]
  by_cases hi : i < n
  · by_cases hd : i < d.length
    · have : i < min n d.length := by omega
      simp [hi, hd, this, List.getD_eq_getElem?_getD]
    · have : ¬ i < min n d.length := by omega
      have h2 : i - min n d.length < n - d.length := by omega
      simp [hi, this, h2, List.getD_eq_getElem?_getD]
      rw [List.getElem?_eq_none (by omega)]
      rfl
  · have : ¬ i < min n d.length := by omega
    have h2 : ¬ i - min n d.length < n - d.length := by omega
    simp [hi, this, h2]

/-- a flat image as a sector store -/
def flatStore {σ : Type} (I : σ → Prop) (vB : CHS → Bool) (u : CHS → Nat)
    (read : σ → CHS → RRes) (write : σ → CHS → List Nat → WRes σ) : SecStore where
  St := σ
  Inv := I
  valid := vB
  unit := u
  rd := fun s a => (rOpt (read s a), s)
  wr := fun s a d => wRes s (write s a d)

/-- `StoreLaws` + `Refuses` of C08 (whose validity and unit size may depend on the image's geometry fields) give the
C07 store laws for the images of one fixed geometry `I` -/
theorem flat_laws {σ : Type} (wf : σ → Prop) (valid : σ → CHS → Prop) (unit : σ → CHS → Nat)
    (read : σ → CHS → RRes) (write : σ → CHS → List Nat → WRes σ)
    (L : StoreLaws wf valid unit read write) (Rf : Refuses wf valid read write)
    (I : σ → Prop) (vB : CHS → Bool) (u : CHS → Nat)
    (hI : ∀ s, I s → wf s ∧ (∀ a, valid s a ↔ vB a = true) ∧ ∀ a, unit s a = u a)
    (hpres : ∀ s a d s', I s → write s a d = .ok s' → wf s' → I s') :
    SecLaws (flatStore I vB u read write) where
  rd_valid := by
    intro s a hi hv
    obtain ⟨hw, hva, hu⟩ := hI s hi
    obtain ⟨x, hx, hl⟩ := L.read_total s a hw ((hva a).2 hv)
    exact ⟨x, s, by simp [flatStore, hx, rOpt], by rw [hl]; exact hu a, hi, fun _ _ => rfl⟩
  wr_valid := by
    intro s a d _ hi hv
    obtain ⟨hw, hva, hu⟩ := hI s hi
    obtain ⟨s', h1, h2, _, h4, h5⟩ := L.write_read s a d hw ((hva a).2 hv)
    refine ⟨s', by simp [flatStore, h1, wRes], hpres s a d s' hi h1 h2, ?_, ?_⟩
    · show rOpt (read s' a) = _
      rw [h4, hu a, flat_quantize_eq_pad]; rfl
    · intro b hb hne
      show rOpt (read s' b) = rOpt (read s b)
      rw [h5 b ((hva b).2 hb) hne]
  refused := by
    intro s a d hi hv
    obtain ⟨hw, hva, _⟩ := hI s hi
    have hv' : vB a = false := hv
    have hnv : ¬ valid s a := by intro h; rw [(hva a).1 h] at hv'; cases hv'
    obtain ⟨h1, h2⟩ := Rf.refused s a d hw hnv
    exact ⟨⟨s, by simp [flatStore, h1, rOpt], hi, fun _ _ => rfl⟩, ⟨s, by simp [flatStore, h2, wRes], hi, fun _ _ => rfl⟩⟩

/-! ## reading a blank buffer -/

theorem readExts_mem (data : List Nat) (len : Nat) : ∀ (offs : List Nat) (x : List Nat),
    readExts data offs len = .ok x → ∀ y ∈ x, y ∈ data := by
  intro offs
  induction offs with
  | nil => intro x h y hy; simp [readExts] at h; subst h; cases hy
  | cons o os ih =>
    intro x h y hy
    unfold readExts at h
    cases hs : slice? data o len with
    | none => rw [hs] at h; cases h
    | some z =>
      rw [hs] at h
      cases hr : readExts data os len with
      | ok r =>
        rw [hr] at h
        simp only [RRes.ok.injEq] at h
        subst h
        rcases List.mem_append.1 hy with h1 | h1
        · unfold slice? at hs
          split at hs
          · simp only [Option.some.injEq] at hs
            subst hs
            exact List.mem_of_mem_drop (List.mem_of_mem_take h1)
          · cases hs
        · exact ih r hr y h1
      | err => rw [hr] at h; cases h
      | panic => rw [hr] at h; cases h

theorem zeros_of_blank (N : Nat) (x : List Nat) (n : Nat) (hl : x.length = n) (hm : ∀ y ∈ x, y ∈ List.replicate N 0) :
    x = List.replicate n 0 := by
  rw [List.eq_replicate_iff]
  exact ⟨hl, fun y hy => List.eq_of_mem_replicate (hm y hy)⟩

/-! ## DO (35 tracks, 16 sectors) -/

def IDo (i : DOImg) : Prop := i.tracks = 35 ∧ i.sectors = 16 ∧ i.data.length = 35 * 16 * 256

theorem mem_secIds16 (s : Nat) : s ∈ A2Verif.Model.TrackImg.secIds true ↔ s < 16 := by
  simp [A2Verif.Model.TrackImg.secIds]

theorem DOImg_writeSector_geom (i i' : DOImg) (c h s : Nat) (d : List Nat) (hw : i.writeSector c h s d = .ok i') :
    i'.tracks = i.tracks ∧ i'.sectors = i.sectors := by
  unfold DOImg.writeSector at hw
  split at hw
  · cases hw
  · split at hw
    · cases hw
    · split at hw
      · cases hw
      · injection hw with hw; subst hw; exact ⟨rfl, rfl⟩

/-- a DOS-ordered image of a 5.25 inch disk, physical sector interface through `DOS_PSEC_TO_DOS_LSEC` -/
def doSecStore : SecStore :=
  flatStore IDo (validNib true) (fun _ => 256)
    (fun i a => i.readSector a.1 a.2.1 a.2.2) (fun i a d => i.writeSector a.1 a.2.1 a.2.2 d)

theorem do_laws : SecLaws doSecStore := by
  apply flat_laws DOImg.wf16 DOImg.validCHS (fun _ _ => 256) _ _ DOImg.sector_laws DOImg.sector_refuses
  · intro i ⟨ht, hs, hd⟩
    refine ⟨⟨hs, by rw [ht]; exact hd⟩, ?_, fun _ => rfl⟩
    intro ⟨c, h, s⟩
    rw [validNib_iff, mem_secIds16]
    show c < i.tracks ∧ h = 0 ∧ s < 16 ↔ _
    rw [ht]
  · intro i a d i' ⟨ht, hs, _⟩ hw hwf
    obtain ⟨e1, e2⟩ := DOImg_writeSector_geom i i' _ _ _ d hw
    refine ⟨by rw [e1, ht], by rw [e2, hs], ?_⟩
    have := hwf.2
    rw [e1, ht] at this
    exact this

/-- `DO::create(35, 16)` -/
def doBlank : DOImg := { tracks := 35, sectors := 16, dos33 := true, data := List.replicate (35 * 16 * 256) 0 }

theorem do_blank_shows : Shows doSecStore doBlank (zeros fun _ => 256) := by
  have hi : IDo doBlank := ⟨rfl, rfl, List.length_replicate⟩
  refine ⟨hi, ?_⟩
  intro a ha
  obtain ⟨x, s', e, hl, _, _⟩ := do_laws.rd_valid doBlank a hi ha
  rw [e]
  have hx : rOpt (doBlank.readSector a.1 a.2.1 a.2.2) = some x := congrArg Prod.fst e
  obtain ⟨c, h, s⟩ := a
  obtain ⟨hc, hh, hs⟩ := (validNib_iff true c h s).1 ha
  rw [mem_secIds16] at hs
  rw [DOImg.readSector_eq doBlank c h s rfl hc hh hs] at hx
  cases hr : readExts doBlank.data [(c * 16 + p2l s) * 256] 256 with
  | ok y =>
    rw [hr] at hx
    simp only [rOpt, Option.some.injEq] at hx
    subst hx
    have := zeros_of_blank _ y 256 hl (readExts_mem _ _ _ _ hr)
    rw [this]; rfl
  | err => rw [hr] at hx; cases hx
  | panic => rw [hr] at hx; cases hx

/-! ## D13 (35 tracks, 13 sectors) -/

def ID13 (i : D13Img) : Prop := i.tracks = 35 ∧ i.data.length = 35 * 13 * 256

theorem mem_secIds13 : ∀ s : Nat, s ∈ A2Verif.Model.TrackImg.secIds false ↔ s < 13 := by
  intro s
  constructor
  · have : ∀ x ∈ A2Verif.Model.TrackImg.secIds false, x < 13 := by decide
    exact this s
  · intro h
    have : ∀ x : Fin 13, x.val ∈ A2Verif.Model.TrackImg.secIds false := by decide
    exact this ⟨s, h⟩

theorem D13Img_writeSector_geom (i i' : D13Img) (c h s : Nat) (d : List Nat) (hw : i.writeSector c h s d = .ok i') :
    i'.tracks = i.tracks := by
  unfold D13Img.writeSector at hw
  split at hw
  · cases hw
  · split at hw
    · cases hw
    · injection hw with hw; subst hw; rfl

/-- a 13-sector image, physical sector interface -/
def d13SecStore : SecStore :=
  flatStore ID13 (validNib false) (fun _ => 256)
    (fun i a => i.readSector a.1 a.2.1 a.2.2) (fun i a d => i.writeSector a.1 a.2.1 a.2.2 d)

theorem d13_laws : SecLaws d13SecStore := by
  apply flat_laws D13Img.wf D13Img.validCHS (fun _ _ => 256) _ _ D13Img.sector_laws D13Img.sector_refuses
  · intro i ⟨ht, hd⟩
    refine ⟨by unfold D13Img.wf; rw [ht]; exact hd, ?_, fun _ => rfl⟩
    intro ⟨c, h, s⟩
    rw [validNib_iff, mem_secIds13]
    show c < i.tracks ∧ h = 0 ∧ s < 13 ↔ _
    rw [ht]
  · intro i a d i' ⟨ht, _⟩ hw hwf
    have e1 := D13Img_writeSector_geom i i' _ _ _ d hw
    refine ⟨by rw [e1, ht], ?_⟩
    unfold D13Img.wf at hwf
    rw [e1, ht] at hwf
    exact hwf

/-- `D13::create(35)` -/
def d13Blank : D13Img := { tracks := 35, data := List.replicate (35 * 13 * 256) 0 }

theorem d13_blank_shows : Shows d13SecStore d13Blank (zeros fun _ => 256) := by
  have hi : ID13 d13Blank := ⟨rfl, List.length_replicate⟩
  refine ⟨hi, ?_⟩
  intro a ha
  obtain ⟨x, s', e, hl, _, _⟩ := d13_laws.rd_valid d13Blank a hi ha
  rw [e]
  have hx : rOpt (d13Blank.readSector a.1 a.2.1 a.2.2) = some x := congrArg Prod.fst e
  unfold D13Img.readSector at hx
  split at hx
  · cases hx
  · cases hr : readExts d13Blank.data [D13Img.off a.1 a.2.2] 256 with
    | ok y =>
      rw [hr] at hx
      simp only [rOpt, Option.some.injEq] at hx
      subst hx
      have := zeros_of_blank _ y 256 hl (readExts_mem _ _ _ _ hr)
      rw [this]; rfl
    | err => rw [hr] at hx; cases hx
    | panic => rw [hr] at hx; cases hx

/-! ## 2MG wrapping a DOS-ordered image (write-protect flag clear): pure delegation -/

def IMgDo (m : MgImg) : Prop := m.writeProtected = false ∧ ∃ i, m.raw = .dos i ∧ IDo i

/-- `Dot2mg` with a DO payload -/
def mgDoSecStore : SecStore where
  St := MgImg
  Inv := IMgDo
  valid := validNib true
  unit := fun _ => 256
  rd := fun m a => (rOpt (m.readSector a.1 a.2.1 a.2.2), m)
  wr := fun m a d => wRes m (m.writeSector a.1 a.2.1 a.2.2 d)

theorem mg_do_laws : SecLaws mgDoSecStore where
  rd_valid := by
    intro ⟨wp, raw⟩ a ⟨hwp, i, hr, hi⟩ hv
    simp only at hwp hr
    subst hwp; subst hr
    obtain ⟨x, s', e, hl, _, _⟩ := do_laws.rd_valid i a hi hv
    have hx : rOpt (i.readSector a.1 a.2.1 a.2.2) = some x := congrArg Prod.fst e
    exact ⟨x, _, by simp [mgDoSecStore, MgImg.readSector, hx], hl, ⟨rfl, i, rfl, hi⟩, fun _ _ => rfl⟩
  wr_valid := by
    intro ⟨wp, raw⟩ a d hb ⟨hwp, i, hr, hi⟩ hv
    simp only at hwp hr
    subst hwp; subst hr
    obtain ⟨i', e, hi', hrd, hfr⟩ := do_laws.wr_valid i a d hb hi hv
    have hw : wRes i (i.writeSector a.1 a.2.1 a.2.2 d) = (true, i') := e
    have hok : i.writeSector a.1 a.2.1 a.2.2 d = .ok i' := by
      cases h : i.writeSector a.1 a.2.1 a.2.2 d with
      | ok j => rw [h] at hw; exact congrArg WRes.ok (Prod.mk.inj hw).2
      | err j => rw [h] at hw; exact absurd (Prod.mk.inj hw).1 (by decide)
      | panic => rw [h] at hw; exact absurd (Prod.mk.inj hw).1 (by decide)
    refine ⟨⟨false, .dos i'⟩, ?_, ⟨rfl, i', rfl, hi'⟩, hrd, hfr⟩
    simp [mgDoSecStore, MgImg.writeSector, hok, MgImg.liftW, wRes]
  refused := by
    intro ⟨wp, raw⟩ a d ⟨hwp, i, hr, hi⟩ hv
    simp only at hwp hr
    subst hwp; subst hr
    obtain ⟨⟨s1, e1, _, _⟩, ⟨s2, e2, _, _⟩⟩ := do_laws.refused i a d hi hv
    have hx : rOpt (i.readSector a.1 a.2.1 a.2.2) = none := congrArg Prod.fst e1
    have hw : wRes i (i.writeSector a.1 a.2.1 a.2.2 d) = (false, s2) := e2
    have herr : i.writeSector a.1 a.2.1 a.2.2 d = .err i := by
      have hnv : ¬ DOImg.validCHS i a := by
        intro hva
        obtain ⟨c, h, s⟩ := a
        have : validNib true (c, h, s) = true := by
          rw [validNib_iff, mem_secIds16]; rw [← hi.1]; exact hva
        have hv' : validNib true (c, h, s) = false := hv
        rw [hv'] at this; cases this
      exact (DOImg.sector_refuses.refused i a d ⟨hi.2.1, by rw [hi.1]; exact hi.2.2⟩ hnv).2
    refine ⟨⟨_, by simp [mgDoSecStore, MgImg.readSector, hx], ⟨rfl, i, rfl, hi⟩, fun _ _ => rfl⟩,
            ⟨⟨false, .dos i⟩, ?_, ⟨rfl, i, rfl, hi⟩, fun _ _ => rfl⟩⟩
    simp [mgDoSecStore, MgImg.writeSector, herr, MgImg.liftW, wRes]

theorem mg_do_blank_shows : Shows mgDoSecStore ⟨false, .dos doBlank⟩ (zeros fun _ => 256) := by
  refine ⟨⟨rfl, doBlank, rfl, do_blank_shows.1⟩, ?_⟩
  intro a ha
  exact do_blank_shows.2 a ha

end A2Verif.C07All
