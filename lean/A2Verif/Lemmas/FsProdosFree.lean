import A2Verif.Lemmas.FsProdosAlloc
/-!
# `stat().free_blocks` of the concrete ProDOS model is the length of the independent reader's free list

On a disk whose bitmap buffer is closed (the state `get_img()` leaves), `open_bitmap_buffer` loads exactly the
blocks the independent reader's `bitmapFree` reads, `is_block_free` tests the bit the reader tests, and
`num_free_blocks` counts what the reader lists.
-/
namespace A2Verif.FsProdos
open A2Verif.Fs.Prodos

/-- content of unit `i` (empty outside the image) -/
def unitAt (r : Raw) (i : Nat) : Bytes := r.units[i]?.getD []

theorem imgRead_ok (r : Raw) (i : Nat) (h : i < r.units.size) : imgRead r i = .ok (unitAt r i) := by
  unfold imgRead unitAt
  rw [Array.getElem?_eq_getElem h]; rfl

theorem raw_unit_ok (r : Raw) (i : Nat) (who : String) (h : i < r.units.size) : r.unit i who = .ok (unitAt r i) := by
  unfold Raw.unit unitAt
  rw [Array.getElem?_eq_getElem h]; rfl

/-- all blocks of the list exist: the loop of `open_bitmap_buffer` appends their contents and pushes their numbers -/
theorem openLoop_ok (r : Raw) : ∀ (is : List Nat) (acc : Array Nat) (pushed : List Nat), (∀ i ∈ is, i < r.units.size) →
    openLoop r is acc pushed = (.ok (acc ++ ((is.map (unitAt r)).flatten).toArray), pushed ++ is)
  | [], acc, pushed, _ => by simp [openLoop]
  | i :: is, acc, pushed, h => by
    have hi : i < r.units.size := h i (List.mem_cons_self)
    rw [openLoop, imgRead_ok r i hi]
    simp only
    rw [openLoop_ok r is _ _ (fun j hj => h j (List.mem_cons_of_mem _ hj))]
    simp [Array.append_assoc]

/-- the buffer `open_bitmap_buffer` builds from the image -/
def bufOf (r : Raw) (bptr cnt : Nat) : Array Nat := (((List.range' bptr cnt).map (unitAt r)).flatten).toArray

/-- `open_bitmap_buffer` on a closed buffer whose blocks exist -/
theorem openBitmap_closed (d : Disk) (kb : Bytes) (hclosed : d.bitmap = none) (hkb : d.raw.units[2]? = some kb)
    (hex : ∀ i ∈ List.range' (le16 kb 39) (d.bmCount), i < d.raw.units.size) :
    openBitmap d = (.ok (), { d with bitmap := some (bufOf d.raw (le16 kb 39) (d.bmCount)),
                                     bitmapBlocks := List.range' (le16 kb 39) (d.bmCount) }) := by
  unfold openBitmap
  rw [hclosed]
  simp only [imgRead, volKeyBlock, hkb]
  rw [openLoop_ok d.raw _ _ _ hex]
  simp [bufOf]

theorem mapM_unit_ok (r : Raw) (who : String) (f : Nat → Nat) : ∀ (ks : List Nat), (∀ k ∈ ks, f k < r.units.size) →
    ks.mapM (fun k => r.unit (f k) who) = .ok (ks.map (fun k => unitAt r (f k)))
  | [], _ => rfl
  | k :: ks, h => by
    rw [List.mapM_cons, raw_unit_ok r (f k) who (h k List.mem_cons_self),
      mapM_unit_ok r who f ks (fun j hj => h j (List.mem_cons_of_mem _ hj))]
    rfl

/-- the independent reader's free list, when the bitmap blocks exist -/
theorem bitmapFree_ok (r : Raw) (bm total : Nat) (hex : ∀ k, k < (total + 4095) / 4096 → bm + k < r.units.size) :
    Read.Prodos.bitmapFree r bm total =
      .ok ((List.range total).filter (fun b =>
        ((bufOf r bm ((total + 4095) / 4096)).getD (b / 8) 0 / 2 ^ (7 - b % 8)) % 2 == 1)) := by
  unfold Read.Prodos.bitmapFree
  simp only []
  rw [mapM_unit_ok r "bitmap-block" (fun k => bm + k) _ (fun k hk => hex k (List.mem_range.mp hk))]
  simp only [bufOf, List.range'_eq_map_range, List.map_map]
  rfl

theorem bytesOk_toArray (l : List Nat) (h : ∀ x ∈ l, x < 256) : BytesOk l.toArray := by
  intro k b hk
  rw [List.getElem?_toArray] at hk
  exact h b (List.mem_of_getElem? hk)

/-- on blocks the buffer covers the model's test of a block is the reader's -/
theorem freeB_eq_reader (buf : Array Nat) (hok : BytesOk buf) (b : Nat) (hb : b / 8 < buf.size) :
    freeB buf b = ((buf.getD (b / 8) 0 / 2 ^ (7 - b % 8)) % 2 == 1) := by
  unfold freeB
  rw [Array.getD_eq_getD_getElem?, Array.getElem?_eq_getElem hb]
  exact bitFree_eq_reader _ _ (hok _ _ (Array.getElem?_eq_getElem hb))

/-- **free count**: on a disk with a closed buffer, a readable volume header outside the stale `bitmap_blocks`,
existing 512-byte bitmap blocks holding bytes, and a block count that is not a multiple of 4096 (a2kit reserves
`1 + total/4096` bitmap blocks, the format needs `⌈total/4096⌉`), `stat().free_blocks` is the number of units the
independent reader's `bitmapFree` lists -/
theorem statFree_eq_reader_free (d : Disk) (kb : Bytes)
    (hclosed : d.bitmap = none) (hnb : d.bitmapBlocks.contains volKeyBlock = false)
    (hkb : d.raw.units[2]? = some kb)
    (hcnt : (d.total + 4095) / 4096 = d.bmCount)
    (hblk : ∀ k, k < d.bmCount →
      le16 kb 39 + k < d.raw.units.size ∧ (unitAt d.raw (le16 kb 39 + k)).length = 512 ∧ ∀ x ∈ unitAt d.raw (le16 kb 39 + k), x < 256) :
    ∃ fr, Read.Prodos.bitmapFree d.raw (le16 kb 39) d.total = .ok fr ∧ (statFree d).1 = .ok fr.length := by
  have hex : ∀ i ∈ List.range' (le16 kb 39) (d.bmCount), i < d.raw.units.size := by
    intro i hi
    rw [List.mem_range'_1] at hi
    have := (hblk (i - le16 kb 39) (by omega)).1
    have e : le16 kb 39 + (i - le16 kb 39) = i := by omega
    rw [e] at this; exact this
  have hrd := bitmapFree_ok d.raw (le16 kb 39) d.total (by intro k hk; rw [hcnt] at hk; exact (hblk k hk).1)
  rw [hcnt] at hrd
  refine ⟨_, hrd, ?_⟩
  -- the model side
  have hsize : (bufOf d.raw (le16 kb 39) (d.bmCount)).size = 512 * d.bmCount := by
    unfold bufOf
    rw [List.size_toArray, List.length_flatten, List.map_map]
    have : List.map (List.length ∘ unitAt d.raw) (List.range' (le16 kb 39) (d.bmCount))
        = List.replicate (d.bmCount) 512 := by
      apply List.ext_getElem
      · simp
      · intro n h1 h2
        simp only [List.getElem_map, List.getElem_range', Function.comp, List.getElem_replicate]
        have := (hblk n (by simpa using h1)).2.1
        simpa [Nat.mul_one, Nat.one_mul] using this
    rw [this]; simp [Nat.mul_comm]
  have hbytes : BytesOk (bufOf d.raw (le16 kb 39) (d.bmCount)) := by
    apply bytesOk_toArray
    intro x hx
    rw [List.mem_flatten] at hx
    obtain ⟨l, hl, hxl⟩ := hx
    rw [List.mem_map] at hl
    obtain ⟨i, hi, rfl⟩ := hl
    rw [List.mem_range'_1] at hi
    have := (hblk (i - le16 kb 39) (by omega)).2.2
    have e : le16 kb 39 + (i - le16 kb 39) = i := by omega
    rw [e] at this; exact this x hxl
  have hcov : d.total ≤ 8 * (bufOf d.raw (le16 kb 39) (d.bmCount)).size := by
    rw [hsize]; unfold Disk.bmCount bitmapBlockCount; split <;> omega
  unfold statFree getVolHeader readBlock
  simp only [bind_def, M.bind, M.get, hnb, Bool.false_eq_true, ↓reduceIte, M.lift, imgRead, volKeyBlock, hkb, pure_def, M.pure]
  unfold numFreeBlocks
  simp only [bind_def, M.bind, M.get]
  by_cases ht : d.total = 0
  · simp [ht, pure_def, M.pure]
  · simp only [ht, ↓reduceIte, bind_def, M.bind]
    unfold getBitmap
    simp only [M.bind, openBitmap_closed d kb hclosed hkb hex, M.get, M.ofOption, M.lift]
    rw [countFreeFrom_eq _ d.total 0 0 (by omega)]
    simp only [Nat.zero_add, ← range_eq_range']
    rw [List.filter_congr (fun b hb => freeB_eq_reader _ hbytes b (by have := List.mem_range.mp hb; omega))]

end A2Verif.FsProdos
