import A2Verif.Model.PackRec
import A2Verif.Lemmas.PackText
/-! Records: the chunk map as a virtual byte array; what `update_fimg` writes. -/
namespace A2Verif.Packing

/-- the byte at absolute position `q` of the sparse file: 0 in a hole or beyond a short chunk -/
def vb (cs : List (Nat × Bytes)) (n q : Nat) : Nat := (getBuf cs (q / n)).getD (q % n) 0

theorem getChunk_insert (cs : List (Nat × Bytes)) (k j : Nat) (v : Bytes) :
    getChunk (insertChunk cs k v) j = if k = j then some v else getChunk cs j := by
  induction cs with
  | nil => simp [insertChunk, getChunk]
  | cons p r ih =>
    obtain ⟨k', v'⟩ := p
    simp only [insertChunk]
    by_cases h1 : k < k'
    · simp only [h1, if_true, getChunk]
    · simp only [h1, if_false]
      by_cases h2 : k = k'
      · subst h2
        simp only [if_true, getChunk]
        by_cases h3 : k = j <;> simp [h3]
      · simp only [h2, if_false, getChunk, ih]
        by_cases h3 : k' = j
        · have : ¬ k = j := by omega
          simp [h3, this]
        · simp [h3]

theorem getBuf_insert (cs : List (Nat × Bytes)) (k j : Nat) (v : Bytes) :
    getBuf (insertChunk cs k v) j = if k = j then v else getBuf cs j := by
  unfold getBuf
  rw [getChunk_insert]
  by_cases h : k = j <;> simp [h]

theorem writeAt_length (buf : Bytes) (off x : Nat) : (writeAt buf off x).length = max buf.length (off + 1) := by
  unfold writeAt
  by_cases h : off ≥ buf.length
  · simp only [h, if_true, List.length_append, List.length_replicate, List.length_cons, List.length_nil]; omega
  · simp only [h, if_false, List.length_set]; omega

theorem writeAt_getD (buf : Bytes) (off x i : Nat) :
    (writeAt buf off x).getD i 0 = if i = off then x else buf.getD i 0 := by
  unfold writeAt
  by_cases h : off ≥ buf.length
  · simp only [h, if_true, List.getD_eq_getElem?_getD]
    by_cases hi : i = off
    · subst hi
      have : (buf ++ List.replicate (i - buf.length) 0).length = i := by simp; omega
      rw [List.getElem?_append_right (by omega), this]
      simp
    · simp only [hi, if_false]
      by_cases h1 : i < buf.length
      · rw [List.append_assoc, List.getElem?_append_left h1]
      · rw [List.getElem?_eq_none (by omega : buf.length ≤ i)]
        by_cases h2 : i < off
        · rw [List.getElem?_append_left (by simp; omega), List.getElem?_append_right (by omega)]
          rw [List.getElem?_replicate]
          split <;> rfl
        · rw [List.getElem?_eq_none (by simp; omega)]
  · simp only [h, if_false, List.getD_eq_getElem?_getD, List.getElem?_set]
    by_cases hi : i = off
    · subst hi
      have : i < buf.length := by omega
      simp [this]
    · have : ¬ off = i := fun e => hi e.symm
      simp [this, hi]

/-- all stored chunks are at most `n` long -/
def ChunksLe (cs : List (Nat × Bytes)) (n : Nat) : Prop := ∀ k c, getChunk cs k = some c → c.length ≤ n

theorem ChunksLe.insert {cs : List (Nat × Bytes)} {n : Nat} (h : ChunksLe cs n) (k : Nat) (v : Bytes)
    (hv : v.length ≤ n) : ChunksLe (insertChunk cs k v) n := by
  intro j c hc
  rw [getChunk_insert] at hc
  by_cases e : k = j
  · simp only [e, if_true, Option.some.injEq] at hc; subst hc; exact hv
  · simp only [e, if_false] at hc; exact h j c hc

theorem getBuf_le {cs : List (Nat × Bytes)} {n : Nat} (h : ChunksLe cs n) (k : Nat) : (getBuf cs k).length ≤ n := by
  unfold getBuf
  cases hc : getChunk cs k with
  | none => simp
  | some c => simpa using h k c hc

/-- virtual view of a write state: the working buffer shadows its chunk -/
def vw (n : Nat) (w : RecW) (q : Nat) : Nat := if q / n = w.chunk then w.buf.getD (q % n) 0 else vb w.chunks n q

theorem div_mod_pos (n c o : Nat) (ho : o < n) : (c * n + o) / n = c ∧ (c * n + o) % n = o := by
  have hn : 0 < n := by omega
  constructor
  · rw [Nat.mul_comm, Nat.mul_add_div hn, Nat.div_eq_of_lt ho]; rfl
  · rw [Nat.mul_comm, Nat.mul_add_mod, Nat.mod_eq_of_lt ho]

theorem pos_eq_iff (n c o q : Nat) (hn : 0 < n) (ho : o < n) : q = c * n + o ↔ (q / n = c ∧ q % n = o) := by
  constructor
  · intro h; subst h; exact div_mod_pos n c o ho
  · rintro ⟨h1, h2⟩
    have := Nat.div_add_mod q n
    rw [h1, h2, Nat.mul_comm] at this
    omega

/-- the state after the working buffer has been stored and the next chunk loaded -/
def flushState (n : Nat) (w : RecW) (x : Nat) : RecW :=
  RecW.mk (insertChunk w.chunks w.chunk (writeAt w.buf w.offset x))
    (max (w.chunk * n + (writeAt w.buf w.offset x).length) w.eof) (w.chunk + 1) 0
    (getBuf (insertChunk w.chunks w.chunk (writeAt w.buf w.offset x)) (w.chunk + 1))

theorem vw_flushState (n : Nat) (w : RecW) (x q : Nat) :
    vw n (flushState n w x) q = vb (insertChunk w.chunks w.chunk (writeAt w.buf w.offset x)) n q := by
  unfold vw vb flushState
  by_cases e : q / n = w.chunk + 1
  · simp only [e, if_true]
  · simp only [e, if_false]

/-- **What one record write does to the sparse file**: the `data` bytes land at consecutive
positions starting at `chunk·n + offset`, every other position keeps its value; the chunk where the
write starts exists afterwards; no chunk grows beyond `n`; existing chunks stay. -/
theorem writeRecord_spec (n : Nat) (hn : 0 < n) : ∀ (data : Bytes) (w : RecW), data ≠ [] → w.offset < n →
    ChunksLe w.chunks n → w.buf.length ≤ n →
    (∀ q, vb (writeRecord n data w).chunks n q =
      if w.chunk * n + w.offset ≤ q ∧ q < w.chunk * n + w.offset + data.length
      then data.getD (q - (w.chunk * n + w.offset)) 0 else vw n w q) ∧
    (getChunk (writeRecord n data w).chunks w.chunk).isSome ∧
    ChunksLe (writeRecord n data w).chunks n ∧
    (∀ k, (getChunk w.chunks k).isSome → (getChunk (writeRecord n data w).chunks k).isSome) := by
  intro data
  induction data with
  | nil => intro w h; exact absurd rfl h
  | cons x rest ih =>
    intro w _ ho hcs hbuf
    have hbl : (writeAt w.buf w.offset x).length ≤ n := by rw [writeAt_length]; omega
    -- the value of the virtual file after storing the modified buffer
    have hstore : ∀ q, vb (insertChunk w.chunks w.chunk (writeAt w.buf w.offset x)) n q =
        if q = w.chunk * n + w.offset then x else vw n w q := by
      intro q
      unfold vb vw
      rw [getBuf_insert]
      by_cases hq : q / n = w.chunk
      · have e : w.chunk = q / n := hq.symm
        rw [if_pos e, if_pos hq, writeAt_getD]
        by_cases h2 : q % n = w.offset
        · have : q = w.chunk * n + w.offset := (pos_eq_iff n _ _ q hn ho).mpr ⟨hq, h2⟩
          rw [if_pos h2, if_pos this]
        · have : ¬ q = w.chunk * n + w.offset := fun e' => h2 ((pos_eq_iff n _ _ q hn ho).mp e').2
          rw [if_neg h2, if_neg this]
      · have e : ¬ w.chunk = q / n := fun e' => hq e'.symm
        have : ¬ q = w.chunk * n + w.offset := fun e' => hq ((pos_eq_iff n _ _ q hn ho).mp e').1
        rw [if_neg e, if_neg hq, if_neg this]
        rfl
    unfold writeRecord
    by_cases hfl : w.offset + 1 ≥ n ∨ rest = []
    · simp only [hfl, if_true]
      by_cases hr : rest = []
      · subst hr
        simp only [writeRecord]
        refine ⟨?_, ?_, hcs.insert _ _ hbl, ?_⟩
        · intro q
          rw [hstore]
          simp only [List.length_cons, List.length_nil]
          by_cases hq : q = w.chunk * n + w.offset
          · subst hq; simp
          · have : ¬ (w.chunk * n + w.offset ≤ q ∧ q < w.chunk * n + w.offset + (0 + 1)) := by omega
            rw [if_neg hq, if_neg this]
        · rw [getChunk_insert]; simp
        · intro k hk; rw [getChunk_insert]; by_cases e : w.chunk = k <;> simp [e, hk]
      · have hoff : w.offset + 1 = n := by
          rcases hfl with h | h
          · omega
          · exact absurd h hr
        obtain ⟨i1, i2, i3, i4⟩ := ih (flushState n w x) hr hn (hcs.insert _ _ hbl) (getBuf_le (hcs.insert _ _ hbl) _)
        have hfs : writeRecord n rest { chunks := insertChunk w.chunks w.chunk (writeAt w.buf w.offset x), eof := max (w.chunk * n + (writeAt w.buf w.offset x).length) w.eof, chunk := w.chunk + 1, offset := 0, buf := getBuf (insertChunk w.chunks w.chunk (writeAt w.buf w.offset x)) (w.chunk + 1) } = writeRecord n rest (flushState n w x) := rfl
        rw [hfs]
        simp only [flushState] at i1 i2 i3 i4
        simp only [flushState]
        refine ⟨?_, ?_, i3, ?_⟩
        · intro q
          rw [i1 q]
          simp only [List.length_cons, Nat.add_zero]
          have hnext : (w.chunk + 1) * n = w.chunk * n + w.offset + 1 := by rw [Nat.add_mul]; omega
          by_cases hq1 : (w.chunk + 1) * n ≤ q ∧ q < (w.chunk + 1) * n + rest.length
          · have h2 : w.chunk * n + w.offset ≤ q ∧ q < w.chunk * n + w.offset + (rest.length + 1) := by omega
            simp only [hq1, h2, and_self, if_true]
            have : q - (w.chunk * n + w.offset) = (q - (w.chunk + 1) * n) + 1 := by omega
            rw [this]; rfl
          · simp only [hq1, if_false]
            have hv := vw_flushState n w x q
            simp only [flushState] at hv
            rw [hv, hstore]
            by_cases hq : q = w.chunk * n + w.offset
            · subst hq
              have h2 : w.chunk * n + w.offset ≤ w.chunk * n + w.offset ∧
                  w.chunk * n + w.offset < w.chunk * n + w.offset + (rest.length + 1) := by omega
              simp only [h2, and_self, if_true, Nat.sub_self]
              rfl
            · have h2 : ¬ (w.chunk * n + w.offset ≤ q ∧ q < w.chunk * n + w.offset + (rest.length + 1)) := by omega
              simp only [hq, h2, if_false]
        · exact i4 _ (by rw [getChunk_insert]; simp)
        · intro k hk
          exact i4 k (by rw [getChunk_insert]; by_cases e : w.chunk = k <;> simp [e, hk])
    · simp only [hfl, if_false]
      have hr : rest ≠ [] := fun e => hfl (Or.inr e)
      have hoff : w.offset + 1 < n := by
        have : ¬ w.offset + 1 ≥ n := fun e => hfl (Or.inl e)
        omega
      obtain ⟨i1, i2, i3, i4⟩ := ih (RecW.mk w.chunks w.eof w.chunk (w.offset + 1) (writeAt w.buf w.offset x)) hr hoff hcs hbl
      refine ⟨?_, i2, i3, i4⟩
      intro q
      rw [i1 q]
      simp only [List.length_cons]
      by_cases hq1 : w.chunk * n + (w.offset + 1) ≤ q ∧ q < w.chunk * n + (w.offset + 1) + rest.length
      · rw [if_pos hq1, if_pos (by omega)]
        have : q - (w.chunk * n + w.offset) = (q - (w.chunk * n + (w.offset + 1))) + 1 := by omega
        rw [this]; rfl
      · rw [if_neg hq1]
        by_cases hq : q = w.chunk * n + w.offset
        · subst hq
          rw [if_pos (by omega)]
          obtain ⟨d1, d2⟩ := div_mod_pos n w.chunk w.offset ho
          simp only [vw, d1, if_true, d2, writeAt_getD]
          simp
        · rw [if_neg (by omega)]
          unfold vw
          simp only
          by_cases e : q / n = w.chunk
          · simp only [e, if_true, writeAt_getD]
            have : ¬ q % n = w.offset := fun h2 => hq ((pos_eq_iff n _ _ q hn ho).mpr ⟨e, h2⟩)
            rw [if_neg this]
          · simp only [e, if_false]

end A2Verif.Packing
