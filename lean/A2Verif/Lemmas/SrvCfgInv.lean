import A2Verif.Lemmas.SrvCfg
/-!
The configuration invariant: in every reachable state without a poisoned mutex the shared analyzer
holds the settings the client sent last, and the job launched last for every open document has been
launched after (or by) the handler that stored them.
-/
namespace A2Verif.Srv

/-- the last job launched for `u`, with its id -/
def lastLaunchedJ (l : List (Nat × Doc)) (u : Uri) : Option (Nat × Doc) :=
  (l.filter (fun jd => jd.2.uri = u)).getLast?

theorem lastLaunched_eq_map (l : List (Nat × Doc)) (u : Uri) :
    lastLaunched l u = (lastLaunchedJ l u).map (·.2) := rfl

theorem lastLaunchedJ_append (l : List (Nat × Doc)) (i : Nat) (d : Doc) (x : Uri) :
    lastLaunchedJ (l ++ [(i, d)]) x = if d.uri = x then some (i, d) else lastLaunchedJ l x := by
  unfold lastLaunchedJ
  rw [List.filter_append]
  by_cases h : d.uri = x
  · simp [List.filter, h]
  · simp [List.filter, h]

/-! ### launched ids are unique -/

structure LaunchedOk (s : State) : Prop where
  sorted : (s.launched.map (·.1)).Pairwise (· < ·)
  bound : ∀ jd ∈ s.launched, jd.1 < s.nextId
  queue : ∀ j ∈ s.queue, (j.id, j.doc) ∈ s.launched

theorem LaunchedOk.init : LaunchedOk init :=
  { sorted := by simp [Srv.init], bound := by simp [Srv.init], queue := by simp [Srv.init] }

theorem LaunchedOk.step (an : Nat → Text → Option Diags) {s s' : State} {e : Event} (hi : LaunchedOk s)
    (hs : Srv.step an s e = some s') : LaunchedOk s' := by
  have upd : ∀ id f, Upd s s' id f → LaunchedOk s' := by
    intro id f hu
    refine ⟨by rw [hu.launched]; exact hi.sorted, ?_, ?_⟩
    · intro jd hjd
      rw [hu.launched] at hjd
      rw [hu.nextId]
      exact hi.bound jd hjd
    · intro j' hj'
      rw [hu.queue] at hj'
      obtain ⟨j, hj, hid, hdoc, _, _⟩ := mem_updSt hj'
      rw [hu.launched, hid, hdoc]
      exact hi.queue j hj
  cases step_trans an hs with
  | ext new h _ _ =>
    have hmem : ∀ jd ∈ qdocs new, ∃ j ∈ new, jd = (j.id, j.doc) := by
      intro jd hjd
      simp only [qdocs, List.mem_map] at hjd
      obtain ⟨j, hj, rfl⟩ := hjd
      exact ⟨j, hj, rfl⟩
    refine ⟨?_, ?_, ?_⟩
    · rw [h.launched, List.map_append, List.pairwise_append]
      refine ⟨hi.sorted, ?_, ?_⟩
      · have : (qdocs new).map (·.1) = new.map (·.id) := by simp [qdocs]
        rw [this]
        exact h.sorted
      · intro a ha b hb
        simp only [List.mem_map] at ha hb
        obtain ⟨ja, hja, rfl⟩ := ha
        obtain ⟨jb, hjb, rfl⟩ := hb
        obtain ⟨j, hj, rfl⟩ := hmem jb hjb
        have := hi.bound ja hja
        have := (h.fresh j hj).2
        simp only
        omega
    · intro jd hjd
      rw [h.launched] at hjd
      rw [h.nextId]
      rcases List.mem_append.mp hjd with hjd | hjd
      · have := hi.bound jd hjd; omega
      · obtain ⟨j, hj, rfl⟩ := hmem jd hjd
        exact h.bound j hj
    · intro j hj
      rw [h.queue] at hj
      rw [h.launched]
      rcases List.mem_append.mp hj with hj | hj
      · exact List.mem_append_left _ (hi.queue j hj)
      · refine List.mem_append_right _ ?_
        simp only [qdocs, List.mem_map]
        exact ⟨j, hj, rfl⟩
  | acq id j he hj hst hu hl' => exact upd id _ hu
  | acqPoisoned id j he hj hst hp' hu hl' => exact upd id _ hu
  | fin id j he hj hst hu hl' => exact upd id _ hu
  | die id j he hj hst hu hl' => exact upd id _ hu
  | harvest j he h =>
    refine ⟨by rw [h.launched]; exact hi.sorted, ?_, ?_⟩
    · intro jd hjd
      rw [h.launched] at hjd
      rw [h.nextId]
      exact hi.bound jd hjd
    · intro j' hj'
      rw [h.launched]
      exact hi.queue j' (by rw [h.queue]; exact List.mem_cons_of_mem _ hj')

theorem launched_unique {l : List (Nat × Doc)} (h : (l.map (·.1)).Pairwise (· < ·)) {i : Nat} {d d' : Doc}
    (h1 : (i, d) ∈ l) (h2 : (i, d') ∈ l) : d = d' := by
  induction l with
  | nil => cases h1
  | cons x l ih =>
    simp only [List.map_cons, List.pairwise_cons] at h
    rcases List.mem_cons.mp h1 with h1 | h1 <;> rcases List.mem_cons.mp h2 with h2 | h2
    · rw [← h1] at h2
      exact (Prod.mk.inj h2).2.symm
    · have := h.1 i (List.mem_map.mpr ⟨(i, d'), h2, rfl⟩)
      rw [← h1] at this
      simp at this
    · have := h.1 i (List.mem_map.mpr ⟨(i, d), h1, rfl⟩)
      rw [← h2] at this
      simp at this
    · exact ih h.2 h1 h2

theorem lastLaunchedJ_mem {l : List (Nat × Doc)} {u : Uri} {jd : Nat × Doc} (h : lastLaunchedJ l u = some jd) :
    jd ∈ l := by
  unfold lastLaunchedJ at h
  have := List.mem_of_getLast? h
  exact (List.mem_filter.mp this).1

/-! ### the last job of every open document is recent -/

/-- every checkpointed document is the document of the last job launched for its uri, and that job
has an id of at least `m` -/
def Recent (m : Nat) (s : State) : Prop :=
  ∀ u d, lookup s.docs u = some d → ∃ id, lastLaunchedJ s.launched u = some (id, d) ∧ m ≤ id

def UriOk (s : State) : Prop := ∀ u d, lookup s.docs u = some d → d.uri = u

theorem lookup_mem_keys {docs : List (Uri × Doc)} {u : Uri} {d : Doc} (h : lookup docs u = some d) :
    u ∈ keys docs := by
  induction docs with
  | nil => simp [lookup] at h
  | cons kd rest ih =>
    obtain ⟨k, d'⟩ := kd
    simp only [lookup] at h
    by_cases hk : k = u
    · simp [keys, hk]
    · simp only [hk, if_false] at h
      have := ih h
      simp only [keys, List.map_cons, List.mem_cons] at this ⊢
      exact .inr this

theorem samePerm_mem {a b : List Uri} (h : samePerm a b = true) {x : Uri} (hx : x ∈ b) : x ∈ a := by
  simp only [samePerm, Bool.and_eq_true, List.all_eq_true] at h
  have := h.2 x hx
  simpa using this

theorem relaunch_docs (order : List Uri) : ∀ s : State, (relaunch s order).docs = s.docs ∧ (relaunch s order).live = s.live := by
  induction order with
  | nil => intro s; exact ⟨rfl, rfl⟩
  | cons u rest ih =>
    intro s
    simp only [relaunch]
    split
    · rename_i d _
      have := ih (launch s d true)
      exact this
    · exact ih s

theorem relaunch_recent (m : Nat) (order : List Uri) : ∀ s : State, m ≤ s.nextId → UriOk s →
    ∀ u d, lookup s.docs u = some d →
      (u ∈ order ∨ ∃ id, lastLaunchedJ s.launched u = some (id, d) ∧ m ≤ id) →
      ∃ id, lastLaunchedJ (relaunch s order).launched u = some (id, d) ∧ m ≤ id := by
  induction order with
  | nil =>
    intro s _ _ u d _ h
    rcases h with h | h
    · cases h
    · exact h
  | cons u0 rest ih =>
    intro s hm huri u d hd h
    simp only [relaunch]
    split
    · rename_i d0 hd0
      have hu0 : d0.uri = u0 := huri u0 d0 hd0
      apply ih (launch s d0 true) (by simp only [launch]; omega) huri u d hd
      simp only [launch]
      rw [lastLaunchedJ_append]
      by_cases hx : d0.uri = u
      · right
        have huu : u0 = u := hu0.symm.trans hx
        subst huu
        rw [hd0] at hd
        cases hd
        exact ⟨s.nextId, by simp [hx], hm⟩
      · simp only [hx, if_false]
        rcases h with h | h
        · rcases List.mem_cons.mp h with h | h
          · exact absurd (hu0.trans h.symm) hx
          · exact .inl h
        · exact .inr h
    · rename_i hnone
      apply ih s hm huri u d hd
      rcases h with h | h
      · rcases List.mem_cons.mp h with h | h
        · subst h
          rw [hnone] at hd
          cases hd
        · exact .inl h
      · exact .inr h

/-- what the thread events and `tick`/`request`/`configLock` leave alone -/
theorem step_frame (an : Nat → Text → Option Diags) {s s' : State} {e : Event} (hs : Srv.step an s e = some s')
    (he : match e with | .acquire _ | .finish _ | .die _ | .tick | .request | .configLock _ => True | _ => False) :
    s'.docs = s.docs ∧ s'.live = s.live ∧ s'.launched = s.launched ∧ s'.nextId = s.nextId := by
  cases e with
  | opn u v t => cases he
  | chg u v t => cases he
  | save u t => cases he
  | close u => cases he
  | config c l o => cases he
  | request =>
    simp only [Srv.step, Option.some.injEq] at hs
    subst hs
    exact ⟨rfl, rfl, rfl, rfl⟩
  | configLock c =>
    simp only [Srv.step] at hs
    repeat' (split at hs)
    all_goals first | (simp at hs; done) | (cases hs; exact ⟨rfl, rfl, rfl, rfl⟩)
  | acquire id =>
    simp only [Srv.step] at hs
    repeat' (split at hs)
    all_goals first | (simp at hs; done) | (cases hs; exact ⟨rfl, rfl, rfl, rfl⟩)
  | finish id =>
    simp only [Srv.step] at hs
    repeat' (split at hs)
    all_goals first | (simp at hs; done) | (cases hs; exact ⟨rfl, rfl, rfl, rfl⟩)
  | die id =>
    simp only [Srv.step] at hs
    repeat' (split at hs)
    all_goals first | (simp at hs; done) | (cases hs; exact ⟨rfl, rfl, rfl, rfl⟩)
  | tick =>
    simp only [Srv.step] at hs
    repeat' (split at hs)
    all_goals first | (simp at hs; done) | (cases hs; exact ⟨rfl, rfl, rfl, rfl⟩)

/-- a document notification keeps every open document's last job recent: the new job is the newest -/
theorem Recent.main (an : Nat → Text → Option Diags) {m : Nat} {s s' : State} {e : Event} (hm : m ≤ s.nextId)
    (hlive : s.live = true) (hr : Recent m s) (hu : UriOk s) (he : mainEv e) (hp : plain e)
    (hs : Srv.step an s e = some s') : Recent m s' ∧ UriOk s' ∧ s'.live = true := by
  have newdoc : ∀ (u : Uri) (v : Nat) (t : Text) (docs' : List (Uri × Doc)) (lv : Bool), lv = true →
      (∀ x d, lookup docs' x = some d → (x = u ∧ d = { uri := u, ver := some v, text := t }) ∨ (x ≠ u ∧ lookup s.docs x = some d)) →
      (fun s1 => Recent m s1 ∧ UriOk s1 ∧ s1.live = true)
        (launch { s with docs := docs', live := lv } { uri := u, ver := some v, text := t } false) := by
    intro u v t docs' lv hlv hdocs
    refine ⟨?_, ?_, hlv⟩
    · intro x d hd
      simp only [launch] at hd ⊢
      rw [lastLaunchedJ_append]
      rcases hdocs x d hd with ⟨h1, h2⟩ | ⟨h1, h2⟩
      · subst h1 h2
        exact ⟨s.nextId, by simp, hm⟩
      · have : ¬ u = x := fun h => h1 h.symm
        simp only [this, if_false]
        exact hr x d h2
    · intro x d hd
      simp only [launch] at hd
      rcases hdocs x d hd with ⟨h1, h2⟩ | ⟨h1, h2⟩
      · subst h1 h2; rfl
      · exact hu x d h2
  cases e with
  | configLock c => cases he
  | config c l o => cases he
  | acquire id => cases he
  | finish id => cases he
  | die id => cases he
  | save u t => exact absurd hp (by simp [plain])
  | opn u v t =>
    simp only [Srv.step, Option.some.injEq] at hs
    subst hs
    apply newdoc _ _ _ _ _ hlive
    intro x d hd
    rw [lookup_insert] at hd
    by_cases hx : x = u
    · simp only [hx, if_true, Option.some.injEq] at hd
      exact .inl ⟨hx, hd.symm⟩
    · simp only [hx, if_false] at hd
      exact .inr ⟨hx, hd⟩
  | chg u v t =>
    simp only [Srv.step, hlive, if_true, Option.some.injEq] at hs
    subst hs
    split
    · apply newdoc _ _ _ _ _ rfl
      intro x d hd
      rw [lookup_insert] at hd
      by_cases hx : x = u
      · simp only [hx, if_true, Option.some.injEq] at hd
        exact .inl ⟨hx, hd.symm⟩
      · simp only [hx, if_false] at hd
        exact .inr ⟨hx, hd⟩
    · rename_i hnone
      show (fun s1 => Recent m s1 ∧ UriOk s1 ∧ s1.live = true) (launch { s with docs := s.docs, live := s.live } _ false)
      apply newdoc _ _ _ _ _ hlive
      intro x d hd
      by_cases hx : x = u
      · rw [hx, hnone] at hd; cases hd
      · exact .inr ⟨hx, hd⟩
  | close u =>
    simp only [Srv.step, Option.some.injEq] at hs
    subst hs
    refine ⟨?_, ?_, hlive⟩
    · intro x d hd
      exact hr x d (lookup_erase_some hd).1
    · intro x d hd
      exact hu x d (lookup_erase_some hd).1
  | tick =>
    obtain ⟨h1, h2, h3, _⟩ := step_frame an hs trivial
    refine ⟨?_, ?_, by rw [h2]; exact hlive⟩
    · intro x d hd; rw [h1] at hd; rw [h3]; exact hr x d hd
    · intro x d hd; rw [h1] at hd; exact hu x d hd
  | request =>
    obtain ⟨h1, h2, h3, _⟩ := step_frame an hs trivial
    refine ⟨?_, ?_, by rw [h2]; exact hlive⟩
    · intro x d hd; rw [h1] at hd; rw [h3]; exact hr x d hd
    · intro x d hd; rw [h1] at hd; exact hu x d hd

/-! ### the configuration invariant -/

structure CfgInv {σ : Type} (A : CAnalyzer σ) (c : Cfg) (cs : CState σ) : Prop where
  nopoison : cs.srv.lock ≠ .poisoned
  acfg : cs.acfg = c
  markle : cs.mark ≤ cs.srv.nextId
  pcfg : ∀ p ∈ cs.pcfg, p.1 < cs.srv.nextId ∧ (cs.mark ≤ p.1 → p.2 = c)
  pend : ∀ c', cs.pending = some c' → c' = c ∧ cs.mark = cs.srv.nextId
  fin : ∀ f ∈ cs.fin, cs.mark ≤ f.id → f.cfg = c
  finText : ∀ f ∈ cs.fin, ∃ d, (f.id, d) ∈ cs.srv.launched ∧ f.text = d.text
  finRes : ∀ f ∈ cs.fin, ∃ a, f.res = (A.run f.cfg a f.text).1
  finBound : ∀ f ∈ cs.fin, f.id < cs.srv.nextId
  recent : cs.pending = none → Recent cs.mark cs.srv
  uri : UriOk cs.srv
  live : cs.srv.live = true
  lo : LaunchedOk cs.srv

theorem CfgInv.init {σ : Type} (A : CAnalyzer σ) : CfgInv A cfg0 (cinit A) :=
  { nopoison := by simp [cinit, Srv.init], acfg := rfl, markle := by simp [cinit], pcfg := by simp [cinit],
    pend := by simp [cinit], fin := by simp [cinit], finText := by simp [cinit], finRes := by simp [cinit],
    finBound := by simp [cinit],
    recent := by intro _ u d hd; simp [cinit, Srv.init, lookup] at hd,
    uri := by intro u d hd; simp [cinit, Srv.init, lookup] at hd, live := rfl, lo := LaunchedOk.init }

theorem lock_not_poisoned (an : Nat → Text → Option Diags) {s s' : State} {e : Event} (hn : notDie e)
    (h : s.lock ≠ .poisoned) (hs : Srv.step an s e = some s') : s'.lock ≠ .poisoned := by
  cases step_trans an hs with
  | ext new h' _ _ => rw [h'.lock]; exact h
  | acq id j he hj hst hu hl =>
    rcases hl with ⟨_, hl⟩ | ⟨_, _, hl⟩
    · rw [hl]; exact h
    · rw [hl]; simp
  | acqPoisoned id j he hj hst hp hu hl => exact absurd hl.1 h
  | fin id j he hj hst hu hl =>
    rcases hl with ⟨_, hl⟩ | ⟨_, hl⟩
    · rw [hl]; exact h
    · rw [hl]; simp
  | die id j he => subst he; cases hn
  | harvest j he h' => rw [h'.lock]; exact h

theorem base_mono (an : Nat → Text → Option Diags) {s s' : State} {e : Event} (hs : Srv.step an s e = some s') :
    s.nextId ≤ s'.nextId ∧ ∀ jd ∈ s.launched, jd ∈ s'.launched := by
  cases step_trans an hs with
  | ext new h _ _ => exact ⟨by rw [h.nextId]; omega, fun jd hjd => by rw [h.launched]; exact List.mem_append_left _ hjd⟩
  | acq id j he hj hst hu hl => exact ⟨by rw [hu.nextId]; omega, fun jd hjd => by rw [hu.launched]; exact hjd⟩
  | acqPoisoned id j he hj hst hp hu hl => exact ⟨by rw [hu.nextId]; omega, fun jd hjd => by rw [hu.launched]; exact hjd⟩
  | fin id j he hj hst hu hl => exact ⟨by rw [hu.nextId]; omega, fun jd hjd => by rw [hu.launched]; exact hjd⟩
  | die id j he hj hst hu hl => exact ⟨by rw [hu.nextId]; omega, fun jd hjd => by rw [hu.launched]; exact hjd⟩
  | harvest j he h => exact ⟨by rw [h.nextId]; omega, fun jd hjd => by rw [h.launched]; exact hjd⟩

theorem lookupCfg_mem {l : List (Nat × Cfg)} {id : Nat} {c : Cfg} (h : lookupCfg l id = some c) : (id, c) ∈ l := by
  unfold lookupCfg at h
  simp only [Option.map_eq_some_iff] at h
  obtain ⟨p, hp, hc⟩ := h
  have h1 := List.mem_of_find?_eq_some hp
  have h2 := List.find?_some hp
  simp only [decide_eq_true_eq] at h2
  obtain ⟨a, b⟩ := p
  simp only at h2 hc
  subst h2 hc
  exact h1

theorem cfgAfter_of_ne (c : Cfg) {e : Event} (h : ∀ c', e ≠ .configLock c') : cfgAfter c e = c := by
  cases e with
  | configLock c' => exact absurd rfl (h c')
  | _ => rfl

/-- what is common to every transition that goes through a base step and leaves the settings alone -/
theorem CfgInv.base {σ : Type} {A : CAnalyzer σ} {c : Cfg} {cs : CState σ} (hi : CfgInv A c cs)
    (an : Nat → Text → Option Diags) {e : Event} {s' : State} (hnd : notDie e) (hs : Srv.step an cs.srv e = some s') :
    s'.lock ≠ .poisoned ∧ cs.mark ≤ s'.nextId ∧ (∀ p ∈ cs.pcfg, p.1 < s'.nextId ∧ (cs.mark ≤ p.1 → p.2 = c)) ∧
    (∀ f ∈ cs.fin, ∃ d, (f.id, d) ∈ s'.launched ∧ f.text = d.text) ∧ (∀ f ∈ cs.fin, f.id < s'.nextId) ∧
    LaunchedOk s' := by
  have ⟨hn, hl⟩ := base_mono an hs
  refine ⟨lock_not_poisoned an hnd hi.nopoison hs, Nat.le_trans hi.markle hn, ?_, ?_, ?_, LaunchedOk.step an hi.lo hs⟩
  · intro p hp
    have := hi.pcfg p hp
    exact ⟨by omega, this.2⟩
  · intro f hf
    obtain ⟨d, hd, ht⟩ := hi.finText f hf
    exact ⟨d, hl _ hd, ht⟩
  · intro f hf
    have := hi.finBound f hf
    omega

theorem CfgInv.step {σ : Type} {A : CAnalyzer σ} {c : Cfg} {cs cs1 : CState σ} {e : Event}
    (hnd : notDie e) (hp : plain e) (hi : CfgInv A c cs) (hstep : stepC A cs e = some cs1) :
    CfgInv A (cfgAfter c e) cs1 := by
  cases stepC_cases hstep with
  | lockFree c' hpn hl h =>
    subst h
    refine ⟨hi.nopoison, rfl, Nat.le_refl _, ?_, ?_, ?_, hi.finText, hi.finRes, hi.finBound, by simp, hi.uri, hi.live, hi.lo⟩
    · intro p hp'
      have := (hi.pcfg p hp').1
      exact ⟨this, fun h => by simp only at h; omega⟩
    · intro c'' h
      simp only [Option.some.injEq] at h
      exact ⟨h.symm, rfl⟩
    · intro f hf h
      have := hi.finBound f hf
      simp only at h
      omega
  | lockPoisoned c' hpn hl h => exact absurd hl hi.nopoison
  | relaunch c' live order s' hpn hs h =>
    subst h
    obtain ⟨hc', hmark⟩ := hi.pend c' hpn
    subst hc'
    obtain ⟨h1, h2, h3, h4, h5, h6⟩ := hi.base _ hnd hs
    have hn := (base_mono _ hs).1
    simp only [plain] at hp
    subst hp
    simp only [Srv.step] at hs
    split at hs
    · rename_i hperm
      simp only [Option.some.injEq] at hs
      have hdocs := relaunch_docs order { cs.srv with live := true }
      rw [hs] at hdocs
      refine ⟨h1, hi.acfg, h2, ?_, by simp, hi.fin, h4, hi.finRes, h5, ?_, ?_, hdocs.2, h6⟩
      · intro p hp'
        rcases List.mem_append.mp hp' with hp' | hp'
        · exact h3 p hp'
        · simp only [List.mem_map, List.mem_range'_1] at hp'
          obtain ⟨i, ⟨hi1, hi2⟩, rfl⟩ := hp'
          exact ⟨by simp only; omega, fun _ => rfl⟩
      · intro _ u d hd
        rw [hdocs.1] at hd
        have := relaunch_recent cs.mark order { cs.srv with live := true } (by simp only; omega) hi.uri u d hd
          (.inl (samePerm_mem hperm (lookup_mem_keys hd)))
        rw [hs] at this
        exact this
      · intro u d hd
        rw [hdocs.1] at hd
        exact hi.uri u d hd
    · simp at hs
  | finish id j cfg s' hj hc hs h =>
    subst h
    obtain ⟨h1, h2, h3, h4, h5, h6⟩ := hi.base _ hnd hs
    obtain ⟨f1, f2, f3, f4⟩ := step_frame _ hs trivial
    have ⟨hjm, hjid⟩ := findJob_some hj
    have hjl : (id, j.doc) ∈ cs.srv.launched := by rw [← hjid]; exact hi.lo.queue j hjm
    refine ⟨h1, hi.acfg, h2, h3, ?_, ?_, ?_, ?_, ?_, ?_, ?_, by rw [f2]; exact hi.live, h6⟩
    · intro c' hc'
      have := hi.pend c' hc'
      exact ⟨this.1, by rw [f4]; exact this.2⟩
    · intro f hf hm
      rcases List.mem_append.mp hf with hf | hf
      · exact hi.fin f hf hm
      · simp only [List.mem_singleton] at hf
        subst hf
        simp only at hm ⊢
        show cfg = c
        cases hpriv : j.priv with
        | true =>
          rw [hpriv] at hc
          simp only [if_true] at hc
          exact (hi.pcfg _ (lookupCfg_mem hc)).2 hm
        | false =>
          rw [hpriv] at hc
          simp only [Bool.false_eq_true, if_false, Option.some.injEq] at hc
          rw [← hc]; exact hi.acfg
    · intro f hf
      rcases List.mem_append.mp hf with hf | hf
      · exact h4 f hf
      · simp only [List.mem_singleton] at hf
        subst hf
        exact ⟨j.doc, by rw [f3]; exact hjl, rfl⟩
    · intro f hf
      rcases List.mem_append.mp hf with hf | hf
      · exact hi.finRes f hf
      · simp only [List.mem_singleton] at hf
        subst hf
        exact ⟨_, rfl⟩
    · intro f hf
      rcases List.mem_append.mp hf with hf | hf
      · exact h5 f hf
      · simp only [List.mem_singleton] at hf
        subst hf
        rw [f4]
        exact hi.lo.bound _ hjl
    · intro hpn u d hd
      rw [f1] at hd
      rw [f3]
      exact hi.recent hpn u d hd
    · intro u d hd
      rw [f1] at hd
      exact hi.uri u d hd
  | thread e s' he hs h =>
    subst h
    obtain ⟨h1, h2, h3, h4, h5, h6⟩ := hi.base _ hnd hs
    have hfr : s'.docs = cs.srv.docs ∧ s'.live = cs.srv.live ∧ s'.launched = cs.srv.launched ∧ s'.nextId = cs.srv.nextId := by
      cases e with
      | acquire id => exact step_frame _ hs trivial
      | die id => exact step_frame _ hs trivial
      | _ => cases he
    obtain ⟨f1, f2, f3, f4⟩ := hfr
    have hce : cfgAfter c e = c := cfgAfter_of_ne c (by intro c' h; subst h; cases he)
    rw [hce]
    refine ⟨h1, hi.acfg, h2, h3, ?_, hi.fin, h4, hi.finRes, h5, ?_, ?_, by rw [f2]; exact hi.live, h6⟩
    · intro c' hc'
      have := hi.pend c' hc'
      exact ⟨this.1, by rw [f4]; exact this.2⟩
    · intro hpn u d hd
      rw [f1] at hd
      rw [f3]
      exact hi.recent hpn u d hd
    · intro u d hd
      rw [f1] at hd
      exact hi.uri u d hd
  | main e s' he hpn hs h =>
    subst h
    obtain ⟨h1, h2, h3, h4, h5, h6⟩ := hi.base _ hnd hs
    have hce : cfgAfter c e = c := cfgAfter_of_ne c (by intro c' h; subst h; cases he)
    rw [hce]
    obtain ⟨r1, r2, r3⟩ := Recent.main _ hi.markle hi.live (hi.recent hpn) hi.uri he hp hs
    refine ⟨h1, hi.acfg, h2, h3, ?_, hi.fin, h4, hi.finRes, h5, fun _ => r1, r2, r3, h6⟩
    intro c' hc'
    rw [hpn] at hc'
    cases hc'

theorem CfgInv.run {σ : Type} {A : CAnalyzer σ} {evs : List Event} : ∀ {c : Cfg} {cs cs' : CState σ},
    (∀ e ∈ evs, notDie e) → (∀ e ∈ evs, plain e) → CfgInv A c cs → runC A cs evs = some cs' →
    CfgInv A (evs.foldl cfgAfter c) cs' := by
  induction evs with
  | nil => intro c cs cs' _ _ hi hr; simp only [runC, Option.some.injEq] at hr; subst hr; exact hi
  | cons e evs ih =>
    intro c cs cs' hnd hp hi hr
    simp only [runC] at hr
    cases hs : stepC A cs e with
    | none => simp [hs] at hr
    | some cs1 =>
      simp only [hs] at hr
      simp only [List.foldl_cons]
      exact ih (fun e' he' => hnd e' (List.mem_cons_of_mem _ he')) (fun e' he' => hp e' (List.mem_cons_of_mem _ he'))
        (CfgInv.step (hnd e (by simp)) (hp e (by simp)) hi hs) hr

theorem lastCfg_eq_foldl (evs : List Event) : lastCfg evs = evs.foldl cfgAfter cfg0 := rfl

end A2Verif.Srv
