import A2Verif.Lemmas.FsFatVol
import A2Verif.Lemmas.FsFatName
/-!
# `format` of the concrete FAT model establishes the invariant

For every BIOS parameter block that describes a FAT12 volume with 512-byte sectors lying inside the image (`FmtPre`: the
facts of `Geo` other than "the boot sector is on the image", the repaired variant; the FAT buffer may be open: `format` discards it), `format` with a
valid label (or none) runs to completion: the fill loop writes every sector of the volume, the boot sector is written,
the FAT buffer opens as all zeroes (the repair against the backup copies changes nothing), entries 0 and 1 are set, the
label entry is written to the first root sector, the buffer is written to every FAT copy.  The state reached satisfies
`Inv`; its reading lists no file and every data cluster is free.
-/
namespace A2Verif.FsFat
open A2Verif A2Verif.Fs.Fat A2Verif.Read.Fat A2Verif.Read.FatT

/-- the blank state `format` starts from: the facts of `Geo` except the boot sector, which is a parameter -/
structure FmtPre (d : Disk) (boot : Bytes) : Prop where
  lf : d.labelFiles = false
  bootLen : boot.length = 512
  bootBpb : Bpb.ofBoot boot = d.bpb
  ulen : d.raw.unitLen = 512
  usz : ∀ i (h : i < d.raw.units.size), d.raw.units[i].length = 512
  bps : d.bpb.bps = 512
  spc : d.bpb.spc ≠ 0
  nfat : d.bpb.nfat ≠ 0
  fat16 : d.bpb.fat16 ≠ 0
  spt : d.bpb.spt ≠ 0
  heads : d.bpb.heads ≠ 0
  typ : d.typ = 12
  ftyp : d.bpb.fatType = 12
  rsvd : 1 ≤ d.bpb.rsvd
  fits : d.bpb.firstDataSec < d.bpb.totSec ∧ d.bpb.totSec ≤ d.raw.units.size
  chs : ∀ s, s < d.bpb.totSec → s / d.bpb.spt < d.raw.units.size / d.bpb.spt
  /-- the root directory has at least one sector, and the scratch directory of `format` (sized by `root_dir_entries()`,
  which reads the count big-endian) holds the entries of that sector -/
  rootSecs : 1 ≤ d.bpb.rootDirSecs
  rootEnts : 16 ≤ d.bpb.rootDirEntries

/-! ## the fill loop -/

theorem fillLoop_spec (fd : Nat) : ∀ (ss : List Nat) (d : Disk), d.bpb.spt ≠ 0 → d.bpb.heads ≠ 0 → d.raw.unitLen = 512 →
    (∀ s ∈ ss, s / d.bpb.spt < d.raw.units.size / d.bpb.spt ∧ s < d.raw.units.size) →
    ∃ r', fillLoop fd 512 ss d = (.ok (), { d with raw := r' }) ∧ r'.units.size = d.raw.units.size ∧ r'.unitLen = 512 ∧
      (∀ u, u ∉ ss → r'.units[u]? = d.raw.units[u]?) ∧
      (∀ s ∈ ss, r'.units[s]? = some (List.replicate 512 (if s < fd then 0 else 0xf6))) := by
  intro ss
  induction ss with
  | nil =>
    intro d _ _ hul _
    exact ⟨d.raw, rfl, rfl, hul, fun _ _ => rfl, fun s hs => by cases hs⟩
  | cons a t ih =>
    intro d hspt hheads hul hin
    obtain ⟨h1, h2⟩ := hin a (by simp)
    have hchs : getChs d a = .ok a := by
      unfold getChs Raw.count
      simp [hspt, hheads]
      exact h1
    let v : Bytes := List.replicate 512 (if a < fd then 0 else 0xf6)
    let d1 : Disk := { d with raw := { d.raw with units := d.raw.units.setIfInBounds a v } }
    have hq : quantize v d.raw.unitLen = v := by
      unfold quantize
      rw [hul, if_pos (List.length_replicate)]
    have hstep : fillLoop fd 512 (a :: t) d = fillLoop fd 512 t d1 := by
      rw [fillLoop]
      unfold writeSector
      simp only [M_bind_apply, M.get, M.lift, hchs, imgWriteSector, h2, if_true, M.setRaw]
      rw [hq]
    have hsz1 : d1.raw.units.size = d.raw.units.size := by simp [d1]
    obtain ⟨r', e1, e2, e3, e4, e5⟩ := ih d1 hspt hheads hul
      (fun s hs => by
        have := hin s (by simp [hs])
        rw [hsz1]; exact this)
    refine ⟨r', by rw [hstep, e1], by rw [e2, hsz1], e3, ?_, ?_⟩
    · intro u hu
      rw [e4 u (fun h => hu (by simp [h]))]
      have : a ≠ u := fun e => hu (by simp [e])
      simp [d1, Array.getElem?_setIfInBounds, this]
    · intro s hs
      rcases List.mem_cons.mp hs with hs | hs
      · subst hs
        by_cases hmem : s ∈ t
        · exact e5 s hmem
        · rw [e4 s hmem]
          show (d.raw.units.setIfInBounds s v)[s]? = some v
          rw [Array.getElem?_setIfInBounds]
          simp only [if_true, h2]
      · exact e5 s hs

/-! ## the all-zero FAT buffer -/

theorem fn_zero (N : Nat) : fn (Array.replicate N 0) = fun _ => 0 := by
  funext i
  unfold fn
  by_cases h : i < N
  · simp [Array.getD, h]
  · simp [Array.getD, h]

theorem array_eq_of_fn {a b : Array Nat} (hs : a.size = b.size) (h : fn a = fn b) : a = b := by
  apply Array.ext hs
  intro i h1 h2
  have := congrFun h i
  rw [fn_of_lt h1, fn_of_lt h2] at this
  exact this

theorem rd12_zero (n : Nat) : rd12 (fun _ => 0) n = 0 := by
  unfold rd12
  simp

theorem wr12_zero (n : Nat) : wr12 (fun _ => 0) n 0 = fun _ => 0 := by
  funext i
  unfold wr12 v16
  simp

theorem inBuf_zero {N n : Nat} (h : n + n / 2 + 1 < N) : InBuf (Array.replicate N 0) n := by
  unfold InBuf
  simpa using h

theorem setCluster_zero {N n : Nat} (h : n + n / 2 + 1 < N) :
    setCluster 12 (Array.replicate N 0) n 0 = .ok (Array.replicate N 0) := by
  obtain ⟨b, e, hs, hf⟩ := setCluster12_spec (v := 0) (inBuf_zero h)
  rw [e]
  congr 1
  apply array_eq_of_fn hs
  rw [hf, fn_zero, wr12_zero]

theorem getCluster_zero {N n : Nat} (h : n + n / 2 + 1 < N) : getCluster 12 (Array.replicate N 0) n = .ok 0 := by
  rw [getCluster12_eq (inBuf_zero h), fn_zero, rd12_zero]

/-- `repair` of an all-zero FAT against an all-zero backup changes nothing -/
theorem repairLoop_zero (N ce : Nat) : ∀ (cs : List Nat), (∀ c ∈ cs, c + c / 2 + 1 < N) →
    repairLoop 12 (Array.replicate N 0) ce cs (Array.replicate N 0) = .ok (Array.replicate N 0) := by
  intro cs
  induction cs with
  | nil => intro _; rfl
  | cons n ns ih =>
    intro h
    have hn := h n (by simp)
    have hg := getCluster_zero hn
    have hd : isDamaged 12 (Array.replicate N 0) n = .ok false := by
      unfold isDamaged
      rw [hg]
      rfl
    rw [repairLoop]
    simp only [hg, hd, bind, Except.bind, ite_self, setCluster_zero hn]
    exact ih (fun c hc => h c (by simp [hc]))

theorem zero_secs {r : Raw} : ∀ (n s : Nat), (∀ j, j < n → r.units[s + j]? = some (List.replicate 512 0)) →
    ((List.range' s n).map (fun u => r.units.getD u [])).flatten = List.replicate (n * 512) 0 := by
  intro n
  induction n with
  | zero => intro s _; simp
  | succ n ih =>
    intro s h
    have h0 := h 0 (by omega)
    rw [List.range'_succ, List.map_cons, List.flatten_cons, ih (s + 1) (fun j hj => by have := h (j + 1) (by omega); rw [← this]; congr 1; omega)]
    simp only [Nat.add_zero] at h0
    rw [Array.getD_eq_getD_getElem?, h0, Option.getD_some, List.replicate_append_replicate]
    congr 1
    omega

/-! ## fill loop and boot sector -/

theorem rootBeg_le_firstData (b : Fs.Fat.Bpb) : b.rootBeg ≤ b.firstDataSec := by
  unfold Bpb.rootBeg Bpb.firstDataSec; omega

/-- after the fill loop and the write of the boot sector: `Geo` holds, the FAT buffer is still closed, every sector of
the reserved/FAT/root area other than sector 0 is zero -/
theorem format_fill {d : Disk} {boot : Bytes} (p : FmtPre d boot) :
    ∃ r1 r2, fillLoop d.bpb.firstDataSec d.bpb.secSize (List.range d.bpb.totSec) d = (.ok (), { d with raw := r1 }) ∧
      imgWriteSector r1 0 boot = .ok r2 ∧ Geo { d with raw := r2 } ∧
      (∀ s, 1 ≤ s → s < d.bpb.firstDataSec → r2.units[s]? = some (List.replicate 512 0)) := by
  have hfit := p.fits
  obtain ⟨r1, e1, e2, e3, e4, e5⟩ := fillLoop_spec d.bpb.firstDataSec (List.range d.bpb.totSec) d p.spt p.heads p.ulen
    (fun s hs => by
      have hs' : s < d.bpb.totSec := List.mem_range.mp hs
      exact ⟨p.chs s hs', by omega⟩)
  have hss : d.bpb.secSize = 512 := p.bps
  have h0 : 0 < r1.units.size := by rw [e2]; omega
  have hq : quantize boot r1.unitLen = boot := by
    unfold quantize
    rw [e3, if_pos p.bootLen]
  refine ⟨r1, { r1 with units := r1.units.setIfInBounds 0 boot }, by rw [hss]; exact e1, ?_, ?_, ?_⟩
  · unfold imgWriteSector
    rw [if_pos h0, hq]
  · have hsz : (r1.units.setIfInBounds 0 boot).size = d.raw.units.size := by simp [e2]
    refine { boot := ⟨boot, ?_, p.bootBpb⟩, ulen := e3, usz := ?_, bps := p.bps, spc := p.spc, nfat := p.nfat, fat16 := p.fat16,
             spt := p.spt, heads := p.heads, typ := p.typ, ftyp := p.ftyp, rsvd := p.rsvd, fits := ?_, chs := ?_ }
    · show (r1.units.setIfInBounds 0 boot)[0]? = some boot
      rw [Array.getElem?_setIfInBounds]
      simp [h0]
    · intro i hi
      have hi' : i < d.raw.units.size := by rw [← hsz]; exact hi
      have hget : (r1.units.setIfInBounds 0 boot)[i]? = some ((r1.units.setIfInBounds 0 boot)[i]) := Array.getElem?_eq_getElem hi
      show ((r1.units.setIfInBounds 0 boot)[i]).length = 512
      rw [Array.getElem?_setIfInBounds] at hget
      by_cases hi0 : 0 = i
      · rw [if_pos hi0, if_pos h0] at hget
        injection hget with hget
        rw [← hget]; exact p.bootLen
      · rw [if_neg hi0] at hget
        by_cases hit : i < d.bpb.totSec
        · rw [e5 i (List.mem_range.mpr hit)] at hget
          injection hget with hget
          rw [← hget]; exact List.length_replicate
        · rw [e4 i (fun h => hit (List.mem_range.mp h)), Array.getElem?_eq_getElem hi'] at hget
          injection hget with hget
          rw [← hget]; exact p.usz i hi'
    · show d.bpb.firstDataSec < d.bpb.totSec ∧ d.bpb.totSec ≤ (r1.units.setIfInBounds 0 boot).size
      rw [hsz]; exact p.fits
    · show ∀ s, s < d.bpb.totSec → s / d.bpb.spt < (r1.units.setIfInBounds 0 boot).size / d.bpb.spt
      rw [hsz]; exact p.chs
  · intro s h1 h2
    show (r1.units.setIfInBounds 0 boot)[s]? = _
    rw [Array.getElem?_setIfInBounds, if_neg (by omega), e5 s (List.mem_range.mpr (by omega)), if_pos h2]

/-! ## opening the FAT buffer of a zeroed FAT area -/

theorem inbuf_of_usable {d : Disk} (g : Geo d) {c : Nat} (hc : c < firstDataCluster + d.bpb.clusterCountUsable) :
    c + c / 2 + 1 < d.bpb.fatSecs * 512 := by
  have hu := usable_le (b := d.bpb)
  have h2 := hu.2
  rw [g.ftyp] at h2
  unfold Bpb.secSize at h2
  rw [g.bps] at h2
  have hx : 512 ≤ d.bpb.fatSecs * 512 := by
    have := g.fat16
    rw [fatSecs_eq g]; omega
  generalize d.bpb.fatSecs * 512 = x at h2 hx ⊢
  unfold firstDataCluster at hc
  omega

theorem fatSec_lt {d : Disk} (g : Geo d) {k j : Nat} (hk : k < d.bpb.nfat) (hj : j < d.bpb.fatSecs) :
    1 ≤ d.bpb.rsvd + k * d.bpb.fatSecs + j ∧ d.bpb.rsvd + k * d.bpb.fatSecs + j < d.bpb.rootBeg := by
  have := g.rsvd
  unfold Bpb.rootBeg
  have h2 : (k + 1) * d.bpb.fatSecs ≤ d.bpb.nfat * d.bpb.fatSecs := Nat.mul_le_mul_right _ hk
  rw [Nat.add_mul] at h2
  omega

theorem format_open {d : Disk} (g : Geo d) (hf : d.fat = none)
    (hz : ∀ s, 1 ≤ s → s < d.bpb.firstDataSec → d.raw.units[s]? = some (List.replicate 512 0)) :
    getFatBuffer d = (.ok (Array.replicate (d.bpb.fatSecs * 512) 0),
      { d with fat := some (Array.replicate (d.bpb.fatSecs * 512) 0) }) := by
  have hfit := g.fits
  have hrf := rootBeg_le_firstData d.bpb
  have hread : ∀ k, k < d.bpb.nfat → readSectors (List.range' (d.bpb.resSecs + k * d.bpb.fatSecs) d.bpb.fatSecs) d =
      (.ok (List.replicate (d.bpb.fatSecs * 512) 0), d) := by
    intro k hk
    rw [readSectors_ok g]
    · rw [zero_secs]
      intro j hj
      have := fatSec_lt g hk hj
      exact hz _ this.1 (by unfold Bpb.resSecs; omega)
    · intro s hs
      rw [List.mem_range'_1] at hs
      have hr : d.bpb.resSecs = d.bpb.rsvd := rfl
      rw [hr] at hs
      have := fatSec_lt g hk (j := s - (d.bpb.rsvd + k * d.bpb.fatSecs)) (by omega)
      omega
  have hback : ∀ (ks : List Nat), (∀ k ∈ ks, k < d.bpb.nfat) →
      backupLoop ks (Array.replicate (d.bpb.fatSecs * 512) 0) d = (.ok (Array.replicate (d.bpb.fatSecs * 512) 0), d) := by
    intro ks
    induction ks with
    | nil => intro _; rfl
    | cons k ks ih =>
      intro h
      rw [backupLoop]
      simp only [M_bind_apply, M.get, hread k (h k (by simp)), M.lift, List.toArray_replicate, g.typ]
      rw [repairLoop_zero]
      · exact ih (fun x hx => h x (by simp [hx]))
      · intro c hc
        rw [List.mem_range'_1] at hc
        exact inbuf_of_usable g (by omega)
  have hopen : openFatBuffer d = (.ok (), { d with fat := some (Array.replicate (d.bpb.fatSecs * 512) 0) }) := by
    unfold openFatBuffer
    simp only [M_bind_apply, M.get, hf]
    have h0 := hread 0 (Nat.pos_of_ne_zero g.nfat)
    simp only [Nat.zero_mul, Nat.add_zero] at h0
    simp only [h0, List.toArray_replicate]
    rw [hback]
    · rfl
    · intro k hk
      rw [List.mem_range'_1] at hk
      omega
  unfold getFatBuffer
  simp only [hf, hopen]

/-! ## entries 0 and 1 of the FAT -/

theorem bytesOk_zero (N : Nat) : BytesOk (Array.replicate N 0) := by
  intro i
  rw [fn_zero]
  show (0 : Nat) < 256
  omega

theorem format_fat01 (N v : Nat) (hN : 512 ≤ N) :
    ∃ f1 f2, setCluster 12 (Array.replicate N 0) 0 v = .ok f1 ∧ markLast 12 f1 1 = .ok f2 ∧ f2.size = N ∧ BytesOk f2 ∧
      ∀ m, 2 ≤ m → nxt f2 m = 0 := by
  have hi0 : InBuf (Array.replicate N 0) 0 := inBuf_zero (by omega)
  obtain ⟨f1, e1, s1, g1⟩ := setCluster12_spec (v := v) hi0
  have b1 : BytesOk f1 := bytesOk_setCluster (bytesOk_zero N) e1
  have hi1 : InBuf f1 1 := by unfold InBuf; rw [s1]; simp; omega
  obtain ⟨f2, e2, s2, g2⟩ := setCluster12_spec (v := 0xfff) hi1
  refine ⟨f1, f2, e1, by simpa [markLast, eocSet] using e2, by rw [s2, s1]; simp, bytesOk_setCluster b1 e2, ?_⟩
  intro m hm
  unfold nxt
  rw [g2, rd_wr_other _ _ _ _ (by omega) b1, g1, rd_wr_other _ _ _ _ (by omega) (bytesOk_zero N), fn_zero, rd12_zero]

/-! ## the label entry -/

/-- the entry `format` writes for the label -/
def labelEntry (vol : Bytes) (now : Stamp) : Bytes :=
  Entry.setAttr (entryCreate (stringToLabelName vol) VOLUME_ID now) (VOLUME_ID ||| ARCHIVE)

theorem labelEntry_spec {vol : Bytes} {now : Stamp} (hs : StampOk now) :
    (labelEntry vol now).length = 32 ∧ (labelEntry vol now).getD 11 0 = 40 ∧
      (labelEntry vol now).getD 0 0 = (stringToLabelName vol).getD 0 0 := by
  have hn : (stringToLabelName vol).length = 11 := padTo_length _ _
  obtain ⟨c1, c2, c3⟩ := entryCreate_length hn VOLUME_ID hs
  unfold labelEntry Entry.setAttr Entry.attr
  obtain ⟨a1, a2, a3, a4⟩ := setAttrField_spec c1 ((entryCreate (stringToLabelName vol) VOLUME_ID now).getD 11 0 ||| (VOLUME_ID ||| ARCHIVE))
  refine ⟨a1, by rw [a3, c2]; decide, ?_⟩
  rw [a4 0 (by omega)]
  have : (entryCreate (stringToLabelName vol) VOLUME_ID now).getD 0 0 = ((entryCreate (stringToLabelName vol) VOLUME_ID now).take 11).getD 0 0 := by
    simp [List.getD_eq_getElem?_getD, List.getElem?_take]
  rw [this, c3]

theorem take16_set0 {K : Nat} (hK : 16 ≤ K) (z lab : Bytes) :
    (((List.replicate K z).set 0 lab).drop (0 / 16 * 16)).take 16 = lab :: List.replicate 15 z := by
  obtain ⟨K', rfl⟩ : ∃ K', K = K' + 1 := ⟨K - 1, by omega⟩
  rw [List.replicate_succ, List.set_cons_zero]
  simp only [Nat.zero_div, Nat.zero_mul, List.drop_zero]
  rw [show (16 : Nat) = 15 + 1 from rfl, List.take_succ_cons, List.take_replicate]
  congr 2
  omega

theorem rootBuf_range' (d : Disk) :
    rootBuf d = ((List.range' d.bpb.rootBeg d.bpb.rootDirSecs).map (fun u => d.raw.units.getD u [])).flatten := by
  unfold rootBuf
  rw [range'_eq_map, List.map_map]
  rfl

/-- a zeroed root directory area is a directory of end marks, and `format`'s write of the label entry (from its scratch
directory of zero entries) is the write-back of entry 0 of that directory -/
theorem format_label {d : Disk} (g : Geo d) (hr : 1 ≤ d.bpb.rootDirSecs)
    (hz : ∀ s, d.bpb.rootBeg ≤ s → s < d.bpb.firstDataSec → d.raw.units[s]? = some (List.replicate 512 0))
    {R : Nat} (hR : 16 ≤ R) (lab : Bytes) :
    dirOfBytes (rootBuf d) = List.replicate (16 * d.bpb.rootDirSecs) (zeros 32) ∧
    writebackDirectoryEntry none 0 (List.replicate R (zeros entrySize)) lab d = (.ok (), rootWrite d 0 lab) := by
  have hdir : dirOfBytes (rootBuf d) = List.replicate (16 * d.bpb.rootDirSecs) (zeros 32) := by
    have hb : rootBuf d = (List.replicate (16 * d.bpb.rootDirSecs) (zeros 32)).flatten := by
      rw [rootBuf_range', zero_secs]
      · unfold zeros
        rw [List.flatten_replicate_replicate]
        congr 1
        omega
      · intro j hj
        exact hz _ (by omega) (by unfold Bpb.firstDataSec Bpb.rootBeg; omega)
    rw [hb]
    apply dirOfBytes_flatten
    intro x hx
    rw [(List.mem_replicate.mp hx).2]
    simp [zeros]
  refine ⟨hdir, ?_⟩
  rw [writebackRoot_any g (by simp; omega) (by simp; omega) (by simp; omega)]
  unfold rootWrite rootSector
  rw [hdir, take16_set0 hR, take16_set0 (by omega)]

/-! ## a directory of end marks and at most a label reads as empty -/

/-- an entry the reader (and `build_files` of the repaired variant) passes over: an end mark or a label -/
def Blankish (e : Bytes) : Prop :=
  e.getD 0 0 = 0 ∨ (e.length = 32 ∧ e.getD 0 0 ≠ 0 ∧ (e.getD 11 0 / 8) % 2 = 1 ∧ entryType e = .volumeLabel)

theorem act_blankish : ∀ (E : List Bytes), (∀ e ∈ E, Blankish e) → act E = [] := by
  intro E
  induction E with
  | nil => intro _; rfl
  | cons a t ih =>
    intro h
    rw [act]
    rcases h a (by simp) with h0 | ⟨hl, h0, h8, _⟩
    · rw [if_pos (Or.inl h0)]
    · rw [if_neg (by omega), if_pos (Or.inr (Or.inr h8))]
      exact ih (fun e he => h e (by simp [he]))

/-- **a freshly formatted state satisfies the invariant**: `Geo`, `Coh`, a root directory of end marks and at most a
label entry, and a FAT that marks every data cluster free give `Inv`, a reading without files, all clusters free -/
theorem inv_of_empty {d : Disk} {f : Array Nat} (hlf : d.labelFiles = false) (g : Geo d) (c : Coh d f)
    (hfree : ∀ m, 2 ≤ m → nxt f m = 0) (hE : ∀ e ∈ dirOfBytes (rootBuf d), Blankish e)
    (ht : TailZero (dirOfBytes (rootBuf d))) :
    Inv d ∧ (volOf d).files = [] ∧ (volOf d).free = d.bpb.clusterCountUsable := by
  have hents : dirEnts (rootBuf d) = [] := by rw [dirEnts_eq, act_blankish _ hE]; rfl
  have hread : readT d.raw = .ok (mkVol d.bpb f []) := by
    rw [readT_eq g c, readFrom_iff]
    exact ⟨[], by rw [hents]; rfl, rfl⟩
  obtain ⟨hwf, hnl⟩ := mkVol_empty (b := d.bpb) hfree
  have hvol := volOf_of_read hread
  refine ⟨{ lf := hlf, geo := g, coh := ⟨f, c⟩, root := ?_, tail := ht, read := ⟨_, hread, hwf, hnl⟩ }, by rw [hvol]; rfl, ?_⟩
  · intro e he h0 h5 hl
    rcases hE e he with h | ⟨_, _, _, h⟩
    · exact absurd h h0
    · exact absurd h hl
  · rw [hvol]
    show (freeUnitsOf d.bpb f).length = _
    rw [freeUnits_length]
    unfold freeCount
    rw [List.countP_eq_length_filter, List.filter_eq_self.mpr]
    · simp [clusters]
    · intro m hm
      have := (clusInRng_bounds (mem_clusters.mp hm)).1
      unfold isFree12
      have h := hfree m this
      unfold nxt at h
      rw [h]; rfl

/-! ## the run of `format` -/

theorem charOk_bounds {c : Nat} (h : charOk c = true) : 32 ≤ c ∧ c < 127 := by
  unfold charOk isAsciiControl at h
  simp only [Bool.and_eq_true, decide_eq_true_eq, Bool.not_eq_true', Bool.or_eq_false_iff, decide_eq_false_iff_not, beq_eq_false_iff_ne] at h
  omega

theorem label_first {vol : Bytes} (h : isLabelValid vol = true) :
    (stringToLabelName vol).getD 0 0 ≠ 0 ∧ (stringToLabelName vol).getD 0 0 ≠ 0xE5 := by
  unfold isLabelValid at h
  cases vol with
  | nil => simp at h
  | cons c cs =>
    simp only [Bool.and_eq_true, List.all_cons] at h
    have hc := charOk_bounds h.2.1
    have : (stringToLabelName (c :: cs)).getD 0 0 = upperByte c := by
      unfold stringToLabelName padTo upper
      simp
    rw [this]
    unfold upperByte
    split <;> omega

theorem labelEntry_blankish {vol : Bytes} {now : Stamp} (hv : isLabelValid vol = true) (hs : StampOk now) :
    Blankish (labelEntry vol now) := by
  obtain ⟨l1, l2, l3⟩ := labelEntry_spec (vol := vol) hs
  obtain ⟨f0, f5⟩ := label_first hv
  right
  refine ⟨l1, by rw [l3]; exact f0, by rw [l2], ?_⟩
  apply entryType_label (by rw [l3]; exact f5) (by rw [l3]; exact f0)
  · rw [l2]; decide
  · rw [l2]; decide

theorem zeros_blankish : Blankish (zeros 32) := Or.inl rfl

theorem tailZero_of_rest {E : List Bytes} (h : ∀ j e, 1 ≤ j → E[j]? = some e → e.getD 0 0 = 0) : TailZero E := by
  intro i j e1 e2 hij _ h2 _
  exact h j e2 (by omega) h2

theorem blank_dir_facts (K : Nat) : (∀ e ∈ List.replicate K (zeros 32), Blankish e) ∧ TailZero (List.replicate K (zeros 32)) := by
  constructor
  · intro e he
    rw [(List.mem_replicate.mp he).2]; exact zeros_blankish
  · apply tailZero_of_rest
    intro j e _ he
    rw [List.getElem?_replicate] at he
    split at he
    · injection he with he
      subst he
      rfl
    · cases he

theorem label_dir_facts (K : Nat) {lab : Bytes} (hl : Blankish lab) :
    (∀ e ∈ (List.replicate K (zeros 32)).set 0 lab, Blankish e) ∧ TailZero ((List.replicate K (zeros 32)).set 0 lab) := by
  constructor
  · intro e he
    rcases List.mem_or_eq_of_mem_set he with h | h
    · rw [(List.mem_replicate.mp h).2]; exact zeros_blankish
    · rw [h]; exact hl
  · apply tailZero_of_rest
    intro j e hj he
    have hne : ¬ (0 = j) := by omega
    rw [List.getElem?_set, if_neg hne, List.getElem?_replicate] at he
    split at he
    · injection he with he
      subst he
      rfl
    · cases he

/-- the part of `format` before the final write-back of the FAT buffer -/
theorem format_pre_flush {d : Disk} {boot vol : Bytes} {now : Stamp} (p : FmtPre d boot)
    (hv : isLabelValid vol = true ∨ vol = []) (hs : StampOk now) :
    ∃ d5 f2, Geo d5 ∧ d5.fat = some f2 ∧ f2.size = d.bpb.fatSecs * 512 ∧ BytesOk f2 ∧ (∀ m, 2 ≤ m → nxt f2 m = 0) ∧
      d5.bpb = d.bpb ∧ d5.labelFiles = false ∧
      (∀ e ∈ dirOfBytes (rootBuf d5), Blankish e) ∧ TailZero (dirOfBytes (rootBuf d5)) ∧
      format vol boot now d = writebackFatBuffer d5 := by
  obtain ⟨r1, r2, hfill, hboot, g2, hz2⟩ := format_fill p
  have g2n : Geo ({ d with raw := r2, fat := none } : Disk) := geo_setFat g2 none
  have hopen := format_open g2n rfl hz2
  have hN : 512 ≤ d.bpb.fatSecs * 512 := by
    have := p.fat16
    have : d.bpb.fatSecs = d.bpb.fat16 := by unfold Bpb.fatSecs; simp [p.fat16]
    omega
  obtain ⟨f1, f2, hs0, hs1, hsz, hb2, hfree⟩ := format_fat01 (d.bpb.fatSecs * 512) (d.bpb.media + 0xf00) hN
  have g4 : Geo ({ d with raw := r2, fat := some f2 } : Disk) := geo_setFat g2 (some f2)
  have hz4 : ∀ s, d.bpb.rootBeg ≤ s → s < d.bpb.firstDataSec → r2.units[s]? = some (List.replicate 512 0) := by
    intro s h1 h2
    have := p.rsvd
    exact hz2 s (by unfold Bpb.rootBeg at h1; omega) h2
  have h32 : ¬ (d.typ = 32) := by rw [p.typ]; omega
  rw [← p.typ] at hs0 hs1
  obtain ⟨hdir, hwb⟩ := format_label g4 p.rootSecs hz4 p.rootEnts (labelEntry vol now)
  by_cases hvl : vol.length > 0
  · have hvalid : isLabelValid vol = true := by
      rcases hv with h | h
      · exact h
      · subst h; simp at hvl
    obtain ⟨l1, _, _⟩ := labelEntry_spec (vol := vol) hs
    have hi : 0 < (dirOfBytes (rootBuf ({ d with raw := r2, fat := some f2 } : Disk))).length := by
      rw [hdir, List.length_replicate]
      show 0 < 16 * d.bpb.rootDirSecs
      have := p.rootSecs
      omega
    have hE5 := rootWrite_entries g4 hi l1
    rw [hdir] at hE5
    obtain ⟨q1, q2⟩ := label_dir_facts (16 * d.bpb.rootDirSecs) (labelEntry_blankish hvalid hs)
    refine ⟨rootWrite { d with raw := r2, fat := some f2 } 0 (labelEntry vol now), f2, rootWrite_geo g4 hi l1, rfl, hsz, hb2, hfree,
      rfl, p.lf, by rw [hE5]; exact q1, by rw [hE5]; exact q2, ?_⟩
    unfold format
    simp only [hvalid, hvl, Bool.not_true, Bool.false_and, Bool.false_eq_true, if_false, M_bind_apply, M.get, hfill, M.lift, hboot,
      M.setRaw, M.dropFat, hopen, hs0, hs1, M.setFat, h32, if_true]
    have : labelEntry vol now = Entry.setAttr (entryCreate (stringToLabelName vol) VOLUME_ID now) (VOLUME_ID ||| ARCHIVE) := rfl
    rw [← this, hwb]
  · obtain ⟨q1, q2⟩ := blank_dir_facts (16 * d.bpb.rootDirSecs)
    refine ⟨{ d with raw := r2, fat := some f2 }, f2, g4, rfl, hsz, hb2, hfree, rfl, p.lf, by rw [hdir]; exact q1, by rw [hdir]; exact q2, ?_⟩
    unfold format
    simp only [hvl, decide_false, Bool.and_false, Bool.false_eq_true, if_false, M_bind_apply, M.get, hfill, M.lift, hboot,
      M.setRaw, M.dropFat, hopen, hs0, hs1, M.setFat, h32, M_pure_apply]

/-- the run of `format`, observed after `get_img()`: it succeeds; the state reached has `Geo` and `Coh`, a FAT in which
every data cluster is free, and a root directory of end marks preceded by at most the label entry -/
theorem format_run {d : Disk} {boot vol : Bytes} {now : Stamp} (p : FmtPre d boot)
    (hv : isLabelValid vol = true ∨ vol = []) (hs : StampOk now) :
    ∃ d' f, runFlush (format vol boot now) d = (.ok (), d') ∧ d'.labelFiles = false ∧ d'.bpb = d.bpb ∧ Geo d' ∧ Coh d' f ∧
      (∀ m, 2 ≤ m → nxt f m = 0) ∧ (∀ e ∈ dirOfBytes (rootBuf d'), Blankish e) ∧ TailZero (dirOfBytes (rootBuf d')) := by
  obtain ⟨d5, f2, g5, hf5, hsz, hb2, hfree, hb5, hlf5, hE5, ht5, hrun⟩ := format_pre_flush p hv hs
  obtain ⟨r6, m1, g6, c6, m4⟩ := flush_spec g5 hf5 (by rw [hsz, hb5]) hb2
  have hroot : rootBuf ({ d5 with raw := r6 } : Disk) = rootBuf d5 := rootBuf_congr rfl (fun u hu => m4 u (Or.inr hu))
  refine ⟨{ d5 with raw := r6 }, f2, ?_, hlf5, hb5, g6, c6, hfree, by rw [hroot]; exact hE5, by rw [hroot]; exact ht5⟩
  unfold runFlush
  rw [hrun]
  have : writebackFatBuffer d5 = flush d5 := rfl
  rw [this, m1]
  simp only [flush_noop g6 c6]

/-- `format` keeps the BIOS parameter block -/
theorem format_bpb {d : Disk} {boot vol : Bytes} {now : Stamp} (p : FmtPre d boot)
    (hv : isLabelValid vol = true ∨ vol = []) (hs : StampOk now) : (runFlush (format vol boot now) d).2.bpb = d.bpb := by
  obtain ⟨d', f, hrun, _, hb, _⟩ := format_run p hv hs
  rw [hrun]
  exact hb

/-! ## the blank image of the tie satisfies `FmtPre` -/

/-- the arithmetic facts about a BIOS parameter block and an image of `count` units that `FmtPre` asks for -/
def fmtOkB (b : Fs.Fat.Bpb) (count : Nat) : Bool :=
  decide (b.bps = 512) && decide (b.spc ≠ 0) && decide (b.nfat ≠ 0) && decide (b.fat16 ≠ 0) && decide (b.spt ≠ 0) &&
  decide (b.heads ≠ 0) && decide (b.fatType = 12) && decide (1 ≤ b.rsvd) && decide (b.firstDataSec < b.totSec) &&
  decide (b.totSec ≤ count) && decide (b.totSec ≤ count / b.spt * b.spt) && decide (1 ≤ b.rootDirSecs) &&
  decide (16 ≤ b.rootDirEntries)

/-- the state the tie (and `a2kit mkdsk`) formats: `count` zeroed 512-byte units and the BPB of the boot sector `boot` -/
def blankDisk (boot : Bytes) (count : Nat) : Disk :=
  Disk.ofImg { unitLen := 512, units := Array.replicate count (List.replicate 512 0) } (Bpb.ofBoot boot) false

theorem fmtPre_blank {boot : Bytes} {count : Nat} (hl : boot.length = 512) (h : fmtOkB (Bpb.ofBoot boot) count = true) :
    FmtPre (blankDisk boot count) boot := by
  unfold fmtOkB at h
  simp only [Bool.and_eq_true, decide_eq_true_eq] at h
  obtain ⟨⟨⟨⟨⟨⟨⟨⟨⟨⟨⟨⟨h1, h2⟩, h3⟩, h4⟩, h5⟩, h6⟩, h7⟩, h8⟩, h9⟩, h10⟩, h11⟩, h12⟩, h13⟩ := h
  have hsz : (blankDisk boot count).raw.units.size = count := by
    show (Array.replicate count (List.replicate 512 0)).size = count
    exact Array.size_replicate
  refine { lf := rfl, bootLen := hl, bootBpb := rfl, ulen := rfl, usz := ?_, bps := h1, spc := h2, nfat := h3, fat16 := h4,
           spt := h5, heads := h6, typ := h7, ftyp := h7, rsvd := h8, fits := ⟨h9, by rw [hsz]; exact h10⟩, chs := ?_,
           rootSecs := h12, rootEnts := h13 }
  · intro i hi
    have hi' : i < (Array.replicate count (List.replicate 512 0)).size := hi
    show ((Array.replicate count (List.replicate 512 0))[i]'hi').length = 512
    rw [Array.getElem_replicate]
    exact List.length_replicate
  · intro s hs
    rw [hsz]
    show s / (Bpb.ofBoot boot).spt < count / (Bpb.ofBoot boot).spt
    have hlt : s < count / (Bpb.ofBoot boot).spt * (Bpb.ofBoot boot).spt := Nat.lt_of_lt_of_le hs h11
    exact (Nat.div_lt_iff_lt_mul (Nat.pos_of_ne_zero h5)).mpr hlt

end A2Verif.FsFat
