import A2Verif.Lemmas.FsDosPutA
/-!
# `put`, part B: the loop of `write_file` while it fills one T/S list

The loop body is split into `bodyA` (the data sector or hole of one chunk index) and `bodyB` (the spill to a new T/S
list, or the next iteration).  `LI K p st w` is the loop invariant of the T/S list described by `K` (its sector,
the chunk index `K.base` of its first pair, the state `K.img0`/`K.v0` when it was started) after `p` pairs: the list
under construction holds the pairs of the chunks written so far (holes are (0,0)), every data sector holds its chunk
padded to the sector, all sectors taken are distinct, were free when the list was started and are marked used now,
everything else is untouched, and enough free sectors remain for the chunks and T/S lists still to come.
Core Lean only.
-/
set_option linter.unusedSimpArgs false
namespace A2Verif.Fs.Dos3x
open A2Verif.FsDos A2Verif.Read.Dos3x

theorem mem_pairUnits {c : Nat} {b : Bytes} {x : Nat} :
    x ∈ pairUnits c b (List.range 122) ↔ ∃ k, k < 122 ∧ pairT b k ≠ 0 ∧ x = pairT b k * c + pairS b k := by
  unfold pairUnits
  rw [List.mem_filterMap]
  constructor
  · rintro ⟨k, hk, h⟩
    by_cases h0 : pairT b k = 0
    · simp [h0] at h
    · simp only [h0, if_false, Option.some.injEq] at h
      exact ⟨k, List.mem_range.1 hk, h0, h.symm⟩
  · rintro ⟨k, hk, h0, rfl⟩
    exact ⟨k, List.mem_range.2 hk, by simp [h0]⟩

theorem pair_splice {b : Bytes} {s a a' k : Nat} (hb : b.length = 256) (hs : s < 122) :
    pairT (splice b (12 + 2 * s) [a, a']) k = (if k = s then a else pairT b k) ∧
    pairS (splice b (12 + 2 * s) [a, a']) k = (if k = s then a' else pairS b k) := by
  have hl : 12 + 2 * s + [a, a'].length ≤ b.length := by rw [hb]; simp; omega
  unfold pairT pairS
  by_cases hk : k = s
  · subst hk
    have e0 := getD_splice_in (e := b) (new := [a, a']) (off := 12 + 2 * k) (j := 0) hl (by simp)
    have e1 := getD_splice_in (e := b) (new := [a, a']) (off := 12 + 2 * k) (j := 1) hl (by simp)
    simp only [if_true]
    exact ⟨by simpa using e0, by rw [show 0x0D + 2 * k = 12 + 2 * k + 1 by omega]; simpa using e1⟩
  · simp only [hk, if_false]
    exact ⟨getD_splice_other hl (by simp; omega), getD_splice_other hl (by simp; omega)⟩

theorem getD_zeros' (n i : Nat) : (zeros n).getD i 0 = 0 := by
  unfold zeros
  rw [getD_eq]
  by_cases h : i < n
  · rw [List.getElem?_replicate, if_pos h]; rfl
  · rw [List.getElem?_eq_none (by rw [List.length_replicate]; omega)]; rfl

theorem zeros_length' (n : Nat) : (zeros n).length = n := List.length_replicate

theorem allocM_apply {w : W} (h : WOk w) {t s : Nat} (ht : t < 35) (hs : s < w.c) :
    allocM t s w = (.ok (), w.withV (alloc' w.v w.c t s)) := by
  unfold allocM M.modV
  simp only [allocate_eq' h.vok ht hs]
  rfl

/-- the fixed data of one T/S list of a `write_file` run -/
structure PCtx where
  c : Nat
  img0 : Raw
  v0 : Bytes
  uT : Nat
  tt : Nat
  tsec : Nat
  ud : Nat
  dir3 : Bytes
  chunks : List (Nat × Bytes)
  endIdx : Nat
  /-- chunk index of pair 0 of this T/S list -/
  base : Nat
  /-- T/S lists still to be reserved after this one -/
  later : Nat

def PCtx.unit (K : PCtx) (b : Bytes) (k : Nat) : Nat := pairT b k * K.c + pairS b k

structure PCtxOk (K : PCtx) : Prop where
  hc : K.c = 13 ∨ K.c = 16
  huT : K.uT = K.tt * K.c + K.tsec
  htt1 : 1 ≤ K.tt
  htt : K.tt < 35
  htsec : K.tsec < K.c
  uTfree : isFreeU K.v0 K.c K.uT = true
  udUsed : isFreeU K.v0 K.c K.ud = false
  vtUsed : isFreeU K.v0 K.c (vtocTrack * K.c) = false
  udNe : K.ud ≠ vtocTrack * K.c
  dlen : K.dir3.length = 256

/-- chunks still to be written from index `s` on -/
def PCtx.todo (K : PCtx) (s : Nat) : Nat := ((rng s K.endIdx).filter (fun k => (K.chunks.lookup k).isSome)).length

structure LI (K : PCtx) (s : Nat) (st : LoopSt) (w : W) : Prop where
  wok : WOk w
  hc : w.c = K.c
  aok : AOk w.v K.c
  hst : st.tt = K.tt ∧ st.tsec = K.tsec ∧ st.p = s
  tlen : st.tsl.length = 256
  taken : Taken K.v0 w.v K.c (K.uT :: pairUnits K.c st.tsl (List.range 122))
  next0 : st.tsl.getD 1 0 = 0 ∧ st.tsl.getD 2 0 = 0
  pres : ∀ k d, k < s → K.chunks.lookup (K.base + k) = some d →
    pairT st.tsl k ≠ 0 ∧ pairT st.tsl k < 35 ∧ pairS st.tsl k < K.c ∧ sec w.img (K.unit st.tsl k) = quantize d
  hole : ∀ k, k < 122 → (s ≤ k ∨ K.chunks.lookup (K.base + k) = none) → pairT st.tsl k = 0
  dfree : ∀ k, k < 122 → pairT st.tsl k ≠ 0 → isFreeU K.v0 K.c (K.unit st.tsl k) = true ∧ K.unit st.tsl k ≠ K.uT
  inj : ∀ k k', k < 122 → k' < 122 → pairT st.tsl k ≠ 0 → pairT st.tsl k' ≠ 0 → K.unit st.tsl k = K.unit st.tsl k' → k = k'
  frame : ∀ x, x ≠ K.uT → x ≠ K.ud → x ≠ vtocTrack * K.c → (∀ k, k < 122 → pairT st.tsl k ≠ 0 → x ≠ K.unit st.tsl k) →
    sec w.img x = sec K.img0 x
  hud : sec w.img K.ud = K.dir3
  hT : 0 < s → sec w.img K.uT = st.tsl
  need : K.todo (K.base + s) + K.later ≤ nfree w.v K.c

theorem todo_step_some {K : PCtx} {s : Nat} {d : Bytes} (hs : s < K.endIdx) (h : K.chunks.lookup s = some d) :
    K.todo s = K.todo (s + 1) + 1 := by
  unfold PCtx.todo rng
  have : K.endIdx - s = (K.endIdx - (s + 1)) + 1 := by omega
  rw [this, List.range'_succ, List.filter_cons]
  simp [h]

theorem todo_step_none {K : PCtx} {s : Nat} (hs : s < K.endIdx) (h : K.chunks.lookup s = none) :
    K.todo s = K.todo (s + 1) := by
  unfold PCtx.todo rng
  have : K.endIdx - s = (K.endIdx - (s + 1)) + 1 := by omega
  rw [this, List.range'_succ, List.filter_cons]
  simp [h]


theorem updateLastTrackM_apply (t : Nat) (w : W) : updateLastTrackM t w = (.ok (), w.withV (updateLastTrack w.v t)) := rfl
theorem nextFreeM_apply (pj : Bool) (w : W) : nextFreeM pj w = (nextFree w.v pj, w) := rfl

/-! ## the loop body in two halves -/

/-- first half of the body of `for s in 0..fimg.end()`: the data sector (or the hole) of chunk index `s`; returns the
T/S list as rewritten -/
def bodyA (chunks : List (Nat × Bytes)) (s : Nat) (st : LoopSt) : M Bytes :=
  match chunks.lookup s with
  | some chunk => do
    let (dt, ds) ← nextFreeM false
    let tsl1 := splice st.tsl (12 + 2 * st.p) [dt, ds]
    writeSectorM tsl1 st.tt st.tsec
    writeSectorM chunk dt ds
    updateLastTrackM dt
    pure tsl1
  | none => do
    let tsl1 := splice st.tsl (12 + 2 * st.p) [0, 0]
    writeSectorM tsl1 st.tt st.tsec
    pure tsl1

/-- second half: spill to a new T/S list sector when this one is full and chunks remain, then the rest of the loop -/
def bodyB (chunks : List (Nat × Bytes)) (maxPairs endIdx s : Nat) (rest : List Nat) (st : LoopSt) (tsl1 : Bytes) : M Unit :=
  if st.p + 1 = maxPairs ∧ s + 1 ≠ endIdx then do
    let (nt, ns) ← nextFreeM false
    allocM nt ns
    let tsl2 := splice tsl1 1 [nt, ns]
    writeSectorM tsl2 st.tt st.tsec
    updateLastTrackM st.tt
    let sb := st.secBase + maxPairs
    putLoop chunks maxPairs endIdx rest
      { tsl := splice (zeros 256) 5 (u16le (sb % 65536)), tt := nt, tsec := ns, p := 0, secBase := sb }
  else putLoop chunks maxPairs endIdx rest { st with tsl := tsl1, p := st.p + 1 }

theorem putLoop_cons (chunks : List (Nat × Bytes)) (maxPairs endIdx s : Nat) (rest : List Nat) (st : LoopSt) :
    putLoop chunks maxPairs endIdx (s :: rest) st = bodyA chunks s st >>= bodyB chunks maxPairs endIdx s rest st := rfl

section step
variable {K : PCtx} {s : Nat} {st : LoopSt} {w : W} (hk : PCtxOk K) (hli : LI K s st w) (hs122 : s < 122)
  (hs : K.base + s < K.endIdx)
include hk hli hs122 hs

omit hs122 hs in
theorem uT_facts : K.uT < 35 * K.c ∧ K.uT ≠ vtocTrack * K.c ∧ K.uT ≠ K.ud ∧ ¬ (K.tt = vtocTrack ∧ K.tsec = 0) ∧
    bitFree w.v w.c K.tt K.tsec = false := by
  have h1 : K.uT < 35 * K.c := by rw [hk.huT]; exact unit_lt hk.htt hk.htsec
  have h2 : K.uT ≠ vtocTrack * K.c := fun e => by have := hk.uTfree; rw [e, hk.vtUsed] at this; cases this
  have h3 : K.uT ≠ K.ud := fun e => by have := hk.uTfree; rw [e, hk.udUsed] at this; cases this
  refine ⟨h1, h2, h3, fun e => h2 (by rw [hk.huT]; exact (unit_idx hk.htsec).2 e), ?_⟩
  have := isFreeU_taken hli.taken h1
  rw [hk.huT, isFreeU_unit hk.htsec] at this
  rw [hli.hc, this]
  simp

/-- the first half of one iteration at a hole -/
theorem body_none (hn : K.chunks.lookup (K.base + s) = none) :
    ∃ tsl1 w', bodyA K.chunks (K.base + s) st w = (.ok tsl1, w') ∧ LI K (s + 1) { st with tsl := tsl1, p := st.p + 1 } w' := by
  obtain ⟨hu1, hu2, hu3, hu4, hused⟩ := uT_facts hk hli
  have hl' : (splice st.tsl (12 + 2 * s) [0, 0]).length = 256 := by
    rw [splice_length (by rw [hli.tlen]; simp; omega)]; exact hli.tlen
  have hwr := writeSectorM_used hli.wok (t := K.tt) (s := K.tsec) (data := splice st.tsl (12 + 2 * s) [0, 0]) hk.htt
    (by rw [hli.hc]; exact hk.htsec) hu4 hl' hused
  have hps := fun k => pair_splice (b := st.tsl) (a := 0) (a' := 0) (k := k) hli.tlen hs122
  have hpT : ∀ k, pairT (splice st.tsl (12 + 2 * s) [0, 0]) k = pairT st.tsl k := by
    intro k; rw [(hps k).1]
    by_cases hks : k = s
    · subst hks; rw [if_pos rfl, hli.hole k hs122 (Or.inl (Nat.le_refl _))]
    · rw [if_neg hks]
  have hun : ∀ k, pairT st.tsl k ≠ 0 → K.unit (splice st.tsl (12 + 2 * s) [0, 0]) k = K.unit st.tsl k := by
    intro k h0
    have hks : k ≠ s := fun e => h0 (by rw [e]; exact hli.hole s hs122 (Or.inl (Nat.le_refl _)))
    unfold PCtx.unit
    rw [(hps k).1, (hps k).2, if_neg hks, if_neg hks]
  have hmem : ∀ y, y ∈ pairUnits K.c (splice st.tsl (12 + 2 * s) [0, 0]) (List.range 122) ↔ y ∈ pairUnits K.c st.tsl (List.range 122) := by
    intro y
    rw [mem_pairUnits, mem_pairUnits]
    constructor
    · rintro ⟨k, hk1, h0, rfl⟩
      rw [hpT] at h0
      exact ⟨k, hk1, h0, hun k h0⟩
    · rintro ⟨k, hk1, h0, rfl⟩
      exact ⟨k, hk1, by rw [hpT]; exact h0, (hun k h0).symm⟩
  have hsec : ∀ y, y ≠ vtocTrack * K.c →
      sec (w.wrote K.tt K.tsec (splice st.tsl (12 + 2 * s) [0, 0]) w.v).img y =
        if y = K.uT then splice st.tsl (12 + 2 * s) [0, 0] else sec w.img y := by
    intro y hy
    rw [sec_wrote' hli.wok hk.htt (by rw [hli.hc]; exact hk.htsec) _ _ (by rw [hli.hc]; exact hy), hli.hc, ← hk.huT]
  refine ⟨splice st.tsl (12 + 2 * s) [0, 0], w.wrote K.tt K.tsec (splice st.tsl (12 + 2 * s) [0, 0]) w.v, ?_, ?_⟩
  · unfold bodyA
    simp only [M.bind_apply, hn, hli.hst.2.2, hli.hst.1, hli.hst.2.1, hwr, M.pure_apply]
    rfl
  · refine ⟨wrote_ok hli.wok hk.htt (by rw [hli.hc]; exact hk.htsec) hl', hli.hc, hli.aok, ⟨hli.hst.1, hli.hst.2.1, by simp [hli.hst.2.2]⟩, hl',
      hli.taken.congr (fun y => by simp only [List.mem_cons, hmem]), ?_, ?_, ?_, ?_, ?_, ?_, ?_, ?_, ?_⟩
    · exact ⟨by rw [getD_splice_other (by rw [hli.tlen]; simp; omega) (by omega)]; exact hli.next0.1,
        by rw [getD_splice_other (by rw [hli.tlen]; simp; omega) (by omega)]; exact hli.next0.2⟩
    · intro k d hks hd
      have hks' : k < s := by
        rcases Nat.lt_succ_iff_lt_or_eq.1 hks with h | h
        · exact h
        · rw [h, hn] at hd; cases hd
      obtain ⟨a, b, c', e⟩ := hli.pres k d hks' hd
      have hdf := hli.dfree k (by omega) a
      refine ⟨by rw [hpT]; exact a, by rw [hpT]; exact b, by rw [(hps k).2, if_neg (by omega)]; exact c', ?_⟩
      rw [hun k a, hsec _ (fun e17 => by have := hdf.1; rw [e17, hk.vtUsed] at this; cases this), if_neg hdf.2]
      exact e
    · intro k hk1 hor
      rw [hpT]
      rcases hor with h | h
      · exact hli.hole k hk1 (Or.inl (by omega))
      · exact hli.hole k hk1 (Or.inr h)
    · intro k hk1 h0
      rw [hpT] at h0
      rw [hun k h0]; exact hli.dfree k hk1 h0
    · intro k k' a b h0 h0' e
      rw [hpT] at h0 h0'
      rw [hun k h0, hun k' h0'] at e
      exact hli.inj k k' a b h0 h0' e
    · intro y y1 y2 y3 y4
      rw [hsec y y3, if_neg y1]
      exact hli.frame y y1 y2 y3 (fun k hk1 h0 => by have := y4 k hk1 (by rw [hpT]; exact h0); rw [hun k h0] at this; exact this)
    · rw [hsec _ hk.udNe, if_neg (Ne.symm hu3)]; exact hli.hud
    · intro _
      rw [hsec _ hu2, if_pos rfl]
    · show K.todo (K.base + s + 1) + K.later ≤ _
      rw [← todo_step_none hs hn]; exact hli.need

/-- the first half of one iteration at a stored chunk -/
theorem body_some {d : Bytes} (hd : K.chunks.lookup (K.base + s) = some d) :
    ∃ tsl1 w', bodyA K.chunks (K.base + s) st w = (.ok tsl1, w') ∧ LI K (s + 1) { st with tsl := tsl1, p := st.p + 1 } w' := by
  obtain ⟨hu1, hu2, hu3, hu4, hused⟩ := uT_facts hk hli
  have hcw := hli.hc
  -- the data sector
  have hpos : 0 < nfree w.v K.c := by have := hli.need; rw [todo_step_some hs hd] at this; omega
  obtain ⟨a, b, hnf, ha1, ha35, hbc, hxf⟩ := alloc_step hli.aok hpos false
  have hx35 : a * K.c + b < 35 * K.c := unit_lt ha35 hbc
  have hxf' := hxf
  rw [isFreeU_taken hli.taken hx35] at hxf'
  simp only [Bool.and_eq_true, Bool.not_eq_true', decide_eq_false_iff_not, List.mem_cons, not_or] at hxf'
  obtain ⟨hx0, hxT, hxD⟩ := hxf'
  have hx17 : a * K.c + b ≠ vtocTrack * K.c := fun e => by rw [e, hk.vtUsed] at hx0; cases hx0
  have hxud : a * K.c + b ≠ K.ud := fun e => by rw [e, hk.udUsed] at hx0; cases hx0
  have hab : ¬ (a = vtocTrack ∧ b = 0) := fun e => hx17 ((unit_idx hbc).2 e)
  -- the T/S list sector
  have hl' : (splice st.tsl (12 + 2 * s) [a, b]).length = 256 := by
    rw [splice_length (by rw [hli.tlen]; simp; omega)]; exact hli.tlen
  have hwr1 := writeSectorM_used hli.wok (t := K.tt) (s := K.tsec) (data := splice st.tsl (12 + 2 * s) [a, b]) hk.htt
    (by rw [hcw]; exact hk.htsec) hu4 hl' hused
  generalize hw1 : w.wrote K.tt K.tsec (splice st.tsl (12 + 2 * s) [a, b]) w.v = w1 at hwr1
  have hok1 : WOk w1 := by rw [← hw1]; exact wrote_ok hli.wok hk.htt (by rw [hcw]; exact hk.htsec) hl'
  have hc1 : w1.c = K.c := by rw [← hw1]; exact hcw
  have hv1 : w1.v = w.v := by rw [← hw1]; rfl
  have hwr2 := writeSectorM_gen hok1 (t := a) (s := b) d ha35 (by rw [hc1]; exact hbc) hab
  rw [hc1, hv1] at hwr2
  have htk1 := alloc_taken hli.aok.ok ha35 hbc
  generalize hw2 : w1.wrote a b (quantize d) (alloc' w.v K.c a b) = w2 at hwr2
  have hok2 : WOk w2 := by
    rw [← hw2]; exact wrote_ok' hok1 ha35 (by rw [hc1]; exact hbc) (quantize_length d) (by rw [hc1]; exact htk1.ok)
  have hc2 : w2.c = K.c := by rw [← hw2]; exact hc1
  have hv2 : w2.v = alloc' w.v K.c a b := by rw [← hw2]; rfl
  have htk2 := updateLastTrack_taken htk1.ok ha35
  have hlt1 : Vtoc.lastTrack (alloc' w.v K.c a b) = Vtoc.lastTrack w.v :=
    getD_saveTrackMap_low hli.aok.ok.vlen ha35 (by decide)
  have hlast := updateLastTrack_last htk1.ok ha1 (by rw [hlt1]; exact hli.aok.lastTrack)
  have hwr3 := updateLastTrackM_apply a w2
  rw [hv2] at hwr3
  generalize hw3 : w2.withV (updateLastTrack (alloc' w.v K.c a b) a) = w3 at hwr3
  have hok3 : WOk w3 := by rw [← hw3]; exact hok2.setV (by rw [hc2]; exact htk2.ok)
  have hc3 : w3.c = K.c := by rw [← hw3]; exact hc2
  have hv3 : w3.v = updateLastTrack (alloc' w.v K.c a b) a := by rw [← hw3]; rfl
  -- the image after the three writes
  have hsec : ∀ y, y ≠ vtocTrack * K.c → sec w3.img y =
      if y = a * K.c + b then quantize d else if y = K.uT then splice st.tsl (12 + 2 * s) [a, b] else sec w.img y := by
    intro y hy
    rw [← hw3, withV_sec _ (by rw [hc2]; exact hy), ← hw2, sec_wrote' hok1 ha35 (by rw [hc1]; exact hbc) _ _ (by rw [hc1]; exact hy), hc1]
    by_cases hyx : y = a * K.c + b
    · rw [if_pos hyx, if_pos hyx]
    · rw [if_neg hyx, if_neg hyx, ← hw1, sec_wrote' hli.wok hk.htt (by rw [hcw]; exact hk.htsec) _ _ (by rw [hcw]; exact hy), hcw, ← hk.huT]
  -- the pairs of the new T/S list
  have hps := fun k => pair_splice (b := st.tsl) (a := a) (a' := b) (k := k) hli.tlen hs122
  have hold0 : pairT st.tsl s = 0 := hli.hole s hs122 (Or.inl (Nat.le_refl _))
  have ha0 : a ≠ 0 := by omega
  have hpTs : pairT (splice st.tsl (12 + 2 * s) [a, b]) s = a := by rw [(hps s).1, if_pos rfl]
  have hus : K.unit (splice st.tsl (12 + 2 * s) [a, b]) s = a * K.c + b := by
    unfold PCtx.unit; rw [(hps s).1, (hps s).2, if_pos rfl, if_pos rfl]
  have hpTo : ∀ k, k ≠ s → pairT (splice st.tsl (12 + 2 * s) [a, b]) k = pairT st.tsl k := by
    intro k hks; rw [(hps k).1, if_neg hks]
  have huo : ∀ k, k ≠ s → K.unit (splice st.tsl (12 + 2 * s) [a, b]) k = K.unit st.tsl k := by
    intro k hks; unfold PCtx.unit; rw [(hps k).1, (hps k).2, if_neg hks, if_neg hks]
  have hmem : ∀ y, y ∈ pairUnits K.c (splice st.tsl (12 + 2 * s) [a, b]) (List.range 122) ↔
      y ∈ pairUnits K.c st.tsl (List.range 122) ∨ y = a * K.c + b := by
    intro y
    rw [mem_pairUnits, mem_pairUnits]
    constructor
    · rintro ⟨k, hk1, h0, rfl⟩
      by_cases hks : k = s
      · subst hks; right; exact hus
      · left; rw [hpTo k hks] at h0; exact ⟨k, hk1, h0, huo k hks⟩
    · rintro (⟨k, hk1, h0, rfl⟩ | rfl)
      · have hks : k ≠ s := fun e => h0 (e ▸ hold0)
        exact ⟨k, hk1, by rw [hpTo k hks]; exact h0, (huo k hks).symm⟩
      · exact ⟨s, hs122, by rw [hpTs]; exact ha0, hus.symm⟩
  have holdne : ∀ k, k < 122 → pairT st.tsl k ≠ 0 → K.unit st.tsl k ≠ a * K.c + b := by
    intro k hk1 h0 e
    exact hxD (mem_pairUnits.2 ⟨k, hk1, h0, e.symm⟩)
  refine ⟨splice st.tsl (12 + 2 * s) [a, b], w3, ?_, ?_⟩
  · unfold bodyA
    simp only [M.bind_apply, hd, hli.hst.2.2, hli.hst.1, hli.hst.2.1, nextFreeM_apply, hnf, hwr1, hwr2, hwr3, M.pure_apply]
    rfl
  · have htaken : Taken K.v0 w3.v K.c (K.uT :: pairUnits K.c (splice st.tsl (12 + 2 * s) [a, b]) (List.range 122)) := by
      rw [hv3]
      refine ((hli.taken.trans htk1).trans htk2).congr (fun y => ?_)
      simp only [List.mem_append, List.mem_cons, List.mem_nil_iff, or_false, hmem]
      constructor
      · rintro ((h | h) | h)
        · exact Or.inl h
        · exact Or.inr (Or.inl h)
        · exact Or.inr (Or.inr h)
      · rintro (h | h | h)
        · exact Or.inl (Or.inl h)
        · exact Or.inl (Or.inr h)
        · exact Or.inr h
    have haok3 : AOk w3.v K.c := by
      rw [hv3]; exact aok_taken hli.aok (htk1.trans htk2) hlast
    refine ⟨hok3, hc3, haok3, ⟨hli.hst.1, hli.hst.2.1, by simp [hli.hst.2.2]⟩, hl', htaken, ?_, ?_, ?_, ?_, ?_, ?_, ?_, ?_, ?_⟩
    · exact ⟨by rw [getD_splice_other (by rw [hli.tlen]; simp; omega) (by omega)]; exact hli.next0.1,
        by rw [getD_splice_other (by rw [hli.tlen]; simp; omega) (by omega)]; exact hli.next0.2⟩
    · intro k d' hks hd'
      by_cases hke : k = s
      · subst hke
        rw [hd] at hd'; injection hd' with hd'; subst hd'
        refine ⟨by rw [hpTs]; exact ha0, by rw [hpTs]; exact ha35, by rw [(hps k).2, if_pos rfl]; exact hbc, ?_⟩
        rw [hus, hsec _ hx17, if_pos rfl]
      · have hks' : k < s := by omega
        obtain ⟨p1, p2, p3, p4⟩ := hli.pres k d' hks' hd'
        have hdf := hli.dfree k (by omega) p1
        refine ⟨by rw [hpTo k hke]; exact p1, by rw [hpTo k hke]; exact p2, by rw [(hps k).2, if_neg hke]; exact p3, ?_⟩
        rw [huo k hke, hsec _ (fun e17 => by have := hdf.1; rw [e17, hk.vtUsed] at this; cases this),
          if_neg (holdne k (by omega) p1), if_neg hdf.2]
        exact p4
    · intro k hk1 hor
      have hke : k ≠ s := by
        rcases hor with h | h
        · omega
        · intro e; rw [e, hd] at h; cases h
      rw [hpTo k hke]
      rcases hor with h | h
      · exact hli.hole k hk1 (Or.inl (by omega))
      · exact hli.hole k hk1 (Or.inr h)
    · intro k hk1 h0
      by_cases hke : k = s
      · subst hke; rw [hus]; exact ⟨hx0, hxT⟩
      · rw [hpTo k hke] at h0; rw [huo k hke]; exact hli.dfree k hk1 h0
    · intro k k' hk1 hk1' h0 h0' e
      by_cases hke : k = s
      · by_cases hke' : k' = s
        · rw [hke, hke']
        · exfalso
          rw [hpTo k' hke'] at h0'
          rw [hke, hus, huo k' hke'] at e
          exact holdne k' hk1' h0' e.symm
      · by_cases hke' : k' = s
        · exfalso
          rw [hpTo k hke] at h0
          rw [hke', hus, huo k hke] at e
          exact holdne k hk1 h0 e
        · rw [hpTo k hke] at h0; rw [hpTo k' hke'] at h0'
          rw [huo k hke, huo k' hke'] at e
          exact hli.inj k k' hk1 hk1' h0 h0' e
    · intro y y1 y2 y3 y4
      have yx : y ≠ a * K.c + b := by have := y4 s hs122 (by rw [hpTs]; exact ha0); rw [hus] at this; exact this
      rw [hsec y y3, if_neg yx, if_neg y1]
      exact hli.frame y y1 y2 y3 (fun k hk1 h0 => by
        have hke : k ≠ s := fun e => h0 (e ▸ hold0)
        have := y4 k hk1 (by rw [hpTo k hke]; exact h0)
        rw [huo k hke] at this; exact this)
    · rw [hsec _ hk.udNe, if_neg (Ne.symm hxud), if_neg (Ne.symm hu3)]; exact hli.hud
    · intro _
      rw [hsec _ hu2, if_neg (Ne.symm hxT), if_pos rfl]
    · have h1 := nfree_taken htk1 hx35 hxf
      have h2 := nfree_taken_nil htk2
      have h3 := hli.need
      rw [todo_step_some hs hd] at h3
      show K.todo (K.base + s + 1) + K.later ≤ _
      rw [hv3, h2]
      omega



/-- the first half of one iteration -/
theorem body_step :
    ∃ tsl1 w', bodyA K.chunks (K.base + s) st w = (.ok tsl1, w') ∧ LI K (s + 1) { st with tsl := tsl1, p := st.p + 1 } w' := by
  cases hl : K.chunks.lookup (K.base + s) with
  | none => exact body_none hk hli hs122 hs hl
  | some d => exact body_some hk hli hs122 hs hl

/-- one iteration that does not spill: a pair is added to the current T/S list -/
theorem loop_step_stay (hstay : ¬ (s + 1 = 122 ∧ K.base + s + 1 ≠ K.endIdx)) (rest : List Nat) :
    ∃ st' w', putLoop K.chunks 122 K.endIdx ((K.base + s) :: rest) st w = putLoop K.chunks 122 K.endIdx rest st' w' ∧
      LI K (s + 1) st' w' := by
  obtain ⟨tsl1, w', hb, hli'⟩ := body_step hk hli hs122 hs
  refine ⟨_, w', ?_, hli'⟩
  rw [putLoop_cons]
  simp only [M.bind_apply, hb]
  unfold bodyB
  rw [hli.hst.2.2, if_neg hstay]

end step

end A2Verif.Fs.Dos3x
