import A2Verif.Lemmas.RetokBasics
/-! C14 round 4: one line — the detokenizer's line loop `lineA` prints a text that the reference tokenizer
`codeA` reads back as `stripBody 0 body`, for EVERY body in the class (induction over the items of the line). -/
namespace A2Verif.Detok
open A2Verif.Gen.Tokens

/-! ### `classBody` along the payload split -/

theorem classBody_bytes : ∀ (rest : List Nat) (m : Nat), classBody m rest = true →
    ∀ x ∈ rest, x < 256 ∧ x ≠ 0 := by
  intro rest
  induction rest with
  | nil => intro m _ x hx; simp at hx
  | cons b r ih =>
    intro m h x hx
    rw [classBody] at h
    simp only [Bool.and_eq_true, decide_eq_true_eq, bne_iff_ne, ne_eq] at h
    obtain ⟨⟨h1, h2⟩, h3⟩ := h
    simp at hx
    rcases hx with hx | hx
    · subst hx; exact ⟨h1, h2⟩
    · have : ∃ m', classBody m' r = true := by
        repeat' split at h3
        all_goals first
          | exact ⟨_, h3⟩
          | (simp only [Bool.and_eq_true] at h3; exact ⟨_, h3.2⟩)
      obtain ⟨m', hm'⟩ := this
      exact ih m' hm' x hx

theorem classBody_str : ∀ (rest : List Nat) (q : Nat), classBody 1 rest = true →
    (spanA .str (termOf .str) q rest).2 = [] ∨
      ∃ z, (spanA .str (termOf .str) q rest).2 = 34 :: z ∧ classBody 0 z = true := by
  intro rest
  induction rest with
  | nil => intro q _; simp [spanA]
  | cons b r ih =>
    intro q h
    rw [classBody] at h
    simp only [Bool.and_eq_true, decide_eq_true_eq, bne_iff_ne, ne_eq] at h
    obtain ⟨⟨_, h2⟩, h3⟩ := h
    by_cases hq : b = 34
    · subst hq
      simp [aQuote] at h3
      right
      exact ⟨r, by simp [spanA, stopA_str], h3⟩
    · simp [aQuote, hq] at h3
      simpa [spanA, stopA_str, hq, h2] using ih (if b = aQuote then q + 1 else q) h3

theorem classBody_data : ∀ (rest : List Nat) (q : Nat),
    classBody (if q % 2 = 0 then 3 else 4) rest = true →
    (spanA .data (termOf .data) q rest).2 = [] ∨
      ∃ z, (spanA .data (termOf .data) q rest).2 = 58 :: z ∧ classBody 0 z = true := by
  intro rest
  induction rest with
  | nil => intro q _; simp [spanA]
  | cons b r ih =>
    intro q h
    rw [classBody] at h
    simp only [Bool.and_eq_true, decide_eq_true_eq, bne_iff_ne, ne_eq] at h
    obtain ⟨⟨_, h2⟩, h3⟩ := h
    by_cases hpar : q % 2 = 0
    · simp only [hpar, if_true] at h3
      by_cases h58 : b = 58
      · subst h58
        simp at h3
        right
        exact ⟨r, by simp [spanA, stopA_data, hpar], h3⟩
      · by_cases hq : b = 34
        · subst hq
          simp [aQuote] at h3
          have hp' : ¬ ((q + 1) % 2 = 0) := by omega
          have := ih (q + 1) (by simpa [hp'] using h3)
          simpa [spanA, stopA_data, hpar, aQuote] using this
        · simp [aQuote, hq, h58] at h3
          have := ih q (by simpa [hpar] using h3)
          simpa [spanA, stopA_data, hpar, aQuote, hq, h58, h2] using this
    · simp only [hpar, if_false] at h3
      by_cases hq : b = 34
      · subst hq
        simp [aQuote] at h3
        have hp' : (q + 1) % 2 = 0 := by omega
        have := ih (q + 1) (by simpa [hp'] using h3)
        simpa [spanA, stopA_data, hpar, aQuote] using this
      · simp [aQuote, hq] at h3
        have := ih q (by simpa [hpar] using h3)
        simpa [spanA, stopA_data, hpar, aQuote, hq, h2] using this

theorem classBody_colon (z : List Nat) (h : classBody 0 z = true) : classBody 0 (58 :: z) = true := by
  have hb := classBody_bytes z 0 h
  rw [classBody]
  simp [aQuote, aRemTok, aDataTok, codeCharOK, h]

theorem spanA_rem_all : ∀ (rest : List Nat) (q : Nat), (∀ x ∈ rest, x ≠ 0) →
    spanA .rem (termOf .rem) q rest = (rest, []) := by
  intro rest
  induction rest with
  | nil => intro q _; simp [spanA]
  | cons b r ih =>
    intro q h
    have hb : b ≠ 0 := h b (by simp)
    have hr : ∀ x ∈ r, x ≠ 0 := fun x hx => h x (by simp [hx])
    simp [spanA, stopA_rem, hb, ih _ hr]

/-! ### one-step equations of the detokenizer's line loop -/

theorem lineA_end (f : Nat) (tl : List Nat) (n : Nat) : lineA (f + 1) (0 :: tl) n = .ok ([], 0 :: tl) := by
  simp [lineA]

theorem lineA_char (f b n : Nat) (rest : List Nat) (h0 : b ≠ 0) (hn : n < 255) (h1 : b ≠ 34)
    (h2 : b ≤ 127) : lineA (f + 1) (b :: rest) n = (lineA f rest (n + 1)).map fun x => (b :: x.1, x.2) := by
  have h3 : b ≠ 178 := by omega
  have h4 : b ≠ 131 := by omega
  have h5 : ¬ (b > 127) := by omega
  have h6 : ¬ (255 ≤ n) := by omega
  simp [lineA, h0, h1, h3, h4, h5, h6, aMaxLineLength, aQuote, aRemTok, aDataTok]

theorem lineA_tok (f b n : Nat) (rest tok : List Nat) (hn : n < 255) (h1 : b > 127) (h3 : b ≠ 178)
    (h4 : b ≠ 131) (ht : applesoftDetok.lookup b = some tok) :
    lineA (f + 1) (b :: rest) n =
      (lineA f rest (n + 1)).map fun x => ([32] ++ upper tok ++ [32] ++ x.1, x.2) := by
  have h0 : b ≠ 0 := by omega
  have h2 : b ≠ 34 := by omega
  have h6 : ¬ (255 ≤ n) := by omega
  simp [lineA, h0, h1, h2, h3, h4, h6, ht, aMaxLineLength, aQuote, aRemTok, aDataTok]

theorem lineA_str_closed (f n : Nat) (rest e r' : List Nat) (hn : n < 255)
    (he : escA .str [34, 0] rest 1 = (e, 34 :: r')) :
    lineA (f + 1) (34 :: rest) n =
      (lineA f r' (n + ((34 :: rest).length - r'.length))).map fun x => ([34] ++ e ++ [34] ++ x.1, x.2) := by
  have h6 : ¬ (255 ≤ n) := by omega
  simp [lineA, h6, he, aMaxLineLength, aQuote]

theorem lineA_str_open (f n : Nat) (rest e tl : List Nat) (hn : n < 255)
    (he : escA .str [34, 0] rest 1 = (e, 0 :: tl)) :
    lineA (f + 1 + 1) (34 :: rest) n = .ok ([34] ++ e, 0 :: tl) := by
  have h6 : ¬ (255 ≤ n) := by omega
  simp [lineA, h6, he, aMaxLineLength, aQuote, Outcome.map]

theorem lineA_rem (f n : Nat) (rest e r2 : List Nat) (hn : n < 255)
    (he : escA .rem [0] rest 0 = (e, r2)) :
    lineA (f + 1) (178 :: rest) n =
      (lineA f r2 (n + ((178 :: rest).length - r2.length))).map fun x =>
        ([32, 82, 69, 77, 32] ++ e ++ x.1, x.2) := by
  have h6 : ¬ (255 ≤ n) := by omega
  simp [lineA, h6, he, aMaxLineLength, aQuote, aRemTok]

theorem lineA_data (f n : Nat) (rest e r2 : List Nat) (hn : n < 255)
    (he : escA .data [58, 0] rest 0 = (e, r2)) :
    lineA (f + 1) (131 :: rest) n =
      (lineA f r2 (n + ((131 :: rest).length - r2.length))).map fun x =>
        ([32, 68, 65, 84, 65, 32] ++ e ++ x.1, x.2) := by
  have h6 : ¬ (255 ≤ n) := by omega
  simp [lineA, h6, he, aMaxLineLength, aQuote, aRemTok, aDataTok]

/-! ### one-step equations of the reference tokenizer -/

theorem codeA_nl (f : Nat) (w : List Nat) : codeA (f + 1) (10 :: w) = .ok ([], w) := by
  simp [codeA]

theorem codeA_char (f c : Nat) (rest : List Nat) (h : codeCharOK c = true) :
    codeA (f + 1) (c :: rest) = (codeA f rest).map fun x => (c :: x.1, x.2) := by
  simp only [codeCharOK, Bool.and_eq_true, decide_eq_true_eq, bne_iff_ne, ne_eq, Bool.not_eq_true',
    decide_eq_false_iff_not, not_and, Nat.not_le] at h
  obtain ⟨⟨⟨h1, h2⟩, h3⟩, h4⟩ := h
  have a1 : c ≠ 10 := by omega
  have a2 : c ≠ 32 := by omega
  have a3 : ¬ (97 ≤ c ∧ c ≤ 122) := by
    intro hh
    simp [hh.1, hh.2] at h4
  simp [codeA, a1, a2, h3, a3]

theorem codeA_str_closed (f : Nat) (rest e r' : List Nat) (he : spanT .str 1 rest = (e, 34 :: r')) :
    codeA (f + 1) (34 :: rest) = (codeA f r').map fun x => ([34] ++ unescA e ++ [34] ++ x.1, x.2) := by
  simp [codeA, he]

theorem codeA_str_open (f : Nat) (rest e r' : List Nat) (he : spanT .str 1 rest = (e, 10 :: r')) :
    codeA (f + 1 + 1) (34 :: rest) = .ok ([34] ++ unescA e, r') := by
  simp [codeA, he, Outcome.map]

theorem codeA_kw (f tok : Nat) (kw r' : List Nat) (hk : ∀ c ∈ kw, c ≠ 32 ∧ c ≠ 10)
    (hl : lookupKw kw = some tok) (h1 : tok ≠ 178) (h2 : tok ≠ 131) :
    codeA (f + 1) (32 :: (kw ++ 32 :: r')) = (codeA f r').map fun x => (tok :: x.1, x.2) := by
  simp [codeA, spanWord_append kw r' hk, hl, h1, h2, aRemTok, aDataTok]

theorem lookupKw_rem : lookupKw [82, 69, 77] = some 178 := by decide +kernel
theorem lookupKw_data : lookupKw [68, 65, 84, 65] = some 131 := by decide +kernel

theorem codeA_rem (f : Nat) (r' : List Nat) :
    codeA (f + 1) (32 :: 82 :: 69 :: 77 :: 32 :: r') =
      (codeA f (spanT .rem 0 (dropBlanks r')).2).map fun x =>
        ([178] ++ unescA (spanT .rem 0 (dropBlanks r')).1 ++ x.1, x.2) := by
  have hw : spanWord (82 :: 69 :: 77 :: 32 :: r') = ([82, 69, 77], 32 :: r') :=
    spanWord_append [82, 69, 77] r' (by decide)
  simp [codeA, hw, lookupKw_rem, aRemTok]

theorem codeA_data (f : Nat) (r' : List Nat) :
    codeA (f + 1) (32 :: 68 :: 65 :: 84 :: 65 :: 32 :: r') =
      (codeA f (spanT .data 0 (dropBlanks r')).2).map fun x =>
        ([131] ++ unescA (spanT .data 0 (dropBlanks r')).1 ++ x.1, x.2) := by
  have hw : spanWord (68 :: 65 :: 84 :: 65 :: 32 :: r') = ([68, 65, 84, 65], 32 :: r') :=
    spanWord_append [68, 65, 84, 65] r' (by decide)
  simp [codeA, hw, lookupKw_data, aRemTok, aDataTok]

end A2Verif.Detok
