import A2Verif.Lemmas.FsFatSubDel
import A2Verif.Props.C03
/-!
# The reading of a volume with a first-level directory, entry by entry

`root_split` / `root_join`: the reading of the root split at a shown entry, with the per-entry readings exposed.
`rd_dir`: the reading of a directory entry whose clusters form the link chain `cl` is its own record followed by the
reading of `chainData d cl` under its name.  `sub_iff`, `sub_split`, `sub_join`: the same one level down.
-/
namespace A2Verif.FsFat
open A2Verif A2Verif.Fs.Fat A2Verif.Read.Fat A2Verif.Read.FatT

/-- the reader's entries before / after a split point -/
def preEnts (E1 : List Bytes) : List Bytes := (E1.filter keep).filter (fun e => !(e.getD 0 0 = 46))
def postEnts (E2 : List Bytes) : List Bytes := (act E2).filter (fun e => !(e.getD 0 0 = 46))

theorem dirEnts_split' {buf : Bytes} {E1 E2 : List Bytes} {e : Bytes} (hE : dirOfBytes buf = E1 ++ e :: E2)
    (h1 : ∀ x ∈ E1, live x) (he : shown e) : dirEnts buf = preEnts E1 ++ e :: postEnts E2 := dirEnts_split hE h1 he

theorem dirEnts_skip' {buf : Bytes} {E1 E2 : List Bytes} {e : Bytes} (hE : dirOfBytes buf = E1 ++ e :: E2)
    (h1 : ∀ x ∈ E1, live x) (hs : act (e :: E2) = act E2) : dirEnts buf = preEnts E1 ++ postEnts E2 := dirEnts_skip hE h1 hs

theorem root_split {d : Disk} {f : Array Nat} {buf : Bytes} {E1 E2 : List Bytes} {e : Bytes} {v : Vol}
    (hE : dirOfBytes buf = E1 ++ e :: E2) (h1 : ∀ x ∈ E1, live x) (he : shown e) (h : readFrom d f buf = .ok v) :
    ∃ R1 y R2, (preEnts E1).mapM (rd d f) = .ok R1 ∧ rd d f e = .ok y ∧ (postEnts E2).mapM (rd d f) = .ok R2 ∧
      v = mkVol d.bpb f (R1.flatten ++ y ++ R2.flatten) := by
  rw [readFrom_iff] at h
  obtain ⟨R, hR, hv⟩ := h
  rw [dirEnts_split' hE h1 he] at hR
  obtain ⟨R1, y, R2, e1, e2, e3, e4⟩ := mapM_append_cons _ _ _ _ _ hR
  exact ⟨R1, y, R2, e1, e2, e3, by rw [hv, e4]; simp⟩

theorem root_join {d : Disk} {f : Array Nat} {buf : Bytes} {E1 E2 : List Bytes} {e : Bytes} {R1 R2 : List (List FileRec)} {y : List FileRec}
    (hE : dirOfBytes buf = E1 ++ e :: E2) (h1 : ∀ x ∈ E1, live x) (he : shown e)
    (e1 : (preEnts E1).mapM (rd d f) = .ok R1) (e2 : rd d f e = .ok y) (e3 : (postEnts E2).mapM (rd d f) = .ok R2) :
    readFrom d f buf = .ok (mkVol d.bpb f (R1.flatten ++ y ++ R2.flatten)) := by
  rw [readFrom_iff]
  refine ⟨R1 ++ y :: R2, ?_, by simp⟩
  rw [dirEnts_split' hE h1 he]
  exact mapM_append_cons_ok _ _ _ _ _ _ _ e1 e2 e3

/-- the record of a directory entry -/
def dirRecOf (e : Bytes) (cl : List Nat) : FileRec := { path := entPath [] e, isDir := true, access := e.getD 11 0, owned := cl }

/-- the per-entry reading one level below the root, under the prefix `pfx` -/
def rdS (d : Disk) (f : Array Nat) (pfx : Bytes) : Bytes → Except String (List FileRec) :=
  rdEnt d.raw (rbpb d.bpb) f false (hiOf d.bpb) 31 pfx

/-- the reading of a directory entry of the root whose clusters form the link chain `cl` -/
theorem rd_dir {d : Disk} {f : Array Nat} (g : Geo d) {e : Bytes} {cl : List Nat} (hd : (e.getD 11 0 / 16) % 2 = 1)
    (hch : IsChain f (hiOf d.bpb) (le16 e 26) cl) (hnd : cl.Nodup) :
    rd d f e = (match readDirT d.raw (rbpb d.bpb) f false (hiOf d.bpb) 32 (chainData d cl) (entPath [] e) with
      | .ok sub => .ok (dirRecOf e cl :: sub)
      | .error er => .error er) := by
  have hlen := chain_length_le hch hnd
  have hchain : chain f false (hiOf d.bpb) (hiOf d.bpb + 1) (le16 e 26) [] = .ok cl := by
    have := chain_of_isChain hch (hiOf d.bpb + 1) [] hnd (by simp) (by omega)
    simpa using this
  have hdat := reader_chainData g (isChain_inRng hch)
  unfold rd rdEnt
  simp only [hd, if_true, hchain, bind, Except.bind, hdat]
  have : (cl.map (blockData d)).flatten = chainData d cl := rfl
  rw [this]
  cases readDirT d.raw (rbpb d.bpb) f false (hiOf d.bpb) 32 (chainData d cl) (entPath [] e) <;> rfl

theorem sub_iff {d : Disk} {f : Array Nat} {buf pfx : Bytes} {sub : List FileRec} :
    readDirT d.raw (rbpb d.bpb) f false (hiOf d.bpb) 32 buf pfx = .ok sub ↔
      ∃ Q, (dirEnts buf).mapM (rdS d f pfx) = .ok Q ∧ sub = Q.flatten := by
  unfold rdS
  rw [readDirT_succ]
  cases hm : (dirEnts buf).mapM (rdEnt d.raw (rbpb d.bpb) f false (hiOf d.bpb) 31 pfx) with
  | error er =>
    simp only [bind, Except.bind]
    constructor
    · intro h; cases h
    · rintro ⟨Q, h, _⟩; cases h
  | ok Q =>
    simp only [bind, Except.bind, pure, Except.pure]
    constructor
    · intro h
      injection h with h
      exact ⟨Q, rfl, h.symm⟩
    · rintro ⟨Q', h, hv⟩
      injection h with h
      subst h
      rw [hv]

/-- an entry of a well-formed sub-directory that the map holds under a key not beginning with a dot is shown and well named -/
theorem shown_of_inMap_sub {E : List Bytes} (ok : DirEntsOk E) {x nm ty : Bytes} (hm : x ∈ E) (hl : x.length = 32) (hin : inMap false x)
    (hn : fileNameToSplit x = some (nm, ty)) (hk : (nm ++ [46] ++ ty).head? ≠ some 46) : shown x ∧ NameGood x := by
  obtain ⟨h1, h2, h3⟩ := hin
  have hE5 : x.getD 0 0 ≠ 0xe5 := fun hc => h1 (entryType_of_E5 hc)
  have h0 : x.getD 0 0 ≠ 0 := fun hc => h2 (entryType_of_zero hc)
  have h46 : x.getD 0 0 ≠ 46 := by
    intro hc
    -- an entry beginning with a dot has a key beginning with a dot
    unfold fileNameToSplit at hn
    by_cases hd : isDot x = true
    · rw [if_pos hd] at hn
      injection hn with hn
      injection hn with e1 e2
      subst e1 e2
      exact hk rfl
    · rw [if_neg hd] at hn
      by_cases hdd : isDotDot x = true
      · rw [if_pos hdd] at hn
        injection hn with hn
        injection hn with e1 e2
        subst e1 e2
        exact hk rfl
      · rw [if_neg hdd] at hn
        split at hn
        · cases hn
        · injection hn with hn
          injection hn with e1 e2
          -- nm = trimEnd (x.take 8) begins with x[0] = 46 unless it is empty; either way the key begins with 46
          have hx8 : (x.take 8).head? = some 46 := by
            cases x with
            | nil => simp at hl
            | cons c t =>
              simp only [List.getD_cons_zero] at hc
              subst hc
              rfl
          have hne : trimEnd (x.take 8) ≠ [] → (trimEnd (x.take 8)).head? = some 46 := by
            intro hne
            -- `trimEnd s` is a prefix of `s`
            have hpre : trimEnd (x.take 8) <+: x.take 8 := by
              unfold trimEnd
              have := List.dropWhile_suffix isAsciiSpace (l := (x.take 8).reverse)
              have h2 := List.reverse_prefix.mpr this
              simpa using h2
            obtain ⟨t, ht⟩ := hpre
            cases hh : trimEnd (x.take 8) with
            | nil => exact absurd hh hne
            | cons c0 r =>
              rw [hh] at ht
              rw [← ht] at hx8
              simpa using hx8
          apply hk
          rw [← e1, ← e2]
          by_cases hemp : trimEnd (x.take 8) = []
          · rw [hemp]; rfl
          · have := hne hemp
            cases hh : trimEnd (x.take 8) with
            | nil => exact absurd hh hemp
            | cons c0 r =>
              rw [hh] at this
              simp only [List.head?_cons, Option.some.injEq] at this
              subst this
              rfl
  obtain ⟨r1, r3⟩ := ok.ents x hm h0 hE5 (fun hc => h3 ⟨hc, rfl⟩) h46
  have hnl : ¬ (x.getD 11 0 &&& LONG_NAME ≥ LONG_NAME) := by
    unfold LONG_NAME; rw [and15]; omega
  have hv : ¬ (x.getD 11 0 &&& VOLUME_ID > 0) := by
    intro hc
    apply h3
    exact ⟨entryType_label hE5 h0 hnl hc, rfl⟩
  have hv' : (x.getD 11 0 / 8) % 2 = 0 := by
    unfold VOLUME_ID at hv
    rw [and8] at hv
    omega
  refine ⟨⟨⟨h0, hl⟩, hE5, ?_, hv', h46⟩, r3⟩
  omega

end A2Verif.FsFat
