import A2Verif.Lemmas.FsCpmDelete
import A2Verif.Lemmas.FsCpmFormat
/-!
# `delete` refines the abstract `delete` (continued): assembling `stepOk`
-/
namespace A2Verif.FsCpm
open A2Verif.Fs.Cpm
open A2Verif.Read.Cpm (Dpb fileKey extNum entryPtrs pathOf trimR)

def okB {α : Type} (x : R α) : Bool := match x with
  | .ok _ => true
  | .error _ => false

/-- what differs between CP/M 2 and 3 at the level of the specification: CP/M 2 records the length in records of 128 bytes -/
def cpmParams (d : Dpb) : FsParams :=
  { eofRule := if d.v3 then id else fun n => (n + 127) / 128 * 128, keepsType := false, keepsAux := false, hasLock := true }

theorem getD_slice (e : Bytes) (off n i : Nat) (h : i < n) : (slice e off n).getD i 0 = e.getD (off + i) 0 := by
  unfold slice
  simp only [List.getD_eq_getElem?_getD, List.getElem?_take, h, ↓reduceIte, List.getElem?_drop]

theorem flags8 (e : Bytes) (he : e.length = 32) : (Ext.flags e).getD 8 0 = hi (e.getD 9 0) := by
  unfold Ext.flags Ext.nameAndFlags Ext.name Ext.typ
  have h1 : (slice e 1 8).length = 8 := slice_length (by omega)
  have h2 : (slice e 9 3).length = 3 := slice_length (by omega)
  rw [List.getD_eq_getElem?_getD, List.getElem?_map, List.getElem?_append_right (by omega), h1]
  have := getD_slice e 9 3 0 (by omega)
  rw [List.getD_eq_getElem?_getD] at this
  cases hx : (slice e 9 3)[8 - 8]? with
  | none =>
    have : (slice e 9 3)[0]? = none := hx
    rw [List.getElem?_eq_none_iff] at this
    omega
  | some x =>
    have hx' : (slice e 9 3)[0]? = some x := hx
    rw [hx'] at this
    simp only [Option.map_some, Option.getD_some] at this ⊢
    rw [this]

theorem hi_zero {x : Nat} (hx : x < 256) (h : hi x = 0) : x < 128 := by
  unfold hi at h; omega

theorem upper_fix {l : Bytes} (h : ∀ c ∈ l, upperByte c = c) : upper l = l := by
  unfold upper
  conv => rhs; rw [← List.map_id l]
  exact List.map_congr_left h

theorem decDigits_upper : ∀ u : Fin 16, upper (decDigits u.val) = decDigits u.val := by decide

theorem upper_modelKey {e : Bytes} (hu : e.getD 0 0 < 16) (c : CleanEntry e) : upper (modelKey e) = modelKey e ∧ 58 ∈ modelKey e := by
  rw [modelKey_eq c]
  refine ⟨?_, by simp⟩
  have hn : ∀ x ∈ trimR (name7 e), upperByte x = x := by
    intro x hx
    have := c.name
    unfold cleanField at this
    rw [Bool.and_eq_true, List.all_eq_true] at this
    exact (okChar_facts (this.1 x hx)).2
  have ht : ∀ x ∈ trimR (typ7 e), upperByte x = x := by
    intro x hx
    have := c.typ
    unfold cleanField at this
    rw [Bool.and_eq_true, List.all_eq_true] at this
    exact (okChar_facts (this.1 x hx)).2
  unfold nmOf upper
  simp only [List.map_append]
  have h1 : (decDigits (e.getD 0 0)).map upperByte = decDigits (e.getD 0 0) := decDigits_upper ⟨_, hu⟩
  have h2 : (trimR (name7 e)).map upperByte = trimR (name7 e) := upper_fix hn
  have h3 : (trimR (typ7 e)).map upperByte = trimR (typ7 e) := upper_fix ht
  rw [h1, h2, h3]
  rfl

/-- the `stepOk` of a successful delete, from the two listings -/
theorem delete_stepOk {P : FsParams} {pre post : Vol} {κ : Type} [BEq κ] [LawfulBEq κ] (ks : List κ) (F : κ → FileRec) (K0 : κ)
    (hK : K0 ∈ ks) (hpre : pre.files = ks.map F) (hpost : post.files = (ks.filter (· != K0)).map F)
    (hwpre : pre.wfB = true) (hwpost : post.wfB = true) (hl : (F K0).locked = false) :
    stepOk P pre (.delete (F K0).path) true post = true := by
  have ndpre : (ks.map (fun k => (F k).path)).Nodup := by
    have := wfB_paths_nodup hwpre
    unfold Vol.paths at this
    rw [hpre, List.map_map] at this
    exact this
  have hinj : ∀ k ∈ ks, (F k).path = (F K0).path → k = K0 := fun k hk e => nodup_map_inj ndpre hk hK e
  have hlook : pre.lookup (F K0).path = some (F K0) := by
    unfold Vol.lookup
    apply find_path_of_mem
    · have := wfB_paths_nodup hwpre; exact this
    · rw [hpre]; exact List.mem_map_of_mem hK
  have hgone : post.lookup (F K0).path = none := by
    unfold Vol.lookup
    rw [find_path_none, hpost, List.map_map]
    intro hm
    rw [List.mem_map] at hm
    obtain ⟨k, hk, e⟩ := hm
    rw [List.mem_filter] at hk
    have := hinj k hk.1 e
    simp [this] at hk
  have hwo : without pre.files [(F K0).path] = post.files := by
    unfold without
    rw [hpre, hpost, List.filter_map]
    congr 1
    apply List.filter_congr
    intro k hk
    simp only [Function.comp, List.contains_cons, List.contains_nil, Bool.or_false]
    by_cases c : k = K0
    · simp [c]
    · have : (F k).path ≠ (F K0).path := fun e => c (hinj k hk e)
      have h1 : ((F k).path == (F K0).path) = false := by simpa using this
      have h2 : (k != K0) = true := by simpa using c
      rw [h1, h2]; rfl
  simp only [stepOk, stepConds, List.all_cons, List.all_nil, Bool.and_true, Bool.and_eq_true]
  refine ⟨hwpost, ?_, ?_, ?_, ?_⟩
  · rw [hlook]; rfl
  · rw [hlook]; simp [hl]
  · rw [hgone]; rfl
  · rw [hwo]
    exact sameFiles_refl (wfB_paths_nodup hwpost)

/-- what is known about the file `get_file` finds under the invariant: it is the file with some reader key `K0`,
its `entries` are exactly the directory positions of the entries with that key, and its path is `canon xname` -/
theorem found_key {d : Dpb} {r : Raw} {v3 : Bool} {files : List FileInfo} {xname : Bytes} {fi : FileInfo} (h : Inv d r)
    (hb : buildFiles d v3 (dirOf d r) = .ok files) (hg : getFile xname files = some fi) :
    ∃ K0, K0 ∈ keys d r ∧
      (∀ j e, (dirOf d r)[j]? = some e → ((e.getD 0 0 < 16 ∧ fileKey e = K0) ↔ ∃ p ∈ fi.entries, p.2 = j)) ∧
      (recOf r d (dirOf d r) (esOf d r K0)).path = canon xname := by
  obtain ⟨k, hlk⟩ := getFile_lookup hg
  obtain ⟨hkey, hne, hsound, hcomplete⟩ := found_spec h hb hlk
  have hl := dirOf_entry_length h.shape h.dpb
  cases hent : fi.entries with
  | nil => exact absurd hent hne
  | cons p0 rest0 =>
    obtain ⟨e0, he0, hu0, hk0⟩ := hsound p0 (by rw [hent]; exact List.mem_cons_self)
    have hm0 : e0 ∈ fents d r := mem_fents.2 ⟨List.mem_of_getElem? he0, hu0⟩
    have hiff : ∀ e ∈ fents d r, (fileKey e = fileKey e0 ↔ modelKey e = k) := by
      intro e he
      rw [← hk0]
      exact (modelKey_iff (mem_fents.1 he).2 hu0 (hl _ (mem_fents.1 he).1) (hl _ (mem_fents.1 hm0).1) (h.clean _ he) (h.clean _ hm0)).symm
    refine ⟨fileKey e0, mem_keys.2 ⟨e0, hm0, rfl⟩, ?_, ?_⟩
    · intro j e he
      constructor
      · rintro ⟨hu, hk⟩
        have hme : e ∈ fents d r := mem_fents.2 ⟨List.mem_of_getElem? he, hu⟩
        obtain ⟨dp, hdp⟩ := hcomplete j e he hu ((hiff e hme).1 hk)
        exact ⟨(dp, j), by rw [← hent]; exact hdp, rfl⟩
      · rintro ⟨p, hp, rfl⟩
        obtain ⟨e', he', hu', hk'⟩ := hsound p (by rw [hent]; exact hp)
        rw [he] at he'
        cases he'
        have hme : e ∈ fents d r := mem_fents.2 ⟨List.mem_of_getElem? he, hu'⟩
        exact ⟨hu', (hiff e hme).2 hk'⟩
    · obtain ⟨eh, resth, hes, hmh, hkh⟩ := esOf_head (mem_keys.2 ⟨e0, hm0, rfl⟩)
      show pathOf ((esOf d r (fileKey e0)).headD []) = canon xname
      rw [hes, List.headD_cons, pathOf_modelKey (mem_fents.1 hmh).2 (h.clean _ hmh), (hiff eh hmh).1 hkh]
      unfold canon
      obtain ⟨hup, h58⟩ := upper_modelKey hu0 (h.clean _ hm0)
      rw [hk0, ← hkey] at hup h58
      rw [← getFile_canon h58 hup hg, hkey]

/-- **`delete` refines the abstract `delete`** and preserves the invariant -/
theorem delete_refines {d : Dpb} {r r' : Raw} {xname : Bytes} {res : R Unit} (h : Inv d r)
    (hop : delete d r xname = (res, r')) :
    Inv d r' ∧ stepOk (cpmParams d) (volOf d r) (.delete (canon xname)) (okB res) (volOf d r') = true := by
  unfold delete at hop
  rw [getDirectory_eq h.shape h.dpb] at hop
  simp only [] at hop
  cases hb : buildFiles d d.v3 (dirOf d r) with
  | error e => rw [hb] at hop; cases hop; exact refused_same h _
  | ok files =>
    rw [hb] at hop
    simp only [] at hop
    cases hg : getFile xname files with
    | none => rw [hg] at hop; cases hop; exact refused_same h _
    | some fi =>
      rw [hg] at hop
      simp only [] at hop
      cases hdl : deleteLoop (dirOf d r) fi.entries with
      | error e => rw [hdl] at hop; cases hop; exact refused_same h _
      | ok dir' =>
        rw [hdl] at hop
        simp only [] at hop
        obtain ⟨K0, hK0, hidx, hpath⟩ := found_key h hb hg
        obtain ⟨hget, hflags⟩ := deleteLoop_spec _ _ _ hdl
        have hl := dirOf_entry_length h.shape h.dpb
        have hdir' : dir' = (dirOf d r).map (killF K0) := by
          apply List.ext_getElem?
          intro j
          rw [hget j, List.getElem?_map]
          cases he : (dirOf d r)[j]? with
          | none => simp
          | some e =>
            by_cases c : ∃ p ∈ fi.entries, p.2 = j
            · rw [if_pos c]
              obtain ⟨hu, hk⟩ := (hidx j e he).2 c
              simp only [Option.map_some]
              unfold killE killF
              rw [if_pos ((isExtent_iff e).2 hu), if_pos ⟨hu, hk⟩]
            · rw [if_neg c]
              simp only [Option.map_some]
              unfold killF
              rw [if_neg (fun x => c ((hidx j e he).1 x))]
        obtain ⟨r2, e1, e2, e3, e4⟩ := saveDirectory_spec (dir := dir') h.shape h.dpb
          (by rw [hdir', List.length_map, dirOf_length]) (by
            intro e he
            rw [hdir', List.mem_map] at he
            obtain ⟨e0, he0, rfl⟩ := he
            unfold killF
            split
            · rw [splice_length (by rw [hl e0 he0]; decide), hl e0 he0]
            · exact hl e0 he0)
        rw [e1] at hop
        cases hop
        obtain ⟨hinv', hfiles'⟩ := kill_spec h K0 e2 e3 (by rw [e4, hdir'])
        refine ⟨hinv', ?_⟩
        rw [← hpath]
        -- the file is not protected: none of its entries carries the read-only flag
        have hlocked : (recOf r d (dirOf d r) (esOf d r K0)).locked = false := by
          obtain ⟨eh, resth, hes, hmh, hkh⟩ := esOf_head hK0
          show decide (((esOf d r K0).headD []).getD 9 0 ≥ 128) = false
          rw [hes, List.headD_cons]
          obtain ⟨jh, hjh, ejh⟩ := List.mem_iff_getElem.1 (mem_fents.1 hmh).1
          have hgj : (dirOf d r)[jh]? = some eh := by rw [List.getElem?_eq_getElem hjh, ejh]
          obtain ⟨p, hp, hpj⟩ := (hidx jh eh hgj).1 ⟨(mem_fents.1 hmh).2, hkh⟩
          have := hflags p hp eh (by rw [hpj]; exact hgj) ((isExtent_iff eh).2 (mem_fents.1 hmh).2)
          rw [flags8 eh (hl _ (mem_fents.1 hmh).1)] at this
          have := hi_zero (h.clean _ hmh).b9 this
          simp only [decide_eq_false_iff_not]; omega
        exact delete_stepOk (keys d r) (fun k => recOf r d (dirOf d r) (esOf d r k)) K0 hK0 rfl hfiles'
          (volOf_wf h) (volOf_wf hinv') hlocked

end A2Verif.FsCpm
