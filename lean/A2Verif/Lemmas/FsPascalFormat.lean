import A2Verif.Lemmas.FsPascalInv
/-!
# `format` establishes the invariant

A successfully formatted image (valid volume name, 280 blocks) satisfies `Inv`: header fields as written,
no file, every directory slot zero.  Core Lean only.
-/
namespace A2Verif.Fs.Pascal

theorem getD_append_right {a b : Bytes} {i : Nat} (h : a.length ≤ i) : (a ++ b).getD i 0 = b.getD (i - a.length) 0 := by
  simp [List.getD_eq_getElem?_getD, List.getElem?_append_right h]

theorem getD_zero_of_zeros {e : Bytes} (h : ∀ x ∈ e, x = 0) (i : Nat) : e.getD i 0 = 0 := by
  rw [List.getD_eq_getElem?_getD]
  cases hi : e[i]? with
  | none => rfl
  | some x => exact h x (List.mem_of_getElem? hi)

theorem slice_zero_region {H : Bytes} {m off len : Nat} (h : H.length ≤ off) :
    ∀ x ∈ slice (H ++ List.replicate m 0) off len, x = 0 := by
  intro x hx
  unfold slice at hx
  have h1 := List.mem_of_mem_take hx
  rw [List.drop_append, List.drop_of_length_le h, List.nil_append] at h1
  exact List.eq_of_mem_replicate (List.mem_of_mem_drop h1)

theorem entries_zero_region {H : Bytes} {m : Nat} : ∀ (n off : Nat), H.length ≤ off →
    ∀ e ∈ entriesFrom (H ++ List.replicate m 0) n off, le16 e 0 = 0 := by
  intro n
  induction n with
  | zero => intro off _ e he; cases he
  | succ n ih =>
    intro off h e he
    simp only [entriesFrom, List.mem_cons] at he
    rcases he with rfl | he
    · unfold le16
      rw [getD_zero_of_zeros (slice_zero_region h), getD_zero_of_zeros (slice_zero_region h)]
    · exact ih (off + entrySize) (by omega) e he

theorem stringToVolName_length {n : Bytes} (h : n.length ≤ 7) : (stringToVolName n).length = 7 := by
  unfold stringToVolName upper
  rw [List.length_append, List.length_map, List.length_replicate]; omega

/-- the units of an image after `format` returned `Ok` -/
theorem format_units {r r' : Raw} {v date b0 b1 : Bytes} {fill : Nat} (h : format r v fill date b0 b1 = (.ok (), r')) :
    isNameValid v true = true ∧ r.units.size = 280 ∧ r'.units.size = 280 ∧
    r'.units[0]? = some (quantize (b0.take 512)) ∧ r'.units[1]? = some (quantize (b1.take 512)) ∧
    r'.units[2]? = some (quantize ((u16le 0 ++ u16le 6 ++ u16le 0 ++ [v.length % 256] ++ stringToVolName v ++
      u16le (280 % 65536) ++ u16le 0 ++ u16le 0 ++ date.take 2 ++ [0, 0, 0, 0]).take 512)) ∧
    ∀ i, 3 ≤ i → i < 280 → r'.units[i]? = some (List.replicate 512 (if i < 6 then 0 else fill)) := by
  unfold format at h
  by_cases hv : isNameValid v true = true
  case neg => rw [if_pos (by simp [hv])] at h; cases h
  rw [if_neg (by simp [hv])] at h
  dsimp only at h
  by_cases h6 : r.units.size < 6
  case pos => rw [if_pos h6] at h; cases h
  rw [if_neg h6] at h
  unfold writeBlock at h
  simp only [Nat.not_lt_zero, if_false, List.drop_zero, volHeaderBlock] at h
  rw [imgWrite_ok (by simp; omega)] at h
  dsimp only at h
  by_cases hn : r.units.size = 280
  case neg => rw [if_neg hn] at h; cases h
  rw [if_pos hn, imgWrite_ok (by simp; omega)] at h
  dsimp only at h
  rw [imgWrite_ok (by simp; omega)] at h
  dsimp only at h
  cases h
  refine ⟨hv, hn, by simp [hn], ?_, ?_, ?_, ?_⟩
  · simp [hn]
  · simp [hn]
  · simp [hn]
  · intro i h3 hi
    simp only [Array.getElem?_setIfInBounds]
    rw [if_neg (by omega), if_neg (by omega), if_neg (by omega)]
    have hlt : i < r.units.size := by omega
    rw [Array.getElem?_map, Array.getElem?_eq_getElem (by simpa using hlt), Option.map_some, Array.getElem_range]

theorem len7 {l : Bytes} (h : l.length = 7) : ∃ a b c d e f g, l = [a, b, c, d, e, f, g] := by
  match l, h with
  | [a, b, c, d, e, f, g], _ => exact ⟨a, b, c, d, e, f, g, rfl⟩

/-- **`format` establishes the invariant** -/
theorem format_inv {r r' : Raw} {v date b0 b1 : Bytes} {fill : Nat} (h : format r v fill date b0 b1 = (.ok (), r')) :
    Inv r' := by
  obtain ⟨hv, _, hsz, u0, u1, u2, urest⟩ := format_units h
  -- the volume name
  have hvn : 1 ≤ v.length ∧ v.length ≤ 7 := by
    unfold isNameValid at hv
    simp only [Bool.and_eq_true, decide_eq_true_eq, Bool.not_eq_true', Bool.and_eq_false_iff, decide_eq_false_iff_not,
      Bool.and_true, Bool.not_true, Bool.and_false] at hv
    omega
  have hn7 := stringToVolName_length hvn.2
  have hmod : v.length % 256 = v.length := Nat.mod_eq_of_lt (by omega)
  -- every unit is a block
  have hb : Blocks512 r' := by
    intro i b hib
    by_cases h0 : i = 0
    · subst h0; rw [u0] at hib; cases hib; exact quantize_length _
    by_cases h1 : i = 1
    · subst h1; rw [u1] at hib; cases hib; exact quantize_length _
    by_cases h2 : i = 2
    · subst h2; rw [u2] at hib; cases hib; exact quantize_length _
    by_cases hi : i < 280
    · rw [urest i (by omega) hi] at hib; cases hib; exact List.length_replicate
    · rw [Array.getElem?_eq_none (by omega)] at hib; cases hib
  -- the header block: 18 known bytes, then dates and padding
  obtain ⟨n0, n1, n2, n3, n4, n5, n6, hname⟩ := len7 hn7
  have hH : u16le 0 ++ u16le 6 ++ u16le 0 ++ [v.length % 256] ++ stringToVolName v ++ u16le (280 % 65536) ++ u16le 0 ++
      u16le 0 ++ date.take 2 ++ [0, 0, 0, 0] =
      [0, 0, 6, 0, 0, 0, v.length, n0, n1, n2, n3, n4, n5, n6, 24, 1, 0, 0] ++ (0 :: 0 :: (date.take 2 ++ [0, 0, 0, 0])) := by
    rw [hname, hmod]
    simp [u16le]
  rw [hH] at u2
  generalize hA : [0, 0, 6, 0, 0, 0, v.length, n0, n1, n2, n3, n4, n5, n6, 24, 1, 0, 0] = A at u2
  have hAlen : A.length = 18 := by rw [← hA]; rfl
  generalize hT : (0 :: 0 :: (date.take 2 ++ [0, 0, 0, 0])) = T at u2
  have hTlen : T.length ≤ 8 := by
    rw [← hT]
    simp only [List.length_cons, List.length_append, List.length_take, List.length_nil]
    omega
  have hHl : (A ++ T).length ≤ 26 := by rw [List.length_append]; omega
  have hHl' : A.length ≤ (A ++ T).length := by rw [List.length_append]; omega
  have hq : quantize ((A ++ T).take 512) = (A ++ T) ++ List.replicate (512 - (A ++ T).length) 0 := by
    unfold quantize
    rw [List.take_take, Nat.min_self, List.take_of_length_le (by omega : (A ++ T).length ≤ 512)]
  rw [hq] at u2
  have hfield : ∀ k, k + 2 ≤ 18 → le16 (hdr r') k = le16 A k := by
    intro k hk
    unfold hdr
    rw [u2, Option.getD_some, le16_take (by omega), List.append_assoc, le16_append_left (by omega)]
  have hg6 : (hdr r').getD 6 0 = v.length := by
    unfold hdr
    rw [u2, Option.getD_some, getD_take (by decide), List.append_assoc, getD_append_left (by omega), ← hA]
    rfl
  have f0 : le16 (hdr r') 0 = 0 := by rw [hfield 0 (by decide), ← hA]; rfl
  have f2 : le16 (hdr r') 2 = 6 := by rw [hfield 2 (by decide), ← hA]; rfl
  have f14 : le16 (hdr r') 14 = 280 := by rw [hfield 14 (by decide), ← hA]; rfl
  have f16 : le16 (hdr r') 16 = 0 := by rw [hfield 16 (by decide), ← hA]; rfl
  have hde : dirEnd r' = 6 := f2
  have hbl := dirBuf_length hb (by rw [hde, hsz]; decide)
  rw [hde] at hbl
  -- the directory buffer: header bytes, then zeros
  have hbuf : dirBuf r' = (A ++ T) ++ List.replicate (2048 - (A ++ T).length) 0 := by
    unfold dirBuf dirBlocks
    rw [hde]
    show ((List.range 4).map (fun i => (r'.units[2 + i]?).getD [])).flatten = _
    simp only [List.range, List.range.loop, List.map_cons, List.map_nil, List.flatten_cons, List.flatten_nil,
      List.append_nil]
    rw [u2, urest 3 (by decide) (by decide), urest 4 (by decide) (by decide), urest 5 (by decide) (by decide)]
    simp only [Option.getD_some, List.append_assoc, List.replicate_append_replicate]
    have : 512 - (A ++ T).length + (512 + (512 + 512)) = 2048 - (A ++ T).length := by omega
    simp only [if_true, show (3 < 6) = True from by decide, show (4 < 6) = True from by decide,
      show (5 < 6) = True from by decide, List.replicate_append_replicate] at *
    rw [this]
  have hdead : ∀ e ∈ allEntries r', le16 e 0 = 0 := by
    unfold allEntries
    rw [hbuf]
    exact entries_zero_region _ _ (by omega)
  refine ⟨blocks512B_iff.2 hb, ?_⟩
  exact { hlen := hdr_length hb (by rw [hsz]; decide), beg0 := f0, dirEnd_gt := (by rw [f2]; decide),
          dirEnd_le := (by rw [f2]; decide), dirEnd_total := (by rw [f2, f14]; decide),
          total_size := (by rw [f14, hsz]; decide), total_u16 := (by rw [f14]; decide),
          volName := (by rw [hg6]; exact hvn),
          count := (by rw [allEntries_length, hbl, f2]),
          elen := allEntries_entry_length (by rw [hbl]; decide),
          nf_le := (by rw [f16]; exact Nat.zero_le _),
          live := (by rw [f16]; intro e he; cases he),
          apart := (by rw [f16]; exact List.Pairwise.nil),
          names := (by rw [f16]; exact List.nodup_nil),
          dead := (by rw [f16]; exact hdead) }

end A2Verif.Fs.Pascal
