import A2Verif.Lemmas.FsFatChain
/-!
# The cluster loop of `write_file`, with the chain it builds and the data it stores

`writeLoop_chain` strengthens `writeLoop_ok`: the loop over the chunks `s ..< s+n` returns the list `cl` of the clusters it
took (all free before, pairwise different), which in the new FAT is a link chain from its head to an end mark
(`IsChain`), `prev` links to its head, no other FAT entry changes, no unit outside the clusters of `cl` changes, and the
`j`-th cluster holds the `j`-th chunk, cut to the block size and padded with zeros.
-/
namespace A2Verif.FsFat
open A2Verif A2Verif.Fs.Fat A2Verif.Read.Fat A2Verif.Read.FatT

/-! ## what `write_block` of the image stores -/

theorem writeSecs_get : ∀ (n a : Nat) (r : Raw) (dat : Bytes), a + n ≤ r.units.size → ∀ i, i < n →
    (writeSecs r (List.range' a n) dat).units[a + i]? = some ((dat.drop (i * r.unitLen)).take r.unitLen) := by
  intro n
  induction n with
  | zero => intro a r dat _ i hi; omega
  | succ n ih =>
    intro a r dat hsz i hi
    rw [List.range'_succ, writeSecs]
    cases i with
    | zero =>
      rw [writeSecs_other _ _ _ _ (by rw [List.mem_range'_1]; omega)]
      simp only [Nat.add_zero, Nat.zero_mul, List.drop_zero, Array.getElem?_setIfInBounds]
      have : a < r.units.size := by omega
      simp [this]
    | succ i =>
      have := ih (a + 1) { r with units := r.units.setIfInBounds a (dat.take r.unitLen) } (dat.drop r.unitLen)
        (by simp; omega) i (by omega)
      have e : a + (i + 1) = a + 1 + i := by omega
      rw [e, this]
      simp only [List.drop_drop]
      congr 3
      rw [Nat.add_mul]
      omega

theorem quantize_length (d : Bytes) (q : Nat) : (quantize d q).length = q := by
  unfold quantize
  split
  · assumption
  · simp; omega

theorem quantize_take {d : Bytes} {q : Nat} (h : d.length ≤ q) : (quantize d q).take d.length = d := by
  unfold quantize
  split
  · simp
  · rw [List.take_of_length_le h, List.take_left']
    rfl

theorem takeN_of_le {d : Bytes} {n : Nat} (h : d.length ≤ n) : takeN d n = d := by
  unfold takeN
  rw [if_pos h]

/-- `zap_block` of a data cluster that lies inside the image: the units of the cluster receive the data, cut to the block
and padded, and nothing else changes -/
theorem zapBlock_full {d : Disk} {c : Nat} (data : Bytes) (h2 : 2 ≤ c) (hul : d.raw.unitLen = 512)
    (hg : ∀ s ∈ List.range' (d.bpb.firstClusterSec c) d.bpb.spc, s < d.raw.units.size) :
    ∃ r', zapBlock data c d = (.ok (), { d with raw := r' }) ∧ r'.units.size = d.raw.units.size ∧ r'.unitLen = d.raw.unitLen ∧
      (∀ u, u ∉ List.range' (d.bpb.firstClusterSec c) d.bpb.spc → r'.units[u]? = d.raw.units[u]?) ∧
      (∀ i, i < d.bpb.spc → r'.units[d.bpb.firstClusterSec c + i]? =
        some (((quantize (takeN data d.bpb.blockSize) (d.bpb.spc * 512)).drop (i * 512)).take 512)) := by
  have hc : clusSecs d.bpb c = .ok (List.range' (d.bpb.firstClusterSec c) d.bpb.spc) := by
    unfold clusSecs; simp; omega
  have hall : (List.range' (d.bpb.firstClusterSec c) d.bpb.spc).all (fun s => decide (s < d.raw.units.size)) = true := by
    rw [List.all_eq_true]; intro s hs; simpa using hg s hs
  refine ⟨writeSecs d.raw (List.range' (d.bpb.firstClusterSec c) d.bpb.spc)
      (quantize (takeN data d.bpb.blockSize) ((List.range' (d.bpb.firstClusterSec c) d.bpb.spc).length * d.raw.unitLen)), ?_, ?_, ?_, ?_, ?_⟩
  · unfold zapBlock
    simp only [M_bind_apply, M.get, M.lift, hc, imgWriteBlock, hall, if_true, M.setRaw]
  · exact (writeSecs_size _ _ _).1
  · exact (writeSecs_size _ _ _).2
  · intro u hu; exact writeSecs_other _ _ _ u hu
  · intro i hi
    have hsz : d.bpb.firstClusterSec c + d.bpb.spc ≤ d.raw.units.size := by
      by_cases h0 : d.bpb.spc = 0
      · omega
      · have := hg (d.bpb.firstClusterSec c + (d.bpb.spc - 1)) (by rw [List.mem_range'_1]; omega)
        omega
    rw [writeSecs_get _ _ _ _ hsz i hi, List.length_range', hul]

/-- `write_block(data, prev, curr, 0)`: as `writeBlock_ok`, and the units of `curr` hold the data -/
theorem writeBlock_full {d : Disk} {f : Array Nat} (w : WOk d f) (hul : d.raw.unitLen = 512) (data : Bytes) {prev curr : Nat}
    (hc : clusInRng d.bpb curr = true) (hp : prev < 2 ∨ clusInRng d.bpb prev = true) :
    ∃ r' f', writeBlock data prev curr d = (.ok (), { d with raw := r', fat := some f' }) ∧
      WOk { d with raw := r', fat := some f' } f' ∧ r'.units.size = d.raw.units.size ∧ r'.unitLen = d.raw.unitLen ∧ f'.size = f.size ∧
      rd12 (fn f') curr = 0xfff ∧ (2 ≤ prev → prev ≠ curr → rd12 (fn f') prev = curr) ∧
      (∀ m, m ≠ curr → (prev < 2 ∨ m ≠ prev) → rd12 (fn f') m = rd12 (fn f) m) ∧
      (∀ u, u ∉ List.range' (d.bpb.firstClusterSec curr) d.bpb.spc → r'.units[u]? = d.raw.units[u]?) ∧
      (∀ i, i < d.bpb.spc → r'.units[d.bpb.firstClusterSec curr + i]? =
        some (((quantize (takeN data d.bpb.blockSize) (d.bpb.spc * 512)).drop (i * 512)).take 512)) := by
  have ⟨hc2, hcu⟩ := clusInRng_bounds hc
  obtain ⟨r', hz, hsz, hul', hfr, hdat⟩ := zapBlock_full (d := d) data hc2 hul (w.geom curr hc)
  have hic : InBuf f curr := w.inbuf curr hcu
  have hcs : curr < 4096 := by have := w.small; omega
  have key : ∃ f1 f', (if prev ≥ 2 then setCluster 12 f prev curr else .ok f) = .ok f1 ∧ markLast 12 f1 curr = .ok f' ∧
      f'.size = f.size ∧ BytesOk f' ∧ rd12 (fn f') curr = 0xfff ∧ (2 ≤ prev → prev ≠ curr → rd12 (fn f') prev = curr) ∧
      (∀ m, m ≠ curr → (prev < 2 ∨ m ≠ prev) → rd12 (fn f') m = rd12 (fn f) m) := by
    by_cases hp2 : prev ≥ 2
    · have hpr : clusInRng d.bpb prev = true := by
        cases hp with
        | inl h => omega
        | inr h => exact h
      have hip : InBuf f prev := w.inbuf prev (clusInRng_bounds hpr).2
      obtain ⟨f1, e1, s1, g1⟩ := setCluster12_spec (v := curr) hip
      have b1 : BytesOk f1 := bytesOk_setCluster w.bytes e1
      obtain ⟨f2, e2, s2, g2⟩ := setCluster12_spec (v := 0xfff) (inBuf_of_size s1 hic)
      refine ⟨f1, f2, by simp [hp2, e1], by simpa [markLast, eocSet] using e2, by omega, bytesOk_setCluster b1 e2, ?_, ?_, ?_⟩
      · rw [g2, rd_wr_same _ _ _ (b1 _) (b1 _)]
      · intro _ hne
        rw [g2, rd_wr_other _ _ _ _ hne b1, g1, rd_wr_same _ _ _ (w.bytes _) (w.bytes _)]
        omega
      · intro m hm hmp
        have hmp' : m ≠ prev := by
          cases hmp with
          | inl h => omega
          | inr h => exact h
        rw [g2, rd_wr_other _ _ _ _ hm b1, g1, rd_wr_other _ _ _ _ hmp' w.bytes]
    · obtain ⟨f2, e2, s2, g2⟩ := setCluster12_spec (v := 0xfff) hic
      refine ⟨f, f2, by simp [hp2], by simpa [markLast, eocSet] using e2, s2, bytesOk_setCluster w.bytes e2, ?_, ?_, ?_⟩
      · rw [g2, rd_wr_same _ _ _ (w.bytes _) (w.bytes _)]
      · intro h; omega
      · intro m hm _
        rw [g2, rd_wr_other _ _ _ _ hm w.bytes]
  obtain ⟨f1, f', hk1, hk2, hs', hb', h1, h2, h3⟩ := key
  refine ⟨r', f', ?_, ?_, hsz, hul', hs', h1, h2, h3, hfr, hdat⟩
  · unfold writeBlock
    rw [M_bind_apply, hz]
    simp only []
    have hfat : ({ d with raw := r' } : Disk).fat = some f := w.fat
    rw [M_bind_apply, getFatBuffer_open hfat]
    simp only [M_bind_apply, M.get, w.typ]
    by_cases hp2 : prev ≥ 2
    · simp only [hp2, if_true] at hk1 ⊢
      simp only [M_bind_apply, M.lift, hk1, hk2, M.setFat]
    · simp only [hp2, if_false] at hk1 ⊢
      injection hk1 with hk1
      subst hk1
      simp only [M_bind_apply, M_pure_apply, M.lift, hk2, M.setFat]
  · exact { fat := rfl, typ := w.typ, bytes := hb', inbuf := fun c hc => inBuf_of_size hs' (w.inbuf c hc),
            geom := fun c hc s hs => by rw [hsz]; exact w.geom c hc s hs, small := w.small }

/-- the sectors of different data clusters are different -/
theorem secs_disjoint {b : Fs.Fat.Bpb} {c c' : Nat} (h2 : 2 ≤ c) (h2' : 2 ≤ c') (hne : c ≠ c') {u : Nat}
    (hu : u ∈ List.range' (b.firstClusterSec c) b.spc) : u ∉ List.range' (b.firstClusterSec c') b.spc := by
  rw [List.mem_range'_1] at hu ⊢
  unfold Bpb.firstClusterSec at hu ⊢
  intro hu'
  rcases Nat.lt_or_gt_of_ne hne with h | h
  · have : (c - 2 + 1) * b.spc ≤ (c' - 2) * b.spc := Nat.mul_le_mul_right _ (by omega)
    rw [Nat.add_mul] at this
    omega
  · have : (c' - 2 + 1) * b.spc ≤ (c - 2) * b.spc := Nat.mul_le_mul_right _ (by omega)
    rw [Nat.add_mul] at this
    omega

/-- the chunk stored under index `k` (empty when absent) -/
def chunkAt (chunks : List (Nat × Bytes)) (k : Nat) : Bytes := (chunks.lookup k).getD []

/-- what the cluster loop leaves behind: see `writeLoop_chain` -/
structure WrOut (chunks : List (Nat × Bytes)) (d : Disk) (f : Array Nat) (entry : Bytes) (prev s n : Nat)
    (entry' : Bytes) (d' : Disk) (f' : Array Nat) (cl : List Nat) : Prop where
  wok : WOk d' f'
  ulen : d'.raw.unitLen = 512
  bpb : d'.bpb = d.bpb
  typ : d'.typ = d.typ
  lf : d'.labelFiles = d.labelFiles
  usz : d'.raw.units.size = d.raw.units.size
  fsz : f'.size = f.size
  len : cl.length = n
  nodup : cl.Nodup
  wasFree : ∀ c ∈ cl, clusInRng d.bpb c = true ∧ isFree12 f c = true
  others : ∀ m, m ∉ cl → m ≠ prev → nxt f' m = nxt f m
  same : cl = [] → d' = d ∧ f' = f ∧ entry' = entry
  chain : ∀ c0 rest, cl = c0 :: rest → IsChain f' (hiOf d.bpb) c0 cl ∧ (2 ≤ prev → nxt f' prev = c0) ∧
    entry' = (if s = 0 then Entry.setCluster entry c0 else entry)
  units : ∀ u, (∀ c ∈ cl, u ∉ List.range' (d.bpb.firstClusterSec c) d.bpb.spc) → d'.raw.units[u]? = d.raw.units[u]?
  data : ∀ j c, cl[j]? = some c → ∀ i, i < d.bpb.spc → d'.raw.units[d.bpb.firstClusterSec c + i]? =
    some (((quantize (takeN (chunkAt chunks (s + j)) d.bpb.blockSize) (d.bpb.spc * 512)).drop (i * 512)).take 512)

/-- **the cluster loop of `write_file`, with the chain it builds and the data it stores** -/
theorem writeLoop_chain (chunks : List (Nat × Bytes)) : ∀ (n s : Nat) (d : Disk) (f : Array Nat) (entry : Bytes) (prev : Nat),
    WOk d f → d.raw.unitLen = 512 → hiOf d.bpb ≤ 0xFF7 → (∀ k, s ≤ k → k < s + n → (chunks.lookup k).isSome = true) →
    n ≤ freeCount d.bpb f → (prev < 2 ∨ (clusInRng d.bpb prev = true ∧ isFree12 f prev = false)) →
    ∃ entry' d' f' cl, writeLoop chunks (List.range' s n) entry prev d = (.ok entry', d') ∧
      WrOut chunks d f entry prev s n entry' d' f' cl := by
  intro n
  induction n with
  | zero =>
    intro s d f entry prev w hul _ _ _ _
    refine ⟨entry, d, f, [], by simp [writeLoop, M_pure_apply], ?_⟩
    exact { wok := w, ulen := hul, bpb := rfl, typ := rfl, lf := rfl, usz := rfl, fsz := rfl, len := rfl, nodup := by simp,
            wasFree := by simp, others := fun _ _ _ => rfl, same := fun _ => ⟨rfl, rfl, rfl⟩,
            chain := (by intro c0 rest h; cases h), units := fun _ _ => rfl, data := (by intro j c h; simp at h) }
  | succ n ih =>
    intro s d f entry prev w hul hhi hch hfree hprev
    have hk : (chunks.lookup s).isSome = true := hch s (by omega) (by omega)
    obtain ⟨data, hdata⟩ := Option.isSome_iff_exists.mp hk
    have hpos : 0 < freeCount d.bpb f := by omega
    obtain ⟨curr, hcurr⟩ := avail_complete hpos
    have ⟨hcr, hcf⟩ := avail_sound hcurr
    have hp' : prev < 2 ∨ clusInRng d.bpb prev = true := by
      cases hprev with
      | inl h => exact Or.inl h
      | inr h => exact Or.inr h.1
    obtain ⟨r1, f1, hwb, w1, hsz1, hul1, hfs1, g1, g2, g3, hfr1, hdat1⟩ := writeBlock_full w hul data hcr hp'
    have ⟨hc2, hcu⟩ := clusInRng_bounds hcr
    have hchi : curr < hiOf d.bpb := by unfold hiOf; unfold firstDataCluster at hcu; omega
    have hpc : prev ≠ curr := by
      cases hprev with
      | inl h => omega
      | inr h => intro e; rw [e] at h; rw [hcf] at h; exact absurd h.2 (by simp)
    have hfree1 : ∀ m, m ≠ curr → isFree12 f1 m = isFree12 f m := by
      intro m hm
      by_cases hmp : m = prev
      · subst hmp
        cases hprev with
        | inl h =>
          unfold isFree12; rw [g3 m hm (Or.inl h)]
        | inr h =>
          have h2 : 2 ≤ m := (clusInRng_bounds h.1).1
          have : rd12 (fn f1) m = curr := g2 h2 hm
          unfold isFree12 at h ⊢
          rw [this, h.2]
          simp; omega
      · unfold isFree12; rw [g3 m hm (Or.inr hmp)]
    have hcurr1 : isFree12 f1 curr = false := by unfold isFree12; rw [g1]; rfl
    have hcount : freeCount d.bpb f1 + 1 = freeCount d.bpb f :=
      countP_flip (clusters_nodup d.bpb) (mem_clusters.mpr hcr) hcf hcurr1 (fun m _ hm => hfree1 m hm)
    let d1 : Disk := { d with raw := r1, fat := some f1 }
    let entry1 : Bytes := if s = 0 then Entry.setCluster entry curr else entry
    obtain ⟨entry', d', f', cl', hrun, o⟩ := ih (s + 1) d1 f1 entry1 curr w1 (by rw [← hul]; exact hul1) hhi
      (fun k hk1 hk2 => hch k (by omega) (by omega)) (by show n ≤ freeCount d.bpb f1; omega) (Or.inr ⟨hcr, hcurr1⟩)
    have hcl'free : ∀ c ∈ cl', c ≠ curr := by
      intro c hc e
      have := (o.wasFree c hc).2
      rw [e] at this
      rw [hcurr1] at this
      cases this
    have hprevcl : 2 ≤ prev → prev ∉ cl' := by
      intro h2 hc
      have hfp := (o.wasFree prev hc).2
      cases hprev with
      | inl h => omega
      | inr h =>
        rw [hfree1 prev hpc, h.2] at hfp
        cases hfp
    refine ⟨entry', d', f', curr :: cl', ?_, ?_⟩
    · rw [List.range'_succ]
      unfold writeLoop
      simp only [hdata]
      rw [M_bind_apply, getAvailableBlock_open w, hcurr]
      simp only []
      rw [M_bind_apply, hwb]
      exact hrun
    · refine { wok := o.wok, ulen := o.ulen, bpb := o.bpb, typ := o.typ, lf := o.lf, usz := by rw [o.usz]; exact hsz1,
               fsz := by rw [o.fsz]; exact hfs1, len := by simp [o.len], nodup := ?_, wasFree := ?_, others := ?_, same := ?_,
               chain := ?_, units := ?_, data := ?_ }
      · exact List.nodup_cons.mpr ⟨fun h => hcl'free curr h rfl, o.nodup⟩
      · intro c hc
        rcases List.mem_cons.mp hc with h | h
        · rw [h]; exact ⟨hcr, hcf⟩
        · have := o.wasFree c h
          exact ⟨this.1, by rw [← hfree1 c (hcl'free c h)]; exact this.2⟩
      · intro m hm hmp
        have hmc : m ≠ curr := fun e => hm (by simp [e])
        have hmcl : m ∉ cl' := fun e => hm (by simp [e])
        rw [o.others m hmcl hmc]
        exact g3 m hmc (Or.inr hmp)
      · intro h; cases h
      · intro c0 rest hcl
        injection hcl with h1 h2
        subst h1 h2
        have hprevlink : 2 ≤ prev → nxt f' prev = curr := by
          intro h2
          rw [o.others prev (hprevcl h2) hpc]
          exact g2 h2 hpc
        have hent : entry' = entry1 := by
          cases hcl' : cl' with
          | nil => exact (o.same hcl').2.2
          | cons c1 rest' =>
            have := (o.chain c1 rest' hcl').2.2
            rw [this]
            simp
        refine ⟨?_, hprevlink, hent⟩
        cases hcl' : cl' with
        | nil =>
          have hf' := (o.same hcl').2.1
          apply IsChain.last hc2 hchi
          rw [hf']
          show 0xFF8 ≤ rd12 (fn f1) curr
          rw [g1]; omega
        | cons c1 rest' =>
          obtain ⟨q1, q2, _⟩ := o.chain c1 rest' hcl'
          have hlink : nxt f' curr = c1 := q2 hc2
          have hc1 := (o.wasFree c1 (by rw [hcl']; simp)).1
          have ⟨hc1a, hc1b⟩ := clusInRng_bounds hc1
          have hc1hi : c1 < hiOf d.bpb := by unfold hiOf; unfold firstDataCluster at hc1b; omega
          apply IsChain.link hc2 hchi (by rw [hlink]; omega) (by rw [hlink]; omega)
          rw [hlink]
          rw [← hcl']
          rw [hcl'] at q1 ⊢
          exact q1
      · intro u hu
        rw [o.units u (fun c hc => hu c (by simp [hc]))]
        exact hfr1 u (hu curr (by simp))
      · intro j c hj i hi
        cases j with
        | zero =>
          simp only [List.getElem?_cons_zero] at hj
          injection hj with hj
          subst hj
          rw [o.units]
          · have := hdat1 i hi
            simp only [Nat.add_zero]
            rw [this]
            unfold chunkAt
            rw [hdata]
            rfl
          · intro c' hc'
            show d.bpb.firstClusterSec curr + i ∉ List.range' (d.bpb.firstClusterSec c') d.bpb.spc
            have hne : c' ≠ curr := hcl'free c' hc'
            have hc'2 := (clusInRng_bounds (o.wasFree c' hc').1).1
            exact secs_disjoint hc2 hc'2 (fun e => hne e.symm) (by rw [List.mem_range'_1]; omega)
        | succ j =>
          simp only [List.getElem?_cons_succ] at hj
          have := o.data j c hj i hi
          rw [this]
          congr 6
          omega

end A2Verif.FsFat
