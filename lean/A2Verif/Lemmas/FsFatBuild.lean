import A2Verif.Lemmas.FsFatName
import A2Verif.Lemmas.FsFatVol
/-!
# The converse name correspondence: what `build_files` puts into its map, and what a failed lookup means for the reading

`buildLoop_step`: one iteration of `build_files`.  `buildLoop_complete`: every entry before the end mark that takes part in
the map is found under its key.  `name_inj`: a2kit's key and the reader's name determine each other for well-named
entries.  `not_listed`: if `get_file` does not find a valid root-level name, the reading lists no record under its path —
neither in the root nor (under a longer path) below it.  `firstFreeEntry_spec`: the slot `get_available_entry` returns.
-/
namespace A2Verif.FsFat
open A2Verif A2Verif.Fs.Fat A2Verif.Read.Fat A2Verif.Read.FatT

/-! ## association lists -/

theorem lookup_append_some {k : Bytes} {fi : FInfo} : ∀ {acc : List (Bytes × FInfo)} (x : List (Bytes × FInfo)),
    acc.lookup k = some fi → (acc ++ x).lookup k = some fi := by
  intro acc
  induction acc with
  | nil => intro x h; simp [List.lookup] at h
  | cons a t ih =>
    intro x h
    obtain ⟨ka, va⟩ := a
    simp only [List.cons_append, List.lookup] at h ⊢
    by_cases e : k == ka
    · simp only [e] at h ⊢; exact h
    · simp only [e] at h ⊢; exact ih x h

theorem lookup_append_none {k : Bytes} {v : FInfo} : ∀ {acc : List (Bytes × FInfo)},
    acc.lookup k = none → (acc ++ [(k, v)]).lookup k = some v := by
  intro acc
  induction acc with
  | nil => intro _; simp [List.lookup]
  | cons a t ih =>
    intro h
    obtain ⟨ka, va⟩ := a
    simp only [List.cons_append, List.lookup] at h ⊢
    by_cases e : k == ka
    · simp only [e] at h; cases h
    · simp only [e] at h ⊢; exact ih h

/-! ## one iteration of `build_files` -/

theorem buildLoop_step (lf : Bool) {e : Bytes} {es : List Bytes} {i bad : Nat} {acc files : List (Bytes × FInfo)}
    (h : buildLoop lf (e :: es) i bad acc = .ok files) :
    (entryType e = .freeAndNoMore ∧ files = acc) ∨
    (entryType e ≠ .freeAndNoMore ∧ ¬ inMap lf e ∧ buildLoop lf es (i + 1) bad acc = .ok files) ∨
    (inMap lf e ∧ ∃ nm ty bad', fileNameToSplit e = some (nm, ty) ∧ acc.lookup (nm ++ [46] ++ ty) = none ∧
      buildLoop lf es (i + 1) bad' (acc ++ [(nm ++ [46] ++ ty, infoOf e i)]) = .ok files) := by
  have generic : ∀ (t : EntryType), entryType e = t → t ≠ .free → t ≠ .freeAndNoMore →
      (if (decide (t = EntryType.volumeLabel) && !lf) = true then buildLoop lf es (i + 1) bad acc
        else if bad > 2 then Except.error Err.syntax
        else match fileNameToSplit e with
          | none => Except.error Err.unmodelled
          | some (name, typ) =>
            let key := name ++ [46] ++ typ
            if (acc.lookup key).isSome = true then Except.error Err.duplicateFile
            else
              let a := Entry.attr e
              let fi : FInfo := { idx := i, readOnly := (a &&& READ_ONLY) > 0, volumeId := (a &&& VOLUME_ID) > 0,
                                  directory := (a &&& DIRECTORY) > 0, eof := Entry.fileSize e, cluster1 := some (Entry.cluster1Low e) }
              buildLoop lf es (i + 1) (if isNameValid key then bad else bad + 1) (acc ++ [(key, fi)])) = .ok files →
      ((entryType e ≠ .freeAndNoMore ∧ ¬ inMap lf e ∧ buildLoop lf es (i + 1) bad acc = .ok files) ∨
      (inMap lf e ∧ ∃ nm ty bad', fileNameToSplit e = some (nm, ty) ∧ acc.lookup (nm ++ [46] ++ ty) = none ∧
        buildLoop lf es (i + 1) bad' (acc ++ [(nm ++ [46] ++ ty, infoOf e i)]) = .ok files)) := by
    intro t ht hnf hnn h
    by_cases hskip : (decide (t = EntryType.volumeLabel) && !lf) = true
    · simp only [hskip, if_true] at h
      left
      refine ⟨by rw [ht]; exact hnn, ?_, h⟩
      intro hin
      apply hin.2.2
      simp only [Bool.and_eq_true, decide_eq_true_eq, Bool.not_eq_true'] at hskip
      rw [ht]
      exact hskip
    · simp only [hskip, Bool.false_eq_true, if_false] at h
      right
      have hin : inMap lf e := by
        refine ⟨by rw [ht]; exact hnf, by rw [ht]; exact hnn, ?_⟩
        intro hc
        apply hskip
        rw [ht] at hc
        simp [hc.1, hc.2]
      refine ⟨hin, ?_⟩
      by_cases hb : bad > 2
      · simp only [hb, if_true] at h; cases h
      · simp only [hb, if_false] at h
        cases hn : fileNameToSplit e with
        | none => simp only [hn] at h; cases h
        | some nt =>
          obtain ⟨nm, ty⟩ := nt
          simp only [hn] at h
          by_cases hd : (acc.lookup (nm ++ [46] ++ ty)).isSome = true
          · simp only [hd, if_true] at h; cases h
          · simp only [hd, Bool.false_eq_true, if_false] at h
            refine ⟨nm, ty, _, rfl, ?_, h⟩
            cases hl : acc.lookup (nm ++ [46] ++ ty) with
            | none => rfl
            | some v => rw [hl] at hd; simp at hd
  unfold buildLoop at h
  cases ht : entryType e with
  | free =>
    simp only [ht] at h
    exact Or.inr (Or.inl ⟨by simp, fun hin => hin.1 ht, h⟩)
  | freeAndNoMore =>
    simp only [ht] at h
    injection h with h
    exact Or.inl ⟨rfl, h.symm⟩
  | file => simp only [ht] at h; exact Or.inr (by rw [← ht]; exact generic _ ht (by simp) (by simp) h)
  | directory => simp only [ht] at h; exact Or.inr (by rw [← ht]; exact generic _ ht (by simp) (by simp) h)
  | volumeLabel => simp only [ht] at h; exact Or.inr (by rw [← ht]; exact generic _ ht (by simp) (by simp) h)
  | longName => simp only [ht] at h; exact Or.inr (by rw [← ht]; exact generic _ ht (by simp) (by simp) h)

theorem buildLoop_mono (lf : Bool) : ∀ (E : List Bytes) (i bad : Nat) (acc files : List (Bytes × FInfo)),
    buildLoop lf E i bad acc = .ok files → ∀ k fi, acc.lookup k = some fi → files.lookup k = some fi := by
  intro E
  induction E with
  | nil =>
    intro i bad acc files h k fi hk
    simp only [buildLoop] at h
    injection h with h
    subst h
    exact hk
  | cons e es ih =>
    intro i bad acc files h k fi hk
    rcases buildLoop_step lf h with ⟨_, h1⟩ | ⟨_, _, h1⟩ | ⟨_, nm, ty, bad', _, _, h1⟩
    · subst h1; exact hk
    · exact ih _ _ _ _ h1 k fi hk
    · exact ih _ _ _ _ h1 k fi (lookup_append_some _ hk)

/-- **completeness of the map**: an entry before the end mark that takes part in the map is found under its key -/
theorem buildLoop_complete (lf : Bool) : ∀ (E : List Bytes) (i bad : Nat) (acc files : List (Bytes × FInfo)),
    buildLoop lf E i bad acc = .ok files → ∀ E1 e E2, E = E1 ++ e :: E2 → (∀ x ∈ E1, entryType x ≠ .freeAndNoMore) → inMap lf e →
    ∃ nm ty, fileNameToSplit e = some (nm, ty) ∧ files.lookup (nm ++ [46] ++ ty) = some (infoOf e (i + E1.length)) := by
  intro E
  induction E with
  | nil => intro i bad acc files _ E1 e E2 hE; simp at hE
  | cons e0 es ih =>
    intro i bad acc files h E1 e E2 hE hE1 hin
    cases E1 with
    | nil =>
      simp only [List.nil_append, List.cons.injEq] at hE
      obtain ⟨rfl, rfl⟩ := hE
      rcases buildLoop_step lf h with ⟨h0, _⟩ | ⟨_, h0, _⟩ | ⟨_, nm, ty, bad', hn, hl, h1⟩
      · exact absurd h0 hin.2.1
      · exact absurd hin h0
      · exact ⟨nm, ty, hn, buildLoop_mono lf _ _ _ _ _ h1 _ _ (lookup_append_none hl)⟩
    | cons a t =>
      simp only [List.cons_append, List.cons.injEq] at hE
      obtain ⟨rfl, rfl⟩ := hE
      have ha : entryType e0 ≠ .freeAndNoMore := hE1 e0 (by simp)
      have ht : ∀ x ∈ t, entryType x ≠ .freeAndNoMore := fun x hx => hE1 x (by simp [hx])
      have hlen : i + (e0 :: t).length = i + 1 + t.length := by simp; omega
      rw [hlen]
      rcases buildLoop_step lf h with ⟨h0, _⟩ | ⟨_, _, h1⟩ | ⟨_, nm, ty, bad', _, _, h1⟩
      · exact absurd h0 ha
      · exact ih _ _ _ _ h1 t e E2 rfl ht hin
      · exact ih _ _ _ _ h1 t e E2 rfl ht hin

/-! ## key and listed name determine each other -/

theorem append_sep_inj : ∀ {a a' b b' : Bytes}, 46 ∉ a → 46 ∉ a' → a ++ 46 :: b = a' ++ 46 :: b' → a = a' ∧ b = b' := by
  intro a
  induction a with
  | nil =>
    intro a' b b' _ ha' h
    cases a' with
    | nil => simpa using h
    | cons c t =>
      simp only [List.nil_append, List.cons_append, List.cons.injEq] at h
      exact absurd (by simp [h.1]) ha'
  | cons c t ih =>
    intro a' b b' ha ha' h
    cases a' with
    | nil =>
      simp only [List.nil_append, List.cons_append, List.cons.injEq] at h
      exact absurd (by simp [h.1]) ha
    | cons c' t' =>
      simp only [List.cons_append, List.cons.injEq] at h
      obtain ⟨r1, r2⟩ := ih (fun e => ha (by simp [e])) (fun e => ha' (by simp [e])) h.2
      exact ⟨by rw [h.1, r1], r2⟩

/-- the listed name `nm` / `nm.ty` determines `(nm, ty)` when neither part contains a dot -/
theorem name_inj {nm ty nm' ty' : Bytes} (h1 : 46 ∉ nm) (h2 : 46 ∉ ty) (h3 : 46 ∉ nm') (_h4 : 46 ∉ ty')
    (h : (if ty = [] then nm else nm ++ [46] ++ ty) = (if ty' = [] then nm' else nm' ++ [46] ++ ty')) : nm = nm' ∧ ty = ty' := by
  by_cases c : ty = [] <;> by_cases c' : ty' = []
  · simp only [c, c', if_true] at h ⊢
    exact ⟨h, trivial⟩
  · simp only [c, c', if_true, if_false] at h
    exact absurd (by rw [h]; simp) h1
  · simp only [c, c', if_true, if_false] at h
    exact absurd (by rw [← h]; simp) h3
  · simp only [c, c', if_false, List.append_assoc, List.singleton_append] at h
    exact append_sep_inj h1 h3 h

theorem absPath_of_parts {p nm ty : Bytes} (hk : keyOf p = nm ++ [46] ++ ty) (h3 : 46 ∉ ty) :
    absPath p = (if ty = [] then nm else nm ++ [46] ++ ty) := by
  unfold absPath
  rw [hk]
  by_cases c : ty = []
  · subst c
    simp
  · have : (nm ++ [46] ++ ty).getLast? = ty.getLast? := by
      rw [List.getLast?_append]
      cases hl : ty.getLast? with
      | none => exact absurd (List.getLast?_eq_none_iff.mp hl) c
      | some x => rfl
    rw [this]
    have hne : ty.getLast? ≠ some 46 := by
      intro hc
      exact h3 (List.mem_of_getLast? hc)
    simp [c, hne]

/-! ## the paths of the records of a directory -/

theorem entPath_prefix {pfx : Bytes} (h : pfx ≠ []) (e : Bytes) : pfx ++ [47] <+: entPath pfx e := by
  unfold entPath
  have : pfx.isEmpty = false := by cases pfx with | nil => exact absurd rfl h | cons _ _ => rfl
  simp only [this, Bool.false_eq_true, if_false]
  exact ⟨entName e, rfl⟩

theorem entPath_ne_nil {pfx : Bytes} (h : pfx ≠ []) (e : Bytes) : entPath pfx e ≠ [] := by
  obtain ⟨t, ht⟩ := entPath_prefix h e
  intro hc
  rw [hc] at ht
  simp at ht

/-- every record read below a directory with a non-empty path has that path and a slash as a prefix of its own -/
theorem readDirT_paths (r : Raw) (b : Read.Fat.Bpb) (f : Array Nat) (hi : Nat) : ∀ (fuel : Nat) (buf pfx : Bytes) (recs : List FileRec),
    readDirT r b f false hi fuel buf pfx = .ok recs → pfx ≠ [] → ∀ rec ∈ recs, pfx ++ [47] <+: rec.path := by
  intro fuel
  induction fuel with
  | zero => intro buf pfx recs h; simp [readDirT] at h
  | succ n ih =>
    intro buf pfx recs h hp rec hrec
    rw [readDirT_succ] at h
    cases hm : (dirEnts buf).mapM (rdEnt r b f false hi n pfx) with
    | error er => rw [hm] at h; simp [bind, Except.bind] at h
    | ok R =>
      rw [hm] at h
      simp only [bind, Except.bind, pure, Except.pure] at h
      injection h with h
      subst h
      obtain ⟨y, hy, hry⟩ := List.mem_flatten.mp hrec
      -- `y` is the reading of some entry
      have : ∀ (l : List Bytes) (R : List (List FileRec)), l.mapM (rdEnt r b f false hi n pfx) = .ok R → y ∈ R →
          ∃ e, rdEnt r b f false hi n pfx e = .ok y := by
        intro l
        induction l with
        | nil => intro R h hy; injection h with h; subst h; cases hy
        | cons a t iht =>
          intro R h hy
          rw [List.mapM_cons] at h
          cases ha : rdEnt r b f false hi n pfx a with
          | error er => rw [ha] at h; cases h
          | ok ya =>
            rw [ha] at h
            cases ht : t.mapM (rdEnt r b f false hi n pfx) with
            | error er => rw [ht] at h; cases h
            | ok rt =>
              rw [ht] at h
              injection h with h
              subst h
              rcases List.mem_cons.mp hy with h' | h'
              · exact ⟨a, by rw [ha, h']⟩
              · exact iht rt ht h'
      obtain ⟨e, he⟩ := this _ _ hm hy
      by_cases hd : (e.getD 11 0 / 16) % 2 = 1
      · unfold rdEnt at he
        simp only [hd, if_true] at he
        cases hc : chain f false hi (hi + 1) (le16 e 26) [] with
        | error er => rw [hc] at he; simp [bind, Except.bind] at he
        | ok cl =>
          rw [hc] at he
          simp only [bind, Except.bind] at he
          cases hdat : cl.mapM (clusterData r b) with
          | error er => rw [hdat] at he; simp at he
          | ok datas =>
            rw [hdat] at he
            simp only [] at he
            cases hs : readDirT r b f false hi n datas.flatten (entPath pfx e) with
            | error er => rw [hs] at he; simp at he
            | ok sub =>
              rw [hs] at he
              simp only [pure, Except.pure] at he
              injection he with he
              subst he
              rcases List.mem_cons.mp hry with h' | h'
              · rw [h']; exact entPath_prefix hp e
              · have := ih _ _ _ hs (entPath_ne_nil hp e) rec h'
                obtain ⟨t1, ht1⟩ := entPath_prefix hp e
                obtain ⟨t2, ht2⟩ := this
                exact ⟨t1 ++ [47] ++ t2, by rw [← ht2, ← ht1]; simp⟩
      · rw [rdEnt_file (by omega)] at he
        cases hfr : fileRec r b f false hi (entPath pfx e) e with
        | error er => rw [hfr] at he; cases he
        | ok rec' =>
          rw [hfr] at he
          injection he with he
          subst he
          have : rec = rec' := by simpa using hry
          subst this
          have hpath : rec.path = entPath pfx e := by
            unfold fileRec at hfr
            dsimp only at hfr
            split at hfr
            · cases hfr
            · split at hfr
              · cases hfr
              · split at hfr
                · cases hfr
                · injection hfr with hfr
                  rw [← hfr]
          rw [hpath]
          exact entPath_prefix hp e

/-! ## the reader's entries, the records of one entry -/

theorem mapM_mem {ε α β : Type} (f : α → Except ε β) : ∀ (l : List α) (R : List β) (y : β), l.mapM f = .ok R → y ∈ R →
    ∃ x ∈ l, f x = .ok y := by
  intro l
  induction l with
  | nil => intro R y h hy; injection h with h; subst h; cases hy
  | cons a t ih =>
    intro R y h hy
    rw [List.mapM_cons] at h
    cases ha : f a with
    | error er => rw [ha] at h; cases h
    | ok ya =>
      rw [ha] at h
      cases ht : t.mapM f with
      | error er => rw [ht] at h; cases h
      | ok rt =>
        rw [ht] at h
        injection h with h
        subst h
        rcases List.mem_cons.mp hy with h' | h'
        · exact ⟨a, by simp, by rw [ha, h']⟩
        · obtain ⟨x, hx, hfx⟩ := ih rt y ht h'
          exact ⟨x, by simp [hx], hfx⟩

theorem mem_act : ∀ (E : List Bytes), AllLen 32 E → ∀ e, e ∈ act E →
    ∃ E1 E2, E = E1 ++ e :: E2 ∧ (∀ x ∈ E1, live x) ∧ live e ∧ keep e = true := by
  intro E
  induction E with
  | nil => intro _ e he; cases he
  | cons a t ih =>
    intro hA e he
    have hla : a.length = 32 := hA a (by simp)
    rw [act] at he
    by_cases h1 : a.getD 0 0 = 0 ∨ a.length < 32
    · rw [if_pos h1] at he; cases he
    · rw [if_neg h1] at he
      have hlive : live a := ⟨fun h => h1 (Or.inl h), hla⟩
      by_cases h2 : a.getD 0 0 = 0xE5 ∨ a.getD 11 0 = 0x0F ∨ (a.getD 11 0 / 8) % 2 = 1
      · rw [if_pos h2] at he
        obtain ⟨E1, E2, hE, hE1, hl, hk⟩ := ih hA.tail e he
        refine ⟨a :: E1, E2, by rw [hE]; rfl, ?_, hl, hk⟩
        intro x hx
        rcases List.mem_cons.mp hx with h | h
        · rw [h]; exact hlive
        · exact hE1 x h
      · rw [if_neg h2] at he
        rcases List.mem_cons.mp he with h | h
        · subst h
          refine ⟨[], t, rfl, by simp, hlive, ?_⟩
          rw [not_or, not_or] at h2
          unfold keep
          rw [decide_eq_false h2.1, decide_eq_false h2.2.1, decide_eq_false h2.2.2]; rfl
        · obtain ⟨E1, E2, hE, hE1, hl, hk⟩ := ih hA.tail e h
          refine ⟨a :: E1, E2, by rw [hE]; rfl, ?_, hl, hk⟩
          intro x hx
          rcases List.mem_cons.mp hx with h | h
          · rw [h]; exact hlive
          · exact hE1 x h

/-- an entry the reader looks at lies before the end mark and is `shown` -/
theorem mem_dirEnts {buf : Bytes} (hA : AllLen 32 (dirOfBytes buf)) {e : Bytes} (he : e ∈ dirEnts buf) :
    ∃ E1 E2, dirOfBytes buf = E1 ++ e :: E2 ∧ (∀ x ∈ E1, live x) ∧ shown e := by
  rw [dirEnts_eq, List.mem_filter] at he
  obtain ⟨E1, E2, hE, hE1, hl, hk⟩ := mem_act _ hA e he.1
  refine ⟨E1, E2, hE, hE1, hl, ?_⟩
  unfold keep at hk
  simp only [Bool.not_eq_true', Bool.or_eq_false_iff, decide_eq_false_iff_not] at hk
  have h46 : e.getD 0 0 ≠ 46 := by simpa using he.2
  exact ⟨hk.1.1, hk.1.2, by omega, h46⟩

theorem type_of_live {x : Bytes} (h : live x) : entryType x ≠ .freeAndNoMore := by
  by_cases h5 : x.getD 0 0 = 0xe5
  · rw [entryType_of_E5 h5]; simp
  · unfold entryType
    simp only
    rw [if_neg h5, if_neg h.1]
    split
    · simp
    · split
      · simp
      · split <;> simp

theorem inMap_of_shown {e : Bytes} (h : shown e) : inMap false e := by
  obtain ⟨⟨h0, _⟩, h5, _, h8, _⟩ := h
  have key : entryType e ≠ .free ∧ entryType e ≠ .freeAndNoMore ∧ entryType e ≠ .volumeLabel := by
    unfold entryType
    simp only
    rw [if_neg h5, if_neg h0]
    split
    · simp
    · have : ¬ (e.getD 11 0 &&& VOLUME_ID > 0) := by
        unfold VOLUME_ID; rw [and8]; omega
      rw [if_neg this]
      split <;> simp
  exact ⟨key.1, key.2.1, fun hc => key.2.2 hc.1⟩

/-- the records of a root entry: its own record under its name; the records below a directory carry a slash -/
theorem rd_top_paths {r : Raw} {b : Read.Fat.Bpb} {f : Array Nat} {hi fuel : Nat} {e : Bytes} {y : List FileRec}
    (h : rdEnt r b f false hi fuel [] e = .ok y) (hn : (e.getD 11 0 / 16) % 2 = 1 → entName e ≠ []) :
    ∀ rec ∈ y, rec.path = entName e ∨ 47 ∈ rec.path := by
  have hp : entPath [] e = entName e := by unfold entPath; simp
  intro rec hrec
  by_cases hd : (e.getD 11 0 / 16) % 2 = 1
  · unfold rdEnt at h
    simp only [hd, if_true] at h
    cases hc : chain f false hi (hi + 1) (le16 e 26) [] with
    | error er => rw [hc] at h; simp [bind, Except.bind] at h
    | ok cl =>
      rw [hc] at h
      simp only [bind, Except.bind] at h
      cases hdat : cl.mapM (clusterData r b) with
      | error er => rw [hdat] at h; simp at h
      | ok datas =>
        rw [hdat] at h
        simp only [] at h
        cases hs : readDirT r b f false hi fuel datas.flatten (entPath [] e) with
        | error er => rw [hs] at h; simp at h
        | ok sub =>
          rw [hs] at h
          simp only [pure, Except.pure] at h
          injection h with h
          subst h
          rcases List.mem_cons.mp hrec with h' | h'
          · left; rw [h']; exact hp
          · right
            obtain ⟨t, ht⟩ := readDirT_paths r b f hi fuel _ _ _ hs (by rw [hp]; exact hn hd) rec h'
            rw [← ht]
            simp
  · rw [rdEnt_file (by omega)] at h
    cases hfr : fileRec r b f false hi (entPath [] e) e with
    | error er => rw [hfr] at h; cases h
    | ok rec' =>
      rw [hfr] at h
      injection h with h
      subst h
      have : rec = rec' := by simpa using hrec
      subst this
      left
      unfold fileRec at hfr
      dsimp only at hfr
      split at hfr
      · cases hfr
      · split at hfr
        · cases hfr
        · split at hfr
          · cases hfr
          · injection hfr with hfr
            rw [← hfr]; exact hp

/-! ## not found ⇒ not listed -/

theorem splitOnce_mem : ∀ {s b x : Bytes}, splitOnce 46 s = some (b, x) → ∀ c, c ∈ b ∨ c ∈ x → c ∈ s := by
  intro s
  induction s with
  | nil => intro b x h; simp [splitOnce] at h
  | cons a t ih =>
    intro b x h c hc
    rw [splitOnce] at h
    by_cases ha : a = 46
    · rw [if_pos ha] at h
      injection h with h
      injection h with h1 h2
      subst h1 h2
      rcases hc with h | h
      · cases h
      · simp [h]
    · rw [if_neg ha] at h
      cases hs : splitOnce 46 t with
      | none => rw [hs] at h; cases h
      | some ab =>
        obtain ⟨b', x'⟩ := ab
        rw [hs] at h
        injection h with h
        injection h with h1 h2
        subst h1 h2
        rcases hc with h | h
        · rcases List.mem_cons.mp h with h' | h'
          · simp [h']
          · exact List.mem_cons_of_mem _ (ih hs c (Or.inl h'))
        · exact List.mem_cons_of_mem _ (ih hs c (Or.inr h))

theorem mem_lookupKey {c : Nat} {s : Bytes} (h : c ∈ lookupKey s) : c = 46 ∨ c ∈ s := by
  unfold lookupKey at h
  cases hs : splitOnce 46 s with
  | none =>
    rw [hs] at h
    simp only [List.mem_append, List.mem_singleton] at h
    rcases h with h | h
    · exact Or.inr (mem_trimEnd h)
    · exact Or.inl h
  | some ab =>
    obtain ⟨b, x⟩ := ab
    rw [hs] at h
    simp only [List.mem_append, List.mem_singleton] at h
    rcases h with (h | h) | h
    · exact Or.inr (splitOnce_mem hs c (Or.inl (mem_trimEnd h)))
    · exact Or.inl h
    · exact Or.inr (splitOnce_mem hs c (Or.inr (mem_trimEnd h)))

theorem absPath_noSlash {p : Bytes} (a : RootArg p) : 47 ∉ absPath p := by
  have hk : 47 ∉ keyOf p := by
    intro h
    rcases mem_lookupKey h with h | h
    · omega
    · exact a.noSlash ((mem_upper_iff (by omega) (by omega) p).mp h)
  unfold absPath
  split
  · exact fun h => hk ((List.dropLast_sublist _).subset h)
  · exact hk

/-- **not found ⇒ not listed**: if `get_file` does not find the (valid, root-level) name in the map of the root
directory, the reading lists nothing under its path -/
theorem not_listed {d : Disk} (inv : Inv d) {p nm ty : Bytes} (a : RootArg p) (hk : keyOf p = nm ++ [46] ++ ty)
    (h1 : 46 ∉ nm) (h2 : 46 ∉ ty) {files : List (Bytes × FInfo)}
    (hb : buildFiles false (dirOfBytes (rootBuf d)) = .ok files) (hl : files.lookup (keyOf p) = none) :
    (volOf d).lookup (absPath p) = none := by
  obtain ⟨f, c⟩ := inv.coh
  have g := inv.geo
  obtain ⟨hread, _, _⟩ := inv_reads_well_formed inv
  rw [readT_eq g c, readFrom_iff] at hread
  obtain ⟨R, hR, hv⟩ := hread
  obtain ⟨hA, _, _⟩ := rootEntries_spec g
  cases hlook : (volOf d).lookup (absPath p) with
  | none => rfl
  | some rec =>
    exfalso
    obtain ⟨hmem, hpath⟩ := lookup_some hlook
    rw [hv] at hmem
    obtain ⟨y, hy, hry⟩ := List.mem_flatten.mp (show rec ∈ R.flatten from hmem)
    obtain ⟨e, he, hye⟩ := mapM_mem _ _ _ _ hR hy
    obtain ⟨E1, E2, hE, hE1, hsh⟩ := mem_dirEnts hA he
    have hin := inMap_of_shown hsh
    have hmemE : e ∈ dirOfBytes (rootBuf d) := by rw [hE]; simp
    obtain ⟨_, hgood⟩ := shown_of_inMap inv.root hmemE hsh.1.2 hin
    obtain ⟨nm', ty', n1, n2, n3, n4, n5, _, _⟩ := hgood
    obtain ⟨nm'', ty'', m1, m2⟩ := buildLoop_complete false _ 0 0 [] files hb E1 e E2 hE (fun x hx => type_of_live (hE1 x hx)) hin
    rw [n1] at m1
    injection m1 with m1
    injection m1 with m1a m1b
    subst m1a m1b
    rcases rd_top_paths hye n5 rec hry with hp | hp
    · rw [hpath, n2, absPath_of_parts hk h2] at hp
      obtain ⟨e1, e2⟩ := name_inj h1 h2 n3 n4 hp
      subst e1 e2
      rw [hk, m2] at hl
      cases hl
    · rw [hpath] at hp
      exact absPath_noSlash a hp

/-! ## the slot `get_available_entry` returns -/

theorem firstFreeEntry_spec : ∀ (E : List Bytes) (i idx : Nat), firstFreeEntry E i = some idx →
    ∃ E1 e E2, E = E1 ++ e :: E2 ∧ idx = i + E1.length ∧
      (∀ x ∈ E1, entryType x ≠ .free ∧ entryType x ≠ .freeAndNoMore) ∧ (entryType e = .free ∨ entryType e = .freeAndNoMore) := by
  intro E
  induction E with
  | nil => intro i idx h; simp [firstFreeEntry] at h
  | cons a t ih =>
    intro i idx h
    rw [firstFreeEntry] at h
    cases ht : entryType a with
    | free =>
      simp only [ht] at h
      injection h with h
      exact ⟨[], a, t, rfl, by simp [h], by simp, Or.inl ht⟩
    | freeAndNoMore =>
      simp only [ht] at h
      injection h with h
      exact ⟨[], a, t, rfl, by simp [h], by simp, Or.inr ht⟩
    | file | directory | volumeLabel | longName =>
      simp only [ht] at h
      obtain ⟨E1, e, E2, hE, hidx, hE1, he⟩ := ih _ _ h
      refine ⟨a :: E1, e, E2, by rw [hE]; rfl, by simp; omega, ?_, he⟩
      intro x hx
      rcases List.mem_cons.mp hx with h' | h'
      · rw [h', ht]; simp
      · exact hE1 x h'

end A2Verif.FsFat
