import A2Verif.Lemmas.FsFatSubPut
/-!
# Refinement of `put` of a file into a first-level directory, with growth of the directory

`prepare_sub`: `prepare_to_write("D/X")` is refused without a change of the state, returns the first free slot of `D`'s
buffer, or — when there is none — calls `expand_directory` and returns the first slot of the new cluster.
`put_sub_step_core`: `put` of a file image with the path `D/X` as observed (run, then flush) is refused without any
change; or the directory grew by one previously free cluster (`Via`) and the step was then refused (no cluster left for the
data) — the invariant holds again and the reading differs by exactly that cluster —; or the file was stored: the invariant
holds again and the reading gains exactly one record, the file `D/X`, owning clusters that were free, holding the chunks,
with the length of the file image.  `D` is a well-formed directory again (along the extended chain, if it grew).
-/
namespace A2Verif.FsFat
open A2Verif A2Verif.Fs.Fat A2Verif.Read.Fat A2Verif.Read.FatT
open A2Verif.FsDos (inserted wfB_insert)

/-- `prepare_to_write("D/X")` when `D` is a well-formed first-level directory -/
theorem prepare_sub {d : Disk} (g : Geo d) (hlf : d.labelFiles = false) {D X : Bytes} (a : SubArg D X) {f : Array Nat}
    {E1 E2 : List Bytes} {eD : Bytes} {cl : List Nat} (sd : SubDirOk d D f E1 eD E2 cl) :
    prepareToWrite (subPath D X) d =
      (if !isNameValid (upper X) then (.error .syntax, d) else
       match buildFiles false (dirOfBytes (rootBuf d)) with
       | .error _ => (.error .fileNotFound, d)
       | .ok _ => match buildFiles false (subEntries d cl) with
         | .error e => (.error e, d)
         | .ok filesD => match filesD.lookup (keyOf X) with
           | some _ => (.error .duplicateFile, d)
           | none => match firstFreeEntry (subEntries d cl) 0 with
             | some i => (.ok (upper X, some (le16 eD 26), i, subEntries d cl), d)
             | none => match expandDirectory (subEntries d cl) (le16 eD 26) d with
               | (.ok dir', dg) => (.ok (upper X, some (le16 eD 26), (subEntries d cl).length, dir'), dg)
               | (.error e, dg) => (.error e, dg)) := by
  unfold prepareToWrite
  simp only [M_bind_apply, M.lift, splitPath_sub a]
  by_cases hv : isNameValid (upper X) = true
  · have hgo := gotoPath_single g (normalizePath_slash a.aD) a.aD
    rw [hlf] at hgo
    simp only [hv, Bool.not_true, Bool.false_eq_true, if_false, M_bind_apply, tryM]
    cases hb : buildFiles false (dirOfBytes (rootBuf d)) with
    | error e =>
      rw [hb] at hgo
      simp only [hgo]
      rfl
    | ok filesR =>
      rw [hb] at hgo
      obtain ⟨nm, ty, hn, hk⟩ := sd.key
      obtain ⟨nm', ty', hn', hlk⟩ := buildLoop_complete false _ 0 0 [] filesR hb E1 eD E2 sd.hE sd.hE1 sd.inmap
      rw [hn] at hn'
      injection hn' with hn'
      injection hn' with e1 e2
      subst e1 e2
      rw [← hk] at hlk
      simp only [Nat.zero_add] at hlk
      simp only [hlk] at hgo
      have hdirb : (infoOf eD E1.length).directory = true := infoOf_dir _ sd.isdir
      have hc1 : (infoOf eD E1.length).cluster1 = some (le16 eD 26) := rfl
      simp only [hgo, hdirb, Bool.not_true, Bool.false_eq_true, if_false, M_bind_apply, hc1,
        getDirectory_chain g sd.wok sd.chain sd.nodup, buildFilesM, hlf]
      have hse : dirOfBytes (chainData d cl) = subEntries d cl := rfl
      rw [hse]
      cases hbd : buildFiles false (subEntries d cl) with
      | error e => rfl
      | ok filesD =>
        simp only [getFile_root]
        cases hl : filesD.lookup (keyOf X) with
        | some fi => rfl
        | none =>
          simp only [getAvailableEntry]
          cases hf : firstFreeEntry (subEntries d cl) 0 with
          | some i => rfl
          | none =>
            simp only [M_bind_apply]
            cases hx : expandDirectory (subEntries d cl) (le16 eD 26) d with
            | mk r dg =>
              cases r with
              | error e => rfl
              | ok dir' => rfl
  · have hv' : isNameValid (upper X) = false := by simpa using hv
    simp only [hv', Bool.not_false, if_true, M_fail_apply]

/-- how the volume `vg` into which the file is stored relates to the volume `v` before the step: it is `v`, or the
directory record `dr` owns one more, previously free, cluster -/
def Via (v : Vol) (dr : FileRec) (vg : Vol) (cl clg : List Nat) : Prop :=
  (vg = v ∧ clg = cl) ∨ ∃ nc F1 F2 free', clg = cl ++ [nc] ∧ v.files = F1 ++ dr :: F2 ∧ nc ∈ v.freeUnits ∧ free'.Nodup ∧
    (∀ x, x ∈ free' ↔ x ∈ v.freeUnits ∧ x ≠ nc) ∧ vg = grown v F1 F2 dr nc free'

theorem entryType_zeros : entryType (zeros 32) = .freeAndNoMore := by decide

/-- **`put` of a file into a first-level directory as observed (run, then flush)** -/
theorem put_sub_step_core {d : Disk} (inv : Inv d) {D X : Bytes} (a : SubArg D X) {f : Array Nat}
    {E1 E2 : List Bytes} {eD : Bytes} {cl : List Nat} (sd : SubDirOk d D f E1 eD E2 cl)
    {fi : FImg} {now : Stamp} (hpath : fi.fullPath = subPath D X) (hs : StampOk now)
    {res : R Nat} {d' : Disk} (h : runFlush (put fi now) d = (res, d')) :
    (∃ er, res = .error er ∧ d' = d) ∨
    ∃ vg clg f', Via (volOf d) (dirRecOf eD cl) vg cl clg ∧ Inv d' ∧ SubDirOk d' D f' E1 eD E2 clg ∧
      ((∃ er, res = .error er ∧ volOf d' = vg ∧ clg ≠ cl) ∨
       ∃ n G1 G2 rec free'', res = .ok n ∧ vg.files = G1 ++ G2 ∧ rec.path = absPath D ++ 47 :: absPath X ∧ rec.isDir = false ∧
         rec.owned.Nodup ∧ (∀ x ∈ rec.owned, x ∈ vg.freeUnits) ∧ free''.Nodup ∧
         (∀ x, x ∈ free'' ↔ x ∈ vg.freeUnits ∧ x ∉ rec.owned) ∧ rec.path ∉ vg.paths ∧
         (rec.chunks.map (·.1)).Pairwise (· < ·) ∧ chunksMatch (chunksOf fi) rec.chunks = true ∧ rec.eof = le32 fi.eof 0 ∧
         volOf d' = inserted vg G1 G2 rec free'') := by
  obtain ⟨f0, c0, s0⟩ := sinv_of_inv inv
  have ef : f0 = f := coh_unique sd.wok c0
  subst ef
  have g := inv.geo
  unfold runFlush at h
  have hfin : ∀ (r : R Nat) (dx d3 : Disk), put fi now d = (r, dx) → flush dx = (.ok (), d3) → res = r ∧ d' = d3 := by
    intro r dx d3 hrun hfl
    rw [hrun] at h
    simp only [] at h
    rw [hfl] at h
    injection h with h1 h2
    exact ⟨h1.symm, h2.symm⟩
  have hsame : ∀ er, put fi now d = (.error er, d) → (∃ er, res = .error er ∧ d' = d) := by
    intro er hrun
    obtain ⟨h1, h2⟩ := hfin _ _ _ hrun (flush_noop g c0)
    exact ⟨er, h1, h2⟩
  by_cases hfs0 : ¬ (fi.fsOk = true)
  · left
    have : fi.fsOk = false := by simpa using hfs0
    refine hsame .writeFault ?_
    unfold put
    simp only [this, Bool.not_false, if_true, M_fail_apply]
  have hfs : fi.fsOk = true := Classical.not_not.mp hfs0
  by_cases hcl : fi.chunkLen ≠ d.bpb.blockSize
  · left
    refine hsame .incorrectDOS ?_
    unfold put
    simp only [hfs, Bool.not_true, Bool.false_eq_true, if_false, M_bind_apply, M.get]
    rw [if_pos hcl]
    rfl
  have hcl' : fi.chunkLen = d.bpb.blockSize := by simpa using hcl
  by_cases hacc : fi.dirOrLabel = true
  · left
    refine hsame .writeFault ?_
    unfold put
    simp only [hfs, Bool.not_true, Bool.false_eq_true, if_false, M_bind_apply, M.get]
    rw [if_neg hcl]
    simp only [hacc, if_true, M_fail_apply]
  have hacc' : fi.dirOrLabel = false := by simpa using hacc
  by_cases hst0 : ¬ (fi.storable = true)
  · left
    have : fi.storable = false := by simpa using hst0
    refine hsame .writeFault ?_
    unfold put
    simp only [hfs, Bool.not_true, Bool.false_eq_true, if_false, M_bind_apply, M.get]
    rw [if_neg hcl]
    simp only [hacc', Bool.false_eq_true, if_false, this, Bool.not_false, if_true, M_fail_apply]
  have hst : fi.storable = true := Classical.not_not.mp hst0
  have hput : ∀ (r : R (Bytes × Option Nat × Nat × Directory)) (ds : Disk), prepareToWrite (subPath D X) d = (r, ds) →
      put fi now d = (match r with
        | .ok (name, c1, idx, dir) => putTail fi now name c1 idx dir ds
        | .error e => (.error e, ds)) := by
    intro r ds hprep
    unfold put
    simp only [hfs, Bool.not_true, Bool.false_eq_true, if_false, M_bind_apply, M.get]
    rw [if_neg hcl]
    simp only [hacc', Bool.false_eq_true, if_false]
    simp only [hst, Bool.not_true, Bool.false_eq_true, if_false, M_bind_apply, hpath, hprep]
    cases r with
    | error e => rfl
    | ok t =>
      obtain ⟨name, c1, idx, dir⟩ := t
      rfl
  have hprep := prepare_sub g inv.lf a sd
  by_cases hv0 : ¬ (isNameValid (upper X) = true)
  · left
    have : isNameValid (upper X) = false := by simpa using hv0
    simp only [this, Bool.not_false, if_true] at hprep
    exact hsame _ (hput _ _ hprep)
  have hv : isNameValid (upper X) = true := Classical.not_not.mp hv0
  simp only [hv, Bool.not_true, Bool.false_eq_true, if_false] at hprep
  cases hb : buildFiles false (dirOfBytes (rootBuf d)) with
  | error e =>
    rw [hb] at hprep
    exact Or.inl (hsame _ (hput _ _ hprep))
  | ok filesR =>
  rw [hb] at hprep
  simp only [] at hprep
  cases hbd : buildFiles false (subEntries d cl) with
  | error e =>
    rw [hbd] at hprep
    exact Or.inl (hsame _ (hput _ _ hprep))
  | ok filesD =>
  rw [hbd] at hprep
  simp only [] at hprep
  cases hl : filesD.lookup (keyOf X) with
  | some x =>
    rw [hl] at hprep
    exact Or.inl (hsame _ (hput _ _ hprep))
  | none =>
  rw [hl] at hprep
  simp only [] at hprep
  -- nothing is listed under `D/X`
  obtain ⟨B, Xp, np⟩ := nameParts_of_valid hv
  have hn11 : (stringToFileName (upper X)).length = 11 := by
    rw [stringToFileName_parts np]
    simp [padTo_length]
  obtain ⟨_, _, n3, n4, n5, _, _, _⟩ := fresh_name np (e := stringToFileName (upper X)) (List.take_of_length_le (by omega))
  rw [upper_idem] at n3
  have hk : keyOf X = trimEnd B ++ [46] ++ trimEnd Xp := n3
  have hnl : absPath D ++ 47 :: absPath X ∉ (volOf d).paths := not_listed_sub s0 a sd hbd hl hk n4 n5
  cases hf : firstFreeEntry (subEntries d cl) 0 with
  | some i =>
    rw [hf] at hprep
    simp only [] at hprep
    obtain ⟨S1, e0, S2, hS, hidx, hS1, he0⟩ := firstFreeEntry_spec _ _ _ hf
    have hidx' : i = S1.length := by omega
    subst hidx'
    have hrun := hput _ _ hprep
    simp only [] at hrun
    rcases put_sub_tail s0 a sd hs hv hacc' hst hcl' hS hS1 he0 hnl with ⟨er, ht⟩ |
      ⟨n, d2, f1, G1, G2, rec, free'', ht, hb2, k1, k2, k3, k4, k5, k6, k7, k8, k9, k10, s2, sd2⟩
    · rw [ht] at hrun
      exact Or.inl (hsame _ hrun)
    · rw [ht] at hrun
      obtain ⟨d3, hfl, inv3, hvol3, c3, hb3, hkeep⟩ := inv_of_sinv_flush s2
      obtain ⟨h1, h2⟩ := hfin _ _ _ hrun hfl
      subst h2
      right
      refine ⟨volOf d, cl, f1, Or.inl ⟨rfl, rfl⟩, inv3, hkeep _ _ _ _ _ sd2, Or.inr ?_⟩
      exact ⟨n, G1, G2, rec, free'', h1, k1, k2, k3, k4, k5, k6, k7, by rw [k2]; exact hnl, k8, k9, k10, hvol3⟩
  | none =>
    rw [hf] at hprep
    simp only [] at hprep
    rcases expand_sinv s0 sd hf (subEntries d cl) with hfail | ⟨nc, dg, f2, F1, F2, hex, hbg, hfilesv, hncfree, hfreeg, sg, sdg, hsubg⟩
    · rw [hfail] at hprep
      simp only [] at hprep
      exact Or.inl (hsame _ (hput _ _ hprep))
    rw [hex] at hprep
    simp only [] at hprep
    have hrun := hput _ _ hprep
    simp only [] at hrun
    right
    have hvia : Via (volOf d) (dirRecOf eD cl) (grown (volOf d) F1 F2 (dirRecOf eD cl) nc (freeUnitsOf d.bpb f2)) cl (cl ++ [nc]) :=
      Or.inr ⟨nc, F1, F2, freeUnitsOf d.bpb f2, rfl, hfilesv, hncfree, freeUnitsOf_nodup d.bpb f2, hfreeg, rfl⟩
    have hne : cl ++ [nc] ≠ cl := by
      intro e
      have := congrArg List.length e
      simp at this
    -- the slot: the first entry of the new cluster
    have hepc : epcOf d.bpb = (epcOf d.bpb - 1) + 1 := by
      have := g.spc
      unfold epcOf
      omega
    have hSg : subEntries dg (cl ++ [nc]) = subEntries d cl ++ zeros 32 :: List.replicate (epcOf d.bpb - 1) (zeros 32) := by
      rw [hsubg, hepc, List.replicate_succ]
      simp
    have hS1g := firstFreeEntry_none _ _ hf
    have hnlg : absPath D ++ 47 :: absPath X ∉ (grown (volOf d) F1 F2 (dirRecOf eD cl) nc (freeUnitsOf d.bpb f2)).paths := by
      rw [grown_paths, ← hfilesv]
      exact hnl
    rw [← hsubg] at hrun
    rcases put_sub_tail sg a sdg hs hv hacc' hst (by rw [hbg]; exact hcl') hSg hS1g (Or.inr entryType_zeros) hnlg with ⟨er, ht⟩ |
      ⟨n, d2, f1, G1, G2, rec, free'', ht, hb2, k1, k2, k3, k4, k5, k6, k7, k8, k9, k10, s2, sd2⟩
    · rw [ht] at hrun
      obtain ⟨d3, hfl, inv3, hvol3, c3, hb3, hkeep⟩ := inv_of_sinv_flush sg
      obtain ⟨h1, h2⟩ := hfin _ _ _ hrun hfl
      subst h2
      exact ⟨_, cl ++ [nc], f2, hvia, inv3, hkeep _ _ _ _ _ sdg, Or.inl ⟨er, h1, hvol3, hne⟩⟩
    · rw [ht] at hrun
      obtain ⟨d3, hfl, inv3, hvol3, c3, hb3, hkeep⟩ := inv_of_sinv_flush s2
      obtain ⟨h1, h2⟩ := hfin _ _ _ hrun hfl
      subst h2
      refine ⟨_, cl ++ [nc], f1, hvia, inv3, hkeep _ _ _ _ _ sd2, Or.inr ?_⟩
      exact ⟨n, G1, G2, rec, free'', h1, k1, k2, k3, k4, k5, k6, k7, by rw [k2]; exact hnlg, k8, k9, k10, hvol3⟩

end A2Verif.FsFat
