import A2Verif.Lemmas.FsCpmPut2
import A2Verif.Props.C04
/-!
# `stat().free_blocks` of the concrete CP/M model is the number of units the reader finds free
-/
namespace A2Verif.FsCpm
open A2Verif.Fs.Cpm
open A2Verif.Read.Cpm (Dpb fileKey extNum entryPtrs pathOf slots)

/-- `reserved_blocks` (the count of leading ones of `al0:al1`) is the number of reserved blocks the reader lists (checked per DPB by `decide`) -/
def ResvCount (d : Dpb) : Prop := reservedBlocks d = (Read.Cpm.dirBlocks d).length

theorem zipIdx_filter_fst_length {α : Type} (q : α → Bool) : ∀ (l : List α) (n : Nat),
    ((l.zipIdx n).filter (fun pj => q pj.1)).length = (l.filter q).length
  | [], _ => rfl
  | a :: l, n => by
    rw [List.zipIdx_cons]
    by_cases c : q a = true
    · rw [List.filter_cons_of_pos (by exact c), List.filter_cons_of_pos c, List.length_cons, List.length_cons, zipIdx_filter_fst_length q l (n + 1)]
    · rw [List.filter_cons_of_neg (by exact c), List.filter_cons_of_neg c, zipIdx_filter_fst_length q l (n + 1)]

theorem ownedE_length (d : Dpb) (e : Bytes) : (ownedE d e).length = ((entryPtrs d e).filter (fun p => decide (p > 0))).length := by
  unfold ownedE nzPtrs
  rw [List.length_map]
  have := zipIdx_filter_fst_length (fun p : Nat => decide (p ≠ 0)) (entryPtrs d e) 0
  rw [this]
  congr 1
  apply List.filter_congr
  intro p _
  by_cases c : p = 0
  · simp [c]
  · have : p > 0 := by omega
    simp [c, this]

theorem length_flatMap_congr {α β γ : Type} {f : α → List β} {g : α → List γ} : ∀ {l : List α}, (∀ a ∈ l, (f a).length = (g a).length) →
    (l.flatMap f).length = (l.flatMap g).length
  | [], _ => rfl
  | a :: l, h => by
    rw [List.flatMap_cons, List.flatMap_cons, List.length_append, List.length_append, h a List.mem_cons_self,
      length_flatMap_congr (fun b hb => h b (List.mem_cons_of_mem _ hb))]

/-- the nonzero pointers `num_free_blocks` counts are as many as the units the reader finds owned -/
theorem used_count {d : Dpb} {r : Raw} (h : Inv d r) :
    ((usedPtrs d (dirOf d r)).filter (· > 0)).length = (volOf d r).allOwned.length := by
  have hl := dirOf_entry_length h.shape h.dpb
  have h1 : (volOf d r).allOwned.length = ((fents d r).flatMap (ownedE d)).length := (owned_perm d r).length_eq
  rw [h1]
  unfold usedPtrs
  rw [List.filter_flatMap]
  -- non-file entries contribute nothing
  have h2 : ∀ (dir : Dir), (∀ e ∈ dir, e.length = 32) →
      (dir.flatMap (fun e => (if isExtent e then Ext.blockList d e else []).filter (· > 0))).length =
        ((fentsOf dir).flatMap (ownedE d)).length := by
    intro dir
    induction dir with
    | nil => intro _; rfl
    | cons e rest ih =>
      intro hlen
      have he := hlen e List.mem_cons_self
      have ihr := ih (fun x hx => hlen x (List.mem_cons_of_mem _ hx))
      unfold fentsOf at ihr ⊢
      rw [List.flatMap_cons, List.length_append, ihr]
      by_cases c : e.getD 0 0 < 16
      · rw [List.filter_cons_of_pos (by simpa using c), List.flatMap_cons, List.length_append, if_pos ((isExtent_iff e).2 c),
          blockList_eq he, ownedE_length]
      · rw [List.filter_cons_of_neg (by simpa using c), if_neg (by rw [isExtent_iff]; exact c)]
        simp
  exact h2 (dirOf d r) hl

/-- **`stat().free_blocks` is the reader's free count** (C04: the reported free space) -/
theorem statFree_spec {d : Dpb} {r : Raw} (h : Inv d r) (hc : ResvCount d) (hsmall : d.dsm + 1 < 65536) :
    statFree d r = .ok (volOf d r).free := by
  unfold statFree
  rw [getDirectory_eq h.shape h.dpb]
  simp only []
  have hacc : (volOf d r).free + (volOf d r).allOwned.length + (volOf d r).sys.length = d.dsm + 1 := by
    have := C04.free_accounting (volOf_wf h) (mkVol_noLeak d _) (by
      intro u hu
      have hu' : u ∈ Read.Cpm.dirBlocks d := hu
      rw [h.dpb.prefix_, List.mem_range] at hu'
      have := h.dpb.inRange
      exact ⟨Nat.zero_le _, by show u < d.dsm + 1; omega⟩)
    exact this
  have hsys : (volOf d r).sys.length = (Read.Cpm.dirBlocks d).length := rfl
  unfold numFreeBlocks
  simp only []
  rw [used_count h, hc]
  unfold userBlocks
  have e1 : (d.dsm + 1) % 65536 = d.dsm + 1 := Nat.mod_eq_of_lt hsmall
  have hle : (Read.Cpm.dirBlocks d).length + (volOf d r).allOwned.length ≤ d.dsm + 1 := by omega
  have e2 : ((Read.Cpm.dirBlocks d).length + (volOf d r).allOwned.length) % 65536 = (Read.Cpm.dirBlocks d).length + (volOf d r).allOwned.length :=
    Nat.mod_eq_of_lt (by omega)
  rw [e1, e2, if_neg (by omega)]
  congr 1
  omega

end A2Verif.FsCpm
