import A2Verif.Lemmas.FsDosOps
import A2Verif.Lemmas.FsDosFrame
import A2Verif.Lemmas.FsDosAbs
/-!
# Rewriting one catalog entry: the refinement core of `lock`, `unlock`, `retype`, `rename`

`WInv` is the invariant of a working state: sane geometry and VTOC buffer (`WOk`), the image it stands for is
laid out as `L` says (`Describes`), the reading derived from the layout is well formed (C03), live names carry
bit 7.  `modify_entry`: overwriting type byte and name of one live entry of one catalog sector (what `modify`
does) keeps the invariant with the same layout, and the new reading is the old one with exactly that file's
record replaced.  Core Lean only.
-/
set_option linter.unusedSimpArgs false
namespace A2Verif.Fs.Dos3x
open A2Verif.FsDos A2Verif.Read.Dos3x

structure WInv (w : W) (sb : List Nat) (L : Lay) : Prop where
  ok : WOk w
  desc : Describes w.img w.c L
  wf : (volOf w.img w.c sb L).wfB = true
  names : ∀ e ∈ liveOf w.img L.cat, ∀ x ∈ slice e 3 30, 128 ≤ x ∧ x < 256
  catNe : L.cat ≠ []
  /-- the format-time system units cover track 0 and the catalog track (no free sector there) -/
  cover : ∀ s, s < w.c → s ∈ sb ∧ vtocTrack * w.c + s ∈ sb
  track1 : Vtoc.track1 w.v = vtocTrack
  lastTrack : 1 ≤ Vtoc.lastTrack w.v

/-! ## bytes of an entry -/

theorem getD_slice {b : Bytes} {off n i : Nat} (hi : i < n) : (slice b off n).getD i 0 = b.getD (off + i) 0 := by
  unfold slice
  rw [getD_eq, getD_eq, List.getElem?_take, if_pos hi, List.getElem?_drop]

theorem slice_slice {b : Bytes} {off n i m : Nat} (h : i + m ≤ n) : slice (slice b off n) i m = slice b (off + i) m := by
  unfold slice
  rw [List.drop_take, List.take_take, List.drop_drop, Nat.min_eq_left (by omega)]

theorem le16_slice {b : Bytes} {off n i : Nat} (h : i + 2 ≤ n) : le16 (slice b off n) i = le16 b (off + i) := by
  unfold le16
  rw [getD_slice (by omega), getD_slice (by omega)]
  rfl

/-- entry `k` of a catalog sector -/
def entryAt (b : Bytes) (k : Nat) : Bytes := slice b (0x0B + 35 * k) 35

theorem entsOfSec_eq (b : Bytes) : entsOfSec b = (List.range 7).map (entryAt b) := rfl

/-- the sector `modify` writes: type byte and name of entry `k` replaced -/
def modSector (b : Bytes) (k ty2 : Nat) (nm : Bytes) : Bytes :=
  splice (splice b (entryOff k + 2) [ty2]) (entryOff k + 3) nm

section modsec
variable {b : Bytes} {k ty2 : Nat} {nm : Bytes} (hb : b.length = 256) (hk : k < 7) (hn : nm.length = 30)
include hb hk hn

theorem modSector_length : (modSector b k ty2 nm).length = 256 := by
  unfold modSector entryOff
  rw [splice_length (by rw [splice_length (by simp; omega)]; omega), splice_length (by simp; omega), hb]

theorem modSector_getD_low {i : Nat} (hi : i < entryOff k + 2) : (modSector b k ty2 nm).getD i 0 = b.getD i 0 := by
  unfold modSector entryOff at *
  rw [getD_splice_other (by rw [splice_length (by simp; omega)]; omega) (by omega),
    getD_splice_other (by simp; omega) (by omega)]

theorem modSector_entry_other {j : Nat} (hj : j < 7) (hne : j ≠ k) : entryAt (modSector b k ty2 nm) j = entryAt b j := by
  unfold entryAt modSector entryOff
  have h1 : (splice b (11 + 35 * k + 2) [ty2]).length = 256 := by rw [splice_length (by simp; omega), hb]
  rw [slice_splice_other (by omega) (by rcases Nat.lt_or_gt_of_ne hne with h | h <;> omega),
    slice_splice_other (by simp; omega) (by simp; rcases Nat.lt_or_gt_of_ne hne with h | h <;> omega)]

theorem modSector_entry_b0 : (entryAt (modSector b k ty2 nm) k).getD 0 0 = (entryAt b k).getD 0 0 := by
  unfold entryAt
  rw [getD_slice (by omega), getD_slice (by omega), modSector_getD_low hb hk hn (by unfold entryOff; omega)]

theorem modSector_entry_b1 : (entryAt (modSector b k ty2 nm) k).getD 1 0 = (entryAt b k).getD 1 0 := by
  unfold entryAt
  rw [getD_slice (by omega), getD_slice (by omega), modSector_getD_low hb hk hn (by unfold entryOff; omega)]

theorem modSector_entry_ty : (entryAt (modSector b k ty2 nm) k).getD 2 0 = ty2 := by
  unfold entryAt modSector entryOff
  have h1 : (splice b (11 + 35 * k + 2) [ty2]).length = 256 := by rw [splice_length (by simp; omega), hb]
  rw [getD_slice (by omega), getD_splice_other (by omega) (by omega)]
  have := getD_splice_in (e := b) (new := [ty2]) (off := 11 + 35 * k + 2) (j := 0) (by simp; omega) (by simp)
  simpa using this

theorem modSector_entry_name : slice (entryAt (modSector b k ty2 nm) k) 3 30 = nm := by
  unfold entryAt modSector entryOff
  have h1 : (splice b (11 + 35 * k + 2) [ty2]).length = 256 := by rw [splice_length (by simp; omega), hb]
  rw [slice_slice (by omega)]
  have := slice_splice_same (e := splice b (11 + 35 * k + 2) [ty2]) (new := nm) (off := 11 + 35 * k + 3) (by omega)
  rw [hn] at this
  exact this

theorem modSector_getD_high {i : Nat} (hi : entryOff k + 33 ≤ i) : (modSector b k ty2 nm).getD i 0 = b.getD i 0 := by
  unfold modSector entryOff at *
  have h1 : (splice b (11 + 35 * k + 2) [ty2]).length = 256 := by rw [splice_length (by simp; omega), hb]
  rw [getD_splice_other (e := splice b (11 + 35 * k + 2) [ty2]) (new := nm) (by omega) (by omega),
    getD_splice_other (e := b) (new := [ty2]) (by simp; omega) (by simp; omega)]

theorem modSector_entry_aux : le16 (entryAt (modSector b k ty2 nm) k) 33 = le16 (entryAt b k) 33 := by
  unfold entryAt
  rw [le16_slice (by omega), le16_slice (by omega)]
  unfold le16
  rw [modSector_getD_high hb hk hn (by unfold entryOff; omega), modSector_getD_high hb hk hn (by unfold entryOff; omega)]

theorem entsOfSec_modSector :
    entsOfSec (modSector b k ty2 nm) =
      (entsOfSec b).take k ++ entryAt (modSector b k ty2 nm) k :: (entsOfSec b).drop (k + 1) := by
  apply List.ext_getElem?
  intro i
  rw [entsOfSec_eq, entsOfSec_eq]
  by_cases hi : i < 7
  · rw [List.getElem?_map, List.getElem?_range hi]
    by_cases hik : i < k
    · rw [List.getElem?_append_left (by simp; omega), List.getElem?_take, if_pos hik, List.getElem?_map, List.getElem?_range hi]
      simp only [Option.map_some]
      rw [modSector_entry_other hb hk hn hi (by omega)]
    · by_cases hik2 : i = k
      · subst hik2
        rw [List.getElem?_append_right (by simp; omega)]
        simp [Nat.min_eq_left (Nat.le_of_lt hk)]
      · rw [List.getElem?_append_right (by simp; omega)]
        have hl : (((List.range 7).map (entryAt b)).take k).length = k := by simp; omega
        rw [hl]
        have : i - k = (i - k - 1) + 1 := by omega
        rw [this, List.getElem?_cons_succ, List.getElem?_drop, List.getElem?_map]
        have e2 : k + 1 + (i - k - 1) = i := by omega
        rw [e2, List.getElem?_range hi]
        simp only [Option.map_some]
        rw [modSector_entry_other hb hk hn hi hik2]
  · rw [List.getElem?_eq_none (by simp; omega), List.getElem?_eq_none (by simp; omega)]

theorem entsOfSec_split : entsOfSec b = (entsOfSec b).take k ++ entryAt b k :: (entsOfSec b).drop (k + 1) := by
  have hl : k < (entsOfSec b).length := by rw [entsOfSec_eq]; simp; omega
  have : (entsOfSec b)[k] = entryAt b k := by simp [entsOfSec_eq]
  rw [← this, ← List.drop_eq_getElem_cons hl, List.take_append_drop]

end modsec


/-! ## the image after one sector write -/

theorem vt_eq : Read.Dos3x.vtocTrack = vtocTrack := rfl

theorem sec_wrote {w : W} (h : WOk w) {t s : Nat} (ht : t < 35) (hs : s < w.c) (hne : ¬ (t = vtocTrack ∧ s = 0))
    (data : Bytes) (x : Nat) :
    sec (w.wrote t s data w.v).img x = if x = t * w.c + s then data else sec w.img x := by
  have hu : t * w.c + s < w.raw.units.size := by rw [h.size]; exact unit_lt ht hs
  have hne' : t * w.c + s ≠ vtocTrack * w.c := fun e => hne ((unit_idx hs).1 e)
  rw [W.sec_img, W.sec_img]
  have hsz : (w.wrote t s data w.v).raw.units.size = w.raw.units.size := by simp [W.wrote]
  have hc : (w.wrote t s data w.v).c = w.c := rfl
  have hv : (w.wrote t s data w.v).v = w.v := rfl
  rw [hsz, hc, hv]
  have hraw : sec (w.wrote t s data w.v).raw x = if x = t * w.c + s then data else sec w.raw x := by
    unfold sec W.wrote
    simp only [Array.getElem?_setIfInBounds]
    by_cases hx : t * w.c + s = x
    · subst hx; simp [hu]
    · have : ¬ x = t * w.c + s := fun e => hx e.symm
      simp [hx, this]
  rw [hraw]
  by_cases hx : x = t * w.c + s
  · subst hx
    simp [hne']
  · simp [hx]

theorem wrote_ok {w : W} (h : WOk w) {t s : Nat} (ht : t < 35) (hs : s < w.c) {data : Bytes} (hd : data.length = 256) :
    WOk (w.wrote t s data w.v) := by
  have hu : t * w.c + s < w.raw.units.size := by rw [h.size]; exact unit_lt ht hs
  refine ⟨h.hc, by simp [W.wrote, h.size], h.vlen, h.vlt, h.vTracks, h.vSpt, h.vBps, h.vPairs, ?_⟩
  intro x hx
  have hx' : x < w.raw.units.size := by simpa [W.wrote] using hx
  unfold sec W.wrote
  simp only [Array.getElem?_setIfInBounds]
  by_cases hxe : t * w.c + s = x
  · simp [hxe, hx', hd]
  · simp only [hxe, if_false]
    exact h.ulen x hx'

theorem catChain_mem {r : Raw} {c : Nat} : ∀ {cat : List Nat} {t s : Nat}, CatChain r c t s cat →
    ∀ u ∈ cat, ∃ t' s', t' < 35 ∧ s' < c ∧ u = t' * c + s' ∧ u < r.units.size := by
  intro cat
  induction cat with
  | nil => intro _ _ _ u hu; cases hu
  | cons x rest ih =>
    intro t s h u hu
    obtain ⟨_, ht, hs, hx, hlt, hrest⟩ := h
    rcases List.mem_cons.1 hu with rfl | hu
    · exact ⟨t, s, ht, hs, hx, hlt⟩
    · exact ih hrest u hu

theorem entsOf_append (r : Raw) (C1 C2 : List Nat) : entsOf r (C1 ++ C2) = entsOf r C1 ++ entsOf r C2 := by
  simp [entsOf, List.flatMap_append]

theorem entsOf_cons (r : Raw) (u : Nat) (C : List Nat) : entsOf r (u :: C) = entsOfSec (sec r u) ++ entsOf r C := by
  simp [entsOf, List.flatMap_cons]

theorem entsOf_congr {r r' : Raw} {C : List Nat} (h : ∀ x ∈ C, sec r' x = sec r x) : entsOf r' C = entsOf r C := by
  induction C with
  | nil => rfl
  | cons x C ih =>
    rw [entsOf_cons, entsOf_cons, h x List.mem_cons_self, ih (fun y hy => h y (List.mem_cons_of_mem _ hy))]

theorem entry_length {b : Bytes} {k : Nat} (hb : b.length = 256) (hk : k < 7) : (entryAt b k).length = 35 := by
  unfold entryAt; exact slice_length (by omega)

theorem sys_mem_cat {c : Nat} {sb : List Nat} {L : Lay} {r : Raw} {u : Nat} (hu : u ∈ L.cat) : u ∈ (volOf r c sb L).sys := by
  simp [volOf, fixedOf, hu]

/-- units of the catalog are owned by no file, and are not the VTOC -/
theorem cat_unit_facts {r : Raw} {c : Nat} {sb : List Nat} {L : Lay} (hw : (volOf r c sb L).wfB = true) {u : Nat} (hu : u ∈ L.cat) :
    u ≠ vtocTrack * c ∧ ∀ f ∈ (volOf r c sb L).files, u ∉ f.owned := by
  obtain ⟨_, h2, _⟩ := wfB_iff.1 hw
  have hnd := List.nodup_append.1 h2
  constructor
  · have hs : ((vtocTrack * c) :: L.cat).Nodup := by
      have : (volOf r c sb L).sys = ((vtocTrack * c) :: L.cat) ++ sb.filter (fun u => !(fixedOf c L).contains u) := rfl
      rw [this] at hnd
      exact (List.nodup_append.1 hnd.2.1).1
    intro e
    exact (List.nodup_cons.1 hs).1 (e ▸ hu)
  · intro f hf hm
    have : u ∈ (volOf r c sb L).allOwned := List.mem_flatMap.2 ⟨f, hf, hm⟩
    exact hnd.2.2 u this u (sys_mem_cat hu) rfl

theorem modify_entry {w : W} {sb : List Nat} {L : Lay} (hi : WInv w sb L) {u k ty2 : Nat} {nm : Bytes}
    (hu : u ∈ L.cat) (hk : k < 7) (hlive : isLive (entryAt (sec w.img u) k) = true)
    (hn : nm.length = 30) (hnb : ∀ x ∈ nm, 128 ≤ x ∧ x < 256)
    (hfresh : pathOfName nm = pathOfName (slice (entryAt (sec w.img u) k) 3 30) ∨ pathOfName nm ∉ (volOf w.img w.c sb L).paths) :
    WInv (w.wrote (u / w.c) (u % w.c) (modSector (sec w.img u) k ty2 nm) w.v) sb L ∧
    ∃ F1 F2 t, (volOf w.img w.c sb L).files = F1 ++ recOf w.img w.c (entryAt (sec w.img u) k) t :: F2 ∧
      volOf (w.wrote (u / w.c) (u % w.c) (modSector (sec w.img u) k ty2 nm) w.v).img w.c sb L =
        replaced (volOf w.img w.c sb L) F1 F2 (recOf w.img w.c (entryAt (modSector (sec w.img u) k ty2 nm) k) t) := by
  have hok := hi.ok
  have hd := hi.desc
  obtain ⟨t', s', ht', hs', hue, hult⟩ := catChain_mem hd.cat u hu
  rw [W.img_size] at hult
  have hdm := div_mod_unit (t := t') hs'
  rw [← hue] at hdm
  rw [hdm.1, hdm.2]
  obtain ⟨hne17, hown⟩ := cat_unit_facts hi.wf hu
  have hnev : ¬ (t' = vtocTrack ∧ s' = 0) := fun e => hne17 (by rw [hue]; exact (unit_idx hs').2 e)
  have hbl : (sec w.img u).length = 256 := sec_img_length hok hult
  have hml : (modSector (sec w.img u) k ty2 nm).length = 256 := modSector_length hbl hk hn
  generalize hw' : w.wrote t' s' (modSector (sec w.img u) k ty2 nm) w.v = w'
  have hsec : ∀ x, sec w'.img x = if x = u then modSector (sec w.img u) k ty2 nm else sec w.img x := by
    intro x; rw [← hw', sec_wrote hok ht' hs' hnev, ← hue]
  have hok' : WOk w' := by rw [← hw']; exact wrote_ok hok ht' hs' hml
  have hc' : w'.c = w.c := by rw [← hw']; rfl
  have hsz : w'.img.units.size = w.img.units.size := by rw [W.img_size, W.img_size, ← hw']; simp [W.wrote]
  have hvt : vtocOf w'.img w.c = vtocOf w.img w.c := by
    unfold vtocOf; rw [vt_eq, hsec, if_neg (Ne.symm hne17)]
  -- the catalog chain
  obtain ⟨C1, C2, hcat⟩ := List.append_of_mem hu
  have hnd := hd.catNodup
  rw [hcat] at hnd
  have hC1 : u ∉ C1 := fun hm => (List.nodup_append.1 hnd).2.2 u hm u List.mem_cons_self rfl
  have hC2 : u ∉ C2 := (List.nodup_cons.1 (List.nodup_append.1 hnd).2.1).1
  have hcatch : CatChain w'.img w.c ((vtocOf w.img w.c).getD 1 0) ((vtocOf w.img w.c).getD 2 0) L.cat := by
    apply CatChain.congr hsz _ hd.cat
    intro x _
    rw [hsec]
    by_cases hx : x = u
    · subst hx
      rw [if_pos rfl, modSector_getD_low hbl hk hn (by unfold entryOff; omega), modSector_getD_low hbl hk hn (by unfold entryOff; omega)]
      exact ⟨rfl, rfl⟩
    · rw [if_neg hx]; exact ⟨rfl, rfl⟩
  -- entries
  have hE1 : entsOf w'.img C1 = entsOf w.img C1 := entsOf_congr (fun x hx => by rw [hsec, if_neg (fun (e : x = u) => hC1 (e ▸ hx))])
  have hE2 : entsOf w'.img C2 = entsOf w.img C2 := entsOf_congr (fun x hx => by rw [hsec, if_neg (fun (e : x = u) => hC2 (e ▸ hx))])
  generalize hA : entsOf w.img C1 ++ (entsOfSec (sec w.img u)).take k = A
  generalize hB : (entsOfSec (sec w.img u)).drop (k + 1) ++ entsOf w.img C2 = B
  have hents : entsOf w.img L.cat = A ++ entryAt (sec w.img u) k :: B := by
    rw [hcat, entsOf_append, entsOf_cons, entsOfSec_split (b := sec w.img u) (nm := nm) hbl hk hn, ← hA, ← hB]
    simp [List.append_assoc]
  have hents' : entsOf w'.img L.cat = A ++ entryAt (modSector (sec w.img u) k ty2 nm) k :: B := by
    rw [hcat, entsOf_append, entsOf_cons, hE1, hE2, hsec, if_pos rfl, entsOfSec_modSector hbl hk hn, ← hA, ← hB]
    simp [List.append_assoc]
  have hlive' : isLive (entryAt (modSector (sec w.img u) k ty2 nm) k) = true := by
    unfold isLive at hlive ⊢
    rw [modSector_entry_b0 hbl hk hn]; exact hlive
  have hlv : liveOf w.img L.cat = A.filter isLive ++ entryAt (sec w.img u) k :: B.filter isLive := by
    unfold liveOf; rw [hents, List.filter_append, List.filter_cons, if_pos hlive]
  have hlv' : liveOf w'.img L.cat = A.filter isLive ++ entryAt (modSector (sec w.img u) k ty2 nm) k :: B.filter isLive := by
    unfold liveOf; rw [hents', List.filter_append, List.filter_cons, if_pos hlive']
  -- the files
  have hfiles := hd.files
  rw [hlv] at hfiles
  obtain ⟨T1, t, T2, hT, hA2, hce, hB2⟩ := hfiles.split
  have hlen1 := hA2.length_eq
  have hvf : (volOf w.img w.c sb L).files =
      filesOf w.img w.c (A.filter isLive) T1 ++ recOf w.img w.c (entryAt (sec w.img u) k) t :: filesOf w.img w.c (B.filter isLive) T2 := by
    show filesOf w.img w.c (liveOf w.img L.cat) L.tsls = _
    rw [hlv, hT, filesOf_append hlen1, filesOf_cons]
  have hagree : ∀ f ∈ (volOf w.img w.c sb L).files, ∀ x ∈ f.owned, sec w'.img x = sec w.img x := by
    intro f hf x hx
    rw [hsec, if_neg (fun (e : x = u) => hown f hf (e ▸ hx))]
  have hF1 := filesOf_congr hsz hA2 (fun f hf => hagree f (by rw [hvf]; exact List.mem_append_left _ hf))
  have hF2 := filesOf_congr hsz hB2 (fun f hf => hagree f (by rw [hvf]; exact List.mem_append_right _ (List.mem_cons_of_mem _ hf)))
  have hmid := hagree (recOf w.img w.c (entryAt (sec w.img u) k) t) (by rw [hvf]; simp)
  have hce' : FileChain w'.img w.c (entryAt (modSector (sec w.img u) k ty2 nm) k) t := by
    have := hce.congr hsz (fun x hx => hmid x (List.mem_append_left _ hx))
    unfold FileChain at this ⊢
    rw [modSector_entry_b0 hbl hk hn, modSector_entry_b1 hbl hk hn]; exact this
  have hrec' : recOf w'.img w.c (entryAt (modSector (sec w.img u) k ty2 nm) k) t =
      recOf w.img w.c (entryAt (modSector (sec w.img u) k ty2 nm) k) t := recOf_congr (fun x hx => hmid x hx)
  have hvf' : filesOf w'.img w.c (liveOf w'.img L.cat) L.tsls =
      filesOf w.img w.c (A.filter isLive) T1 ++ recOf w.img w.c (entryAt (modSector (sec w.img u) k ty2 nm) k) t ::
        filesOf w.img w.c (B.filter isLive) T2 := by
    rw [hlv', hT, filesOf_append hlen1, filesOf_cons, hF1.1, hF2.1, hrec']
  have hvol : volOf w'.img w.c sb L = replaced (volOf w.img w.c sb L) (filesOf w.img w.c (A.filter isLive) T1)
      (filesOf w.img w.c (B.filter isLive) T2) (recOf w.img w.c (entryAt (modSector (sec w.img u) k ty2 nm) k) t) := by
    unfold volOf replaced
    simp only [hvf', freeOf, hvt]
  have hvv' : w'.v = w.v := by rw [← hw']; rfl
  refine ⟨⟨hok', ?_, ?_, ?_, hi.catNe, by rw [hc']; exact hi.cover, by rw [hvv']; exact hi.track1, by rw [hvv']; exact hi.lastTrack⟩,
    _, _, t, hvf, by rw [hc'] at *; exact hvol⟩
  · rw [hc']
    refine ⟨hd.hc, by rw [hsz]; exact hd.size, by rw [hvt]; exact hd.vTracks, by rw [hvt]; exact hd.vSpt,
      by rw [hvt]; exact hd.vPairs, by rw [hvt]; exact hcatch, hd.catNodup, hd.catLen, ?_⟩
    rw [hlv', hT]
    exact All2.append hF1.2 (All2.cons hce' hF2.2)
  · rw [hc', hvol]
    refine wfB_replace (g := recOf w.img w.c (entryAt (modSector (sec w.img u) k ty2 nm) k) t) hvf hi.wf rfl rfl ?_
    show (recOf w.img w.c (entryAt (modSector (sec w.img u) k ty2 nm) k) t).path = pathOfName (slice (entryAt (sec w.img u) k) 3 30) ∨ _
    have hpn : (recOf w.img w.c (entryAt (modSector (sec w.img u) k ty2 nm) k) t).path = pathOfName nm := by
      show pathOfName (slice (entryAt (modSector (sec w.img u) k ty2 nm) k) 3 30) = _
      rw [modSector_entry_name hbl hk hn]
    rw [hpn]
    exact hfresh
  · intro e he
    rw [hlv'] at he
    have hold : ∀ e ∈ A.filter isLive ++ B.filter isLive, ∀ x ∈ slice e 3 30, 128 ≤ x ∧ x < 256 := by
      intro e he
      apply hi.names e
      rw [hlv]
      rcases List.mem_append.1 he with h | h
      · exact List.mem_append_left _ h
      · exact List.mem_append_right _ (List.mem_cons_of_mem _ h)
    rcases List.mem_append.1 he with h | h
    · exact hold e (List.mem_append_left _ h)
    · rcases List.mem_cons.1 h with rfl | h
      · rw [modSector_entry_name hbl hk hn]; exact hnb
      · exact hold e (List.mem_append_right _ h)


/-! ## what the directory walk finds -/

theorem findIn_some {r : Raw} {c : Nat} {fname : Bytes} : ∀ {cat : List Nat} {t s k : Nat} {dir : Bytes},
    findIn r c fname cat = some (t, s, dir, k) →
    ∃ u ∈ cat, t = u / c ∧ s = u % c ∧ dir = sec r u ∧ matchEntry (sec r u) fname = some k := by
  intro cat
  induction cat with
  | nil => intro t s k dir h; simp [findIn] at h
  | cons x rest ih =>
    intro t s k dir h
    simp only [findIn] at h
    cases hm : matchEntry (sec r x) fname with
    | some k' =>
      rw [hm] at h
      simp only [Option.some.injEq, Prod.mk.injEq] at h
      obtain ⟨rfl, rfl, rfl, rfl⟩ := h
      exact ⟨x, List.mem_cons_self, rfl, rfl, rfl, hm⟩
    | none =>
      rw [hm] at h
      obtain ⟨u, hu, h'⟩ := ih h
      exact ⟨u, List.mem_cons_of_mem _ hu, h'⟩

theorem findIn_none {r : Raw} {c : Nat} {fname : Bytes} : ∀ {cat : List Nat}, findIn r c fname cat = none →
    ∀ u ∈ cat, matchEntry (sec r u) fname = none := by
  intro cat
  induction cat with
  | nil => intro _ u hu; cases hu
  | cons x rest ih =>
    intro h u hu
    simp only [findIn] at h
    cases hm : matchEntry (sec r x) fname with
    | some k' => rw [hm] at h; cases h
    | none =>
      rw [hm] at h
      rcases List.mem_cons.1 hu with rfl | hu
      · exact hm
      · exact ih h u hu

theorem dir_name_eq (b : Bytes) (k : Nat) : Dir.name b k = slice (entryAt b k) 3 30 := by
  unfold Dir.name entryAt entryOff
  rw [slice_slice (by omega)]

theorem dir_tslTrack_eq (b : Bytes) (k : Nat) : Dir.tslTrack b k = (entryAt b k).getD 0 0 := by
  unfold Dir.tslTrack entryAt entryOff
  rw [getD_slice (by omega)]; rfl

theorem dir_fileType_eq (b : Bytes) (k : Nat) : Dir.fileType b k = (entryAt b k).getD 2 0 := by
  unfold Dir.fileType entryAt entryOff
  rw [getD_slice (by omega)]

theorem isLive_of {e : Bytes} (h : e.getD 0 0 > 0 ∧ e.getD 0 0 < 255) : isLive e = true := by
  unfold isLive
  simp only [decide_eq_true_eq]
  omega

theorem isLive_pos {e : Bytes} (h : isLive e = true) : e.getD 0 0 > 0 := by
  unfold isLive at h
  simp only [decide_eq_true_eq] at h
  omega

theorem matchEntry_some {b fname : Bytes} {k : Nat} (h : matchEntry b fname = some k) :
    k < 7 ∧ slice (entryAt b k) 3 30 = fname ∧ isLive (entryAt b k) = true := by
  unfold matchEntry at h
  have hm := List.mem_of_find?_eq_some h
  have hp := List.find?_some h
  simp only [decide_eq_true_eq] at hp
  refine ⟨List.mem_range.1 hm, ?_, ?_⟩
  · rw [← dir_name_eq]; exact hp.1.symm
  · apply isLive_of; rw [← dir_tslTrack_eq]; exact hp.2

theorem matchEntry_none {b fname : Bytes} (h : matchEntry b fname = none) {k : Nat} (hk : k < 7)
    (hl : isLive (entryAt b k) = true) (hlt : (entryAt b k).getD 0 0 < 255) : slice (entryAt b k) 3 30 ≠ fname := by
  unfold matchEntry at h
  have := List.find?_eq_none.1 h k (List.mem_range.2 hk)
  simp only [decide_eq_true_eq] at this
  intro e
  apply this
  rw [dir_name_eq, dir_tslTrack_eq]
  exact ⟨e.symm, isLive_pos hl, hlt⟩

/-- every live entry of the catalog is entry `k` of some catalog sector -/
theorem mem_liveOf {r : Raw} {cat : List Nat} {e : Bytes} : e ∈ liveOf r cat ↔
    ∃ u ∈ cat, ∃ k, k < 7 ∧ e = entryAt (sec r u) k ∧ isLive e = true := by
  unfold liveOf entsOf
  simp only [List.mem_filter, List.mem_flatMap, entsOfSec_eq, List.mem_map, List.mem_range]
  constructor
  · rintro ⟨⟨u, hu, k, hk, rfl⟩, hl⟩; exact ⟨u, hu, k, hk, rfl, hl⟩
  · rintro ⟨u, hu, k, hk, rfl, hl⟩; exact ⟨⟨u, hu, k, hk, rfl⟩, hl⟩

/-! ## the bitmap as the reader sees it -/

theorem mapVal_quantize {v : Bytes} (hl : v.length = 196) {t : Nat} (ht : t < 35) : mapVal (quantize v) t = mapVal v t := by
  unfold mapVal
  rw [getD_quantize (by omega) (by omega), getD_quantize (by omega) (by omega), getD_quantize (by omega) (by omega),
    getD_quantize (by omega) (by omega)]

theorem sectorFree_eq (b : Bytes) (c t s : Nat) : sectorFree b (geo c) t s = (mapVal b t).testBit (s + 32 - c) := by
  unfold sectorFree mapVal
  rw [Nat.testBit_eq_decide_div_mod_eq]
  simp only [geo]
  generalize (((b.getD (0x38 + 4 * t) 0 * 256 + b.getD (0x38 + 4 * t + 1) 0) * 256 + b.getD (0x38 + 4 * t + 2) 0) * 256 +
    b.getD (0x38 + 4 * t + 3) 0) / 2 ^ (s + 32 - c) % 2 = x
  by_cases h : x = 1 <;> simp [h]

theorem vtocOf_img {w : W} (h : WOk w) : vtocOf w.img w.c = quantize w.v := by
  unfold vtocOf
  rw [vt_eq, W.sec_img, if_pos ⟨rfl, by rw [h.size]; unfold vtocTrack; rcases h.hc with e | e <;> omega⟩]

theorem getD_vtocOf {w : W} (h : WOk w) {i : Nat} (hi : i < 196) : (vtocOf w.img w.c).getD i 0 = w.v.getD i 0 := by
  rw [vtocOf_img h, getD_quantize (by rw [h.vlen]; exact hi) (by rw [h.vlen]; omega)]

/-- a catalog sector is marked used in the buffer -/
theorem cat_used {w : W} {sb : List Nat} {L : Lay} (hi : WInv w sb L) {t s : Nat} (ht : t < 35) (hs : s < w.c)
    (hu : t * w.c + s ∈ L.cat) : bitFree w.v w.c t s = false := by
  obtain ⟨_, _, _, h4, _⟩ := wfB_iff.1 hi.wf
  have := h4 _ (sys_mem_cat (r := w.img) (c := w.c) (sb := sb) hu)
  have hlt : t * w.c + s < 35 * w.c := unit_lt ht hs
  have hnf : ¬ (sectorFree (vtocOf w.img w.c) (geo w.c) ((t * w.c + s) / w.c) ((t * w.c + s) % w.c) = true) := by
    intro hf
    apply this
    show t * w.c + s ∈ freeOf w.img w.c
    unfold freeOf
    exact List.mem_filter.2 ⟨List.mem_range.2 hlt, hf⟩
  rw [(div_mod_unit hs).1, (div_mod_unit hs).2, sectorFree_eq, vtocOf_img hi.ok, mapVal_quantize hi.ok.vlen ht] at hnf
  unfold bitFree
  simpa using hnf

end A2Verif.Fs.Dos3x
