import A2Verif.Lemmas.FsProdosPutT3
/-!
# `write_file`: the tree rounds as rounds of the loop, and the conversion of a sapling into a tree
-/
namespace A2Verif.FsProdos
open A2Verif.Fs.Prodos
open A2Verif.Read.Prodos (entryAt dirChain idxPtr indexEntries readData trimName)

/-- the current group has a chunk so far iff it has an index block -/
theorem TreeInv.grp_iff {f : FImg} {d2 : Disk} {bm cnt : Nat} {e0 : Bytes} {c : Nat} {s : WS} {dc : Disk} {Al : List Nat}
    {G : List (Nat × List Nat)} {P : List Nat} (inv : TreeInv f d2 bm cnt e0 c s dc Al G P) :
    s.masterCount ∈ grp f c ↔ s.indexPtr ≠ 0 := by
  have hcc := inv.cc
  have hmc1 := inv.mc1
  have hicr := inv.icr
  rw [mem_grp]
  constructor
  · rintro ⟨k, hk1, hk2, hk3, hk4⟩ h0
    have hkl : k - 256 * s.masterCount < P.length := by rw [inv.plen]; omega
    unfold hasChunk at hk3
    cases hl : f.chunks.lookup k with
    | none => rw [hl] at hk3; cases hk3
    | some data =>
      have := (inv.gcur.dat (k - 256 * s.masterCount) hkl data (by rw [show 256 * s.masterCount + (k - 256 * s.masterCount) = k by omega]; exact hl)).1
      exact this (inv.gcur.zero h0 _ (getD_mem_of_lt _ _ hkl))
  · intro h0
    obtain ⟨k, hk, hh⟩ := inv.csome h0
    rw [inv.plen] at hk
    exact ⟨256 * s.masterCount + k, by omega, by omega, hh, by omega⟩

/-- **one round of the loop while the file is a tree** -/
theorem tree_round {f : FImg} {d2 : Disk} {bm cnt : Nat} {e0 : Bytes} {c : Nat} {s : WS} {dc : Disk} {Al : List Nat}
    {G : List (Nat × List Nat)} {P : List Nat} (ctx : LoopCtx d2 bm cnt) (inv : TreeInv f d2 bm cnt e0 c s dc Al G P)
    (hic1 : 1 ≤ s.indexCount) (hc : c < 32768)
    (hfit : allocCount f (c + 1) ≤ (freeBlocks (effBuf d2 bm cnt) d2.total).length)
    (hbytes : ∀ k data, f.chunks.lookup k = some data → ∀ x ∈ data, x < 256) (end_ : Nat) :
    ∃ s' d' Al' G' P', wfStep f end_ c s dc = (.ok s', d') ∧ TreeInv f d2 bm cnt e0 (c + 1) s' d' Al' G' P' ∧
      1 ≤ s'.indexCount := by
  obtain ⟨dn, hnum, an, hrawn, heffn⟩ := numFree_astate ctx inv.a
  have invn := inv.opened an hrawn
  have hcc := inv.cc
  have hicr := inv.icr
  have hmc1 := inv.mc1
  unfold wfStep
  simp only [bind_def, pure_def]
  rw [if_neg (by omega)]
  rw [bind_ok _ _ dc dn _ hnum]
  have hs1 : ¬ s.storage = stSeedling := by rw [inv.st]; decide
  have hs2 : ¬ s.storage = stSapling := by rw [inv.st]; decide
  simp only [hs1, hs2, ↓reduceIte]
  -- the state once a full group has been closed
  obtain ⟨s1, G1, P1, hs1def, inv1, hic1'⟩ : ∃ s1 G1 P1,
      s1 = (if s.indexCount > 255 then { s with masterCount := s.masterCount + 1, indexPtr := 0, indexCount := 0, indexBuf := zeros blockSize } else s) ∧
      TreeInv f d2 bm cnt e0 c s1 dn Al G1 P1 ∧ s1.indexCount < 256 := by
    by_cases h : s.indexCount > 255
    · refine ⟨_, G ++ [(s.indexPtr, P)], [], rfl, ?_, ?_⟩
      · rw [if_pos h]; exact tree_norm invn (by omega)
      · rw [if_pos h]; show 0 < 256; omega
    · refine ⟨_, G, P, rfl, ?_, ?_⟩
      · rw [if_neg h]; exact invn
      · rw [if_neg h]; omega
  rw [← hs1def]
  have hmc127 : s1.masterCount ≤ 127 := by
    have := inv1.cc; have := inv1.mc1; omega
  have hdiv : c / 256 = s1.masterCount := by have := inv1.cc; omega
  have hstep := allocCount_succ_tree f c inv.c256
  rw [hdiv] at hstep
  have hgrp := inv1.grp_iff
  have hneedeq : (s.indexCount < 256 ∧ s.indexPtr > 0) ↔ s1.indexPtr ≠ 0 := by
    rw [hs1def]
    by_cases h : s.indexCount > 255
    · rw [if_pos h]; simp; omega
    · rw [if_neg h]; constructor
      · rintro ⟨_, h2⟩; omega
      · intro h2; exact ⟨by omega, by omega⟩
  have hneed : ¬ ((if (f.chunks.lookup c).isNone = true then 0 else if s.indexCount < 256 ∧ s.indexPtr > 0 then 1 else 2) >
      (freeBlocks (effBuf d2 bm cnt) d2.total).length - Al.length) := by
    have hac := inv.acount
    cases hl : f.chunks.lookup c with
    | none => simp
    | some data =>
      have hh : hasChunk f c = true := by unfold hasChunk; rw [hl]; rfl
      simp only [Option.isNone_some, Bool.false_eq_true, ↓reduceIte]
      rw [if_pos hh] at hstep
      by_cases hq : s1.indexPtr = 0
      · have hng : s1.masterCount ∉ grp f c := fun h' => (hgrp.mp h') hq
        rw [if_pos ⟨hh, hng⟩] at hstep
        rw [if_neg (fun h' => (hneedeq.mp h') hq)]; omega
      · rw [if_pos (hneedeq.mpr hq)]; omega
  rw [if_neg hneed]
  obtain ⟨ip', e1, d1, p, e2, dw, ib1, d3, mb1, d4, Al', hA, hw, hpack, hD, hpm, hwm, inv'⟩ :=
    tree_core ctx inv1 hic1' hmc127 hfit hbytes end_
  refine ⟨_, d4, Al', G1, P1 ++ [p], ?_, inv', by show 1 ≤ s1.indexCount + 1; omega⟩
  have hfirst : (if s1.indexPtr = 0 ∧ (f.chunks.lookup c).isSome = true then
        availOrPanic.bind fun p => (allocate p).bind fun __r => M.pure (p, Ent.incBlocks s1.entry)
      else M.pure (s1.indexPtr, s1.entry)) dn = (.ok (ip', e1), d1) := by
    rcases hA with ⟨h1, h2, dA, hav, hal, he1⟩ | ⟨hn, hi, he, hd⟩
    · rw [if_pos ⟨h1, h2⟩, bind_ok _ _ dn dA _ hav, bind_ok _ _ dA d1 _ hal, he1]; rfl
    · rw [if_neg hn, hi, he, hd]; rfl
  rw [bind_ok _ _ dn d1 _ hfirst]
  simp only []
  rw [bind_ok _ _ d1 dw _ hw]
  simp only []
  rw [hpack, bind_ok _ _ dw dw _ (ofOption_some _ dw)]
  rcases hD with ⟨h0, hwb⟩ | ⟨h0, hd3⟩
  · rw [if_pos h0, bind_ok _ _ dw d3 _ hwb, hpm, bind_ok _ _ d3 d3 _ (ofOption_some _ d3), bind_ok _ _ d3 d4 _ hwm]
    rfl
  · subst hd3
    rw [if_neg (by omega), hpm, bind_ok _ _ d3 d3 _ (ofOption_some _ d3), bind_ok _ _ d3 d4 _ hwm]
    rfl

end A2Verif.FsProdos
