import A2Verif.Lemmas.FsCpmFlags
/-!
# The access loop of `modify`: `lock`, `unlock`, `retype` refine the abstract operations
-/
namespace A2Verif.FsCpm
open A2Verif.Fs.Cpm
open A2Verif.Read.Cpm (Dpb fileKey extNum entryPtrs pathOf slots)

theorem flags_getD (e : Bytes) (he : e.length = 32) (k : Nat) (hk : k < 11) : (Ext.flags e).getD k 0 = hi (e.getD (k + 1) 0) := by
  unfold Ext.flags Ext.nameAndFlags Ext.name Ext.typ
  rw [← slice_add e 1 8 3]
  have hl : (slice e 1 11).length = 11 := slice_length (by omega)
  have := getD_slice e 1 11 k hk
  simp only [List.getD_eq_getElem?_getD, List.getElem?_map] at this ⊢
  have hk' : k < (slice e 1 (8 + 3)).length := by rw [show 8 + 3 = 11 from rfl, hl]; exact hk
  rw [List.getElem?_eq_getElem hk'] at this ⊢
  simp only [Option.map_some, Option.getD_some] at this ⊢
  rw [this, Nat.add_comm]

/-- `set_flags` with whatever flag bytes keeps status, 7-bit name and the rest of the entry -/
theorem keepsBody_setFlags (F1 F2 : Bytes → Bytes) : KeepsBody (fun e => Ext.setFlags e (F1 e) (F2 e)) := by
  refine ⟨fun e he => ⟨he, setFlags_length he, fun i hi => ?_⟩, fun e he => ?_, fun e he i a b => ?_, fun e he _ => ?_⟩
  · rw [setFlags_getD he, if_neg (by omega), if_neg (by omega)]
  · rw [setFlags_getD he, if_neg (by omega), if_neg (by omega)]
  · rw [setFlags_getD he]
    by_cases c : 1 ≤ i ∧ i < 9
    · rw [if_pos c]; unfold hi lo; omega
    · rw [if_neg c, if_pos ⟨by omega, by omega⟩]; unfold hi lo; omega
  · rw [setFlags_getD he, if_neg (by omega), if_pos ⟨by omega, by omega⟩]; unfold hi lo; omega

theorem keepsBody_setAccess (access : List Nat) : KeepsBody (setAccess access) :=
  keepsBody_setFlags (fun e => (newFlags access e).take 8) (fun e => (newFlags access e).drop 8)

theorem newFlags_getD (access : List Nat) (e : Bytes) (he : e.length = 32) (k : Nat) (hk : k < 11) :
    (newFlags access e).getD k 0 = newFlag (access.getD k 0) (hi (e.getD (k + 1) 0)) := by
  unfold newFlags
  simp only [List.getD_eq_getElem?_getD, List.getElem?_map, List.getElem?_range hk, Option.map_some, Option.getD_some]
  have := flags_getD e he k hk
  simp only [List.getD_eq_getElem?_getD] at this
  rw [this]

/-- byte `i` (1 ≤ i < 12) of an entry after the access loop -/
theorem setAccess_getD (access : List Nat) (e : Bytes) (he : e.length = 32) (i : Nat) (h1 : 1 ≤ i) (h2 : i < 12) :
    (setAccess access e).getD i 0 = hi (newFlag (access.getD (i - 1) 0) (hi (e.getD i 0))) + lo (e.getD i 0) := by
  unfold setAccess
  rw [setFlags_getD he]
  have hnl : (newFlags access e).length = 11 := by unfold newFlags; simp
  by_cases c : i < 9
  · rw [if_pos ⟨h1, c⟩]
    have : ((newFlags access e).take 8).getD (i - 1) 0 = (newFlags access e).getD (i - 1) 0 := by
      simp only [List.getD_eq_getElem?_getD, List.getElem?_take, show i - 1 < 8 by omega, ↓reduceIte]
    rw [this, newFlags_getD access e he (i - 1) (by omega)]
    have e1 : i - 1 + 1 = i := by omega
    rw [e1]
  · rw [if_neg (by omega), if_pos ⟨by omega, h2⟩]
    have : ((newFlags access e).drop 8).getD (i - 9) 0 = (newFlags access e).getD (i - 1) 0 := by
      simp only [List.getD_eq_getElem?_getD, List.getElem?_drop]
      congr 2; omega
    rw [this, newFlags_getD access e he (i - 1) (by omega)]
    have e1 : i - 1 + 1 = i := by omega
    rw [e1]

theorem setAccess_idem (access : List Nat) (e : Bytes) (he : e.length = 32) : setAccess access (setAccess access e) = setAccess access e := by
  have kb := keepsBody_setAccess access
  have hl1 : (setAccess access e).length = 32 := (kb.tail e he).len'
  have hl2 : (setAccess access (setAccess access e)).length = 32 := (kb.tail _ hl1).len'
  apply ext_getD (by rw [hl1, hl2])
  intro i
  by_cases c : 1 ≤ i ∧ i < 12
  · rw [setAccess_getD access _ hl1 i c.1 c.2, setAccess_getD access e he i c.1 c.2]
    generalize access.getD (i - 1) 0 = a
    generalize e.getD i 0 = y
    unfold newFlag hi lo
    by_cases a2 : a = 2
    · simp only [a2, ↓reduceIte]; omega
    · by_cases a1 : a = 1
      · simp only [a1, ↓reduceIte]; omega
      · simp only [a2, a1, ↓reduceIte]; omega
  · by_cases c0 : i = 0
    · subst c0; rw [kb.status _ hl1]
    · rw [(kb.tail _ hl1).tail i (by omega)]

/-! ## from the loop to a map over the directory -/

theorem loop_as_map {dir dir' : Dir} {l : List (Nat × Nat)} {K0 : List Nat} {g : Bytes → Bytes}
    (hidx : ∀ j e, dir[j]? = some e → ((e.getD 0 0 < 16 ∧ fileKey e = K0) ↔ ∃ p ∈ l, p.2 = j))
    (hget : ∀ j, dir'[j]? = if (∃ p ∈ l, p.2 = j) then (dir[j]?).map (visit g) else dir[j]?) :
    dir' = dir.map (onKey K0 g) := by
  apply List.ext_getElem?
  intro j
  rw [hget j, List.getElem?_map]
  cases he : dir[j]? with
  | none => simp
  | some e =>
    by_cases c : ∃ p ∈ l, p.2 = j
    · rw [if_pos c]
      obtain ⟨hu, hk⟩ := (hidx j e he).2 c
      simp only [Option.map_some]
      unfold visit onKey
      rw [if_pos ((isExtent_iff e).2 hu), if_pos ⟨hu, hk⟩]
    · rw [if_neg c]
      simp only [Option.map_some]
      unfold onKey
      rw [if_neg (fun x => c ((hidx j e he).1 x))]

/-! ## the record of the touched file -/

theorem eofOf_tail {e e' : Bytes} (h : SameTail e e') : eofOf e' = eofOf e := by
  unfold eofOf; rw [h.extNum, h.tail 15 (by omega), h.tail 13 (by omega)]

theorem recOf_map_keep {r : Raw} {d : Dpb} {ents es : List Bytes} {φ : Bytes → Bytes} (kb : KeepsBody φ)
    (hne : es ≠ []) (hl : ∀ e ∈ es, e.length = 32) :
    (recOf r d ents (es.map φ)).path = (recOf r d ents es).path ∧
    (recOf r d ents (es.map φ)).chunks = (recOf r d ents es).chunks ∧
    (recOf r d ents (es.map φ)).eof = (recOf r d ents es).eof ∧
    (recOf r d ents (es.map φ)).owned = (recOf r d ents es).owned ∧
    (recOf r d ents (es.map φ)).ftype = (recOf r d ents es).ftype ∧
    (recOf r d ents (es.map φ)).aux = (recOf r d ents es).aux ∧
    (recOf r d ents (es.map φ)).isDir = (recOf r d ents es).isDir ∧
    (recOf r d ents (es.map φ)).locked = decide ((φ (es.headD [])).getD 9 0 ≥ 128) := by
  have hc : (es.map φ).flatMap (chunksE r d) = es.flatMap (chunksE r d) := by
    rw [List.flatMap_map]
    exact flatMap_congr_mem (fun e he => (kb.tail e (hl e he)).chunksE r d)
  have ho : (es.map φ).flatMap (ownedE d) = es.flatMap (ownedE d) := by
    rw [List.flatMap_map]
    exact flatMap_congr_mem (fun e he => (kb.tail e (hl e he)).ownedE d)
  cases es with
  | nil => exact absurd rfl hne
  | cons e0 rest =>
    have hl0 : e0.length = 32 := hl e0 List.mem_cons_self
    have hlast : lastOf ((e0 :: rest).map φ) = φ (lastOf (e0 :: rest)) :=
      lastOf_map _ (fun e he => (kb.tail e (hl e he)).extNum) hne
    have hlm : lastOf (e0 :: rest) ∈ e0 :: rest := by
      unfold lastOf
      simp only [List.headD_cons]
      have key : ∀ (l : List Bytes) (b : Bytes), List.foldl (fun best e => if extNum e ≥ extNum best then e else best) b l ∈ b :: l := by
        intro l
        induction l with
        | nil => intro b; simp
        | cons x xs ih =>
          intro b
          simp only [List.foldl_cons]
          split
          · have := ih x; simp only [List.mem_cons] at this ⊢; rcases this with h | h <;> simp [h]
          · have := ih b; simp only [List.mem_cons] at this ⊢; rcases this with h | h <;> simp [h]
      have := key (e0 :: rest) e0
      rcases List.mem_cons.1 this with h | h
      · rw [h]; exact List.mem_cons_self
      · exact h
    unfold recOf recWith
    rw [hc, ho]
    simp only [List.map_cons, List.headD_cons, List.length_map, List.length_cons]
    refine ⟨kb_pathOf kb hl0, trivial, ?_, trivial, trivial, trivial, trivial, ?_⟩
    · have : lastOf (φ e0 :: rest.map φ) = φ (lastOf (e0 :: rest)) := hlast
      rw [this, eofOf_tail (kb.tail _ (hl _ hlm))]
    · first | trivial | rfl

/-! ## an entry loop over the file found, then `save_directory` -/

theorem touch_files {d : Dpb} {r r' : Raw} {files : List FileInfo} {xname : Bytes} {fi : FileInfo} {dir' : Dir} {res : R Unit}
    (h : Inv d r) (hb : buildFiles d d.v3 (dirOf d r) = .ok files) (hg : getFile xname files = some fi)
    (g : Bytes → Bytes) (kb : KeepsBody g) (hidem : ∀ e, e.length = 32 → g (g e) = g e) (chk : Bytes → Option Err)
    (hloop : entryLoop chk g (dirOf d r) fi.entries = .ok dir') (hsave : saveDirectory d r dir' = (res, r')) :
    res = .ok () ∧ Inv d r' ∧ ∃ K0, K0 ∈ keys d r ∧ (recOf r d (dirOf d r) (esOf d r K0)).path = canon xname ∧
      filesOf d r' = (keys d r).map (fun k => recOf r d (dirOf d r) ((esOf d r k).map (onKey K0 g))) ∧
      (∀ e ∈ esOf d r K0, chk e = none) := by
  have hl := dirOf_entry_length h.shape h.dpb
  obtain ⟨K0, hK0, hidx, hpath⟩ := found_key h hb hg
  obtain ⟨hget, hchk⟩ := entryLoop_spec chk g (by
    intro e he hx
    have hs : isExtent (g e) = true := by
      rw [isExtent_iff, kb.status e he]; exact (isExtent_iff e).1 hx
    refine ⟨?_, (kb.tail e he).len'⟩
    unfold visit
    rw [if_pos hs, hidem e he]) _ _ _ hl hloop
  have hdir' : dir' = (dirOf d r).map (onKey K0 g) := loop_as_map hidx hget
  have kbo := kb_onKey kb K0
  obtain ⟨r2, e1, e2, e3, e4⟩ := saveDirectory_spec (dir := dir') h.shape h.dpb
    (by rw [hdir', List.length_map, dirOf_length]) (by
      intro e he
      rw [hdir', List.mem_map] at he
      obtain ⟨e0, he0, rfl⟩ := he
      exact (kbo.tail e0 (hl e0 he0)).len')
  rw [e1] at hsave
  cases hsave
  obtain ⟨hinv', hfiles'⟩ := keepmap_spec h (onKey K0 g) kbo (fun e he => onKey_nonfile K0 g he) e2 e3 (by rw [e4, hdir'])
  refine ⟨rfl, hinv', K0, hK0, hpath, hfiles', ?_⟩
  intro e he
  obtain ⟨hm, hk⟩ := mem_esOf.1 he
  obtain ⟨j, hj, ej⟩ := List.mem_iff_getElem.1 (mem_fents.1 hm).1
  have hgj : (dirOf d r)[j]? = some e := by rw [List.getElem?_eq_getElem hj, ej]
  obtain ⟨p, hp, hpj⟩ := (hidx j e hgj).1 ⟨(mem_fents.1 hm).2, hk⟩
  exact hchk p hp e (by rw [hpj]; exact hgj) ((isExtent_iff e).2 (mem_fents.1 hm).2)

/-- the listings before and after an operation that rewrites the entries of one file, keeping its path -/
theorem touched_lookups {pre post : Vol} {κ : Type} [BEq κ] [LawfulBEq κ] (ks : List κ) (F F' : κ → FileRec) (K0 : κ)
    (hK : K0 ∈ ks) (hpre : pre.files = ks.map F) (hpost : post.files = ks.map F')
    (hsame : ∀ k ∈ ks, k ≠ K0 → F' k = F k) (hpath : (F' K0).path = (F K0).path)
    (hwpre : pre.wfB = true) (hwpost : post.wfB = true) :
    pre.lookup (F K0).path = some (F K0) ∧ post.lookup (F K0).path = some (F' K0) ∧
    sameFiles (without pre.files [(F K0).path]) (without post.files [(F K0).path]) = true := by
  have hl1 : pre.lookup (F K0).path = some (F K0) := by
    unfold Vol.lookup
    exact find_path_of_mem (wfB_paths_nodup hwpre) (by rw [hpre]; exact List.mem_map_of_mem hK)
  have hl2 : post.lookup (F K0).path = some (F' K0) := by
    unfold Vol.lookup
    rw [← hpath]
    exact find_path_of_mem (wfB_paths_nodup hwpost) (by rw [hpost]; exact List.mem_map_of_mem hK)
  refine ⟨hl1, hl2, ?_⟩
  have ndpre : (ks.map (fun k => (F k).path)).Nodup := by
    have := wfB_paths_nodup hwpre
    unfold Vol.paths at this
    rw [hpre, List.map_map] at this
    exact this
  have hinj : ∀ k ∈ ks, (F k).path = (F K0).path → k = K0 := fun k hk e => nodup_map_inj ndpre hk hK e
  have hw1 : without pre.files [(F K0).path] = (ks.filter (· != K0)).map F := by
    unfold without
    rw [hpre, List.filter_map]
    congr 1
    apply List.filter_congr
    intro k hk
    simp only [Function.comp, List.contains_cons, List.contains_nil, Bool.or_false]
    by_cases c : k = K0
    · simp [c]
    · have : (F k).path ≠ (F K0).path := fun e => c (hinj k hk e)
      have h1 : ((F k).path == (F K0).path) = false := by simpa using this
      have h2 : (k != K0) = true := by simpa using c
      rw [h1, h2]; rfl
  have hw2 : without post.files [(F K0).path] = (ks.filter (· != K0)).map F := by
    unfold without
    rw [hpost, List.filter_map]
    have : (ks.filter ((fun f => !([(F K0).path].contains f.path)) ∘ F')) = ks.filter (· != K0) := by
      apply List.filter_congr
      intro k hk
      simp only [Function.comp, List.contains_cons, List.contains_nil, Bool.or_false]
      by_cases c : k = K0
      · subst c; simp [hpath]
      · rw [hsame k hk c]
        have : (F k).path ≠ (F K0).path := fun e => c (hinj k hk e)
        have h1 : ((F k).path == (F K0).path) = false := by simpa using this
        have h2 : (k != K0) = true := by simpa using c
        rw [h1, h2]; rfl
    rw [this]
    apply List.map_congr_left
    intro k hk
    rw [List.mem_filter] at hk
    exact hsame k hk.1 (by simpa using hk.2)
  rw [hw1, hw2]
  apply sameFiles_refl
  have := wfB_paths_nodup hwpre
  unfold Vol.paths at this
  rw [hpre] at this
  exact ((List.filter_sublist.map F).map _).nodup this

end A2Verif.FsCpm
