import A2Verif.Lemmas.FsPascalImg
import A2Verif.Model.C12FsId
/-!
# C12 read paths of the concrete Pascal model on arbitrary images: lemmas

`getDirectory` on an arbitrary `Raw`: when it panics, what an `ok` result looks like (so that the model's total
`slice`/`getD` accessors are never used out of range), that `readBlocks` never panics, that the slot loops
panic exactly on an unconvertible name, and what `testImg = true` guarantees.  Core Lean only.
-/
namespace A2Verif.C12FsId.Pascal
open A2Verif.Fs.Pascal

/-! ## reading blocks -/

theorem readBlocks_ne_panic (r : Raw) (is : List Nat) : readBlocks r is ≠ .error .panic := by
  induction is with
  | nil => simp [readBlocks]
  | cons i is ih =>
    unfold readBlocks readBlock
    cases hi : r.units[i]? with
    | none => simp
    | some b =>
      simp only []
      cases hr : readBlocks r is with
      | error e => simp only []; intro h; apply ih; rw [hr]; exact h
      | ok bs => simp

theorem readBlocks_ok_spec {r : Raw} : ∀ {is : List Nat} {bs : List Bytes}, readBlocks r is = .ok bs →
    bs.length = is.length ∧ (∀ i ∈ is, i < r.units.size) ∧ (∀ b ∈ bs, ∃ i : Nat, r.units[i]? = some b) := by
  intro is
  induction is with
  | nil => intro bs h; simp [readBlocks] at h; subst h; simp
  | cons i is ih =>
    intro bs h
    unfold readBlocks readBlock at h
    cases hi : r.units[i]? with
    | none => rw [hi] at h; simp at h
    | some b =>
      rw [hi] at h
      simp only [] at h
      cases hr : readBlocks r is with
      | error e => rw [hr] at h; simp at h
      | ok bs' =>
        rw [hr] at h
        simp only [Except.ok.injEq] at h
        subst h
        obtain ⟨h1, h2, h3⟩ := ih hr
        refine ⟨by simp [h1], ?_, ?_⟩
        · intro j hj
          rcases List.mem_cons.1 hj with rfl | hj
          · have := (Array.getElem?_eq_some_iff.1 hi).1; exact this
          · exact h2 j hj
        · intro x hx
          rcases List.mem_cons.1 hx with rfl | hx
          · exact ⟨i, hi⟩
          · exact h3 x hx

/-- number of blocks `readBlocks` touches: it stops at the first block outside the image -/
theorem readBlocks_ok_le_size {r : Raw} {n beg : Nat} {bs : List Bytes}
    (h : readBlocks r ((List.range n).map (· + beg)) = .ok bs) : n = 0 ∨ beg + n ≤ r.units.size := by
  rcases Nat.eq_zero_or_pos n with h0 | hp
  · exact Or.inl h0
  · right
    have := (readBlocks_ok_spec h).2.1 (n - 1 + beg) (by
      simp only [List.mem_map, List.mem_range]; exact ⟨n - 1, by omega, rfl⟩)
    omega

/-! ## `getDirectory` -/

/-- `get_directory` panics exactly when block 2 exists and is shorter than one directory entry — impossible for
an image layer that delivers 512-byte blocks -/
theorem getDirectory_panic_iff (r : Raw) :
    getDirectory r = .error .panic ↔ ∃ b, r.units[2]? = some b ∧ b.length < 26 := by
  unfold getDirectory readBlock
  cases h2 : r.units[2]? with
  | none => simp
  | some b0 =>
    simp only [volHeaderBlock, entrySize]
    by_cases hl : b0.length < 26
    · simp [hl]
    · simp only [hl, if_false]
      constructor
      · intro h
        exfalso
        split at h
        · simp at h
        · split at h
          · rename_i e hr
            have := readBlocks_ne_panic r ((List.range (Hdr.endBlock (List.take 26 b0) - 2)).map (· + 2))
            rw [hr] at this
            simp only [Except.error.injEq] at h
            subst h
            exact this rfl
          · split at h <;> simp at h
      · rintro ⟨b, hb, hlt⟩
        simp only [Option.some.injEq] at hb
        subst hb
        exact absurd hlt hl

theorem getDirectory_ne_panic {r : Raw} (hb : Blocks512 r) : getDirectory r ≠ .error .panic := by
  intro h
  obtain ⟨b, h2, hl⟩ := (getDirectory_panic_iff r).1 h
  have := hb 2 b h2
  omega

/-- what a successful `get_directory` returns: a 26-byte header, 26-byte entries (so no field accessor of the
model reads beyond an entry), `num_files` within the slot list, a sane block range inside the image, and a
slot count bounded by the directory blocks read -/
theorem getDirectory_ok_shape {r : Raw} {d : Dir} (h : getDirectory r = .ok d) :
    d.header.length = 26 ∧ (∀ e ∈ d.entries, e.length = 26) ∧ d.numFiles ≤ d.entries.length ∧
    Hdr.beginBlock d.header = 0 ∧ 2 < Hdr.endBlock d.header ∧ Hdr.endBlock d.header ≤ Hdr.totalBlocks d.header ∧
    Hdr.endBlock d.header ≤ r.units.size ∧
    (∀ bound : Nat, (∀ (i : Nat) (b : Bytes), r.units[i]? = some b → b.length ≤ bound) →
      (d.entries.length + 1) * 26 ≤ bound * (Hdr.endBlock d.header - 2) ∨ d.entries.length = 0) := by
  unfold getDirectory readBlock at h
  cases h2 : r.units[2]? with
  | none => rw [h2] at h; simp at h
  | some b0 =>
    rw [h2] at h
    simp only [volHeaderBlock, entrySize] at h
    split at h
    · simp at h
    · rename_i hl
      split at h
      · simp at h
      · rename_i hc
        split at h
        · simp at h
        · rename_i blocks hr
          split at h
          · simp at h
          · rename_i hnf
            simp only [Except.ok.injEq] at h
            subst h
            have hsz := readBlocks_ok_le_size hr
            have hlen : (List.take 26 b0).length = 26 := by rw [List.length_take]; omega
            unfold Dir.numFiles
            dsimp only
            refine ⟨hlen, ?_, by omega, by omega, by omega, by omega, by omega, ?_⟩
            · intro e he
              by_cases hq : blocks.flatten.length / 26 = 0
              · rw [hq] at he; simp [entriesFrom] at he
              · apply entriesFrom_entry_length (buf := blocks.flatten) (n := blocks.flatten.length / 26 - 1) (off := 26) _ e he
                have : 26 * (blocks.flatten.length / 26) ≤ blocks.flatten.length := Nat.mul_div_le _ _
                simp only [entrySize_eq]
                omega
            · intro bound hbound
              simp only [entriesFrom_length]
              have hspec := readBlocks_ok_spec hr
              have hfl : blocks.flatten.length ≤ bound * blocks.length := by
                have : ∀ (bs : List Bytes), (∀ b ∈ bs, b.length ≤ bound) → bs.flatten.length ≤ bound * bs.length := by
                  intro bs
                  induction bs with
                  | nil => intro _; simp
                  | cons x xs ih =>
                    intro hx
                    simp only [List.flatten_cons, List.length_append, List.length_cons]
                    have h1 := hx x List.mem_cons_self
                    have h2 := ih (fun y hy => hx y (List.mem_cons_of_mem _ hy))
                    rw [Nat.mul_succ]; omega
                apply this
                intro b hbm
                obtain ⟨i, hi⟩ := hspec.2.2 b hbm
                exact hbound i b hi
              have hbl : blocks.length = Hdr.endBlock (List.take 26 b0) - 2 := by
                rw [hspec.1]; simp
              rw [hbl] at hfl
              by_cases hq : blocks.flatten.length / 26 = 0
              · right; rw [hq]
              · left
                have : 26 * (blocks.flatten.length / 26) ≤ blocks.flatten.length := Nat.mul_div_le _ _
                have h1 : blocks.flatten.length / 26 - 1 + 1 = blocks.flatten.length / 26 := by omega
                rw [h1]; omega

/-! ## name conversion -/

theorem nameFn_fixed (e : Bytes) : nameFn true e ≠ none := by simp [nameFn]
theorem volNameFn_fixed (h : Bytes) : volNameFn true h ≠ none := by simp [volNameFn]
theorem nameFn_asWritten (e : Bytes) : nameFn false e = fileNameToString e := by simp [nameFn]

/-! ## the loops -/

theorem findEntryN_asWritten (uname : Bytes) (total : Nat) (es : List Bytes) (i : Nat) :
    findEntryN (nameFn false) uname total es i = findEntry uname total es i := by
  induction es generalizing i with
  | nil => rfl
  | cons e rest ih => simp only [findEntryN, findEntry, nameFn_asWritten, ih] <;> rfl

theorem listLoopN_asWritten (total : Nat) (es : List Bytes) :
    listLoopN (nameFn false) total es = catalogLoop total es := by
  induction es with
  | nil => rfl
  | cons e rest ih => simp only [listLoopN, catalogLoop, nameFn_asWritten, ih] <;> rfl

/-- the slot loop panics only on a listed slot whose name does not convert -/
theorem listLoopN_ne_panic {nm : Bytes → Option Bytes} {total : Nat} {es : List Bytes}
    (h : ∀ e ∈ es, entryLive e total = true → nm e ≠ none) : listLoopN nm total es ≠ .error .panic := by
  induction es with
  | nil => simp [listLoopN]
  | cons e rest ih =>
    have ihr := ih (fun x hx => h x (List.mem_cons_of_mem _ hx))
    unfold listLoopN
    split
    · rename_i hlive
      have hl : entryLive e total = true := by
        unfold entryLive
        simp only [Bool.and_eq_true, decide_eq_true_eq, ne_eq] at hlive ⊢
        omega
      cases hn : nm e with
      | none => exact absurd hn (h e List.mem_cons_self hl)
      | some s =>
        simp only []
        cases hr : listLoopN nm total rest with
        | error er => simp only []; intro hh; apply ihr; rw [hr]; exact hh
        | ok rows => simp
    · exact ihr

/-- … and it does panic then (as written): the first listed slot with an unconvertible name -/
theorem listLoopN_panic_of {nm : Bytes → Option Bytes} {total : Nat} {es : List Bytes}
    (h : ∃ e ∈ es, entryLive e total = true ∧ nm e = none) : listLoopN nm total es = .error .panic := by
  induction es with
  | nil => obtain ⟨e, he, _⟩ := h; cases he
  | cons e rest ih =>
    unfold listLoopN
    by_cases hl : entryLive e total = true
    · have hc : (decide (Entry.beginBlock e ≠ 0) && decide (Entry.endBlock e > Entry.beginBlock e) && decide (Entry.endBlock e ≤ total)) = true := by
        unfold entryLive at hl
        simp only [Bool.and_eq_true, decide_eq_true_eq, ne_eq] at hl ⊢
        omega
      rw [if_pos hc]
      cases hn : nm e with
      | none => rfl
      | some s =>
        simp only []
        obtain ⟨x, hx, hxl, hxn⟩ := h
        rcases List.mem_cons.1 hx with rfl | hx
        · rw [hn] at hxn; cases hxn
        · rw [ih ⟨x, hx, hxl, hxn⟩]
    · have hc : ¬ (decide (Entry.beginBlock e ≠ 0) && decide (Entry.endBlock e > Entry.beginBlock e) && decide (Entry.endBlock e ≤ total)) = true := by
        unfold entryLive at hl
        simp only [Bool.and_eq_true, decide_eq_true_eq, ne_eq] at hl ⊢
        omega
      rw [if_neg hc]
      obtain ⟨x, hx, hxl, hxn⟩ := h
      rcases List.mem_cons.1 hx with rfl | hx
      · exact absurd hxl hl
      · exact ih ⟨x, hx, hxl, hxn⟩

theorem findEntryN_ne_panic {nm : Bytes → Option Bytes} {uname : Bytes} {total : Nat} {es : List Bytes} {i : Nat}
    (h : ∀ e ∈ es, entryLive e total = true → nm e ≠ none) : findEntryN nm uname total es i ≠ .error .panic := by
  induction es generalizing i with
  | nil => simp [findEntryN]
  | cons e rest ih =>
    have ihr := fun j => ih (i := j) (fun x hx => h x (List.mem_cons_of_mem _ hx))
    unfold findEntryN
    split
    · rename_i hlive
      cases hn : nm e with
      | none => exact absurd hn (h e List.mem_cons_self hlive)
      | some s =>
        simp only []
        split
        · simp
        · exact ihr _
    · exact ihr _

/-! ## free space -/

theorem numFreeBlocks_panic_iff (r : Raw) : numFreeBlocks r = .error .panic ↔ getDirectory r = .error .panic := by
  unfold numFreeBlocks
  cases h : getDirectory r with
  | error e => simp
  | ok d => simp

theorem statFree_panic_iff (r : Raw) : statFree r = .error .panic ↔ getDirectory r = .error .panic := by
  unfold statFree
  cases h : getDirectory r with
  | error e => simp
  | ok d =>
    simp only []
    have := numFreeBlocks_panic_iff r
    rw [h] at this
    cases hn : numFreeBlocks r with
    | error e => simp only []; rw [hn] at this; simpa using this
    | ok p => simp

/-! ## `test_img` -/

theorem nameCharsOk_some {name : Bytes} : ∀ {n i : Nat}, i + n ≤ name.length → nameCharsOk name n i ≠ none := by
  intro n
  induction n with
  | zero => intro i _; simp [nameCharsOk]
  | succ n ih =>
    intro i h
    unfold nameCharsOk
    have hi : i < name.length := by omega
    rw [List.getElem?_eq_getElem hi]
    simp only []
    split
    · simp
    · exact ih (by omega)

/-- `nameCharsOk … = some true` means every one of the `n` bytes from `i` on is printable ASCII -/
theorem nameCharsOk_true {name : Bytes} : ∀ {n i : Nat}, nameCharsOk name n i = some true →
    ∀ k, i ≤ k → k < i + n → ∃ c, name[k]? = some c ∧ 32 ≤ c ∧ c ≤ 126 := by
  intro n
  induction n with
  | zero => intro i _ k h1 h2; omega
  | succ n ih =>
    intro i h k h1 h2
    unfold nameCharsOk at h
    cases hc : name[i]? with
    | none => rw [hc] at h; simp at h
    | some c =>
      rw [hc] at h
      simp only [] at h
      split at h
      · simp at h
      · rename_i hr
        rcases Nat.eq_or_lt_of_le h1 with rfl | hlt
        · exact ⟨c, hc, by omega, by omega⟩
        · exact ih h k (by omega) (by omega)

theorem testEntries_ne_none {entries : List Bytes} {end_ tot : Nat} (h26 : ∀ e ∈ entries, e.length = 26) :
    ∀ {n i : Nat}, i + n ≤ entries.length → testEntries entries end_ tot n i ≠ none := by
  intro n
  induction n with
  | zero => intro i _; simp [testEntries]
  | succ n ih =>
    intro i h
    unfold testEntries
    have hi : i < entries.length := by omega
    rw [List.getElem?_eq_getElem hi]
    simp only []
    have hel : (entries[i]).length = 26 := h26 _ (List.getElem_mem hi)
    split
    · split
      · simp
      · split
        · simp
        · rename_i hnl
          have hname : (Entry.name entries[i]).length = 15 := by
            unfold Entry.name; exact slice_length (by omega)
          have := nameCharsOk_some (name := Entry.name entries[i]) (n := Entry.nameLen entries[i]) (i := 0) (by omega)
          split
          · rename_i hnone; exact absurd hnone this
          · simp
          · exact ih (by omega)
    · exact ih (by omega)

/-- `testEntries … = some true`: every slot `i ≤ k < i+n` that a2kit's liveness test accepts has a name that
converts (length 1‥15, printable ASCII) -/
theorem testEntries_true {entries : List Bytes} {end_ tot : Nat} (h26 : ∀ e ∈ entries, e.length = 26) :
    ∀ {n i : Nat}, testEntries entries end_ tot n i = some true →
    ∀ k, i ≤ k → k < i + n → ∀ e, entries[k]? = some e → Entry.beginBlock e > 0 → fileNameToString e ≠ none := by
  intro n
  induction n with
  | zero => intro i _ k h1 h2; omega
  | succ n ih =>
    intro i h k h1 h2 e hk hbeg
    unfold testEntries at h
    cases hi : entries[i]? with
    | none => rw [hi] at h; simp at h
    | some e0 =>
      rw [hi] at h
      simp only [] at h
      rcases Nat.eq_or_lt_of_le h1 with rfl | hlt
      · rw [hi] at hk
        simp only [Option.some.injEq] at hk
        subst hk
        rw [if_pos hbeg] at h
        split at h
        · simp at h
        · split at h
          · simp at h
          · rename_i hnl
            split at h
            · simp at h
            · simp at h
            · rename_i hch
              have hel : e0.length = 26 := h26 _ (List.mem_of_getElem? hi)
              unfold fileNameToString
              rw [if_neg (by omega)]
              have hall : ((Entry.name e0).take (Entry.nameLen e0)).any (fun c => decide (c ≥ 128)) = false := by
                rw [List.any_eq_false]
                intro c hc
                obtain ⟨j, hjc⟩ := List.mem_iff_getElem?.1 hc
                rw [List.getElem?_take] at hjc
                split at hjc
                · rename_i hjl
                  obtain ⟨c', hc', h32, h126⟩ := nameCharsOk_true hch j (by omega) (by omega)
                  rw [hc'] at hjc
                  simp only [Option.some.injEq] at hjc
                  subst hjc
                  simp only [decide_eq_true_eq]; omega
                · simp at hjc
              dsimp only
              rw [hall]
              simp
      · split at h
        · split at h
          · simp at h
          · split at h
            · simp at h
            · split at h
              · simp at h
              · simp at h
              · exact ih h k (by omega) (by omega) e hk hbeg
        · exact ih h k (by omega) (by omega) e hk hbeg

end A2Verif.C12FsId.Pascal
