import A2Verif.Lemmas.FsProdosPutT4
/-!
# `write_file`: round 256 — the sapling becomes a tree
-/
namespace A2Verif.FsProdos
open A2Verif.Fs.Prodos
open A2Verif.Read.Prodos (entryAt dirChain idxPtr indexEntries readData trimName)

theorem grp_256 (f : FImg) : grp f 256 = [] := by
  unfold grp
  rw [List.map_eq_nil_iff, List.filter_eq_nil_iff]
  intro k hk
  have := List.mem_range.mp hk
  simp; omega

theorem allocCount_257 (f : FImg) : allocCount f 257 = dataCount f 256 + 2 + (if hasChunk f 256 = true then 2 else 0) := by
  unfold allocCount
  rw [show (257 : Nat) = 256 + 1 from rfl, dataCount_succ, grp_succ, grp_256]
  by_cases hh : hasChunk f 256 = true
  · simp only [hh, ↓reduceIte]
    rw [if_pos (by omega), if_pos (by omega), if_pos (show 256 ≤ 256 ∧ True from ⟨Nat.le_refl _, trivial⟩)]
    show _ + 1 + (1 + distinctCount [256 / 256]) = _
    have : distinctCount [256 / 256] = 1 := by decide
    rw [this]
  · simp only [hh, Bool.false_eq_true, ↓reduceIte, and_false, List.append_nil]
    rw [if_pos (by omega), if_pos (by omega)]
    show _ + 1 + (1 + distinctCount []) = _
    have : distinctCount [] = 0 := by decide
    rw [this]

/-- **round 256**: a master index block is taken, slot 0 gets the index block of the sapling; if the image has chunk 256 a second
index block and the data block are taken -/
theorem tree_conv {f : FImg} {d2 : Disk} {bm cnt : Nat} {e0 : Bytes} {s : WS} {dc : Disk} {Al P : List Nat}
    (ctx : LoopCtx d2 bm cnt) (inv : SapInv f d2 bm cnt e0 256 s dc Al P)
    (hfit : allocCount f 257 ≤ (freeBlocks (effBuf d2 bm cnt) d2.total).length)
    (hbytes : ∀ k data, f.chunks.lookup k = some data → ∀ x ∈ data, x < 256) (end_ : Nat) :
    ∃ s' d' Al' G' P', wfStep f end_ 256 s dc = (.ok s', d') ∧ TreeInv f d2 bm cnt e0 257 s' d' Al' G' P' ∧
      1 ≤ s'.indexCount := by
  have hF := freeBlocks_lt (effBuf d2 bm cnt) d2.total ctx.tot0 ctx.zero
  have h16 := ctx.tot16
  have core := inv.core
  have hacnt := core.acnt
  rw [allocCount_257] at hfit
  obtain ⟨dn, hnum, an, hrawn, heffn⟩ := numFree_astate ctx core.a
  have hnzAl : ∀ x ∈ Al, x ≠ 0 ∧ x < d2.total := by
    intro x hx
    obtain ⟨h1, h2⟩ := core.a.alfree x hx
    exact ⟨fun e => (by rw [e, ctx.zero] at h1; cases h1), h2⟩
  have hI0 := hnzAl _ core.ip
  -- the master index block
  obtain ⟨M, dA, d1, havM, halM, a1, hraw1, hMl, hMf, hMn⟩ := astate_reserve ctx an (by omega)
  have hM0 : M ≠ 0 := fun e => by rw [e, ctx.zero] at hMf; cases hMf
  have e2f := (((core.ent.changeStorage 3 (by decide)).setPtr M (by omega)).incBlocks (show Al.length + 1 < 65536 by omega))
  obtain ⟨mb1, hpm1, hmb1⟩ := pack_append s.masterBuf [] s.indexPtr (by rw [inv.mb]; exact idxIs_zeros) (by decide) (by omega)
  -- the sapling's blocks are exactly the blocks taken so far
  have hsapAl : ∀ x, x ∈ s.indexPtr :: P.filter (· ≠ 0) ↔ x ∈ Al := by
    intro x
    constructor
    · intro hx
      rcases List.mem_cons.mp hx with rfl | hx'
      · exact core.ip
      · obtain ⟨h1, h2⟩ := List.mem_filter.mp hx'
        exact (core.pal x h1 (by simpa using h2)).1
    · intro hx
      rcases core.alp x hx with rfl | h
      · exact List.mem_cons_self
      · exact List.mem_cons_of_mem _ (List.mem_filter.mpr ⟨h, by simpa using (hnzAl x hx).1⟩)
  have hsaplen : Al.length = (P.filter (· ≠ 0)).length + 1 := by rw [core.pcnt, hacnt]
  have hgo0 : grpOwned (s.indexPtr, P) = s.indexPtr :: P.filter (· ≠ 0) := by
    unfold grpOwned; simp only; rw [if_neg hI0.1]
  -- the second part: with or without chunk 256
  cases hl : f.chunks.lookup 256 with
  | none =>
    have hh : hasChunk f 256 = false := by unfold hasChunk; rw [hl]; rfl
    rw [hh] at hfit
    obtain ⟨mb2, hpm2, hmb2⟩ := pack_append mb1 [s.indexPtr] 0 (by simpa using hmb1) (by simp) (by decide)
    obtain ⟨d4, hwm, a4, hu4, ho4⟩ := astate_rewrite ctx a1 M (List.mem_append_right _ (List.mem_singleton.mpr rfl)) mb2 hmb2.bytes
    have hkeep : ∀ x ∈ Al, unitAt d4.raw x = unitAt dc.raw x := by
      intro x hx
      rw [unitAt_congr (ho4 x (fun e => hMn (e ▸ hx))), hraw1, hrawn]
    refine ⟨{
        storage := stTree
        masterBuf := mb2
        masterPtr := M
        masterCount := s.masterCount + 1
        indexBuf := zeros blockSize
        indexPtr := 0
        indexCount := 1
        entry := Ent.setEof (Ent.incBlocks (Ent.setPtr (Ent.changeStorageType s.entry stTree) M))
          (Ent.eof (Ent.incBlocks (Ent.setPtr (Ent.changeStorageType s.entry stTree) M)) + 512) },
      d4, Al ++ [M], [(s.indexPtr, P)], [0], ?_, ?_, Nat.le_refl _⟩
    · unfold wfStep
      simp only [bind_def, pure_def]
      rw [if_neg (by rw [inv.mc]; omega), bind_ok _ _ dc dn _ hnum]
      simp only [inv.st, sap_ne_seed, ↓reduceIte]
      rw [if_neg (show ¬ s.indexCount < 256 by rw [inv.ic]; omega)]
      rw [if_neg (by rw [hl]; simp; omega), if_pos (show s.indexCount > 255 by rw [inv.ic]; omega)]
      rw [bind_ok _ _ dn dA _ havM, bind_ok _ _ dA d1 _ halM,
        show packIndexPtr s.masterBuf s.indexPtr 0 = some mb1 from hpm1, bind_ok _ _ d1 d1 _ (ofOption_some _ d1)]
      rw [hl]
      simp only [Option.isSome_none, Bool.false_eq_true, ↓reduceIte]
      rw [bind_ok _ _ d1 d1 _ (show writeDataBlockOrNot 256 end_ _ none d1 = (.ok (0, _), d1) from rfl)]
      simp only [inv.mc, Nat.zero_add]
      rw [show packIndexPtr mb1 0 1 = some mb2 from hpm2, bind_ok _ _ d1 d1 _ (ofOption_some _ d1), bind_ok _ _ d1 d4 _ hwm]
      rfl
    · have hown : ownedOf ([(s.indexPtr, P)] ++ [((0 : Nat), [(0 : Nat)])]) = s.indexPtr :: P.filter (· ≠ 0) := by
        rw [ownedOf_append, ownedOf_single, ownedOf_single, hgo0]; unfold grpOwned; simp
      refine ⟨a4, rfl, by show 1 = s.masterCount + 1; rw [inv.mc], by show 257 = 256 * (s.masterCount + 1) + 1; rw [inv.mc],
        by show 1 ≤ s.masterCount + 1; omega, by show 1 ≤ 256; omega, rfl, ?_, ?_, fun h0 => absurd rfl h0,
        idxIs_append_zero idxIs_zeros, fun h0 => absurd rfl h0, by simpa using hmb2, ?_, ?_, ?_, ?_, ?_, ?_, by omega⟩
      · intro j hj
        have hj0 : j = 0 := by simp at hj; omega
        subst hj0
        simp only [List.getElem_cons_zero]
        refine ⟨core.plen, fun h0 => absurd h0 hI0.1, fun _ => List.mem_append_left _ core.ip, ?_, ?_, ?_, ?_⟩
        · intro _; rw [hkeep _ core.ip, inv.iblk]; exact core.ibuf
        · intro x hx hx0; exact List.mem_append_left _ (core.pal x hx hx0).1
        · intro k hk data hl'
          rw [core.plen] at hk
          rw [Nat.mul_zero, Nat.zero_add] at hl'
          obtain ⟨h0, hu⟩ := core.dat k hk data hl'
          refine ⟨h0, ?_⟩
          rw [hkeep _ (core.pal _ (getD_mem_of_lt _ _ (by rw [core.plen]; exact hk)) h0).1, hu]
        · intro k hk hl'
          rw [core.plen] at hk
          rw [Nat.mul_zero, Nat.zero_add] at hl'
          exact core.hole k hk hl'
      · show GroupOk f d4.raw (Al ++ [M]) (s.masterCount + 1) 0 [0]
        refine ⟨fun _ x hx => by simpa using hx, fun h0 => absurd rfl h0, fun h0 => absurd rfl h0,
          fun x hx hx0 => absurd (by simpa using hx) hx0, ?_, fun k hk _ => (by simp at hk; subst hk; rfl)⟩
        intro k hk data hl'
        simp at hk; subst hk
        rw [inv.mc] at hl'
        rw [show 256 * (0 + 1) + 0 = 256 from rfl, hl] at hl'; cases hl'
      · show unitAt d4.raw M = mb2
        rw [hu4, List.take_of_length_le (by rw [hmb2.len]; decide), quantize_full _ hmb2.len]
      · show EFacts e0 _ 3 M (Al ++ [M]).length
        rw [List.length_append]
        exact e2f.setEof _
      · show (M :: ownedOf ([(s.indexPtr, P)] ++ [((0 : Nat), [(0 : Nat)])])).Nodup
        rw [hown, List.nodup_cons]
        exact ⟨fun h => hMn ((hsapAl M).mp h), core.own⟩
      · intro x
        show x ∈ M :: ownedOf ([(s.indexPtr, P)] ++ [((0 : Nat), [(0 : Nat)])]) ↔ x ∈ Al ++ [M]
        rw [hown, List.mem_cons, List.mem_append, List.mem_singleton, hsapAl x]
        exact ⟨fun h => h.elim Or.inr Or.inl, fun h => h.elim Or.inr Or.inl⟩
      · show (Al ++ [M]).length = (ownedOf ([(s.indexPtr, P)] ++ [((0 : Nat), [(0 : Nat)])])).length + 1
        rw [hown, List.length_append, List.length_cons, hsaplen]; rfl
      · show (Al ++ [M]).length = allocCount f 257
        rw [allocCount_257, hh, List.length_append, hacnt]; rfl
  | some data =>
    have hh : hasChunk f 256 = true := by unfold hasChunk; rw [hl]; rfl
    rw [hh] at hfit
    simp only [↓reduceIte] at hfit
    have hlen1 : (Al ++ [M]).length = Al.length + 1 := by simp
    obtain ⟨I1, dB, d2', havI, halI, a2, hraw2, hIl, hIf, hIn⟩ := astate_reserve ctx a1 (by rw [hlen1]; omega)
    have hI10 : I1 ≠ 0 := fun e => by rw [e, ctx.zero] at hIf; cases hIf
    have e3f := e2f.incBlocks (show Al.length + 1 + 1 < 65536 by omega)
    have hlen2 : (Al ++ [M] ++ [I1]).length = Al.length + 2 := by simp
    obtain ⟨p, e4, dw, Al3, hw, w, hef⟩ := wdb_any ctx a2 (f.chunks.lookup 256) (by intro _; rw [hlen2]; omega) (hbytes 256) 256 end_
      (Ent.incBlocks (Ent.incBlocks (Ent.setPtr (Ent.changeStorageType s.entry stTree) M)))
    obtain ⟨hp0, hpl, hpf, hpn, hup, _⟩ := w.some data hl
    have hAl3 : Al3 = Al ++ [M] ++ [I1] ++ [p] := by rw [w.al, if_neg hp0]
    have ent4 := hef e0 3 M (Al.length + 1 + 1) e3f (by omega)
    rw [if_neg hp0] at ent4
    obtain ⟨ib1, hpi, hib1⟩ := pack_append (zeros blockSize) [] p idxIs_zeros (by decide) (by omega)
    have hI1Al3 : I1 ∈ Al3 := by rw [hAl3]; simp
    have hMAl3 : M ∈ Al3 := by rw [hAl3]; simp
    obtain ⟨d5, hwi, a5, hu5, ho5⟩ := astate_rewrite ctx w.a I1 hI1Al3 ib1 hib1.bytes
    obtain ⟨mb2, hpm2, hmb2⟩ := pack_append mb1 [s.indexPtr] I1 (by simpa using hmb1) (by simp) (by omega)
    obtain ⟨d6, hwm, a6, hu6, ho6⟩ := astate_rewrite ctx a5 M hMAl3 mb2 hmb2.bytes
    have hMI : M ≠ I1 := fun e => hIn (by rw [← e]; simp)
    have hpM : p ≠ M := fun e => hpn (by rw [e]; simp)
    have hpI : p ≠ I1 := fun e => hpn (by rw [e]; simp)
    have hkeep : ∀ x ∈ Al, unitAt d6.raw x = unitAt dc.raw x := by
      intro x hx
      have hxM : x ≠ M := fun e => hMn (e ▸ hx)
      have hxI : x ≠ I1 := fun e => hIn (by rw [← e]; exact List.mem_append_left _ hx)
      have hxp : x ≠ p := fun e => hpn (by rw [← e]; exact List.mem_append_left _ (List.mem_append_left _ hx))
      rw [unitAt_congr (ho6 x hxM), unitAt_congr (ho5 x hxI), unitAt_congr (w.oth x (Or.inr hxp)), hraw2, hraw1, hrawn]
    have hI1u : unitAt d6.raw I1 = ib1 := by
      rw [unitAt_congr (ho6 I1 (Ne.symm hMI)), hu5, List.take_of_length_le (by rw [hib1.len]; decide), quantize_full _ hib1.len]
    have hpu : unitAt d6.raw p = quantize (data.take blockSize) := by
      rw [unitAt_congr (ho6 p hpM), unitAt_congr (ho5 p hpI), hup]
    refine ⟨{
        storage := stTree
        masterBuf := mb2
        masterPtr := M
        masterCount := s.masterCount + 1
        indexBuf := ib1
        indexPtr := I1
        indexCount := 1
        entry := e4 },
      d6, Al3, [(s.indexPtr, P)], [p], ?_, ?_, Nat.le_refl _⟩
    · unfold wfStep
      simp only [bind_def, pure_def]
      rw [if_neg (by rw [inv.mc]; omega), bind_ok _ _ dc dn _ hnum]
      simp only [inv.st, sap_ne_seed, ↓reduceIte]
      rw [if_neg (show ¬ s.indexCount < 256 by rw [inv.ic]; omega)]
      rw [if_neg (by rw [hl]; simp; omega), if_pos (show s.indexCount > 255 by rw [inv.ic]; omega)]
      rw [bind_ok _ _ dn dA _ havM, bind_ok _ _ dA d1 _ halM,
        show packIndexPtr s.masterBuf s.indexPtr 0 = some mb1 from hpm1, bind_ok _ _ d1 d1 _ (ofOption_some _ d1)]
      rw [if_pos (by rw [hl]; rfl)]
      rw [bind_ok _ _ d1 dB _ havI, bind_ok _ _ dB d2' _ halI, bind_ok _ _ d2' dw _ hw]
      simp only [inv.mc, Nat.zero_add]
      rw [show packIndexPtr (zeros blockSize) p 0 = some ib1 from hpi, bind_ok _ _ dw dw _ (ofOption_some _ dw),
        bind_ok _ _ dw d5 _ hwi, show packIndexPtr mb1 I1 1 = some mb2 from hpm2, bind_ok _ _ d5 d5 _ (ofOption_some _ d5),
        bind_ok _ _ d5 d6 _ hwm]
      rfl
    · have hown : ownedOf ([(s.indexPtr, P)] ++ [(I1, [p])]) = (s.indexPtr :: P.filter (· ≠ 0)) ++ [I1, p] := by
        rw [ownedOf_append, ownedOf_single, ownedOf_single, hgo0]; unfold grpOwned; simp [hI10, hp0]
      obtain ⟨hown', hownAl', holen'⟩ := own_step (M := M) (O := s.indexPtr :: P.filter (· ≠ 0)) (Al := Al ++ [M]) (news := [I1, p])
        (by rw [List.nodup_cons]; exact ⟨fun h => hMn ((hsapAl M).mp h), core.own⟩)
        (by
          intro x
          rw [List.mem_cons, List.mem_append, List.mem_singleton, hsapAl x]
          exact ⟨fun h => h.elim Or.inr Or.inl, fun h => h.elim Or.inr Or.inl⟩)
        (by rw [hlen1, List.length_cons, hsaplen])
        (by rw [hAl3]; simp) a6.alnd hown.symm.symm
      refine ⟨a6, rfl, by show 1 = s.masterCount + 1; rw [inv.mc], by show 257 = 256 * (s.masterCount + 1) + 1; rw [inv.mc],
        by show 1 ≤ s.masterCount + 1; omega, by show 1 ≤ 256; omega, rfl, ?_, ?_, ?_,
        by simpa using hib1, fun _ => hI1u, by simpa using hmb2, ?_, ?_, hown', hownAl', holen', ?_, by omega⟩
      · intro j hj
        have hj0 : j = 0 := by simp at hj; omega
        subst hj0
        simp only [List.getElem_cons_zero]
        have hsub : ∀ x ∈ Al, x ∈ Al3 := fun x hx => by rw [hAl3]; simp [hx]
        refine ⟨core.plen, fun h0 => absurd h0 hI0.1, fun _ => hsub _ core.ip, ?_, ?_, ?_, ?_⟩
        · intro _; rw [hkeep _ core.ip, inv.iblk]; exact core.ibuf
        · intro x hx hx0; exact hsub _ (core.pal x hx hx0).1
        · intro k hk data' hl'
          rw [core.plen] at hk
          rw [Nat.mul_zero, Nat.zero_add] at hl'
          obtain ⟨h0, hu⟩ := core.dat k hk data' hl'
          refine ⟨h0, ?_⟩
          rw [hkeep _ (core.pal _ (getD_mem_of_lt _ _ (by rw [core.plen]; exact hk)) h0).1, hu]
        · intro k hk hl'
          rw [core.plen] at hk
          rw [Nat.mul_zero, Nat.zero_add] at hl'
          exact core.hole k hk hl'
      · show GroupOk f d6.raw Al3 (s.masterCount + 1) I1 [p]
        rw [inv.mc]
        refine ⟨fun h0 => absurd h0 hI10, fun _ => hI1Al3, fun _ => by rw [hI1u]; simpa using hib1,
          fun x hx _ => (by rw [List.mem_singleton.mp hx, hAl3]; simp), ?_, ?_⟩
        · intro k hk data' hl'
          simp at hk; subst hk
          rw [show 256 * (0 + 1) + 0 = 256 from rfl, hl] at hl'
          injection hl' with hl'; subst hl'
          exact ⟨hp0, hpu⟩
        · intro k hk hl'
          simp at hk; subst hk
          rw [show 256 * (0 + 1) + 0 = 256 from rfl, hl] at hl'; cases hl'
      · intro _
        refine ⟨0, by simp, ?_⟩
        show hasChunk f (256 * (s.masterCount + 1) + 0) = true
        rw [inv.mc]; exact hh
      · show unitAt d6.raw M = mb2
        rw [hu6, List.take_of_length_le (by rw [hmb2.len]; decide), quantize_full _ hmb2.len]
      · show EFacts e0 e4 3 M Al3.length
        have : Al3.length = Al.length + 1 + 1 + 1 := by rw [hAl3]; simp
        rw [this]; exact ent4
      · show Al3.length = allocCount f 257
        rw [allocCount_257, hh, hAl3]
        simp only [List.length_append, List.length_singleton, ↓reduceIte, hacnt]

end A2Verif.FsProdos
