import A2Verif.Model.C12FsId
/-!
# C12 read paths of the concrete DOS 3.x model on arbitrary images: lemmas

A small Hoare-style layer for the state monad `M` of the DOS model restricted to what the read paths do
(`ReadSafe P m`: from a sane working state `m` does not change the state, does not panic, and its value satisfies
`P`), the sector-buffer discipline (every buffer handed from read to read is 256 bytes, so `DirectorySector::
from_bytes` / `TrackSectorList::from_bytes` and the byte copies of `read_sector` stay in range), the walks
(`findLoop`, `catalogLoop`, `readLoop`, `treeLoop`) by induction on their fuel = the Rust's iteration caps, and the
free-sector count under the geometry `test_img` establishes.  Core Lean only.
-/
namespace A2Verif.C12FsId.Dos
open A2Verif.Fs.Dos3x

/-! ## sane states -/

/-- every unit of the image is a 256-byte sector -/
def Units256 (r : Raw) : Prop := ∀ (i : Nat) (b : Bytes), r.units[i]? = some b → b.length = 256

/-- working state: sectors are 256 bytes, the VTOC buffer has its 196 bytes -/
def WOk (w : W) : Prop := Units256 w.raw ∧ w.v.length = 196

/-- `m` is a read-only, panic-free computation whose value satisfies `P` -/
def ReadSafe {α : Type} (P : α → Prop) (m : M α) : Prop :=
  ∀ w, WOk w → (m w).2 = w ∧ (m w).1 ≠ .error .panic ∧ ∀ a, (m w).1 = .ok a → P a

theorem bind_apply {α β : Type} (m : M α) (f : α → M β) (w : W) :
    (m >>= f) w = match m w with
      | (.ok a, w') => f a w'
      | (.error e, w') => (.error e, w') := rfl

theorem pure_apply {α : Type} (a : α) (w : W) : (pure a : M α) w = (.ok a, w) := rfl

theorem ReadSafe.bind {α β : Type} {P : α → Prop} {Q : β → Prop} {m : M α} {f : α → M β}
    (hm : ReadSafe P m) (hf : ∀ a, P a → ReadSafe Q (f a)) : ReadSafe Q (m >>= f) := by
  intro w hw
  rw [bind_apply]
  obtain ⟨h1, h2, h3⟩ := hm w hw
  cases hmw : m w with
  | mk res w' =>
    rw [hmw] at h1 h2 h3
    simp only [] at h1 h2 h3
    subst h1
    cases res with
    | error e => exact ⟨rfl, fun hh => h2 (by cases hh; rfl), fun a h => by cases h⟩
    | ok a => exact hf a (h3 a rfl) _ hw

theorem ReadSafe.pure {α : Type} {P : α → Prop} {a : α} (h : P a) : ReadSafe P (Pure.pure a : M α) := by
  intro w _
  rw [pure_apply]
  exact ⟨rfl, (by intro hh; cases hh), fun b hb => by cases hb; exact h⟩

theorem ReadSafe.fail {α : Type} {P : α → Prop} {e : Err} (h : e ≠ .panic) : ReadSafe P (M.fail e : M α) := by
  intro w _
  show ((Except.error e, w) : R α × W).2 = w ∧ _
  exact ⟨rfl, (by intro hh; cases hh; exact h rfl), fun b hb => by cases hb⟩

theorem ReadSafe.lift {α : Type} {P : α → Prop} {x : R α} (h : x ≠ .error .panic) (hp : ∀ a, x = .ok a → P a) :
    ReadSafe P (M.lift x) := by
  intro w _
  show ((x, w) : R α × W).2 = w ∧ _
  exact ⟨rfl, h, hp⟩

theorem ReadSafe.getV : ReadSafe (fun v => v.length = 196) M.getV := by
  intro w hw
  show ((Except.ok w.v, w) : R Bytes × W).2 = w ∧ _
  exact ⟨rfl, (by intro h; cases h), fun a h => by cases h; exact hw.2⟩

theorem ReadSafe.weaken {α : Type} {P Q : α → Prop} {m : M α} (h : ReadSafe P m) (hpq : ∀ a, P a → Q a) : ReadSafe Q m := by
  intro w hw
  obtain ⟨h1, h2, h3⟩ := h w hw
  exact ⟨h1, h2, fun a ha => hpq a (h3 a ha)⟩

/-! ## sectors -/

theorem zeros_length : (zeros 256).length = 256 := List.length_replicate ..

theorem verifyTs_ne_panic (v : Bytes) (t s : Nat) : verifyTs v t s ≠ .error .panic := by
  unfold verifyTs; split <;> simp

theorem fullSector_ok {b : Bytes} (h : b.length = 256) : fullSector b = .ok () := by
  unfold fullSector sectorSize; rw [if_neg (by omega)]

theorem quantize_length (d : Bytes) : (quantize d).length = 256 := by
  unfold quantize sectorSize
  simp only [List.length_append, List.length_take, List.length_replicate]
  omega

theorem imgRead_spec {c : Nat} {r : Raw} (hu : Units256 r) (t s : Nat) :
    imgRead c r t s ≠ .error .panic ∧ ∀ b, imgRead c r t s = .ok b → b.length = 256 := by
  unfold imgRead
  split
  · simp
  · cases h : r.units[t * c + s]? with
    | none => simp
    | some b => simp only [ne_eq, reduceCtorEq, not_false_eq_true, Except.ok.injEq, true_and]; intro b' hb; subst hb; exact hu _ _ h

/-- `read_sector` into a 256-byte buffer: no index leaves the sector, the buffer stays 256 bytes -/
theorem readSector_spec {w : W} (hw : WOk w) {data : Bytes} (hd : data.length = 256) (t s : Nat) :
    readSector w data t s ≠ .error .panic ∧ ∀ b, readSector w data t s = .ok b → b.length = 256 := by
  unfold readSector
  have hact : min data.length (Vtoc.bytesPerSector w.v) ≤ 256 := by rw [hd]; exact Nat.min_le_left _ _
  by_cases hv : t = vtocTrack ∧ s = 0
  · simp only [hv, and_self, if_true]
    have hq := quantize_length w.v
    rw [if_neg (by omega)]
    refine ⟨by simp, ?_⟩
    intro b hb
    simp only [Except.ok.injEq] at hb
    subst hb
    simp only [List.length_append, List.length_take, List.length_drop]
    omega
  · simp only [hv, if_false]
    obtain ⟨h1, h2⟩ := imgRead_spec (c := w.c) hw.1 t s
    cases hr : imgRead w.c w.raw t s with
    | error e => simp only []; exact ⟨fun hh => h1 (by rw [hr]; exact hh), fun b hb => by cases hb⟩
    | ok buf =>
      have hl := h2 buf hr
      simp only []
      rw [if_neg (by omega)]
      refine ⟨by simp, ?_⟩
      intro b hb
      simp only [Except.ok.injEq] at hb
      subst hb
      simp only [List.length_append, List.length_take, List.length_drop]
      omega

theorem readSectorM_safe {data : Bytes} (hd : data.length = 256) (t s : Nat) :
    ReadSafe (fun b => b.length = 256) (readSectorM data t s) := by
  intro w hw
  obtain ⟨h1, h2⟩ := readSector_spec hw hd t s
  exact ⟨rfl, h1, h2⟩

/-! ## the directory walks -/

theorem findLoop_safe (fname : Bytes) : ∀ (fuel t s : Nat) (buf : Bytes), buf.length = 256 →
    ReadSafe (fun _ => True) (findLoop fname fuel t s buf) := by
  intro fuel
  induction fuel with
  | zero => intro t s buf _; unfold findLoop; exact ReadSafe.fail (by decide)
  | succ fuel ih =>
    intro t s buf hb
    unfold findLoop
    apply ReadSafe.bind ReadSafe.getV; intro v _
    apply ReadSafe.bind (ReadSafe.lift (P := fun _ => True) (verifyTs_ne_panic v t s) (fun _ _ => trivial)); intro _ _
    apply ReadSafe.bind (readSectorM_safe hb t s); intro buf' hb'
    apply ReadSafe.bind (ReadSafe.lift (P := fun _ => True) (by rw [fullSector_ok hb']; simp) (fun _ _ => trivial)); intro _ _
    split
    · exact ReadSafe.pure trivial
    · split
      · exact ReadSafe.pure trivial
      · exact ih _ _ _ hb'

theorem stringToFileName_ok {name : Bytes} (h : (nameBytes name).length ≤ 30) :
    ∃ f, stringToFileName name = .ok f := by
  unfold stringToFileName
  simp only []
  rw [if_neg (by omega)]
  exact ⟨_, rfl⟩

theorem getTslistSector_safe {name : Bytes} (h : (nameBytes name).length ≤ 30) :
    ReadSafe (fun _ => True) (getTslistSector name) := by
  unfold getTslistSector
  obtain ⟨f, hf⟩ := stringToFileName_ok h
  apply ReadSafe.bind (ReadSafe.lift (P := fun _ => True) (by rw [hf]; simp) (fun _ _ => trivial)); intro fname _
  apply ReadSafe.bind (P := fun _ => True)
  · unfold findEntry
    apply ReadSafe.bind ReadSafe.getV; intro v _
    exact findLoop_safe _ _ _ _ _ zeros_length
  · intro r _
    split
    · exact ReadSafe.pure trivial
    · exact ReadSafe.pure trivial

theorem catalogLoop_safe : ∀ (fuel t s : Nat) (buf : Bytes), buf.length = 256 →
    ReadSafe (fun rows => rows.length ≤ 7 * fuel) (catalogLoop fuel t s buf) := by
  intro fuel
  induction fuel with
  | zero => intro t s buf _; unfold catalogLoop; exact ReadSafe.fail (by decide)
  | succ fuel ih =>
    intro t s buf hb
    unfold catalogLoop
    apply ReadSafe.bind ReadSafe.getV; intro v _
    apply ReadSafe.bind (ReadSafe.lift (P := fun _ => True) (verifyTs_ne_panic v t s) (fun _ _ => trivial)); intro _ _
    apply ReadSafe.bind (readSectorM_safe hb t s); intro buf' hb'
    apply ReadSafe.bind (ReadSafe.lift (P := fun _ => True) (by rw [fullSector_ok hb']; simp) (fun _ _ => trivial)); intro _ _
    have hrows : ∀ (f : Nat → Option (Bytes × Nat × Nat)), ((List.range 7).filterMap f).length ≤ 7 := by
      intro f
      have := List.length_filterMap_le f (List.range 7)
      simpa using this
    simp only []
    split
    · exact ReadSafe.pure (by have := hrows (fun k => if Dir.tslTrack buf' k > 0 ∧ Dir.tslTrack buf' k < 255 then
          some (fileNameToString (Dir.name buf' k), Dir.sectors buf' k, Dir.fileType buf' k) else none); omega)
    · apply ReadSafe.bind (ih _ _ _ hb'); intro rest hrest
      exact ReadSafe.pure (by
        have := hrows (fun k => if Dir.tslTrack buf' k > 0 ∧ Dir.tslTrack buf' k < 255 then
          some (fileNameToString (Dir.name buf' k), Dir.sectors buf' k, Dir.fileType buf' k) else none)
        simp only [List.length_append]; omega)

/-! ## the track/sector list walk of `read_file` -/

theorem readPairs_safe (tsl : Bytes) (count : Nat) : ∀ (ps : List Nat),
    ReadSafe (fun cs => cs.length ≤ ps.length) (readPairs tsl count ps) := by
  intro ps
  induction ps with
  | nil => unfold readPairs; exact ReadSafe.pure (Nat.le_refl _)
  | cons p ps ih =>
    unfold readPairs
    split
    · apply ReadSafe.bind (readSectorM_safe zeros_length _ _); intro d _
      apply ReadSafe.bind ih; intro rest hrest
      exact ReadSafe.pure (by simp only [List.length_cons]; omega)
    · exact ReadSafe.weaken ih (fun a ha => by simp only [List.length_cons]; omega)

theorem readLoop_safe (maxPairs : Nat) : ∀ (fuel t s count : Nat) (buf : Bytes), buf.length = 256 →
    ReadSafe (fun cs => cs.length ≤ maxPairs * fuel) (readLoop maxPairs fuel t s count buf) := by
  intro fuel
  induction fuel with
  | zero => intro t s count buf _; unfold readLoop; exact ReadSafe.fail (by decide)
  | succ fuel ih =>
    intro t s count buf hb
    unfold readLoop
    apply ReadSafe.bind (readSectorM_safe hb t s); intro buf' hb'
    apply ReadSafe.bind (ReadSafe.lift (P := fun _ => True) (by rw [fullSector_ok hb']; simp) (fun _ _ => trivial)); intro _ _
    apply ReadSafe.bind (readPairs_safe buf' count (List.range maxPairs)); intro here hhere
    simp only [List.length_range] at hhere
    split
    · exact ReadSafe.pure (by rw [Nat.mul_succ]; omega)
    · apply ReadSafe.bind (ih _ _ _ _ hb'); intro rest hrest
      exact ReadSafe.pure (by simp only [List.length_append]; rw [Nat.mul_succ]; omega)

theorem getM_safe {name : Bytes} (h : (nameBytes name).length ≤ 30) :
    ReadSafe (fun _ => True) (getM name) := by
  unfold getM
  apply ReadSafe.bind ReadSafe.getV; intro v _
  apply ReadSafe.bind (getTslistSector_safe h); intro r _
  split
  · exact ReadSafe.fail (by decide)
  · dsimp only
    have hjp : ∀ (tt tsec ty : Nat), ReadSafe (fun _ => True)
        (readLoop (Vtoc.maxPairs v) maxTslistReps tt tsec 0 (zeros 256) >>= fun cs => (Pure.pure { fsType := ty, chunks := cs } : M Got)) := by
      intro tt tsec ty
      apply ReadSafe.bind (readLoop_safe _ _ _ _ _ _ zeros_length); intro cs _
      exact ReadSafe.pure trivial
    split
    · apply ReadSafe.bind (ReadSafe.fail (P := fun _ => True) (by decide)); intro _ _
      exact hjp _ _ _
    · exact hjp _ _ _

/-! ## `tree` -/

theorem treeEntries_safe (dir : Bytes) : ∀ (ks : List Nat) (cur : Bytes), cur.length = 256 →
    ReadSafe (fun b => b.length = 256) (treeEntries dir ks cur) := by
  intro ks
  induction ks with
  | nil => intro cur hc; unfold treeEntries; exact ReadSafe.pure hc
  | cons k ks ih =>
    intro cur hc
    unfold treeEntries
    split
    · apply ReadSafe.bind ReadSafe.getV; intro v _
      apply ReadSafe.bind (ReadSafe.lift (P := fun _ => True) (verifyTs_ne_panic v _ _) (fun _ _ => trivial)); intro _ _
      apply ReadSafe.bind (readSectorM_safe hc _ _); intro c1 h1
      apply ReadSafe.bind (ReadSafe.lift (P := fun _ => True) (by rw [fullSector_ok h1]; simp) (fun _ _ => trivial)); intro _ _
      apply ReadSafe.bind (ReadSafe.lift (P := fun _ => True) (verifyTs_ne_panic v _ _) (fun _ _ => trivial)); intro _ _
      apply ReadSafe.bind (readSectorM_safe h1 _ _); intro c2 h2
      exact ih c2 h2
    · exact ih cur hc

theorem treeLoop_safe : ∀ (fuel t s : Nat) (buf : Bytes), buf.length = 256 →
    ReadSafe (fun _ => True) (treeLoop fuel t s buf) := by
  intro fuel
  induction fuel with
  | zero => intro t s buf _; unfold treeLoop; exact ReadSafe.fail (by decide)
  | succ fuel ih =>
    intro t s buf hb
    unfold treeLoop
    apply ReadSafe.bind ReadSafe.getV; intro v _
    apply ReadSafe.bind (ReadSafe.lift (P := fun _ => True) (verifyTs_ne_panic v t s) (fun _ _ => trivial)); intro _ _
    apply ReadSafe.bind (readSectorM_safe hb t s); intro buf' hb'
    apply ReadSafe.bind (ReadSafe.lift (P := fun _ => True) (by rw [fullSector_ok hb']; simp) (fun _ _ => trivial)); intro _ _
    apply ReadSafe.bind (treeEntries_safe buf' _ buf' hb'); intro cur hcur
    split
    · exact ReadSafe.pure trivial
    · exact ih _ _ _ hcur

/-! ## the free-sector count -/

theorem mem_rng {a b x : Nat} (h : x ∈ rng a b) : a ≤ x ∧ x < b := by
  unfold rng at h
  rw [List.mem_range'_1] at h
  omega

theorem isFree_ne_panic {v : Bytes} {t s : Nat} (ht : t < 35) (hs : s < Vtoc.sectors v) (hsec : Vtoc.sectors v ≤ 32) :
    isFree v t s ≠ .error .panic := by
  unfold isFree trackMap effSec
  rw [if_neg (by omega)]
  simp only []
  rw [if_neg (by omega)]
  simp

theorem countTrack_ne_panic {v : Bytes} {t : Nat} (ht : t < 35) (hsec : Vtoc.sectors v ≤ 32) :
    ∀ ss : List Nat, (∀ s ∈ ss, s < Vtoc.sectors v) → countTrack v t ss ≠ .error .panic := by
  intro ss
  induction ss with
  | nil => intro _; simp [countTrack]
  | cons s ss ih =>
    intro h
    unfold countTrack
    have h1 := isFree_ne_panic ht (h s List.mem_cons_self) hsec
    cases hf : isFree v t s with
    | error e => simp only []; intro hh; apply h1; rw [hf]; cases hh; rfl
    | ok b =>
      simp only []
      have h2 := ih (fun x hx => h x (List.mem_cons_of_mem _ hx))
      cases hc : countTrack v t ss with
      | error e => simp only []; intro hh; apply h2; rw [hc]; cases hh; rfl
      | ok n => simp

theorem countTracks_ne_panic {v : Bytes} (hsec : Vtoc.sectors v ≤ 32) :
    ∀ ts : List Nat, (∀ t ∈ ts, t < 35) → countTracks v ts ≠ .error .panic := by
  intro ts
  induction ts with
  | nil => intro _; simp [countTracks]
  | cons t ts ih =>
    intro h
    unfold countTracks
    have h1 := countTrack_ne_panic (h t List.mem_cons_self) hsec (rng 0 (Vtoc.sectors v)) (fun s hs => (mem_rng hs).2)
    cases hf : countTrack v t (rng 0 (Vtoc.sectors v)) with
    | error e => simp only []; intro hh; apply h1; rw [hf]; cases hh; rfl
    | ok a =>
      simp only []
      have h2 := ih (fun x hx => h x (List.mem_cons_of_mem _ hx))
      cases hc : countTracks v ts with
      | error e => simp only []; intro hh; apply h2; rw [hc]; cases hh; rfl
      | ok n => simp

/-- `num_free_sectors` under the geometry bound `test_img` establishes (`tracks = 35`, `sectors ∈ {13,16}`) -/
theorem numFree_ne_panic {v : Bytes} (ht : Vtoc.tracks v ≤ 35) (hsec : Vtoc.sectors v ≤ 32) : numFree v ≠ .error .panic := by
  unfold numFree
  exact countTracks_ne_panic hsec _ (fun t h => by have := (mem_rng h).2; omega)

/-! ## opening the VTOC buffer, running on a `Disk` -/

/-- a mounted disk: 256-byte sectors; an open VTOC buffer, if any, has its 196 bytes -/
def DiskOk (d : Disk) : Prop := Units256 d.raw ∧ ∀ v, d.vtoc = some v → v.length = 196

theorem openVtoc_spec {d : Disk} (hd : DiskOk d) :
    openVtoc d ≠ .error .panic ∧ ∀ v, openVtoc d = .ok v → v.length = 196 ∧ 1 ≤ Vtoc.maxPairs v ∧ Vtoc.maxPairs v ≤ 122 ∨ d.vtoc = some v := by
  unfold openVtoc
  cases hv : d.vtoc with
  | some v => simp only []; exact ⟨by simp, fun v' h => by cases h; exact Or.inr rfl⟩
  | none =>
    simp only []
    obtain ⟨h1, h2⟩ := imgRead_spec (c := d.c) hd.1 vtocTrack 0
    cases hr : imgRead d.c d.raw vtocTrack 0 with
    | error e => simp only []; exact ⟨fun hh => h1 (by rw [hr]; exact hh), fun v h => by cases h⟩
    | ok buf =>
      have hl := h2 buf hr
      simp only []
      rw [if_neg (by unfold vtocLen; omega)]
      split
      · exact ⟨by simp, fun v h => by cases h⟩
      · rename_i hmp
        refine ⟨by simp, fun v h => ?_⟩
        simp only [Except.ok.injEq] at h
        subst h
        left
        refine ⟨by rw [List.length_take]; unfold vtocLen; omega, by omega, by omega⟩

theorem openVtoc_len {d : Disk} (hd : DiskOk d) {v : Bytes} (h : openVtoc d = .ok v) : v.length = 196 := by
  rcases (openVtoc_spec hd).2 v h with h1 | h1
  · exact h1.1
  · exact hd.2 v h1

/-- running a `ReadSafe` computation on a sane disk does not panic -/
theorem run_safe {α : Type} {P : α → Prop} {d : Disk} (hd : DiskOk d) {m : M α} (hm : ReadSafe P m) :
    (d.run m).1 ≠ .error .panic ∧ ∀ a, (d.run m).1 = .ok a → P a := by
  unfold Disk.run
  have hs := openVtoc_spec hd
  cases ho : openVtoc d with
  | error e => simp only []; exact ⟨fun hh => hs.1 (by rw [ho]; cases hh; rfl), fun a h => by cases h⟩
  | ok v =>
    simp only []
    have hw : WOk { c := d.c, raw := d.raw, v := v } := ⟨hd.1, openVtoc_len hd ho⟩
    obtain ⟨_, h2, h3⟩ := hm _ hw
    exact ⟨h2, h3⟩

/-! ## cycles: the caps turn a self-linked sector into an error -/

theorem getV_apply (w : W) : M.getV w = (.ok w.v, w) := rfl
theorem lift_apply {α : Type} (x : R α) (w : W) : M.lift x w = (x, w) := rfl
theorem readSectorM_apply (data : Bytes) (t s : Nat) (w : W) : readSectorM data t s w = (readSector w data t s, w) := rfl
theorem fail_apply {α : Type} (e : Err) (w : W) : (M.fail e : M α) w = (.error e, w) := rfl

/-- a full-size read of a sector other than the VTOC returns the stored sector -/
theorem readSector_full {w : W} {data b : Bytes} {t s : Nat} (hbps : 256 ≤ Vtoc.bytesPerSector w.v) (hd : data.length = 256)
    (hv : ¬ (t = vtocTrack ∧ s = 0)) (hr : imgRead w.c w.raw t s = .ok b) (hb : b.length = 256) :
    readSector w data t s = .ok b := by
  unfold readSector
  simp only [hv, if_false, hr]
  have hact : min data.length (Vtoc.bytesPerSector w.v) = 256 := by rw [hd]; exact Nat.min_eq_left hbps
  rw [hact, if_neg (by omega)]
  have h1 : List.take 256 b = b := List.take_of_length_le (by omega)
  have h2 : List.drop 256 data = [] := List.drop_of_length_le (by omega)
  rw [h1, h2, List.append_nil]

/-- a directory sector that links to itself: the walk ends in `IOError` when the cap is reached, whatever the cap -/
theorem catalogLoop_selfloop {w : W} {t s : Nat} {b : Bytes}
    (hts : verifyTs w.v t s = .ok ()) (hread : ∀ data : Bytes, data.length = 256 → readSector w data t s = .ok b)
    (hb : b.length = 256) (hlink : Dir.nextTrack b = t ∧ Dir.nextSector b = s) (hnz : ¬ (t = 0 ∧ s = 0)) :
    ∀ (fuel : Nat) (data : Bytes), data.length = 256 → catalogLoop fuel t s data w = (.error .ioError, w) := by
  intro fuel
  induction fuel with
  | zero => intro data _; unfold catalogLoop; rfl
  | succ fuel ih =>
    intro data hd
    unfold catalogLoop
    simp only [bind_apply, getV_apply, lift_apply, readSectorM_apply, hts, hread data hd, fullSector_ok hb]
    rw [hlink.1, hlink.2, if_neg hnz]
    simp only [bind_apply, ih b hb]

theorem readPairs_holes {tsl : Bytes} {count : Nat} {w : W} : ∀ ps : List Nat, (∀ p ∈ ps, Tsl.pairTrack tsl p = 0) →
    readPairs tsl count ps w = (.ok [], w) := by
  intro ps
  induction ps with
  | nil => intro _; rfl
  | cons p ps ih =>
    intro h
    unfold readPairs
    rw [if_neg (by rw [h p List.mem_cons_self]; omega)]
    exact ih (fun q hq => h q (List.mem_cons_of_mem _ hq))

/-- a track/sector list without data pairs that links to itself: `read_file` ends in `EndOfData` at the cap -/
theorem readLoop_selfloop {w : W} {t s mp : Nat} {b : Bytes}
    (hread : ∀ data : Bytes, data.length = 256 → readSector w data t s = .ok b)
    (hb : b.length = 256) (hholes : ∀ p, p < mp → Tsl.pairTrack b p = 0)
    (hlink : Tsl.nextTrack b = t ∧ Tsl.nextSector b = s) (hnz : t ≠ 0) :
    ∀ (fuel count : Nat) (data : Bytes), data.length = 256 → readLoop mp fuel t s count data w = (.error .endOfData, w) := by
  intro fuel
  induction fuel with
  | zero => intro count data _; unfold readLoop; rfl
  | succ fuel ih =>
    intro count data hd
    unfold readLoop
    simp only [bind_apply, readSectorM_apply, lift_apply, hread data hd, fullSector_ok hb,
      readPairs_holes (tsl := b) (count := count) (w := w) (List.range mp) (fun p hp => hholes p (List.mem_range.1 hp))]
    rw [hlink.1, hlink.2, if_neg hnz]
    simp only [bind_apply, ih _ b hb]

end A2Verif.C12FsId.Dos
