import A2Verif.Lemmas.FsFatSubRead
/-!
# Refinement of `delete` of a file in a first-level sub-directory

`delete_sub_step_core`: for a state with `Inv` in which `D` is a well-formed first-level directory (`SubDirOk`),
`delete("D/X")` as observed (run, then flush) is refused without a change, or re-establishes `Inv` and `SubDirOk` and removes
exactly the record `D/X` from the reading, whose clusters become free; every other record — in the root, in `D` and in every
other directory — is read as before, and so is the record of `D` itself.
-/
namespace A2Verif.FsFat
open A2Verif A2Verif.Fs.Fat A2Verif.Read.Fat A2Verif.Read.FatT
open A2Verif.FsDos (removed wfB_remove)

theorem paths_ne_of_split {files A B : List FileRec} {r : FileRec} (nd : (files.map (·.path)).Nodup) (hf : files = A ++ r :: B) :
    ∀ r' ∈ A ++ B, r'.path ≠ r.path := by
  rw [hf, FsDos.paths_split] at nd
  have hn1 := List.nodup_append.1 nd
  have hn2 := List.nodup_cons.1 hn1.2.1
  intro r' hr'
  rcases List.mem_append.1 hr' with h | h
  · exact fun e => hn1.2.2 _ (List.mem_map_of_mem h) _ List.mem_cons_self e
  · exact fun e => hn2.1 (e ▸ List.mem_map_of_mem h)

/-- the clusters of the other records of a well-formed reading are neither clusters of `r` -/
theorem others_disjoint {b : Fs.Fat.Bpb} {f : Array Nat} {A B : List FileRec} {r : FileRec}
    (hw : (mkVol b f (A ++ r :: B)).wfB = true) : ∀ z ∈ (A ++ B).flatMap (·.owned), z ∉ r.owned := by
  intro z hz hzr
  obtain ⟨r', hr', hzr'⟩ := List.mem_flatMap.mp hz
  have nd := wfB_paths_nodup hw
  have hne := paths_ne_of_split (files := A ++ r :: B) nd rfl r' hr'
  have hmem' : r' ∈ (mkVol b f (A ++ r :: B)).files := by
    show r' ∈ A ++ r :: B
    rcases List.mem_append.1 hr' with h | h
    · exact List.mem_append_left _ h
    · exact List.mem_append_right _ (List.mem_cons_of_mem _ h)
  have hmem : r ∈ (mkVol b f (A ++ r :: B)).files := by show r ∈ A ++ r :: B; simp
  exact (C03.no_unit_shared hw hmem' hmem hne).1 z hzr' hzr

theorem clusterData_same {d d3 : Disk} (g : Geo d) {c z : Nat} (hz2 : 2 ≤ z) (hc2 : 2 ≤ c) (hne : z ≠ c)
    (h : ∀ u, d.bpb.firstDataSec ≤ u → u ∉ List.range' (d.bpb.firstClusterSec c) d.bpb.spc → d3.raw.units[u]? = d.raw.units[u]?) :
    clusterData d3.raw (rbpb d.bpb) z = clusterData d.raw (rbpb d.bpb) z := by
  apply clusterData_congr_at
  intro i hi
  rw [firstData_eq g]
  have hspc : (rbpb d.bpb).spc = d.bpb.spc := rfl
  rw [hspc] at hi ⊢
  have e : d.bpb.firstDataSec + (z - 2) * d.bpb.spc + i = d.bpb.firstClusterSec z + i := by unfold Bpb.firstClusterSec; omega
  rw [e]
  apply h _ (by unfold Bpb.firstClusterSec; omega)
  exact secs_disjoint hz2 hc2 hne (by rw [List.mem_range'_1]; omega)

theorem chainData_congr {d d' : Disk} (hb : d'.bpb = d.bpb) {cl : List Nat} (hcl : ∀ x ∈ cl, 2 ≤ x)
    (h : ∀ u, d.bpb.firstDataSec ≤ u → d'.raw.units[u]? = d.raw.units[u]?) : chainData d' cl = chainData d cl := by
  unfold chainData
  congr 1
  apply List.map_congr_left
  intro x hx
  unfold blockData
  rw [hb]
  congr 1
  apply List.map_congr_left
  intro i _
  rw [Array.getD_eq_getD_getElem?, Array.getD_eq_getD_getElem?, h _ (by unfold Bpb.firstClusterSec; have := hcl x hx; omega)]

theorem coh_of_low {d d1 : Disk} {f : Array Nat} (c : Coh d f) (hb : d1.bpb = d.bpb) (hf : d1.fat = some f)
    (h : ∀ u, u < d.bpb.firstDataSec → d1.raw.units[u]? = d.raw.units[u]?) : Coh d1 f := by
  refine { isOpen := hf, size := by rw [hb]; exact c.size, bytes := c.bytes, copies := ?_ }
  intro k j hk hj
  rw [hb] at hk hj ⊢
  have hlt : d.bpb.rsvd + k * d.bpb.fatSecs + j < d.bpb.firstDataSec := by
    unfold Bpb.firstDataSec
    have : (k + 1) * d.bpb.fatSecs ≤ d.bpb.nfat * d.bpb.fatSecs := Nat.mul_le_mul_right _ hk
    rw [Nat.add_mul] at this
    omega
  rw [h _ hlt]
  exact c.copies k j hk hj

/-- **`delete` of a file in a first-level sub-directory as observed (run, then flush)** -/
theorem delete_sub_step_core {d : Disk} (inv : Inv d) {D X : Bytes} (a : SubArg D X) {f : Array Nat}
    {E1 E2 : List Bytes} {eD : Bytes} {cl : List Nat} (sd : SubDirOk d D f E1 eD E2 cl)
    (hfile : ∀ rec, (volOf d).lookup (absPath D ++ 47 :: absPath X) = some rec → rec.isDir = false)
    {res : R Unit} {d' : Disk} (h : runFlush (delete (subPath D X)) d = (res, d')) :
    (∃ er, res = .error er ∧ d' = d) ∨
    (res = .ok () ∧ Inv d' ∧ (∃ f', SubDirOk d' D f' E1 eD E2 cl) ∧ ∃ F1 F2 rec free', (volOf d).files = F1 ++ rec :: F2 ∧
      rec.path = absPath D ++ 47 :: absPath X ∧ rec.locked = false ∧ free'.Nodup ∧
      (∀ z, z ∈ free' ↔ z ∈ (volOf d).freeUnits ∨ z ∈ rec.owned) ∧ volOf d' = removed (volOf d) F1 F2 free') := by
  have g := inv.geo
  have w := sd.wok
  have c : Coh d f := by
    obtain ⟨f0, c0⟩ := inv.coh
    have e : f0 = f := by
      have h1 := c0.isOpen
      rw [w.fat] at h1
      injection h1 with h1
      exact h1.symm
    rw [← e]; exact c0
  obtain ⟨hread, hwf, hnl⟩ := inv_reads_well_formed inv
  unfold runFlush at h
  rcases delete_sub_run g inv.lf a sd with ⟨er, hrun⟩ | ⟨S1, x, S2, nm, ty, hS, hS1, hin, hn, hk, hro, hrun⟩
  · rw [hrun] at h
    simp only [flush_noop g c] at h
    injection h with h1 h2
    exact Or.inl ⟨er, h1.symm, h2.symm⟩
  right
  -- the root entry of `D`
  obtain ⟨hA, _, _⟩ := rootEntries_spec g
  have hmemD : eD ∈ dirOfBytes (rootBuf d) := by rw [sd.hE]; simp
  have hDl : eD.length = 32 := hA eD hmemD
  obtain ⟨hshownD, hgoodD⟩ := shown_of_inMap inv.root hmemD hDl sd.inmap
  have hE1live : ∀ y ∈ E1, live y := fun y hy => live_of_type (hA y (by rw [sd.hE]; simp [hy])) (sd.hE1 y hy)
  obtain ⟨nmD, tyD, hnD, hkD⟩ := sd.key
  have hpD : entPath [] eD = absPath D := by
    unfold entPath
    simp only [List.isEmpty_nil, if_true]
    exact entName_of_key hnD hgoodD hkD
  have hpDne : absPath D ≠ [] := by
    obtain ⟨_, _, _, _, _, _, hdn, _, _⟩ := hgoodD
    have := hdn sd.isdir
    rw [← hpD]
    unfold entPath
    simpa using this
  -- the entry of `X`
  obtain ⟨hAS, hlenS⟩ := subEntries_spec g sd.chain
  have hmemX : x ∈ subEntries d cl := by rw [hS]; simp
  have hxl : x.length = 32 := hAS x hmemX
  have hkx : (nm ++ [46] ++ ty).head? ≠ some 46 := by rw [← hk]; exact a.keyX
  obtain ⟨hshownX, hgoodX⟩ := shown_of_inMap_sub sd.ents hmemX hxl hin hn hkx
  have hS1live : ∀ y ∈ S1, live y := fun y hy => live_of_type (hAS y (by rw [hS]; simp [hy])) (hS1 y hy)
  have hnameX : entName x = absPath X := entName_of_key hn hgoodX hk
  have hpX : entPath (absPath D) x = absPath D ++ 47 :: absPath X := by
    unfold entPath
    have : (absPath D).isEmpty = false := by cases hh : absPath D with | nil => exact absurd hh hpDne | cons _ _ => rfl
    simp [this, hnameX]
  -- the reading before
  rw [readT_eq g c] at hread
  obtain ⟨R1, y, R2, r1, ry, r2, hv⟩ := root_split sd.hE hE1live hshownD hread
  rw [rd_dir g sd.isdir sd.chain sd.nodup] at ry
  cases hsub : readDirT d.raw (rbpb d.bpb) f false (hiOf d.bpb) 32 (chainData d cl) (entPath [] eD) with
  | error er => rw [hsub] at ry; cases ry
  | ok sub =>
  rw [hsub] at ry
  injection ry with ry
  obtain ⟨Q, hQ, hsubQ⟩ := sub_iff.mp hsub
  rw [hpD] at hQ
  have hSd : dirOfBytes (chainData d cl) = S1 ++ x :: S2 := hS
  rw [dirEnts_split' hSd hS1live hshownX] at hQ
  obtain ⟨Q1, yx, Q2, q1, qx, q2, hQe⟩ := mapM_append_cons _ _ _ _ _ hQ
  -- the files of the reading
  have hfilesv : (volOf d).files = R1.flatten ++ (dirRecOf eD cl :: (Q1.flatten ++ yx ++ Q2.flatten)) ++ R2.flatten := by
    rw [hv, ← ry, hsubQ, hQe]
    simp [mkVol]
  have nd := wfB_paths_nodup hwf
  -- `X` is a file
  have hbit4 : (x.getD 11 0 / 16) % 2 = 0 := by
    by_cases hd : (x.getD 11 0 / 16) % 2 = 1
    · obtain ⟨dr, sub', hy', hp', hdir⟩ := rdEnt_dir_head (r := d.raw) (b := rbpb d.bpb) (fat := f) (f16 := false) (hi := hiOf d.bpb)
        (fuel := 31) (pfx := absPath D) hd qx
      have hmemv : dr ∈ (volOf d).files := by rw [hfilesv, hy']; simp
      have hl : (volOf d).lookup (absPath D ++ 47 :: absPath X) = some dr := by
        rw [← hpX, ← hp']
        exact find_path_of_mem nd hmemv
      have := hfile dr hl
      rw [hdir] at this
      cases this
    · omega
  unfold rdS at qx
  rw [rdEnt_file hbit4] at qx
  cases hfr : fileRec d.raw (rbpb d.bpb) f false (hiOf d.bpb) (entPath (absPath D) x) x with
  | error er => rw [hfr] at qx; cases qx
  | ok rec =>
  rw [hfr] at qx
  injection qx with qx
  subst qx
  obtain ⟨k1, _, k3, _, _⟩ := fileRec_fields hfr
  have hown := fileRec_owned hfr
  have hlocked : rec.locked = false := by rw [k3]; exact decide_eq_false (by omega)
  have hfilesA : (volOf d).files = (R1.flatten ++ dirRecOf eD cl :: Q1.flatten) ++ rec :: (Q2.flatten ++ R2.flatten) := by
    rw [hfilesv]; simp
  have hfilesB : (volOf d).files = R1.flatten ++ dirRecOf eD cl :: (Q1.flatten ++ rec :: Q2.flatten ++ R2.flatten) := by
    rw [hfilesv]; simp
  have hvA : volOf d = mkVol d.bpb f ((R1.flatten ++ dirRecOf eD cl :: Q1.flatten) ++ rec :: (Q2.flatten ++ R2.flatten)) := by
    rw [hv, ← ry, hsubQ, hQe]; simp [mkVol]
  have hvB : volOf d = mkVol d.bpb f (R1.flatten ++ dirRecOf eD cl :: (Q1.flatten ++ rec :: Q2.flatten ++ R2.flatten)) := by
    rw [hv, ← ry, hsubQ, hQe]; simp [mkVol]
  have hwA := hwf; rw [hvA] at hwA
  have hwB := hwf; rw [hvB] at hwB
  -- disjointness of the clusters
  have hdisX := others_disjoint hwA
  have hdisD : ∀ z ∈ (R1.flatten ++ (Q1.flatten ++ rec :: Q2.flatten ++ R2.flatten)).flatMap (·.owned), z ∉ cl := others_disjoint hwB
  have hclX : ∀ z ∈ cl, z ∉ rec.owned := by
    intro z hz
    apply hdisX z
    simp only [List.flatMap_append, List.flatMap_cons, List.mem_append]
    exact Or.inl (Or.inr (Or.inl hz))
  -- the run
  obtain ⟨r', cw, hdel, hsz, hul, hcw, hfr', hnewS, g1⟩ := hrun hbit4
  have hcw2 : 2 ≤ cw := (sd.chain.bounds cw hcw).1
  have hlow1 : ∀ u, u < d.bpb.firstDataSec → r'.units[u]? = d.raw.units[u]? := by
    intro u hu
    apply hfr'
    rw [List.mem_range'_1]
    unfold Bpb.firstClusterSec
    omega
  have c1 : Coh ({ d with raw := r' } : Disk) f := coh_of_low c rfl c.isOpen hlow1
  have w1 := wok_of g1 c1
  obtain ⟨f', kk1, kk2, kk3, kk4, kk5, kk6⟩ := dealloc_of_reading w1 (c1 := le16 x 26) (size := le32 x 28) (cl := rec.owned) hown
  rw [hdel, kk1] at h
  simp only [] at h
  have g2 : Geo ({ ({ d with raw := r' } : Disk) with fat := some f' }) := geo_setFat g1 _
  obtain ⟨r3, m1, g3, c3, m4⟩ := flush_spec g2 rfl (by rw [kk2]; exact c1.size) kk3
  rw [m1] at h
  injection h with h1 h2
  generalize hd3 : ({ ({ ({ d with raw := r' } : Disk) with fat := some f' } : Disk) with raw := r3 } : Disk) = d3 at g3 c3 h2
  subst h2
  have hbpb3 : d3.bpb = d.bpb := by rw [← hd3]
  have hraw3 : d3.raw = r3 := by rw [← hd3]
  have hlf3 : d3.labelFiles = false := by rw [← hd3]; exact inv.lf
  have hrf : d.bpb.rootBeg ≤ d.bpb.firstDataSec := by unfold Bpb.rootBeg Bpb.firstDataSec; omega
  -- the root directory is untouched
  have hroot3 : rootBuf d3 = rootBuf d := by
    apply rootBuf_congr_lt hbpb3
    intro u hu1 hu2
    rw [hraw3, m4 u (Or.inr hu1)]
    exact hlow1 u hu2
  -- the data area: as after the write-back
  have hdata3 : ∀ u, d.bpb.firstDataSec ≤ u → d3.raw.units[u]? = r'.units[u]? := by
    intro u hu
    rw [hraw3]
    exact m4 u (Or.inr (by show d.bpb.rootBeg ≤ u; omega))
  have hdata3' : ∀ u, d.bpb.firstDataSec ≤ u → u ∉ List.range' (d.bpb.firstClusterSec cw) d.bpb.spc →
      d3.raw.units[u]? = d.raw.units[u]? := fun u hu hn' => by rw [hdata3 u hu]; exact hfr' u hn'
  -- records other than `rec` and the directory keep their reading
  have hkeep : ∀ (fuel : Nat) (pfx e' : Bytes) (y' : List FileRec),
      rdEnt d.raw (rbpb d.bpb) f false (hiOf d.bpb) fuel pfx e' = .ok y' →
      (∀ z ∈ y'.flatMap (·.owned), z ∈ (volOf d).allOwned ∧ z ∉ rec.owned ∧ z ∉ cl) →
      rdEnt d3.raw (rbpb d3.bpb) f' false (hiOf d3.bpb) fuel pfx e' = .ok y' := by
    intro fuel pfx e' y' hy' hz
    rw [hbpb3]
    apply rdEnt_congr_owned hy'
    intro z hzm
    obtain ⟨hz1, hz2, hz3⟩ := hz z hzm
    have hz2' : 2 ≤ z := by
      have := hwf
      rw [hv] at this hz1
      exact (owned_nonfree this hz1).1
    exact ⟨kk5 z hz2, clusterData_same g hz2' hcw2 (fun e => hz3 (e ▸ hcw)) hdata3'⟩
  have hallOwned : (volOf d).allOwned = (R1.flatten ++ (dirRecOf eD cl :: (Q1.flatten ++ [rec] ++ Q2.flatten)) ++ R2.flatten).flatMap (·.owned) := by
    unfold Vol.allOwned; rw [hfilesv]
  have hmapKeep : ∀ (fuel : Nat) (pfx : Bytes) (L : List Bytes) (RR : List (List FileRec)),
      L.mapM (rdEnt d.raw (rbpb d.bpb) f false (hiOf d.bpb) fuel pfx) = .ok RR →
      (∀ y' ∈ RR, ∀ r0 ∈ y', r0 ∈ R1.flatten ++ (Q1.flatten ++ rec :: Q2.flatten ++ R2.flatten) ∧ r0 ∈ (R1.flatten ++ dirRecOf eD cl :: Q1.flatten) ++ (Q2.flatten ++ R2.flatten)) →
      L.mapM (rdEnt d3.raw (rbpb d3.bpb) f' false (hiOf d3.bpb) fuel pfx) = .ok RR := by
    intro fuel pfx L RR hL hRR
    apply mapM_congr_ok _ _ _ _ hL
    intro e' y' _ hy' hye
    apply hkeep fuel pfx e' y' hye
    intro z hz
    obtain ⟨r0, hr0, hzr0⟩ := List.mem_flatMap.mp hz
    obtain ⟨hB, hA'⟩ := hRR y' hy' r0 hr0
    refine ⟨?_, hdisX z (List.mem_flatMap.mpr ⟨r0, hA', hzr0⟩), hdisD z (List.mem_flatMap.mpr ⟨r0, hB, hzr0⟩)⟩
    unfold Vol.allOwned
    rw [hfilesB]
    apply List.mem_flatMap.mpr
    refine ⟨r0, ?_, hzr0⟩
    rcases List.mem_append.1 hB with h | h
    · exact List.mem_append_left _ h
    · exact List.mem_append_right _ (List.mem_cons_of_mem _ h)
  have hR1' := hmapKeep 32 [] _ _ r1 (by
    intro y' hy' r0 hr0
    have : r0 ∈ R1.flatten := List.mem_flatten.mpr ⟨y', hy', hr0⟩
    exact ⟨List.mem_append_left _ this, List.mem_append_left _ (List.mem_append_left _ this)⟩)
  have hR2' := hmapKeep 32 [] _ _ r2 (by
    intro y' hy' r0 hr0
    have : r0 ∈ R2.flatten := List.mem_flatten.mpr ⟨y', hy', hr0⟩
    refine ⟨List.mem_append_right _ ?_, List.mem_append_right _ (List.mem_append_right _ this)⟩
    simp [this])
  have hQ1' := hmapKeep 31 (absPath D) _ _ q1 (by
    intro y' hy' r0 hr0
    have : r0 ∈ Q1.flatten := List.mem_flatten.mpr ⟨y', hy', hr0⟩
    refine ⟨List.mem_append_right _ ?_, List.mem_append_left _ (List.mem_append_right _ (List.mem_cons_of_mem _ this))⟩
    simp [this])
  have hQ2' := hmapKeep 31 (absPath D) _ _ q2 (by
    intro y' hy' r0 hr0
    have : r0 ∈ Q2.flatten := List.mem_flatten.mpr ⟨y', hy', hr0⟩
    refine ⟨List.mem_append_right _ ?_, List.mem_append_right _ (List.mem_append_left _ this)⟩
    simp [this])
  -- the directory `D` afterwards
  have hchain3 : IsChain f' (hiOf d3.bpb) (le16 eD 26) cl := by
    rw [hbpb3]
    exact sd.chain.congr (fun z hz => kk5 z (hclX z hz))
  have hcl2 : ∀ z ∈ cl, 2 ≤ z := fun z hz => (sd.chain.bounds z hz).1
  have hcd3 : chainData d3 cl = chainData ({ d with raw := r' } : Disk) cl :=
    chainData_congr (d := ({ d with raw := r' } : Disk)) hbpb3 hcl2 hdata3
  have hE5 : (Entry.erase x).getD 0 0 = 0xe5 ∧ (Entry.erase x).length = 32 := by
    unfold Entry.erase splice
    cases x with
    | nil => simp at hxl
    | cons x0 t => simp at hxl ⊢; omega
  have hS3 : dirOfBytes (chainData d3 cl) = S1 ++ Entry.erase x :: S2 := by
    rw [hcd3]
    have : dirOfBytes (chainData ({ d with raw := r' } : Disk) cl) = (subEntries d cl).set S1.length (Entry.erase x) := hnewS
    rw [this, hS, set_mid]
  have hsub3 : readDirT d3.raw (rbpb d3.bpb) f' false (hiOf d3.bpb) 32 (chainData d3 cl) (entPath [] eD) = .ok (Q1.flatten ++ Q2.flatten) := by
    rw [sub_iff]
    refine ⟨Q1 ++ Q2, ?_, by simp⟩
    rw [dirEnts_skip' hS3 hS1live (act_cons_free _ _ hE5.1 hE5.2), hpD]
    exact mapM_append_ok _ _ _ _ _ hQ1' hQ2'
  have hrdD3 : rd d3 f' eD = .ok (dirRecOf eD cl :: (Q1.flatten ++ Q2.flatten)) := by
    rw [rd_dir g3 sd.isdir hchain3 sd.nodup, hsub3]
  -- the reading afterwards
  have hE3 : dirOfBytes (rootBuf d3) = E1 ++ eD :: E2 := by rw [hroot3]; exact sd.hE
  have hread3 : readT d3.raw = .ok (removed (volOf d) (R1.flatten ++ dirRecOf eD cl :: Q1.flatten) (Q2.flatten ++ R2.flatten) (freeUnitsOf d.bpb f')) := by
    rw [readT_eq g3 c3, root_join hE3 hE1live hshownD hR1' hrdD3 hR2', hbpb3, hvA]
    unfold removed mkVol
    simp
  have hvol3 := volOf_of_read hread3
  have hfreeU : (volOf d).freeUnits = freeUnitsOf d.bpb f := by rw [hv]; rfl
  obtain ⟨fnd, ffree⟩ := freeUnitsOf_zeroed (b := d.bpb) (f := f) (f' := f') (cl := rec.owned) kk6 kk4 kk5
  have ffree' : ∀ z, z ∈ freeUnitsOf d.bpb f' ↔ z ∈ (volOf d).freeUnits ∨ z ∈ rec.owned := by
    intro z; rw [ffree, hfreeU]
  have hwf3 := wfB_remove hfilesA hwf fnd ffree'
  have hnl3 := noLeak_removed hfilesA hnl ffree'
  refine ⟨h1.symm, ?_, ⟨f', ?_⟩, R1.flatten ++ dirRecOf eD cl :: Q1.flatten, Q2.flatten ++ R2.flatten, rec, freeUnitsOf d.bpb f',
    hfilesA, by rw [k1]; exact hpX, hlocked, fnd, ffree', hvol3⟩
  · refine { lf := hlf3, geo := g3, coh := ⟨f', c3⟩, root := ?_, tail := ?_, read := ⟨_, hread3, hwf3, hnl3⟩ }
    · rw [RootOk, hroot3]; exact inv.root
    · rw [hroot3]; exact inv.tail
  · refine { wok := wok_of g3 c3, hE := hE3, hE1 := sd.hE1, inmap := sd.inmap, key := sd.key, isdir := sd.isdir, chain := hchain3,
             nodup := sd.nodup, ents := ?_ }
    rw [hS3]
    have hold := sd.ents
    have hSd' : dirOfBytes (chainData d cl) = S1 ++ x :: S2 := hS
    rw [hSd'] at hold
    refine { ents := ?_, tail := tailZero_replace hold.tail hS1 (by rw [hE5.1]; decide) }
    intro e he h0 h5 hl h46
    simp only [List.mem_append, List.mem_cons] at he
    rcases he with he | he | he
    · exact hold.ents e (by simp [he]) h0 h5 hl h46
    · rw [he] at h5; exact absurd hE5.1 h5
    · exact hold.ents e (by simp [he]) h0 h5 hl h46

end A2Verif.FsFat
