import A2Verif.Model.C09Imd
/-!
Lemmas for the IMD per-sector run compression: `expand ∘ compress = id` on every well-formed
expanded track buffer, by induction over the list of sector records.
-/
namespace A2Verif.Lemmas.C09Imd
open A2Verif.Model.C09Imd A2Verif.Gen.C09Const

/-- one sector record of an *expanded* track: code byte and payload -/
structure Sec where
  code : Nat
  data : List Nat
deriving DecidableEq, Repr

def Sec.flat (s : Sec) : List Nat := s.code :: s.data

/-- a record of an expanded track: "no data" (code 0, nothing follows) or one of the four
uncompressed codes followed by exactly `128·2^shift` bytes -/
def Sec.wf (shift : Nat) (s : Sec) : Prop :=
  (s.code = 0 ∧ s.data = []) ∨
  ((s.code = 1 ∨ s.code = 3 ∨ s.code = 5 ∨ s.code = 7) ∧ s.data.length = secSize shift)

instance (shift : Nat) (s : Sec) : Decidable (s.wf shift) := by unfold Sec.wf; exact inferInstance

def flatten : List Sec → List Nat
  | [] => []
  | s :: ss => s.flat ++ flatten ss

theorem secSize_eq (shift : Nat) : secSize shift = 128 * 2 ^ shift := by
  simp [secSize, IMD_SECTOR_SIZE_BASE, Nat.shiftLeft_eq]

theorem secSize_ge (shift : Nat) : 128 ≤ secSize shift := by
  rw [secSize_eq]
  have : 1 ≤ 2 ^ shift := Nat.one_le_two_pow
  omega

theorem repl_count (shift : Nat) : (1 <<< shift) * 128 = secSize shift := by
  rw [secSize_eq, Nat.shiftLeft_eq]; omega

theorem uniform_replicate (d : Nat) (ds : List Nat) (h : isUniform (d :: ds) = true) :
    ds = List.replicate ds.length d := by
  simp only [isUniform, List.all_eq_true, beq_iff_eq] at h
  exact List.eq_replicate_iff.mpr ⟨rfl, h⟩

theorem size_data (shift c : Nat) (hc : c = 1 ∨ c = 3 ∨ c = 5 ∨ c = 7) :
    secBufSize shift c = some (1 + secSize shift) := by
  rcases hc with h | h | h | h <;> subst h <;> rfl

theorem size_comp (shift c : Nat) (hc : c = 1 ∨ c = 3 ∨ c = 5 ∨ c = 7) :
    secBufSize shift (c + 1) = some 2 := by
  rcases hc with h | h | h | h <;> subst h <;> rfl

theorem size_none (shift : Nat) : secBufSize shift 0 = some 1 := rfl

theorem compressGo_step (shift n c : Nat) (d rest : List Nat)
    (h : secBufSize shift c = some (d.length + 1)) :
    compressGo shift (n + 1) (c :: (d ++ rest)) =
      (compressGo shift n rest).map (fun r => compressOne (d.length + 1) (c :: d) ++ r) := by
  simp only [compressGo, h]
  have hlen : ¬ ((c :: (d ++ rest)).length < d.length + 1) := by simp
  rw [if_neg hlen]
  have htake : (c :: (d ++ rest)).take (d.length + 1) = c :: d := by simp
  have hdrop : (c :: (d ++ rest)).drop (d.length + 1) = rest := by simp
  rw [htake, hdrop]
  cases compressGo shift n rest <;> simp

theorem expandGo_step (shift n c : Nat) (d rest : List Nat)
    (h : secBufSize shift c = some (d.length + 1)) :
    expandGo shift (n + 1) (c :: (d ++ rest)) =
      (expandGo shift n rest).map (fun r => expandOne shift (d.length + 1) (c :: d) ++ r) := by
  simp only [expandGo, h]
  have hlen : ¬ ((c :: (d ++ rest)).length < d.length + 1) := by simp
  rw [if_neg hlen]
  have htake : (c :: (d ++ rest)).take (d.length + 1) = c :: d := by simp
  have hdrop : (c :: (d ++ rest)).drop (d.length + 1) = rest := by simp
  rw [htake, hdrop]
  cases expandGo shift n rest <;> simp

theorem wf_size (shift : Nat) (s : Sec) (hs : s.wf shift) :
    secBufSize shift s.code = some (s.data.length + 1) := by
  rcases hs with ⟨h0, hd⟩ | ⟨hc, hl⟩
  · simp [h0, hd, size_none]
  · rw [size_data shift s.code hc, hl, Nat.add_comm]

/-- `compress` consumes one well-formed record and emits `compressOne` of it -/
theorem compressGo_cons (shift n : Nat) (s : Sec) (hs : s.wf shift) (rest : List Nat) :
    compressGo shift (n + 1) (s.flat ++ rest) =
      (compressGo shift n rest).map (fun r => compressOne s.flat.length s.flat ++ r) := by
  simpa [Sec.flat] using compressGo_step shift n s.code s.data rest (wf_size shift s hs)

/-- what `expand` makes of the compressed form of one well-formed record: the record itself -/
theorem expandOne_compressOne (shift : Nat) (s : Sec) (hs : s.wf shift) :
    ∃ c d, compressOne s.flat.length s.flat = c :: d ∧ secBufSize shift c = some (d.length + 1) ∧
      expandOne shift (d.length + 1) (c :: d) = s.flat := by
  obtain ⟨c, d⟩ := s
  rcases hs with ⟨h0, hd⟩ | ⟨hc, hl⟩
  · simp only at h0 hd
    subst h0; subst hd
    exact ⟨0, [], by simp [Sec.flat, compressOne], size_none shift, by simp [Sec.flat, expandOne]⟩
  · simp only at hc hl
    have hge := secSize_ge shift
    cases d with
    | nil => simp at hl; omega
    | cons d0 ds =>
      have hlen : ds.length + 1 = secSize shift := by simpa using hl
      by_cases hu : isUniform (d0 :: ds) = true
      · have hrep := uniform_replicate d0 ds hu
        have hdat : d0 :: ds = List.replicate (secSize shift) d0 := by
          rw [← hlen, List.replicate_succ, ← hrep]
        refine ⟨c + 1, [d0], ?_, size_comp shift c hc, ?_⟩
        · have hne : ¬ ds = [] := by
            intro h; subst h; simp at hlen; omega
          simp [Sec.flat, compressOne, hu, hne]
        · simp [Sec.flat, expandOne, repl_count, hdat]
      · refine ⟨c, d0 :: ds, ?_, ?_, ?_⟩
        · simp [Sec.flat, compressOne, hu]
        · rw [size_data shift c hc, hl, Nat.add_comm]
        · have hne : ¬ ((d0 :: ds).length + 1 = 2) := by simp only [List.length_cons]; omega
          simp only [expandOne, if_neg hne, Sec.flat]

/-- `expand` undoes what `compress` emitted for one well-formed record -/
theorem expandGo_cons (shift n : Nat) (s : Sec) (hs : s.wf shift) (rest : List Nat) :
    expandGo shift (n + 1) (compressOne s.flat.length s.flat ++ rest) =
      (expandGo shift n rest).map (fun r => s.flat ++ r) := by
  obtain ⟨c, d, hco, hsz, hex⟩ := expandOne_compressOne shift s hs
  rw [hco, List.cons_append, expandGo_step shift n c d rest hsz, hex]

/-- the compressed form of a list of records -/
def compressed : List Sec → List Nat
  | [] => []
  | s :: ss => compressOne s.flat.length s.flat ++ compressed ss

theorem compressGo_flatten (shift : Nat) (ss : List Sec) (h : ∀ s ∈ ss, s.wf shift) :
    compressGo shift ss.length (flatten ss) = some (compressed ss) := by
  induction ss with
  | nil => simp [compressGo, compressed]
  | cons s ss ih =>
    have hs := h s (by simp)
    have ht : ∀ t ∈ ss, t.wf shift := fun t ht => h t (by simp [ht])
    simp only [flatten, List.length_cons, compressGo_cons shift ss.length s hs, ih ht, compressed, Option.map]

theorem expandGo_compressed (shift : Nat) (ss : List Sec) (h : ∀ s ∈ ss, s.wf shift) :
    expandGo shift ss.length (compressed ss) = some (flatten ss) := by
  induction ss with
  | nil => simp [expandGo, flatten]
  | cons s ss ih =>
    have hs := h s (by simp)
    have ht : ∀ t ∈ ss, t.wf shift := fun t ht => h t (by simp [ht])
    simp only [compressed, List.length_cons, expandGo_cons shift ss.length s hs, ih ht, flatten, Option.map]

/-! ### the container: track records and the whole file -/

theorem readRecords_step (shift n c : Nat) (d rest : List Nat)
    (h : secBufSize shift c = some (d.length + 1)) :
    readRecords shift (n + 1) (c :: (d ++ rest)) =
      match readRecords shift n rest with
      | some (some (recs, r)) => some (some (c :: d ++ recs, r))
      | x => x := by
  simp only [readRecords, h]
  have hlen : ¬ ((c :: (d ++ rest)).length < d.length + 1) := by simp
  rw [if_neg hlen]
  have htake : (c :: (d ++ rest)).take (d.length + 1) = c :: d := by simp
  have hdrop : (c :: (d ++ rest)).drop (d.length + 1) = rest := by simp
  rw [htake, hdrop]
  rcases readRecords shift n rest with _ | _ | ⟨recs, r⟩ <;> simp

/-- the record loop of `update_from_bytes` reads back exactly the compressed records -/
theorem readRecords_compressed (shift : Nat) (ss : List Sec) (h : ∀ s ∈ ss, s.wf shift) (rest : List Nat) :
    readRecords shift ss.length (compressed ss ++ rest) = some (some (compressed ss, rest)) := by
  induction ss with
  | nil => simp [readRecords, compressed]
  | cons s ss ih =>
    have hs := h s (by simp)
    have ht : ∀ t ∈ ss, t.wf shift := fun t ht => h t (by simp [ht])
    obtain ⟨c, d, hco, hsz, _⟩ := expandOne_compressOne shift s hs
    simp only [compressed, List.length_cons, hco, List.cons_append, List.append_assoc]
    rw [readRecords_step shift ss.length c d _ hsz, ih ht]
    simp

/-- a compressed track as `to_bytes` emits it -/
structure CTrackWf (c : Track) (ss : List Sec) : Prop where
  secs : ∀ s ∈ ss, s.wf c.shift
  count : c.sectors = ss.length
  buf : c.buf = compressed ss
  smap : c.sectorMap.length = c.sectors
  cmap : c.cylMap.length = if c.head &&& IMD_CYL_MAP_FLAG = IMD_CYL_MAP_FLAG then c.sectors else 0
  hmap : c.headMap.length = if c.head &&& IMD_HEAD_MAP_FLAG = IMD_HEAD_MAP_FLAG then c.sectors else 0
  shift : c.shift ≤ 6

theorem trackFromBytes_toBytes (c : Track) (ss : List Sec) (h : CTrackWf c ss) (rest : List Nat) :
    trackFromBytes (trackToBytes c ++ rest) = some (some (c, rest)) := by
  obtain ⟨mode, cyl, head, sectors, shift, smap, cmap, hmap, buf⟩ := c
  obtain ⟨hsecs, hcount, hbuf, hsm, hcm, hhm, hshift⟩ := h
  simp only at hsecs hcount hbuf hsm hcm hhm hshift
  subst hbuf
  subst hcount
  simp only [trackToBytes, List.cons_append, List.nil_append, List.append_assoc, trackFromBytes]
  rw [if_neg (by omega : ¬ shift > 6)]
  have h0 : ¬ ((smap ++ (cmap ++ (hmap ++ (compressed ss ++ rest)))).length < ss.length) := by
    simp only [List.length_append]; omega
  rw [if_neg h0]
  have t1 : (smap ++ (cmap ++ (hmap ++ (compressed ss ++ rest)))).take ss.length = smap := by
    rw [← hsm]; simp
  have d1 : (smap ++ (cmap ++ (hmap ++ (compressed ss ++ rest)))).drop ss.length = cmap ++ (hmap ++ (compressed ss ++ rest)) := by
    rw [← hsm]; simp
  simp only [t1, d1]
  by_cases hc : head &&& IMD_CYL_MAP_FLAG = IMD_CYL_MAP_FLAG
  · rw [if_pos hc] at hcm
    by_cases hh : head &&& IMD_HEAD_MAP_FLAG = IMD_HEAD_MAP_FLAG
    · rw [if_pos hh] at hhm
      have e1 : ¬ (head &&& IMD_CYL_MAP_FLAG = IMD_CYL_MAP_FLAG ∧ (cmap ++ (hmap ++ (compressed ss ++ rest))).length < ss.length) := by
        simp only [List.length_append]; omega
      have t2 : (cmap ++ (hmap ++ (compressed ss ++ rest))).take ss.length = cmap := by rw [← hcm]; simp
      have d2 : (cmap ++ (hmap ++ (compressed ss ++ rest))).drop ss.length = hmap ++ (compressed ss ++ rest) := by rw [← hcm]; simp
      have e2 : ¬ (head &&& IMD_HEAD_MAP_FLAG = IMD_HEAD_MAP_FLAG ∧ (hmap ++ (compressed ss ++ rest)).length < ss.length) := by
        simp only [List.length_append]; omega
      have t3 : (hmap ++ (compressed ss ++ rest)).take ss.length = hmap := by rw [← hhm]; simp
      have d3 : (hmap ++ (compressed ss ++ rest)).drop ss.length = compressed ss ++ rest := by rw [← hhm]; simp
      simp only [if_neg e1, if_pos hc, t2, d2, if_neg e2, if_pos hh, t3, d3,
        readRecords_compressed shift ss hsecs rest]
    · rw [if_neg hh] at hhm
      have hm0 : hmap = [] := List.eq_nil_of_length_eq_zero hhm
      subst hm0
      have e1 : ¬ (head &&& IMD_CYL_MAP_FLAG = IMD_CYL_MAP_FLAG ∧ (cmap ++ ([] ++ (compressed ss ++ rest))).length < ss.length) := by
        simp only [List.length_append]; omega
      have t2 : (cmap ++ ([] ++ (compressed ss ++ rest))).take ss.length = cmap := by rw [← hcm]; simp
      have d2 : (cmap ++ ([] ++ (compressed ss ++ rest))).drop ss.length = compressed ss ++ rest := by rw [← hcm]; simp
      have e2 : ¬ (head &&& IMD_HEAD_MAP_FLAG = IMD_HEAD_MAP_FLAG ∧ (compressed ss ++ rest).length < ss.length) := by
        intro ⟨a, _⟩; exact hh a
      simp only [if_neg e1, if_pos hc, t2, d2, if_neg e2, if_neg hh,
        readRecords_compressed shift ss hsecs rest]
  · rw [if_neg hc] at hcm
    have cm0 : cmap = [] := List.eq_nil_of_length_eq_zero hcm
    subst cm0
    have e1 : ¬ (head &&& IMD_CYL_MAP_FLAG = IMD_CYL_MAP_FLAG ∧ ([] ++ (hmap ++ (compressed ss ++ rest))).length < ss.length) := by
      intro ⟨a, _⟩; exact hc a
    by_cases hh : head &&& IMD_HEAD_MAP_FLAG = IMD_HEAD_MAP_FLAG
    · rw [if_pos hh] at hhm
      have e2 : ¬ (head &&& IMD_HEAD_MAP_FLAG = IMD_HEAD_MAP_FLAG ∧ ([] ++ (hmap ++ (compressed ss ++ rest))).length < ss.length) := by
        simp only [List.length_append, List.nil_append]; omega
      have t3 : ([] ++ (hmap ++ (compressed ss ++ rest))).take ss.length = hmap := by rw [← hhm]; simp
      have d3 : ([] ++ (hmap ++ (compressed ss ++ rest))).drop ss.length = compressed ss ++ rest := by rw [← hhm]; simp
      simp only [if_neg e1, if_neg hc, if_neg e2, if_pos hh, t3, d3,
        readRecords_compressed shift ss hsecs rest]
    · rw [if_neg hh] at hhm
      have hm0 : hmap = [] := List.eq_nil_of_length_eq_zero hhm
      subst hm0
      have e2 : ¬ (head &&& IMD_HEAD_MAP_FLAG = IMD_HEAD_MAP_FLAG ∧ ([] ++ ([] ++ (compressed ss ++ rest))).length < ss.length) := by
        intro ⟨a, _⟩; exact hh a
      simp only [if_neg hc, if_neg hh, List.nil_append, readRecords_compressed shift ss hsecs rest]
      simp [hc, hh]

/-- an expanded track as a2kit holds it in memory -/
structure TrackWf (t : Track) (ss : List Sec) : Prop where
  secs : ∀ s ∈ ss, s.wf t.shift
  count : t.sectors = ss.length
  buf : t.buf = flatten ss
  smap : t.sectorMap.length = t.sectors
  cmap : t.cylMap.length = if t.head &&& IMD_CYL_MAP_FLAG = IMD_CYL_MAP_FLAG then t.sectors else 0
  hmap : t.headMap.length = if t.head &&& IMD_HEAD_MAP_FLAG = IMD_HEAD_MAP_FLAG then t.sectors else 0
  /-- `update_from_bytes` refuses size codes above 6 (and 0xFF, "inhomogeneous sector sizes") -/
  shift : t.shift ≤ 6

def TracksWf (ts : List Track) : Prop := ∀ t ∈ ts, ∃ ss, TrackWf t ss

theorem compress_of_wf (t : Track) (ss : List Sec) (h : TrackWf t ss) :
    t.compress = some { t with buf := compressed ss } ∧ CTrackWf { t with buf := compressed ss } ss ∧
      ({ t with buf := compressed ss } : Track).expand = some t := by
  obtain ⟨hsecs, hcount, hbuf, hsm, hcm, hhm, hsh⟩ := h
  refine ⟨?_, ⟨hsecs, hcount, rfl, hsm, hcm, hhm, hsh⟩, ?_⟩
  · simp only [Track.compress, hbuf, hcount, compressGo_flatten t.shift ss hsecs, Option.map]
  · simp only [Track.expand, hcount, expandGo_compressed t.shift ss hsecs, Option.map]
    cases t
    simp_all

theorem findEof_comment (comment rest : List Nat) (h : ∀ b ∈ comment, b ≠ 0x1A) :
    findEof (comment ++ 0x1A :: rest) = some comment.length := by
  induction comment with
  | nil => simp [findEof]
  | cons b bs ih =>
    have hb := h b (by simp)
    have ht : ∀ c ∈ bs, c ≠ 0x1A := fun c hc => h c (by simp [hc])
    simp [findEof, hb, ih ht]

theorem readTracks_cons (fuel : Nat) (bytes : List Nat) (hne : bytes ≠ []) (c : Track) (rest : List Nat) (t : Track)
    (h1 : trackFromBytes bytes = some (some (c, rest))) (h2 : ¬ c.shift = 0xFF) (h3 : c.expand = some t) :
    readTracks (fuel + 1) bytes =
      match readTracks fuel rest with
      | some (some ts) => some (some (t :: ts))
      | r => r := by
  cases bytes with
  | nil => exact absurd rfl hne
  | cons b bs =>
    simp only [readTracks, h1, if_neg h2, h3]
    rcases readTracks fuel rest with _ | _ | _ <;> rfl

theorem tracks_roundtrip (ts : List Track) (h : TracksWf ts) :
    ∃ bytes, tracksToBytes ts = some bytes ∧ ts.length ≤ bytes.length ∧
      ∀ fuel, ts.length ≤ fuel → readTracks fuel bytes = some (some ts) := by
  induction ts with
  | nil => exact ⟨[], rfl, by simp, fun fuel _ => by cases fuel <;> rfl⟩
  | cons t ts ih =>
    obtain ⟨ss, hw⟩ := h t (by simp)
    have ht : TracksWf ts := fun u hu => h u (by simp [hu])
    obtain ⟨bytes, hb, hlen, hrd⟩ := ih ht
    obtain ⟨hc, hcw, hex⟩ := compress_of_wf t ss hw
    refine ⟨trackToBytes { t with buf := compressed ss } ++ bytes, ?_, ?_, ?_⟩
    · simp only [tracksToBytes, hc, hb]
    · simp only [List.length_append, trackToBytes, List.length_cons, List.length_nil]; omega
    · intro fuel hf
      cases fuel with
      | zero => simp at hf
      | succ f =>
        have hne : trackToBytes { t with buf := compressed ss } ++ bytes ≠ [] := by simp [trackToBytes]
        have hstep := trackFromBytes_toBytes _ ss hcw bytes
        have hshift : ¬ (({ t with buf := compressed ss } : Track).shift = 0xFF) := by
          have := hw.shift; show ¬ (t.shift = 0xFF); omega
        have hf' : ts.length ≤ f := by simp at hf; omega
        rw [readTracks_cons f _ hne _ bytes t hstep hshift hex, hrd f hf']

/-- what a2kit's `Imd` object satisfies -/
structure ImageWf (x : Image) : Prop where
  hlen : x.header.length = 29
  sig : x.header.take 4 = [73, 77, 68, 32] ∧ (x.header.drop 4).take 2 ∈ [[48, 46], [49, 46]]
  comment : ∀ b ∈ x.comment, b ≠ 0x1A
  some : x.tracks ≠ []
  tracks : TracksWf x.tracks

theorem imd_fromBytes_toBytes (x : Image) (h : ImageWf x) :
    (toBytes x).bind fromBytes = some (some x) := by
  obtain ⟨bytes, hb, hlen, hrd⟩ := tracks_roundtrip x.tracks h.tracks
  simp only [toBytes, hb, Option.map, Option.bind]
  have hl : (x.header ++ x.comment ++ [0x1A] ++ bytes).length = 29 + x.comment.length + 1 + bytes.length := by
    simp [h.hlen]; omega
  have htake : (x.header ++ x.comment ++ [0x1A] ++ bytes).take 29 = x.header := by
    rw [← h.hlen]; simp
  have hdrop : (x.header ++ x.comment ++ [0x1A] ++ bytes).drop 29 = x.comment ++ 0x1A :: bytes := by
    rw [← h.hlen]; simp
  unfold fromBytes
  rw [if_neg (by omega)]
  simp only [htake]
  rw [if_neg (by simp [h.sig])]
  rw [hdrop, findEof_comment x.comment bytes h.comment]
  have hd2 : (x.header ++ x.comment ++ [0x1A] ++ bytes).drop (29 + x.comment.length + 1) = bytes := by
    have : 29 + x.comment.length + 1 = (x.header ++ x.comment ++ [0x1A]).length := by simp [h.hlen]; omega
    rw [this]; simp
  have hfuel : x.tracks.length ≤ (x.header ++ x.comment ++ [0x1A] ++ bytes).length := by omega
  simp only [hd2, hrd _ hfuel]
  have : (x.comment ++ 0x1A :: bytes).take x.comment.length = x.comment := by simp
  rw [this]
  cases hx : x.tracks with
  | nil => exact absurd hx h.some
  | cons t ts => cases x; simp_all

end A2Verif.Lemmas.C09Imd
