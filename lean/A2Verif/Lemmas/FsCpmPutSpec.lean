import A2Verif.Lemmas.FsCpmPut2
/-!
# Successful `put`: the argument conditions and what the saved directory looks like (interface)

`PutArgsOk` is the class of file images the refinement theorem of a successful `put` speaks about; `DpbPut` is the
condition on the disk parameter block (every a2kit CP/M disk kind satisfies it).  `PutFacts` is the characterisation of the
directory a successful `put` saves and of the data blocks it wrote — proved from the write loops in `FsCpmPutLoop*`,
consumed by `FsCpmPutAbs*` (`Inv` afterwards, `stepOk … (.put …) true`).
-/
namespace A2Verif.FsCpm
open A2Verif.Fs.Cpm
open A2Verif.Read.Cpm (Dpb fileKey extNum entryPtrs pathOf slots)

/-- block pointer slots per directory entry as `write_file` computes them: `extent_capacity / block_size` -/
def putSpe (d : Dpb) : Nat := extentCapacity d / blockSize d
/-- slots per logical extent -/
def putSpl (d : Dpb) : Nat := putSpe d / (d.exm + 1)
/-- number of physical extents `write_file` walks over -/
def putMaxX (d : Dpb) (f : FImg) : Nat := f.end_ / putSpe d + (if f.end_ % putSpe d > 0 then 1 else 0)

/-- the disk parameter block is consistent: a logical extent (16K) is a whole number of blocks, and an entry has exactly
as many pointer slots as `extent_capacity / block_size` (`DiskParameterBlock::verify` demands this relation of `exm`, `bsh`, `dsm`);
block numbers fit 16 bits -/
def DpbPut (d : Dpb) : Prop := putSpl d * blockSize d = 16384 ∧ putSpe d = slots d ∧ d.dsm < 65536

instance (d : Dpb) : Decidable (DpbPut d) := by unfold DpbPut; infer_instance

/-- the file images the theorem about a successful `put` covers (the harness generates nothing else):
at least one chunk; chunk keys pairwise different (a `HashMap`); no chunk longer than a block; the logical length ends
inside the last chunk; fewer than 2048 logical extents (EX/S2 hold 11 bits) -/
def PutArgsOk (d : Dpb) (f : FImg) : Prop :=
  f.chunks ≠ [] ∧ (f.chunks.map (·.1)).Nodup ∧ (∀ c ∈ f.chunks, c.2.length ≤ blockSize d) ∧
  (f.end_ - 1) * blockSize d < f.eof ∧ f.eof ≤ f.end_ * blockSize d ∧ f.end_ ≤ 2048 * putSpl d

instance (d : Dpb) (f : FImg) : Decidable (PutArgsOk d f) := by unfold PutArgsOk; infer_instance

/-- the stored chunks as the abstract `put` names them: ascending index -/
def putChunks (f : FImg) : List (Nat × Bytes) := f.chunks.mergeSort (fun a b => decide (a.1 ≤ b.1))

/-- the 12 header bytes of every entry `put` creates: user, 7-bit name and type (the flag bits are the image's) -/
structure Hdr (user : Nat) (base typ : Bytes) (e : Bytes) : Prop where
  len : e.length = 32
  user : e.getD 0 0 = user
  name : name7 e = base.map (· % 128)
  typ : typ7 e = typ.map (· % 128)
  b9 : e.getD 9 0 < 256

/-- a block `put` allocated: inside the volume, not reserved, not referenced by the directory it started from -/
def NewPtr (d : Dpb) (dir0 : Dir) (p : Nat) : Prop := p < d.dsm + 1 ∧ isReserved d p = false ∧ p ∉ usedPtrs d dir0

/-- entry `e` describes physical extent `x` of the file image `f`; the data is in `sr` -/
structure XEnt (d : Dpb) (dir0 : Dir) (sr : Raw) (f : FImg) (x : Nat) (e : Bytes) : Prop where
  ex : e.getD 12 0 < 32
  s2 : e.getD 14 0 < 64
  phys : extNum e / (d.exm + 1) = x
  lt : x < putMaxX d f
  /-- slot `k` points to the block holding chunk `x·slots + k`, or is 0 when there is no such chunk -/
  ptr : ∀ k, k < slots d →
    (f.chunks.lookup (x * slots d + k) = none ∧ (entryPtrs d e).getD k 0 = 0) ∨
    (∃ c, f.chunks.lookup (x * slots d + k) = some c ∧ (entryPtrs d e).getD k 0 ≠ 0 ∧ NewPtr d dir0 ((entryPtrs d e).getD k 0) ∧
      sr.units[(entryPtrs d e).getD k 0]? = some (quantize (blockSize d) c))
  /-- the entry of the last physical extent carries the end of file -/
  last : x + 1 = putMaxX d f → eofOf e = (cpmParams d).eofRule f.eof
  /-- every other entry is numbered by the last logical extent of its physical extent -/
  full : x + 1 < putMaxX d f → extNum e = x * (d.exm + 1) + d.exm

/-- equal non-zero pointers in file entries of a directory sit in the same entry and slot -/
def PtrsDistinct (d : Dpb) (dir : Dir) : Prop :=
  ∀ (i j : Nat) (ei ej : Bytes) (k l p : Nat), dir[i]? = some ei → dir[j]? = some ej → isExtent ei = true → isExtent ej = true →
    (entryPtrs d ei)[k]? = some p → (entryPtrs d ej)[l]? = some p → p ≠ 0 → i = j ∧ k = l

/-- what a successful `put` of `f` (user `user`, stored name `base`/`typ`) leaves: data blocks in `sr`, directory `dir2` to be saved -/
structure PutFacts (d : Dpb) (r : Raw) (f : FImg) (user : Nat) (base typ : Bytes) (sr : Raw) (dir2 : Dir) : Prop where
  frame : Frame d (dirOf d r) r sr
  keeps : KeepsFiles (dirOf d r) dir2
  len : ∀ e ∈ dir2, e.length = 32
  /-- entries that are not file entries afterwards: untouched, or a time-stamp entry rewritten -/
  other : ∀ (j : Nat) (e0 e : Bytes), (dirOf d r)[j]? = some e0 → dir2[j]? = some e → isExtent e = false →
    e = e0 ∨ (32 ≤ status e0 ∧ 32 ≤ status e)
  /-- new file entries: in place of an unused entry, with the header of the file, describing one physical extent -/
  new : ∀ (j : Nat) (e0 e : Bytes), (dirOf d r)[j]? = some e0 → isExtent e0 = false → dir2[j]? = some e → isExtent e = true →
    32 ≤ status e0 ∧ Hdr user base typ e ∧ ∃ x, XEnt d (dirOf d r) sr f x e
  /-- two new entries describe different physical extents -/
  xinj : ∀ (i j : Nat) (e0i e0j ei ej : Bytes), (dirOf d r)[i]? = some e0i → isExtent e0i = false → (dirOf d r)[j]? = some e0j →
    isExtent e0j = false → dir2[i]? = some ei → dir2[j]? = some ej → isExtent ei = true → isExtent ej = true →
    extNum ei / (d.exm + 1) = extNum ej / (d.exm + 1) → i = j
  /-- every stored chunk lies in a physical extent that has an entry -/
  cover : ∀ (g : Nat) (c : Bytes), f.chunks.lookup g = some c → ∃ (j : Nat) (e0 e : Bytes), (dirOf d r)[j]? = some e0 ∧
    isExtent e0 = false ∧ dir2[j]? = some e ∧ isExtent e = true ∧ extNum e / (d.exm + 1) = g / slots d
  dist : PtrsDistinct d dir2

end A2Verif.FsCpm
