import A2Verif.Lemmas.FsCpmBuild
/-!
# The file `get_file` finds: its `entries` are exactly the directory entries of one reader key
-/
namespace A2Verif.FsCpm
open A2Verif.Fs.Cpm
open A2Verif.Read.Cpm (Dpb fileKey extNum)

theorem isExtent_iff (e : Bytes) : isExtent e = true ↔ e.getD 0 0 < 16 := by
  unfold isExtent status; simp

/-- under the invariant two different file entries of one file describe different physical extents -/
theorem dir_distinct {d : Dpb} {r : Raw} (h : Inv d r) : (dirOf d r).Pairwise (fun a b =>
    a.getD 0 0 < 16 → b.getD 0 0 < 16 → fileKey a = fileKey b → extNum a / (d.exm + 1) ≠ extNum b / (d.exm + 1)) := by
  rw [List.pairwise_iff_forall_sublist]
  intro a b hsub ha hb hk
  have hma : a ∈ dirOf d r := hsub.subset List.mem_cons_self
  have hka : fileKey a ∈ keys d r := mem_keys.2 ⟨a, mem_fents.2 ⟨hma, ha⟩, rfl⟩
  have hnd := dupFree_nodup (h.good _ hka).1
  have h1 : ([a, b].filter (fun e => decide (e.getD 0 0 < 16))).filter (fun e => fileKey e == fileKey a) = [a, b] := by
    have ha' : decide (a.getD 0 0 < 16) = true := decide_eq_true ha
    have hb' : decide (b.getD 0 0 < 16) = true := decide_eq_true hb
    have e1 : List.filter (fun e : Bytes => decide (e.getD 0 0 < 16)) [a, b] = [a, b] := by
      rw [List.filter_cons_of_pos (p := fun e : Bytes => decide (e.getD 0 0 < 16)) ha',
        List.filter_cons_of_pos (p := fun e : Bytes => decide (e.getD 0 0 < 16)) hb', List.filter_nil]
    have e2 : List.filter (fun e : Bytes => fileKey e == fileKey a) [a, b] = [a, b] := by
      rw [List.filter_cons_of_pos (p := fun e : Bytes => fileKey e == fileKey a) (by simp),
        List.filter_cons_of_pos (p := fun e : Bytes => fileKey e == fileKey a) (by rw [hk]; simp), List.filter_nil]
    rw [e1, e2]
  have h2 : [a, b].Sublist (esOf d r (fileKey a)) := by
    rw [← h1]
    exact (hsub.filter _).filter _
  have h3 := (h2.map (fun e => extNum e / (d.exm + 1))).nodup hnd
  simp only [List.map_cons, List.map_nil, List.nodup_cons, List.mem_singleton] at h3
  exact h3.1

theorem dataPtr_eq {e : Bytes} (c : CleanEntry e) : Ext.dataPtr e = extNum e := by
  unfold Ext.dataPtr Ext.idxLow Ext.idxHigh Read.Cpm.extNum
  have := c.ex; have := c.s2
  omega

/-- the record `get_file` returns: it has entries, they are file entries with its key, and every file entry with its key is among them -/
theorem found_spec {d : Dpb} {r : Raw} {v3 : Bool} {files : List FileInfo} {k : Bytes} {fi : FileInfo} (h : Inv d r)
    (hb : buildFiles d v3 (dirOf d r) = .ok files) (hf : lookupKey files k = some fi) :
    fi.key = k ∧ fi.entries ≠ [] ∧
    (∀ p ∈ fi.entries, ∃ e, (dirOf d r)[p.2]? = some e ∧ e.getD 0 0 < 16 ∧ modelKey e = k) ∧
    (∀ j e, (dirOf d r)[j]? = some e → e.getD 0 0 < 16 → modelKey e = k → ∃ dp, (dp, j) ∈ fi.entries) := by
  have hB := buildFiles_spec hb
  unfold lookupKey at hf
  have hkey : fi.key = k := by simpa using List.find?_some hf
  have hent : entOf files k = fi.entries := by unfold entOf; rw [hf]
  refine ⟨hkey, hB.nonempty fi (List.mem_of_find?_eq_some hf), ?_, ?_⟩
  · intro p hp
    rw [← hent] at hp
    obtain ⟨_, e, he, hx, hk, _⟩ := hB.sound k p hp
    exact ⟨e, he, (isExtent_iff e).1 hx, hk⟩
  · intro j e he hu hk
    have hj : j < (dirOf d r).length := (List.getElem?_eq_some_iff.1 he).1
    obtain ⟨j', hj', hm⟩ := hB.complete j hj e he ((isExtent_iff e).2 hu)
    rw [hk, hent] at hm
    by_cases c : j' = j
    · subst c; exact ⟨_, hm⟩
    · exfalso
      rw [← hent] at hm
      obtain ⟨hj'l, e', he', hx', hk', hd'⟩ := hB.sound k _ hm
      simp only at he' hd' hj'l
      have hu' := (isExtent_iff e').1 hx'
      have hme : e ∈ fents d r := mem_fents.2 ⟨List.mem_of_getElem? he, hu⟩
      have hme' : e' ∈ fents d r := mem_fents.2 ⟨List.mem_of_getElem? he', hu'⟩
      have hl := dirOf_entry_length h.shape h.dpb
      have hfk : fileKey e = fileKey e' := (modelKey_iff hu hu' (hl _ (mem_fents.1 hme).1) (hl _ (mem_fents.1 hme').1)
        (h.clean _ hme) (h.clean _ hme')).1 (by rw [hk, hk'])
      have hpw := List.pairwise_iff_getElem.1 (dir_distinct h) j j' hj hj'l (by omega)
      obtain ⟨_, e1⟩ := List.getElem?_eq_some_iff.1 he
      obtain ⟨_, e2⟩ := List.getElem?_eq_some_iff.1 he'
      rw [e1, e2] at hpw
      apply hpw hu hu' hfk
      rw [← dataPtr_eq (h.clean _ hme), ← dataPtr_eq (h.clean _ hme'), hd']

end A2Verif.FsCpm
